(* With the lock, under every schedule of any number of publisher tasks, no signature is forwarded twice - neither by
   two tasks nor twice by one; without it two tasks forward the same snapshot under an interleaving of four steps. *)
From QV Require Import Base.Util Agents.Agents Agents.AgentsProofs Agents.PubConc.

Section PubConcProofs.
  Variables Sn Sig : Type.
  Variable Sig_eqb : Sig -> Sig -> bool.
  Hypothesis Sig_eqb_eq : forall a b, Sig_eqb a b = true <-> a = b.
  Notation pstate := (pstate Sn Sig).
  Notation task := (task Sn Sig).
  Notation pstep := (pstep Sn Sig Sig_eqb).

  Definition fwd (s : pstate) (i : nat) (g : Sig) : Prop := In g (map snd (t_out _ _ (p_tasks _ _ s i))).

  Definition Inv (s : pstate) : Prop :=
    (forall i g, fwd s i g -> In g (p_cache _ _ s)) /\
    (forall i, NoDup (map snd (t_out _ _ (p_tasks _ _ s i)))) /\
    (forall i j g, i <> j -> fwd s i g -> fwd s j g -> False) /\
    (forall i ss, t_pend _ _ (p_tasks _ _ s i) = Some ss -> p_owner _ _ s = Some i /\ ~ In (snd ss) (p_cache _ _ s)).

  Lemma seen_in c g : seen Sig Sig_eqb c g = true <-> In g c.
  Proof.
    unfold seen. rewrite existsb_exists. split.
    - intros [x [Hx He]]. apply Sig_eqb_eq in He. subst. exact Hx.
    - intros Hi. exists g. split; [exact Hi|]. apply Sig_eqb_eq. reflexivity.
  Qed.

  Lemma upd_same f i (t : task) : upd Sn Sig f i t i = t.
  Proof. unfold upd. rewrite Nat.eqb_refl. reflexivity. Qed.
  Lemma upd_other f i j (t : task) : j <> i -> upd Sn Sig f i t j = f j.
  Proof. intros Hn. unfold upd. destruct (Nat.eqb j i) eqn:He; [apply Nat.eqb_eq in He; contradiction|reflexivity]. Qed.

  Lemma init_inv batches : Inv (pinit Sn Sig batches).
  Proof.
    unfold Inv, fwd, pinit. cbn. repeat split; try (intros; contradiction); try discriminate.
    intros i. constructor.
  Qed.

  Lemma step_inv s i : Inv s -> Inv (pstep true s i).
  Proof.
    intros Hs0. pose proof Hs0 as (I1 & I2 & I3 & I4). unfold PubConc.pstep. cbn [negb orb].
    set (t := p_tasks _ _ s i).
    destruct (match p_owner _ _ s with Some o => Nat.eqb o i | None => true end) eqn:Hmay; cbn [negb orb]; [|exact Hs0].
    destruct (idle Sn Sig t) eqn:Hidle; [exact Hs0|].
    destruct (t_pend _ _ t) as [ss|] eqn:Hp.
    - (* store + append *)
      destruct (I4 i ss Hp) as [Hown Hnc].
      assert (Hnf : forall j, ~ fwd s j (snd ss)) by (intros j Hf; apply Hnc; exact (I1 j _ Hf)).
      unfold Inv, fwd. cbn [p_cache p_owner p_tasks]. split; [|split; [|split]].
      + intros j g. destruct (Nat.eq_dec j i) as [->|Hn].
        * rewrite upd_same. cbn [t_out]. rewrite map_app, in_app_iff. cbn. intros [Hg|[Hg|[]]]; [right; exact (I1 i g Hg)|left; exact Hg].
        * rewrite (upd_other _ _ _ _ Hn). intros Hg. right. exact (I1 j g Hg).
      + intros j. destruct (Nat.eq_dec j i) as [->|Hn].
        * rewrite upd_same. cbn [t_out]. rewrite map_app. cbn. apply NoDup_app_intro; [exact (I2 i)|constructor; [intros []|constructor]|].
          intros x Hx [<-|[]]. exact (Hnf i Hx).
        * rewrite (upd_other _ _ _ _ Hn). exact (I2 j).
      + intros j k g Hjk. destruct (Nat.eq_dec j i) as [->|Hj]; destruct (Nat.eq_dec k i) as [->|Hk]; try contradiction.
        * rewrite upd_same, (upd_other _ _ _ _ Hk). cbn [t_out]. rewrite map_app, in_app_iff. cbn.
          intros [Hg|[Hg|[]]] Hk'; [exact (I3 i k g Hjk Hg Hk')|subst g; exact (Hnf k Hk')].
        * rewrite upd_same, (upd_other _ _ _ _ Hj). cbn [t_out]. rewrite map_app, in_app_iff. cbn.
          intros Hj' [Hg|[Hg|[]]]; [exact (I3 j i g Hjk Hj' Hg)|subst g; exact (Hnf j Hj')].
        * rewrite (upd_other _ _ _ _ Hj), (upd_other _ _ _ _ Hk). exact (I3 j k g Hjk).
      + intros j ss'. destruct (Nat.eq_dec j i) as [->|Hn].
        * rewrite upd_same. cbn [t_pend]. discriminate.
        * rewrite (upd_other _ _ _ _ Hn). intros Hp'. destruct (I4 j ss' Hp') as [Ho _]. rewrite Hown in Ho. injection Ho as Ho. symmetry in Ho. contradiction.
    - destruct (t_todo _ _ t) as [|ss r] eqn:Ht; [exact Hs0|].
      (* no other task is between its lookup and its store: it would own the lock *)
      assert (Hnop : forall j ss', j <> i -> t_pend _ _ (p_tasks _ _ s j) = Some ss' -> False).
      { intros j ss' Hn Hp'. destruct (I4 j ss' Hp') as [Ho _]. rewrite Ho in Hmay. apply Nat.eqb_eq in Hmay. contradiction. }
      unfold Inv, fwd. cbn [p_cache p_owner p_tasks].
      destruct (seen Sig Sig_eqb (p_cache _ _ s) (snd ss)) eqn:Hseen.
      + split; [|split; [|split]].
        * intros j g. destruct (Nat.eq_dec j i) as [->|Hn]; [rewrite upd_same; cbn [t_out]; exact (I1 i g)|rewrite (upd_other _ _ _ _ Hn); exact (I1 j g)].
        * intros j. destruct (Nat.eq_dec j i) as [->|Hn]; [rewrite upd_same; cbn [t_out]; exact (I2 i)|rewrite (upd_other _ _ _ _ Hn); exact (I2 j)].
        * intros j k g Hjk. destruct (Nat.eq_dec j i) as [->|Hj]; destruct (Nat.eq_dec k i) as [->|Hk]; try contradiction;
            rewrite ?upd_same, ?(upd_other _ _ _ _ Hj), ?(upd_other _ _ _ _ Hk); cbn [t_out]; exact (I3 _ _ g Hjk).
        * intros j ss'. destruct (Nat.eq_dec j i) as [->|Hn]; [rewrite upd_same; cbn [t_pend]; discriminate|].
          rewrite (upd_other _ _ _ _ Hn). intros Hp'. exfalso. exact (Hnop j ss' Hn Hp').
      + assert (Hnc : ~ In (snd ss) (p_cache _ _ s)) by (intros Hin; apply seen_in in Hin; rewrite Hin in Hseen; discriminate).
        split; [|split; [|split]].
        * intros j g. destruct (Nat.eq_dec j i) as [->|Hn]; [rewrite upd_same; cbn [t_out]; exact (I1 i g)|rewrite (upd_other _ _ _ _ Hn); exact (I1 j g)].
        * intros j. destruct (Nat.eq_dec j i) as [->|Hn]; [rewrite upd_same; cbn [t_out]; exact (I2 i)|rewrite (upd_other _ _ _ _ Hn); exact (I2 j)].
        * intros j k g Hjk. destruct (Nat.eq_dec j i) as [->|Hj]; destruct (Nat.eq_dec k i) as [->|Hk]; try contradiction;
            rewrite ?upd_same, ?(upd_other _ _ _ _ Hj), ?(upd_other _ _ _ _ Hk); cbn [t_out]; exact (I3 _ _ g Hjk).
        * intros j ss'. destruct (Nat.eq_dec j i) as [->|Hn].
          -- rewrite upd_same. cbn [t_pend idle t_todo andb]. intros Heq. injection Heq as <-. split; [unfold idle; cbn [t_todo t_pend andb]; destruct r; reflexivity|exact Hnc].
          -- rewrite (upd_other _ _ _ _ Hn). intros Hp'. exfalso. exact (Hnop j ss' Hn Hp').
  Qed.

  (* every schedule, any number of tasks: no signature is forwarded by two tasks, nor twice by one *)
  Theorem locked_publisher_once batches sched :
    let s := prun Sn Sig Sig_eqb true (pinit Sn Sig batches) sched in
    (forall i, NoDup (map snd (t_out _ _ (p_tasks _ _ s i)))) /\
    (forall i j g, i <> j -> fwd s i g -> fwd s j g -> False).
  Proof.
    cbn zeta. assert (Hinv : Inv (prun Sn Sig Sig_eqb true (pinit Sn Sig batches) sched)).
    { unfold prun. generalize (init_inv batches). generalize (pinit Sn Sig batches).
      induction sched as [|i r IH]; intros s Hs; [exact Hs|]. cbn [fold_left]. apply IH. apply step_inv. exact Hs. }
    destruct Hinv as (_ & I2 & I3 & _). split; [exact I2|exact I3].
  Qed.
End PubConcProofs.

(* the code before fix 36f634f: two tasks, one shared signed snapshot, four steps *)
Example unlocked_forwards_twice :
  let s := prun N N N.eqb false (pinit N N [[(7, 42)]; [(7, 42)]]) [0; 1; 0; 1]%nat in
  t_out _ _ (p_tasks _ _ s 0%nat) = [(7, 42)] /\ t_out _ _ (p_tasks _ _ s 1%nat) = [(7, 42)].
Proof. vm_compute. split; reflexivity. Qed.
Example locked_same_schedule :
  let s := prun N N N.eqb true (pinit N N [[(7, 42)]; [(7, 42)]]) [0; 1; 0; 1; 1; 1]%nat in
  t_out _ _ (p_tasks _ _ s 0%nat) = [(7, 42)] /\ t_out _ _ (p_tasks _ _ s 1%nat) = [].
Proof. vm_compute. split; reflexivity. Qed.
