(* cmd/agent_auditor.go, cmd/agent_monitor.go, cmd/agent_publisher.go: the decision logic of the three agents.
   No proofs here. *)
From QV Require Import Base.Util Base.HashSig History.HistModel History.HistSpec Hyper.HyperModel Balloon.Balloon.

Section Agents.
  Variables D E V : Type.
  Variable H : hin D E V -> D.
  Variable nbits : nat.
  Variable kbits : E -> key.
  Variable vval : N -> V.
  Variable D_eqb : D -> D -> bool.
  Variable E_eqb : E -> E -> bool.

  Inductive averdict := Quiet | Alerted | NoVerdict.

  (* membershipFactory.New: the batch's first snapshot g; the log's answer to MembershipDigest(g.event, g.version);
     the snapshot store's hyper digest for the answer's current version.
     A failed request or a missing stored snapshot ends the task without a verdict (an alert is raised for one
     error type only; the property speaks about proofs that fail to verify). *)
  Definition auditor (answer : qresult D E V) (stored : N -> option D) (g : snapshot D E) : averdict :=
    match answer with
    | QOk _ _ _ a =>
        match stored (a_current D E V a) with
        | None => NoVerdict
        | Some y =>
            match digest_verify D E V H nbits kbits vval D_eqb E_eqb a (s_event D E g) (s_hist D E g) y with
            | Accept => Quiet
            | Reject => Alerted
            end
        end
    | _ => NoVerdict
    end.

  (* incrementalFactory.New: first and last snapshot of the batch; the log's answer to Incremental(first.version,
     last.version) (None = the request failed: the monitor alerts). *)
  Definition monitor (answer : option (list (pos * D))) (first last : snapshot D E) : averdict :=
    match answer with
    | None => Alerted
    | Some p =>
        match incremental_verify D E V H D_eqb p (s_version D E first) (s_version D E last) (s_hist D E first) (s_hist D E last) with
        | Accept => Quiet
        | Reject => Alerted
        end
    end.

  (* the control skeletons the harness compares with the real tasks: the verifier's verdict is an input *)
  Definition auditor_skel (answered stored_found verified : bool) : averdict :=
    if answered then if stored_found then if verified then Quiet else Alerted else NoVerdict else NoVerdict.
  Definition monitor_skel (answered verified : bool) : averdict :=
    if answered then if verified then Quiet else Alerted else Alerted.
End Agents.

(* publisherFactory.New: a cache keyed by signature; a batch is forwarded reduced to the signed snapshots whose
   signature has not been seen; a batch with nothing new is not forwarded at all. *)
Section Publisher.
  Variables Sn Sig : Type.
  Variable Sig_eqb : Sig -> Sig -> bool.

  Definition seen (cache : list Sig) (g : Sig) : bool := existsb (Sig_eqb g) cache.

  Fixpoint pub_filter (cache : list Sig) (batch : list (Sn * Sig)) : list Sig * list (Sn * Sig) :=
    match batch with
    | [] => (cache, [])
    | ss :: r => if seen cache (snd ss) then pub_filter cache r
                 else let '(c, out) := pub_filter (snd ss :: cache) r in (c, ss :: out)
    end.

  (* one delivered batch: new cache, what is sent to the store (None: nothing sent) *)
  Definition pub_step (cache : list Sig) (batch : list (Sn * Sig)) : list Sig * option (list (Sn * Sig)) :=
    let '(c, out) := pub_filter cache batch in (c, match out with [] => None | _ => Some out end).

  Fixpoint pub_run (cache : list Sig) (batches : list (list (Sn * Sig))) : list Sig * list (list (Sn * Sig)) :=
    match batches with
    | [] => (cache, [])
    | b :: r => let '(c1, o) := pub_step cache b in
                let '(c2, os) := pub_run c1 r in
                (c2, match o with Some x => x :: os | None => os end)
    end.
End Publisher.
