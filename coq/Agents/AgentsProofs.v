From QV Require Import Base.Util Base.HashSig History.HistModel History.HistSpec History.HistProofs Hyper.HyperModel
  Balloon.Balloon Balloon.BalloonProofs Agents.Agents.

Lemma NoDup_app_intro {A} (l1 l2 : list A) :
  NoDup l1 -> NoDup l2 -> (forall x, In x l1 -> In x l2 -> False) -> NoDup (l1 ++ l2).
Proof.
  induction l1 as [|a l1 IH]; intros H1 H2 Hd; [exact H2|]. inversion H1; subst. cbn. constructor.
  - intros Hin. apply in_app_or in Hin. destruct Hin as [Hin|Hin]; [contradiction|]. apply (Hd a); [left; reflexivity|exact Hin].
  - apply IH; [assumption|assumption|]. intros x Hx1 Hx2. apply (Hd x); [right; exact Hx1|exact Hx2].
Qed.

Section PublisherProofs.
  Variables Sn Sig : Type.
  Variable Sig_eqb : Sig -> Sig -> bool.
  Hypothesis Sig_eqb_eq : forall a b, Sig_eqb a b = true <-> a = b.

  Notation pub_filter := (pub_filter Sn Sig Sig_eqb).
  Notation pub_step := (pub_step Sn Sig Sig_eqb).
  Notation pub_run := (pub_run Sn Sig Sig_eqb).

  Lemma seen_in c g : seen Sig Sig_eqb c g = true <-> In g c.
  Proof.
    unfold seen. rewrite existsb_exists. split.
    - intros [x [Hx He]]. apply Sig_eqb_eq in He. subst. exact Hx.
    - intros Hi. exists g. split; [exact Hi|]. apply Sig_eqb_eq. reflexivity.
  Qed.

  Lemma pub_filter_spec batch : forall c c' out, pub_filter c batch = (c', out) ->
    NoDup (map snd out) /\ (forall g, In g (map snd out) -> ~ In g c) /\
    (forall g, In g c' <-> In g c \/ In g (map snd out)) /\
    (forall g, In g (map snd batch) -> In g c') /\ (forall x, In x out -> In x batch).
  Proof.
    induction batch as [|ss r IH]; intros c c' out; cbn [Agents.pub_filter].
    - intros Heq. injection Heq as <- <-. cbn. repeat split; try tauto. constructor.
    - destruct (seen Sig Sig_eqb c (snd ss)) eqn:Hs.
      + intros Heq. destruct (IH _ _ _ Heq) as (H1 & H2 & H3 & H4 & H5). repeat split; auto.
        * apply H3. * apply H3.
        * intros g [<-|Hg]; [apply H3; left; apply seen_in; exact Hs|apply H4; exact Hg].
        * intros x Hx. right. apply H5. exact Hx.
      + destruct (pub_filter (snd ss :: c) r) as [c1 o1] eqn:Hf. intros Heq. injection Heq as <- <-.
        destruct (IH _ _ _ Hf) as (H1 & H2 & H3 & H4 & H5).
        assert (Hns : ~ In (snd ss) c) by (intros Hc; apply seen_in in Hc; congruence).
        repeat split.
        * cbn. constructor; [|exact H1]. intros Hin. apply (H2 _ Hin). left. reflexivity.
        * intros g [<-|Hg]; [exact Hns|]. intros Hc. apply (H2 _ Hg). right. exact Hc.
        * intros Hg. apply H3 in Hg. cbn. destruct Hg as [[<-|Hg]|Hg]; tauto.
        * cbn. intros [Hg|[<-|Hg]]; apply H3; [left; right; exact Hg|left; left; reflexivity|right; exact Hg].
        * intros g [<-|Hg]; [apply H3; left; left; reflexivity|apply H4; exact Hg].
        * intros x [<-|Hx]; [left; reflexivity|right; apply H5; exact Hx].
  Qed.

  (* Over ANY sequence of delivered batches (any redelivery pattern, duplicates inside a batch included), starting
     from an empty cache: no signature is forwarded twice, every delivered signature is forwarded, only delivered
     signed snapshots are forwarded, and no empty batch is sent. *)
  Lemma pub_run_spec batches : forall c c' outs, pub_run c batches = (c', outs) ->
    NoDup (map snd (concat outs)) /\ (forall g, In g (map snd (concat outs)) -> ~ In g c) /\
    (forall g, In g c' <-> In g c \/ In g (map snd (concat outs))) /\
    (forall g, In g (map snd (concat batches)) -> In g c') /\
    (forall x, In x (concat outs) -> In x (concat batches)) /\ Forall (fun o => o <> []) outs.
  Proof.
    induction batches as [|b r IH]; intros c c' outs; cbn [Agents.pub_run].
    - intros Heq. injection Heq as <- <-. cbn. repeat split; try tauto; constructor.
    - unfold Agents.pub_step. destruct (pub_filter c b) as [c1 o] eqn:Hf.
      destruct (pub_run c1 r) as [c2 os] eqn:Hr. intros Heq. injection Heq as <- <-.
      destruct (pub_filter_spec _ _ _ _ Hf) as (F1 & F2 & F3 & F4 & F5).
      destruct (IH _ _ _ Hr) as (R1 & R2 & R3 & R4 & R5 & R6).
      assert (Hcat : concat (match (match o with [] => None | _ => Some o end) with Some x => x :: os | None => os end) = o ++ concat os)
        by (destruct o; reflexivity).
      rewrite Hcat, map_app. repeat split.
      + apply NoDup_app_intro; [exact F1|exact R1|]. intros g Hg1 Hg2. apply (R2 _ Hg2). apply F3. right. exact Hg1.
      + intros g Hg Hc. apply in_app_or in Hg. destruct Hg as [Hg|Hg]; [exact (F2 _ Hg Hc)|]. apply (R2 _ Hg). apply F3. left. exact Hc.
      + intros Hg. apply R3 in Hg. rewrite in_app_iff. destruct Hg as [Hg|Hg]; [apply F3 in Hg; tauto|tauto].
      + rewrite in_app_iff. intros [Hg|[Hg|Hg]]; apply R3; [left; apply F3; left; exact Hg|left; apply F3; right; exact Hg|right; exact Hg].
      + cbn [concat]. rewrite map_app. intros g Hg. apply in_app_or in Hg. destruct Hg as [Hg|Hg]; [apply R3; left; apply F4; exact Hg|apply R4; exact Hg].
      + cbn [concat]. intros x Hx. apply in_app_or in Hx. apply in_or_app. destruct Hx as [Hx|Hx]; [left; apply F5; exact Hx|right; apply R5; exact Hx].
      + destruct o; [exact R6|]. constructor; [discriminate|exact R6].
  Qed.

  Theorem publisher_once batches c' outs : pub_run [] batches = (c', outs) ->
    NoDup (map snd (concat outs)) /\
    (forall g, In g (map snd (concat batches)) <-> In g (map snd (concat outs))) /\
    (forall x, In x (concat outs) -> In x (concat batches)) /\ Forall (fun o => o <> []) outs.
  Proof.
    intros Hr. destruct (pub_run_spec _ _ _ _ Hr) as (R1 & R2 & R3 & R4 & R5 & R6).
    split; [exact R1|]. split; [|split; [exact R5|exact R6]]. intros g. split.
    - intros Hg. apply R4, R3 in Hg. destruct Hg as [[]|Hg]. exact Hg.
    - intros Hg. apply in_map_iff in Hg. destruct Hg as [x [<- Hx]]. apply in_map. apply R5. exact Hx.
  Qed.
End PublisherProofs.

Section AgentsProofs.
  Variables D E V : Type.
  Variable H : hin D E V -> D.
  Variable nbits limit : nat.
  Variable kbits : E -> key.
  Variable vval : N -> V.
  Variable vnum : V -> N.
  Variable D_eqb : D -> D -> bool.
  Variable E_eqb : E -> E -> bool.
  Variable e0 : E.
  Hypothesis kbits_len : forall e, length (kbits e) = nbits.
  Hypothesis D_eqb_eq : forall a b, D_eqb a b = true <-> a = b.
  Hypothesis limit_lt : (limit < nbits)%nat.
  Hypothesis nbits_small : N.of_nat nbits < 65536.
  Hypothesis kbits_inj : forall a b, kbits a = kbits b -> a = b.
  Hypothesis vnum_vval : forall v, v < W64 -> vnum (vval v) = v.
  Hypothesis E_eqb_eq : forall a b, E_eqb a b = true <-> a = b.

  Notation ds := (dlist D E V H nbits).
  Notation reach := (reach D E V H nbits limit kbits vval).
  Notation root := (root D E V H).
  Notation auditor := (auditor D E V H nbits kbits vval D_eqb E_eqb).
  Notation monitor := (monitor D E V H D_eqb).
  Notation query_c := (query_membership_consistency D E V H nbits ds kbits vnum).

  (* the snapshot the log issued for version v *)
  Definition genuine (evs : list E) (v : N) (g : snapshot D E) : Prop :=
    s_event D E g = nth (N.to_nat v) evs e0 /\ s_hist D E g = root (logf E e0 evs) v /\ s_version D E g = v.

  (* Honest log of distinct events, honest store: the auditor is quiet for every gossiped snapshot *)
  Theorem auditor_quiet_on_honest_log st evs v g stored :
    reach st evs -> N.of_nat (length evs) < W64 -> NoDup (map kbits evs) ->
    v < b_version D V st -> genuine evs v g ->
    stored (b_version D V st - 1) = Some (hyper_digest D E V H ds st) ->
    auditor (query_c st (s_event D E g) (s_version D E g)) stored g = Quiet.
  Proof.
    intros Hr Hlen Hnd Hv (Hge & Hgh & Hgv) Hst.
    pose proof (reach_inv D E V H nbits limit kbits vval e0 kbits_len _ _ Hr) as HI.
    pose proof (inv_version _ _ _ _ _ _ _ _ _ _ _ HI) as Hver.
    assert (Hvn : (N.to_nat v < length evs)%nat) by lia.
    assert (Hget : map_get V (b_hmap D V st) (kbits (s_event D E g)) = Some (vval v)).
    { apply (map_get_in V _ _ _ (inv_nodup _ _ _ _ _ _ _ _ _ _ _ HI)).
      rewrite (hmap_of_distinct_events D E V H nbits limit kbits vval e0 kbits_len st evs Hr Hnd).
      apply in_map_iff. exists (N.to_nat v). split; [rewrite Hge, N2Nat.id; reflexivity|]. apply in_seq. lia. }
    assert (Hvv : vnum (vval v) = v) by (apply vnum_vval; lia).
    destruct (membership_answer_verifies D E V H nbits limit kbits vval vnum D_eqb E_eqb e0 kbits_len D_eqb_eq
                limit_lt nbits_small kbits_inj vnum_vval E_eqb_eq st evs (s_event D E g) (vval v) v Hr Hlen Hget
                ltac:(rewrite Hvv; lia) Hv) as (a & Ha & _ & _ & _ & Hcur & _ & Hacc).
    rewrite Hgv, Ha. unfold Agents.auditor. rewrite Hcur, Hst, Hgh, Hacc. reflexivity.
  Qed.

  (* the auditor alerts exactly when the verifier rejects the answer against (gossiped history digest, stored
     hyper digest of the answer's current version) *)
  Theorem auditor_alerts_iff answer stored g :
    auditor answer stored g = Alerted <->
    exists a y, answer = QOk D E V a /\ stored (a_current D E V a) = Some y /\
                digest_verify D E V H nbits kbits vval D_eqb E_eqb a (s_event D E g) (s_hist D E g) y = Reject.
  Proof.
    unfold Agents.auditor. split.
    - destruct answer as [a| |]; try discriminate. destruct (stored (a_current D E V a)) as [y|] eqn:Hs; [|discriminate].
      destruct (digest_verify _ _ _ _ _ _ _ _ _ a _ _ y) eqn:Hv; [discriminate|]. intros _. exists a, y. auto.
    - intros (a & y & -> & Hs & Hv). rewrite Hs, Hv. reflexivity.
  Qed.

  (* monitor: quiet on the honest log for every batch (first and last any two issued snapshots, first <= last) *)
  Theorem monitor_quiet_on_honest_log st evs s e first last p :
    reach st evs -> s <= e -> e < b_version D V st ->
    genuine evs s first -> genuine evs e last ->
    query_consistency D E V H st s e = Some (Some p) ->
    monitor (Some p) first last = Quiet.
  Proof.
    intros Hr Hse He (_ & Hfh & Hfv) (_ & Hlh & Hlv) Hq.
    pose proof (reach_inv D E V H nbits limit kbits vval e0 kbits_len _ _ Hr) as HI.
    set (A := logf E e0 evs).
    assert (Hstore : StoreOK D E V H A (hget D V st) (b_version D V st - 1)).
    { intros j h Ha Hf. apply (inv_store _ _ _ _ _ _ _ _ _ _ _ HI A); [|exact Ha|lia].
      intros i Hi. unfold A, logf. rewrite Nat2N.id. reflexivity. }
    destruct (incremental_complete D E V H A (hget D V st) (b_version D V st - 1) Hstore s e Hse ltac:(lia)) as (path & Hp & Hroots).
    unfold query_consistency in Hq.
    destruct ((b_version D V st <=? s) || (b_version D V st <=? e) || (e <? s)); [discriminate|].
    injection Hq as Hq. rewrite Hp in Hq. injection Hq as <-.
    unfold Agents.monitor, incremental_verify. rewrite Hfv, Hlv, Hroots, Hfh, Hlh.
    assert (R1 : D_eqb (root A s) (root A s) = true) by (apply D_eqb_eq; reflexivity).
    assert (R2 : D_eqb (root A e) (root A e) = true) by (apply D_eqb_eq; reflexivity).
    fold A. rewrite R1, R2. reflexivity.
  Qed.

  (* the server does answer such a query *)
  Theorem monitor_query_answered st evs s e :
    reach st evs -> s <= e -> e < b_version D V st ->
    exists p, query_consistency D E V H st s e = Some (Some p).
  Proof.
    intros Hr Hse He.
    pose proof (reach_inv D E V H nbits limit kbits vval e0 kbits_len _ _ Hr) as HI.
    set (A := logf E e0 evs).
    assert (Hstore : StoreOK D E V H A (hget D V st) (b_version D V st - 1)).
    { intros j h Ha Hf. apply (inv_store _ _ _ _ _ _ _ _ _ _ _ HI A); [|exact Ha|lia].
      intros i Hi. unfold A, logf. rewrite Nat2N.id. reflexivity. }
    destruct (incremental_complete D E V H A (hget D V st) (b_version D V st - 1) Hstore s e Hse ltac:(lia)) as (path & Hp & _).
    exists path. unfold query_consistency.
    assert (X1 : (b_version D V st <=? s) = false) by (apply N.leb_gt; lia).
    assert (X2 : (b_version D V st <=? e) = false) by (apply N.leb_gt; lia).
    assert (X3 : (e <? s) = false) by (apply N.ltb_ge; lia).
    rewrite X1, X2, X3. cbn. rewrite Hp. reflexivity.
  Qed.

  Theorem monitor_alerts_iff answer first last :
    monitor answer first last = Alerted <->
    answer = None \/ exists p, answer = Some p /\
      incremental_verify D E V H D_eqb p (s_version D E first) (s_version D E last) (s_hist D E first) (s_hist D E last) = Reject.
  Proof.
    unfold Agents.monitor. destruct answer as [p|]; [|split; auto].
    destruct (incremental_verify _ _ _ _ _ p _ _ _ _) eqn:Hv; split; try discriminate.
    - intros [Hn|(q & Hq & Hr)]; [discriminate|]. injection Hq as <-. congruence.
    - intros _. right. exists p. auto.
    - reflexivity.
  Qed.

  Hypothesis H_inj : forall a b, H a = H b -> a = b.

  (* tampering is caught, whatever the log answers: if the auditor stays quiet about a gossiped snapshot whose
     history digest is the authentic digest of log A at version v, then the snapshot's event IS in A at a
     version the answer names, not beyond v - an altered event digest, or an event that is not in the log,
     cannot pass *)
  Theorem auditor_quiet_sound (A : N -> E) answer stored g v :
    auditor answer stored g = Quiet -> s_hist D E g = root A v ->
    exists a, answer = QOk D E V a /\ s_event D E g = A (a_actual D E V a) /\ a_actual D E V a <= v.
  Proof.
    unfold Agents.auditor. destruct answer as [a| |]; try discriminate.
    destruct (stored (a_current D E V a)) as [y|]; [|discriminate].
    destruct (digest_verify _ _ _ _ _ _ _ _ _ a _ _ y) eqn:Hv; [|discriminate]. intros _ Hh. rewrite Hh in Hv.
    destruct (digest_verify_sound D E V H nbits kbits vval D_eqb E_eqb H_inj D_eqb_eq A a _ v y Hv) as (_ & _ & Hd & Hle).
    exists a. auto.
  Qed.

  (* if the monitor stays quiet about first/last carrying the authentic digests of logs A (version i') and B
     (version j'), the two logs agree up to the first snapshot's version: a fork before it is caught *)
  Theorem monitor_quiet_sound (A B : N -> E) p first last i' j' :
    monitor (Some p) first last = Quiet -> s_version D E first <= s_version D E last ->
    s_hist D E first = root A i' -> s_hist D E last = root B j' ->
    forall k, k <= s_version D E first -> A k = B k.
  Proof.
    unfold Agents.monitor, incremental_verify. intros Hq Hse Hf Hl.
    destruct (incremental_roots D E V H (path_get p) (s_version D E first) (s_version D E last)) as [[ra|] [rb|]] eqn:Hr; try discriminate.
    destruct (D_eqb ra (s_hist D E first) && D_eqb rb (s_hist D E last)) eqn:Hb; [|discriminate].
    apply andb_true_iff in Hb. destruct Hb as [Ha Hbb]. apply D_eqb_eq in Ha. apply D_eqb_eq in Hbb. subst ra rb.
    rewrite Hf, Hl in Hr.
    exact (proj1 (incremental_sound D E V H H_inj A B (path_get p) _ _ i' j' Hse Hr)).
  Qed.
End AgentsProofs.
