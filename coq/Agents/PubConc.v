(* The publisher under the task manager's concurrency: every batch is handled by its own goroutine.  Small-step model
   of publisherFactory.New's loop (cache lookup, then cache store + append) for any number of tasks and any schedule,
   with and without the lock of fix 36f634f.  Executable (the schedule is a list of task numbers). *)
From QV Require Import Base.Util Agents.Agents.

Section PubConc.
  Variables Sn Sig : Type.
  Variable Sig_eqb : Sig -> Sig -> bool.

  Record task := { t_todo : list (Sn * Sig); t_pend : option (Sn * Sig); t_out : list (Sn * Sig) }.
  Record pstate := { p_cache : list Sig; p_owner : option nat; p_tasks : nat -> task }.

  Definition upd (f : nat -> task) (i : nat) (t : task) : nat -> task := fun j => if Nat.eqb j i then t else f j.
  Definition idle (t : task) : bool := match t_todo t, t_pend t with [], None => true | _, _ => false end.

  (* one step of task i (a step that is not enabled leaves the state unchanged) *)
  Definition pstep (locked : bool) (s : pstate) (i : nat) : pstate :=
    let t := p_tasks s i in
    let may := negb locked || match p_owner s with Some o => Nat.eqb o i | None => true end in
    if negb may || idle t then s else
    let owner' := if locked then Some i else p_owner s in
    match t_pend t with
    | Some ss =>
        (* remember the signature and append the snapshot to what will be forwarded *)
        let t' := {| t_todo := t_todo t; t_pend := None; t_out := t_out t ++ [ss] |} in
        {| p_cache := snd ss :: p_cache s;
           p_owner := if locked && idle t' then None else owner';
           p_tasks := upd (p_tasks s) i t' |}
    | None =>
        match t_todo t with
        | [] => s
        | ss :: r =>
            (* look the signature up *)
            let t' := if seen Sig Sig_eqb (p_cache s) (snd ss)
                      then {| t_todo := r; t_pend := None; t_out := t_out t |}
                      else {| t_todo := r; t_pend := Some ss; t_out := t_out t |} in
            {| p_cache := p_cache s;
               p_owner := if locked && idle t' then None else owner';
               p_tasks := upd (p_tasks s) i t' |}
        end
    end.

  Definition prun (locked : bool) (s : pstate) (sched : list nat) : pstate := fold_left (pstep locked) sched s.

  Definition pinit (batches : list (list (Sn * Sig))) : pstate :=
    {| p_cache := []; p_owner := None;
       p_tasks := fun i => {| t_todo := nth i batches []; t_pend := None; t_out := [] |} |}.
End PubConc.
