(* C18 - Gossip is bounded, processed once per agent and never self-addressed.
   Statements only; proofs are `exact` lemmas of Gossip/GossipProofs.v and Gossip/GossipView.v. *)
From Coq Require Import ZArith.
From QV Require Import Base.Util Gossip.Gossip Gossip.GossipProofs Gossip.GossipView Gossip.GossipTasks.

(* (1) every hop strictly lowers the TTL; a message whose TTL is exhausted (zero OR negative) is not sent on *)
Theorem C18_hop_lowers_ttl ttl t : send_ttl ttl = Some t -> (0 <= t < ttl)%Z.
Proof. exact (send_ttl_lower ttl t). Qed.
Theorem C18_exhausted_ttl_dies ttl : (ttl <= 0)%Z -> send_ttl ttl = None.
Proof. exact (send_ttl_dead ttl). Qed.

(* (2) hence dissemination terminates: along any chain of agents, however long, a message with initial TTL t
   (any integer) is forwarded at most max(0, t) times *)
Theorem C18_dissemination_bounded fuel ttl : (Z.of_nat (hops fuel ttl) <= Z.max 0 ttl)%Z.
Proof. exact (hops_bounded fuel ttl). Qed.

(* (3) an agent never routes a message to itself (nor to the peer named as source); every destination is a
   member of its view - for every topology and every outcome of the shuffle *)
Theorem C18_never_self_addressed t self src pick :
  (forall r c, c <> [] -> In (pick r c) c) ->
  forall d, In d (route t self src pick) -> d <> self /\ d <> src /\ exists r l, In (r, l) t /\ In d l.
Proof. exact (route_never_self t self src pick). Qed.

(* (4) tasks are created at most once per batch, whatever the number, order and origin of the deliveries, and
   exactly once for a batch not seen before (dedup cache idealised as unbounded) *)
Theorem C18_processed_at_most_once cache deliveries : NoDup (process cache deliveries).
Proof. exact (process_once cache deliveries). Qed.
Theorem C18_new_batch_processed cache deliveries d : In d deliveries -> ~ In d cache -> In d (process cache deliveries).
Proof. exact (process_all_new cache deliveries d). Qed.

(* (5) the view keeps one entry per member name in each role list under joins and leaves *)
Theorem C18_view_update t role name : TopoOK t -> TopoOK (topo_update t role name).
Proof. exact (topo_update_ok t role name). Qed.
Theorem C18_view_delete t role name : TopoOK t -> TopoOK (topo_delete t role name).
Proof. exact (topo_delete_ok t role name). Qed.

(* (6) ... and after ANY sequence of membership notifications (gossip/delegate.go applies them one after the other:
   join / update -> Topology.Update, leave -> Topology.Delete) the peers listed for a role are exactly those that joined
   and have not left since - [joined] adds on a join and removes on a leave - and none is listed twice *)
Theorem C18_view_is_the_set_of_joined_peers evs role name :
  NoDup (members (topo_run [] evs) role) /\
  (In name (members (topo_run [] evs) role) <-> joined evs role name = true).
Proof. exact (view_from_empty evs role name). Qed.
Theorem C18_view_consistent_from_any_view evs t P : TopoOK t -> agree t P ->
  TopoOK (topo_run t evs) /\ agree (topo_run t evs) (fold_left spec_step evs P).
Proof. exact (view_consistent evs t P). Qed.

Example C18_view_example :
  members (topo_run [] [MJoin 1 10; MJoin 1 11; MJoin 2 20; MLeave 1 10; MJoin 1 11; MLeave 3 5]) 1 = [11] /\
  joined [MJoin 1 10; MJoin 1 11; MJoin 2 20; MLeave 1 10; MJoin 1 11; MLeave 3 5] 1 11 = true /\
  joined [MJoin 1 10; MJoin 1 11; MJoin 2 20; MLeave 1 10; MJoin 1 11; MLeave 3 5] 1 10 = false.
Proof. repeat split; reflexivity. Qed.

Example C18_premises_hold :
  let t := topo_update (topo_update (topo_update [] 1 10) 2 20) 1 11 in
  TopoOK t /\ route t 10 10 (fun _ c => hd 0 c) = [11; 20] /\ hops 10 3 = 3%nat /\ hops 10 (-5) = 0%nat /\
  process [] [4; 4; 7; 4] = [4; 7].
Proof.
  cbn zeta. split; [apply C18_view_update, C18_view_update, C18_view_update; intros ? ? []|]. repeat split; reflexivity.
Qed.

(* several task factories and a task manager that may refuse tasks: whatever arrives and whatever is refused, each factory
   creates at most one task per batch (the batch is marked before the tasks are created) *)
Theorem C18_tasks_at_most_once_whatever_the_task_manager_refuses (nf : nat) (cache ds : list N) :
  NoDup (process_tm nf cache 0 ds).
Proof. exact (tasks_at_most_once nf cache ds). Qed.

(* marking the batch only after every task was accepted (seeded change C18-10) is refuted: two factories, the second one's
   task refused, the batch delivered twice - the first factory's task is created twice *)
Theorem C18_mark_after_accept_refuted :
  process_late 2 (fun _ k _ => Nat.eqb k 0) [] 0 [7; 7]%N = [(7%N, 0%nat); (7%N, 1%nat); (7%N, 0%nat); (7%N, 1%nat)] /\
  process_tm 2 [] 0 [7; 7]%N = [(7%N, 0%nat); (7%N, 1%nat)].
Proof. exact process_late_runs_a_task_twice. Qed.

Print Assumptions C18_dissemination_bounded.
Print Assumptions C18_never_self_addressed.
Print Assumptions C18_processed_at_most_once.
Print Assumptions C18_new_batch_processed.
Print Assumptions C18_view_update.
Print Assumptions C18_view_delete.
Print Assumptions C18_view_is_the_set_of_joined_peers.
Print Assumptions C18_view_consistent_from_any_view.
Print Assumptions C18_tasks_at_most_once_whatever_the_task_manager_refuses.
Print Assumptions C18_mark_after_accept_refuted.
