(* C19 - Agents alert exactly when verification fails and publish each snapshot once.
   Statements only; proofs are `exact` lemmas of Agents/AgentsProofs.v.
   The auditor and monitor models are the decision logic of the task factories over the balloon model (server
   side: query_membership_consistency / query_consistency; client side: digest_verify / incremental_verify);
   the publisher model is the signature-keyed filter with a cache that never forgets (the real cache is a
   bounded freecache: see DESIGN.md / evidence for what that leaves out). *)
From QV Require Import Base.Util Base.HashSig History.HistModel History.HistSpec History.HistProofs Hyper.HyperModel
  Balloon.Balloon Balloon.BalloonProofs Agents.Agents Agents.AgentsProofs Agents.PubConc Agents.PubConcProofs Properties.Instance.

Section C19.
  Variables D E V : Type.
  Variable H : hin D E V -> D.
  Variable nbits limit : nat.
  Variable kbits : E -> key.
  Variable vval : N -> V.
  Variable vnum : V -> N.
  Variable D_eqb : D -> D -> bool.
  Variable E_eqb : E -> E -> bool.
  Variable e0 : E.
  Hypothesis kbits_len : forall e, length (kbits e) = nbits.
  Hypothesis D_eqb_eq : forall a b, D_eqb a b = true <-> a = b.
  Hypothesis limit_lt : (limit < nbits)%nat.
  Hypothesis nbits_small : N.of_nat nbits < 65536.
  Hypothesis kbits_inj : forall a b, kbits a = kbits b -> a = b.
  Hypothesis vnum_vval : forall v, v < W64 -> vnum (vval v) = v.
  Hypothesis E_eqb_eq : forall a b, E_eqb a b = true <-> a = b.
  Notation ds := (dlist D E V H nbits).

  (* (1) honest log of distinct events (any sequence of Add/AddBulk calls), honest store: the auditor raises no
         alert for any gossiped snapshot, at any later state of the log *)
  Theorem C19_auditor_quiet_on_honest_log st evs v g stored :
    reach D E V H nbits limit kbits vval st evs -> N.of_nat (length evs) < W64 -> NoDup (map kbits evs) ->
    v < b_version D V st -> genuine D E V H e0 evs v g ->
    stored (b_version D V st - 1) = Some (hyper_digest D E V H ds st) ->
    auditor D E V H nbits kbits vval D_eqb E_eqb
      (query_membership_consistency D E V H nbits ds kbits vnum st (s_event D E g) (s_version D E g)) stored g = Quiet.
  Proof.
    exact (auditor_quiet_on_honest_log D E V H nbits limit kbits vval vnum D_eqb E_eqb e0 kbits_len D_eqb_eq
             limit_lt nbits_small kbits_inj vnum_vval E_eqb_eq st evs v g stored).
  Qed.

  (* (2) the auditor alerts exactly when the proof fails to verify against the published snapshots *)
  Theorem C19_auditor_alerts_iff answer stored g :
    auditor D E V H nbits kbits vval D_eqb E_eqb answer stored g = Alerted <->
    exists a y, answer = QOk D E V a /\ stored (a_current D E V a) = Some y /\
                digest_verify D E V H nbits kbits vval D_eqb E_eqb a (s_event D E g) (s_hist D E g) y = Reject.
  Proof. exact (auditor_alerts_iff D E V H nbits kbits vval D_eqb E_eqb answer stored g). Qed.

  (* (3) honest log: the monitor raises no alert for any batch (first <= last, both issued); the log answers *)
  Theorem C19_monitor_quiet_on_honest_log st evs s e first last p :
    reach D E V H nbits limit kbits vval st evs -> s <= e -> e < b_version D V st ->
    genuine D E V H e0 evs s first -> genuine D E V H e0 evs e last ->
    query_consistency D E V H st s e = Some (Some p) ->
    monitor D E V H D_eqb (Some p) first last = Quiet.
  Proof. exact (monitor_quiet_on_honest_log D E V H nbits limit kbits vval D_eqb e0 kbits_len D_eqb_eq limit_lt nbits_small st evs s e first last p). Qed.

  Theorem C19_monitor_query_answered st evs s e :
    reach D E V H nbits limit kbits vval st evs -> s <= e -> e < b_version D V st ->
    exists p, query_consistency D E V H st s e = Some (Some p).
  Proof. exact (monitor_query_answered D E V H nbits limit kbits vval e0 kbits_len limit_lt nbits_small st evs s e). Qed.

  Theorem C19_monitor_alerts_iff answer first last :
    monitor D E V H D_eqb answer first last = Alerted <->
    answer = None \/ exists p, answer = Some p /\
      incremental_verify D E V H D_eqb p (s_version D E first) (s_version D E last) (s_hist D E first) (s_hist D E last) = Reject.
  Proof. exact (monitor_alerts_iff D E V H D_eqb answer first last). Qed.

  Hypothesis H_inj : forall a b, H a = H b -> a = b.

  (* (4) alterations are caught whatever the log answers (premise: hash injective on structured inputs) *)
  Theorem C19_auditor_quiet_sound (A : N -> E) answer stored g v :
    auditor D E V H nbits kbits vval D_eqb E_eqb answer stored g = Quiet -> s_hist D E g = root D E V H A v ->
    exists a, answer = QOk D E V a /\ s_event D E g = A (a_actual D E V a) /\ a_actual D E V a <= v.
  Proof. exact (auditor_quiet_sound D E V H nbits kbits vval D_eqb E_eqb D_eqb_eq H_inj A answer stored g v). Qed.

  Theorem C19_monitor_quiet_sound (A B : N -> E) p first last i' j' :
    monitor D E V H D_eqb (Some p) first last = Quiet -> s_version D E first <= s_version D E last ->
    s_hist D E first = root D E V H A i' -> s_hist D E last = root D E V H B j' ->
    forall k, k <= s_version D E first -> A k = B k.
  Proof. exact (monitor_quiet_sound D E V H D_eqb D_eqb_eq H_inj A B p first last i' j'). Qed.
End C19.

Section C19p.
  Variables Sn Sig : Type.
  Variable Sig_eqb : Sig -> Sig -> bool.
  Hypothesis Sig_eqb_eq : forall a b, Sig_eqb a b = true <-> a = b.

  (* (5) publisher, over ANY sequence of delivered batches (every redelivery pattern): no signature is forwarded
         twice, every delivered signature is forwarded, nothing else is, and no empty batch is sent *)
  Theorem C19_publisher_once batches c' outs : pub_run Sn Sig Sig_eqb [] batches = (c', outs) ->
    NoDup (map snd (concat outs)) /\
    (forall g, In g (map snd (concat batches)) <-> In g (map snd (concat outs))) /\
    (forall x, In x (concat outs) -> In x (concat batches)) /\ Forall (fun o => o <> []) outs.
  Proof. exact (publisher_once Sn Sig Sig_eqb Sig_eqb_eq batches c' outs). Qed.

  (* (6) the task manager runs every batch's task in its own goroutine.  With the lock of fix 36f634f around the
         lookup-and-remember loop: for any number of tasks and EVERY schedule of their steps, no signature is forwarded by
         two tasks, nor twice by one.  (Go's sync.Mutex is modelled as: only the owner steps.) *)
  Theorem C19_publisher_once_concurrent batches sched :
    let s := prun Sn Sig Sig_eqb true (pinit Sn Sig batches) sched in
    (forall i, NoDup (map snd (t_out _ _ (p_tasks _ _ s i)))) /\
    (forall i j g, i <> j -> fwd Sn Sig s i g -> fwd Sn Sig s j g -> False).
  Proof. exact (locked_publisher_once Sn Sig Sig_eqb Sig_eqb_eq batches sched). Qed.
End C19p.

(* the pinned code had no lock: two tasks, one shared signed snapshot, four steps - both forward it *)
Example C19_publisher_unlocked_refuted :
  let s := prun N N N.eqb false (pinit N N [[(7, 42)]; [(7, 42)]]) [0; 1; 0; 1]%nat in
  t_out _ _ (p_tasks _ _ s 0%nat) = [(7, 42)] /\ t_out _ _ (p_tasks _ _ s 1%nat) = [(7, 42)].
Proof. vm_compute. split; reflexivity. Qed.

Example C19_premises_hold :
  reach D4 E4 N H4 4 2 kbits4 vid st2 evs2 /\ NoDup (map kbits4 evs2) /\
  snd (pub_run N N N.eqb [] [[(1, 10); (2, 20)]; [(2, 20); (3, 30); (1, 10)]; [(1, 10)]]) = [[(1, 10); (2, 20)]; [(3, 30)]].
Proof.
  split; [exact reach_st2|]. split; [|reflexivity]. repeat constructor; vm_compute; intuition discriminate.
Qed.

Print Assumptions C19_auditor_quiet_on_honest_log.
Print Assumptions C19_auditor_alerts_iff.
Print Assumptions C19_monitor_quiet_on_honest_log.
Print Assumptions C19_monitor_query_answered.
Print Assumptions C19_monitor_alerts_iff.
Print Assumptions C19_auditor_quiet_sound.
Print Assumptions C19_monitor_quiet_sound.
Print Assumptions C19_publisher_once.
Print Assumptions C19_publisher_once_concurrent.
