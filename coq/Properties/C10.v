(* C10 - Queries concurrent with insertions are answered from a consistent state.
   Statements only; proofs are `exact` lemmas of Fsm/Window.v.
   PARTIAL: the theorem covers the logic of the lock discipline (RaftNode.applyMu) for every schedule of any
   number of apply and query goroutines; freedom from data races in the Go memory model is runtime behaviour
   no Gallina model exhibits (the thorough tier runs the window and cluster scenarios under -race). *)
From QV Require Import Base.Util Fsm.Window.

Section C10.
  Variable Ev : Type.

  (* every schedule the lock permits, from every state satisfying the invariant (in particular the initial
     one): every query sees store and in-memory structures at the same version *)
  Theorem C10_queries_see_consistent_state sched s s' obs :
    winv Ev s -> wrun Ev true s sched = Some (s', obs) ->
    winv Ev s' /\ Forall (fun ob => fst ob = snd ob) obs.
  Proof. exact (window_consistent Ev sched s s' obs). Qed.

  Theorem C10_initial_state_ok evs : winv Ev (winit Ev evs).
  Proof. exact (winv_init Ev evs). Qed.

  (* a query issued between "computed" and "persisted" waits *)
  Theorem C10_query_waits evs c : wrun Ev true (winit Ev evs) [WLock Ev; WCompute Ev c; RLock Ev] = None.
  Proof. exact (window_query_waits Ev evs c). Qed.

  (* the same code without the discipline (the pinned commit) lets a query see a mixed state *)
  Theorem C10_unlocked_refuted (e : Ev) :
    exists sched s' obs, wrun Ev false (winit Ev []) sched = Some (s', obs) /\ Exists (fun ob => fst ob <> snd ob) obs.
  Proof. exact (window_unlocked_refuted Ev e). Qed.
End C10.

Example C10_premises_hold :
  wrun N true (winit N [1; 2]) [RLock N; RRead N; WLock N] = None /\
  exists s, wrun N true (winit N [1; 2]) [RLock N; RRead N; RUnlock N; WLock N; WCompute N [3]; WPersist N; WUnlock N; RLock N; RRead N; RUnlock N]
    = Some (s, [(2, 2); (3, 3)]%nat).
Proof. split; [reflexivity|]. eexists. reflexivity. Qed.

Print Assumptions C10_queries_see_consistent_state.
Print Assumptions C10_initial_state_ok.
Print Assumptions C10_query_waits.
Print Assumptions C10_unlocked_refuted.
