(* C20 - Client sends writes to the leader only and reads to a live, permitted node.
   Statements only; proofs are `exact` lemmas of Client/TopologyProofs.v. *)
From Coq Require Import ZArith.
From QV Require Import Base.Util Client.Topology Client.TopologyProofs.

(* (1) for every topology state with the cursor inside the list (an invariant, see (3)) and every read
   preference: the endpoint chosen is not marked dead and is one the preference permits *)
Theorem C20_read_never_dead_or_excluded t p i t' :
  WFc t -> next_read t p = (Some i, t') -> e_dead (obj t i) = false /\ permitted t p i.
Proof. exact (next_read_safe t p i t'). Qed.

(* (2) an endpoint is returned whenever a live permitted one exists *)
Theorem C20_read_finds_live_endpoint t p :
  WFc t -> (exists i, permitted t p i /\ e_dead (obj t i) = false) -> exists i t', next_read t p = (Some i, t').
Proof. exact (next_read_live t p). Qed.

(* (3) the invariant holds initially and is preserved by every operation *)
Theorem C20_invariant_initial rv : WFc (new_topology rv).
Proof. exact (wfc_new rv). Qed.
Theorem C20_invariant_update t prim secs : WFc (update t prim secs).
Proof. exact (wfc_update t prim secs). Qed.
Theorem C20_invariant_next_read t p r t' : WFc t -> next_read t p = (r, t') -> WFc t' /\ t_eps t' = t_eps t.
Proof. exact (next_read_wfc t p r t'). Qed.
Theorem C20_invariant_mark t i d : WFc t -> WFc (set_dead t i d).
Proof. exact (wfc_same t (set_dead t i d) eq_refl eq_refl). Qed.

(* (4) writes: with a live believed leader exactly one request is issued, to that endpoint; without one and
   without discovery, none *)
Theorem C20_write_goes_to_believed_leader fuel t discovery script p :
  primary_of t = (Some p, 0%N) ->
  exists r t2, call_primary fuel t discovery script = Some (r, t2, [e_url (obj t p)]).
Proof. exact (call_primary_target fuel t discovery script p). Qed.
Theorem C20_no_write_without_leader fuel t script :
  (forall p, primary_of t <> (Some p, 0%N)) -> call_primary fuel t false script = Some (1%N, t, []).
Proof. exact (call_primary_no_leader fuel t script). Qed.

(* (5) every call terminates, whatever the nodes answer (any script of successes, failures, 4xx and
   topology answers): discovery within live+1 rounds, a read call within the stated number of rounds *)
Theorem C20_discover_terminates fuel t script trace :
  WFc t -> (lives t < fuel)%nat -> discover fuel t script trace <> None.
Proof. exact (discover_terminates fuel t script trace). Qed.
Theorem C20_read_call_terminates (M : nat) p discovery fuel t retried script trace :
  WFc t -> (npos t <= M)%nat -> (shards_max script <= M)%nat ->
  (mu t + (if retried || negb discovery then 0 else S (S M)) < fuel)%nat ->
  call_any fuel t p discovery retried script trace <> None.
Proof. exact (call_any_terminates M p discovery fuel t retried script trace). Qed.

(* Non-vacuity: a reachable topology meets the premises and the conclusions are not trivial *)
Definition t_ex : topo := set_dead (update (new_topology false) 1%N [2%N; 3%N]) 1 true.
Example C20_premises_hold_wf : WFc t_ex.
Proof. apply C20_invariant_mark. apply wfc_update. Qed.
Example C20_premises_hold_live : exists i, permitted t_ex PSecondary i /\ e_dead (obj t_ex i) = false.
Proof. exists 2%nat. split; [split; [right; right; left; reflexivity|reflexivity]|reflexivity]. Qed.
Example C20_premises_hold_values :
  fst (next_read t_ex PSecondary) = Some 2%nat /\ fst (next_read t_ex PAny) = Some 0%nat /\ lives t_ex = 2%nat /\
  call_any 9 t_ex PSecondary true false [OFail; O4xx; OShards 3%N [1%N; 2%N]; OOk] [] <> None.
Proof. vm_compute. repeat split; discriminate. Qed.

Print Assumptions C20_read_never_dead_or_excluded.
Print Assumptions C20_read_finds_live_endpoint.
Print Assumptions C20_write_goes_to_believed_leader.
Print Assumptions C20_discover_terminates.
Print Assumptions C20_read_call_terminates.
