(* C03 - Consistency proofs verify for every version pair and expose any fork.
   Only statements here; every proof is `exact <lemma of History/HistProofs.v>`. *)
From QV Require Import Base.Util Base.HashSig History.HistModel History.HistSpec History.HistProofs History.HistChecked.

Section C03.
  Variables D E V : Type.
  Variable H : hin D E V -> D.
  Notation root := (root D E V H).

  (* (1) for every log A, every store holding the frozen nodes up to version vs, every pair s <= e <= vs:
         the proof the server builds is accepted against the history digests of versions s and e *)
  Theorem C03_incremental_complete (A : N -> E) (st : cache D) (vs : N) :
    StoreOK D E V H A st vs ->
    forall s e, s <= e -> e <= vs ->
    exists path, prove_consistency D E V H st s e = Some path /\
                 incremental_roots D E V H (path_get path) s e = (Some (root A s), Some (root A e)).
  Proof. exact (incremental_complete D E V H A st vs). Qed.

  Hypothesis H_inj : forall a b, H a = H b -> a = b.

  (* (2) for EVERY audit path c and claimed versions (s, e): acceptance against the authentic digest of log A
         at version i' and of log B at version j' implies that A and B agree on events 0..s (a fork at or
         before the start version is exposed) and that the claimed versions are the authentic ones
         (except for the degenerate proof e = 0 that reads both digests from one path entry, where the two
         digests must be equal and the logs agree on the whole prefix). *)
  Theorem C03_incremental_sound (A B : N -> E) (c : cache D) s e i' j' :
    s <= e ->
    incremental_roots D E V H c s e = (Some (root A i'), Some (root B j')) ->
    (forall k, k <= s -> A k = B k) /\
    (0 < e -> s = i' /\ e = j') /\
    (e = 0 -> i' = j' /\ forall k, k <= i' -> A k = B k).
  Proof. exact (incremental_sound D E V H H_inj A B c s e i' j'). Qed.

  (* (3) digests are injective in (version, log prefix): the digest of another version, or of a log that
         diverged at or before that version, IS another value ... *)
  Theorem C03_digest_determines_log (A B : N -> E) v v' :
    root A v = root B v' -> v = v' /\ forall k, k <= v -> A k = B k.
  Proof. exact (root_inj D E V H H_inj A B v v'). Qed.

  (* ... and the verifier is a function of the proof: a genuine proof is accepted for exactly one pair of
     digests, so replacing either digest by any other value is rejected *)
  Theorem C03_reject_replaced_digest (A : N -> E) (st : cache D) vs s e path d1 d2 :
    StoreOK D E V H A st vs -> s <= e -> e <= vs ->
    prove_consistency D E V H st s e = Some path ->
    incremental_roots D E V H (path_get path) s e = (Some d1, Some d2) ->
    d1 = root A s /\ d2 = root A e.
  Proof.
    intros Hst Hse He Hp Hacc.
    destruct (incremental_complete D E V H A st vs Hst s e Hse He) as (path' & Hp' & Hr).
    rewrite Hp in Hp'. injection Hp' as <-. rewrite Hr in Hacc. injection Hacc as <- <-. split; reflexivity.
  Qed.

  (* (4) altering any audit-path entry of a genuine proof is rejected *)
  Theorem C03_reject_altered_entry (A : N -> E) (st : cache D) vs s e path :
    StoreOK D E V H A st vs -> s <= e -> e <= vs ->
    prove_consistency D E V H st s e = Some path ->
    forall k d (c' : cache D), In (k, d) path -> c' k <> Some d ->
    incremental_roots D E V H c' s e <> (Some (root A s), Some (root A e)).
  Proof. exact (incremental_reject_altered_entry D E V H H_inj A st vs s e path). Qed.

  (* (4') the verifier as it is since fix 10a81c4: an audit-path entry that is not a digest of the hasher's length
     (okD) is treated as missing.  Whatever path c'' the server sends: if what the checked lookup finds for an entry
     of the genuine proof is not that entry - it was altered, withheld, or has the wrong length - the proof is
     rejected.  (An instance of (4): that theorem quantifies over every audit path.) *)
  Variable okD : D -> bool.
  Theorem C03_reject_altered_entry_length_checked (A : N -> E) (st : cache D) vs s e path :
    StoreOK D E V H A st vs -> s <= e -> e <= vs ->
    prove_consistency D E V H st s e = Some path ->
    forall k d (c'' : cache D), In (k, d) path -> checked okD c'' k <> Some d ->
    incremental_roots D E V H (checked okD c'') s e <> (Some (root A s), Some (root A e)).
  Proof. exact (fun Hst Hse He Hp k d c'' => incremental_reject_altered_entry D E V H H_inj A st vs s e path Hst Hse He Hp k d (checked okD c'')). Qed.

  (* in particular an entry of the wrong length is rejected whatever its bytes are *)
  Theorem C03_wrong_length_entry_is_missing (c'' : cache D) k d' :
    c'' k = Some d' -> okD d' = false -> checked okD c'' k = None.
  Proof. exact (checked_bad_is_missing D okD c'' k d'). Qed.

  (* the check at lookup time is the same as dropping the offending entries from the decoded path once (what the
     executable model used by the correspondence runs does), for paths without duplicate keys - Go maps *)
  Theorem C03_length_check_is_a_path_filter (p : list (pos * D)) : NoDup (map fst p) ->
    forall k, checked okD (path_get p) k = path_get (wf_path okD p) k.
  Proof. exact (checked_is_wf_path D okD p). Qed.

  (* what the check buys: run on ANY audit path, the checked verifier only ever hashes children that satisfy okD - given
     that the hash function's own outputs do (SHA-256: Properties/C03_pinned_refuted.v, C03_sha_verifier_hashes_32_byte_children).
     interp_tr is the verifier's interpreter with the list of hash inputs it forms. *)
  Theorem C03_traced_interpreter_is_the_interpreter (c : cache D) (o : op E) :
    option_map fst (interp_tr D E V H c o) = interp D E V H c o.
  Proof. exact (interp_tr_fst D E V H c o). Qed.
  Theorem C03_checked_verifier_hashes_wellformed_children (c : cache D) (o : op E) r tr :
    (forall x, okD (H x) = true) ->
    interp_tr D E V H (checked okD c) o = Some (r, tr) ->
    okD r = true /\ Forall (fun x => wf_children D E V okD x = true) tr.
  Proof. exact (fun Hok => checked_inputs_wf D E V H okD Hok c o r tr). Qed.
End C03.

(* the reason for the check: bytes moved between two neighbouring entries hash alike, under every hash function.
   The concrete accepted forgery against the pinned verifier is Properties/C03_pinned_refuted.v. *)
Theorem C03_moved_bytes_hash_alike (B : Type) (byte : N -> B) (Hb : list B -> list B) (a b : list B) (x : B) i h :
  Hb (Layout.encG B byte (HFull (a ++ [x]) b i h)) = Hb (Layout.encG B byte (HFull a (x :: b) i h)).
Proof. exact (hash_shift B byte Hb a b x i h). Qed.

(* Non-vacuity: the premises are satisfiable (free term algebra as digests, events = their index). *)
Definition Dt := term N unit.
Definition idlog : N -> N := fun k => k.
Definition st_t : cache Dt := fun p => Some (fz Dt N unit Hterm idlog (fst p) (snd p)).
Example C03_premises_hold :
  (forall a b : hin Dt N unit, Hterm a = Hterm b -> a = b) /\ StoreOK Dt N unit Hterm idlog st_t 9 /\
  (exists path, prove_consistency Dt N unit Hterm st_t 2 5 = Some path /\ length path = 5%nat /\
     incremental_roots Dt N unit Hterm (path_get path) 2 5 =
       (Some (root Dt N unit Hterm idlog 2), Some (root Dt N unit Hterm idlog 5))).
Proof.
  split; [exact Hterm_inj|]. split; [intros i h _ _; reflexivity|].
  eexists. split; [vm_compute; reflexivity|]. split; vm_compute; reflexivity.
Qed.

Print Assumptions C03_incremental_complete.
Print Assumptions C03_incremental_sound.
Print Assumptions C03_digest_determines_log.
Print Assumptions C03_reject_replaced_digest.
Print Assumptions C03_reject_altered_entry.
Print Assumptions C03_reject_altered_entry_length_checked.
Print Assumptions C03_wrong_length_entry_is_missing.
Print Assumptions C03_length_check_is_a_path_filter.
Print Assumptions C03_moved_bytes_hash_alike.
Print Assumptions C03_traced_interpreter_is_the_interpreter.
Print Assumptions C03_checked_verifier_hashes_wellformed_children.
