(* C16 - A backup restores to exactly the log as of the backup's version.
   Statements only; proofs are `exact` lemmas of Fsm/Backup.v and Fsm/BackupConc.v.
   The restored node is a node whose durable state is the restored log, so what it proves and which version it
   assigns next are given by C01/C03/C05 for that log; these theorems say WHICH log that is. *)
From QV Require Import Base.Util Fsm.Backup Fsm.BackupConc.

Section C16.
  Variable Ev : Type.

  (* taken in any reachable state (any history of adds, backups, deletions), and after any later history that
     does not delete it, a backup restores to exactly the log as it was when taken: a prefix of the later log,
     nothing added afterwards and nothing missing *)
  Theorem C16_backup_restores_log_as_of_backup ops s :
    einv Ev s -> Forall (not_delete Ev (es_next Ev s)) ops ->
    e_restore Ev (fold_left (e_step Ev) ops (e_step Ev s (EBackup Ev))) (es_next Ev s) = Some (es_events Ev s) /\
    exists rest, es_events Ev (fold_left (e_step Ev) ops (e_step Ev s (EBackup Ev))) = es_events Ev s ++ rest.
  Proof. exact (backup_restores_log_as_of_backup Ev ops s). Qed.

  Theorem C16_invariant_reachable ops : einv Ev (fold_left (e_step Ev) ops (einit Ev)).
  Proof. exact (einv_reach Ev ops (einit Ev) (einv_init Ev)). Qed.

  (* the counting machine the implementation is compared with is the image of this one *)
  Theorem C16_abstraction_step s o : abs Ev (e_step Ev s o) = fst (run_bop (abs Ev s) (abs_op Ev o)).
  Proof. exact (abs_step Ev s o). Qed.
  Theorem C16_abstraction_restore s id :
    b_restore (abs Ev s) id = option_map (fun evs => N.of_nat (length evs)) (e_restore Ev s id).
  Proof. exact (abs_restore Ev s id). Qed.
End C16.

(* C16b - a backup is ONE event of the machine above only because CreateBackup keeps insertions out from before it reads
   the version until the copy of the store is finished (applyMu held shared across both).  Over the step machine of
   Fsm/BackupConc.v - the apply goroutine (lock, compute in memory, persist, unlock), any number of queries and backups,
   in ANY interleaving the lock permits: every backup holds exactly the log its recorded version names.  With the lock
   released after the version is read, or not taken at all (the pinned commit), the statement is false. *)
Section C16b.
  Variable Ev : Type.
  Theorem C16_backup_consistent_under_concurrent_insertions sched s s0 outs :
    cinv Ev s -> crun Ev LockAll s sched = Some (s0, outs) ->
    cinv Ev s0 /\ Forall (fun b => fst b = snd b) outs.
  Proof. exact (backup_consistent Ev sched s s0 outs). Qed.
  Theorem C16_initial_state_meets_the_invariant evs : cinv Ev (cinit Ev evs).
  Proof. exact (cinv_init Ev evs). Qed.
  Theorem C16_lock_released_before_the_copy_refuted (e : Ev) :
    exists sched s0 outs, crun Ev LockRead (cinit Ev []) sched = Some (s0, outs) /\
      Exists (fun b => length (snd b) = S (length (fst b))) outs.
  Proof. exact (backup_lock_released_early_refuted Ev e). Qed.
  Theorem C16_no_lock_refuted (e : Ev) :
    exists sched s0 outs, crun Ev NoLock (cinit Ev []) sched = Some (s0, outs) /\
      Exists (fun b => length (fst b) = S (length (snd b))) outs.
  Proof. exact (backup_unlocked_refuted Ev e). Qed.
End C16b.

Example C16b_schedule_permitted :
  exists s0, crun N LockAll (cinit N []) [AWLock N; ACompute N [1]; APersist N; AWUnlock N; QLock N; BLock N; BRead N; BCopy N; QUnlock N;
                                          BUnlock N; AWLock N; ACompute N [2]; APersist N; AWUnlock N; BLock N; BRead N; BCopy N; BUnlock N]
             = Some (s0, [([1], [1]); ([1; 2], [1; 2])]).
Proof. exact (backup_schedule_permitted N 1 2). Qed.

(* a backup of a log of v+1 events records v *)
Theorem C16_records_version s : 0 < bs_events s -> bs_events s <= W64b ->
  In (bs_next s, bs_events s - 1) (b_list (b_backup s)).
Proof. exact (backup_records_version s). Qed.

(* listing shows what exists; deleting removes exactly the named backup *)
Theorem C16_delete_removes_only_named s id b :
  In b (b_list (b_delete s id)) <-> In b (b_list s) /\ fst b <> id.
Proof. exact (delete_removes_only_named s id b). Qed.

Example C16_premises_hold :
  let s := fold_left (e_step N) [EAdd N [1; 2]; EBackup N; EAdd N [3]] (einit N) in
  einv N s /\ Forall (not_delete N (es_next N s)) [EAdd N [4]; EDelete N 1; EBackup N] /\
  e_restore N (fold_left (e_step N) [EAdd N [4]; EDelete N 1; EBackup N] (e_step N s (EBackup N))) 2 = Some [1; 2; 3].
Proof.
  split; [apply (einv_reach N), einv_init|]. split; [|reflexivity].
  repeat constructor. cbn. discriminate.
Qed.

Print Assumptions C16_backup_restores_log_as_of_backup.
Print Assumptions C16_invariant_reachable.
Print Assumptions C16_abstraction_step.
Print Assumptions C16_abstraction_restore.
Print Assumptions C16_records_version.
Print Assumptions C16_delete_removes_only_named.
Print Assumptions C16_backup_consistent_under_concurrent_insertions.
Print Assumptions C16_initial_state_meets_the_invariant.
Print Assumptions C16_lock_released_before_the_copy_refuted.
Print Assumptions C16_no_lock_refuted.
