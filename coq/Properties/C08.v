(* C08 - Stopping and restarting a node is invisible and never crashes.
   Statements only; proofs are `exact` lemmas of Fsm/FsmProofs.v.
   Everything volatile is re-derived from the durable state at start-up (the model's node IS its durable state),
   so a clean stop between any two applies splits one incarnation into two.  That shutdown completes and frees
   its resources is runtime behaviour the model does not carry: it is decided by the harness only (partial). *)
From QV Require Import Base.Util Base.HashSig Fsm.Fsm Fsm.FsmProofs Hyper.HyperModel Hyper.HyperBatch Hyper.HyperRefine
  Hyper.HyperRefineSpec Hyper.HyperFind Hyper.HyperReopen Properties.Instance.

Section C08.
  Variable Ev : Type.

  (* for every log and every stop point (a, b any split, including a = [] and b = []): same final state, same
     outcomes (hence the same versions and, by C04, the same digests) as the node that was never stopped *)
  Theorem C08_restart_invisible a b done rest :
    wf_log Ev 0 (done ++ (a ++ b) ++ rest) -> N.of_nat (length (events_of Ev (done ++ a ++ b))) < W64 ->
    fst (life Ev (state_of Ev done) [a ++ b]) = fst (life Ev (state_of Ev done) [a; b]) /\
    concat (snd (life Ev (state_of Ev done) [a ++ b])) = concat (snd (life Ev (state_of Ev done) [a; b])).
  Proof. exact (restart_invisible Ev a b done rest). Qed.
End C08.

(* "Everything volatile is re-derived from the durable state": for the hyper tree the volatile part is the batch cache,
   re-derived at start-up from the recovery tiles (balloon/hyper/rebuild.go, modelled node for node by
   HyperBatch.rebuild / hb_reopen and compared with the Go code after every reopen).  Over any sequence of insertions
   and re-creations of the tree object from the empty store: every call returns the digest of the published
   construction over the insertions alone, and every later query is answered from it - re-creation is invisible. *)
Section C08b.
  Variables D E V : Type.
  Variable H : hin D E V -> D.
  Variable limit nbits : nat.
  Hypothesis limit4 : (limit mod 4 = 0)%nat.
  Hypothesis nbits4 : (nbits mod 4 = 0)%nat.
  Hypothesis limit_pos : (0 < limit)%nat.
  Hypothesis limit_lt : (limit < nbits)%nat.
  Notation ds := (dlist D E V H nbits).

  Theorem C08_hyper_tree_recreation_invisible ops key :
    Forall (op_ok V nbits) ops -> length key = nbits ->
    exists st', hb_runT D E V H limit nbits (hinit D V) ops =
                  Some (fst (spec_run D E V H limit nbits [] (calls_of V ops)), st') /\
      hb_find D E V H limit nbits ds st' key =
        hyper_find D E V H nbits ds (ytree_of D E V H limit nbits ds (snd (spec_run D E V H limit nbits [] (calls_of V ops)))) key.
  Proof. exact (hb_runT_from_empty D E V H limit nbits limit4 nbits4 limit_pos limit_lt ops key). Qed.

  (* one re-creation, on any tables that represent a map with the tiles in step *)
  Theorem C08_hyper_reopen_refines st m :
    RepresentsT D E V H limit nbits st m ->
    exists st', hb_reopen D E V H limit nbits ds st = Some st' /\ RepresentsT D E V H limit nbits st' m.
  Proof. exact (reopen_specT D E V H limit nbits limit4 nbits4 limit_pos limit_lt st m). Qed.
End C08b.

Definition k12 (n : N) : key := map (fun i => N.testbit n (N.of_nat i)) [11; 10; 9; 8; 7; 6; 5; 4; 3; 2; 1; 0]%nat.
Definition ops12 : list (hop N) :=
  [HIns N [(k12 200, 0)]; HReopen N; HIns N [(k12 201, 1); (k12 3000, 2)]; HReopen N; HIns N [(k12 17, 3)]].
(* 12-bit keys, cache limit 4: two cache levels above the recovery tiles, so the rebuild recomputes a level *)
Example C08b_premises_hold :
  (4 mod 4 = 0 /\ 12 mod 4 = 0 /\ 0 < 4 /\ 4 < 12)%nat /\ Forall (op_ok N 12) ops12 /\
  match hb_runT D4 E4 N H4 4 12 (hinit D4 N) ops12 with
  | Some (dsl, st') => dsl = fst (spec_run D4 E4 N H4 4 12 [] (calls_of N ops12)) /\
                       fst (hb_find D4 E4 N H4 4 12 (dlist D4 E4 N H4 12) st' (k12 3000)) = Some 2
  | None => False
  end.
Proof.
  split; [repeat split; try reflexivity; lia|]. split.
  - repeat constructor; try discriminate.
  - vm_compute. split; reflexivity.
Qed.

Example C08_premises_hold :
  wf_log N 0 ([] ++ ([(1, [5])] ++ [(2, [6; 7])]) ++ []) /\
  concat (snd (life N (state_of N []) [[(1, [5])]; [(2, [6; 7])]])) = [Applied 0 1; Applied 1 2].
Proof. cbn. repeat split; try lia; discriminate. Qed.

Print Assumptions C08_restart_invisible.
Print Assumptions C08_hyper_tree_recreation_invisible.
Print Assumptions C08_hyper_reopen_refines.
