(* C08 - Stopping and restarting a node is invisible and never crashes.
   Statements only; proofs are `exact` lemmas of Fsm/FsmProofs.v.
   Everything volatile is re-derived from the durable state at start-up (the model's node IS its durable state),
   so a clean stop between any two applies splits one incarnation into two.  That shutdown completes and frees
   its resources is runtime behaviour the model does not carry: it is decided by the harness only (partial). *)
From QV Require Import Base.Util Fsm.Fsm Fsm.FsmProofs.

Section C08.
  Variable Ev : Type.

  (* for every log and every stop point (a, b any split, including a = [] and b = []): same final state, same
     outcomes (hence the same versions and, by C04, the same digests) as the node that was never stopped *)
  Theorem C08_restart_invisible a b done rest :
    wf_log Ev 0 (done ++ (a ++ b) ++ rest) -> N.of_nat (length (events_of Ev (done ++ a ++ b))) < W64 ->
    fst (life Ev (state_of Ev done) [a ++ b]) = fst (life Ev (state_of Ev done) [a; b]) /\
    concat (snd (life Ev (state_of Ev done) [a ++ b])) = concat (snd (life Ev (state_of Ev done) [a; b])).
  Proof. exact (restart_invisible Ev a b done rest). Qed.
End C08.

Example C08_premises_hold :
  wf_log N 0 ([] ++ ([(1, [5])] ++ [(2, [6; 7])]) ++ []) /\
  concat (snd (life N (state_of N []) [[(1, [5])]; [(2, [6; 7])]])) = [Applied 0 1; Applied 1 2].
Proof. cbn. repeat split; try lia; discriminate. Qed.

Print Assumptions C08_restart_invisible.
