(* C14 - Each store back-end behaves as an atomic, ordered, per-table map.
   Statements only; proofs are `exact` lemmas of Store/BplusProofs.v.
   The specification is the per-table view `table t p` (sorted list of the table's entries) with
   spec_get / spec_put / spec_range / spec_last; it is also what the RocksDB store is compared with. *)
From QV Require Import Base.Util Store.Bplus Store.BplusProofs Store.BplusReader Run.StoreRun.

Section C14.
  Variable K : Type.
  Variable Val : Type.
  Variable kleb : K -> K -> bool.
  Variable kmin : K.
  Hypothesis kleb_refl : forall a, kleb a a = true.
  Hypothesis kleb_trans : forall a b c, kleb a b = true -> kleb b c = true -> kleb a c = true.
  Hypothesis kleb_total : forall a b, kleb a b = true \/ kleb b a = true.
  Hypothesis kleb_antisym : forall a b, kleb a b = true -> kleb b a = true -> a = b.

  Notation sorted := (sorted K Val kleb).
  Notation table := (table K Val).

  (* the tree stays sorted under any batch of mutations (the invariant of every reachable store) *)
  Theorem C14_sorted_invariant muts t : sorted t -> sorted (mutate K Val kleb t muts).
  Proof. exact (mutate_sorted K Val kleb kleb_refl kleb_trans kleb_total kleb_antisym muts t). Qed.

  (* a batch is applied as a whole and every table receives exactly its own writes, in order *)
  Theorem C14_mutate_refines muts t p : sorted t ->
    table (mutate K Val kleb t muts) p = puts_of K Val kleb muts p (table t p).
  Proof. exact (mutate_refines K Val kleb kleb_refl kleb_trans kleb_total kleb_antisym muts t p). Qed.

  (* reads see the table's map only *)
  Theorem C14_get_refines t p k : get K Val kleb t p k = spec_get K Val kleb (table t p) k.
  Proof. exact (get_refines K Val kleb t p k). Qed.

  Theorem C14_range_refines t p a b : sorted t ->
    get_range K Val kleb t p a b = spec_range K Val kleb (table t p) a b.
  Proof. exact (get_range_refines K Val kleb kleb_trans t p a b). Qed.

  Theorem C14_last_refines t p : sorted t ->
    get_last K Val kleb kmin t p = spec_last K Val (table t p).
  Proof. exact (get_last_refines K Val kleb kmin kleb_trans t p). Qed.

  (* the GetAll reader (used by the cache rebuild, by backups and by state transfer): one Read(n) returns the next n
     entries of the table; Read until exhausted returns the table, each entry once, in key order, for any chunk size *)
  Hypothesis kmin_le : forall a, kleb kmin a = true.
  Theorem C14_read_refines t r n : sorted t -> reader_ok K kmin r ->
    fst (read K Val kleb t r n) = firstn n (pending K Val kleb t r) /\
    pending K Val kleb t (snd (read K Val kleb t r n)) = skipn n (pending K Val kleb t r) /\
    reader_ok K kmin (snd (read K Val kleb t r n)).
  Proof. exact (read_refines K Val kleb kmin kleb_refl kleb_trans kleb_antisym kmin_le t r n). Qed.

  Theorem C14_get_all_refines t p n fuel : sorted t -> (0 < n)%nat -> (length (table t p) < fuel)%nat ->
    drain K Val kleb t (new_reader K kmin p) n fuel = table t p.
  Proof. exact (get_all_refines K Val kleb kmin kleb_refl kleb_trans kleb_antisym kmin_le t p n fuel). Qed.
End C14.

(* Non-vacuity: byte strings under bytes.Compare satisfy the order hypotheses *)
Lemma bleb_refl a : bleb a a = true.
Proof. induction a as [|x a IH]; [reflexivity|]. cbn. rewrite N.eqb_refl, IH, orb_true_r. reflexivity. Qed.
Lemma bleb_trans a : forall b c, bleb a b = true -> bleb b c = true -> bleb a c = true.
Proof.
  induction a as [|x a IH]; intros b c H1 H2; [reflexivity|].
  destruct b as [|y b]; [discriminate|]. destruct c as [|z c]; [discriminate|]. cbn in *.
  apply orb_true_iff in H1. apply orb_true_iff in H2. apply orb_true_iff.
  destruct H1 as [H1|H1]; destruct H2 as [H2|H2];
    rewrite ?andb_true_iff, ?N.ltb_lt, ?N.eqb_eq in *.
  - left. lia.
  - left. destruct H2. lia.
  - left. destruct H1. lia.
  - right. destruct H1 as [-> H1], H2 as [-> H2]. split; [reflexivity|exact (IH _ _ H1 H2)].
Qed.
Lemma bleb_total a : forall b, bleb a b = true \/ bleb b a = true.
Proof.
  induction a as [|x a IH]; intros b; [left; reflexivity|]. destruct b as [|y b]; [right; reflexivity|]. cbn.
  destruct (N.lt_trichotomy x y) as [H|[->|H]].
  - left. apply orb_true_iff. left. apply N.ltb_lt. exact H.
  - rewrite N.ltb_irrefl, N.eqb_refl. cbn. exact (IH b).
  - right. apply orb_true_iff. left. apply N.ltb_lt. exact H.
Qed.
Lemma bleb_antisym a : forall b, bleb a b = true -> bleb b a = true -> a = b.
Proof.
  induction a as [|x a IH]; intros [|y b] H1 H2; try reflexivity; try discriminate. cbn in *.
  apply orb_true_iff in H1. apply orb_true_iff in H2.
  rewrite !andb_true_iff, !N.ltb_lt, !N.eqb_eq in *.
  destruct H1 as [H1|[-> H1]]; destruct H2 as [H2|[H2' H2]]; try lia. f_equal. exact (IH b H1 H2).
Qed.

Example C14_premises_hold :
  sorted bs bs bleb (mutate bs bs bleb [] [(2, [1; 255], [7]); (0, [], [8]); (2, [1], [9]); (3, [171], [1]); (2, [1; 255], [5])]) /\
  get_last bs bs bleb [] (mutate bs bs bleb [] [(2, [1; 255], [7]); (0, [], [8]); (2, [1], [9]); (3, [171], [1]); (2, [1; 255], [5])]) 2
    = Some ([1; 255], [5]).
Proof.
  split; [apply (C14_sorted_invariant bs bs bleb bleb_refl bleb_trans bleb_total bleb_antisym); exact I|reflexivity].
Qed.

Example C14_reader_premises_hold :
  (forall a, bleb [] a = true) /\
  drain bs bs bleb (mutate bs bs bleb [] [(2, [1; 255], [7]); (0, [], [8]); (2, [1], [9]); (3, [171], [1]); (2, [], [5])])
        (new_reader bs [] 2) 2 4 = [([], [5]); ([1], [9]); ([1; 255], [7])].
Proof. split; [intros a; reflexivity|reflexivity]. Qed.

Print Assumptions C14_sorted_invariant.
Print Assumptions C14_mutate_refines.
Print Assumptions C14_get_refines.
Print Assumptions C14_range_refines.
Print Assumptions C14_last_refines.
Print Assumptions C14_read_refines.
Print Assumptions C14_get_all_refines.
