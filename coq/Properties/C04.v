(* C04 - Snapshot digests are a canonical function of the event sequence alone.
   Statements only; proofs are `exact` lemmas of History/HistProofs.v and Balloon/BalloonProofs.v. *)
From QV Require Import Base.Util Base.HashSig History.HistModel History.HistSpec History.HistProofs
  Hyper.HyperModel Balloon.Balloon Balloon.BalloonProofs Properties.Instance.

Section C04.
  Variables D E V : Type.
  Variable H : hin D E V -> D.
  Variable nbits limit : nat.
  Variable kbits : E -> key.
  Variable vval : N -> V.
  Variable e0 : E.
  Hypothesis kbits_len : forall e, length (kbits e) = nbits.
  Notation ds := (dlist D E V H nbits).

  (* (1) In every reachable state (any earlier calls), a call inserting `new` returns, for its k-th event,
     the snapshot whose history digest is the root of the published history tree (HistSpec.root, the
     independent 12-line reference) over the log at version |evs|+k, whose hyper digest is the root of the
     published sparse tree (ytree_of) over the resulting digest->version map, whose version is |evs|+k and
     whose event digest is that event: dense versions, canonical digests. *)
  Theorem C04_snapshots_canonical st evs new snaps st' :
    reach D E V H nbits limit kbits vval st evs ->
    add_bulk D E V H nbits limit ds kbits vval st new = Some (snaps, st') ->
    snaps = map (fun k => {| s_event := nth k new e0;
                             s_hist := root D E V H (logf E e0 (evs ++ new)) (N.of_nat (length evs + k));
                             s_hyper := yroot D E V H ds (ytree_of D E V H limit nbits ds (b_hmap D V st'));
                             s_version := N.of_nat (length evs + k) |}) (seq 0 (length new)) /\
    b_hmap D V st' = map_add_bulk V (b_hmap D V st)
                       (combine (map kbits new) (map vval (versions_from (b_version D V st) (length new)))) /\
    b_version D V st' = N.of_nat (length (evs ++ new)).
  Proof. exact (snapshots_canonical D E V H nbits limit kbits vval e0 kbits_len st evs new snaps st'). Qed.

  (* (2) a version's history digest depends on the first v+1 events only: it never changes once issued *)
  Theorem C04_history_digest_stable (A B : N -> E) v :
    (forall k, k <= v -> A k = B k) -> root D E V H A v = root D E V H B v.
  Proof. exact (root_prefix D E V H A B v). Qed.

  (* (3) for distinct events the hyper map - hence the hyper digest - does not depend on how the events were
     grouped into calls: it is literally the list [(digest_i, i)] *)
  Theorem C04_grouping_independent st evs :
    reach D E V H nbits limit kbits vval st evs -> NoDup (map kbits evs) ->
    b_hmap D V st = map (fun i => (kbits (nth i evs e0), vval (N.of_nat i))) (seq 0 (length evs)).
  Proof. exact (hmap_of_distinct_events D E V H nbits limit kbits vval e0 kbits_len st evs). Qed.

  (* (4) the insertion code (pruneToInsert + insert visitor + write cache + store) computes that root: for
     every log, every version and every bulk size, on any store/cache holding the nodes completed so far *)
  Theorem C04_insert_computes_root (A : N -> E) (base : cache D) n v puts muts :
    GetOK D E V H A (ins_get base puts) v ->
    exists newp,
      bulk_go D E V H base (map A (map (fun k => v + N.of_nat k) (seq 0 n))) v (puts, muts)
        = Some (map (fun k => root D E V H A (v + N.of_nat k)) (seq 0 n), (newp ++ puts, newp ++ muts)) /\
      (forall p d, In (p, d) newp -> d = fz D E V H A (fst p) (snd p)) /\
      GetOK D E V H A (ins_get base (newp ++ puts)) (v + N.of_nat n).
  Proof. exact (bulk_correct D E V H A base n v puts muts). Qed.

  (* (5) a call never fails in a reachable state *)
  Theorem C04_add_total st evs new :
    reach D E V H nbits limit kbits vval st evs ->
    exists snaps st', add_bulk D E V H nbits limit ds kbits vval st new = Some (snaps, st').
  Proof. exact (add_total D E V H nbits limit kbits vval e0 kbits_len st evs new). Qed.
End C04.

Example C04_premises_hold :
  reach D4 E4 N H4 4 2 kbits4 vid st2 evs2 /\ NoDup (map kbits4 evs2) /\ (forall e, length (kbits4 e) = 4%nat).
Proof.
  split; [exact reach_st2|]. split; [|exact kbits4_len].
  repeat constructor; vm_compute; intuition discriminate.
Qed.

Print Assumptions C04_snapshots_canonical.
Print Assumptions C04_history_digest_stable.
Print Assumptions C04_grouping_independent.
Print Assumptions C04_insert_computes_root.
Print Assumptions C04_add_total.
