(* C04 - Snapshot digests are a canonical function of the event sequence alone.
   Statements only; proofs are `exact` lemmas of History/HistProofs.v and Balloon/BalloonProofs.v. *)
From QV Require Import Base.Util Base.HashSig History.HistModel History.HistSpec History.HistProofs
  Hyper.HyperModel Hyper.HyperBatch Hyper.HyperRefine Hyper.HyperRefineSpec Balloon.Balloon Balloon.BalloonProofs Properties.Instance.

Section C04.
  Variables D E V : Type.
  Variable H : hin D E V -> D.
  Variable nbits limit : nat.
  Variable kbits : E -> key.
  Variable vval : N -> V.
  Variable e0 : E.
  Hypothesis kbits_len : forall e, length (kbits e) = nbits.
  Notation ds := (dlist D E V H nbits).

  (* (1) In every reachable state (any earlier calls), a call inserting `new` returns, for its k-th event,
     the snapshot whose history digest is the root of the published history tree (HistSpec.root, the
     independent 12-line reference) over the log at version |evs|+k, whose hyper digest is the root of the
     published sparse tree (ytree_of) over the resulting digest->version map, whose version is |evs|+k and
     whose event digest is that event: dense versions, canonical digests. *)
  Theorem C04_snapshots_canonical st evs new snaps st' :
    reach D E V H nbits limit kbits vval st evs ->
    add_bulk D E V H nbits limit ds kbits vval st new = Some (snaps, st') ->
    snaps = map (fun k => {| s_event := nth k new e0;
                             s_hist := root D E V H (logf E e0 (evs ++ new)) (N.of_nat (length evs + k));
                             s_hyper := yroot D E V H ds (ytree_of D E V H limit nbits ds (b_hmap D V st'));
                             s_version := N.of_nat (length evs + k) |}) (seq 0 (length new)) /\
    b_hmap D V st' = map_add_bulk V (b_hmap D V st)
                       (combine (map kbits new) (map vval (versions_from (b_version D V st) (length new)))) /\
    b_version D V st' = N.of_nat (length (evs ++ new)).
  Proof. exact (snapshots_canonical D E V H nbits limit kbits vval e0 kbits_len st evs new snaps st'). Qed.

  (* (2) a version's history digest depends on the first v+1 events only: it never changes once issued *)
  Theorem C04_history_digest_stable (A B : N -> E) v :
    (forall k, k <= v -> A k = B k) -> root D E V H A v = root D E V H B v.
  Proof. exact (root_prefix D E V H A B v). Qed.

  (* (3) for distinct events the hyper map - hence the hyper digest - does not depend on how the events were
     grouped into calls: it is literally the list [(digest_i, i)] *)
  Theorem C04_grouping_independent st evs :
    reach D E V H nbits limit kbits vval st evs -> NoDup (map kbits evs) ->
    b_hmap D V st = map (fun i => (kbits (nth i evs e0), vval (N.of_nat i))) (seq 0 (length evs)).
  Proof. exact (hmap_of_distinct_events D E V H nbits limit kbits vval e0 kbits_len st evs). Qed.

  (* (4) the insertion code (pruneToInsert + insert visitor + write cache + store) computes that root: for
     every log, every version and every bulk size, on any store/cache holding the nodes completed so far *)
  Theorem C04_insert_computes_root (A : N -> E) (base : cache D) n v puts muts :
    GetOK D E V H A (ins_get base puts) v ->
    exists newp,
      bulk_go D E V H base (map A (map (fun k => v + N.of_nat k) (seq 0 n))) v (puts, muts)
        = Some (map (fun k => root D E V H A (v + N.of_nat k)) (seq 0 n), (newp ++ puts, newp ++ muts)) /\
      (forall p d, In (p, d) newp -> d = fz D E V H A (fst p) (snd p)) /\
      GetOK D E V H A (ins_get base (newp ++ puts)) (v + N.of_nat n).
  Proof. exact (bulk_correct D E V H A base n v puts muts). Qed.

  (* (5) a call never fails in a reachable state *)
  Theorem C04_add_total st evs new :
    reach D E V H nbits limit kbits vval st evs ->
    exists snaps st', add_bulk D E V H nbits limit ds kbits vval st new = Some (snaps, st').
  Proof. exact (add_total D E V H nbits limit kbits vval e0 kbits_len st evs new). Qed.
End C04.

(* (6) The hyper tree AS THE GO CODE STORES IT (Hyper/HyperBatch.v: 31-slot batches, cache levels, HyperTable, shortcut
   leaves and their push-down - the mirror of balloon/hyper/insert*.go that the correspondence run compares table by
   table) computes that published root: from the empty tables, for every sequence of Add/AddBulk calls with
   full-length keys (repetitions inside a call and re-insertion of existing keys included), every call succeeds and
   returns the root of the sparse tree over the map built so far. *)
Section C04b.
  Variables D E V : Type.
  Variable H : hin D E V -> D.
  Variable limit nbits : nat.
  Hypothesis limit4 : (limit mod 4 = 0)%nat.
  Hypothesis nbits4 : (nbits mod 4 = 0)%nat.
  Hypothesis limit_pos : (0 < limit)%nat.
  Hypothesis limit_lt : (limit < nbits)%nat.
  Notation ds := (dlist D E V H nbits).

  Theorem C04_hyper_batches_compute_the_published_root calls :
    Forall (fun kvs => kvs <> [] /\ Forall (fun kv => length (fst kv) = nbits) kvs) calls ->
    exists st', hb_run D E V H limit nbits (hinit D V) calls = Some (fst (spec_run D E V H limit nbits [] calls), st') /\
                Represents D E V H limit nbits st' (snd (spec_run D E V H limit nbits [] calls)).
  Proof.
    exact (fun Hc => hb_run_spec D E V H limit nbits limit4 nbits4 limit_pos limit_lt calls (hinit D V) []
                       (hinit_represents D E V H limit nbits) Hc).
  Qed.

  (* one call, from any tables that represent a map *)
  Theorem C04_hyper_insert_refines st m kvs :
    Represents D E V H limit nbits st m -> kvs <> [] -> Forall (fun kv => length (fst kv) = nbits) kvs ->
    exists d st', hb_insert D E V H limit nbits ds st kvs = Some (d, st') /\
      d = yroot D E V H ds (ytree_of D E V H limit nbits ds (map_add_bulk V m kvs)) /\
      Represents D E V H limit nbits st' (map_add_bulk V m kvs).
  Proof. exact (hb_insert_spec D E V H limit nbits limit4 nbits4 limit_pos limit_lt st m kvs). Qed.
End C04b.

Example C04_premises_hold :
  reach D4 E4 N H4 4 2 kbits4 vid st2 evs2 /\ NoDup (map kbits4 evs2) /\ (forall e, length (kbits4 e) = 4%nat).
Proof.
  split; [exact reach_st2|]. split; [|exact kbits4_len].
  repeat constructor; vm_compute; intuition discriminate.
Qed.

(* the batch-level theorem at an instance: 8-bit keys, cache limit 4, two calls (a shortcut leaf pushed down by a
   key sharing six bits, and a key written twice in one call) *)
Definition k8 (n : N) : key := map (fun i => N.testbit n (N.of_nat i)) [7; 6; 5; 4; 3; 2; 1; 0]%nat.
Example C04b_premises_hold :
  (4 mod 4 = 0 /\ 8 mod 4 = 0 /\ 0 < 4 /\ 4 < 8)%nat /\
  Forall (fun kvs : list (key * N) => kvs <> [] /\ Forall (fun kv => length (fst kv) = 8%nat) kvs)
         [[(k8 200, 0)]; [(k8 201, 1); (k8 17, 2); (k8 17, 3)]] /\
  match hb_run D4 E4 N H4 4 8 (hinit D4 N) [[(k8 200, 0)]; [(k8 201, 1); (k8 17, 2); (k8 17, 3)]] with
  | Some (dsl, _) => dsl = fst (spec_run D4 E4 N H4 4 8 [] [[(k8 200, 0)]; [(k8 201, 1); (k8 17, 2); (k8 17, 3)]])
  | None => False
  end.
Proof.
  split; [repeat split; try reflexivity; lia|]. split.
  - repeat constructor; try discriminate.
  - vm_compute. reflexivity.
Qed.

Print Assumptions C04_snapshots_canonical.
Print Assumptions C04_history_digest_stable.
Print Assumptions C04_grouping_independent.
Print Assumptions C04_insert_computes_root.
Print Assumptions C04_add_total.
Print Assumptions C04_hyper_batches_compute_the_published_root.
Print Assumptions C04_hyper_insert_refines.
