(* C11 - No client request can crash or wedge a server.
   Statements only; proofs are `exact` lemmas of Fsm/Api.v.
   PARTIAL: the theorem carries the part of the property that is logic - no request can cause a command to be
   replicated that replicas cannot apply, now or on replay.  That the process survives every request and
   answers with a well-formed HTTP response is behaviour of net/http, encoding/json and the handlers at run
   time: decided by the request stream of the `http` harness command against the real muxes. *)
From QV Require Import Base.Util Fsm.Fsm Fsm.FsmProofs Fsm.Api.

Section C11.
  Variable Ev : Type.

  Theorem C11_proposals_applicable r c done i :
    propose Ev r = Some c ->
    wf_log Ev 0 done -> last_index Ev done < i -> N.of_nat (length (events_of Ev (done ++ [(i, c)]))) < W64 ->
    apply Ev (state_of Ev done) i c =
      (state_of Ev (done ++ [(i, c)]), Applied (N.of_nat (length (events_of Ev done))) (length c)) /\
    apply Ev (state_of Ev (done ++ [(i, c)])) i c = (state_of Ev (done ++ [(i, c)]), AlreadyApplied).
  Proof. exact (proposals_applicable Ev r c done i). Qed.

  (* the pinned code proposed the empty bulk: that command kills every replica that applies it *)
  Theorem C11_empty_command_refuted : exists r c, propose_pinned Ev r = Some c /\
    forall n i, (i <=? n_index Ev n) && negb (n_index Ev n =? 0) = false -> snd (apply Ev n i c) = Panic.
  Proof. exact (empty_command_refuted Ev). Qed.
End C11.

Example C11_premises_hold :
  propose N (RBulk N [7; 8]) = Some [7; 8] /\ wf_log N 0 [(1, [5])] /\ last_index N [(1, [5])] < 3 /\
  propose N (RBulk N []) = None.
Proof. cbn. repeat split; try lia; discriminate. Qed.

Print Assumptions C11_proposals_applicable.
Print Assumptions C11_empty_command_refuted.
