(* A small concrete instance (4-bit digests, free term algebra as hash) on which every hypothesis of the
   balloon-level theorems holds; used by the non-vacuity Examples. *)
From QV Require Import Base.Util Base.HashSig Base.TermEq History.HistModel History.HistSpec
  Hyper.HyperModel Hyper.HyperProofs Balloon.Balloon Balloon.BalloonProofs.

Definition E4 := (bool * bool * bool * bool)%type.
Definition kbits4 (e : E4) : key := let '(a, b, c, d) := e in [a; b; c; d].
Definition E4_eqb (x y : E4) : bool := key_eqb (kbits4 x) (kbits4 y).
Definition D4 := term E4 N.
Definition H4 : hin D4 E4 N -> D4 := Hterm.
Definition D4_eqb : D4 -> D4 -> bool := term_eqb E4 N E4_eqb N.eqb.
Definition vid (v : N) : N := v.

Lemma kbits4_len e : length (kbits4 e) = 4%nat.
Proof. destruct e as [[[a b] c] d]. reflexivity. Qed.
Lemma kbits4_inj a b : kbits4 a = kbits4 b -> a = b.
Proof. destruct a as [[[a1 a2] a3] a4], b as [[[b1 b2] b3] b4]. cbn. intros Heq. inversion Heq. reflexivity. Qed.
Lemma E4_eqb_eq a b : E4_eqb a b = true <-> a = b.
Proof. unfold E4_eqb. rewrite key_eqb_eq. split; [apply kbits4_inj|intros ->; reflexivity]. Qed.
Lemma D4_eqb_eq a b : D4_eqb a b = true <-> a = b.
Proof. apply term_eqb_eq; [exact E4_eqb_eq|exact N.eqb_eq]. Qed.
Lemma H4_inj a b : H4 a = H4 b -> a = b.
Proof. apply Hterm_inj. Qed.
Lemma vid_vid v : v < W64 -> vid (vid v) = v.
Proof. reflexivity. Qed.

Definition e4 (n : N) : E4 := (N.testbit n 3, N.testbit n 2, N.testbit n 1, N.testbit n 0).
Definition ds4 := dlist D4 E4 N H4 4.
Definition add4 := add_bulk D4 E4 N H4 4 2 ds4 kbits4 vid.
Definition st0 := init D4 N.

(* two calls: a bulk of three events (two of them sharing three leading bits) and a single add *)
Definition st1 := match add4 st0 [e4 5; e4 4; e4 12] with Some (_, s) => s | None => st0 end.
Definition st2 := match add4 st1 [e4 9] with Some (_, s) => s | None => st1 end.
Definition evs2 : list E4 := [e4 5; e4 4; e4 12; e4 9].

Lemma reach_st2 : reach D4 E4 N H4 4 2 kbits4 vid st2 evs2.
Proof.
  assert (H1 : exists sn, add4 st0 [e4 5; e4 4; e4 12] = Some (sn, st1)) by (eexists; vm_compute; reflexivity).
  assert (H2 : exists sn, add4 st1 [e4 9] = Some (sn, st2)) by (eexists; vm_compute; reflexivity).
  destruct H1 as [sn1 H1]. destruct H2 as [sn2 H2].
  change evs2 with (([] ++ [e4 5; e4 4; e4 12]) ++ [e4 9]).
  eapply reach_add; [eapply reach_add; [apply reach_init|exact H1]|exact H2].
Qed.
