(* C03, pinned commit: the byte-level witness (kept apart from Properties/C03.v because it is evaluated at the SHA-256
   instance, which uses Coq's primitive 63-bit integers; Print Assumptions lists those primitives, no axiom). *)
From Coq Require Import NArith.
From QV Require Import History.HistBytes.

(* (4) at byte level was FALSE of the pinned verifier, which hashed entries as given: the premise H_inj fails on two
   different inputs with one byte string (no SHA-256 collision involved).  Concrete witness evaluated in the kernel at
   the SHA-256 instance: the genuine proof for (1,1) of a two-event log, its two 32-byte entries altered to 31 and 33
   bytes, is accepted by the unchecked verifier and rejected by the checked one.  Replayed on the Go code: genuine
   defect, repaired by fix 10a81c4 (DESIGN 7.1). *)
Theorem C03_unchecked_entry_lengths_refuted : shift_scenario = true.
Proof. exact unchecked_lengths_accept_altered. Qed.
Print Assumptions C03_unchecked_entry_lengths_refuted.
