(* C03, pinned commit: the byte-level witness (kept apart from Properties/C03.v because it is evaluated at the SHA-256
   instance, which uses Coq's primitive 63-bit integers; Print Assumptions lists those primitives, no axiom). *)
From Coq Require Import NArith.
From QV Require Import Base.HashSig Base.ShaInst History.HistModel History.HistChecked Run.HistRun History.HistBytes.

(* (4) at byte level was FALSE of the pinned verifier, which hashed entries as given: the premise H_inj fails on two
   different inputs with one byte string (no SHA-256 collision involved).  Concrete witness evaluated in the kernel at
   the SHA-256 instance: the genuine proof for (1,1) of a two-event log, its two 32-byte entries altered to 31 and 33
   bytes, is accepted by the unchecked verifier and rejected by the checked one.  Replayed on the Go code: genuine
   defect, repaired by fix 10a81c4 (DESIGN 7.1). *)
Theorem C03_unchecked_entry_lengths_refuted : shift_scenario = true.
Proof. exact unchecked_lengths_accept_altered. Qed.

(* the repaired verifier at the SHA-256 instance: for every audit path and every pruned tree, every digest it returns and
   every child of every node it hashes has 32 bytes *)
Theorem C03_sha_verifier_hashes_32_byte_children (c : cache bytes) (o : op bytes) r tr :
  interp_tr bytes bytes bytes Hsha (checked len32 c) o = Some (r, tr) ->
  len32 r = true /\ List.Forall (fun x => wf_children bytes bytes bytes len32 x = true) tr.
Proof. exact (checked_sha_inputs_wf c o r tr). Qed.

Print Assumptions C03_unchecked_entry_lengths_refuted.
Print Assumptions C03_sha_verifier_hashes_32_byte_children.
