(* C05 - Versions are assigned densely, in order, exactly once.
   Statements only; proofs are `exact` lemmas of Fsm/FsmProofs.v and Balloon/BalloonProofs.v.
   Two layers: (a) the replicated state machine hands every committed entry to the balloon exactly once over any
   life of a node (stops, kills, replays); (b) the balloon numbers the events of a call consecutively from the
   number of events it holds and returns each event's own digest in its snapshot. *)
From QV Require Import Base.Util Base.HashSig History.HistModel History.HistSpec Hyper.HyperModel
  Balloon.Balloon Balloon.BalloonProofs Fsm.Fsm Fsm.FsmProofs Properties.Instance.

Section C05.
  Variable Ev : Type.

  (* (a) A life = any number of incarnations; in each, raft re-delivers some entries the node already applied
     (`fst`, constrained by olds_ok) and then new ones (`snd`).  Whatever the split, the versions issued are
     |done|, |done|+1, ..., one per accepted event, in log order, none skipped and none twice, and the node ends
     up holding exactly the accepted events. *)
  Theorem C05_versions_dense_over_life incs done rest :
    wf_log Ev 0 (done ++ concat (map snd incs) ++ rest) ->
    N.of_nat (length (events_of Ev (done ++ concat (map snd incs)))) < W64 ->
    olds_ok Ev done incs ->
    issued (concat (snd (life Ev (state_of Ev done) (map (fun of => fst of ++ snd of) incs)))) =
      nseq (N.of_nat (length (events_of Ev done))) (length (events_of Ev (concat (map snd incs)))) /\
    n_events Ev (fst (life Ev (state_of Ev done) (map (fun of => fst of ++ snd of) incs))) =
      events_of Ev done ++ events_of Ev (concat (map snd incs)).
  Proof. exact (versions_dense Ev incs done rest). Qed.

  (* an entry that was applied before is never applied again *)
  Theorem C05_never_twice done j d :
    wf_log Ev 0 done -> In (j, d) done -> apply Ev (state_of Ev done) j d = (state_of Ev done, AlreadyApplied).
  Proof. exact (apply_old Ev done j d). Qed.
End C05.

Section C05b.
  Variables D E V : Type.
  Variable H : hin D E V -> D.
  Variable nbits limit : nat.
  Variable kbits : E -> key.
  Variable vval : N -> V.
  Variable vnum : V -> N.
  Variable D_eqb : D -> D -> bool.
  Variable E_eqb : E -> E -> bool.
  Variable e0 : E.
  Hypothesis kbits_len : forall e, length (kbits e) = nbits.
  Hypothesis D_eqb_eq : forall a b, D_eqb a b = true <-> a = b.
  Hypothesis limit_lt : (limit < nbits)%nat.
  Hypothesis nbits_small : N.of_nat nbits < 65536.
  Hypothesis kbits_inj : forall a b, kbits a = kbits b -> a = b.
  Hypothesis vnum_vval : forall v, v < W64 -> vnum (vval v) = v.
  Hypothesis E_eqb_eq : forall a b, E_eqb a b = true <-> a = b.
  Notation ds := (dlist D E V H nbits).

  (* (b) the k-th event of a call made when the log holds |evs| events receives version |evs|+k and its snapshot
     carries that event; the version counter ends at the number of accepted events *)
  Theorem C05_bulk_consecutive st evs new snaps st' :
    reach D E V H nbits limit kbits vval st evs ->
    add_bulk D E V H nbits limit ds kbits vval st new = Some (snaps, st') ->
    map (fun s => (s_event D E s, s_version D E s)) snaps =
      map (fun k => (nth k new e0, N.of_nat (length evs + k))) (seq 0 (length new)) /\
    b_version D V st' = N.of_nat (length (evs ++ new)).
  Proof. exact (bulk_consecutive D E V H nbits limit kbits vval e0 kbits_len st evs new snaps st'). Qed.

  (* the current version reported by proofs is the number of accepted events minus one *)
  Theorem C05_current_version st evs d w q :
    reach D E V H nbits limit kbits vval st evs -> N.of_nat (length evs) < W64 ->
    map_get V (b_hmap D V st) (kbits d) = Some w -> vnum w <= q -> q < b_version D V st ->
    exists a, query_membership_consistency D E V H nbits ds kbits vnum st d q = QOk D E V a /\
              a_current D E V a = N.of_nat (length evs) - 1.
  Proof.
    exact (current_version_reported D E V H nbits limit kbits vval vnum D_eqb E_eqb e0 kbits_len D_eqb_eq
             limit_lt nbits_small kbits_inj vnum_vval E_eqb_eq st evs d w q).
  Qed.
End C05b.

Example C05_premises_hold :
  wf_log N 0 ([(2, [5; 6])] ++ concat (map snd [([(2, [5; 6])], [(3, [7])]); ([(2, [5; 6]); (3, [7])], [(5, [8; 9])])]) ++ []) /\
  olds_ok N [(2, [5; 6])] [([(2, [5; 6])], [(3, [7])]); ([(2, [5; 6]); (3, [7])], [(5, [8; 9])])] /\
  issued (concat (snd (life N (state_of N [(2, [5; 6])]) [[(2, [5; 6]); (3, [7])]; [(2, [5; 6]); (3, [7]); (5, [8; 9])]]))) = [2; 3; 4].
Proof.
  split; [cbn; repeat split; try lia; discriminate|]. split; [|reflexivity].
  cbn. repeat split; intros x Hx; cbn in *; tauto.
Qed.

Print Assumptions C05_versions_dense_over_life.
Print Assumptions C05_never_twice.
Print Assumptions C05_bulk_consecutive.
Print Assumptions C05_current_version.
