(* C06 - Replicas agree: any replica's proofs verify against the leader's snapshots.
   Statements only; proofs are `exact` lemmas of Fsm/FsmProofs.v.
   A replica's durable state is a function of the committed prefix it has applied (state_of); its proofs and
   digests are functions of that state (C01, C03, C04 - the balloon theorems are about `reach st evs` for the
   event list alone).  So agreement reduces to: any two lives over the same committed entries - however they are
   cut into incarnations, whatever already-applied entries raft re-delivers at each start - end in the same
   state, and that state is state_of (the prefix). *)
From QV Require Import Base.Util Fsm.Fsm Fsm.FsmProofs.

Section C06.
  Variable Ev : Type.

  Theorem C06_replicas_agree done incs1 incs2 rest1 rest2 :
    wf_log Ev 0 (done ++ concat (map snd incs1) ++ rest1) -> wf_log Ev 0 (done ++ concat (map snd incs2) ++ rest2) ->
    N.of_nat (length (events_of Ev (done ++ concat (map snd incs1)))) < W64 ->
    olds_ok Ev done incs1 -> olds_ok Ev done incs2 ->
    concat (map snd incs1) = concat (map snd incs2) ->
    fst (life Ev (state_of Ev done) (map (fun of => fst of ++ snd of) incs1)) =
    fst (life Ev (state_of Ev done) (map (fun of => fst of ++ snd of) incs2)).
  Proof. exact (replicas_agree Ev done incs1 incs2 rest1 rest2). Qed.

  (* and that common state is the one determined by the applied prefix alone *)
  Theorem C06_state_is_prefix incs done rest :
    wf_log Ev 0 (done ++ concat (map snd incs) ++ rest) ->
    N.of_nat (length (events_of Ev (done ++ concat (map snd incs)))) < W64 ->
    olds_ok Ev done incs ->
    life Ev (state_of Ev done) (map (fun of => fst of ++ snd of) incs) =
      (state_of Ev (fst (life_spec Ev done incs)), snd (life_spec Ev done incs)) /\
    fst (life_spec Ev done incs) = done ++ concat (map snd incs).
  Proof. exact (life_correct Ev incs done rest). Qed.
End C06.

Example C06_premises_hold :
  let a := [([] : rlog N, [(1, [5]); (2, [6; 7])]); ([(2, [6; 7])], [(4, [8])])] in
  let b := [([] : rlog N, [(1, [5])]); ([(1, [5])], [(2, [6; 7]); (4, [8])])] in
  wf_log N 0 ([] ++ concat (map snd a) ++ []) /\ olds_ok N [] a /\ olds_ok N [] b /\
  concat (map snd a) = concat (map snd b) /\
  fst (life N (state_of N []) (map (fun of => fst of ++ snd of) a)) = state_of N [(1, [5]); (2, [6; 7]); (4, [8])].
Proof.
  cbn. repeat split; try lia; try discriminate; intros x Hx; cbn in *; tauto.
Qed.

Print Assumptions C06_replicas_agree.
Print Assumptions C06_state_is_prefix.
