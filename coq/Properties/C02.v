(* C02 - A membership verification that succeeds is always a true membership.
   Statement only; the proof is `exact` a lemma of Balloon/BalloonProofs.v. *)
From QV Require Import Base.Util Base.HashSig History.HistModel History.HistSpec Hyper.HyperModel
  Balloon.Balloon Balloon.BalloonProofs Balloon.AutoVerify Balloon.AutoVerifyProofs Properties.Instance Base.Layout Base.Enc History.HistGuard.

Section C02.
  Variables D E V : Type.
  Variable H : hin D E V -> D.
  Variable nbits : nat.
  Variable kbits : E -> key.
  Variable vval : N -> V.
  Variable D_eqb : D -> D -> bool.
  Variable E_eqb : E -> E -> bool.
  Hypothesis H_inj : forall a b, H a = H b -> a = b.
  Hypothesis D_eqb_eq : forall a b, D_eqb a b = true <-> a = b.

  (* For every log A, every answer a (every field, both audit paths: arbitrary), every digest d, every
     authentic history digest (root A v, any version v) and ANY hyper digest: if the client verifier
     (protocol.ToBalloonProof + MembershipProof.DigestVerify) accepts, then the answer claims existence,
     the claimed version is not later than the queried one and exists in the log, and the event inserted at
     the claimed version is exactly d.  In particular no answer claiming absence, and no answer for a digest
     that was never inserted at the claimed version, is accepted. *)
  Theorem C02_digest_verify_sound (A : N -> E) (a : answer D E V) (d : E) (v : N) (hyper_digest : D) :
    digest_verify D E V H nbits kbits vval D_eqb E_eqb a d (root D E V H A v) hyper_digest = Accept ->
    a_exists _ _ _ a = true /\ a_actual _ _ _ a <= a_query _ _ _ a /\
    d = A (a_actual _ _ _ a) /\ a_actual _ _ _ a <= v.
  Proof. exact (digest_verify_sound D E V H nbits kbits vval D_eqb E_eqb H_inj D_eqb_eq A a d v hyper_digest). Qed.

  (* The client's MembershipAutoVerify(d, v) (client/client.go: it fetches the answer, picks the published snapshots by
     the versions the answer carries and calls DigestVerify) against a snapshot store that publishes the snapshots of the
     log A: if it returns true, d was inserted at a version not later than the version v THE CALLER asked about. *)
  Theorem C02_auto_verify_sound (A : N -> E) (S : N -> option (D * D)) (a : answer D E V) (d : E) (v : N) :
    authentic D E V H A S ->
    auto_verify D E V H nbits kbits vval D_eqb E_eqb true S (Some v) a d = Accept ->
    a_exists _ _ _ a = true /\ d = A (a_actual _ _ _ a) /\ a_actual _ _ _ a <= v.
  Proof. exact (auto_verify_sound D E V H nbits kbits vval D_eqb E_eqb H_inj D_eqb_eq A S a d v). Qed.

  (* IncrementalAutoVerify(s, e): an accepted answer is the proof of the pair that was asked for *)
  Theorem C02_incr_auto_verify_sound (A : N -> E) (S : N -> option (D * D)) (s e : N) (p : list (pos * D)) (ps pe : N) :
    authentic D E V H A S -> ps <= pe -> 0 < pe ->
    incr_auto_verify D E V H D_eqb S s e p ps pe = Accept -> ps = s /\ pe = e.
  Proof. exact (incr_auto_verify_sound D E V H D_eqb H_inj D_eqb_eq A S s e p ps pe). Qed.
End C02.

(* Non-vacuity: on the concrete instance the premises hold and a genuine answer is accepted, so the
   implication is not empty. *)
Example C02_premises_hold :
  (forall a b, H4 a = H4 b -> a = b) /\ (forall a b, D4_eqb a b = true <-> a = b) /\
  (exists a, query_membership_consistency D4 E4 N H4 4 ds4 kbits4 vid st2 (e4 4) 2 = QOk _ _ _ a /\
     digest_verify D4 E4 N H4 4 kbits4 vid D4_eqb E4_eqb a (e4 4)
       (root D4 E4 N H4 (logf E4 (e4 0) evs2) 2) (hyper_digest D4 E4 N H4 ds4 st2) = Accept).
Proof.
  split; [exact H4_inj|]. split; [exact D4_eqb_eq|].
  eexists. split; vm_compute; reflexivity.
Qed.

(* The pinned code (before fix 38c5ded) did not compare the answer's version with the requested one: the statement above
   is FALSE of it - a genuine answer for version 2 makes a query at version 0 return true for an event inserted at
   version 1.  With the comparison the same answer is rejected for 0 and accepted for 2. *)
Definition S4 (q : N) : option (D4 * D4) := Some (root D4 E4 N H4 (logf E4 (e4 0) evs2) q, hyper_digest D4 E4 N H4 ds4 st2).
Example C02_auto_verify_pinned_refuted :
  authentic D4 E4 N H4 (logf E4 (e4 0) evs2) S4 /\
  exists a, query_membership_consistency D4 E4 N H4 4 ds4 kbits4 vid st2 (e4 4) 2 = QOk _ _ _ a /\
    a_actual _ _ _ a = 1 /\
    auto_verify D4 E4 N H4 4 kbits4 vid D4_eqb E4_eqb false S4 (Some 0) a (e4 4) = Accept /\
    auto_verify D4 E4 N H4 4 kbits4 vid D4_eqb E4_eqb true S4 (Some 0) a (e4 4) = Reject /\
    auto_verify D4 E4 N H4 4 kbits4 vid D4_eqb E4_eqb true S4 (Some 2) a (e4 4) = Accept.
Proof.
  split; [intros q h y Hs; unfold S4 in Hs; injection Hs as <- _; reflexivity|].
  eexists. repeat split; vm_compute; reflexivity.
Qed.

(* C02c - what the premise H_inj means at byte level (DESIGN 3.2).  [encG] is the byte layout of the eight formats the
   code hashes (its Uint63 instance is what every correspondence run executes with SHA-256).  On well-formed inputs
   (32-byte digests and values, 256-bit keys, heights < 2^16, indexes < 2^64, partial nodes above the leaves) the
   layout is unambiguous, so two different inputs with one digest are an explicit collision of the hash function:
   for H = SHA-256 ∘ enc the premise H_inj fails on well-formed inputs only if SHA-256 collides.  (Inputs that are NOT
   well formed - audit-path entries of another length, which the Go verifiers do not reject - stay an assumption:
   [Enc.unchecked_length_is_ambiguous].) *)
Theorem C02_hash_formats_unambiguous (B : Type) (byte : N -> B) :
  (forall x y, x < 256 -> y < 256 -> byte x = byte y -> x = y) ->
  forall x y, hwf_prod B x -> hwf_prod B y -> encG B byte x = encG B byte y -> x = y.
Proof. exact (enc_inj_production B byte). Qed.

Theorem C02_injectivity_failure_is_a_hash_collision (B : Type) (byte : N -> B) :
  (forall x y, x < 256 -> y < 256 -> byte x = byte y -> x = y) ->
  forall (X : Type) (hashf : list B -> X) x y,
  hwf_prod B x -> hwf_prod B y -> x <> y -> hashf (encG B byte x) = hashf (encG B byte y) ->
  exists m m' : list B, m <> m' /\ hashf m = hashf m'.
Proof. exact (H_inj_or_hash_collision B byte). Qed.

Example C02_formats_premises_hold :
  (forall x y : N, x < 256 -> y < 256 -> id x = id y -> x = y) /\
  hwf_prod N (YNode (repeat 1 32) (repeat 2 32) (repeat true 253, 3%nat)) /\
  hwf_prod N (HLeaf (repeat 3 32) 7) /\ hwf_prod N (HPart (repeat 3 32) 6 1).
Proof. split; [exact byte_inj_N|]. pose proof wf_inputs_exist as W. tauto. Qed.

(* Why the guard "ActualVersion <= QueryVersion" of DigestVerify is essential and cannot be left to the history verifier
   (premise idx <= v' of the soundness lemma; seeded change C02-9 replaced it by an in-tree check): for an index beyond the
   version but inside the tree's capacity the recomputed history root does not depend on the digest at all - for EVERY audit
   path.  A forger who supplies the genuine left siblings gets his answer accepted for any digest. *)
Theorem C02_history_verifier_ignores_digest_beyond_version (D E V : Type) (H : hin D E V -> D) (path : cache D) (idx v : N) (e e' : E) :
  v < idx -> idx < pow2 (bitlen v) ->
  membership_root D E V H path idx v e = membership_root D E V H path idx v e'.
Proof. exact (membership_root_ignores_digest_beyond_version D E V H path idx v e e'). Qed.

Print Assumptions C02_digest_verify_sound.
Print Assumptions C02_auto_verify_sound.
Print Assumptions C02_incr_auto_verify_sound.
Print Assumptions C02_hash_formats_unambiguous.
Print Assumptions C02_injectivity_failure_is_a_hash_collision.
Print Assumptions C02_history_verifier_ignores_digest_beyond_version.
