(* C07 - Any crash recovers to a prefix of the committed log, each entry applied once.
   Statements only; proofs are `exact` lemmas of Fsm/FsmProofs.v.
   The store write of an apply is one atomic batch (tree mutations + fsmState): a crash leaves the node at
   state_of (some prefix `done` of the committed log) - before the write the entry is not in `done`, after it
   it is.  On restart raft re-delivers a suffix of what was applied (`old`) followed by the rest (`fresh`). *)
From QV Require Import Base.Util Fsm.Fsm Fsm.FsmProofs.

Section C07.
  Variable Ev : Type.

  (* one recovery: re-delivered entries are recognised (AlreadyApplied, state untouched), the remaining ones
     are applied once each with the versions that continue the prefix, and the node ends in the state of a
     node that applied done ++ fresh without ever crashing *)
  Theorem C07_recovery done old fresh rest :
    wf_log Ev 0 (done ++ fresh ++ rest) -> N.of_nat (length (events_of Ev (done ++ fresh))) < W64 ->
    (forall x, In x old -> In x done) ->
    deliver Ev (state_of Ev done) (old ++ fresh) =
      (state_of Ev (done ++ fresh),
       map (fun _ => AlreadyApplied) old ++ applied_outs Ev (N.of_nat (length (events_of Ev done))) fresh).
  Proof. exact (incarnation_correct Ev done old fresh rest). Qed.

  (* any number of crashes at any points *)
  Theorem C07_any_crash_sequence incs done rest :
    wf_log Ev 0 (done ++ concat (map snd incs) ++ rest) ->
    N.of_nat (length (events_of Ev (done ++ concat (map snd incs)))) < W64 ->
    olds_ok Ev done incs ->
    life Ev (state_of Ev done) (map (fun of => fst of ++ snd of) incs) =
      (state_of Ev (fst (life_spec Ev done incs)), snd (life_spec Ev done incs)) /\
    fst (life_spec Ev done incs) = done ++ concat (map snd incs).
  Proof. exact (life_correct Ev incs done rest). Qed.

  (* the state after applying an entry on a prefix is the prefix extended by it: "after the write" *)
  Theorem C07_apply_extends_prefix done i c todo :
    wf_log Ev 0 (done ++ (i, c) :: todo) -> N.of_nat (length (events_of Ev (done ++ [(i, c)]))) < W64 ->
    apply Ev (state_of Ev done) i c =
      (state_of Ev (done ++ [(i, c)]), Applied (N.of_nat (length (events_of Ev done))) (length c)).
  Proof. exact (apply_fresh Ev done i c todo). Qed.
End C07.

Example C07_premises_hold :
  wf_log N 0 ([(1, [5]); (2, [6; 7])] ++ [(4, [8])] ++ []) /\
  (forall x, In x [(2, [6; 7])] -> In x [(1, [5]); (2, [6; 7])]) /\
  deliver N (state_of N [(1, [5]); (2, [6; 7])]) ([(2, [6; 7])] ++ [(4, [8])]) =
    (state_of N [(1, [5]); (2, [6; 7]); (4, [8])], [AlreadyApplied; Applied 3 1]).
Proof. cbn. repeat split; try lia; try discriminate. intros x [<-|[]]. right. left. reflexivity. Qed.

Print Assumptions C07_recovery.
Print Assumptions C07_any_crash_sequence.
Print Assumptions C07_apply_extends_prefix.
