(* C09 - A follower restored by state transfer converges to the leader's state.
   Statements only; proofs are `exact` lemmas of Fsm/FsmProofs.v.
   The transfer streams the write-ahead-log batches after the follower's last applied version through the
   validateF filter (`fetch`); the follower writes them as they are (`load`) and rebuilds its volatile state. *)
From QV Require Import Base.Util Fsm.Fsm Fsm.FsmProofs.

Section C09.
  Variable Ev : Type.

  (* a follower at any prefix `done` (empty for a new node), the leader streaming the batches of everything
     after it: every batch is taken and the follower ends in exactly the state of a replica that applied
     every entry itself - so by C06 everything it serves afterwards is what such a replica serves *)
  Theorem C09_transfer_complete fresh done rest :
    wf_log Ev 0 (done ++ fresh ++ rest) -> N.of_nat (length (events_of Ev (done ++ fresh))) < W64 ->
    fetch Ev (n_version Ev (state_of Ev done)) (wal Ev done fresh) = Some (wal Ev done fresh) /\
    load Ev (state_of Ev done) (wal Ev done fresh) = state_of Ev (done ++ fresh).
  Proof. exact (transfer_complete Ev fresh done rest). Qed.

  (* a stream that would leave a gap (the leader no longer holds the batches of `missing`) is refused -
     PARTIAL: under the premise that the follower is not an empty node missing exactly one event *)
  Theorem C09_gap_refused_partial done missing i c rest :
    wf_log Ev 0 (done ++ missing ++ (i, c) :: rest) -> missing <> [] ->
    (done <> [] \/ (2 <= length (events_of Ev missing))%nat) ->
    fetch Ev (n_version Ev (state_of Ev done)) (wal Ev (done ++ missing) ((i, c) :: rest)) = None.
  Proof. exact (transfer_gap_refused Ev done missing i c rest). Qed.

  (* the full statement (no premise on done/missing) is false of the model - and of the code: known finding
     C09:gap-served:new-node-one-event-missing, replayed by the `transfer` harness command on every run *)
  Theorem C09_gap_refused_refuted (e : Ev) :
    exists missing i c rest,
      wf_log Ev 0 ([] ++ missing ++ (i, c) :: rest) /\ missing <> [] /\
      fetch Ev (n_version Ev (state_of Ev [])) (wal Ev ([] ++ missing) ((i, c) :: rest)) <> None.
  Proof. exact (transfer_gap_new_node_one_event_refuted Ev e). Qed.
End C09.

Example C09_premises_hold :
  wf_log N 0 ([(1, [5])] ++ [(2, [6; 7]); (4, [8])] ++ []) /\
  load N (state_of N [(1, [5])]) (wal N [(1, [5])] [(2, [6; 7]); (4, [8])]) = state_of N [(1, [5]); (2, [6; 7]); (4, [8])] /\
  fetch N (n_version N (state_of N [(1, [5])])) (wal N ([(1, [5])] ++ [(2, [6; 7])]) [(4, [8])]) = None.
Proof. cbn. repeat split; try lia; discriminate. Qed.

Print Assumptions C09_transfer_complete.
Print Assumptions C09_gap_refused_partial.
Print Assumptions C09_gap_refused_refuted.
