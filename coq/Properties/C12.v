(* C12 - The client verifier is total: hostile answers are rejected, never crash it.
   Statements only; proofs are `exact` lemmas of Verifier/Bounds.v. *)
From QV Require Import Base.Util Base.HashSig History.HistModel Hyper.HyperModel Balloon.Balloon Verifier.Bounds.

(* (1) whatever the answer contains, verification returns a verdict (a missing or malformed audit-path entry
   is a rejection: the model mirrors the code after the fix commits 76e96b4, 538027d, b6e92a6) *)
Theorem C12_digest_verify_total (D E V : Type) (H : hin D E V -> D) nbits kbits vval D_eqb E_eqb a d h y :
  digest_verify D E V H nbits kbits vval D_eqb E_eqb a d h y = Accept \/
  digest_verify D E V H nbits kbits vval D_eqb E_eqb a d h y = Reject.
Proof. exact (digest_verify_total D E V H nbits kbits vval D_eqb E_eqb a d h y). Qed.

Theorem C12_incremental_verify_total (D E V : Type) (H : hin D E V -> D) D_eqb p s e ds de :
  incremental_verify D E V H D_eqb p s e ds de = Accept \/ incremental_verify D E V H D_eqb p s e ds de = Reject.
Proof. exact (incremental_verify_total D E V H D_eqb p s e ds de). Qed.

(* (2) bounded work: the recomputation the verifier performs is fixed by the claimed versions (< 2^64) and the
   key length, whatever the size of the audit paths: at most 129 tree operations for a membership proof, 386
   for an incremental proof, and key-length + 1 hash evaluations on the hyper side *)
Theorem C12_membership_work_bounded (E : Type) idx v (e : E) :
  (v < 18446744073709551616)%N -> (op_size E (pruneToVerify idx v e) <= 129)%nat.
Proof. exact (membership_work_bounded E idx v e). Qed.

Theorem C12_incremental_work_bounded (E : Type) s e :
  (s < 18446744073709551616)%N -> (e < 18446744073709551616)%N ->
  (op_size E (@pruneToVerifyIncrementalStart E s) + op_size E (@pruneToVerifyIncrementalEnd E s e) <= 129 + 257)%nat.
Proof. exact (incremental_work_bounded E s e). Qed.

Theorem C12_hyper_work_bounded (D : Type) (path : hpos -> option D) lh h pre kb :
  (yverify_cost D path lh h pre kb <= h + 1)%nat.
Proof. exact (yverify_cost_bound D path lh h pre kb). Qed.

Example C12_bounds_are_attained : op_size N (pruneToVerify 0%N 18446744073709551615%N 7%N) = 129%nat.
Proof. vm_compute. reflexivity. Qed.

Print Assumptions C12_digest_verify_total.
Print Assumptions C12_incremental_verify_total.
Print Assumptions C12_membership_work_bounded.
Print Assumptions C12_incremental_work_bounded.
Print Assumptions C12_hyper_work_bounded.
