(* C17 - Every issued snapshot is emitted once, signed; the signature binds its content.
   Statements only; proofs are `exact` lemmas of Sender/BatcherProofs.v and Sender/Sign.v.
   PARTIAL in two respects, both named in the evidence: (a) that each snapshot put on the channel is received
   by exactly one batcher is Go channel semantics (the schedule of the theorem assigns each arrival to one
   batcher); (b) the signature scheme is a section variable with the three idealised properties of ed25519
   below - the real golang.org/x/crypto/ed25519 is exercised (every single-bit modification), not proved. *)
From Coq Require Import String Permutation.
From QV Require Import Base.Util Sender.Batcher Sender.BatcherProofs Sender.Sign Sender.Proposers.

Section C17.
  Variable S : Type.           (* signed snapshots *)
  Variable B : nat.            (* BatchSize *)
  Hypothesis B_pos : (0 < B)%nat.

  (* For every number n of batchers, every schedule (interleaving of arrivals - each at one batcher - and timer
     ticks) of distinct snapshots, followed by the tick every batcher gets once nothing more arrives: the batches
     published are a permutation of what arrived (nothing lost), without repetition (nothing duplicated), each of
     1..BatchSize snapshots. *)
  Theorem C17_exactly_once_in_bounded_batches n sched st' out :
    ids_ok S n sched -> NoDup (garrivals S sched) ->
    grun S B (repeat [] n) (sched ++ all_tick S n) = (st', out) ->
    Permutation (concat out) (garrivals S sched) /\ NoDup (concat out) /\
    Forall (fun b => 1 <= length b <= B)%nat out.
  Proof. exact (sender_exactly_once S B B_pos n sched st' out). Qed.

  (* at every moment (no final ticks, snapshots not assumed distinct): published + still held = arrived *)
  Theorem C17_conservation_at_every_step sched st st' out :
    ids_ok S (length st) sched -> grun S B st sched = (st', out) ->
    Permutation (concat out ++ concat st') (concat st ++ garrivals S sched) /\ length st' = length st.
  Proof. exact (grun_conserve S B B_pos sched st st' out). Qed.

  Theorem C17_batch_size_bound sched st st' out :
    bufs_ok S B st -> grun S B st sched = (st', out) ->
    bufs_ok S B st' /\ Forall (fun b => 1 <= length b <= B)%nat out.
  Proof. exact (grun_bound S B B_pos sched st st' out). Qed.
End C17.

(* the signed message determines every field of the snapshot *)
Theorem C17_message_determines_snapshot a b : print_snapshot a = print_snapshot b -> a = b.
Proof. exact (print_snapshot_inj a b). Qed.

Section C17b.
  Variable Sig : Type.
  Variable sign : string -> Sig.
  Variable verify : string -> Sig -> bool.
  Hypothesis verify_sign : forall m, verify m (sign m) = true.
  Hypothesis verify_unique : forall m sg, verify m sg = true -> sg = sign m.
  Hypothesis sign_binds : forall m m', sign m = sign m' -> m = m'.

  Theorem C17_signed_snapshot_verifies s : check Sig verify (do_sign Sig sign s) = true.
  Proof. exact (signed_verifies Sig sign verify verify_sign s). Qed.

  (* change any field of the snapshot (keeping the signature) or any part of the signature (keeping the
     snapshot) and it no longer verifies *)
  Theorem C17_signature_binds s s' sg' :
    check Sig verify (s', sg') = true -> (s' = s \/ sg' = snd (do_sign Sig sign s)) -> (s', sg') = do_sign Sig sign s.
  Proof. exact (signature_binds Sig sign verify verify_unique sign_binds s s' sg'). Qed.
End C17b.

Definition sched5 : list (nat * bev N) := [(0%nat, Arrive N 5); (1%nat, Arrive N 6); (0%nat, Arrive N 7); (0%nat, Tick N); (0%nat, Arrive N 8)].

(* Non-vacuity: a schedule with two batchers; an idealised scheme exists (sign = identity, verify = equality) *)
Example C17_premises_hold :
  ids_ok N 2 sched5 /\
  NoDup (garrivals N sched5) /\
  snd (grun N 2 (repeat [] 2) (sched5 ++ all_tick N 2))
    = [[5; 7]; [8]; [6]] /\
  (forall m, String.eqb m m = true) /\ (forall m sg, String.eqb m sg = true -> sg = m).
Proof.
  split; [repeat constructor|]. split; [repeat constructor; cbn; intuition discriminate|]. split; [vm_compute; reflexivity|].
  split; [apply String.eqb_refl|]. intros m sg Hq. apply String.eqb_eq in Hq. congruence.
Qed.

(* The proposing side (RaftNode.AddBulk): any number of proposers push the snapshots they were given onto the one channel,
   resuming in any order after raft applied their entries.  Whatever the interleaving, the channel carries every issued
   snapshot exactly once (ps = what each proposer was given, l = what the channel receives). *)
Theorem C17_concurrent_proposers_hand_over_every_snapshot_once (A : Type) (ps : list (list A)) (l : list A) :
  interleave A ps l -> NoDup (concat ps) ->
  NoDup l /\ forall x, In x l <-> In x (concat ps).
Proof. exact (interleave_each_once A ps l). Qed.

Theorem C17_concurrent_proposers_conserve (A : Type) (ps : list (list A)) (l : list A) :
  interleave A ps l -> Permutation l (concat ps).
Proof. exact (interleave_perm A ps l). Qed.

(* with a "published" high-water mark in front of the channel (seeded change C17-10) the statement is false: a schedule of
   two proposers loses versions 0 and 1 *)
Theorem C17_high_water_mark_refuted :
  interleave N [[0; 1]; [2]]%N [2; 0; 1]%N /\ hwm_filter 0 [2; 0; 1]%N = [2]%N.
Proof. exact hwm_loses_a_snapshot. Qed.

Print Assumptions C17_exactly_once_in_bounded_batches.
Print Assumptions C17_conservation_at_every_step.
Print Assumptions C17_batch_size_bound.
Print Assumptions C17_message_determines_snapshot.
Print Assumptions C17_signed_snapshot_verifies.
Print Assumptions C17_signature_binds.
Print Assumptions C17_concurrent_proposers_hand_over_every_snapshot_once.
Print Assumptions C17_concurrent_proposers_conserve.
Print Assumptions C17_high_water_mark_refuted.
