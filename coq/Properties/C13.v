(* C13 - Proofs and snapshots survive the wire format unchanged.
   Statements only; proofs are `exact` lemmas of Wire/WireProofs.v and Balloon/BalloonProofs.v. *)
From Coq Require Import String.
From QV Require Import Base.Util Base.HashSig History.HistModel History.HistSpec Hyper.HyperModel
  Balloon.Balloon Balloon.BalloonProofs Wire.Wire Wire.WireProofs Properties.Instance.

(* (1) every position key of an audit path (index below 2^63, height below 2^16: every position a log shorter
   than 2^63 events produces) is printed and parsed back to itself, so a whole audit path survives
   Serialize / ParseAuditPath *)
Theorem C13_auditpath_roundtrip (D : Type) (p : list (pos * D)) :
  (forall kv, In kv p -> fst (fst kv) <= 9223372036854775807 /\ N.of_nat (snd (fst kv)) < 2^16) ->
  parse_path (serialize_path p) = p.
Proof. exact (parse_serialize_path p). Qed.

Section C13.
  Variables D E V : Type.
  Variable H : hin D E V -> D.
  Variable nbits limit : nat.
  Variable kbits : E -> key.
  Variable vval : N -> V.
  Variable vnum : V -> N.
  Variable D_eqb : D -> D -> bool.
  Variable E_eqb : E -> E -> bool.
  Variable e0 : E.
  Hypothesis kbits_len : forall e, length (kbits e) = nbits.
  Hypothesis limit_lt : (limit < nbits)%nat.
  Hypothesis nbits_small : N.of_nat nbits < 65536.
  Hypothesis vnum_vval : forall v, v < W64 -> vnum (vval v) = v.
  Notation ds := (dlist D E V H nbits).

  (* (2) for every reachable state and every genuine membership answer to a query at a version up to the
     current one, the proof object built by the server and its public form (history proof rebuilt at
     (ActualVersion, QueryVersion), hyper value rebuilt from ActualVersion) give the same verdict for EVERY
     digest and every pair of snapshot digests.  (For query versions beyond the current one this is false
     on the code: known finding C13:membership-verdict:query-beyond-current.) *)
  Theorem C13_membership_verdict_preserved st evs d q a :
    reach D E V H nbits limit kbits vval st evs -> N.of_nat (length evs) < W64 -> q < b_version D V st ->
    query_membership_consistency D E V H nbits ds kbits vnum st d q = QOk D E V a ->
    forall d' h y, object_verify D E V H nbits kbits D_eqb E_eqb a d' h y
                   = digest_verify D E V H nbits kbits vval D_eqb E_eqb a d' h y.
  Proof.
    exact (wire_preserves_verdict D E V H nbits limit kbits vval vnum D_eqb E_eqb e0 kbits_len limit_lt nbits_small vnum_vval st evs d q a).
  Qed.
End C13.

Example C13_premises_hold :
  parse_key (key_string (9223372036854775807, 64%nat)) = Some (9223372036854775807, 64%nat) /\
  key_string (4294967297, 0%nat) = "4294967297|0"%string /\
  (exists a, query_membership_consistency D4 E4 N H4 4 ds4 kbits4 vid st2 (e4 4) 2 = QOk _ _ _ a).
Proof. split; [vm_compute; reflexivity|]. split; [vm_compute; reflexivity|]. eexists. vm_compute. reflexivity. Qed.

Print Assumptions C13_auditpath_roundtrip.
Print Assumptions C13_membership_verdict_preserved.
