(* C15 - The replicated-log store returns exactly what consensus stored.
   Statements only; proofs are `exact` lemmas of Store/RaftLogProofs.v. *)
From QV Require Import Base.Util Store.RaftLog Store.RaftLogProofs.

(* a stored entry is returned with all its fields; other indexes are unaffected *)
Theorem C15_get_after_store m i e j : rl_get (rl_store m i e) j = if j =? i then Some e else rl_get m j.
Proof. exact (get_store m i e j). Qed.

(* DeleteRange removes exactly the inclusive range, for every pair of bounds incl. max = 2^64-1 and min > max *)
Theorem C15_delete_range_exact m lo hi j :
  rl_get (rl_delete_range m lo hi) j = if (lo <=? j) && (j <=? hi) then None else rl_get m j.
Proof. exact (get_delete_range m lo hi j). Qed.

(* FirstIndex / LastIndex: zero when empty, otherwise the smallest / largest stored index *)
Theorem C15_first_index m :
  (m = [] -> rl_first m = 0) /\
  (m <> [] -> rl_get m (rl_first m) <> None /\ forall j, rl_get m j <> None -> rl_first m <= j).
Proof. exact (first_index_spec m). Qed.
Theorem C15_last_index m :
  (m = [] -> rl_last m = 0) /\
  (m <> [] -> rl_get m (rl_last m) <> None /\ forall j, rl_get m j <> None -> j <= rl_last m).
Proof. exact (last_index_spec m). Qed.

Example C15_premises_hold :
  let m := rl_delete_range (rl_store (rl_store (rl_store [] 5 (1, 0, [7])) 18446744073709551615 (2, 1, [])) 9 (1, 0, [1])) 6 18446744073709551615 in
  rl_get m 5 = Some (1, 0, [7]) /\ rl_get m 9 = None /\ rl_get m 18446744073709551615 = None /\ rl_first m = 5 /\ rl_last m = 5.
Proof. cbn zeta. repeat split; reflexivity. Qed.

Print Assumptions C15_get_after_store.
Print Assumptions C15_delete_range_exact.
Print Assumptions C15_first_index.
Print Assumptions C15_last_index.
