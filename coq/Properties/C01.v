(* C01 - Every added event has a verifying membership proof at every later version.
   Statement only; the proof is `exact` a lemma of Balloon/BalloonProofs.v. *)
From QV Require Import Base.Util Base.HashSig History.HistModel History.HistSpec Hyper.HyperModel
  Balloon.Balloon Balloon.BalloonProofs Hyper.HyperBatch Hyper.HyperRefine Hyper.HyperRefineSpec Hyper.HyperFind Properties.Instance.

Section C01.
  Variables D E V : Type.
  Variable H : hin D E V -> D.
  Variable nbits limit : nat.
  Variable kbits : E -> key.
  Variable vval : N -> V.
  Variable vnum : V -> N.
  Variable D_eqb : D -> D -> bool.
  Variable E_eqb : E -> E -> bool.
  Variable e0 : E.
  Hypothesis kbits_len : forall e, length (kbits e) = nbits.
  Hypothesis D_eqb_eq : forall a b, D_eqb a b = true <-> a = b.
  Hypothesis limit_lt : (limit < nbits)%nat.
  Hypothesis nbits_small : N.of_nat nbits < 65536.
  Hypothesis kbits_inj : forall a b, kbits a = kbits b -> a = b.
  Hypothesis vnum_vval : forall v, v < W64 -> vnum (vval v) = v.
  Hypothesis E_eqb_eq : forall a b, E_eqb a b = true <-> a = b.

  Notation ds := (dlist D E V H nbits).

  (* For every state reachable by ANY sequence of Add / AddBulk calls (any events, duplicates allowed, any
     grouping), every digest d the log holds (reported version vnum w = the version the hyper tree maps it
     to), every query version q with reported <= q <= current (no bound on the number of later insertions):
     the server answers (no error, no panic), claims existence at the reported version, the event at that
     version IS d, and the client verifier accepts the answer against the history digest of snapshot q
     (root of the log at q) and the hyper digest of the current snapshot.  No hypothesis on H. *)
  Theorem C01_membership_complete st evs d w q :
    reach D E V H nbits limit kbits vval st evs -> N.of_nat (length evs) < W64 ->
    map_get V (b_hmap D V st) (kbits d) = Some w -> vnum w <= q -> q < b_version D V st ->
    exists a, query_membership_consistency D E V H nbits ds kbits vnum st d q = QOk D E V a /\
              a_exists _ _ _ a = true /\ a_actual _ _ _ a = vnum w /\ a_query _ _ _ a = q /\
              a_current _ _ _ a = b_version D V st - 1 /\
              nth (N.to_nat (vnum w)) evs e0 = d /\
              digest_verify D E V H nbits kbits vval D_eqb E_eqb a d
                (root D E V H (logf E e0 evs) q) (hyper_digest D E V H ds st) = Accept.
  Proof.
    exact (membership_answer_verifies D E V H nbits limit kbits vval vnum D_eqb E_eqb e0 kbits_len D_eqb_eq
             limit_lt nbits_small kbits_inj vnum_vval E_eqb_eq st evs d w q).
  Qed.

  (* every accepted event is known to the hyper map of every later state (so the theorem above applies to it) *)
  Theorem C01_every_event_known st evs i :
    reach D E V H nbits limit kbits vval st evs -> (i < length evs)%nat ->
    map_get V (b_hmap D V st) (kbits (nth i evs e0)) <> None.
  Proof.
    intros Hr Hi. exact (inv_all D E V H nbits limit kbits vval e0 st evs (reach_inv D E V H nbits limit kbits vval e0 kbits_len st evs Hr) i Hi).
  Qed.
End C01.

(* The theorems above speak of the published construction (`hyper_find` over the sparse tree of the map).  The Go code
   answers a membership query by walking 4-level batches in the cache and the store (balloon/hyper/search.go); that
   walk, modelled node for node by HyperBatch.bfind and compared with HyperTree.QueryMembership on every run, returns
   exactly the value and the audit path of the published construction — after every sequence of Add/AddBulk calls. *)
Section C01b.
  Variables D E V : Type.
  Variable H : hin D E V -> D.
  Variable limit nbits : nat.
  Hypothesis limit4 : (limit mod 4 = 0)%nat.
  Hypothesis nbits4 : (nbits mod 4 = 0)%nat.
  Hypothesis limit_pos : (0 < limit)%nat.
  Hypothesis limit_lt : (limit < nbits)%nat.
  Notation ds := (dlist D E V H nbits).

  Theorem C01_hyper_batch_search_is_the_published_search calls key :
    Forall (fun kvs => kvs <> [] /\ Forall (fun kv => length (fst kv) = nbits) kvs) calls -> length key = nbits ->
    exists st', hb_run D E V H limit nbits (hinit D V) calls = Some (fst (spec_run D E V H limit nbits [] calls), st') /\
      hb_find D E V H limit nbits ds st' key =
        hyper_find D E V H nbits ds (ytree_of D E V H limit nbits ds (snd (spec_run D E V H limit nbits [] calls))) key.
  Proof. exact (hb_run_find D E V H limit nbits limit4 nbits4 limit_pos limit_lt calls key). Qed.

  (* one query, on any tables that represent a map *)
  Theorem C01_hyper_search_refines st m key :
    Represents D E V H limit nbits st m -> length key = nbits ->
    hb_find D E V H limit nbits ds st key = hyper_find D E V H nbits ds (ytree_of D E V H limit nbits ds m) key.
  Proof. exact (hb_find_spec D E V H limit nbits limit4 nbits4 limit_pos limit_lt st m key). Qed.
End C01b.

Definition k8 (n : N) : key := map (fun i => N.testbit n (N.of_nat i)) [7; 6; 5; 4; 3; 2; 1; 0]%nat.
Example C01b_premises_hold :
  (4 mod 4 = 0 /\ 8 mod 4 = 0 /\ 0 < 4 /\ 4 < 8)%nat /\
  Forall (fun kvs : list (key * N) => kvs <> [] /\ Forall (fun kv => length (fst kv) = 8%nat) kvs)
         [[(k8 200, 0)]; [(k8 201, 1); (k8 17, 2); (k8 17, 3)]] /\ length (k8 201) = 8%nat /\
  match hb_run D4 E4 N H4 4 8 (hinit D4 N) [[(k8 200, 0)]; [(k8 201, 1); (k8 17, 2); (k8 17, 3)]] with
  | Some (_, st') => fst (hb_find D4 E4 N H4 4 8 (dlist D4 E4 N H4 8) st' (k8 201)) = Some 1 /\
                     length (snd (hb_find D4 E4 N H4 4 8 (dlist D4 E4 N H4 8) st' (k8 201))) = 8%nat
  | None => False
  end.
Proof.
  split; [repeat split; try reflexivity; lia|]. split; [repeat constructor; try discriminate|].
  split; [reflexivity|]. vm_compute. split; reflexivity.
Qed.

Example C01_premises_hold :
  reach D4 E4 N H4 4 2 kbits4 vid st2 evs2 /\ N.of_nat (length evs2) < W64 /\
  map_get N (b_hmap D4 N st2) (kbits4 (e4 4)) = Some 1 /\ vid 1 <= 2 /\ 2 < b_version D4 N st2.
Proof. split; [exact reach_st2|]. repeat split; vm_compute; reflexivity || (intros Hc; discriminate Hc). Qed.

Print Assumptions C01_membership_complete.
Print Assumptions C01_every_event_known.
Print Assumptions C01_hyper_batch_search_is_the_published_search.
Print Assumptions C01_hyper_search_refines.
