(* BatchProcessor with several task factories and a task manager that may refuse a task (gossip/processor.go: the loop
   over d.tf calling d.a.Tasks.Add and only logging a refusal).  The batch is marked processed BEFORE any task is created
   (wasProcessed is a test-and-set), so whatever the task manager answers - [accept d k n] = does it accept the task of
   factory k for the n-th handled delivery - each factory creates at most one task per batch over any sequence of
   deliveries.  [process_late_*]: marking only after every task was accepted (seeded change C18-10) is refuted. *)
From Coq Require Import List NArith Lia FinFun.
From QV Require Import Base.Util Gossip.Gossip Gossip.GossipProofs.
Import ListNotations.

Lemma NoDup_app_intro' {A} (l1 l2 : list A) :
  NoDup l1 -> NoDup l2 -> (forall x, In x l1 -> In x l2 -> False) -> NoDup (l1 ++ l2).
Proof.
  induction l1 as [|a l1 IH]; intros H1 H2 Hd; [exact H2|].
  inversion H1 as [|? ? Hna H1']; subst. cbn [app]. constructor.
  - intros Hin. apply in_app_or in Hin. destruct Hin as [Hin|Hin]; [exact (Hna Hin)|exact (Hd a (or_introl eq_refl) Hin)].
  - apply IH; [exact H1'|exact H2|]. intros x Hx1 Hx2. exact (Hd x (or_intror Hx1) Hx2).
Qed.

Section Tasks.
  Variable nf : nat.                          (* number of task factories *)
  Variable accept : N -> nat -> nat -> bool.  (* task manager: batch digest, factory, delivery number *)

  (* tasks CREATED (t.New is called before Tasks.Add decides), as (digest, factory) *)
  Definition tasks_for (d : N) : list (N * nat) := map (fun k => (d, k)) (seq 0 nf).

  Fixpoint process_tm (cache : list N) (n : nat) (deliveries : list N) : list (N * nat) :=
    match deliveries with
    | [] => []
    | d :: r => let '(seen, cache') := was_processed cache d in
                if seen then process_tm cache' (S n) r else tasks_for d ++ process_tm cache' (S n) r
    end.

  Lemma process_tm_flat cache n ds : process_tm cache n ds = flat_map tasks_for (process cache ds).
  Proof.
    revert cache n. induction ds as [|d r IH]; intros cache n; cbn [process_tm process]; [reflexivity|].
    destruct (was_processed cache d) as [seen cache']. destruct seen; [apply IH|].
    cbn [flat_map]. rewrite IH. reflexivity.
  Qed.

  Lemma tasks_for_in d x : In x (tasks_for d) -> fst x = d.
  Proof. unfold tasks_for. intros Hin. apply in_map_iff in Hin. destruct Hin as [k [<- _]]. reflexivity. Qed.

  Lemma tasks_for_nodup d : NoDup (tasks_for d).
  Proof.
    unfold tasks_for. apply Injective_map_NoDup; [|apply seq_NoDup].
    intros a b Hab. injection Hab as Hab. exact Hab.
  Qed.

  Lemma flat_tasks_nodup (l : list N) : NoDup l -> NoDup (flat_map tasks_for l).
  Proof.
    induction 1 as [|d l Hnotin Hnd IH]; cbn [flat_map]; [constructor|].
    apply NoDup_app_intro'; [apply tasks_for_nodup|exact IH|].
    intros x Hx Hx'. apply in_flat_map in Hx'. destruct Hx' as [d' [Hd' Hin']].
    apply tasks_for_in in Hx. apply tasks_for_in in Hin'. rewrite Hx in Hin'. subst d'. exact (Hnotin Hd').
  Qed.

  (* every (batch, factory) pair gets at most one task, whatever arrives and whatever the task manager refuses *)
  Theorem tasks_at_most_once cache ds : NoDup (process_tm cache 0 ds).
  Proof. rewrite process_tm_flat. apply flat_tasks_nodup. apply process_once. Qed.
End Tasks.

(* ---- seeded change C18-10: the batch is marked only if the task manager accepted every task *)
Section Late.
  Variable nf : nat.
  Variable accept : N -> nat -> nat -> bool.
  Fixpoint process_late (cache : list N) (n : nat) (deliveries : list N) : list (N * nat) :=
    match deliveries with
    | [] => []
    | d :: r =>
        if existsb (N.eqb d) cache then process_late cache (S n) r
        else let cache' := if forallb (fun k => accept d k n) (seq 0 nf) then d :: cache else cache in
             tasks_for nf d ++ process_late cache' (S n) r
    end.
End Late.

(* two factories, the manager refuses the second one's task: the same batch delivered twice runs factory 0 twice *)
Example process_late_runs_a_task_twice :
  process_late 2 (fun _ k _ => Nat.eqb k 0) [] 0 [7; 7]%N = [(7%N, 0%nat); (7%N, 1%nat); (7%N, 0%nat); (7%N, 1%nat)] /\
  process_tm 2 [] 0 [7; 7]%N = [(7%N, 0%nat); (7%N, 1%nat)].
Proof. split; reflexivity. Qed.
