(* C18: gossip is bounded, processed once per agent and never self-addressed. *)
From Coq Require Import ZArith.
From QV Require Import Base.Util Gossip.Gossip.

(* every hop strictly lowers the TTL and an exhausted (or negative) TTL is never sent on *)
Lemma send_ttl_lower ttl t : send_ttl ttl = Some t -> (0 <= t < ttl)%Z.
Proof. unfold send_ttl. destruct (ttl <=? 0)%Z eqn:Hle; [discriminate|]. apply Z.leb_gt in Hle. intros H. injection H as <-. lia. Qed.

Lemma send_ttl_dead ttl : (ttl <= 0)%Z -> send_ttl ttl = None.
Proof. intros H. unfold send_ttl. apply Z.leb_le in H. rewrite H. reflexivity. Qed.

(* dissemination terminates: along ANY chain of agents, of any length, a message is forwarded at most
   max(0, initial TTL) times *)
Theorem hops_bounded fuel : forall ttl, (Z.of_nat (hops fuel ttl) <= Z.max 0 ttl)%Z.
Proof.
  induction fuel as [|f IH]; intros ttl; cbn [hops]; [lia|].
  destruct (send_ttl ttl) as [t|] eqn:Hs; [|lia].
  apply send_ttl_lower in Hs. specialize (IH t). lia.
Qed.

Lemma exclude_spec l ex p : In p (exclude l ex) <-> In p l /\ ~ In p ex.
Proof.
  unfold exclude. rewrite filter_In, negb_true_iff. split; intros [H1 H2]; split; try exact H1.
  - intros Hin. assert (existsb (N.eqb p) ex = true) by (apply existsb_exists; exists p; split; [exact Hin|apply N.eqb_refl]). congruence.
  - destruct (existsb (N.eqb p) ex) eqn:He; [|reflexivity]. apply existsb_exists in He. destruct He as [x [Hx Hpx]].
    apply N.eqb_eq in Hpx. subst x. contradiction.
Qed.

(* an agent never routes a message to itself nor back to the peer named as its source, whatever the choice
   function, provided the choice is among the candidates (Shuffle + Take(1) picks a list element) *)
Theorem route_never_self t self src pick :
  (forall r c, c <> [] -> In (pick r c) c) ->
  forall d, In d (route t self src pick) -> d <> self /\ d <> src /\ exists r l, In (r, l) t /\ In d l.
Proof.
  intros Hpick d Hin. unfold route, each1 in Hin. apply in_flat_map in Hin. destruct Hin as [[r l] [Hrl Hd]].
  cbn [fst snd] in Hd. destruct (exclude l [src; self]) as [|c0 cs] eqn:Hex; [destruct Hd|].
  destruct Hd as [<-|[]]. assert (Hc : In (pick r (c0 :: cs)) (c0 :: cs)) by (apply Hpick; discriminate).
  set (d := pick r (c0 :: cs)) in *. rewrite <- Hex in Hc. apply exclude_spec in Hc. destruct Hc as [Hl Hnot]. cbn in Hnot.
  split; [intros Heq; apply Hnot; right; left; symmetry; exact Heq|].
  split; [intros Heq; apply Hnot; left; symmetry; exact Heq|]. exists r, l. split; assumption.
Qed.

(* tasks are created at most once per batch digest, whatever the number and order of deliveries *)
Lemma process_not_cached cache ds d : In d (process cache ds) -> ~ In d cache.
Proof.
  revert cache. induction ds as [|x ds IH]; intros cache Hin; [destruct Hin|].
  cbn [process] in Hin. unfold was_processed in Hin. destruct (existsb (N.eqb x) cache) eqn:Hex.
  - exact (IH _ Hin).
  - destruct Hin as [<-|Hin].
    + intros Hc. assert (existsb (N.eqb x) cache = true) by (apply existsb_exists; exists x; split; [exact Hc|apply N.eqb_refl]). congruence.
    + intros Hc. apply (IH _ Hin). right. exact Hc.
Qed.

Theorem process_once cache ds : NoDup (process cache ds).
Proof.
  revert cache. induction ds as [|x ds IH]; intros cache; cbn [process]; [constructor|].
  unfold was_processed. destruct (existsb (N.eqb x) cache); [apply IH|].
  constructor; [|apply IH]. intros Hin. apply (process_not_cached _ _ _ Hin). left. reflexivity.
Qed.

Theorem process_all_new cache ds d : In d ds -> ~ In d cache -> In d (process cache ds).
Proof.
  revert cache. induction ds as [|x ds IH]; intros cache Hin Hnc; [destruct Hin|].
  cbn [process]. unfold was_processed. destruct (existsb (N.eqb x) cache) eqn:Hex.
  - destruct Hin as [->|Hin]; [|exact (IH _ Hin Hnc)].
    exfalso. apply existsb_exists in Hex. destruct Hex as [y [Hy Hxy]]. apply N.eqb_eq in Hxy. subst y. exact (Hnc Hy).
  - destruct Hin as [->|Hin]; [left; reflexivity|].
    destruct (N.eq_dec x d) as [->|Hne]; [left; reflexivity|]. right. apply IH; [exact Hin|].
    intros [Heq|Hc]; [exact (Hne Heq)|exact (Hnc Hc)].
Qed.

(* the view keeps one entry per name inside each role list *)
Lemma plist_update_in l name x : In x (plist_update l name) <-> x = name \/ In x l.
Proof.
  induction l as [|y l IH]; cbn [plist_update]; [cbn; intuition|].
  destruct (y =? name) eqn:Hy; [apply N.eqb_eq in Hy; subst y; cbn; intuition|]. cbn. rewrite IH. intuition.
Qed.

Lemma plist_update_nodup l name : NoDup l -> NoDup (plist_update l name).
Proof.
  induction l as [|y l IH]; intros Hnd; cbn [plist_update]; [constructor; [intros []|constructor]|].
  inversion Hnd as [|? ? Hy Hl]; subst. destruct (y =? name) eqn:Hyn.
  - apply N.eqb_eq in Hyn. subst y. constructor; assumption.
  - constructor; [|exact (IH Hl)]. rewrite plist_update_in. intros [->|Hin]; [rewrite N.eqb_refl in Hyn; discriminate|exact (Hy Hin)].
Qed.

Lemma plist_delete_in l name x : In x (plist_delete l name) -> In x l.
Proof.
  induction l as [|y l IH]; cbn [plist_delete]; [intros []|].
  destruct (y =? name); [intros Hin; right; exact Hin|]. intros [<-|Hin]; [left; reflexivity|right; exact (IH Hin)].
Qed.

Lemma plist_delete_nodup l name : NoDup l -> NoDup (plist_delete l name) /\ ~ In name (plist_delete l name).
Proof.
  induction l as [|y l IH]; intros Hnd; cbn [plist_delete]; [split; [constructor|intros []]|].
  inversion Hnd as [|? ? Hy Hl]; subst. destruct (y =? name) eqn:Hyn.
  - apply N.eqb_eq in Hyn. subst y. split; assumption.
  - destruct (IH Hl) as [H1 H2]. split.
    + constructor; [|exact H1]. intros Hin. apply Hy. exact (plist_delete_in _ _ _ Hin).
    + intros [Heq|Hin]; [subst y; rewrite N.eqb_refl in Hyn; discriminate|exact (H2 Hin)].
Qed.

Definition TopoOK (t : topology) : Prop := forall r l, In (r, l) t -> NoDup l.

Theorem topo_update_ok t role name : TopoOK t -> TopoOK (topo_update t role name).
Proof.
  induction t as [|[r l] rest IH]; intros Hok; cbn [topo_update].
  - intros r' l' [Heq|[]]. injection Heq as <- <-. constructor; [intros []|constructor].
  - destruct (r =? role).
    + intros r' l' [Heq|Hin]; [injection Heq as <- <-; apply plist_update_nodup; exact (Hok r l (or_introl eq_refl))|exact (Hok r' l' (or_intror Hin))].
    + intros r' l' [Heq|Hin]; [injection Heq as <- <-; exact (Hok r l (or_introl eq_refl))|].
      exact (IH (fun r0 l0 H0 => Hok r0 l0 (or_intror H0)) r' l' Hin).
Qed.

Theorem topo_delete_ok t role name : TopoOK t -> TopoOK (topo_delete t role name).
Proof.
  induction t as [|[r l] rest IH]; intros Hok; cbn [topo_delete]; [intros ? ? []|].
  destruct (r =? role).
  - intros r' l' [Heq|Hin]; [injection Heq as <- <-; exact (proj1 (plist_delete_nodup l name (Hok r l (or_introl eq_refl))))|exact (Hok r' l' (or_intror Hin))].
  - intros r' l' [Heq|Hin]; [injection Heq as <- <-; exact (Hok r l (or_introl eq_refl))|].
    exact (IH (fun r0 l0 H0 => Hok r0 l0 (or_intror H0)) r' l' Hin).
Qed.
