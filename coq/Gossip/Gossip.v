(* Executable mirror of the routing logic of gossip/agent.go (Send, route), gossip/topology.go + peer.go
   (Update, Delete, Each) and gossip/processor.go (wasProcessed).  Peers are identified by name (N), roles by N.
   The random choice of Shuffle().Take(1) is a choice function.  No proofs here. *)
From Coq Require Import ZArith.
From QV Require Import Base.Util.

(* ---- Agent.Send: the TTL carried by the message that is forwarded, None = the message dies here *)
Definition send_ttl (ttl : Z) : option Z := if (ttl <=? 0)%Z then None else Some (ttl - 1)%Z.

(* how many times a message can be forwarded along a chain of at most `fuel` agents *)
Fixpoint hops (fuel : nat) (ttl : Z) : nat :=
  match fuel with
  | O => O
  | S f => match send_ttl ttl with None => O | Some t => S (hops f t) end
  end.

(* ---- Topology: role -> PeerList (names, in insertion order) *)
Definition topology := list (N * list N).

Fixpoint plist_update (l : list N) (name : N) : list N :=      (* PeerList.Update: replace in place or append *)
  match l with
  | [] => [name]
  | x :: r => if x =? name then name :: r else x :: plist_update r name
  end.
Fixpoint plist_delete (l : list N) (name : N) : list N :=      (* PeerList.Delete: first match *)
  match l with
  | [] => []
  | x :: r => if x =? name then r else x :: plist_delete r name
  end.

Fixpoint topo_update (t : topology) (role name : N) : topology :=
  match t with
  | [] => [(role, [name])]
  | (r, l) :: rest => if r =? role then (r, plist_update l name) :: rest else (r, l) :: topo_update rest role name
  end.
Fixpoint topo_delete (t : topology) (role name : N) : topology :=   (* unknown role: nothing to delete *)
  match t with
  | [] => []
  | (r, l) :: rest => if r =? role then (r, plist_delete l name) :: rest else (r, l) :: topo_delete rest role name
  end.
Definition topo_get (t : topology) (role : N) : option (list N) := assoc N.eqb role t.

(* list.Exclude(excluded) *)
Definition exclude (l excluded : list N) : list N := filter (fun p => negb (existsb (N.eqb p) excluded)) l.

(* Each(1, excluded): one peer per role among the non-excluded ones; pick r c chooses among candidates c *)
Definition each1 (t : topology) (excluded : list N) (pick : N -> list N -> N) : list N :=
  flat_map (fun rl => match exclude (snd rl) excluded with
                      | [] => []
                      | c => [pick (fst rl) c]
                      end) t.

(* Agent.route(src): src and self are excluded *)
Definition route (t : topology) (self src : N) (pick : N -> list N -> N) : list N := each1 t [src; self] pick.

(* what an observed routing decision must satisfy: one destination for every role that has a candidate, each a
   candidate of a distinct role, nothing else *)
Definition valid_route (t : topology) (self src : N) (observed : list N) : bool :=
  let cands := map (fun rl => exclude (snd rl) [src; self]) t in
  let nonempty := filter (fun c => match c with [] => false | _ => true end) cands in
  Nat.eqb (length observed) (length nonempty) &&
  forallb (fun c => existsb (fun o => existsb (N.eqb o) c) observed) nonempty &&
  forallb (fun o => existsb (fun c => existsb (N.eqb o) c) nonempty) observed.

(* ---- BatchProcessor: digest-of-batch cache *)
Definition was_processed (cache : list N) (digest : N) : bool * list N :=
  if existsb (N.eqb digest) cache then (true, cache) else (false, digest :: cache).

(* deliveries of batches (by digest) to one agent: the digests for which tasks are created, in order *)
Fixpoint process (cache : list N) (deliveries : list N) : list N :=
  match deliveries with
  | [] => []
  | d :: r => let '(seen, cache') := was_processed cache d in
              if seen then process cache' r else d :: process cache' r
  end.
