(* C18, last sentence: "the agent's view of the network stays consistent".  gossip/delegate.go applies memberlist's
   notifications (NotifyJoin / NotifyUpdate -> Topology.Update, NotifyLeave -> Topology.Delete) one after the other; after
   ANY sequence of notifications the peers an agent lists for a role are exactly those that joined (or were updated)
   and have not left since - as a set, without duplicates.  [joined] is the specification (the oracle the harness
   applies to the real delegate); the theorem says the list manipulation of topology.go / peer.go computes it. *)
From Coq Require Import ZArith.
From QV Require Import Base.Util Gossip.Gossip Gossip.GossipProofs.

Inductive mev := MJoin (role name : N) | MLeave (role name : N).     (* an update is a join *)

Definition topo_step (t : topology) (e : mev) : topology :=
  match e with MJoin r n => topo_update t r n | MLeave r n => topo_delete t r n end.
Definition members (t : topology) (role : N) : list N := match topo_get t role with Some l => l | None => [] end.

(* the specification: a join (or update) adds the peer to the set of its role, a leave removes it *)
Definition spec_step (P : N -> N -> bool) (e : mev) : N -> N -> bool :=
  fun r n => match e with
             | MJoin r' n' => ((r' =? r) && (n' =? n)) || P r n
             | MLeave r' n' => negb ((r' =? r) && (n' =? n)) && P r n
             end.
Definition joined (evs : list mev) : N -> N -> bool := fold_left spec_step evs (fun _ _ => false).

Lemma plist_update_in l n x : In x (plist_update l n) <-> x = n \/ In x l.
Proof.
  induction l as [|y l IH]; cbn [plist_update].
  - cbn. intuition.
  - destruct (y =? n) eqn:Hyn.
    + apply N.eqb_eq in Hyn. subst y. cbn. intuition.
    + cbn [In]. rewrite IH. intuition.
Qed.

Lemma plist_delete_in l n x : NoDup l -> (In x (plist_delete l n) <-> In x l /\ x <> n).
Proof.
  induction l as [|y l IH]; intros Hnd; cbn [plist_delete].
  - cbn. intuition.
  - inversion Hnd as [|? ? Hy Hl]; subst. destruct (y =? n) eqn:Hyn.
    + apply N.eqb_eq in Hyn. subst y. cbn [In]. split.
      * intros Hx. split; [right; exact Hx|]. intros ->. exact (Hy Hx).
      * intros [[->|Hx] Hne]; [congruence|exact Hx].
    + apply N.eqb_neq in Hyn. cbn [In]. rewrite (IH Hl). split.
      * intros [->|[Hx Hne]]; [split; [left; reflexivity|congruence]|split; [right; exact Hx|exact Hne]].
      * intros [[->|Hx] Hne]; [left; reflexivity|right; split; assumption].
Qed.

Lemma members_update t r n r' :
  members (topo_update t r n) r' = if r' =? r then plist_update (members t r') n else members t r'.
Proof.
  unfold members, topo_get. induction t as [|[r0 l0] rest IH]; cbn [topo_update assoc].
  - destruct (r' =? r) eqn:Hr; cbn [assoc]; rewrite ?Hr; reflexivity.
  - destruct (r0 =? r) eqn:H0; cbn [assoc].
    + apply N.eqb_eq in H0. subst r0. destruct (r' =? r); reflexivity.
    + destruct (r' =? r0) eqn:H1.
      * apply N.eqb_eq in H1. subst r'. rewrite H0. reflexivity.
      * exact IH.
Qed.

Lemma members_delete t r n r' :
  members (topo_delete t r n) r' = if r' =? r then plist_delete (members t r') n else members t r'.
Proof.
  unfold members, topo_get. induction t as [|[r0 l0] rest IH]; cbn [topo_delete assoc].
  - destruct (r' =? r); reflexivity.
  - destruct (r0 =? r) eqn:H0; cbn [assoc].
    + apply N.eqb_eq in H0. subst r0. destruct (r' =? r); reflexivity.
    + destruct (r' =? r0) eqn:H1.
      * apply N.eqb_eq in H1. subst r'. rewrite H0. reflexivity.
      * exact IH.
Qed.

Lemma assoc_in {B} k (l : list (N * B)) v : assoc N.eqb k l = Some v -> In (k, v) l.
Proof.
  induction l as [|[k0 v0] r IH]; cbn [assoc]; [discriminate|].
  destruct (k =? k0) eqn:Hk; [apply N.eqb_eq in Hk; subst k0; intros H; injection H as <-; left; reflexivity|].
  intros H. right. exact (IH H).
Qed.

Lemma members_nodup t r : TopoOK t -> NoDup (members t r).
Proof.
  intros Hok. unfold members, topo_get. destruct (assoc N.eqb r t) as [l|] eqn:Ha; [|constructor].
  exact (Hok r l (assoc_in r t l Ha)).
Qed.

Lemma topo_step_ok t e : TopoOK t -> TopoOK (topo_step t e).
Proof. destruct e; [apply topo_update_ok|apply topo_delete_ok]. Qed.

Definition topo_run (t : topology) (evs : list mev) : topology := fold_left topo_step evs t.
Definition agree (t : topology) (P : N -> N -> bool) : Prop := forall r n, In n (members t r) <-> P r n = true.

Lemma agree_step t P e : TopoOK t -> agree t P -> agree (topo_step t e) (spec_step P e).
Proof.
  intros Hok Ha r n. destruct e as [r' n'|r' n']; cbn [topo_step spec_step].
  - rewrite members_update. rewrite (N.eqb_sym r' r). destruct (r =? r') eqn:Hr; cbn [andb orb].
    + rewrite plist_update_in, (Ha r n). destruct (n' =? n) eqn:Hn; cbn [orb].
      * apply N.eqb_eq in Hn. subst n'. split; [reflexivity|left; reflexivity].
      * apply N.eqb_neq in Hn. split; [intros [->|H]; [congruence|exact H]|intros H; right; exact H].
    + exact (Ha r n).
  - rewrite members_delete. rewrite (N.eqb_sym r' r). destruct (r =? r') eqn:Hr; cbn [andb negb].
    + rewrite (plist_delete_in _ _ _ (members_nodup t r Hok)), (Ha r n). destruct (n' =? n) eqn:Hn; cbn [negb andb].
      * apply N.eqb_eq in Hn. subst n'. split; [intros [_ H]; congruence|discriminate].
      * apply N.eqb_neq in Hn. split; [intros [H _]; exact H|intros H; split; [exact H|congruence]].
    + exact (Ha r n).
Qed.

(* after ANY sequence of notifications: the peers listed for a role are exactly those that joined and have not left
   since, and none is listed twice *)
Theorem view_consistent evs : forall t P, TopoOK t -> agree t P ->
  TopoOK (topo_run t evs) /\ agree (topo_run t evs) (fold_left spec_step evs P).
Proof.
  induction evs as [|e evs IH]; intros t P Hok Ha; cbn [topo_run fold_left]; [split; assumption|].
  apply IH; [apply topo_step_ok; exact Hok|apply agree_step; assumption].
Qed.

Lemma TopoOK_empty : TopoOK [].
Proof. intros r l []. Qed.
Lemma agree_empty : agree [] (fun _ _ => false).
Proof. intros r n. cbn. split; [intros []|discriminate]. Qed.

Corollary view_from_empty evs r n :
  NoDup (members (topo_run [] evs) r) /\ (In n (members (topo_run [] evs) r) <-> joined evs r n = true).
Proof.
  destruct (view_consistent evs [] _ TopoOK_empty agree_empty) as [Hok Ha].
  split; [apply members_nodup; exact Hok|exact (Ha r n)].
Qed.
