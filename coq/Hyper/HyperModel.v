(* The hyper tree: the published construction (sparse Merkle tree of height n over the key bits with
   default hashes for empty subtrees and shortcut leaves H(value ‖ pos) at the highest single-key node
   at or below the cache-height limit), its membership prover and the client verifier
   (balloon/hyper/verify.go, proof.go).  The Go insertion/search code works on 31-slot batches, a
   batch cache and a store; what it must compute is this function of the key->value map, which is
   what the correspondence runs compare it with (digest after every call, every audit path, every
   verdict).  No proofs here. *)
From QV Require Import Base.Util Base.HashSig.

Section HyperModel.
  Variables D E V : Type.
  Variable H : hin D E V -> D.
  Variable limit : nat.        (* cacheHeightLimit: 232 for 256-bit digests *)

  Definition key := list bool.

  Fixpoint key_eqb (a b : key) : bool :=
    match a, b with
    | [], [] => true
    | x :: a', y :: b' => Bool.eqb x y && key_eqb a' b'
    | _, _ => false
    end.

  (* default hashes, highest first: dlist h = [d_h; d_(h-1); ...; d_0] *)
  Fixpoint dlist (h : nat) : list D :=
    match h with
    | O => [H YDef0]
    | S k => match dlist k with
             | d :: r => H (YDef d d) :: d :: r
             | [] => []
             end
    end.

  Inductive ytree : Type :=
  | TEmpty
  | TLeaf (k : key) (v : V) (hash : D)       (* shortcut leaf (or a real leaf at height 0) *)
  | TNode (hash : D) (l r : ytree).

  (* hash of a subtree; dflt = default hash of an empty subtree at this height *)
  Definition thash (dflt : D) (t : ytree) : D :=
    match t with
    | TEmpty => dflt
    | TLeaf _ _ x => x
    | TNode x _ _ => x
    end.

  (* entries under a node: (remaining key bits, (full key, value)) *)
  Definition entry := (key * (key * V))%type.
  Definition child (b : bool) (sub : list entry) : list entry :=
    flat_map (fun e => match fst e with
                       | x :: r => if Bool.eqb x b then [(r, snd e)] else []
                       | [] => []
                       end) sub.

  Fixpoint ybuild (h : nat) (ds : list D) (pre : list bool) (sub : list entry) : ytree :=
    match sub with
    | [] => TEmpty
    | (_, (k0, v0)) :: rest =>
        match h with
        | O => TLeaf k0 v0 (H (YLeaf v0 (pre, O)))
        | S h' =>
            let node :=
              let l := ybuild h' (tl ds) (pre ++ [false]) (child false sub) in
              let r := ybuild h' (tl ds) (pre ++ [true]) (child true sub) in
              let dc := hd (H YDef0) (tl ds) in      (* default hash one level down *)
              TNode (H (YNode (thash dc r) (thash dc l) (pre, h))) l r in
            match rest with
            | [] => if Nat.leb h limit then TLeaf k0 v0 (H (YLeaf v0 (pre, h))) else node
            | _ => node
            end
        end
    end.

  (* the key -> value map as built by the calls: a later call overwrites, inside one bulk the first
     occurrence of a digest wins *)
  Fixpoint map_get (m : list (key * V)) (k : key) : option V :=
    match m with
    | [] => None
    | (k', v) :: r => if key_eqb k k' then Some v else map_get r k
    end.
  Fixpoint map_set (m : list (key * V)) (k : key) (v : V) : list (key * V) :=
    match m with
    | [] => [(k, v)]
    | (k', v') :: r => if key_eqb k k' then (k', v) :: r else (k', v') :: map_set r k v
    end.
  Fixpoint bulk_dedup (seen : list key) (kvs : list (key * V)) : list (key * V) :=
    match kvs with
    | [] => []
    | (k, v) :: r => if existsb (key_eqb k) seen then bulk_dedup seen r else (k, v) :: bulk_dedup (k :: seen) r
    end.
  Definition map_add_bulk (m : list (key * V)) (kvs : list (key * V)) : list (key * V) :=
    fold_left (fun acc kv => map_set acc (fst kv) (snd kv)) (bulk_dedup [] kvs) m.

  (* ds = dlist n, passed in so that an executing instance computes the default hashes once *)
  Definition ytree_of (n : nat) (ds : list D) (m : list (key * V)) : ytree :=
    ybuild n ds [] (map (fun kv => (fst kv, kv)) m).
  Definition yroot (ds : list D) (t : ytree) : D := thash (hd (H YDef0) ds) t.

  (* HyperTree.QueryMembership: value found (only if the shortcut leaf holds exactly this key) and the
     sibling hashes from the root down to that leaf *)
  Fixpoint yfind (h : nat) (ds : list D) (pre : list bool) (t : ytree) (kb : key) (full : key)
    : option V * list (hpos * D) :=
    match t with
    | TEmpty => (None, [])
    | TLeaf k v _ => ((if key_eqb k full then Some v else None), [])
    | TNode _ l r =>
        match h, kb with
        | S h', b :: kb' =>
            let dc := hd (H YDef0) (tl ds) in
            if b then
              let '(v, p) := yfind h' (tl ds) (pre ++ [true]) r kb' full in
              (v, ((pre ++ [false], h'), thash dc l) :: p)
            else
              let '(v, p) := yfind h' (tl ds) (pre ++ [false]) l kb' full in
              (v, ((pre ++ [true], h'), thash dc r) :: p)
        | _, _ => (None, [])
        end
    end.
  Definition hyper_find (n : nat) (ds : list D) (t : ytree) (k : key) := yfind n ds [] t k k.

  Definition hpos_eqb (x y : hpos) : bool := key_eqb (fst x) (fst y) && Nat.eqb (snd x) (snd y).
  (* an audit path is a Go map keyed by position: a later write wins *)
  Definition hpath_get (p : list (hpos * D)) : hpos -> option D := fun q => assoc hpos_eqb q (rev p).

  (* hyper/verify.go pruneToVerify + interpretation: recompute the root from the leaf at height lh;
     None = a path entry is missing (the Go code panics there at the pinned commit) *)
  Fixpoint yverify (path : hpos -> option D) (lh : N) (value : V) (h : nat) (pre : list bool) (kb : key) : option D :=
    if N.of_nat h <=? lh then Some (H (YLeaf value (pre, h))) else
    match h, kb with
    | S h', b :: kb' =>
        if b then
          match path (pre ++ [false], h') with
          | None => None
          | Some sib =>
              match yverify path lh value h' (pre ++ [true]) kb' with
              | None => None
              | Some x => Some (H (YNode x sib (pre, h)))
              end
          end
        else
          match yverify path lh value h' (pre ++ [false]) kb' with
          | None => None
          | Some x =>
              match path (pre ++ [true], h') with
              | None => None
              | Some sib => Some (H (YNode sib x (pre, h)))
              end
          end
    | _, _ => None
    end.

  (* QueryProof.Verify's leaf height: hasher.Len() - uint16(len(AuditPath)), in uint16 arithmetic *)
  Definition leaf_height (n npath : nat) : N :=
    (N.of_nat n + 65536 - (N.of_nat npath mod 65536)) mod 65536.

  Definition hyper_root_of_proof (n : nat) (path : hpos -> option D) (npath : nat) (k : key) (value : V) : option D :=
    yverify path (leaf_height n npath) value n [] k.
End HyperModel.

Arguments TEmpty {D V}. Arguments TLeaf {D V}. Arguments TNode {D V}.
