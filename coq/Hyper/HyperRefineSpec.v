(* The batch-level hyper tree against the published construction: `sh` (the specification on full keys used by
   Hyper/HyperRefine.v) is the root of `ytree_of`, it does not depend on the order in which the map is listed, and
   inserting leaves into a map is `map_add_bulk`.  Hence: on tables that represent the map, HyperTree.Add/AddBulk
   return the root of the sparse tree of the updated map (hb_insert_spec). *)
From QV Require Import Base.Util Base.HashSig Hyper.HyperModel Hyper.HyperBatch Hyper.HyperRefine Balloon.BalloonProofs.
From Coq Require Import Permutation.

Local Open Scope nat_scope.

Section HyperRefineSpec.
  Variables D E V : Type.
  Variable H : hin D E V -> D.
  Variable limit nbits : nat.
  Notation ds := (dlist D E V H nbits).
  Notation sh := (sh D E V H limit nbits).
  Notation keys_ok := (keys_ok V nbits).
  Notation mrg := (mrg V).

  (* ---- order independence *)
  Lemma perm_filter {A} (f : A -> bool) (l l' : list A) : Permutation l l' -> Permutation (filter f l) (filter f l').
  Proof.
    induction 1 as [|x l l' _ IH|x y l|l l' l'' _ IH1 _ IH2]; cbn.
    - constructor.
    - destruct (f x); [constructor|]; exact IH.
    - destruct (f x), (f y); try apply Permutation_refl. apply perm_swap.
    - exact (Permutation_trans IH1 IH2).
  Qed.

  Lemma keys_ok_perm pre (M M' : list (key * V)) : Permutation M M' -> keys_ok pre M -> keys_ok pre M'.
  Proof. intros Hp Hk. unfold HyperRefine.keys_ok in *. exact (Permutation_Forall Hp Hk). Qed.

  Lemma nodup_perm (M M' : list (key * V)) : Permutation M M' -> NoDup (map fst M) -> NoDup (map fst M').
  Proof. intros Hp. apply Permutation_NoDup. apply Permutation_map. exact Hp. Qed.

  Lemma sh_perm h : forall pre M M', Permutation M M' -> NoDup (map fst M) -> keys_ok pre M -> h + length pre = nbits ->
    sh h pre M = sh h pre M'.
  Proof.
    induction h as [|h' IH]; intros pre M M' Hp Hn Hk Hlen.
    - assert (Hl : length M <= 1) by (apply (keys_full_le1 V nbits pre); [lia|exact Hk|exact Hn]).
      destruct M as [|x [|y M2]]; [|apply Permutation_length_1_inv in Hp; subst; reflexivity|cbn in Hl; lia].
      apply Permutation_nil in Hp. subst. reflexivity.
    - destruct M as [|x M1]; [apply Permutation_nil in Hp; subst; reflexivity|].
      destruct (Nat.leb (S h') limit) eqn:Hlim; [destruct M1 as [|y M2]|].
      + apply Permutation_length_1_inv in Hp. subst. reflexivity.
      + assert (H2 : 2 <= length (x :: y :: M2)) by (cbn; lia).
        assert (H2' : 2 <= length M') by (rewrite <- (Permutation_length Hp); exact H2).
        rewrite (sh_node D E V H limit nbits h' pre (x :: y :: M2) (or_introl H2)), (sh_node D E V H limit nbits h' pre M' (or_introl H2')).
        assert (Hpl : length pre < nbits) by lia.
        f_equal. f_equal.
        * apply IH; [apply perm_filter; exact Hp|apply nodup_filter_fst; exact Hn|apply keys_ok_M1; assumption|rewrite app_length; cbn; lia].
        * apply IH; [apply perm_filter; exact Hp|apply nodup_filter_fst; exact Hn|apply keys_ok_M0; assumption|rewrite app_length; cbn; lia].
      + apply Nat.leb_gt in Hlim.
        assert (Hne' : M' <> []) by (intros ->; apply Permutation_sym, Permutation_nil in Hp; discriminate).
        assert (Hne0 : x :: M1 <> []) by discriminate.
        rewrite (sh_node D E V H limit nbits h' pre (x :: M1) (or_intror (conj Hne0 Hlim))),
                (sh_node D E V H limit nbits h' pre M' (or_intror (conj Hne' Hlim))).
        assert (Hpl : length pre < nbits) by lia.
        f_equal. f_equal.
        * apply IH; [apply perm_filter; exact Hp|apply nodup_filter_fst; exact Hn|apply keys_ok_M1; assumption|rewrite app_length; cbn; lia].
        * apply IH; [apply perm_filter; exact Hp|apply nodup_filter_fst; exact Hn|apply keys_ok_M0; assumption|rewrite app_length; cbn; lia].
  Qed.

  (* ---- sh is the hash of the published construction *)
  Definition ents (pre : list bool) (M : list (key * V)) : list (entry V) :=
    map (fun kv => (skipn (length pre) (fst kv), kv)) M.

  Lemma skipn_nth_cons {A} (d : A) n : forall (l : list A), n < length l -> skipn n l = nth n l d :: skipn (S n) l.
  Proof. induction n as [|n IH]; intros [|x l] Hl; cbn in *; try lia; [reflexivity|]. apply IH. lia. Qed.

  Lemma child_ents pre (M : list (key * V)) b :
    Forall (fun kv => length pre < length (fst kv)) M ->
    child V b (ents pre M) = ents (pre ++ [b]) (filter (fun kv => Bool.eqb (bit_at pre (fst kv)) b) M).
  Proof.
    intros Hl. unfold child, ents. induction M as [|[k v] M IH]; [reflexivity|].
    inversion Hl as [|? ? Hk Hl']; subst. cbn [map flat_map fst snd filter].
    rewrite (skipn_nth_cons false (length pre) k Hk). change (nth (length pre) k false) with (bit_at pre k).
    destruct (Bool.eqb (bit_at pre k) b); cbn [app map fst]; rewrite (IH Hl'); [|reflexivity].
    replace (length (pre ++ [b])) with (S (length pre)) by (rewrite app_length; cbn; lia). reflexivity.
  Qed.

  Lemma filter_M0 pre (M : list (key * V)) : filter (fun kv => Bool.eqb (bit_at pre (fst kv)) false) M = M0 V pre M.
  Proof. unfold M0. apply filter_ext. intros kv. destruct (bit_at pre (fst kv)); reflexivity. Qed.
  Lemma filter_M1 pre (M : list (key * V)) : filter (fun kv => Bool.eqb (bit_at pre (fst kv)) true) M = M1 V pre M.
  Proof. unfold M1. apply filter_ext. intros kv. destruct (bit_at pre (fst kv)); reflexivity. Qed.

  Lemma tl_skipn {A} n : forall (l : list A), tl (skipn n l) = skipn (S n) l.
  Proof. induction n as [|n IH]; intros [|x l]; cbn; try reflexivity. apply IH. Qed.
  Lemma hd_skipn {A} (d : A) n : forall l, hd d (skipn n l) = nth n l d.
  Proof. induction n as [|n IH]; intros [|x l]; cbn; try reflexivity. apply IH. Qed.

  Lemma sh_spec h : forall pre M, keys_ok pre M -> h + length pre = nbits ->
    sh h pre M = thash D V (HyperBatch.dflt D E V H nbits ds h) (ybuild D E V H limit h (skipn (nbits - h) ds) pre (ents pre M)).
  Proof.
    induction h as [|h' IH]; intros pre M Hk Hlen.
    - destruct M as [|[k v] rest]; reflexivity.
    - destruct M as [|[k v] rest]; [reflexivity|].
      assert (Hlong : Forall (fun kv : key * V => length pre < length (fst kv)) ((k, v) :: rest)).
      { unfold HyperRefine.keys_ok in Hk. apply Forall_forall. intros x Hx. rewrite Forall_forall in Hk. destruct (Hk x Hx) as [A _]. cbv beta. unfold key in *. lia. }
      assert (Hpl : length pre < nbits) by lia.
      assert (Hnode : H (YNode (sh h' (pre ++ [true]) (M1 V pre ((k, v) :: rest))) (sh h' (pre ++ [false]) (M0 V pre ((k, v) :: rest))) (pre, S h')) =
                      H (YNode (thash D V (hd (H YDef0) (tl (skipn (nbits - S h') ds)))
                                  (ybuild D E V H limit h' (tl (skipn (nbits - S h') ds)) (pre ++ [true]) (child V true (ents pre ((k, v) :: rest)))))
                               (thash D V (hd (H YDef0) (tl (skipn (nbits - S h') ds)))
                                  (ybuild D E V H limit h' (tl (skipn (nbits - S h') ds)) (pre ++ [false]) (child V false (ents pre ((k, v) :: rest)))))
                               (pre, S h'))).
      { rewrite !(child_ents pre _ _ Hlong), filter_M0, filter_M1, tl_skipn.
        replace (S (nbits - S h')) with (nbits - h') by lia. rewrite hd_skipn.
        rewrite (IH (pre ++ [true]) (M1 V pre ((k, v) :: rest)) (keys_ok_M1 V nbits pre _ Hpl Hk) ltac:(rewrite app_length; cbn; lia)).
        rewrite (IH (pre ++ [false]) (M0 V pre ((k, v) :: rest)) (keys_ok_M0 V nbits pre _ Hpl Hk) ltac:(rewrite app_length; cbn; lia)).
        reflexivity. }
      change (ents pre ((k, v) :: rest)) with ((skipn (length pre) k, (k, v)) :: ents pre rest) in *.
      cbn [HyperRefine.sh ybuild]. destruct rest as [|y rest'].
      + cbn [ents map]. destruct (Nat.leb (S h') limit); [reflexivity|]. cbn [thash]. exact Hnode.
      + cbn [ents map]. cbn [thash]. exact Hnode.
  Qed.

  Theorem sh_root (M : list (key * V)) : keys_ok [] M ->
    sh nbits [] M = yroot D E V H ds (ytree_of D E V H limit nbits ds M).
  Proof.
    intros Hk. rewrite (sh_spec nbits [] M Hk ltac:(cbn; lia)). unfold yroot, ytree_of, ents, HyperBatch.dflt.
    rewrite Nat.sub_diag. cbn [skipn length]. f_equal.
    destruct ds; reflexivity.
  Qed.

  (* ---- inserting leaves is map_add_bulk, up to the order of the listing *)
  Lemma set_all_get_out l : forall m k, ~ In k (map fst l) -> map_get V (set_all V m l) k = map_get V m k.
  Proof.
    induction l as [|[k0 v0] l IH]; intros m k Hn; [reflexivity|]. rewrite set_all_cons.
    rewrite IH by (intros Hin; apply Hn; right; exact Hin). rewrite map_get_set.
    destruct (key_eqb k k0) eqn:He; [|reflexivity]. apply key_eqb_eq in He. subst. exfalso. apply Hn. left. reflexivity.
  Qed.

  Lemma set_all_get_in l : forall m k w, NoDup (map fst l) -> In (k, w) l -> map_get V (set_all V m l) k = Some w.
  Proof.
    induction l as [|[k0 v0] l IH]; intros m k w Hnd Hin; [destruct Hin|]. rewrite set_all_cons.
    cbn [map fst] in Hnd. inversion Hnd as [|? ? Hk0 Hnd']; subst. destruct Hin as [Heq|Hin].
    - injection Heq as -> ->. rewrite set_all_get_out by exact Hk0. rewrite map_get_set, (proj2 (key_eqb_eq k k) eq_refl). reflexivity.
    - apply IH; assumption.
  Qed.

  Lemma mrg_perm_set_all (M m L : list (key * V)) :
    Permutation M m -> NoDup (map fst M) -> NoDup (map fst L) -> Permutation (mrg M L) (set_all V m L).
  Proof.
    intros Hp HM HL.
    assert (Hm : NoDup (map fst m)) by (apply (nodup_perm M m Hp HM)).
    apply NoDup_Permutation.
    - apply (NoDup_map_inv fst). apply nodup_mrg; assumption.
    - apply (NoDup_map_inv fst). apply set_all_nodup. exact Hm.
    - intros [k w]. rewrite (map_get_in V (set_all V m L) k w (set_all_nodup V L m Hm)).
      unfold HyperRefine.mrg. rewrite in_app_iff, filter_In. split.
      + intros [[Hin Hf]|Hin].
        * apply negb_true_iff in Hf. cbn [fst] in Hf.
          assert (Hn : ~ In k (map fst L)) by (intros Hc; apply (inb_in V) in Hc; congruence).
          rewrite set_all_get_out by exact Hn. apply (map_get_in V m k w Hm). apply (Permutation_in _ Hp). exact Hin.
        * apply set_all_get_in; assumption.
      + intros Hg. destruct (set_all_get V L m k w HL Hg) as [Hin|[Hn Hg']]; [right; exact Hin|].
        left. split.
        * apply (Permutation_in _ (Permutation_sym Hp)). apply (map_get_in V m k w Hm). exact Hg'.
        * apply negb_true_iff. cbn [fst]. destruct (inb V k L) eqn:Hi; [|reflexivity]. apply (inb_in V) in Hi. contradiction.
  Qed.

  Lemma keys_ok_nil_len (M : list (key * V)) : keys_ok [] M <-> Forall (fun kv => length (fst kv) = nbits) M.
  Proof.
    unfold HyperRefine.keys_ok. rewrite !Forall_forall. split; intros Hk x Hx; [exact (proj1 (Hk x Hx))|split; [exact (Hk x Hx)|reflexivity]].
  Qed.

  Hypothesis limit4 : limit mod 4 = 0.
  Hypothesis nbits4 : nbits mod 4 = 0.
  Hypothesis limit_pos : 0 < limit.
  Hypothesis limit_lt : limit < nbits.

  (* The tables represent the sparse tree of the map m (listed in some order).  One HyperTree.Add / AddBulk call with
     the key/value pairs kvs (any pairs of full-length keys, repetitions allowed: the first occurrence of a key in
     the call wins, as in the Go code): the call succeeds, returns the root of the published construction over
     map_add_bulk m kvs, and the tables represent that map afterwards. *)
  Definition Represents (st : hstate D V) (m : list (key * V)) : Prop :=
    exists M, Permutation M m /\ NoDup (map fst M) /\ keys_ok [] M /\ RepState D E V H limit nbits st M.

  Theorem hb_insert_spec st m kvs :
    Represents st m -> kvs <> [] -> Forall (fun kv => length (fst kv) = nbits) kvs ->
    exists d st', hb_insert D E V H limit nbits ds st kvs = Some (d, st') /\
      d = yroot D E V H ds (ytree_of D E V H limit nbits ds (map_add_bulk V m kvs)) /\
      Represents st' (map_add_bulk V m kvs).
  Proof.
    intros (M & Hp & HnM & HkM & HR) Hne Hlen.
    set (L := bulk_dedup V [] kvs).
    assert (HnL : NoDup (map fst L)).
    { apply (dedup_nodup V kvs []). }
    assert (HkL : keys_ok [] L).
    { apply keys_ok_nil_len. apply Forall_forall. intros x Hx. rewrite Forall_forall in Hlen. apply Hlen. exact (dedup_sub V [] kvs x Hx). }
    assert (HLne : L <> []).
    { unfold L. destruct kvs as [|[k v] r]; [contradiction|]. cbn. discriminate. }
    destruct (insert_refines D E V H limit nbits limit4 nbits4 limit_pos limit_lt st M L HR HLne HkL HnL HkM HnM) as (d & w & E1 & E2 & E3).
    unfold hb_insert. fold L. rewrite E1. exists d, (fold_left (apply_wr D V) w st). split; [reflexivity|].
    assert (Hperm : Permutation (mrg M L) (map_add_bulk V m kvs)) by (exact (mrg_perm_set_all M m L Hp HnM HnL)).
    split.
    - rewrite E2. rewrite (sh_perm nbits [] (mrg M L) (map_add_bulk V m kvs) Hperm (nodup_mrg V M L HnM HnL) (keys_ok_mrg V nbits [] M L HkM HkL) ltac:(cbn; lia)).
      apply sh_root. exact (keys_ok_perm [] _ _ Hperm (keys_ok_mrg V nbits [] M L HkM HkL)).
    - exists (mrg M L). split; [exact Hperm|]. split; [apply nodup_mrg; assumption|]. split; [apply keys_ok_mrg; assumption|exact E3].
  Qed.

  Theorem hinit_represents : Represents (hinit D V) [].
  Proof. exists []. repeat split; try constructor. apply init_represents. Qed.

  (* every sequence of calls from the empty tables: the digest returned by each call is the root of the published
     construction over the map built so far *)
  Fixpoint hb_run (st : hstate D V) (calls : list (list (key * V))) : option (list D * hstate D V) :=
    match calls with
    | [] => Some ([], st)
    | kvs :: r =>
        match hb_insert D E V H limit nbits ds st kvs with
        | None => None
        | Some (d, st') => match hb_run st' r with Some (dsr, st'') => Some (d :: dsr, st'') | None => None end
        end
    end.

  Fixpoint spec_run (m : list (key * V)) (calls : list (list (key * V))) : list D * list (key * V) :=
    match calls with
    | [] => ([], m)
    | kvs :: r =>
        let m' := map_add_bulk V m kvs in
        let '(dsr, m'') := spec_run m' r in
        (yroot D E V H ds (ytree_of D E V H limit nbits ds m') :: dsr, m'')
    end.

  Theorem hb_run_spec calls : forall st m,
    Represents st m ->
    Forall (fun kvs => kvs <> [] /\ Forall (fun kv => length (fst kv) = nbits) kvs) calls ->
    exists st', hb_run st calls = Some (fst (spec_run m calls), st') /\ Represents st' (snd (spec_run m calls)).
  Proof.
    induction calls as [|kvs r IH]; intros st m HR Hc.
    - exists st. split; [reflexivity|exact HR].
    - inversion Hc as [|? ? [Hne Hl] Hc']; subst.
      destruct (hb_insert_spec st m kvs HR Hne Hl) as (d & st' & E1 & E2 & E3).
      destruct (IH st' (map_add_bulk V m kvs) E3 Hc') as (st'' & F1 & F2).
      cbn [hb_run spec_run]. rewrite E1, F1. destruct (spec_run (map_add_bulk V m kvs) r) as [dsr m''] eqn:Hs.
      cbn [fst snd] in *. exists st''. split; [rewrite E2; reflexivity|exact F2].
  Qed.
End HyperRefineSpec.
