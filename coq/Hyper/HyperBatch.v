(* The hyper tree as the Go code stores it (balloon/hyper: batch.go, loader.go, insert_bulk.go / insert.go,
   operation.go, rebuild.go, tree.go): 31-slot batches of height 4, the batches above the cache-height
   limit in an in-memory cache (the ones at the recovery height also written to HyperCacheTable), the
   others in HyperTable; shortcut leaves (hash, key, value in three slots); push-down of a shortcut leaf when
   a second key arrives below it.

   A batch is modelled as the complete binary tree its 31 slots form (slot i has the children 2i+1 and 2i+2):
   `bt_view` lists the slots with their level-order numbers, which is what the correspondence run compares with
   the serialised batches of the Go tables, slot by slot, after every call.

   pruneToInsert(Bulk) builds an operation stack while walking the tree and the stack is interpreted afterwards;
   every batch is loaded once, during the walk, from the state as it was before the call, and every write goes
   to a batch that was loaded in this call, so walking and interpreting can be fused: `node` below returns the
   hash, the updated (sub)batch and the writes, in the order the interpreter produces them for one subtree.
   None = the Go code would panic or read a slot that holds a key/value as if it were a hash.
   No proofs here. *)
From QV Require Import Base.Util Base.HashSig Hyper.HyperModel.

Local Open Scope nat_scope.

Section HyperBatch.
  Variables D E V : Type.
  Variable H : hin D E V -> D.
  Variable limit nbits : nat.
  Variable ds : list D.                    (* dlist nbits: default hashes, highest first *)

  Inductive slot := SHash (d : D) | SLeaf (d : D) | SKey (k : key) | SVal (v : V).
  Inductive bt := BNil | BNode (s : option slot) (l r : bt).

  Fixpoint bempty (levels : nat) : bt :=
    match levels with O => BNil | S k => BNode None (bempty k) (bempty k) end.
  Definition empty_batch : bt := bempty 5.             (* 1+2+4+8+16 = 31 slots *)

  Definition rslot (t : bt) : option slot := match t with BNode s _ _ => s | BNil => None end.
  Definition set_root (t : bt) (s : option slot) : bt := match t with BNode _ l r => BNode s l r | BNil => BNil end.

  (* the slots with their level-order numbers *)
  Fixpoint bt_view (t : bt) (i : nat) : list (nat * slot) :=
    match t with
    | BNil => []
    | BNode s l r => (match s with Some x => [(i, x)] | None => [] end) ++ bt_view l (2 * i + 1) ++ bt_view r (2 * i + 2)
    end.

  (* default hash of an empty subtree of height h *)
  Definition dflt (h : nat) : D := nth (nbits - h) ds (H YDef0).

  (* getProvidedHash / getDefaultHash on a branch no leaf goes into *)
  Definition discard (t : bt) (h : nat) : option D :=
    match rslot t with
    | None => Some (dflt h)
    | Some (SHash d) | Some (SLeaf d) => Some d
    | Some _ => None
    end.

  (* the three tables *)
  Inductive wr := WCache (p : hpos) (b : bt) | WTile (p : hpos) (b : bt) | WStore (p : hpos) (b : bt).
  Record hstate := { hs_cache : list (hpos * bt); hs_tiles : list (hpos * bt); hs_store : list (hpos * bt) }.
  Definition hinit : hstate := {| hs_cache := []; hs_tiles := []; hs_store := [] |}.

  Definition tget (t : list (hpos * bt)) (p : hpos) : bt :=
    match assoc hpos_eqb p t with Some b => b | None => empty_batch end.
  Fixpoint tset (t : list (hpos * bt)) (p : hpos) (b : bt) : list (hpos * bt) :=
    match t with
    | [] => [(p, b)]
    | (q, c) :: r => if hpos_eqb p q then (q, b) :: r else (q, c) :: tset r p b
    end.
  Definition apply_wr (s : hstate) (w : wr) : hstate :=
    match w with
    | WCache p b => {| hs_cache := tset (hs_cache s) p b; hs_tiles := hs_tiles s; hs_store := hs_store s |}
    | WTile p b => {| hs_cache := hs_cache s; hs_tiles := tset (hs_tiles s) p b; hs_store := hs_store s |}
    | WStore p b => {| hs_cache := hs_cache s; hs_tiles := hs_tiles s; hs_store := tset (hs_store s) p b |}
    end.

  Definition bit_at (pre : list bool) (k : key) : bool := nth (length pre) k false.
  Definition split (pre : list bool) (leaves : list (key * V)) : list (key * V) * list (key * V) :=
    (filter (fun kv => negb (bit_at pre (fst kv))) leaves, filter (fun kv => bit_at pre (fst kv)) leaves).

  (* leavesList.InsertSorted of the stored shortcut leaf into the leaves being inserted: a leaf with the same key
     is already there -> the stored one is dropped *)
  Definition merge_stored (leaves : list (key * V)) (k : key) (v : V) : list (key * V) :=
    if existsb (fun kv => key_eqb (fst kv) k) leaves then leaves else (k, v) :: leaves.

  (* AddLeafAt: the hash in the slot itself, key and value in its two children *)
  Definition shortcut_at (t : bt) (d : D) (k : key) (v : V) : bt :=
    match t with
    | BNode _ l r => BNode (Some (SLeaf d)) (set_root l (Some (SKey k))) (set_root r (Some (SVal v)))
    | BNil => BNil
    end.

  Section Walk.
    Variable st : hstate.                  (* the state before the call: what batches.Load sees *)

    (* defaultBatchLoader.Load *)
    Definition load (p : hpos) : bt :=
      if Nat.ltb limit (snd p) then tget (hs_cache st) p else tget (hs_store st) p.

    Definition res := (D * bt * list wr)%type.

    (* what traverseThroughCache / traverseAfterCache do for a child slot (iBatch > 0) at height h';
       rec = the walk one level down (node ... h') *)
    Definition childf (rec : bool -> list bool -> list (key * V) -> bt -> bool -> option res)
               (cached : bool) (h' : nat) (pre' : list bool) (lv : list (key * V)) (ct : bt) : option res :=
      match lv with
      | [] => option_map (fun d => (d, ct, [])) (discard ct h')
      | (k0, v0) :: rest =>
          if cached then
            if Nat.eqb (h' mod 4) 0 then
              match rec (Nat.ltb limit h') pre' lv (load (pre', h')) true with
              | Some (d, _, w) => Some (d, set_root ct (Some (SHash d)), w)
              | None => None
              end
            else rec true pre' lv ct false
          else
            match h' with
            | O =>
                match rest with
                | [] => let d := H (YLeaf v0 (pre', O)) in
                        Some (d, set_root ct (Some (SHash d)), [WStore (pre', O) (shortcut_at empty_batch d k0 v0)])
                | _ => None      (* "We cannot have more than one leaf at the end of the main tree" *)
                end
            | _ =>
                if Nat.eqb (h' mod 4) 0 then
                  match rest with
                  | [] =>
                      match rslot ct with
                      | Some _ =>
                          match rec false pre' lv (load (pre', h')) true with
                          | Some (d, _, w) => Some (d, set_root ct (Some (SHash d)), w)
                          | None => None
                          end
                      | None =>
                          let d := H (YLeaf v0 (pre', h')) in
                          Some (d, set_root ct (Some (SHash d)), [WStore (pre', h') (shortcut_at empty_batch d k0 v0)])
                      end
                  | _ =>
                      match rec false pre' lv (load (pre', h')) true with
                      | Some (d, _, w) => Some (d, set_root ct (Some (SHash d)), w)
                      | None => None
                      end
                  end
                else rec false pre' lv ct false
            end
      end.

    (* the inner-node step: both children, the hash, the slot, and the batch write when this is a batch root *)
    Definition innerf (rec : bool -> list bool -> list (key * V) -> bt -> bool -> option res)
               (cached : bool) (h' : nat) (pre : list bool) (isroot : bool) (lv : list (key * V)) (l0 r0 : bt) : option res :=
      let '(ll, lr) := split pre lv in
      match childf rec cached h' (pre ++ [false]) ll l0 with
      | None => None
      | Some (dl, l1, w1) =>
          match childf rec cached h' (pre ++ [true]) lr r0 with
          | None => None
          | Some (dr, r1, w2) =>
              let h := S h' in
              let d := H (YNode dr dl (pre, h)) in
              let t3 := BNode (Some (SHash d)) l1 r1 in
              let wroot :=
                if isroot then
                  if cached then WCache (pre, h) t3 :: (if Nat.eqb h (limit + 4) then [WTile (pre, h) t3] else [])
                  else [WStore (pre, h) t3]
                else [] in
              (* the interpreter runs the right subtree's operations before the left one's *)
              Some (d, t3, w2 ++ w1 ++ wroot)
          end
      end.

    (* cached = the batch being walked is one of the cache levels (its root is above the limit);
       isroot = the subtree t is a whole batch (iBatch = 0) *)
    Fixpoint node (h : nat) (cached : bool) (pre : list bool) (leaves : list (key * V)) (t : bt) (isroot : bool)
      {struct h} : option res :=
      match h, t with
      | S h', BNode s l r =>
          if cached then innerf (node h') cached h' pre isroot leaves l r
          else
            (* push-down of a stored shortcut leaf first (insert_bulk.go; insert.go does it for a single leaf only,
               which is the only case it can meet) *)
            let '(lv, s0, l0, r0) :=
              match s, rslot l, rslot r with
              | Some (SLeaf _), Some (SKey k), Some (SVal v) =>
                  (merge_stored leaves k v, None, set_root l None, set_root r None)
              | _, _, _ => (leaves, s, l, r)
              end in
            match lv, s0 with
            | [(k, v)], None =>
                let d := H (YLeaf v (pre, h)) in
                let t1 := shortcut_at (BNode s0 l0 r0) d k v in
                Some (d, t1, if Nat.eqb (h mod 4) 0 then [WStore (pre, h) t1] else [])
            | _, _ => innerf (node h') cached h' pre isroot lv l0 r0
            end
      | _, _ => None
      end.

    (* pruneToFind + interpretation (HyperTree.QueryMembership): the value stored for the key, if the walk ends in a
       shortcut leaf of exactly that key, and the collected sibling hashes from the root downwards *)
    Fixpoint bfind (h : nat) (pre : list bool) (k : key) (t : bt) {struct h} : option V * list (hpos * D) :=
      let child (h' : nat) (pre' : list bool) (ct : bt) : option V * list (hpos * D) :=
        match rslot ct with
        | None => (None, [])                                     (* noOp: nothing below *)
        | Some _ => if Nat.eqb (h' mod 4) 0 then bfind h' pre' k (load (pre', h')) else bfind h' pre' k ct
        end in
      match t with
      | BNode (Some (SLeaf _)) l r =>
          match rslot l, rslot r with
          | Some (SKey k'), Some (SVal v) => ((if key_eqb k' k then Some v else None), [])
          | _, _ => (None, [])
          end
      | BNode (Some _) l r =>
          match h with
          | O => (None, [])
          | S h' =>
              if bit_at pre k then
                match discard l h' with
                | Some dl => let '(v, p) := child h' (pre ++ [true]) r in (v, ((pre ++ [false], h'), dl) :: p)
                | None => (None, [])
                end
              else
                match discard r h' with
                | Some dr => let '(v, p) := child h' (pre ++ [false]) l in (v, ((pre ++ [true], h'), dr) :: p)
                | None => (None, [])
                end
          end
      | _ => (None, [])
      end.
    Definition hb_find (k : key) : option V * list (hpos * D) := bfind nbits [] k (load ([], nbits)).

    (* HyperTree.Add / AddBulk: the root hash and the writes (cache.Put is immediate, the store mutations are
       returned to the caller, who persists them) *)
    Definition walk_insert (leaves : list (key * V)) : option (D * list wr) :=
      match leaves with
      | [] => None                                          (* indexes[0] on an empty bulk *)
      | _ => match node nbits (Nat.ltb limit nbits) [] leaves (load ([], nbits)) true with
             | Some (d, _, w) => Some (d, w)
             | None => None
             end
      end.

    (* pruneToRebuild + interpretation, from the tiles at the recovery height upwards; idx = the key prefixes of
       the persisted tiles (each of length nbits - (limit+4)) *)
    Definition rchildf (rec : list bool -> list (list bool) -> bt -> bool -> option res)
               (h' : nat) (pre' : list bool) (ix : list (list bool)) (ct : bt) : option res :=
      match ix with
      | [] => option_map (fun d => (d, ct, [])) (discard ct h')
      | _ =>
          if Nat.eqb (h' mod 4) 0 then
            if Nat.eqb h' (limit + 4) then
              (* traverse: the tile itself is in the cache by now; its root hash is what the parent gets *)
              match discard (load (pre', h')) h' with
              | Some d => Some (d, set_root ct (Some (SHash d)), [])
              | None => None
              end
            else
              match rec pre' ix (load (pre', h')) true with
              | Some (d, _, w) => Some (d, set_root ct (Some (SHash d)), w)
              | None => None
              end
          else rec pre' ix ct false
      end.

    Fixpoint rebuild (h : nat) (pre : list bool) (idx : list (list bool)) (t : bt) (isroot : bool) {struct h}
      : option res :=
      match h, t with
      | S h', BNode _ l r =>
          let il := filter (fun k => negb (nth (length pre) k false)) idx in
          let ir := filter (fun k => nth (length pre) k false) idx in
          match rchildf (rebuild h') h' (pre ++ [false]) il l with
          | None => None
          | Some (dl, l1, w1) =>
              match rchildf (rebuild h') h' (pre ++ [true]) ir r with
              | None => None
              | Some (dr, r1, w2) =>
                  let d := H (YNode dr dl (pre, h)) in
                  let t3 := BNode (Some (SHash d)) l1 r1 in
                  Some (d, t3, w2 ++ w1 ++ (if isroot then [WCache (pre, h) t3] else []))
              end
          end
      | _, _ => None
      end.
  End Walk.

  (* one call on the tree: cache writes and store mutations applied (the caller persists the mutations) *)
  Definition hb_insert (s : hstate) (leaves : list (key * V)) : option (D * hstate) :=
    match walk_insert s (bulk_dedup V [] leaves) with
    | Some (d, w) => Some (d, fold_left apply_wr w s)
    | None => None
    end.

  (* a new tree object on the same store: empty cache, tiles loaded, upper levels recomputed *)
  Definition hb_reopen (s : hstate) : option hstate :=
    let s0 := {| hs_cache := hs_tiles s; hs_tiles := hs_tiles s; hs_store := hs_store s |} in
    match hs_tiles s with
    | [] => Some {| hs_cache := []; hs_tiles := []; hs_store := hs_store s |}
    | _ =>
        if Nat.eqb nbits (limit + 4) then Some s0
        else
          match rebuild s0 nbits [] (map (fun pb => fst (fst pb)) (hs_tiles s)) (load s0 ([], nbits)) true with
          | Some (_, _, w) => Some (fold_left apply_wr w s0)
          | None => None
          end
    end.
End HyperBatch.
