(* The hyper tree as the Go code stores it (balloon/hyper: batch.go, loader.go, insert_bulk.go / insert.go,
   operation.go, rebuild.go, tree.go): 31-slot batches of height 4, the batches above the cache-height
   limit in an in-memory cache (with the ones at the recovery height also written to HyperCacheTable), the
   others in HyperTable; shortcut leaves (hash, key, value in three slots); push-down of a shortcut leaf when
   a second key arrives below it.

   pruneToInsert(Bulk) builds an operation stack while walking the tree and the stack is interpreted afterwards;
   every batch is loaded once, during the walk, from the state as it was before the call, and every write goes
   to a batch that was loaded in this call, so walking and interpreting can be fused: `node` below returns the
   hash, the updated batch and the writes, in the order the interpreter produces them for one subtree.
   None = the Go code would panic or read a slot that holds a key/value as if it were a hash.
   No proofs here. *)
From QV Require Import Base.Util Base.HashSig Hyper.HyperModel.

Local Open Scope nat_scope.

Section HyperBatch.
  Variables D E V : Type.
  Variable H : hin D E V -> D.
  Variable limit nbits : nat.
  Variable ds : list D.                    (* dlist nbits: default hashes, highest first *)

  Inductive slot := SHash (d : D) | SLeaf (d : D) | SKey (k : key) | SVal (v : V).
  Definition batch := list (option slot).              (* 31 slots: slot i has children 2i+1, 2i+2 *)
  Definition empty_batch : batch := repeat None 31.

  Fixpoint upd {A} (l : list A) (i : nat) (x : A) : list A :=
    match l, i with
    | [], _ => []
    | _ :: t, O => x :: t
    | a :: t, S j => a :: upd t j x
    end.
  Definition bget (b : batch) (i : nat) : option slot := nth i b None.
  Definition bset (b : batch) (i : nat) (s : option slot) : batch := upd b i s.
  Definition has (b : batch) (i : nat) : bool := match bget b i with Some _ => true | None => false end.
  Definition has_leaf (b : batch) (i : nat) : bool := match bget b i with Some (SLeaf _) => true | _ => false end.

  (* default hash of an empty subtree of height h *)
  Definition dflt (h : nat) : D := nth (nbits - h) ds (H YDef0).

  (* getProvidedHash / getDefaultHash on a branch no leaf goes into *)
  Definition discard (b : batch) (i h : nat) : option D :=
    match bget b i with
    | None => Some (dflt h)
    | Some (SHash d) | Some (SLeaf d) => Some d
    | Some _ => None
    end.

  Definition boundary (i h : nat) : bool := Nat.ltb 0 i && Nat.eqb (h mod 4) 0.

  (* the three tables *)
  Inductive wr := WCache (p : hpos) (b : batch) | WTile (p : hpos) (b : batch) | WStore (p : hpos) (b : batch).
  Record hstate := { hs_cache : list (hpos * batch); hs_tiles : list (hpos * batch); hs_store : list (hpos * batch) }.
  Definition hinit : hstate := {| hs_cache := []; hs_tiles := []; hs_store := [] |}.

  Definition tget (t : list (hpos * batch)) (p : hpos) : batch :=
    match assoc (hpos_eqb) p t with Some b => b | None => empty_batch end.
  Fixpoint tset (t : list (hpos * batch)) (p : hpos) (b : batch) : list (hpos * batch) :=
    match t with
    | [] => [(p, b)]
    | (q, c) :: r => if hpos_eqb p q then (q, b) :: r else (q, c) :: tset r p b
    end.
  Definition apply_wr (s : hstate) (w : wr) : hstate :=
    match w with
    | WCache p b => {| hs_cache := tset (hs_cache s) p b; hs_tiles := hs_tiles s; hs_store := hs_store s |}
    | WTile p b => {| hs_cache := hs_cache s; hs_tiles := tset (hs_tiles s) p b; hs_store := hs_store s |}
    | WStore p b => {| hs_cache := hs_cache s; hs_tiles := hs_tiles s; hs_store := tset (hs_store s) p b |}
    end.

  Section Walk.
    Variable st : hstate.                  (* the state before the call: what batches.Load sees *)

    (* defaultBatchLoader.Load *)
    Definition load (p : hpos) : batch :=
      if Nat.ltb limit (snd p) then tget (hs_cache st) p else tget (hs_store st) p.

    Definition bit_at (pre : list bool) (k : key) : bool := nth (length pre) k false.
    Definition split (pre : list bool) (leaves : list (key * V)) : list (key * V) * list (key * V) :=
      (filter (fun kv => negb (bit_at pre (fst kv))) leaves, filter (fun kv => bit_at pre (fst kv)) leaves).

    (* leavesList.InsertSorted of the stored shortcut leaf into the leaves being inserted: a leaf with the same key
       is already there -> the stored one is dropped *)
    Definition merge_stored (leaves : list (key * V)) (k : key) (v : V) : list (key * V) :=
      if existsb (fun kv => key_eqb (fst kv) k) leaves then leaves else (k, v) :: leaves.

    Definition shortcut_batch (b : batch) (i : nat) (d : D) (k : key) (v : V) : batch :=
      bset (bset (bset b i (Some (SLeaf d))) (2 * i + 1) (Some (SKey k))) (2 * i + 2) (Some (SVal v)).

    (* cached = the batch being walked is one of the cache levels (its root is above the limit) *)
    Fixpoint node (cached : bool) (h : nat) (pre : list bool) (leaves : list (key * V)) (b : batch) (i : nat)
      {struct h} : option (D * batch * list wr) :=
      (* the part of traverseThroughCache / traverseAfterCache that runs for a non-empty leaf list at a slot that
         is not the root of another batch (or is slot 0 of a freshly loaded one) *)
      let child (h' : nat) (pre' : list bool) (lv : list (key * V)) (pb : batch) (j : nat) : option (D * batch * list wr) :=
        match lv with
        | [] => option_map (fun d => (d, pb, [])) (discard pb j h')
        | (k0, v0) :: rest =>
            if cached then
              if boundary j h' then
                match node (Nat.ltb limit h') h' pre' lv (load (pre', h')) 0 with
                | Some (d, _, w) => Some (d, bset pb j (Some (SHash d)), w)
                | None => None
                end
              else node true h' pre' lv pb j
            else
              match h' with
              | O =>
                  match rest with
                  | [] => let d := H (YLeaf v0 (pre', O)) in
                          Some (d, bset pb j (Some (SHash d)), [WStore (pre', O) (shortcut_batch empty_batch 0 d k0 v0)])
                  | _ => None      (* "We cannot have more than one leaf at the end of the main tree" *)
                  end
              | _ =>
                  if boundary j h' then
                    match rest with
                    | [] =>
                        if has pb j then
                          match node false h' pre' lv (load (pre', h')) 0 with
                          | Some (d, _, w) => Some (d, bset pb j (Some (SHash d)), w)
                          | None => None
                          end
                        else
                          let d := H (YLeaf v0 (pre', h')) in
                          Some (d, bset pb j (Some (SHash d)), [WStore (pre', h') (shortcut_batch empty_batch 0 d k0 v0)])
                    | _ =>
                        match node false h' pre' lv (load (pre', h')) 0 with
                        | Some (d, _, w) => Some (d, bset pb j (Some (SHash d)), w)
                        | None => None
                        end
                    end
                  else node false h' pre' lv pb j
              end
        end in
      match h with
      | O => None
      | S h' =>
          let inner (lv : list (key * V)) (b0 : batch) : option (D * batch * list wr) :=
            let '(ll, lr) := split pre lv in
            match child h' (pre ++ [false]) ll b0 (2 * i + 1) with
            | None => None
            | Some (dl, b1, w1) =>
                match child h' (pre ++ [true]) lr b1 (2 * i + 2) with
                | None => None
                | Some (dr, b2, w2) =>
                    let d := H (YNode dr dl (pre, h)) in
                    let b3 := bset b2 i (Some (SHash d)) in
                    let wroot :=
                      if Nat.eqb i 0 then
                        if cached then WCache (pre, h) b3 :: (if Nat.eqb h (limit + 4) then [WTile (pre, h) b3] else [])
                        else [WStore (pre, h) b3]
                      else [] in
                    (* the interpreter runs the right subtree's operations before the left one's *)
                    Some (d, b3, w2 ++ w1 ++ wroot)
                end
            end in
          if cached then inner leaves b
          else
            (* push-down of a stored shortcut leaf first (insert_bulk.go; insert.go does it for a single leaf only,
               which is the only case it can meet) *)
            let '(lv, b0) :=
              if has_leaf b i then
                match bget b (2 * i + 1), bget b (2 * i + 2) with
                | Some (SKey k), Some (SVal v) =>
                    (merge_stored leaves k v, bset (bset (bset b i None) (2 * i + 1) None) (2 * i + 2) None)
                | _, _ => (leaves, b)
                end
              else (leaves, b) in
            match lv with
            | [(k, v)] =>
                if has b0 i then inner lv b0
                else
                  let d := H (YLeaf v (pre, h)) in
                  let b1 := shortcut_batch b0 i d k v in
                  Some (d, b1, if Nat.eqb (h mod 4) 0 then [WStore (pre, h) b1] else [])
            | _ => inner lv b0
            end
      end.

    (* HyperTree.Add / AddBulk: the root hash and the writes (cache.Put is immediate, the store mutations are
       returned to the caller, who persists them) *)
    Definition walk_insert (leaves : list (key * V)) : option (D * list wr) :=
      match leaves with
      | [] => None                                          (* indexes[0] on an empty bulk *)
      | _ => match node (Nat.ltb limit nbits) nbits [] leaves (load ([], nbits)) 0 with
             | Some (d, _, w) => Some (d, w)
             | None => None
             end
      end.

    (* pruneToRebuild + interpretation, from the tiles at the recovery height upwards; idx = the key prefixes of
       the persisted tiles (each of length nbits - (limit+4)) *)
    Fixpoint rebuild (h : nat) (pre : list bool) (idx : list (list bool)) (b : batch) (i : nat) {struct h}
      : option (D * batch * list wr) :=
      let child (h' : nat) (pre' : list bool) (ix : list (list bool)) (pb : batch) (j : nat) :=
        match ix with
        | [] => option_map (fun d => (d, pb, [])) (discard pb j h')
        | _ =>
            if boundary j h' then
              if Nat.eqb h' (limit + 4) then
                (* traverse: the tile itself is in the cache by now; its root hash is what the parent gets *)
                match discard (load (pre', h')) 0 h' with
                | Some d => Some (d, bset pb j (Some (SHash d)), [])
                | None => None
                end
              else
                match rebuild h' pre' ix (load (pre', h')) 0 with
                | Some (d, _, w) => Some (d, bset pb j (Some (SHash d)), w)
                | None => None
                end
            else rebuild h' pre' ix pb j
        end in
      match h with
      | O => None
      | S h' =>
          let il := filter (fun k => negb (nth (length pre) k false)) idx in
          let ir := filter (fun k => nth (length pre) k false) idx in
          match child h' (pre ++ [false]) il b (2 * i + 1) with
          | None => None
          | Some (dl, b1, w1) =>
              match child h' (pre ++ [true]) ir b1 (2 * i + 2) with
              | None => None
              | Some (dr, b2, w2) =>
                  let d := H (YNode dr dl (pre, h)) in
                  let b3 := bset b2 i (Some (SHash d)) in
                  Some (d, b3, w2 ++ w1 ++ (if Nat.eqb i 0 then [WCache (pre, h) b3] else []))
              end
          end
      end.
  End Walk.

  (* one call on the tree: cache writes and store mutations applied (the caller persists the mutations) *)
  Definition hb_insert (s : hstate) (leaves : list (key * V)) : option (D * hstate) :=
    match walk_insert s (bulk_dedup V [] leaves) with
    | Some (d, w) => Some (d, fold_left apply_wr w s)
    | None => None
    end.

  (* a new tree object on the same store: empty cache, tiles loaded, upper levels recomputed *)
  Definition hb_reopen (s : hstate) : option hstate :=
    let s0 := {| hs_cache := hs_tiles s; hs_tiles := hs_tiles s; hs_store := hs_store s |} in
    match hs_tiles s with
    | [] => Some {| hs_cache := []; hs_tiles := []; hs_store := hs_store s |}
    | _ =>
        if Nat.eqb nbits (limit + 4) then Some s0
        else
          match rebuild s0 nbits [] (map (fun pb => fst (fst pb)) (hs_tiles s)) (load s0 ([], nbits)) 0 with
          | Some (_, _, w) => Some (fold_left apply_wr w s0)
          | None => None
          end
    end.
End HyperBatch.
