(* The batch-level hyper tree (Hyper/HyperBatch.v, the mirror of balloon/hyper's insertion code) computes the
   published construction (Hyper/HyperModel.v): for every state in which the cache and the store represent the
   sparse tree of a key->value map, an insertion returns the root of the tree of the updated map and leaves the
   tables representing that tree. *)
From QV Require Import Base.Util Base.HashSig Hyper.HyperModel Hyper.HyperBatch.
From Coq Require Import Permutation.

Local Open Scope nat_scope.

Section HyperRefine.
  Variables D E V : Type.
  Variable H : hin D E V -> D.
  Variable limit nbits : nat.
  Notation ds := (dlist D E V H nbits).
  Notation dflt := (dflt D E V H nbits ds).
  Notation bt := (bt D V).
  Notation slot := (slot D V).

  (* ---------------------------------------------------------------- the specification on full keys *)
  Definition M0 (pre : list bool) (M : list (key * V)) := filter (fun kv => negb (bit_at pre (fst kv))) M.
  Definition M1 (pre : list bool) (M : list (key * V)) := filter (fun kv => bit_at pre (fst kv)) M.

  Fixpoint sh (h : nat) (pre : list bool) (M : list (key * V)) {struct h} : D :=
    match M with
    | [] => dflt h
    | (k, v) :: rest =>
        match h with
        | O => H (YLeaf v (pre, O))
        | S h' =>
            let nd := H (YNode (sh h' (pre ++ [true]) (M1 pre M)) (sh h' (pre ++ [false]) (M0 pre M)) (pre, h)) in
            match rest with
            | [] => if Nat.leb h limit then H (YLeaf v (pre, h)) else nd
            | _ => nd
            end
        end
    end.

  Lemma sh_nil h pre : sh h pre [] = dflt h.
  Proof. destruct h; reflexivity. Qed.

  Lemma sh_single h pre k v : h <= limit -> sh h pre [(k, v)] = H (YLeaf v (pre, h)).
  Proof.
    intros Hl. destruct h as [|h']; [reflexivity|]. cbn [sh].
    assert (Hb : Nat.leb (S h') limit = true) by (apply Nat.leb_le; exact Hl). rewrite Hb. reflexivity.
  Qed.

  Lemma sh_node h' pre M : (2 <= length M \/ (M <> [] /\ limit < S h')) ->
    sh (S h') pre M = H (YNode (sh h' (pre ++ [true]) (M1 pre M)) (sh h' (pre ++ [false]) (M0 pre M)) (pre, S h')).
  Proof.
    intros Hc. destruct M as [|[k v] rest]; [cbn in Hc; destruct Hc as [Hc|[Hc _]]; [lia|contradiction]|].
    cbn [sh]. destruct rest as [|x rest]; [|reflexivity].
    destruct Hc as [Hc|[_ Hc]]; [cbn in Hc; lia|].
    assert (Hb : Nat.leb (S h') limit = false) by (apply Nat.leb_gt; exact Hc). rewrite Hb. reflexivity.
  Qed.

  (* ---------------------------------------------------------------- inserting leaves into a map *)
  Definition inb (k : key) (L : list (key * V)) : bool := existsb (fun kv => key_eqb (fst kv) k) L.
  Definition mrg (M L : list (key * V)) : list (key * V) := filter (fun kv => negb (inb (fst kv) L)) M ++ L.

  Lemma key_eqb_refl k : key_eqb k k = true.
  Proof. induction k as [|b k IH]; [reflexivity|]. cbn. rewrite IH. destruct b; reflexivity. Qed.
  Lemma key_eqb_eq a : forall b, key_eqb a b = true <-> a = b.
  Proof.
    induction a as [|x a IH]; intros [|y b]; cbn; split; intros Hq; try reflexivity; try discriminate.
    - apply andb_true_iff in Hq. destruct Hq as [H1 H2]. apply IH in H2. destruct x, y; try discriminate; subst; reflexivity.
    - injection Hq as -> ->. rewrite (proj2 (IH b) eq_refl). destruct y; reflexivity.
  Qed.

  Lemma inb_filter k (L : list (key * V)) (f : key -> bool) :
    f k = true -> inb k (filter (fun kv => f (fst kv)) L) = inb k L.
  Proof.
    intros Hf. unfold inb. induction L as [|[k' v'] L IH]; [reflexivity|]. cbn [filter fst existsb].
    destruct (f k') eqn:Hk'; cbn [existsb fst]; rewrite IH; [reflexivity|].
    destruct (key_eqb k' k) eqn:He; [|reflexivity]. apply key_eqb_eq in He. subst. congruence.
  Qed.

  Lemma filter_mrg (f : key -> bool) M L :
    filter (fun kv => f (fst kv)) (mrg M L) = mrg (filter (fun kv => f (fst kv)) M) (filter (fun kv => f (fst kv)) L).
  Proof.
    unfold mrg. rewrite filter_app. f_equal.
    induction M as [|[k v] M IH]; [reflexivity|]. cbn [filter fst].
    destruct (f k) eqn:Hf.
    - cbn [filter fst]. rewrite (inb_filter k L f Hf).
      destruct (inb k L); cbn [negb filter fst]; rewrite ?Hf; rewrite IH; reflexivity.
    - destruct (negb (inb k L)); cbn [filter fst]; rewrite ?Hf; exact IH.
  Qed.

  Lemma M0_mrg pre M L : M0 pre (mrg M L) = mrg (M0 pre M) (M0 pre L).
  Proof. exact (filter_mrg (fun k => negb (bit_at pre k)) M L). Qed.
  Lemma M1_mrg pre M L : M1 pre (mrg M L) = mrg (M1 pre M) (M1 pre L).
  Proof. exact (filter_mrg (fun k => bit_at pre k) M L). Qed.

  Lemma mrg_nil_r M : mrg M [] = M.
  Proof. unfold mrg. cbn. rewrite app_nil_r. induction M as [|x M IH]; [reflexivity|]. cbn. rewrite IH. reflexivity. Qed.
  Lemma mrg_nil_l L : mrg [] L = L.
  Proof. reflexivity. Qed.

  (* ---------------------------------------------------------------- what the tables must hold *)
  Fixpoint complete (n : nat) (t : bt) : Prop :=
    match n, t with
    | O, BNil _ _ => True
    | S k, BNode _ _ _ l r => complete k l /\ complete k r
    | _, _ => False
    end.
  Fixpoint all_none (t : bt) : Prop :=
    match t with BNil _ _ => True | BNode _ _ s l r => s = None /\ all_none l /\ all_none r end.
  Definition below_none (t : bt) : Prop :=
    match t with BNil _ _ => True | BNode _ _ _ l r => all_none l /\ all_none r end.

  (* positions below a prefix *)
  Fixpoint is_prefix (a b : list bool) : bool :=
    match a, b with
    | [], _ => true
    | x :: a', y :: b' => Bool.eqb x y && is_prefix a' b'
    | _ :: _, [] => false
    end.
  Definition under (pre : list bool) (q : hpos) : Prop := is_prefix pre (fst q) = true.

  Lemma is_prefix_app a b : forall c, is_prefix (a ++ b) c = true -> is_prefix a c = true.
  Proof.
    induction a as [|x a IH]; intros c Hp; [reflexivity|]. destruct c as [|y c]; [discriminate|]. cbn in *.
    apply andb_true_iff in Hp. destruct Hp as [H1 H2]. rewrite H1, (IH c H2). reflexivity.
  Qed.
  Lemma is_prefix_refl a : is_prefix a a = true.
  Proof. induction a as [|x a IH]; [reflexivity|]. cbn. rewrite IH. destruct x; reflexivity. Qed.
  Lemma is_prefix_app_r a : forall c, is_prefix a (a ++ c) = true.
  Proof. induction a as [|x a IH]; intros c; [reflexivity|]. cbn. rewrite IH. destruct x; reflexivity. Qed.
  Lemma is_prefix_split a x y : forall c, x <> y -> is_prefix (a ++ [x]) c = true -> is_prefix (a ++ [y]) c = true -> False.
  Proof.
    induction a as [|z a IH]; intros c Hne H1 H2.
    - destruct c as [|w c]; [discriminate|]. cbn in *. rewrite andb_true_r in *. destruct x, y, w; try discriminate; congruence.
    - destruct c as [|w c]; [discriminate|]. cbn in *. apply andb_true_iff in H1. apply andb_true_iff in H2.
      exact (IH c Hne (proj2 H1) (proj2 H2)).
  Qed.
  Lemma is_prefix_longer a x : is_prefix (a ++ [x]) a = false.
  Proof. induction a as [|z a IH]; [reflexivity|]. cbn. rewrite IH. apply andb_false_r. Qed.


  Notation rslot := (rslot D V).
  Notation set_root := (set_root D V).

  (* sA, sC: the batches of HyperTable and of the cache, as functions of the position *)
  Fixpoint RepA (sA : hpos -> bt) (h : nat) (pre : list bool) (t : bt) (M : list (key * V)) {struct h} : Prop :=
    match M with
    | [] => all_none t /\ (forall q, under pre q -> all_none (sA q))
    | [(k, v)] =>
        (exists l r, t = BNode _ _ (Some (SLeaf _ _ (H (YLeaf v (pre, h))))) l r /\
                    rslot l = Some (SKey _ _ k) /\ rslot r = Some (SVal _ _ v) /\ below_none l /\ below_none r) /\
        (forall b q, under (pre ++ [b]) q -> all_none (sA q))
    | _ =>
        match h with
        | O => False
        | S h' =>
            let slotA (pre' : list bool) (ct : bt) (M' : list (key * V)) : Prop :=
              if Nat.eqb (h' mod 4) 0 then
                match M' with
                | [] => all_none ct /\ (forall q, under pre' q -> all_none (sA q))
                | _ => rslot ct = Some (SHash _ _ (sh h' pre' M')) /\ RepA sA h' pre' (sA (pre', h')) M'
                end
              else RepA sA h' pre' ct M' in
            exists l r, t = BNode _ _ (Some (SHash _ _ (sh h pre M))) l r /\
                        slotA (pre ++ [false]) l (M0 pre M) /\ slotA (pre ++ [true]) r (M1 pre M)
        end
    end.

  Definition SlotA (sA : hpos -> bt) (h' : nat) (pre' : list bool) (ct : bt) (M' : list (key * V)) : Prop :=
    if Nat.eqb (h' mod 4) 0 then
      match M' with
      | [] => all_none ct /\ (forall q, under pre' q -> all_none (sA q))
      | _ => rslot ct = Some (SHash _ _ (sh h' pre' M')) /\ RepA sA h' pre' (sA (pre', h')) M'
      end
    else RepA sA h' pre' ct M'.

  Lemma RepA_node sA h' pre t M : 2 <= length M ->
    RepA sA (S h') pre t M <->
    exists l r, t = BNode _ _ (Some (SHash _ _ (sh (S h') pre M))) l r /\
                SlotA sA h' (pre ++ [false]) l (M0 pre M) /\ SlotA sA h' (pre ++ [true]) r (M1 pre M).
  Proof.
    intros Hl. destruct M as [|[k v] [|x rest]]; cbn in Hl; try lia. cbn [RepA]. unfold SlotA. reflexivity.
  Qed.

  Lemma RepA_nil sA h pre t : RepA sA h pre t [] <-> all_none t /\ (forall q, under pre q -> all_none (sA q)).
  Proof. destruct h; reflexivity. Qed.

  Lemma RepA_single sA h pre t k v : RepA sA h pre t [(k, v)] <->
    (exists l r, t = BNode _ _ (Some (SLeaf _ _ (H (YLeaf v (pre, h))))) l r /\
                rslot l = Some (SKey _ _ k) /\ rslot r = Some (SVal _ _ v) /\ below_none l /\ below_none r) /\
    (forall b q, under (pre ++ [b]) q -> all_none (sA q)).
  Proof. destruct h; reflexivity. Qed.

  (* the representation below a node only looks at batches below its prefix *)
  Lemma RepA_ext h : forall sA sA' pre t M,
    (forall q, under pre q -> sA q = sA' q) -> RepA sA h pre t M -> RepA sA' h pre t M.
  Proof.
    induction h as [|h' IH]; intros sA sA' pre t M Hag HR.
    - destruct M as [|[k v] [|x rest]]; cbn [RepA] in *.
      + destruct HR as [H1 H2]. split; [exact H1|]. intros q Hq. rewrite <- (Hag q Hq). exact (H2 q Hq).
      + destruct HR as [H1 H2]. split; [exact H1|]. intros b q Hq.
        rewrite <- (Hag q) by (unfold under in *; apply (is_prefix_app pre [b]); exact Hq). exact (H2 b q Hq).
      + exact HR.
    - destruct M as [|[k v] [|x rest]].
      + apply RepA_nil in HR. apply RepA_nil. destruct HR as [H1 H2]. split; [exact H1|]. intros q Hq. rewrite <- (Hag q Hq). exact (H2 q Hq).
      + apply RepA_single in HR. apply RepA_single. destruct HR as [H1 H2]. split; [exact H1|]. intros b q Hq.
        rewrite <- (Hag q) by (unfold under in *; apply (is_prefix_app pre [b]); exact Hq). exact (H2 b q Hq).
      + apply RepA_node in HR; [|cbn; lia]. apply RepA_node; [cbn; lia|].
        destruct HR as (l & r & -> & Hl & Hr). exists l, r. split; [reflexivity|].
        assert (Hsl : forall b ct M', SlotA sA h' (pre ++ [b]) ct M' -> SlotA sA' h' (pre ++ [b]) ct M').
        { intros b ct M' Hs. unfold SlotA in *.
          assert (Hag' : forall q, under (pre ++ [b]) q -> sA q = sA' q).
          { intros q Hq. apply Hag. unfold under in *. apply (is_prefix_app pre [b]). exact Hq. }
          destruct (Nat.eqb (h' mod 4) 0).
          - destruct M' as [|y M''].
            + destruct Hs as [H1 H2]. split; [exact H1|]. intros q Hq. rewrite <- (Hag' q Hq). exact (H2 q Hq).
            + destruct Hs as [H1 H2]. split; [exact H1|].
              rewrite <- (Hag' (pre ++ [b], h')) by (unfold under; cbn; apply is_prefix_refl).
              apply (IH sA sA'); [exact Hag'|exact H2].
          - apply (IH sA sA'); [exact Hag'|exact Hs]. }
        split; apply Hsl; assumption.
  Qed.

  Lemma SlotA_ext sA sA' h' pre' ct M' :
    (forall q, under pre' q -> sA q = sA' q) -> SlotA sA h' pre' ct M' -> SlotA sA' h' pre' ct M'.
  Proof.
    intros Hag Hs. unfold SlotA in *. destruct (Nat.eqb (h' mod 4) 0).
    - destruct M' as [|y M''].
      + destruct Hs as [H1 H2]. split; [exact H1|]. intros q Hq. rewrite <- (Hag q Hq). exact (H2 q Hq).
      + destruct Hs as [H1 H2]. split; [exact H1|].
        rewrite <- (Hag (pre', h')) by (unfold under; cbn; apply is_prefix_refl).
        apply (RepA_ext h' sA sA'); [exact Hag|exact H2].
    - apply (RepA_ext h' sA sA'); [exact Hag|exact Hs].
  Qed.

  (* ---------------------------------------------------------------- small facts *)
  Definition keys_ok (pre : list bool) (L : list (key * V)) : Prop :=
    Forall (fun kv => length (fst kv) = nbits /\ is_prefix pre (fst kv) = true) L.

  Lemma is_prefix_snoc pre : forall k, is_prefix pre k = true -> length pre < length k ->
    is_prefix (pre ++ [nth (length pre) k false]) k = true.
  Proof.
    induction pre as [|x pre IH]; intros k Hp Hl.
    - destruct k as [|y k]; [cbn in Hl; lia|]. cbn. destruct y; reflexivity.
    - destruct k as [|y k]; [discriminate|]. cbn in *. apply andb_true_iff in Hp. destruct Hp as [H1 H2].
      rewrite H1. cbn. apply IH; [exact H2|lia].
  Qed.

  Lemma keys_ok_filter pre L f : keys_ok pre L -> keys_ok pre (filter f L).
  Proof. unfold keys_ok. rewrite !Forall_forall. intros Hk x Hx. apply filter_In in Hx. apply Hk. exact (proj1 Hx). Qed.

  Lemma keys_ok_M0 pre L : length pre < nbits -> keys_ok pre L -> keys_ok (pre ++ [false]) (M0 pre L).
  Proof.
    unfold keys_ok, M0. rewrite !Forall_forall. intros Hl Hk x Hx. apply filter_In in Hx. destruct Hx as [Hx Hb].
    destruct (Hk x Hx) as [H1 H2]. split; [exact H1|]. apply negb_true_iff in Hb. change (nth (length pre) (fst x) false = false) in Hb.
    pose proof (is_prefix_snoc pre (fst x) H2 ltac:(lia)) as Hs. rewrite Hb in Hs. exact Hs.
  Qed.
  Lemma keys_ok_M1 pre L : length pre < nbits -> keys_ok pre L -> keys_ok (pre ++ [true]) (M1 pre L).
  Proof.
    unfold keys_ok, M1. rewrite !Forall_forall. intros Hl Hk x Hx. apply filter_In in Hx. destruct Hx as [Hx Hb].
    destruct (Hk x Hx) as [H1 H2]. split; [exact H1|]. change (nth (length pre) (fst x) false = true) in Hb.
    pose proof (is_prefix_snoc pre (fst x) H2 ltac:(lia)) as Hs. rewrite Hb in Hs. exact Hs.
  Qed.

  Lemma nodup_filter_fst (L : list (key * V)) f : NoDup (map fst L) -> NoDup (map fst (filter f L)).
  Proof.
    induction L as [|x L IH]; intros Hn; [constructor|]. cbn in *. inversion Hn as [|? ? Hx Hn']; subst.
    destruct (f x); [|exact (IH Hn')]. cbn. constructor; [|exact (IH Hn')].
    intros Hin. apply Hx. apply in_map_iff in Hin. destruct Hin as [y [Hy Hin]]. apply filter_In in Hin.
    apply in_map_iff. exists y. split; [exact Hy|exact (proj1 Hin)].
  Qed.

  Lemma is_prefix_full a : forall k, is_prefix a k = true -> length k = length a -> k = a.
  Proof.
    induction a as [|x a IH]; intros k Hp Hl; [destruct k; [reflexivity|discriminate]|].
    destruct k as [|y k]; [discriminate|]. cbn in *. apply andb_true_iff in Hp. destruct Hp as [H1 H2].
    apply eqb_prop in H1. subst. f_equal. apply IH; [exact H2|lia].
  Qed.

  Lemma keys_full_le1 pre (L : list (key * V)) : length pre = nbits -> keys_ok pre L -> NoDup (map fst L) -> length L <= 1.
  Proof.
    intros Hl Hk Hn. destruct L as [|[k1 v1] [|[k2 v2] L]]; cbn; try lia. exfalso.
    inversion Hk as [|? ? [A1 A2] Hk']; subst. inversion Hk' as [|? ? [B1 B2] _]; subst. cbn in *.
    assert (k1 = pre) by (apply is_prefix_full; [exact A2|lia]). assert (k2 = pre) by (apply is_prefix_full; [exact B2|lia]).
    subst. inversion Hn as [|? ? Hx _]; subst. apply Hx. left. reflexivity.
  Qed.

  Lemma inb_in k (L : list (key * V)) : inb k L = true <-> In k (map fst L).
  Proof.
    unfold inb. rewrite existsb_exists. split.
    - intros [x [Hx He]]. apply key_eqb_eq in He. subst. apply in_map. exact Hx.
    - intros Hin. apply in_map_iff in Hin. destruct Hin as [x [<- Hx]]. exists x. split; [exact Hx|apply key_eqb_refl].
  Qed.

  Lemma keys_ok_mrg pre M L : keys_ok pre M -> keys_ok pre L -> keys_ok pre (mrg M L).
  Proof. intros HM HL. unfold mrg, keys_ok. apply Forall_app. split; [apply keys_ok_filter; exact HM|exact HL]. Qed.

  Lemma nodup_mrg M L : NoDup (map fst M) -> NoDup (map fst L) -> NoDup (map fst (mrg M L)).
  Proof.
    intros HM HL. unfold mrg. rewrite map_app.
    assert (Hd : forall x, In x (map fst (filter (fun kv => negb (inb (fst kv) L)) M)) -> In x (map fst L) -> False).
    { intros x Q1 Q2. apply in_map_iff in Q1. destruct Q1 as [y [<- Hy]]. apply filter_In in Hy. destruct Hy as [_ Hy].
      apply negb_true_iff in Hy. apply inb_in in Q2. congruence. }
    revert Hd. generalize (nodup_filter_fst M (fun kv => negb (inb (fst kv) L)) HM).
    generalize (map fst (filter (fun kv => negb (inb (fst kv) L)) M)) as A. intros A HA Hd.
    induction A as [|a A IH]; [exact HL|]. cbn. inversion HA; subst. constructor.
    - intros Hin. apply in_app_or in Hin. destruct Hin as [Hin|Hin]; [contradiction|]. apply (Hd a); [left; reflexivity|exact Hin].
    - apply IH; [assumption|]. intros x Q1 Q2. apply (Hd x); [right; exact Q1|exact Q2].
  Qed.

  Lemma filter_len_le {A} (f : A -> bool) (l : list A) : length (filter f l) <= length l.
  Proof. induction l as [|x l IH]; cbn; [lia|]. destruct (f x); cbn; lia. Qed.

  Lemma length_mrg_ge M L : NoDup (map fst M) -> NoDup (map fst L) -> length M <= length (mrg M L) /\ length L <= length (mrg M L).
  Proof.
    intros HM HL. unfold mrg. rewrite app_length. split; [|lia].
    (* |M| <= |M \ L| + |L| *)
    revert L HL. induction M as [|[k v] M IH]; intros L HL; [cbn; lia|]. cbn [filter fst length].
    inversion HM as [|? ? Hk HM']; subst.
    destruct (inb k L) eqn:Hi; cbn [negb length].
    - (* k in L: remove it from L *)
      apply inb_in in Hi.
      set (L' := filter (fun kv => negb (key_eqb (fst kv) k)) L).
      assert (HL' : NoDup (map fst L')) by (apply nodup_filter_fst; exact HL).
      assert (Hlen : S (length L') <= length L).
      { subst L'. clear - Hi HL. induction L as [|[k' v'] L IHL]; [destruct Hi|]. cbn [filter fst length map] in *.
        inversion HL as [|? ? Hx HL']; subst. destruct (key_eqb k' k) eqn:He; cbn [negb length].
        - assert (Hle : length (filter (fun kv => negb (key_eqb (fst kv) k)) L) <= length L) by apply filter_len_le. lia.
        - destruct Hi as [Hi|Hi]; [subst; rewrite key_eqb_refl in He; discriminate|]. specialize (IHL HL' Hi). lia. }
      assert (Hf : filter (fun kv => negb (inb (fst kv) L)) M = filter (fun kv => negb (inb (fst kv) L')) M).
      { apply filter_ext_in. intros [k' v'] Hin. cbn [fst]. f_equal.
        destruct (inb k' L) eqn:A.
        - symmetry. apply inb_in. apply inb_in in A. apply in_map_iff in A. destruct A as [y [Hy Hin']].
          apply in_map_iff. exists y. split; [exact Hy|]. apply filter_In. split; [exact Hin'|].
          apply negb_true_iff. destruct (key_eqb (fst y) k) eqn:B; [|reflexivity]. apply key_eqb_eq in B.
          exfalso. apply Hk. rewrite <- B, Hy. apply in_map_iff. exists (k', v'). split; [reflexivity|exact Hin].
        - symmetry. destruct (inb k' L') eqn:B; [|reflexivity]. apply inb_in in B. apply in_map_iff in B.
          destruct B as [y [Hy Hin']]. apply filter_In in Hin'. assert (inb k' L = true) by (apply inb_in; rewrite <- Hy; apply in_map; exact (proj1 Hin')). congruence. }
      rewrite Hf. specialize (IH HM' L' HL'). lia.
    - specialize (IH HM' L HL). lia.
  Qed.

  Lemma complete_set_root n t x : complete n t -> complete n (set_root t x).
  Proof. destruct n, t; cbn; auto. Qed.
  Lemma complete_bempty n : complete n (bempty D V n).
  Proof. induction n; cbn; auto. Qed.
  Lemma all_none_bempty n : all_none (bempty D V n).
  Proof. induction n; cbn; auto. Qed.
  Lemma all_none_rslot t : all_none t -> rslot t = None.
  Proof. destruct t; cbn; [reflexivity|]. intros [-> _]. reflexivity. Qed.
  Lemma all_none_below t : all_none t -> below_none t.
  Proof. destruct t; cbn; tauto. Qed.
  Lemma below_none_set_root t x : below_none t -> below_none (set_root t x).
  Proof. destruct t; cbn; tauto. Qed.
  Lemma below_none_reset t : below_none t -> all_none (set_root t None).
  Proof. destruct t; cbn; tauto. Qed.
  Lemma rslot_set_root t x n : complete (S n) t -> rslot (set_root t x) = x.
  Proof. destruct t; cbn; [tauto|reflexivity]. Qed.
End HyperRefine.
