(* The batch-level hyper tree (Hyper/HyperBatch.v, the mirror of balloon/hyper's insertion code) computes the
   published construction (Hyper/HyperModel.v): for every state in which the cache and the store represent the
   sparse tree of a key->value map, an insertion returns the root of the tree of the updated map and leaves the
   tables representing that tree. *)
From QV Require Import Base.Util Base.HashSig Hyper.HyperModel Hyper.HyperBatch.
From Coq Require Import Permutation.

Local Open Scope nat_scope.

Section HyperRefine.
  Variables D E V : Type.
  Variable H : hin D E V -> D.
  Variable limit nbits : nat.
  Notation ds := (dlist D E V H nbits).
  Notation dflt := (dflt D E V H nbits ds).
  Notation bt := (bt D V).
  Notation slot := (slot D V).

  (* ---------------------------------------------------------------- the specification on full keys *)
  Definition M0 (pre : list bool) (M : list (key * V)) := filter (fun kv => negb (bit_at pre (fst kv))) M.
  Definition M1 (pre : list bool) (M : list (key * V)) := filter (fun kv => bit_at pre (fst kv)) M.

  Fixpoint sh (h : nat) (pre : list bool) (M : list (key * V)) {struct h} : D :=
    match M with
    | [] => dflt h
    | (k, v) :: rest =>
        match h with
        | O => H (YLeaf v (pre, O))
        | S h' =>
            let nd := H (YNode (sh h' (pre ++ [true]) (M1 pre M)) (sh h' (pre ++ [false]) (M0 pre M)) (pre, h)) in
            match rest with
            | [] => if Nat.leb h limit then H (YLeaf v (pre, h)) else nd
            | _ => nd
            end
        end
    end.

  Lemma sh_nil h pre : sh h pre [] = dflt h.
  Proof. destruct h; reflexivity. Qed.

  Lemma sh_single h pre k v : h <= limit -> sh h pre [(k, v)] = H (YLeaf v (pre, h)).
  Proof.
    intros Hl. destruct h as [|h']; [reflexivity|]. cbn [sh].
    assert (Hb : Nat.leb (S h') limit = true) by (apply Nat.leb_le; exact Hl). rewrite Hb. reflexivity.
  Qed.

  Lemma sh_node h' pre M : (2 <= length M \/ (M <> [] /\ limit < S h')) ->
    sh (S h') pre M = H (YNode (sh h' (pre ++ [true]) (M1 pre M)) (sh h' (pre ++ [false]) (M0 pre M)) (pre, S h')).
  Proof.
    intros Hc. destruct M as [|[k v] rest]; [cbn in Hc; destruct Hc as [Hc|[Hc _]]; [lia|contradiction]|].
    cbn [sh]. destruct rest as [|x rest]; [|reflexivity].
    destruct Hc as [Hc|[_ Hc]]; [cbn in Hc; lia|].
    assert (Hb : Nat.leb (S h') limit = false) by (apply Nat.leb_gt; exact Hc). rewrite Hb. reflexivity.
  Qed.

  (* ---------------------------------------------------------------- inserting leaves into a map *)
  Definition inb (k : key) (L : list (key * V)) : bool := existsb (fun kv => key_eqb (fst kv) k) L.
  Definition mrg (M L : list (key * V)) : list (key * V) := filter (fun kv => negb (inb (fst kv) L)) M ++ L.

  Lemma key_eqb_refl k : key_eqb k k = true.
  Proof. induction k as [|b k IH]; [reflexivity|]. cbn. rewrite IH. destruct b; reflexivity. Qed.
  Lemma key_eqb_eq a : forall b, key_eqb a b = true <-> a = b.
  Proof.
    induction a as [|x a IH]; intros [|y b]; cbn; split; intros Hq; try reflexivity; try discriminate.
    - apply andb_true_iff in Hq. destruct Hq as [H1 H2]. apply IH in H2. destruct x, y; try discriminate; subst; reflexivity.
    - injection Hq as -> ->. rewrite (proj2 (IH b) eq_refl). destruct y; reflexivity.
  Qed.

  Lemma inb_filter k (L : list (key * V)) (f : key -> bool) :
    f k = true -> inb k (filter (fun kv => f (fst kv)) L) = inb k L.
  Proof.
    intros Hf. unfold inb. induction L as [|[k' v'] L IH]; [reflexivity|]. cbn [filter fst existsb].
    destruct (f k') eqn:Hk'; cbn [existsb fst]; rewrite IH; [reflexivity|].
    destruct (key_eqb k' k) eqn:He; [|reflexivity]. apply key_eqb_eq in He. subst. congruence.
  Qed.

  Lemma filter_mrg (f : key -> bool) M L :
    filter (fun kv => f (fst kv)) (mrg M L) = mrg (filter (fun kv => f (fst kv)) M) (filter (fun kv => f (fst kv)) L).
  Proof.
    unfold mrg. rewrite filter_app. f_equal.
    induction M as [|[k v] M IH]; [reflexivity|]. cbn [filter fst].
    destruct (f k) eqn:Hf.
    - cbn [filter fst]. rewrite (inb_filter k L f Hf).
      destruct (inb k L); cbn [negb filter fst]; rewrite ?Hf; rewrite IH; reflexivity.
    - destruct (negb (inb k L)); cbn [filter fst]; rewrite ?Hf; exact IH.
  Qed.

  Lemma M0_mrg pre M L : M0 pre (mrg M L) = mrg (M0 pre M) (M0 pre L).
  Proof. exact (filter_mrg (fun k => negb (bit_at pre k)) M L). Qed.
  Lemma M1_mrg pre M L : M1 pre (mrg M L) = mrg (M1 pre M) (M1 pre L).
  Proof. exact (filter_mrg (fun k => bit_at pre k) M L). Qed.

  Lemma mrg_nil_r M : mrg M [] = M.
  Proof. unfold mrg. cbn. rewrite app_nil_r. induction M as [|x M IH]; [reflexivity|]. cbn. rewrite IH. reflexivity. Qed.
  Lemma mrg_nil_l L : mrg [] L = L.
  Proof. reflexivity. Qed.

  (* ---------------------------------------------------------------- what the tables must hold *)
  Fixpoint complete (n : nat) (t : bt) : Prop :=
    match n, t with
    | O, BNil _ _ => True
    | S k, BNode _ _ _ l r => complete k l /\ complete k r
    | _, _ => False
    end.
  Fixpoint all_none (t : bt) : Prop :=
    match t with BNil _ _ => True | BNode _ _ s l r => s = None /\ all_none l /\ all_none r end.
  Definition below_none (t : bt) : Prop :=
    match t with BNil _ _ => True | BNode _ _ _ l r => all_none l /\ all_none r end.

  (* positions below a prefix *)
  Fixpoint is_prefix (a b : list bool) : bool :=
    match a, b with
    | [], _ => true
    | x :: a', y :: b' => Bool.eqb x y && is_prefix a' b'
    | _ :: _, [] => false
    end.
  Definition under (pre : list bool) (q : hpos) : Prop := is_prefix pre (fst q) = true.

  Lemma is_prefix_app a b : forall c, is_prefix (a ++ b) c = true -> is_prefix a c = true.
  Proof.
    induction a as [|x a IH]; intros c Hp; [reflexivity|]. destruct c as [|y c]; [discriminate|]. cbn in *.
    apply andb_true_iff in Hp. destruct Hp as [H1 H2]. rewrite H1, (IH c H2). reflexivity.
  Qed.
  Lemma is_prefix_refl a : is_prefix a a = true.
  Proof. induction a as [|x a IH]; [reflexivity|]. cbn. rewrite IH. destruct x; reflexivity. Qed.
  Lemma is_prefix_app_r a : forall c, is_prefix a (a ++ c) = true.
  Proof. induction a as [|x a IH]; intros c; [reflexivity|]. cbn. rewrite IH. destruct x; reflexivity. Qed.
  Lemma is_prefix_split a x y : forall c, x <> y -> is_prefix (a ++ [x]) c = true -> is_prefix (a ++ [y]) c = true -> False.
  Proof.
    induction a as [|z a IH]; intros c Hne H1 H2.
    - destruct c as [|w c]; [discriminate|]. cbn in *. rewrite andb_true_r in *. destruct x, y, w; try discriminate; congruence.
    - destruct c as [|w c]; [discriminate|]. cbn in *. apply andb_true_iff in H1. apply andb_true_iff in H2.
      exact (IH c Hne (proj2 H1) (proj2 H2)).
  Qed.
  Lemma is_prefix_longer a x : is_prefix (a ++ [x]) a = false.
  Proof. induction a as [|z a IH]; [reflexivity|]. cbn. rewrite IH. apply andb_false_r. Qed.


  Notation rslot := (rslot D V).
  Notation set_root := (set_root D V).

  (* sA, sC: the batches of HyperTable and of the cache, as functions of the position *)
  Fixpoint RepA (sA : hpos -> bt) (h : nat) (pre : list bool) (t : bt) (M : list (key * V)) {struct h} : Prop :=
    match M with
    | [] => all_none t /\ (forall q, under pre q -> all_none (sA q))
    | [(k, v)] =>
        (exists l r, t = BNode _ _ (Some (SLeaf _ _ (H (YLeaf v (pre, h))))) l r /\
                    rslot l = Some (SKey _ _ k) /\ rslot r = Some (SVal _ _ v) /\ below_none l /\ below_none r) /\
        (forall b q, under (pre ++ [b]) q -> all_none (sA q))
    | _ =>
        match h with
        | O => False
        | S h' =>
            let slotA (pre' : list bool) (ct : bt) (M' : list (key * V)) : Prop :=
              if Nat.eqb (h' mod 4) 0 then
                match M' with
                | [] => all_none ct /\ (forall q, under pre' q -> all_none (sA q))
                | _ => rslot ct = Some (SHash _ _ (sh h' pre' M')) /\ RepA sA h' pre' (sA (pre', h')) M'
                end
              else RepA sA h' pre' ct M' in
            exists l r, t = BNode _ _ (Some (SHash _ _ (sh h pre M))) l r /\
                        slotA (pre ++ [false]) l (M0 pre M) /\ slotA (pre ++ [true]) r (M1 pre M)
        end
    end.

  Definition SlotA (sA : hpos -> bt) (h' : nat) (pre' : list bool) (ct : bt) (M' : list (key * V)) : Prop :=
    if Nat.eqb (h' mod 4) 0 then
      match M' with
      | [] => all_none ct /\ (forall q, under pre' q -> all_none (sA q))
      | _ => rslot ct = Some (SHash _ _ (sh h' pre' M')) /\ RepA sA h' pre' (sA (pre', h')) M'
      end
    else RepA sA h' pre' ct M'.

  Lemma RepA_node sA h' pre t M : 2 <= length M ->
    RepA sA (S h') pre t M <->
    exists l r, t = BNode _ _ (Some (SHash _ _ (sh (S h') pre M))) l r /\
                SlotA sA h' (pre ++ [false]) l (M0 pre M) /\ SlotA sA h' (pre ++ [true]) r (M1 pre M).
  Proof.
    intros Hl. destruct M as [|[k v] [|x rest]]; cbn in Hl; try lia. cbn [RepA]. unfold SlotA. reflexivity.
  Qed.

  Lemma RepA_nil sA h pre t : RepA sA h pre t [] <-> all_none t /\ (forall q, under pre q -> all_none (sA q)).
  Proof. destruct h; reflexivity. Qed.

  Lemma RepA_single sA h pre t k v : RepA sA h pre t [(k, v)] <->
    (exists l r, t = BNode _ _ (Some (SLeaf _ _ (H (YLeaf v (pre, h))))) l r /\
                rslot l = Some (SKey _ _ k) /\ rslot r = Some (SVal _ _ v) /\ below_none l /\ below_none r) /\
    (forall b q, under (pre ++ [b]) q -> all_none (sA q)).
  Proof. destruct h; reflexivity. Qed.

  (* the representation below a node only looks at batches below its prefix *)
  Lemma RepA_ext h : forall sA sA' pre t M,
    (forall q, under pre q -> sA q = sA' q) -> RepA sA h pre t M -> RepA sA' h pre t M.
  Proof.
    induction h as [|h' IH]; intros sA sA' pre t M Hag HR.
    - destruct M as [|[k v] [|x rest]]; cbn [RepA] in *.
      + destruct HR as [H1 H2]. split; [exact H1|]. intros q Hq. rewrite <- (Hag q Hq). exact (H2 q Hq).
      + destruct HR as [H1 H2]. split; [exact H1|]. intros b q Hq.
        rewrite <- (Hag q) by (unfold under in *; apply (is_prefix_app pre [b]); exact Hq). exact (H2 b q Hq).
      + exact HR.
    - destruct M as [|[k v] [|x rest]].
      + apply RepA_nil in HR. apply RepA_nil. destruct HR as [H1 H2]. split; [exact H1|]. intros q Hq. rewrite <- (Hag q Hq). exact (H2 q Hq).
      + apply RepA_single in HR. apply RepA_single. destruct HR as [H1 H2]. split; [exact H1|]. intros b q Hq.
        rewrite <- (Hag q) by (unfold under in *; apply (is_prefix_app pre [b]); exact Hq). exact (H2 b q Hq).
      + apply RepA_node in HR; [|cbn; lia]. apply RepA_node; [cbn; lia|].
        destruct HR as (l & r & -> & Hl & Hr). exists l, r. split; [reflexivity|].
        assert (Hsl : forall b ct M', SlotA sA h' (pre ++ [b]) ct M' -> SlotA sA' h' (pre ++ [b]) ct M').
        { intros b ct M' Hs. unfold SlotA in *.
          assert (Hag' : forall q, under (pre ++ [b]) q -> sA q = sA' q).
          { intros q Hq. apply Hag. unfold under in *. apply (is_prefix_app pre [b]). exact Hq. }
          destruct (Nat.eqb (h' mod 4) 0).
          - destruct M' as [|y M''].
            + destruct Hs as [H1 H2]. split; [exact H1|]. intros q Hq. rewrite <- (Hag' q Hq). exact (H2 q Hq).
            + destruct Hs as [H1 H2]. split; [exact H1|].
              rewrite <- (Hag' (pre ++ [b], h')) by (unfold under; cbn; apply is_prefix_refl).
              apply (IH sA sA'); [exact Hag'|exact H2].
          - apply (IH sA sA'); [exact Hag'|exact Hs]. }
        split; apply Hsl; assumption.
  Qed.

  Lemma SlotA_ext sA sA' h' pre' ct M' :
    (forall q, under pre' q -> sA q = sA' q) -> SlotA sA h' pre' ct M' -> SlotA sA' h' pre' ct M'.
  Proof.
    intros Hag Hs. unfold SlotA in *. destruct (Nat.eqb (h' mod 4) 0).
    - destruct M' as [|y M''].
      + destruct Hs as [H1 H2]. split; [exact H1|]. intros q Hq. rewrite <- (Hag q Hq). exact (H2 q Hq).
      + destruct Hs as [H1 H2]. split; [exact H1|].
        rewrite <- (Hag (pre', h')) by (unfold under; cbn; apply is_prefix_refl).
        apply (RepA_ext h' sA sA'); [exact Hag|exact H2].
    - apply (RepA_ext h' sA sA'); [exact Hag|exact Hs].
  Qed.

  (* ---------------------------------------------------------------- small facts *)
  Definition keys_ok (pre : list bool) (L : list (key * V)) : Prop :=
    Forall (fun kv => length (fst kv) = nbits /\ is_prefix pre (fst kv) = true) L.

  Lemma is_prefix_snoc pre : forall k, is_prefix pre k = true -> length pre < length k ->
    is_prefix (pre ++ [nth (length pre) k false]) k = true.
  Proof.
    induction pre as [|x pre IH]; intros k Hp Hl.
    - destruct k as [|y k]; [cbn in Hl; lia|]. cbn. destruct y; reflexivity.
    - destruct k as [|y k]; [discriminate|]. cbn in *. apply andb_true_iff in Hp. destruct Hp as [H1 H2].
      rewrite H1. cbn. apply IH; [exact H2|lia].
  Qed.

  Lemma keys_ok_filter pre L f : keys_ok pre L -> keys_ok pre (filter f L).
  Proof. unfold keys_ok. rewrite !Forall_forall. intros Hk x Hx. apply filter_In in Hx. apply Hk. exact (proj1 Hx). Qed.

  Lemma keys_ok_M0 pre L : length pre < nbits -> keys_ok pre L -> keys_ok (pre ++ [false]) (M0 pre L).
  Proof.
    unfold keys_ok, M0. rewrite !Forall_forall. intros Hl Hk x Hx. apply filter_In in Hx. destruct Hx as [Hx Hb].
    destruct (Hk x Hx) as [H1 H2]. split; [exact H1|]. apply negb_true_iff in Hb. change (nth (length pre) (fst x) false = false) in Hb.
    pose proof (is_prefix_snoc pre (fst x) H2 ltac:(lia)) as Hs. rewrite Hb in Hs. exact Hs.
  Qed.
  Lemma keys_ok_M1 pre L : length pre < nbits -> keys_ok pre L -> keys_ok (pre ++ [true]) (M1 pre L).
  Proof.
    unfold keys_ok, M1. rewrite !Forall_forall. intros Hl Hk x Hx. apply filter_In in Hx. destruct Hx as [Hx Hb].
    destruct (Hk x Hx) as [H1 H2]. split; [exact H1|]. change (nth (length pre) (fst x) false = true) in Hb.
    pose proof (is_prefix_snoc pre (fst x) H2 ltac:(lia)) as Hs. rewrite Hb in Hs. exact Hs.
  Qed.

  Lemma nodup_filter_fst (L : list (key * V)) f : NoDup (map fst L) -> NoDup (map fst (filter f L)).
  Proof.
    induction L as [|x L IH]; intros Hn; [constructor|]. cbn in *. inversion Hn as [|? ? Hx Hn']; subst.
    destruct (f x); [|exact (IH Hn')]. cbn. constructor; [|exact (IH Hn')].
    intros Hin. apply Hx. apply in_map_iff in Hin. destruct Hin as [y [Hy Hin]]. apply filter_In in Hin.
    apply in_map_iff. exists y. split; [exact Hy|exact (proj1 Hin)].
  Qed.

  Lemma is_prefix_full a : forall k, is_prefix a k = true -> length k = length a -> k = a.
  Proof.
    induction a as [|x a IH]; intros k Hp Hl; [destruct k; [reflexivity|discriminate]|].
    destruct k as [|y k]; [discriminate|]. cbn in *. apply andb_true_iff in Hp. destruct Hp as [H1 H2].
    apply eqb_prop in H1. subst. f_equal. apply IH; [exact H2|lia].
  Qed.

  Lemma keys_full_le1 pre (L : list (key * V)) : length pre = nbits -> keys_ok pre L -> NoDup (map fst L) -> length L <= 1.
  Proof.
    intros Hl Hk Hn. destruct L as [|[k1 v1] [|[k2 v2] L]]; cbn; try lia. exfalso.
    inversion Hk as [|? ? [A1 A2] Hk']; subst. inversion Hk' as [|? ? [B1 B2] _]; subst. cbn in *.
    assert (k1 = pre) by (apply is_prefix_full; [exact A2|lia]). assert (k2 = pre) by (apply is_prefix_full; [exact B2|lia]).
    subst. inversion Hn as [|? ? Hx _]; subst. apply Hx. left. reflexivity.
  Qed.

  Lemma inb_in k (L : list (key * V)) : inb k L = true <-> In k (map fst L).
  Proof.
    unfold inb. rewrite existsb_exists. split.
    - intros [x [Hx He]]. apply key_eqb_eq in He. subst. apply in_map. exact Hx.
    - intros Hin. apply in_map_iff in Hin. destruct Hin as [x [<- Hx]]. exists x. split; [exact Hx|apply key_eqb_refl].
  Qed.

  Lemma keys_ok_mrg pre M L : keys_ok pre M -> keys_ok pre L -> keys_ok pre (mrg M L).
  Proof. intros HM HL. unfold mrg, keys_ok. apply Forall_app. split; [apply keys_ok_filter; exact HM|exact HL]. Qed.

  Lemma nodup_mrg M L : NoDup (map fst M) -> NoDup (map fst L) -> NoDup (map fst (mrg M L)).
  Proof.
    intros HM HL. unfold mrg. rewrite map_app.
    assert (Hd : forall x, In x (map fst (filter (fun kv => negb (inb (fst kv) L)) M)) -> In x (map fst L) -> False).
    { intros x Q1 Q2. apply in_map_iff in Q1. destruct Q1 as [y [<- Hy]]. apply filter_In in Hy. destruct Hy as [_ Hy].
      apply negb_true_iff in Hy. apply inb_in in Q2. congruence. }
    revert Hd. generalize (nodup_filter_fst M (fun kv => negb (inb (fst kv) L)) HM).
    generalize (map fst (filter (fun kv => negb (inb (fst kv) L)) M)) as A. intros A HA Hd.
    induction A as [|a A IH]; [exact HL|]. cbn. inversion HA; subst. constructor.
    - intros Hin. apply in_app_or in Hin. destruct Hin as [Hin|Hin]; [contradiction|]. apply (Hd a); [left; reflexivity|exact Hin].
    - apply IH; [assumption|]. intros x Q1 Q2. apply (Hd x); [right; exact Q1|exact Q2].
  Qed.

  Lemma filter_len_le {A} (f : A -> bool) (l : list A) : length (filter f l) <= length l.
  Proof. induction l as [|x l IH]; cbn; [lia|]. destruct (f x); cbn; lia. Qed.

  Lemma length_mrg_ge M L : NoDup (map fst M) -> NoDup (map fst L) -> length M <= length (mrg M L) /\ length L <= length (mrg M L).
  Proof.
    intros HM HL. unfold mrg. rewrite app_length. split; [|lia].
    (* |M| <= |M \ L| + |L| *)
    revert L HL. induction M as [|[k v] M IH]; intros L HL; [cbn; lia|]. cbn [filter fst length].
    inversion HM as [|? ? Hk HM']; subst.
    destruct (inb k L) eqn:Hi; cbn [negb length].
    - (* k in L: remove it from L *)
      apply inb_in in Hi.
      set (L' := filter (fun kv => negb (key_eqb (fst kv) k)) L).
      assert (HL' : NoDup (map fst L')) by (apply nodup_filter_fst; exact HL).
      assert (Hlen : S (length L') <= length L).
      { subst L'. clear - Hi HL. induction L as [|[k' v'] L IHL]; [destruct Hi|]. cbn [filter fst length map] in *.
        inversion HL as [|? ? Hx HL']; subst. destruct (key_eqb k' k) eqn:He; cbn [negb length].
        - assert (Hle : length (filter (fun kv => negb (key_eqb (fst kv) k)) L) <= length L) by apply filter_len_le. lia.
        - destruct Hi as [Hi|Hi]; [subst; rewrite key_eqb_refl in He; discriminate|]. specialize (IHL HL' Hi). lia. }
      assert (Hf : filter (fun kv => negb (inb (fst kv) L)) M = filter (fun kv => negb (inb (fst kv) L')) M).
      { apply filter_ext_in. intros [k' v'] Hin. cbn [fst]. f_equal.
        destruct (inb k' L) eqn:A.
        - symmetry. apply inb_in. apply inb_in in A. apply in_map_iff in A. destruct A as [y [Hy Hin']].
          apply in_map_iff. exists y. split; [exact Hy|]. apply filter_In. split; [exact Hin'|].
          apply negb_true_iff. destruct (key_eqb (fst y) k) eqn:B; [|reflexivity]. apply key_eqb_eq in B.
          exfalso. apply Hk. rewrite <- B, Hy. apply in_map_iff. exists (k', v'). split; [reflexivity|exact Hin].
        - symmetry. destruct (inb k' L') eqn:B; [|reflexivity]. apply inb_in in B. apply in_map_iff in B.
          destruct B as [y [Hy Hin']]. apply filter_In in Hin'. assert (inb k' L = true) by (apply inb_in; rewrite <- Hy; apply in_map; exact (proj1 Hin')). congruence. }
      rewrite Hf. specialize (IH HM' L' HL'). lia.
    - specialize (IH HM' L HL). lia.
  Qed.

  Lemma complete_set_root n t x : complete n t -> complete n (set_root t x).
  Proof. destruct n, t; cbn; auto. Qed.
  Lemma complete_bempty n : complete n (bempty D V n).
  Proof. induction n; cbn; auto. Qed.
  Lemma all_none_bempty n : all_none (bempty D V n).
  Proof. induction n; cbn; auto. Qed.
  Lemma all_none_rslot t : all_none t -> rslot t = None.
  Proof. destruct t; cbn; [reflexivity|]. intros [-> _]. reflexivity. Qed.
  Lemma all_none_below t : all_none t -> below_none t.
  Proof. destruct t; cbn; tauto. Qed.
  Lemma below_none_set_root t x : below_none t -> below_none (set_root t x).
  Proof. destruct t; cbn; tauto. Qed.
  Lemma below_none_reset t : below_none t -> all_none (set_root t None).
  Proof. destruct t; cbn; tauto. Qed.
  Lemma rslot_set_root t x n : complete (S n) t -> rslot (set_root t x) = x.
  Proof. destruct t; cbn; [tauto|reflexivity]. Qed.

  (* ---------------------------------------------------------------- the walk below the cache *)
  Hypothesis limit4 : limit mod 4 = 0.
  Hypothesis nbits4 : nbits mod 4 = 0.

  Section WalkA.
    Variable st : hstate D V.
    Notation nodeW := (node D E V H limit nbits ds st).
    Notation childW := (childf D E V H limit nbits ds st).
    Notation innerW := (innerf D E V H limit nbits ds st).
    Notation wr := (wr D V).

    Definition sA0 : hpos -> bt := fun q => tget D V (hs_store D V st) q.
    Hypothesis store_wf : forall q, complete 5 (sA0 q).

    Definition upd_fun (s : hpos -> bt) (p : hpos) (b : bt) : hpos -> bt := fun q => if hpos_eqb q p then b else s q.
    Definition ap1 (s : hpos -> bt) (w : wr) : hpos -> bt :=
      match w with WStore _ _ p b => upd_fun s p b | _ => s end.
    Definition ap (s : hpos -> bt) (w : list wr) : hpos -> bt := fold_left ap1 w s.

    (* writes of the walk below the cache: store writes only, below the prefix *)
    Definition wr_ok (pre : list bool) (w : list wr) : Prop :=
      Forall (fun x => match x with WStore _ _ p b => under pre p /\ complete 5 b | _ => False end) w.

    Lemma hpos_eqb_eq (a b : hpos) : hpos_eqb a b = true <-> a = b.
    Proof.
      unfold hpos_eqb. destruct a as [a1 a2], b as [b1 b2]. cbn. rewrite andb_true_iff, Nat.eqb_eq, key_eqb_eq.
      split; [intros [-> ->]; reflexivity|intros Hq; injection Hq as -> ->; auto].
    Qed.

    Lemma ap_app s w1 w2 : ap s (w1 ++ w2) = ap (ap s w1) w2.
    Proof. unfold ap. apply fold_left_app. Qed.

    Lemma ap_frame w : forall s q, (forall p b, In (WStore _ _ p b) w -> p <> q) -> ap s w q = s q.
    Proof.
      induction w as [|x w IH]; intros s q Hn; [reflexivity|]. cbn [ap fold_left]. change (fold_left ap1 w (ap1 s x)) with (ap (ap1 s x) w).
      rewrite IH by (intros p b Hin; apply (Hn p b); right; exact Hin).
      destruct x as [p b|p b|p b]; cbn [ap1]; try reflexivity. unfold upd_fun.
      destruct (hpos_eqb q p) eqn:He; [|reflexivity]. apply hpos_eqb_eq in He. subst. exfalso. apply (Hn p b); [left; reflexivity|reflexivity].
    Qed.

    Lemma wr_ok_not_under pre pre' w q : wr_ok pre w -> under pre' q -> (forall c, is_prefix pre c = true -> is_prefix pre' c = true -> False) ->
      forall p b, In (WStore _ _ p b) w -> p <> q.
    Proof.
      intros Hw Hq Hd p b Hin Heq. subst. unfold wr_ok in Hw. rewrite Forall_forall in Hw. specialize (Hw _ Hin). cbn in Hw.
      exact (Hd (fst q) (proj1 Hw) Hq).
    Qed.

    Lemma wr_ok_app pre w1 w2 : wr_ok pre w1 -> wr_ok pre w2 -> wr_ok pre (w1 ++ w2).
    Proof. intros. apply Forall_app. split; assumption. Qed.

    Lemma wr_ok_weaken pre b w : wr_ok (pre ++ [b]) w -> wr_ok pre w.
    Proof.
      unfold wr_ok. rewrite !Forall_forall. intros Hw x Hx. specialize (Hw x Hx). destruct x as [p c|p c|p c]; try exact Hw.
      destruct Hw as [Hw Hc]. split; [|exact Hc]. unfold under in *. apply (is_prefix_app pre [b]). exact Hw.
    Qed.

    Lemma load_store pre' h' : h' <= limit -> load D V limit st (pre', h') = sA0 (pre', h').
    Proof. intros Hl. unfold load, sA0. cbn [snd]. assert (Hb : Nat.ltb limit h' = false) by (apply Nat.ltb_ge; exact Hl). rewrite Hb. reflexivity. Qed.

    (* levels of the subtree of a slot at height h that is not a batch root *)
    Definition lv (h : nat) : nat := h mod 4 + 1.

    Lemma mod4_pred h' : S h' mod 4 <> 0 -> S h' mod 4 = h' mod 4 + 1.
    Proof.
      intros Hn. pose proof (Nat.div_mod (S h') 4 ltac:(lia)). pose proof (Nat.div_mod h' 4 ltac:(lia)).
      pose proof (Nat.mod_upper_bound (S h') 4 ltac:(lia)). pose proof (Nat.mod_upper_bound h' 4 ltac:(lia)). lia.
    Qed.
    Lemma mod4_pred0 h' : S h' mod 4 = 0 -> h' mod 4 = 3.
    Proof.
      intros Hn. pose proof (Nat.div_mod (S h') 4 ltac:(lia)). pose proof (Nat.div_mod h' 4 ltac:(lia)).
      pose proof (Nat.mod_upper_bound (S h') 4 ltac:(lia)). pose proof (Nat.mod_upper_bound h' 4 ltac:(lia)). lia.
    Qed.

    (* what the walk establishes at one node (h > 0) *)
    Definition node_spec (h : nat) : Prop :=
      forall pre L t isroot M,
        h + length pre = nbits -> h <= limit ->
        (isroot = true -> h mod 4 = 0) -> (isroot = false -> h mod 4 <> 0) ->
        complete (if isroot then 5 else lv h) t ->
        RepA sA0 h pre t M ->
        L <> [] -> keys_ok pre L -> NoDup (map fst L) -> keys_ok pre M -> NoDup (map fst M) ->
        exists d t' w, nodeW h false pre L t isroot = Some (d, t', w) /\
          d = sh h pre (mrg M L) /\
          complete (if isroot then 5 else lv h) t' /\
          wr_ok pre w /\
          RepA (ap sA0 w) h pre t' (mrg M L) /\
          (isroot = true -> ap sA0 w (pre, h) = t').

    (* ... and at a child slot *)
    Definition child_spec (h' : nat) : Prop :=
      forall pre' Lb ct M',
        h' + length pre' = nbits -> h' <= limit ->
        complete (lv h') ct ->
        SlotA sA0 h' pre' ct M' ->
        keys_ok pre' Lb -> NoDup (map fst Lb) -> keys_ok pre' M' -> NoDup (map fst M') ->
        exists d ct' w, childW (nodeW h') false h' pre' Lb ct = Some (d, ct', w) /\
          d = sh h' pre' (mrg M' Lb) /\
          complete (lv h') ct' /\
          wr_ok pre' w /\
          SlotA (ap sA0 w) h' pre' ct' (mrg M' Lb).

    Lemma mrg_cons_ne M x L : mrg M (x :: L) <> [].
    Proof. unfold mrg. intros Hq. apply app_eq_nil in Hq. destruct Hq as [_ Hq]. discriminate. Qed.

    Lemma shortcut_batch_complete d k v : complete 5 (shortcut_at D V (empty_batch D V) d k v).
    Proof. cbn. repeat split. Qed.

    Lemma discard_slot h' pre' ct M' : h' <= limit ->
      SlotA sA0 h' pre' ct M' -> discard D E V H nbits ds ct h' = Some (sh h' pre' M').
    Proof.
      intros Hl Hs. unfold SlotA in Hs. unfold discard.
      destruct (Nat.eqb (h' mod 4) 0) eqn:Hb.
      - destruct M' as [|x M''].
        + destruct Hs as [Hn _]. rewrite (all_none_rslot ct Hn), sh_nil. reflexivity.
        + destruct Hs as [Hr _]. rewrite Hr. reflexivity.
      - destruct M' as [|[k v] [|y M'']].
        + apply RepA_nil in Hs. destruct Hs as [Hn _]. rewrite (all_none_rslot ct Hn), sh_nil. reflexivity.
        + apply RepA_single in Hs. destruct Hs as [(l & r & -> & _) _]. cbn. rewrite (sh_single h' pre' k v Hl). reflexivity.
        + destruct h' as [|h'']; [cbn in Hb; discriminate|]. apply RepA_node in Hs; [|cbn; lia].
          destruct Hs as (l & r & -> & _). reflexivity.
    Qed.

    Lemma ap_single_same s p b : ap s [WStore _ _ p b] p = b.
    Proof. cbn. unfold upd_fun. rewrite (proj2 (hpos_eqb_eq p p) eq_refl). reflexivity. Qed.
    Lemma ap_single_other s p b q : q <> p -> ap s [WStore _ _ p b] q = s q.
    Proof. intros Hn. cbn. unfold upd_fun. destruct (hpos_eqb q p) eqn:He; [apply hpos_eqb_eq in He; contradiction|reflexivity]. Qed.

    Lemma not_under_self pre' h' b : ~ under (pre' ++ [b]) (pre', h').
    Proof. unfold under. cbn. rewrite is_prefix_longer. discriminate. Qed.

    (* a fresh batch holding one shortcut leaf, hung below an empty slot *)
    Lemma new_batch_slot h' pre' ct k0 v0 n :
      h' mod 4 = 0 -> h' <= limit -> complete (S n) ct ->
      (forall b q, under (pre' ++ [b]) q -> all_none (sA0 q)) ->
      let d := H (YLeaf v0 (pre', h')) in
      SlotA (ap sA0 [WStore _ _ (pre', h') (shortcut_at D V (empty_batch D V) d k0 v0)]) h' pre'
            (set_root ct (Some (SHash _ _ d))) [(k0, v0)].
    Proof.
      intros Hb Hl Hc He d. unfold SlotA. rewrite Hb. cbn [Nat.eqb].
      split. { rewrite (rslot_set_root ct _ n Hc). f_equal. f_equal. symmetry. apply sh_single. exact Hl. }
      rewrite ap_single_same. apply RepA_single. split.
      - cbn. eexists. eexists. split; [reflexivity|]. cbn. repeat split.
      - intros b q Hq. rewrite ap_single_other; [exact (He b q Hq)|].
        intros ->. exact (not_under_self pre' h' b Hq).
    Qed.

    Lemma child_of_node h' : (h' = 0 \/ node_spec h') -> child_spec h'.
    Proof.
      intros Hnode pre' Lb ct M' Hlen Hlim Hc Hs HkL HnL HkM HnM.
      destruct Lb as [|[k0 v0] rest].
      { (* no leaf goes this way *)
        unfold childf. rewrite (discard_slot h' pre' ct M' Hlim Hs). cbn [option_map].
        exists (sh h' pre' M'), ct, []. rewrite mrg_nil_r. repeat split; try assumption; constructor. }
      assert (Hne : mrg M' ((k0, v0) :: rest) <> []) by apply mrg_cons_ne.
      destruct h' as [|h''].
      { (* the bottom of the tree: one leaf, in a batch of its own *)
        assert (Hp : length pre' = nbits) by lia.
        pose proof (keys_full_le1 pre' _ Hp HkL HnL) as H1. destruct rest as [|y rest]; [|cbn in H1; lia].
        assert (Hk0 : k0 = pre').
        { inversion HkL as [|? ? [A1 A2] _]; subst. cbn in *. apply is_prefix_full; [exact A2|lia]. }
        assert (Hall : forall k v, In (k, v) M' -> k = pre').
        { intros k v Hin. unfold keys_ok in HkM. rewrite Forall_forall in HkM. destruct (HkM _ Hin) as [A1 A2]. cbn in *.
          apply is_prefix_full; [exact A2|lia]. }
        assert (Hm : mrg M' [(k0, v0)] = [(k0, v0)]).
        { unfold mrg. assert (Hf : filter (fun kv => negb (inb (fst kv) [(k0, v0)])) M' = []).
          { clear - Hall Hk0. induction M' as [|[k v] M IH]; [reflexivity|]. cbn [filter fst].
            rewrite (Hall k v (or_introl eq_refl)), <- Hk0. unfold inb. cbn [existsb fst]. rewrite key_eqb_refl. cbn.
            apply IH. intros k' v' Hin. apply (Hall k' v'). right. exact Hin. }
          rewrite Hf. reflexivity. }
        assert (He : forall b q, under (pre' ++ [b]) q -> all_none (sA0 q)).
        { intros b q Hq. unfold SlotA in Hs. cbn in Hs. destruct M' as [|[k v] M''].
          - destruct Hs as [_ Hs]. apply Hs. unfold under in *. apply (is_prefix_app pre' [b]). exact Hq.
          - destruct Hs as [_ Hs]. assert (HM1 : length ((k, v) :: M'') <= 1) by (apply (keys_full_le1 pre'); assumption).
            destruct M'' as [|z M'']; [|cbn in HM1; lia]. apply RepA_single in Hs. exact (proj2 Hs b q Hq). }
        unfold childf.
        exists (H (YLeaf v0 (pre', 0))), (set_root ct (Some (SHash _ _ (H (YLeaf v0 (pre', 0)))))),
               [WStore _ _ (pre', 0) (shortcut_at D V (empty_batch D V) (H (YLeaf v0 (pre', 0))) k0 v0)].
        split; [reflexivity|]. rewrite Hm. split; [reflexivity|].
        split; [apply complete_set_root; exact Hc|].
        split. { constructor; [|constructor]. split; [unfold under; cbn; apply is_prefix_refl|apply shortcut_batch_complete]. }
        unfold lv in Hc. cbn in Hc. exact (new_batch_slot 0 pre' ct k0 v0 0 eq_refl Hlim Hc He). }
      (* h' = S h'' *)
      assert (Hc' : complete (S (S h'' mod 4)) ct) by (unfold lv in Hc; rewrite Nat.add_1_r in Hc; exact Hc).
      unfold childf. cbn [Nat.eqb].
      destruct (Nat.eqb (S h'' mod 4) 0) eqn:Hb.
      - (* the root of another batch *)
        apply Nat.eqb_eq in Hb.
        assert (Hload : load D V limit st (pre', S h'') = sA0 (pre', S h'')) by (apply load_store; exact Hlim).
        assert (HRroot : RepA sA0 (S h'') pre' (sA0 (pre', S h'')) M').
        { unfold SlotA in Hs. rewrite Hb in Hs. cbn [Nat.eqb] in Hs. destruct M' as [|x M''].
          - destruct Hs as [_ Hs]. apply RepA_nil. split; [|exact Hs]. apply Hs. unfold under. cbn. apply is_prefix_refl.
          - exact (proj2 Hs). }
        assert (Hrec : exists d t' w, nodeW (S h'') false pre' ((k0, v0) :: rest) (sA0 (pre', S h'')) true = Some (d, t', w) /\
                  d = sh (S h'') pre' (mrg M' ((k0, v0) :: rest)) /\ complete 5 t' /\ wr_ok pre' w /\
                  RepA (ap sA0 w) (S h'') pre' t' (mrg M' ((k0, v0) :: rest)) /\ ap sA0 w (pre', S h'') = t').
        { destruct Hnode as [Hz|Hnode]; [discriminate|].
          destruct (Hnode pre' ((k0, v0) :: rest) (sA0 (pre', S h'')) true M' Hlen Hlim (fun _ => Hb) ltac:(discriminate)
                      (store_wf _) HRroot ltac:(discriminate) HkL HnL HkM HnM) as (d & t' & w & E1 & E2 & E3 & E4 & E5 & E6).
          exists d, t', w. repeat split; try assumption. apply E6. reflexivity. }
        destruct Hrec as (d & t' & w & E1 & E2 & E3 & E4 & E5 & E6).
        assert (Hfin : SlotA (ap sA0 w) (S h'') pre' (set_root ct (Some (SHash _ _ d))) (mrg M' ((k0, v0) :: rest))).
        { unfold SlotA. rewrite Hb. cbn [Nat.eqb]. destruct (mrg M' ((k0, v0) :: rest)) as [|z Z] eqn:Hz; [contradiction|].
          split; [rewrite (rslot_set_root ct _ (S h'' mod 4)) by exact Hc'; rewrite E2; reflexivity|]. rewrite E6. exact E5. }
        destruct rest as [|y rest].
        + destruct (rslot ct) as [sl|] eqn:Hsl.
          * rewrite Hload, E1. exists d, (set_root ct (Some (SHash _ _ d))), w.
            repeat split; try assumption. apply complete_set_root; exact Hc.
          * (* an empty slot: the leaf gets a batch of its own *)
            assert (HM' : M' = []).
            { unfold SlotA in Hs. rewrite Hb in Hs. cbn [Nat.eqb] in Hs. destruct M' as [|x M'']; [reflexivity|]. destruct Hs as [Hs _]. congruence. }
            subst M'. assert (He : forall b q, under (pre' ++ [b]) q -> all_none (sA0 q)).
            { intros b q Hq. unfold SlotA in Hs. rewrite Hb in Hs. cbn [Nat.eqb] in Hs. apply (proj2 Hs). unfold under in *. apply (is_prefix_app pre' [b]). exact Hq. }
            exists (H (YLeaf v0 (pre', S h''))), (set_root ct (Some (SHash _ _ (H (YLeaf v0 (pre', S h'')))))),
                   [WStore _ _ (pre', S h'') (shortcut_at D V (empty_batch D V) (H (YLeaf v0 (pre', S h''))) k0 v0)].
            split; [reflexivity|]. rewrite mrg_nil_l. split; [symmetry; apply sh_single; exact Hlim|].
            split; [apply complete_set_root; exact Hc|].
            split. { constructor; [|constructor]. split; [unfold under; cbn; apply is_prefix_refl|apply shortcut_batch_complete]. }
            exact (new_batch_slot (S h'') pre' ct k0 v0 (S h'' mod 4) Hb Hlim Hc' He).
        + rewrite Hload, E1. exists d, (set_root ct (Some (SHash _ _ d))), w.
          repeat split; try assumption. apply complete_set_root; exact Hc.
      - (* a slot inside the same batch *)
        apply Nat.eqb_neq in Hb.
        destruct Hnode as [Hz|Hnode]; [discriminate|].
        assert (HR : RepA sA0 (S h'') pre' ct M').
        { unfold SlotA in Hs. destruct (Nat.eqb (S h'' mod 4) 0) eqn:Hb'; [apply Nat.eqb_eq in Hb'; contradiction|exact Hs]. }
        destruct (Hnode pre' ((k0, v0) :: rest) ct false M' Hlen Hlim ltac:(discriminate) (fun _ => Hb) Hc HR ltac:(discriminate) HkL HnL HkM HnM)
          as (d & t' & w & E1 & E2 & E3 & E4 & E5 & _).
        exists d, t', w. repeat split; try assumption.
        unfold SlotA. destruct (Nat.eqb (S h'' mod 4) 0) eqn:Hb'; [apply Nat.eqb_eq in Hb'; contradiction|exact E5].
    Qed.

    Lemma ap_congr w : forall s s' q, s q = s' q -> ap s w q = ap s' w q.
    Proof.
      induction w as [|x w IH]; intros s s' q Hq; [exact Hq|]. cbn [ap fold_left].
      change (fold_left ap1 w (ap1 s x)) with (ap (ap1 s x) w). change (fold_left ap1 w (ap1 s' x)) with (ap (ap1 s' x) w).
      apply IH. destruct x as [p b|p b|p b]; cbn [ap1]; try exact Hq. unfold upd_fun. destruct (hpos_eqb q p); [reflexivity|exact Hq].
    Qed.

    Lemma split_eq pre (L : list (key * V)) : split V pre L = (M0 pre L, M1 pre L).
    Proof. reflexivity. Qed.

    Lemma lv_child_root h' : S h' mod 4 = 0 -> lv h' = 4.
    Proof. intros Hm. unfold lv. rewrite (mod4_pred0 h' Hm). reflexivity. Qed.
    Lemma lv_child_inner h' : S h' mod 4 <> 0 -> lv (S h') = S (lv h').
    Proof. intros Hm. unfold lv. rewrite (mod4_pred h' Hm). lia. Qed.

    Lemma inner_ok h' pre isroot lvs l0 r0 Mx :
      child_spec h' ->
      S h' + length pre = nbits -> S h' <= limit ->
      (isroot = true -> S h' mod 4 = 0) -> (isroot = false -> S h' mod 4 <> 0) ->
      complete (lv h') l0 -> complete (lv h') r0 ->
      SlotA sA0 h' (pre ++ [false]) l0 (M0 pre Mx) -> SlotA sA0 h' (pre ++ [true]) r0 (M1 pre Mx) ->
      keys_ok pre lvs -> NoDup (map fst lvs) -> keys_ok pre Mx -> NoDup (map fst Mx) ->
      2 <= length (mrg Mx lvs) ->
      exists d t' w, innerW (nodeW h') false h' pre isroot lvs l0 r0 = Some (d, t', w) /\
        d = sh (S h') pre (mrg Mx lvs) /\ complete (if isroot then 5 else lv (S h')) t' /\ wr_ok pre w /\
        RepA (ap sA0 w) (S h') pre t' (mrg Mx lvs) /\ (isroot = true -> ap sA0 w (pre, S h') = t').
    Proof.
      intros Hch Hlen Hlim Hr1 Hr2 Hcl Hcr Hsl Hsr HkL HnL HkM HnM H2.
      assert (Hpl : length pre < nbits) by lia.
      assert (Hlen' : forall b, h' + length (pre ++ [b]) = nbits) by (intros b; rewrite app_length; cbn; lia).
      destruct (Hch (pre ++ [false]) (M0 pre lvs) l0 (M0 pre Mx) (Hlen' false) ltac:(lia) Hcl Hsl
                  (keys_ok_M0 pre lvs Hpl HkL) (nodup_filter_fst lvs _ HnL) (keys_ok_M0 pre Mx Hpl HkM) (nodup_filter_fst Mx _ HnM))
        as (dl & l1 & w1 & A1 & A2 & A3 & A4 & A5).
      destruct (Hch (pre ++ [true]) (M1 pre lvs) r0 (M1 pre Mx) (Hlen' true) ltac:(lia) Hcr Hsr
                  (keys_ok_M1 pre lvs Hpl HkL) (nodup_filter_fst lvs _ HnL) (keys_ok_M1 pre Mx Hpl HkM) (nodup_filter_fst Mx _ HnM))
        as (dr & r1 & w2 & B1 & B2 & B3 & B4 & B5).
      unfold innerf. rewrite split_eq, A1, B1. cbv zeta.
      set (d := H (YNode dr dl (pre, S h'))). set (t3 := BNode D V (Some (SHash D V d)) l1 r1).
      set (wroot := if isroot then [WStore D V (pre, S h') t3] else []).
      exists d, t3, (w2 ++ w1 ++ wroot). split; [destruct isroot; reflexivity|].
      assert (Hd : d = sh (S h') pre (mrg Mx lvs)).
      { rewrite sh_node by (left; exact H2). rewrite M1_mrg, M0_mrg, <- A2, <- B2. reflexivity. }
      assert (Hct : complete (if isroot then 5 else lv (S h')) t3).
      { destruct isroot.
        - pose proof (lv_child_root h' (Hr1 eq_refl)) as E4. rewrite E4 in A3, B3. unfold t3. cbn [complete]. split; assumption.
        - rewrite (lv_child_inner h' (Hr2 eq_refl)). unfold t3. cbn [complete]. split; assumption. }
      assert (Hwroot : wr_ok pre wroot).
      { unfold wroot. destruct isroot; [|constructor]. constructor; [|constructor]. split; [unfold under; cbn; apply is_prefix_refl|exact Hct]. }
      assert (Hw : wr_ok pre (w2 ++ w1 ++ wroot)).
      { apply wr_ok_app; [exact (wr_ok_weaken pre true w2 B4)|]. apply wr_ok_app; [exact (wr_ok_weaken pre false w1 A4)|exact Hwroot]. }
      (* what a position below one child sees after all the writes *)
      assert (Hroot_other : forall b q, under (pre ++ [b]) q -> forall p c, In (WStore D V p c) wroot -> p <> q).
      { intros b q Hq p c Hin Heq. subst. unfold wroot in Hin. destruct isroot; [|destruct Hin]. destruct Hin as [Hin|[]].
        injection Hin as <- _. exact (not_under_self pre (S h') b Hq). }
      assert (HviewL : forall q, under (pre ++ [false]) q -> ap sA0 w1 q = ap sA0 (w2 ++ w1 ++ wroot) q).
      { intros q Hq. rewrite !ap_app. rewrite (ap_frame wroot _ q (Hroot_other false q Hq)).
        apply ap_congr. symmetry. apply ap_frame.
        apply (wr_ok_not_under (pre ++ [true]) (pre ++ [false]) w2 q B4 Hq). intros c C1 C2.
        exact (is_prefix_split pre true false c ltac:(discriminate) C1 C2). }
      assert (HviewR : forall q, under (pre ++ [true]) q -> ap sA0 w2 q = ap sA0 (w2 ++ w1 ++ wroot) q).
      { intros q Hq. rewrite !ap_app. rewrite (ap_frame wroot _ q (Hroot_other true q Hq)).
        symmetry. apply ap_frame.
        apply (wr_ok_not_under (pre ++ [false]) (pre ++ [true]) w1 q A4 Hq). intros c C1 C2.
        exact (is_prefix_split pre false true c ltac:(discriminate) C1 C2). }
      repeat split; try assumption.
      - apply RepA_node; [exact H2|]. exists l1, r1. split; [unfold t3; rewrite Hd; reflexivity|]. split.
        + rewrite M0_mrg. exact (SlotA_ext _ _ h' _ l1 _ HviewL A5).
        + rewrite M1_mrg. exact (SlotA_ext _ _ h' _ r1 _ HviewR B5).
      - intros Hr. subst isroot. unfold wroot. rewrite !ap_app. apply ap_single_same.
    Qed.

    Definition cont (h' : nat) (pre : list bool) (isroot : bool) (lv0 : list (key * V)) (s0 : option slot) (l0 r0 : bt)
      : option (res D V) :=
      match lv0, s0 with
      | [(k, v)], None =>
          let d := H (YLeaf v (pre, S h')) in
          let t1 := shortcut_at D V (BNode D V s0 l0 r0) d k v in
          Some (d, t1, if Nat.eqb (S h' mod 4) 0 then [WStore D V (pre, S h') t1] else [])
      | _, _ => innerW (nodeW h') false h' pre isroot lv0 l0 r0
      end.

    Definition sel (L : list (key * V)) (s : option slot) (l r : bt) : list (key * V) * option slot * bt * bt :=
      match s, rslot l, rslot r with
      | Some (SLeaf _ _ _), Some (SKey _ _ k), Some (SVal _ _ v) =>
          (merge_stored V L k v, None, set_root l None, set_root r None)
      | _, _, _ => (L, s, l, r)
      end.

    Lemma node_S h' pre L s l r isroot :
      nodeW (S h') false pre L (BNode D V s l r) isroot =
      cont h' pre isroot (fst (fst (fst (sel L s l r)))) (snd (fst (fst (sel L s l r)))) (snd (fst (sel L s l r))) (snd (sel L s l r)).
    Proof.
      unfold sel. cbn [node].
      destruct s as [[d|d|k|v]|]; try reflexivity.
      destruct (rslot l) as [[d1|d1|k1|v1]|]; try reflexivity.
      destruct (rslot r) as [[d2|d2|k2|v2]|]; reflexivity.
    Qed.

    Lemma sel_none L l r : sel L None l r = (L, None, l, r).
    Proof. reflexivity. Qed.
    Lemma sel_hash L d l r : sel L (Some (SHash D V d)) l r = (L, Some (SHash D V d), l, r).
    Proof. reflexivity. Qed.
    Lemma sel_leaf L d l r k v : rslot l = Some (SKey D V k) -> rslot r = Some (SVal D V v) ->
      sel L (Some (SLeaf D V d)) l r = (merge_stored V L k v, None, set_root l None, set_root r None).
    Proof. intros Hl Hr. unfold sel. rewrite Hl, Hr. reflexivity. Qed.

    Lemma slot_of_empty h' pre' ct : all_none ct -> (forall q, under pre' q -> all_none (sA0 q)) -> SlotA sA0 h' pre' ct [].
    Proof.
      intros Hn He. unfold SlotA. destruct (Nat.eqb (h' mod 4) 0); [split; assumption|]. apply RepA_nil. split; assumption.
    Qed.

    Lemma from_empty h' pre isroot lvs l0 r0 :
      child_spec h' ->
      S h' + length pre = nbits -> S h' <= limit ->
      (isroot = true -> S h' mod 4 = 0) -> (isroot = false -> S h' mod 4 <> 0) ->
      complete (lv h') l0 -> complete (lv h') r0 -> all_none l0 -> all_none r0 ->
      (forall b q, under (pre ++ [b]) q -> all_none (sA0 q)) ->
      lvs <> [] -> keys_ok pre lvs -> NoDup (map fst lvs) ->
      exists d t' w, cont h' pre isroot lvs None l0 r0 = Some (d, t', w) /\
        d = sh (S h') pre lvs /\ complete (if isroot then 5 else lv (S h')) t' /\ wr_ok pre w /\
        RepA (ap sA0 w) (S h') pre t' lvs /\ (isroot = true -> ap sA0 w (pre, S h') = t').
    Proof.
      intros Hch Hlen Hlim Hr1 Hr2 Hcl Hcr Hnl Hnr He Hne HkL HnL.
      assert (Hct : forall x y z, complete (if isroot then 5 else lv (S h')) (BNode D V x (set_root l0 y) (set_root r0 z))).
      { intros x y z. destruct isroot.
        - pose proof (lv_child_root h' (Hr1 eq_refl)) as E4. rewrite E4 in Hcl, Hcr.
          change (complete 4 (set_root l0 y) /\ complete 4 (set_root r0 z)). split; apply complete_set_root; assumption.
        - rewrite (lv_child_inner h' (Hr2 eq_refl)).
          change (complete (lv h') (set_root l0 y) /\ complete (lv h') (set_root r0 z)). split; apply complete_set_root; assumption. }
      destruct lvs as [|[k v] [|y rest]]; [contradiction| |].
      - (* one leaf into an empty subtree: a shortcut leaf in this slot *)
        unfold cont. cbv zeta.
        set (d := H (YLeaf v (pre, S h'))).
        set (t1 := shortcut_at D V (BNode D V None l0 r0) d k v).
        exists d, t1, (if Nat.eqb (S h' mod 4) 0 then [WStore D V (pre, S h') t1] else []).
        split; [reflexivity|]. split; [symmetry; apply sh_single; exact Hlim|].
        assert (Hc1 : complete (if isroot then 5 else lv (S h')) t1) by (unfold t1; cbn [shortcut_at]; apply Hct).
        split; [exact Hc1|].
        assert (Hw : wr_ok pre (if Nat.eqb (S h' mod 4) 0 then [WStore D V (pre, S h') t1] else [])).
        { destruct (Nat.eqb (S h' mod 4) 0) eqn:Hb; [|constructor]. apply Nat.eqb_eq in Hb.
          constructor; [|constructor]. split; [unfold under; cbn; apply is_prefix_refl|].
          destruct isroot; [exact Hc1|]. exfalso. exact (Hr2 eq_refl Hb). }
        split; [exact Hw|]. split.
        + apply RepA_single. split.
          * unfold t1. cbn [shortcut_at]. eexists. eexists. split; [reflexivity|].
            assert (Hl1 : exists n, complete (S n) l0) by (exists (h' mod 4); unfold lv in Hcl; rewrite Nat.add_1_r in Hcl; exact Hcl).
            assert (Hr1' : exists n, complete (S n) r0) by (exists (h' mod 4); unfold lv in Hcr; rewrite Nat.add_1_r in Hcr; exact Hcr).
            destruct Hl1 as [n1 Hl1]. destruct Hr1' as [n2 Hr1'].
            rewrite (rslot_set_root l0 _ n1 Hl1), (rslot_set_root r0 _ n2 Hr1').
            repeat split; apply below_none_set_root, all_none_below; assumption.
          * intros b q Hq. destruct (Nat.eqb (S h' mod 4) 0).
            -- rewrite ap_single_other; [exact (He b q Hq)|]. intros ->. exact (not_under_self pre (S h') b Hq).
            -- exact (He b q Hq).
        + intros Hr. subst isroot. rewrite (proj2 (Nat.eqb_eq _ _) (Hr1 eq_refl)). apply ap_single_same.
      - (* two or more leaves: an inner node over two empty children *)
        unfold cont.
        assert (Hsl : forall b ct, all_none ct -> SlotA sA0 h' (pre ++ [b]) ct []).
        { intros b ct Hn. apply slot_of_empty; [exact Hn|]. intros q Hq. exact (He b q Hq). }
        destruct (inner_ok h' pre isroot ((k, v) :: y :: rest) l0 r0 [] Hch Hlen Hlim Hr1 Hr2 Hcl Hcr
                    (Hsl false l0 Hnl) (Hsl true r0 Hnr) HkL HnL ltac:(constructor) ltac:(constructor) ltac:(cbn; lia))
          as (d & t' & w & A1 & A2 & A3 & A4 & A5 & A6).
        exists d, t', w. rewrite mrg_nil_l in *. repeat split; assumption.
    Qed.

    Lemma merge_stored_mrg L k0 v0 : merge_stored V L k0 v0 = mrg [(k0, v0)] L.
    Proof.
      unfold merge_stored, mrg. cbn [filter fst]. change (existsb (fun kv : key * V => key_eqb (fst kv) k0) L) with (inb k0 L).
      destruct (inb k0 L); reflexivity.
    Qed.

    Lemma complete_children isroot h' s l r :
      (isroot = true -> S h' mod 4 = 0) -> (isroot = false -> S h' mod 4 <> 0) ->
      complete (if isroot then 5 else lv (S h')) (BNode D V s l r) -> complete (lv h') l /\ complete (lv h') r.
    Proof.
      intros Hr1 Hr2 Hc. destruct isroot.
      - rewrite (lv_child_root h' (Hr1 eq_refl)). exact Hc.
      - rewrite (lv_child_inner h' (Hr2 eq_refl)) in Hc. exact Hc.
    Qed.

    Lemma node_of_child h' : child_spec h' -> node_spec (S h').
    Proof.
      intros Hch pre L t isroot M Hlen Hlim Hr1 Hr2 Hc HR Hne HkL HnL HkM HnM.
      destruct t as [|s l r]; [destruct isroot; cbn in Hc; try contradiction; unfold lv in Hc; rewrite Nat.add_1_r in Hc; contradiction|].
      destruct (complete_children isroot h' s l r Hr1 Hr2 Hc) as [Hcl Hcr].
      rewrite node_S.
      destruct M as [|[k0 v0] [|y M2]].
      - (* nothing stored below this slot *)
        apply RepA_nil in HR. destruct HR as [(Hs & Hnl & Hnr) He]. subst s. rewrite sel_none. cbn [fst snd].
        assert (He' : forall b q, under (pre ++ [b]) q -> all_none (sA0 q)).
        { intros b q Hq. apply He. unfold under in *. apply (is_prefix_app pre [b]). exact Hq. }
        rewrite mrg_nil_l.
        exact (from_empty h' pre isroot L l r Hch Hlen Hlim Hr1 Hr2 Hcl Hcr Hnl Hnr He' Hne HkL HnL).
      - (* a shortcut leaf is stored here: it is pushed down together with the new leaves *)
        apply RepA_single in HR. destruct HR as [(l' & r' & Heq & Hrl & Hrr & Hbl & Hbr) He].
        injection Heq as -> -> ->. rewrite (sel_leaf L _ l' r' k0 v0 Hrl Hrr). cbn [fst snd].
        rewrite merge_stored_mrg.
        assert (Hne' : mrg [(k0, v0)] L <> []).
        { destruct L as [|x L']; [contradiction|]. apply mrg_cons_ne. }
        exact (from_empty h' pre isroot (mrg [(k0, v0)] L) (set_root l' None) (set_root r' None) Hch Hlen Hlim Hr1 Hr2
                 (complete_set_root _ l' None Hcl) (complete_set_root _ r' None Hcr)
                 (below_none_reset l' Hbl) (below_none_reset r' Hbr) He Hne'
                 (keys_ok_mrg pre _ L HkM HkL) (nodup_mrg _ L HnM HnL)).
      - (* an inner node *)
        apply RepA_node in HR; [|cbn; lia]. destruct HR as (l' & r' & Heq & Hsl & Hsr). injection Heq as -> -> ->.
        assert (Hcont : forall dd, cont h' pre isroot L (Some (SHash D V dd)) l' r' =
                        innerW (nodeW h') false h' pre isroot L l' r').
        { intros dd. unfold cont. destruct L as [|[k v] [|z L']]; reflexivity. }
        rewrite sel_hash. cbn [fst snd]. rewrite Hcont.
        apply (inner_ok h' pre isroot L l' r' ((k0, v0) :: y :: M2) Hch Hlen Hlim Hr1 Hr2 Hcl Hcr Hsl Hsr HkL HnL HkM HnM).
        pose proof (length_mrg_ge ((k0, v0) :: y :: M2) L HnM HnL) as [Hge _]. cbn in Hge. cbn. lia.
    Qed.

    (* every height from 1 up to the limit *)
    Theorem walk_below_cache : forall h, 0 < h -> node_spec h.
    Proof.
      assert (Hall : forall h, (h = 0 \/ node_spec h)).
      { induction h as [|h IH]; [left; reflexivity|]. right. apply node_of_child. apply child_of_node. exact IH. }
      intros h Hh. destruct (Hall h) as [->|Hn]; [lia|exact Hn].
    Qed.

    Theorem child_below_cache : forall h', child_spec h'.
    Proof.
      intros h'. apply child_of_node. destruct h' as [|h'']; [left; reflexivity|right; apply walk_below_cache; lia].
    Qed.
  End WalkA.

  (* ---------------------------------------------------------------- the walk through the cache levels *)
  Fixpoint RepC (sC sA : hpos -> bt) (h : nat) (pre : list bool) (t : bt) (M : list (key * V)) {struct h} : Prop :=
    match M with
    | [] => all_none t /\ (forall q, under pre q -> all_none (sC q) /\ all_none (sA q))
    | _ =>
        match h with
        | O => False
        | S h' =>
            let slotC (pre' : list bool) (ct : bt) (M' : list (key * V)) : Prop :=
              if Nat.eqb (h' mod 4) 0 then
                match M' with
                | [] => all_none ct /\ (forall q, under pre' q -> all_none (sC q) /\ all_none (sA q))
                | _ => rslot ct = Some (SHash _ _ (sh h' pre' M')) /\
                       (if Nat.ltb limit h' then RepC sC sA h' pre' (sC (pre', h')) M' else RepA sA h' pre' (sA (pre', h')) M')
                end
              else RepC sC sA h' pre' ct M' in
            exists l r, t = BNode _ _ (Some (SHash _ _ (sh h pre M))) l r /\
                        slotC (pre ++ [false]) l (M0 pre M) /\ slotC (pre ++ [true]) r (M1 pre M)
        end
    end.

  Definition SlotC (sC sA : hpos -> bt) (h' : nat) (pre' : list bool) (ct : bt) (M' : list (key * V)) : Prop :=
    if Nat.eqb (h' mod 4) 0 then
      match M' with
      | [] => all_none ct /\ (forall q, under pre' q -> all_none (sC q) /\ all_none (sA q))
      | _ => rslot ct = Some (SHash _ _ (sh h' pre' M')) /\
             (if Nat.ltb limit h' then RepC sC sA h' pre' (sC (pre', h')) M' else RepA sA h' pre' (sA (pre', h')) M')
      end
    else RepC sC sA h' pre' ct M'.

  Lemma RepC_nil sC sA h pre t : RepC sC sA h pre t [] <-> all_none t /\ (forall q, under pre q -> all_none (sC q) /\ all_none (sA q)).
  Proof. destruct h; reflexivity. Qed.

  Lemma RepC_node sC sA h' pre t M : M <> [] ->
    RepC sC sA (S h') pre t M <->
    exists l r, t = BNode _ _ (Some (SHash _ _ (sh (S h') pre M))) l r /\
                SlotC sC sA h' (pre ++ [false]) l (M0 pre M) /\ SlotC sC sA h' (pre ++ [true]) r (M1 pre M).
  Proof. intros Hne. destruct M as [|x M']; [contradiction|]. cbn [RepC]. unfold SlotC. reflexivity. Qed.

  Lemma RepC_ext h : forall sC sC' sA sA' pre t M,
    (forall q, under pre q -> sC q = sC' q) -> (forall q, under pre q -> sA q = sA' q) ->
    RepC sC sA h pre t M -> RepC sC' sA' h pre t M.
  Proof.
    induction h as [|h' IH]; intros sC sC' sA sA' pre t M HC HA HR.
    - destruct M as [|x M']; [|exact HR]. cbn [RepC] in *. destruct HR as [H1 H2]. split; [exact H1|].
      intros q Hq. rewrite <- (HC q Hq), <- (HA q Hq). exact (H2 q Hq).
    - destruct M as [|x M'].
      + apply RepC_nil in HR. apply RepC_nil. destruct HR as [H1 H2]. split; [exact H1|].
        intros q Hq. rewrite <- (HC q Hq), <- (HA q Hq). exact (H2 q Hq).
      + apply RepC_node in HR; [|discriminate]. apply RepC_node; [discriminate|].
        destruct HR as (l & r & -> & Hl & Hr). exists l, r. split; [reflexivity|].
        assert (Hsl : forall b ct M', SlotC sC sA h' (pre ++ [b]) ct M' -> SlotC sC' sA' h' (pre ++ [b]) ct M').
        { intros b ct M'' Hs. unfold SlotC in *.
          assert (HC' : forall q, under (pre ++ [b]) q -> sC q = sC' q) by (intros q Hq; apply HC; unfold under in *; apply (is_prefix_app pre [b]); exact Hq).
          assert (HA' : forall q, under (pre ++ [b]) q -> sA q = sA' q) by (intros q Hq; apply HA; unfold under in *; apply (is_prefix_app pre [b]); exact Hq).
          destruct (Nat.eqb (h' mod 4) 0).
          - destruct M'' as [|y M3].
            + destruct Hs as [H1 H2]. split; [exact H1|]. intros q Hq. rewrite <- (HC' q Hq), <- (HA' q Hq). exact (H2 q Hq).
            + destruct Hs as [H1 H2]. split; [exact H1|].
              assert (Hself : under (pre ++ [b]) (pre ++ [b], h')) by (unfold under; cbn; apply is_prefix_refl).
              destruct (Nat.ltb limit h').
              * rewrite <- (HC' _ Hself). apply (IH sC sC' sA sA'); assumption.
              * rewrite <- (HA' _ Hself). apply (RepA_ext h' sA sA'); assumption.
          - apply (IH sC sC' sA sA'); assumption. }
        split; apply Hsl; assumption.
  Qed.

  Lemma SlotC_ext sC sC' sA sA' h' pre' ct M' :
    (forall q, under pre' q -> sC q = sC' q) -> (forall q, under pre' q -> sA q = sA' q) ->
    SlotC sC sA h' pre' ct M' -> SlotC sC' sA' h' pre' ct M'.
  Proof.
    intros HC HA Hs. unfold SlotC in *. destruct (Nat.eqb (h' mod 4) 0).
    - destruct M' as [|y M3].
      + destruct Hs as [H1 H2]. split; [exact H1|]. intros q Hq. rewrite <- (HC q Hq), <- (HA q Hq). exact (H2 q Hq).
      + destruct Hs as [H1 H2]. split; [exact H1|].
        assert (Hself : under pre' (pre', h')) by (unfold under; cbn; apply is_prefix_refl).
        destruct (Nat.ltb limit h').
        * rewrite <- (HC _ Hself). apply (RepC_ext h' sC sC' sA sA'); assumption.
        * rewrite <- (HA _ Hself). apply (RepA_ext h' sA sA'); assumption.
    - apply (RepC_ext h' sC sC' sA sA'); assumption.
  Qed.

  Section WalkC.
    Variable st : hstate D V.
    Hypothesis lim_pos : 0 < limit.
    Notation nodeW := (node D E V H limit nbits ds st).
    Notation childW := (childf D E V H limit nbits ds st).
    Notation innerW := (innerf D E V H limit nbits ds st).
    Notation wr := (wr D V).
    Notation sA0 := (sA0 st).
    Notation ap := (ap).

    Definition sC0 : hpos -> bt := fun q => tget D V (hs_cache D V st) q.
    Hypothesis store_wf : forall q, complete 5 (sA0 q).
    Hypothesis cache_wf : forall q, complete 5 (sC0 q).

    Definition apC1 (s : hpos -> bt) (w : wr) : hpos -> bt :=
      match w with WCache _ _ p b => upd_fun s p b | _ => s end.
    Definition apC (s : hpos -> bt) (w : list wr) : hpos -> bt := fold_left apC1 w s.

    Definition wr_pos (x : wr) : hpos * bt := match x with WCache _ _ p b | WTile _ _ p b | WStore _ _ p b => (p, b) end.
    Definition wr_okC (pre : list bool) (w : list wr) : Prop :=
      Forall (fun x => under pre (fst (wr_pos x)) /\ complete 5 (snd (wr_pos x))) w.

    Lemma apC_app s w1 w2 : apC s (w1 ++ w2) = apC (apC s w1) w2.
    Proof. unfold apC. apply fold_left_app. Qed.

    Lemma apC_frame w : forall s q, (forall p b, In (WCache _ _ p b) w -> p <> q) -> apC s w q = s q.
    Proof.
      induction w as [|x w IH]; intros s q Hn; [reflexivity|]. cbn [apC fold_left]. change (fold_left apC1 w (apC1 s x)) with (apC (apC1 s x) w).
      rewrite IH by (intros p b Hin; apply (Hn p b); right; exact Hin).
      destruct x as [p b|p b|p b]; cbn [apC1]; try reflexivity. unfold upd_fun.
      destruct (hpos_eqb q p) eqn:He; [|reflexivity]. apply hpos_eqb_eq in He. subst. exfalso. apply (Hn p b); [left; reflexivity|reflexivity].
    Qed.

    Lemma apC_congr w : forall s s' q, s q = s' q -> apC s w q = apC s' w q.
    Proof.
      induction w as [|x w IH]; intros s s' q Hq; [exact Hq|]. cbn [apC fold_left].
      change (fold_left apC1 w (apC1 s x)) with (apC (apC1 s x) w). change (fold_left apC1 w (apC1 s' x)) with (apC (apC1 s' x) w).
      apply IH. destruct x as [p b|p b|p b]; cbn [apC1]; try exact Hq. unfold upd_fun. destruct (hpos_eqb q p); [reflexivity|exact Hq].
    Qed.

    Lemma wr_okC_app pre w1 w2 : wr_okC pre w1 -> wr_okC pre w2 -> wr_okC pre (w1 ++ w2).
    Proof. intros. apply Forall_app. split; assumption. Qed.
    Lemma wr_okC_weaken pre b w : wr_okC (pre ++ [b]) w -> wr_okC pre w.
    Proof.
      unfold wr_okC. rewrite !Forall_forall. intros Hw x Hx. destruct (Hw x Hx) as [H1 H2]. split; [|exact H2].
      unfold under in *. apply (is_prefix_app pre [b]). exact H1.
    Qed.
    Lemma wr_ok_okC pre w : wr_ok pre w -> wr_okC pre w.
    Proof.
      unfold wr_ok, wr_okC. rewrite !Forall_forall. intros Hw x Hx. specialize (Hw x Hx). destruct x as [p b|p b|p b]; try contradiction. exact Hw.
    Qed.
    Lemma wr_ok_no_cache pre w s : wr_ok pre w -> apC s w = s.
    Proof.
      intros Hw. revert s. induction w as [|x w IH]; intros s; [reflexivity|]. inversion Hw as [|? ? Hx Hw']; subst.
      cbn [apC fold_left]. change (fold_left apC1 w (apC1 s x)) with (apC (apC1 s x) w). rewrite (IH Hw').
      destruct x; try contradiction. reflexivity.
    Qed.

    Lemma okC_other_store pre pre' w q : wr_okC pre w -> under pre' q -> (forall c, is_prefix pre c = true -> is_prefix pre' c = true -> False) ->
      forall p b, In (WStore _ _ p b) w -> p <> q.
    Proof.
      intros Hw Hq Hd p b Hin Heq. subst. unfold wr_okC in Hw. rewrite Forall_forall in Hw. destruct (Hw _ Hin) as [H1 _]. cbn in H1.
      exact (Hd (fst q) H1 Hq).
    Qed.
    Lemma okC_other_cache pre pre' w q : wr_okC pre w -> under pre' q -> (forall c, is_prefix pre c = true -> is_prefix pre' c = true -> False) ->
      forall p b, In (WCache _ _ p b) w -> p <> q.
    Proof.
      intros Hw Hq Hd p b Hin Heq. subst. unfold wr_okC in Hw. rewrite Forall_forall in Hw. destruct (Hw _ Hin) as [H1 _]. cbn in H1.
      exact (Hd (fst q) H1 Hq).
    Qed.

    Lemma load_cache pre' h' : limit < h' -> load D V limit st (pre', h') = sC0 (pre', h').
    Proof. intros Hl. unfold load, sC0. cbn [snd]. assert (Hb : Nat.ltb limit h' = true) by (apply Nat.ltb_lt; exact Hl). rewrite Hb. reflexivity. Qed.

    Definition nodeC_spec (h : nat) : Prop :=
      forall pre L t isroot M,
        h + length pre = nbits -> limit < h ->
        (isroot = true -> h mod 4 = 0) -> (isroot = false -> h mod 4 <> 0) ->
        complete (if isroot then 5 else lv h) t ->
        RepC sC0 sA0 h pre t M ->
        L <> [] -> keys_ok pre L -> NoDup (map fst L) -> keys_ok pre M -> NoDup (map fst M) ->
        exists d t' w, nodeW h true pre L t isroot = Some (d, t', w) /\
          d = sh h pre (mrg M L) /\
          complete (if isroot then 5 else lv h) t' /\
          wr_okC pre w /\
          RepC (apC sC0 w) (ap sA0 w) h pre t' (mrg M L) /\
          (isroot = true -> apC sC0 w (pre, h) = t').

    Definition childC_spec (h' : nat) : Prop :=
      forall pre' Lb ct M',
        h' + length pre' = nbits -> limit <= h' ->
        complete (lv h') ct ->
        SlotC sC0 sA0 h' pre' ct M' ->
        keys_ok pre' Lb -> NoDup (map fst Lb) -> keys_ok pre' M' -> NoDup (map fst M') ->
        exists d ct' w, childW (nodeW h') true h' pre' Lb ct = Some (d, ct', w) /\
          d = sh h' pre' (mrg M' Lb) /\
          complete (lv h') ct' /\
          wr_okC pre' w /\
          SlotC (apC sC0 w) (ap sA0 w) h' pre' ct' (mrg M' Lb).

    Lemma discard_slotC h' pre' ct M' : limit <= h' ->
      SlotC sC0 sA0 h' pre' ct M' -> discard D E V H nbits ds ct h' = Some (sh h' pre' M').
    Proof.
      intros Hl Hs. unfold SlotC in Hs. unfold discard.
      destruct (Nat.eqb (h' mod 4) 0) eqn:Hb.
      - destruct M' as [|x M''].
        + destruct Hs as [Hn _]. rewrite (all_none_rslot ct Hn), sh_nil. reflexivity.
        + destruct Hs as [Hr _]. rewrite Hr. reflexivity.
      - destruct M' as [|x M''].
        + apply RepC_nil in Hs. destruct Hs as [Hn _]. rewrite (all_none_rslot ct Hn), sh_nil. reflexivity.
        + destruct h' as [|h'']; [lia|]. apply RepC_node in Hs; [|discriminate]. destruct Hs as (l & r & -> & _). reflexivity.
    Qed.

    Lemma childC_of_node h' : (limit < h' -> nodeC_spec h') -> childC_spec h'.
    Proof.
      intros Hnode pre' Lb ct M' Hlen Hlim Hc Hs HkL HnL HkM HnM.
      destruct Lb as [|[k0 v0] rest].
      { unfold childf. rewrite (discard_slotC h' pre' ct M' Hlim Hs). cbn [option_map].
        exists (sh h' pre' M'), ct, []. rewrite mrg_nil_r. repeat split; try assumption; constructor. }
      assert (Hne : mrg M' ((k0, v0) :: rest) <> []) by apply mrg_cons_ne.
      assert (Hc' : complete (S (h' mod 4)) ct) by (unfold lv in Hc; rewrite Nat.add_1_r in Hc; exact Hc).
      unfold childf.
      destruct (Nat.eqb (h' mod 4) 0) eqn:Hb.
      - apply Nat.eqb_eq in Hb.
        destruct (Nat.ltb limit h') eqn:Hlt.
        + (* the next batch is a cache level too *)
          apply Nat.ltb_lt in Hlt. rewrite (load_cache pre' h' Hlt).
          assert (HR : RepC sC0 sA0 h' pre' (sC0 (pre', h')) M').
          { unfold SlotC in Hs. rewrite Hb in Hs. cbn [Nat.eqb] in Hs. destruct M' as [|x M''].
            - destruct Hs as [_ Hs]. apply RepC_nil. split; [|exact Hs]. apply (Hs (pre', h')). unfold under. cbn. apply is_prefix_refl.
            - destruct Hs as [_ Hs]. assert (Hb2 : Nat.ltb limit h' = true) by (apply Nat.ltb_lt; exact Hlt). rewrite Hb2 in Hs. exact Hs. }
          destruct (Hnode Hlt pre' ((k0, v0) :: rest) (sC0 (pre', h')) true M' Hlen Hlt (fun _ => Hb) ltac:(discriminate)
                      (cache_wf _) HR ltac:(discriminate) HkL HnL HkM HnM) as (d & t' & w & E1 & E2 & E3 & E4 & E5 & E6).
          rewrite E1. exists d, (set_root ct (Some (SHash _ _ d))), w.
          split; [reflexivity|]. split; [exact E2|]. split; [apply complete_set_root; exact Hc|]. split; [exact E4|].
          unfold SlotC. rewrite Hb. cbn [Nat.eqb]. destruct (mrg M' ((k0, v0) :: rest)) as [|z Z] eqn:Hz; [contradiction|].
          split; [rewrite (rslot_set_root ct _ (h' mod 4) Hc'), E2; reflexivity|].
          assert (Hb2 : Nat.ltb limit h' = true) by (apply Nat.ltb_lt; exact Hlt). rewrite Hb2. rewrite (E6 eq_refl). exact E5.
        + (* the next batch is the first one below the cache *)
          apply Nat.ltb_ge in Hlt. assert (Heq : h' = limit) by lia. subst h'.
          rewrite (load_store st pre' limit (le_n _)).
          assert (HR : RepA sA0 limit pre' (sA0 (pre', limit)) M').
          { unfold SlotC in Hs. rewrite Hb in Hs. cbn [Nat.eqb] in Hs. destruct M' as [|x M''].
            - destruct Hs as [_ Hs]. apply RepA_nil. split.
              + apply (Hs (pre', limit)). unfold under. cbn. apply is_prefix_refl.
              + intros q Hq. apply (Hs q Hq).
            - destruct Hs as [_ Hs]. rewrite Nat.ltb_irrefl in Hs. exact Hs. }
          destruct (walk_below_cache st store_wf limit lim_pos pre' ((k0, v0) :: rest) (sA0 (pre', limit)) true M' Hlen (le_n _)
                      (fun _ => Hb) ltac:(discriminate) (store_wf _) HR ltac:(discriminate) HkL HnL HkM HnM)
            as (d & t' & w & E1 & E2 & E3 & E4 & E5 & E6).
          rewrite E1. exists d, (set_root ct (Some (SHash _ _ d))), w.
          split; [reflexivity|]. split; [exact E2|]. split; [apply complete_set_root; exact Hc|]. split; [apply wr_ok_okC; exact E4|].
          unfold SlotC. rewrite Hb. cbn [Nat.eqb]. destruct (mrg M' ((k0, v0) :: rest)) as [|z Z] eqn:Hz; [contradiction|].
          split; [rewrite (rslot_set_root ct _ (limit mod 4) Hc'), E2; reflexivity|].
          rewrite Nat.ltb_irrefl. rewrite (E6 eq_refl). exact E5.
      - (* a slot inside the same cached batch *)
        apply Nat.eqb_neq in Hb.
        assert (Hlt : limit < h') by (destruct (Nat.eq_dec h' limit) as [->|]; [contradiction|lia]).
        assert (HR : RepC sC0 sA0 h' pre' ct M').
        { unfold SlotC in Hs. destruct (Nat.eqb (h' mod 4) 0) eqn:Hb'; [apply Nat.eqb_eq in Hb'; contradiction|exact Hs]. }
        destruct (Hnode Hlt pre' ((k0, v0) :: rest) ct false M' Hlen Hlt ltac:(discriminate) (fun _ => Hb) Hc HR ltac:(discriminate) HkL HnL HkM HnM)
          as (d & t' & w & E1 & E2 & E3 & E4 & E5 & _).
        exists d, t', w. repeat split; try assumption.
        unfold SlotC. destruct (Nat.eqb (h' mod 4) 0) eqn:Hb'; [apply Nat.eqb_eq in Hb'; contradiction|exact E5].
    Qed.

    Lemma nodeC_S h' pre L s l r isroot :
      nodeW (S h') true pre L (BNode D V s l r) isroot = innerW (nodeW h') true h' pre isroot L l r.
    Proof. reflexivity. Qed.

    Lemma nodeC_of_child h' : childC_spec h' -> nodeC_spec (S h').
    Proof.
      intros Hch pre L t isroot M Hlen Hlim Hr1 Hr2 Hc HR Hne HkL HnL HkM HnM.
      destruct t as [|s l r]; [destruct isroot; cbn in Hc; try contradiction; unfold lv in Hc; rewrite Nat.add_1_r in Hc; contradiction|].
      destruct (complete_children isroot h' s l r Hr1 Hr2 Hc) as [Hcl Hcr].
      rewrite nodeC_S.
      assert (Hslots : SlotC sC0 sA0 h' (pre ++ [false]) l (M0 pre M) /\ SlotC sC0 sA0 h' (pre ++ [true]) r (M1 pre M)).
      { destruct M as [|x M'].
        - apply RepC_nil in HR. destruct HR as [(_ & Hnl & Hnr) He].
          assert (Hs : forall b ct, all_none ct -> SlotC sC0 sA0 h' (pre ++ [b]) ct []).
          { intros b ct Hn. assert (He' : forall q, under (pre ++ [b]) q -> all_none (sC0 q) /\ all_none (sA0 q)).
            { intros q Hq. apply He. unfold under in *. apply (is_prefix_app pre [b]). exact Hq. }
            unfold SlotC. destruct (Nat.eqb (h' mod 4) 0); [split; assumption|]. apply RepC_nil. split; assumption. }
          split; [exact (Hs false l Hnl)|exact (Hs true r Hnr)].
        - apply RepC_node in HR; [|discriminate]. destruct HR as (l' & r' & Heq & Hsl & Hsr). injection Heq as _ -> ->. split; assumption. }
      destruct Hslots as [Hsl Hsr].
      assert (Hpl : length pre < nbits) by lia.
      assert (Hlen' : forall b, h' + length (pre ++ [b]) = nbits) by (intros b; rewrite app_length; cbn; lia).
      destruct (Hch (pre ++ [false]) (M0 pre L) l (M0 pre M) (Hlen' false) ltac:(lia) Hcl Hsl
                  (keys_ok_M0 pre L Hpl HkL) (nodup_filter_fst L _ HnL) (keys_ok_M0 pre M Hpl HkM) (nodup_filter_fst M _ HnM))
        as (dl & l1 & w1 & A1 & A2 & A3 & A4 & A5).
      destruct (Hch (pre ++ [true]) (M1 pre L) r (M1 pre M) (Hlen' true) ltac:(lia) Hcr Hsr
                  (keys_ok_M1 pre L Hpl HkL) (nodup_filter_fst L _ HnL) (keys_ok_M1 pre M Hpl HkM) (nodup_filter_fst M _ HnM))
        as (dr & r1 & w2 & B1 & B2 & B3 & B4 & B5).
      unfold innerf. rewrite split_eq, A1, B1. cbv zeta.
      set (d := H (YNode dr dl (pre, S h'))). set (t3 := BNode D V (Some (SHash D V d)) l1 r1).
      set (wroot := if isroot then WCache D V (pre, S h') t3 :: (if Nat.eqb (S h') (limit + 4) then [WTile D V (pre, S h') t3] else []) else []).
      exists d, t3, (w2 ++ w1 ++ wroot). split; [destruct isroot; reflexivity|].
      assert (Hmne : mrg M L <> []) by (destruct L as [|x L']; [contradiction|apply mrg_cons_ne]).
      assert (Hd : d = sh (S h') pre (mrg M L)).
      { rewrite sh_node by (right; split; [exact Hmne|exact Hlim]). rewrite M1_mrg, M0_mrg, <- A2, <- B2. reflexivity. }
      assert (Hct : complete (if isroot then 5 else lv (S h')) t3).
      { destruct isroot.
        - pose proof (lv_child_root h' (Hr1 eq_refl)) as E4. rewrite E4 in A3, B3. unfold t3. cbn [complete]. split; assumption.
        - rewrite (lv_child_inner h' (Hr2 eq_refl)). unfold t3. cbn [complete]. split; assumption. }
      assert (Hwroot : wr_okC pre wroot).
      { unfold wroot. destruct isroot; [|constructor].
        assert (Hu : under pre (pre, S h')) by (unfold under; cbn; apply is_prefix_refl).
        constructor; [split; [exact Hu|exact Hct]|]. destruct (Nat.eqb (S h') (limit + 4)); constructor; [split; [exact Hu|exact Hct]|constructor]. }
      assert (Hw : wr_okC pre (w2 ++ w1 ++ wroot)).
      { apply wr_okC_app; [exact (wr_okC_weaken pre true w2 B4)|]. apply wr_okC_app; [exact (wr_okC_weaken pre false w1 A4)|exact Hwroot]. }
      assert (Hroot_c : forall b q, under (pre ++ [b]) q -> forall p c, In (WCache D V p c) wroot -> p <> q).
      { intros b q Hq p c Hin Heq. subst. unfold wroot in Hin. destruct isroot; [|destruct Hin]. destruct Hin as [Hin|Hin].
        - injection Hin as <- _. exact (not_under_self pre (S h') b Hq).
        - destruct (Nat.eqb (S h') (limit + 4)); [destruct Hin as [Hin|[]]; discriminate|destruct Hin]. }
      assert (Hroot_s : forall q p c, In (WStore D V p c) wroot -> p <> q).
      { intros q p c Hin. unfold wroot in Hin. destruct isroot; [|destruct Hin]. destruct Hin as [Hin|Hin]; [discriminate|].
        destruct (Nat.eqb (S h') (limit + 4)); [destruct Hin as [Hin|[]]; discriminate|destruct Hin]. }
      assert (Hsplit : forall x y c, x <> y -> is_prefix (pre ++ [x]) c = true -> is_prefix (pre ++ [y]) c = true -> False).
      { intros x y c Hxy C1 C2. exact (is_prefix_split pre x y c Hxy C1 C2). }
      assert (HvL : forall q, under (pre ++ [false]) q ->
                apC sC0 w1 q = apC sC0 (w2 ++ w1 ++ wroot) q /\ ap sA0 w1 q = ap sA0 (w2 ++ w1 ++ wroot) q).
      { intros q Hq. split.
        - rewrite !apC_app. rewrite (apC_frame wroot _ q (Hroot_c false q Hq)). apply apC_congr. symmetry. apply apC_frame.
          apply (okC_other_cache (pre ++ [true]) (pre ++ [false]) w2 q B4 Hq). intros c C1 C2. exact (Hsplit true false c ltac:(discriminate) C1 C2).
        - rewrite !ap_app. rewrite (ap_frame wroot _ q (Hroot_s q)). apply ap_congr. symmetry. apply ap_frame.
          apply (okC_other_store (pre ++ [true]) (pre ++ [false]) w2 q B4 Hq). intros c C1 C2. exact (Hsplit true false c ltac:(discriminate) C1 C2). }
      assert (HvR : forall q, under (pre ++ [true]) q ->
                apC sC0 w2 q = apC sC0 (w2 ++ w1 ++ wroot) q /\ ap sA0 w2 q = ap sA0 (w2 ++ w1 ++ wroot) q).
      { intros q Hq. split.
        - rewrite !apC_app. rewrite (apC_frame wroot _ q (Hroot_c true q Hq)). symmetry. apply apC_frame.
          apply (okC_other_cache (pre ++ [false]) (pre ++ [true]) w1 q A4 Hq). intros c C1 C2. exact (Hsplit false true c ltac:(discriminate) C1 C2).
        - rewrite !ap_app. rewrite (ap_frame wroot _ q (Hroot_s q)). symmetry. apply ap_frame.
          apply (okC_other_store (pre ++ [false]) (pre ++ [true]) w1 q A4 Hq). intros c C1 C2. exact (Hsplit false true c ltac:(discriminate) C1 C2). }
      repeat split; try assumption.
      - apply RepC_node; [exact Hmne|]. exists l1, r1. split; [unfold t3; rewrite Hd; reflexivity|]. split.
        + rewrite M0_mrg. apply (SlotC_ext (apC sC0 w1) _ (ap sA0 w1) _ h' _ l1 _); [intros q Hq; exact (proj1 (HvL q Hq))|intros q Hq; exact (proj2 (HvL q Hq))|exact A5].
        + rewrite M1_mrg. apply (SlotC_ext (apC sC0 w2) _ (ap sA0 w2) _ h' _ r1 _); [intros q Hq; exact (proj1 (HvR q Hq))|intros q Hq; exact (proj2 (HvR q Hq))|exact B5].
      - intros Hr. subst isroot. unfold wroot. rewrite !apC_app.
        destruct (Nat.eqb (S h') (limit + 4)); cbn; unfold upd_fun; rewrite (proj2 (hpos_eqb_eq _ _) eq_refl); reflexivity.
    Qed.

    Theorem walk_through_cache : forall h, limit < h -> nodeC_spec h.
    Proof.
      assert (Hall : forall h, limit < h -> nodeC_spec h).
      { induction h as [|h IH]; intros Hl; [lia|]. apply nodeC_of_child. apply childC_of_node. exact IH. }
      exact Hall.
    Qed.
  End WalkC.

  (* ---------------------------------------------------------------- one call on the tables *)
  Notation sC0f := (sC0).
  Definition RepState (st : hstate D V) (M : list (key * V)) : Prop :=
    RepC (sC0 st) (sA0 st) nbits [] (sC0 st ([], nbits)) M /\
    (forall q, complete 5 (sA0 st q)) /\ (forall q, complete 5 (sC0 st q)).

  Lemma tget_tset t : forall p b q, tget D V (tset D V t p b) q = if hpos_eqb q p then b else tget D V t q.
  Proof.
    induction t as [|[p0 c] t IH]; intros p b q; unfold tget in *.
    - cbn. destruct (hpos_eqb q p); reflexivity.
    - cbn [tset]. destruct (hpos_eqb p p0) eqn:Hp.
      + apply hpos_eqb_eq in Hp. subst p0. cbn [assoc]. destruct (hpos_eqb q p); reflexivity.
      + cbn [assoc]. destruct (hpos_eqb q p0) eqn:Hq.
        * destruct (hpos_eqb q p) eqn:Hqp; [|reflexivity]. apply hpos_eqb_eq in Hq. apply hpos_eqb_eq in Hqp.
          assert (Hpp : hpos_eqb p p0 = true) by (apply hpos_eqb_eq; congruence). congruence.
        * exact (IH p b q).
  Qed.

  Lemma store_after w : forall st q, sA0 (fold_left (apply_wr D V) w st) q = ap (sA0 st) w q.
  Proof.
    induction w as [|x w IH]; intros st q; [reflexivity|]. cbn [fold_left]. rewrite IH.
    change (ap (sA0 st) (x :: w) q) with (ap (ap1 (sA0 st) x) w q). apply ap_congr.
    destruct x as [p b|p b|p b]; cbn [apply_wr ap1]; unfold sA0; cbn [hs_store]; try reflexivity.
    unfold upd_fun. apply tget_tset.
  Qed.

  Lemma cache_after w : forall st q, sC0 (fold_left (apply_wr D V) w st) q = apC (sC0 st) w q.
  Proof.
    induction w as [|x w IH]; intros st q; [reflexivity|]. cbn [fold_left]. rewrite IH.
    change (apC (sC0 st) (x :: w) q) with (apC (apC1 (sC0 st) x) w q). apply apC_congr.
    destruct x as [p b|p b|p b]; cbn [apply_wr apC1]; unfold sC0; cbn [hs_cache]; try reflexivity.
    unfold upd_fun. apply tget_tset.
  Qed.

  Lemma ap_complete pre w : wr_okC pre w -> forall s, (forall q, complete 5 (s q)) -> forall q, complete 5 (ap s w q).
  Proof.
    induction w as [|x w IH]; intros Hw s Hs q; [exact (Hs q)|]. inversion Hw as [|? ? [_ Hx] Hw']; subst.
    change (ap s (x :: w) q) with (ap (ap1 s x) w q). apply (IH Hw').
    intros q'. destruct x as [p b|p b|p b]; cbn [ap1]; try exact (Hs q'). unfold upd_fun. destruct (hpos_eqb q' p); [exact Hx|exact (Hs q')].
  Qed.
  Lemma apC_complete pre w : wr_okC pre w -> forall s, (forall q, complete 5 (s q)) -> forall q, complete 5 (apC s w q).
  Proof.
    induction w as [|x w IH]; intros Hw s Hs q; [exact (Hs q)|]. inversion Hw as [|? ? [_ Hx] Hw']; subst.
    change (apC s (x :: w) q) with (apC (apC1 s x) w q). apply (IH Hw').
    intros q'. destruct x as [p b|p b|p b]; cbn [apC1]; try exact (Hs q'). unfold upd_fun. destruct (hpos_eqb q' p); [exact Hx|exact (Hs q')].
  Qed.

  Hypothesis limit_pos : 0 < limit.
  Hypothesis limit_lt : limit < nbits.

  (* HyperTree.Add / AddBulk on tables that represent the sparse tree of the map M: the root of the tree of the
     updated map is returned, and the tables represent that tree afterwards *)
  Theorem insert_refines st M L :
    RepState st M ->
    L <> [] -> keys_ok [] L -> NoDup (map fst L) -> keys_ok [] M -> NoDup (map fst M) ->
    exists d w, walk_insert D E V H limit nbits ds st L = Some (d, w) /\
      d = sh nbits [] (mrg M L) /\
      RepState (fold_left (apply_wr D V) w st) (mrg M L).
  Proof.
    intros (HR & Hwa & Hwc) Hne HkL HnL HkM HnM.
    unfold walk_insert. destruct L as [|x L']; [contradiction|].
    assert (Hb : Nat.ltb limit nbits = true) by (apply Nat.ltb_lt; exact limit_lt). rewrite Hb.
    rewrite (load_cache st [] nbits limit_lt).
    destruct (walk_through_cache st limit_pos Hwa Hwc nbits limit_lt [] (x :: L') (sC0 st ([], nbits)) true M
                ltac:(cbn; lia) limit_lt (fun _ => nbits4) ltac:(discriminate) (Hwc _) HR ltac:(discriminate) HkL HnL HkM HnM)
      as (d & t' & w & E1 & E2 & E3 & E4 & E5 & E6).
    rewrite E1. exists d, w. split; [reflexivity|]. split; [exact E2|].
    split; [|split].
    - rewrite (cache_after w st ([], nbits)), (E6 eq_refl).
      apply (RepC_ext nbits (apC (sC0 st) w) _ (ap (sA0 st) w) _ [] t' _); [| |exact E5].
      + intros q _. symmetry. apply cache_after.
      + intros q _. symmetry. apply store_after.
    - intros q. rewrite store_after. exact (ap_complete [] w E4 _ Hwa q).
    - intros q. rewrite cache_after. exact (apC_complete [] w E4 _ Hwc q).
  Qed.

  (* the empty tables represent the empty map *)
  Lemma all_none_complete_empty : all_none (empty_batch D V).
  Proof. apply all_none_bempty. Qed.

  Theorem init_represents : RepState (hinit D V) [].
  Proof.
    unfold RepState, sC0, sA0, tget. cbn [hinit hs_cache hs_store assoc]. split; [|split].
    - apply RepC_nil. split; [apply all_none_bempty|]. intros q _. split; apply all_none_bempty.
    - intros q. apply complete_bempty.
    - intros q. apply complete_bempty.
  Qed.
End HyperRefine.
