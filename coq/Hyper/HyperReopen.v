(* Re-opening the hyper tree (a new tree object on the same store: empty cache, recovery tiles loaded, the cache
   levels above them recomputed; balloon/hyper/rebuild.go) leaves tables that represent the same map. *)
From QV Require Import Base.Util Base.HashSig Hyper.HyperModel Hyper.HyperBatch Hyper.HyperRefine Balloon.BalloonProofs
  Hyper.HyperRefineSpec Hyper.HyperFind.
From Coq Require Import Permutation.

Local Open Scope nat_scope.

Section HyperReopen.
  Variables D E V : Type.
  Variable H : hin D E V -> D.
  Variable limit nbits : nat.
  Notation ds := (dlist D E V H nbits).
  Notation sh := (sh D E V H limit nbits).
  Notation bt := (bt D V).
  Notation RepC := (RepC D E V H limit nbits).
  Notation SlotC := (SlotC D E V H limit nbits).
  Notation RepA := (RepA D E V H limit nbits).
  Notation all_none := (all_none D V).
  Notation complete := (complete D V).
  Notation rslot := (rslot D V).
  Notation M0 := (M0 V). Notation M1 := (M1 V).
  Notation apC := (apC D V).
  Notation wr_okC := (wr_okC D V).

  Hypothesis limit4 : limit mod 4 = 0.
  Hypothesis nbits4 : nbits mod 4 = 0.

  (* the representation only consults the cache at batch roots between the limit and h, and (for empty parts) asks
     for empty batches *)
  Lemma RepC_mono h : forall sC sC' sA pre t M,
    (forall q, under pre q -> all_none (sC q) -> all_none (sC' q)) ->
    (forall q, under pre q -> limit < snd q -> snd q < h -> snd q mod 4 = 0 -> sC q = sC' q) ->
    RepC sC sA h pre t M -> RepC sC' sA h pre t M.
  Proof.
    induction h as [|h' IH]; intros sC sC' sA pre t M HN HE HR.
    - destruct M as [|x M']; [|exact HR]. cbn [HyperRefine.RepC] in *. destruct HR as [H1 H2]. split; [exact H1|].
      intros q Hq. split; [apply (HN q Hq)|]; apply (H2 q Hq).
    - destruct M as [|x M'].
      + apply RepC_nil in HR. apply RepC_nil. destruct HR as [H1 H2]. split; [exact H1|].
        intros q Hq. split; [apply (HN q Hq)|]; apply (H2 q Hq).
      + apply RepC_node in HR; [|discriminate]. apply RepC_node; [discriminate|].
        destruct HR as (l & r & -> & Hl & Hr). exists l, r. split; [reflexivity|].
        assert (Hsl : forall b ct M', SlotC sC sA h' (pre ++ [b]) ct M' -> SlotC sC' sA h' (pre ++ [b]) ct M').
        { intros b ct M'' Hs. unfold HyperRefine.SlotC in *.
          assert (HN' : forall q, under (pre ++ [b]) q -> all_none (sC q) -> all_none (sC' q)).
          { intros q Hq. apply HN. unfold under in *. apply (is_prefix_app pre [b]). exact Hq. }
          assert (HE' : forall q, under (pre ++ [b]) q -> limit < snd q -> snd q < h' -> snd q mod 4 = 0 -> sC q = sC' q).
          { intros q Hq A B C. apply HE; [unfold under in *; apply (is_prefix_app pre [b]); exact Hq|exact A|lia|exact C]. }
          destruct (Nat.eqb (h' mod 4) 0) eqn:Hb.
          - destruct M'' as [|y M3].
            + destruct Hs as [H1 H2]. split; [exact H1|]. intros q Hq. split; [apply (HN' q Hq)|]; apply (H2 q Hq).
            + destruct Hs as [H1 H2]. split; [exact H1|].
              assert (Hself : under (pre ++ [b]) (pre ++ [b], h')) by (unfold under; cbn; apply is_prefix_refl).
              destruct (Nat.ltb limit h') eqn:Hlt.
              * apply Nat.ltb_lt in Hlt. rewrite <- (HE (pre ++ [b], h')); [apply (IH sC sC' sA); assumption| |exact Hlt|cbn; lia|apply Nat.eqb_eq in Hb; exact Hb].
                unfold under in *. cbn [fst] in *. apply (is_prefix_app pre [b]). exact Hself.
              * exact H2.
          - apply (IH sC sC' sA); assumption. }
        split; apply Hsl; assumption.
  Qed.

  Lemma RepC_root_ne sC sA h pre t M : 0 < h -> M <> [] -> RepC sC sA h pre t M -> rslot t <> None.
  Proof.
    intros Hh Hne HR. destruct h as [|h']; [lia|]. apply RepC_node in HR; [|exact Hne]. destruct HR as (l & r & -> & _). discriminate.
  Qed.

  Lemma M_split_ne pre (M : list (key * V)) : M <> [] -> M0 pre M <> [] \/ M1 pre M <> [].
  Proof.
    destruct M as [|x M']; [contradiction|]. intros _. unfold HyperRefine.M0, HyperRefine.M1. cbn [filter].
    destruct (bit_at pre (fst x)); cbn [negb]; [right|left]; discriminate.
  Qed.

  (* a non-empty part of the map shows in a non-empty recovery-height batch *)
  Lemma tile_witness (sC sA : hpos -> bt) h : forall pre t M,
    limit + 4 < h -> RepC sC sA h pre t M -> M <> [] ->
    exists p, is_prefix pre p = true /\ length p + (limit + 4) = length pre + h /\ rslot (sC (p, limit + 4)) <> None.
  Proof.
    induction h as [|h' IH]; intros pre t M Hh HR Hne; [lia|].
    apply RepC_node in HR; [|exact Hne]. destruct HR as (l & r & _ & Hsl & Hsr).
    assert (Hslot : forall b ct M', M' <> [] -> SlotC sC sA h' (pre ++ [b]) ct M' ->
              exists p, is_prefix pre p = true /\ length p + (limit + 4) = length pre + S h' /\ rslot (sC (p, limit + 4)) <> None).
    { intros b ct M' Hne' Hs. unfold HyperRefine.SlotC in Hs.
      assert (Hlenb : length (pre ++ [b]) = S (length pre)) by (rewrite app_length; cbn; lia).
      destruct (Nat.eqb (h' mod 4) 0) eqn:Hb.
      - destruct M' as [|y M3]; [contradiction|]. destruct Hs as [_ Hs].
        assert (Hlt : Nat.ltb limit h' = true) by (apply Nat.ltb_lt; lia). rewrite Hlt in Hs.
        destruct (Nat.eq_dec h' (limit + 4)) as [He|Hn].
        + subst h'. replace (limit + 4) with (S (limit + 3)) in Hs at 1 by lia.
          exists (pre ++ [b]). split; [apply is_prefix_app_r|]. split; [lia|].
          replace (limit + 4) with (S (limit + 3)) in Hs by lia. apply RepC_node in Hs; [|discriminate].
          destruct Hs as (l' & r' & Ht & _). replace (S (limit + 3)) with (limit + 4) in Ht by lia. rewrite Ht. discriminate.
        + destruct (IH (pre ++ [b]) _ _ ltac:(lia) Hs ltac:(discriminate)) as (p & P1 & P2 & P3).
          exists p. split; [exact (is_prefix_app pre [b] p P1)|]. split; [lia|exact P3].
      - apply Nat.eqb_neq in Hb.
        assert (Hn : h' <> limit + 4).
        { intros ->. apply Hb. rewrite <- Nat.add_mod_idemp_l by lia. rewrite limit4. reflexivity. }
        destruct (IH (pre ++ [b]) ct M' ltac:(lia) Hs Hne') as (p & P1 & P2 & P3).
        exists p. split; [exact (is_prefix_app pre [b] p P1)|]. split; [lia|exact P3]. }
    destruct (M_split_ne pre M Hne) as [H0|H1]; [exact (Hslot false l _ H0 Hsl)|exact (Hslot true r _ H1 Hsr)].
  Qed.

  Lemma between4 x : limit < x -> x < limit + 4 -> x mod 4 = 0 -> False.
  Proof.
    intros A B C. assert (Hx : x = limit + 1 \/ x = limit + 2 \/ x = limit + 3) by lia.
    destruct Hx as [ -> | [ -> | -> ] ]; rewrite <- Nat.add_mod_idemp_l in C by lia; rewrite limit4 in C; discriminate.
  Qed.

  (* ---------------------------------------------------------------- the rebuild walk *)
  Section Rebuild.
    Variable st : hstate D V.                     (* the tables before the tree object is dropped *)
    Hypothesis lim_pos : 0 < limit.
    Definition s0 : hstate D V := {| hs_cache := hs_tiles D V st; hs_tiles := hs_tiles D V st; hs_store := hs_store D V st |}.
    Notation sT := (sC0 D V s0).
    Notation sC0 := (sC0 D V st).
    Notation sA0 := (sA0 D V st).
    Notation rebuildW := (rebuild D E V H limit nbits ds s0).
    Notation rchildW := (rchildf D E V H limit nbits ds s0).

    Variable idx0 : list (list bool).
    Hypothesis tiles_only : forall q, snd q <> limit + 4 -> sT q = empty_batch D V.
    Hypothesis tiles_cache : forall pre, sT (pre, limit + 4) = sC0 (pre, limit + 4).
    Hypothesis idx_len : forall p, In p idx0 -> length p + (limit + 4) = nbits.
    Hypothesis idx_ne : forall p, In p idx0 -> rslot (sT (p, limit + 4)) <> None.
    Hypothesis idx_all : forall p, rslot (sT (p, limit + 4)) <> None -> In p idx0.

    Lemma sT_none q : all_none (sC0 q) -> all_none (sT q).
    Proof.
      intros Hn. destruct q as [p hq]. destruct (Nat.eq_dec hq (limit + 4)) as [->|Hne].
      - rewrite tiles_cache. exact Hn.
      - rewrite (tiles_only (p, hq) Hne). apply all_none_bempty.
    Qed.

    (* cache writes of the rebuild: above the recovery height, below the prefix *)
    Definition wr_okR (pre : list bool) (w : list (wr D V)) : Prop :=
      Forall (fun x => match x with WCache _ _ p b => under pre p /\ complete 5 b /\ limit + 4 < snd p | _ => False end) w.
    Lemma wr_okR_okC pre w : wr_okR pre w -> wr_okC pre w.
    Proof.
      unfold wr_okR, HyperRefine.wr_okC. rewrite !Forall_forall. intros Hw x Hx. specialize (Hw x Hx).
      destruct x as [p b|p b|p b]; try contradiction. cbn. tauto.
    Qed.
    Lemma wr_okR_app pre w1 w2 : wr_okR pre w1 -> wr_okR pre w2 -> wr_okR pre (w1 ++ w2).
    Proof. intros. apply Forall_app. split; assumption. Qed.
    Lemma wr_okR_weaken pre b w : wr_okR (pre ++ [b]) w -> wr_okR pre w.
    Proof.
      unfold wr_okR. rewrite !Forall_forall. intros Hw x Hx. specialize (Hw x Hx). destruct x as [p c|p c|p c]; try contradiction.
      destruct Hw as (H1 & H2 & H3). split; [|split; assumption]. unfold under in *. apply (is_prefix_app pre [b]). exact H1.
    Qed.

    Definition idx_ok (pre : list bool) (idx : list (list bool)) : Prop :=
      forall p, In p idx <-> In p idx0 /\ is_prefix pre p = true.

    Lemma is_prefix_bit pre b : forall p, is_prefix (pre ++ [b]) p = true -> nth (length pre) p false = b.
    Proof.
      induction pre as [|x pre IH]; intros p Hp.
      - destruct p as [|y p]; [discriminate|]. cbn in *. rewrite andb_true_r in Hp. apply eqb_prop in Hp. subst. reflexivity.
      - destruct p as [|y p]; [discriminate|]. cbn in *. apply andb_true_iff in Hp. apply IH. exact (proj2 Hp).
    Qed.

    Lemma idx_ok_child pre idx b : length pre + (limit + 4) < nbits -> idx_ok pre idx ->
      idx_ok (pre ++ [b]) (filter (fun k => Bool.eqb (nth (length pre) k false) b) idx).
    Proof.
      intros Hl Hok p. rewrite filter_In, (Hok p). split.
      - intros [[A B] C]. split; [exact A|]. apply eqb_prop in C. rewrite <- C. apply is_prefix_snoc; [exact B|].
        pose proof (idx_len p A). lia.
      - intros [A B]. split; [split; [exact A|exact (is_prefix_app pre [b] p B)]|]. rewrite (is_prefix_bit pre b p B). destruct b; reflexivity.
    Qed.

    Definition rebuild_spec (h : nat) : Prop :=
      forall pre idx t torig isroot M,
        h + length pre = nbits -> limit + 4 < h ->
        (isroot = true -> h mod 4 = 0) -> (isroot = false -> h mod 4 <> 0) ->
        complete (if isroot then 5 else lv h) t -> all_none t ->
        RepC sC0 sA0 h pre torig M -> idx_ok pre idx -> idx <> [] ->
        exists t' w, rebuildW h pre idx t isroot = Some (sh h pre M, t', w) /\
          complete (if isroot then 5 else lv h) t' /\
          wr_okR pre w /\
          RepC (apC sT w) sA0 h pre t' M /\
          (isroot = true -> apC sT w (pre, h) = t').

    Definition rchild_spec (h' : nat) : Prop :=
      forall pre' ix ct ctorig M',
        h' + length pre' = nbits -> limit + 4 <= h' ->
        complete (lv h') ct -> all_none ct ->
        SlotC sC0 sA0 h' pre' ctorig M' -> idx_ok pre' ix ->
        exists ct' w, rchildW (rebuildW h') h' pre' ix ct = Some (sh h' pre' M', ct', w) /\
          complete (lv h') ct' /\
          wr_okR pre' w /\
          SlotC (apC sT w) sA0 h' pre' ct' M'.

    (* what an original slot says about the part of the map below it *)
    Lemma slot_empty_facts h' pre' ctorig :
      SlotC sC0 sA0 h' pre' ctorig [] -> forall q, under pre' q -> all_none (sC0 q) /\ all_none (sA0 q).
    Proof.
      intros Hs. unfold HyperRefine.SlotC in Hs. destruct (Nat.eqb (h' mod 4) 0); [exact (proj2 Hs)|].
      apply RepC_nil in Hs. exact (proj2 Hs).
    Qed.

    Lemma slot_witness h' pre' ctorig M' : h' + length pre' = nbits -> limit + 4 <= h' ->
      SlotC sC0 sA0 h' pre' ctorig M' -> M' <> [] ->
      exists p, is_prefix pre' p = true /\ In p idx0.
    Proof.
      intros Hlen Hh Hs Hne. unfold HyperRefine.SlotC in Hs.
      assert (Hmain : forall t, limit + 4 < h' -> RepC sC0 sA0 h' pre' t M' -> exists p, is_prefix pre' p = true /\ In p idx0).
      { intros t Hlt HR. destruct (tile_witness sC0 sA0 h' pre' t M' Hlt HR Hne) as (p & P1 & P2 & P3).
        exists p. split; [exact P1|]. apply idx_all. rewrite tiles_cache. exact P3. }
      destruct (Nat.eqb (h' mod 4) 0) eqn:Hb.
      - destruct M' as [|y M3]; [contradiction|]. destruct Hs as [_ Hs].
        assert (Hlt : Nat.ltb limit h' = true) by (apply Nat.ltb_lt; lia). rewrite Hlt in Hs.
        destruct (Nat.eq_dec h' (limit + 4)) as [He|Hn]; [|apply (Hmain _ ltac:(lia) Hs)].
        subst h'. exists pre'. split; [apply is_prefix_refl|]. apply idx_all. rewrite tiles_cache.
        replace (limit + 4) with (S (limit + 3)) in Hs by lia. apply RepC_node in Hs; [|discriminate].
        destruct Hs as (l' & r' & Ht & _). replace (S (limit + 3)) with (limit + 4) in Ht by lia. rewrite Ht. discriminate.
      - apply Nat.eqb_neq in Hb.
        assert (Hn : h' <> limit + 4).
        { intros ->. apply Hb. rewrite <- Nat.add_mod_idemp_l by lia. rewrite limit4. reflexivity. }
        apply (Hmain ctorig ltac:(lia) Hs).
    Qed.

    Lemma idx_empty_map h' pre' ix ctorig M' : h' + length pre' = nbits -> limit + 4 <= h' ->
      SlotC sC0 sA0 h' pre' ctorig M' -> idx_ok pre' ix -> ix = [] -> M' = [].
    Proof.
      intros Hlen Hh Hs Hok ->. destruct M' as [|y M3]; [reflexivity|]. exfalso.
      destruct (slot_witness h' pre' ctorig (y :: M3) Hlen Hh Hs ltac:(discriminate)) as (p & P1 & P2).
      exact (proj2 (Hok p) (conj P2 P1)).
    Qed.

    Lemma idx_nonempty_map h' pre' ix ctorig M' :
      SlotC sC0 sA0 h' pre' ctorig M' -> idx_ok pre' ix -> ix <> [] -> M' <> [].
    Proof.
      intros Hs Hok Hne ->. destruct ix as [|p ix']; [contradiction|].
      destruct (proj1 (Hok p) (or_introl eq_refl)) as [A B].
      pose proof (slot_empty_facts h' pre' ctorig Hs (p, limit + 4) B) as [Hn _].
      apply (idx_ne p A). rewrite tiles_cache. apply all_none_rslot. exact Hn.
    Qed.

    Lemma load_s0 pre' h' : limit < h' -> load D V limit s0 (pre', h') = sT (pre', h').
    Proof. intros Hl. apply (load_cache D V limit s0 pre' h' Hl). Qed.

    Lemma rchild_of_rebuild h' : (limit + 4 < h' -> rebuild_spec h') -> rchild_spec h'.
    Proof.
      intros Hnode pre' ix ct ctorig M' Hlen Hlim Hc Hn Hs Hok.
      assert (Hc' : complete (S (h' mod 4)) ct) by (unfold lv in Hc; rewrite Nat.add_1_r in Hc; exact Hc).
      destruct ix as [|p0 ix'].
      { pose proof (idx_empty_map h' pre' [] ctorig M' Hlen Hlim Hs Hok eq_refl) as ->.
        unfold rchildf, discard. rewrite (all_none_rslot D V ct Hn), sh_nil. cbn [option_map].
        exists ct, []. split; [reflexivity|]. split; [exact Hc|]. split; [constructor|].
        pose proof (slot_empty_facts h' pre' ctorig Hs) as Hf.
        assert (Hf' : forall q, under pre' q -> all_none (sT q) /\ all_none (sA0 q)).
        { intros q Hq. destruct (Hf q Hq) as [A B]. split; [apply sT_none; exact A|exact B]. }
        unfold HyperRefine.SlotC. cbn [HyperRefine.apC fold_left]. destruct (Nat.eqb (h' mod 4) 0); [split; assumption|].
        apply RepC_nil. split; assumption. }
      assert (Hne : M' <> []) by (apply (idx_nonempty_map h' pre' (p0 :: ix') ctorig M' Hs Hok); discriminate).
      unfold rchildf.
      destruct (Nat.eqb (h' mod 4) 0) eqn:Hb.
      - apply Nat.eqb_eq in Hb.
        assert (HR : RepC sC0 sA0 h' pre' (sC0 (pre', h')) M').
        { unfold HyperRefine.SlotC in Hs. rewrite Hb in Hs. cbn [Nat.eqb] in Hs. destruct M' as [|y M3]; [contradiction|].
          destruct Hs as [_ Hs]. assert (Hb2 : Nat.ltb limit h' = true) by (apply Nat.ltb_lt; lia). rewrite Hb2 in Hs. exact Hs. }
        rewrite (load_s0 pre' h' ltac:(lia)).
        destruct (Nat.eqb h' (limit + 4)) eqn:He.
        + apply Nat.eqb_eq in He.
          assert (Hroot : rslot (sC0 (pre', h')) = Some (SHash D V (sh h' pre' M'))).
          { destruct h' as [|h'']; [lia|]. apply RepC_node in HR; [|exact Hne]. destruct HR as (l' & r' & -> & _). reflexivity. }
          assert (HsT : sT (pre', h') = sC0 (pre', h')) by (rewrite He; apply tiles_cache).
          rewrite HsT. unfold discard. rewrite Hroot.
          exists (set_root D V ct (Some (SHash D V (sh h' pre' M')))), []. split; [reflexivity|].
          split; [apply complete_set_root; exact Hc|]. split; [constructor|].
          unfold HyperRefine.SlotC. rewrite Hb. cbn [Nat.eqb]. destruct M' as [|y M3]; [contradiction|].
          split; [rewrite (rslot_set_root D V ct _ (h' mod 4) Hc'); reflexivity|].
          assert (Hb2 : Nat.ltb limit h' = true) by (apply Nat.ltb_lt; lia). rewrite Hb2.
          cbn [HyperRefine.apC fold_left]. rewrite HsT.
          apply (RepC_mono h' sC0 sT sA0 pre' _ _); [intros q _; apply sT_none| |exact HR].
          intros q _ A B C. exfalso. apply (between4 (snd q)); [exact A|lia|exact C].
        + apply Nat.eqb_neq in He. assert (Hlt : limit + 4 < h') by lia.
          rewrite (tiles_only (pre', h') He).
          destruct (Hnode Hlt pre' (p0 :: ix') (empty_batch D V) (sC0 (pre', h')) true M' Hlen Hlt (fun _ => Hb) ltac:(discriminate)
                      (complete_bempty D V 5) (all_none_bempty D V 5) HR Hok ltac:(discriminate)) as (t' & w & E1 & E2 & E3 & E4 & E5).
          rewrite E1. exists (set_root D V ct (Some (SHash D V (sh h' pre' M')))), w. split; [reflexivity|].
          split; [apply complete_set_root; exact Hc|]. split; [exact E3|].
          unfold HyperRefine.SlotC. rewrite Hb. cbn [Nat.eqb]. destruct M' as [|y M3]; [contradiction|].
          split; [rewrite (rslot_set_root D V ct _ (h' mod 4) Hc'); reflexivity|].
          assert (Hb2 : Nat.ltb limit h' = true) by (apply Nat.ltb_lt; lia). rewrite Hb2. rewrite (E5 eq_refl). exact E4.
      - apply Nat.eqb_neq in Hb.
        assert (Hn4 : h' <> limit + 4).
        { intros ->. apply Hb. rewrite <- Nat.add_mod_idemp_l by lia. rewrite limit4. reflexivity. }
        assert (Hlt : limit + 4 < h') by lia.
        assert (HR : RepC sC0 sA0 h' pre' ctorig M').
        { unfold HyperRefine.SlotC in Hs. destruct (Nat.eqb (h' mod 4) 0) eqn:Hb'; [apply Nat.eqb_eq in Hb'; contradiction|exact Hs]. }
        destruct (Hnode Hlt pre' (p0 :: ix') ct ctorig false M' Hlen Hlt ltac:(discriminate) (fun _ => Hb) Hc Hn HR Hok ltac:(discriminate))
          as (t' & w & E1 & E2 & E3 & E4 & _).
        exists t', w. split; [exact E1|]. split; [exact E2|]. split; [exact E3|].
        unfold HyperRefine.SlotC. destruct (Nat.eqb (h' mod 4) 0) eqn:Hb'; [apply Nat.eqb_eq in Hb'; contradiction|exact E4].
    Qed.

    Lemma rebuild_S h' pre idx s l r isroot :
      rebuildW (S h') pre idx (BNode D V s l r) isroot =
        match rchildW (rebuildW h') h' (pre ++ [false]) (filter (fun k => negb (nth (length pre) k false)) idx) l with
        | None => None
        | Some (dl, l1, w1) =>
            match rchildW (rebuildW h') h' (pre ++ [true]) (filter (fun k => nth (length pre) k false) idx) r with
            | None => None
            | Some (dr, r1, w2) =>
                Some (H (YNode dr dl (pre, S h')), BNode D V (Some (SHash D V (H (YNode dr dl (pre, S h'))))) l1 r1,
                      w2 ++ w1 ++ (if isroot then [WCache D V (pre, S h') (BNode D V (Some (SHash D V (H (YNode dr dl (pre, S h'))))) l1 r1)] else []))
            end
        end.
    Proof. reflexivity. Qed.

    Lemma rebuild_of_child h' : rchild_spec h' -> rebuild_spec (S h').
    Proof.
      intros Hch pre idx t torig isroot M Hlen Hlim Hr1 Hr2 Hc Hn HR Hok Hine.
      destruct t as [|s l r]; [destruct isroot; cbn in Hc; try contradiction; unfold lv in Hc; rewrite Nat.add_1_r in Hc; contradiction|].
      destruct (complete_children D V limit nbits limit4 nbits4 isroot h' s l r Hr1 Hr2 Hc) as [Hcl Hcr].
      destruct Hn as (_ & Hnl & Hnr).
      assert (Hne : M <> []).
      { intros ->. destruct idx as [|p idx']; [contradiction|]. destruct (proj1 (Hok p) (or_introl eq_refl)) as [A B].
        apply RepC_nil in HR. destruct HR as [_ HR]. destruct (HR (p, limit + 4) B) as [Hx _].
        apply (idx_ne p A). rewrite tiles_cache. apply all_none_rslot. exact Hx. }
      apply RepC_node in HR; [|exact Hne]. destruct HR as (lo & ro & _ & Hsl & Hsr).
      assert (Hpl : length pre + (limit + 4) < nbits) by lia.
      assert (Hlen' : forall b, h' + length (pre ++ [b]) = nbits) by (intros b; rewrite app_length; cbn; lia).
      assert (Hil : filter (fun k => negb (nth (length pre) k false)) idx = filter (fun k => Bool.eqb (nth (length pre) k false) false) idx).
      { apply filter_ext. intros k. destruct (nth (length pre) k false); reflexivity. }
      assert (Hir : filter (fun k => nth (length pre) k false) idx = filter (fun k => Bool.eqb (nth (length pre) k false) true) idx).
      { apply filter_ext. intros k. destruct (nth (length pre) k false); reflexivity. }
      rewrite rebuild_S, Hil, Hir.
      destruct (Hch (pre ++ [false]) _ l lo (M0 pre M) (Hlen' false) ltac:(lia) Hcl Hnl Hsl (idx_ok_child pre idx false Hpl Hok))
        as (l1 & w1 & A1 & A3 & A4 & A5).
      destruct (Hch (pre ++ [true]) _ r ro (M1 pre M) (Hlen' true) ltac:(lia) Hcr Hnr Hsr (idx_ok_child pre idx true Hpl Hok))
        as (r1 & w2 & B1 & B3 & B4 & B5).
      rewrite A1, B1.
      assert (Hd : H (YNode (sh h' (pre ++ [true]) (M1 pre M)) (sh h' (pre ++ [false]) (M0 pre M)) (pre, S h')) = sh (S h') pre M).
      { symmetry. apply sh_node. right. split; [exact Hne|lia]. }
      rewrite Hd.
      set (t3 := BNode D V (Some (SHash D V (sh (S h') pre M))) l1 r1).
      set (wroot := if isroot then [WCache D V (pre, S h') t3] else []).
      exists t3, (w2 ++ w1 ++ wroot). split; [reflexivity|].
      assert (Hct : complete (if isroot then 5 else lv (S h')) t3).
      { destruct isroot.
        - pose proof (lv_child_root limit nbits limit4 nbits4 h' (Hr1 eq_refl)) as E4. rewrite E4 in A3, B3. unfold t3. cbn [HyperRefine.complete]. split; assumption.
        - rewrite (lv_child_inner limit nbits limit4 nbits4 h' (Hr2 eq_refl)). unfold t3. cbn [HyperRefine.complete]. split; assumption. }
      assert (Hu : under pre (pre, S h')) by (unfold under; cbn; apply is_prefix_refl).
      assert (Hwroot : wr_okR pre wroot).
      { unfold wroot. destruct isroot; [|constructor]. constructor; [|constructor]. split; [exact Hu|]. split; [exact Hct|cbn; lia]. }
      assert (Hw : wr_okR pre (w2 ++ w1 ++ wroot)).
      { apply wr_okR_app; [exact (wr_okR_weaken pre true w2 B4)|]. apply wr_okR_app; [exact (wr_okR_weaken pre false w1 A4)|exact Hwroot]. }
      assert (Hroot_c : forall b q, under (pre ++ [b]) q -> forall p c, In (WCache D V p c) wroot -> p <> q).
      { intros b q Hq p c Hin Heq. subst. unfold wroot in Hin. destruct isroot; [|destruct Hin]. destruct Hin as [Hin|[]].
        injection Hin as <- _. exact (not_under_self pre (S h') b Hq). }
      assert (Hsplit : forall x y c, x <> y -> is_prefix (pre ++ [x]) c = true -> is_prefix (pre ++ [y]) c = true -> False).
      { intros x y c Hxy C1 C2. exact (is_prefix_split pre x y c Hxy C1 C2). }
      assert (HvL : forall q, under (pre ++ [false]) q -> apC sT w1 q = apC sT (w2 ++ w1 ++ wroot) q).
      { intros q Hq. rewrite !apC_app. rewrite (apC_frame D V wroot _ q (Hroot_c false q Hq)). apply apC_congr. symmetry. apply apC_frame.
        apply (okC_other_cache D V (pre ++ [true]) (pre ++ [false]) w2 q (wr_okR_okC _ _ B4) Hq). intros c C1 C2. exact (Hsplit true false c ltac:(discriminate) C1 C2). }
      assert (HvR : forall q, under (pre ++ [true]) q -> apC sT w2 q = apC sT (w2 ++ w1 ++ wroot) q).
      { intros q Hq. rewrite !apC_app. rewrite (apC_frame D V wroot _ q (Hroot_c true q Hq)). symmetry. apply apC_frame.
        apply (okC_other_cache D V (pre ++ [false]) (pre ++ [true]) w1 q (wr_okR_okC _ _ A4) Hq). intros c C1 C2. exact (Hsplit false true c ltac:(discriminate) C1 C2). }
      split; [exact Hct|]. split; [exact Hw|]. split.
      - apply RepC_node; [exact Hne|]. exists l1, r1. split; [reflexivity|]. split.
        + apply (SlotC_ext D E V H limit nbits (apC sT w1) _ sA0 _ h' _ l1 _); [exact HvL|intros q _; reflexivity|exact A5].
        + apply (SlotC_ext D E V H limit nbits (apC sT w2) _ sA0 _ h' _ r1 _); [exact HvR|intros q _; reflexivity|exact B5].
      - intros Hr. subst isroot. unfold wroot. rewrite !apC_app. cbn. unfold upd_fun. rewrite (proj2 (hpos_eqb_eq _ _) eq_refl). reflexivity.
    Qed.

    Theorem rebuild_correct : forall h, limit + 4 < h -> rebuild_spec h.
    Proof.
      assert (Hall : forall h, limit + 4 < h -> rebuild_spec h).
      { induction h as [|h IH]; intros Hl; [lia|]. apply rebuild_of_child. apply rchild_of_rebuild. exact IH. }
      exact Hall.
    Qed.
  End Rebuild.

  (* ---------------------------------------------------------------- the recovery tiles *)
  Definition tile_entry_ok (pb : hpos * bt) : Prop :=
    snd (fst pb) = limit + 4 /\ length (fst (fst pb)) + (limit + 4) = nbits /\ rslot (snd pb) <> None.
  (* the tiles table holds exactly the non-empty cached batches at the recovery height *)
  Definition TInv (st : hstate D V) : Prop :=
    (forall pre, tget D V (hs_tiles D V st) (pre, limit + 4) = tget D V (hs_cache D V st) (pre, limit + 4)) /\
    Forall tile_entry_ok (hs_tiles D V st).

  Lemma assoc_some_in (l : list (hpos * bt)) : forall q b, assoc hpos_eqb q l = Some b -> In (q, b) l.
  Proof.
    induction l as [|[k c] l IH]; intros q b Ha; [discriminate|]. cbn [assoc] in Ha.
    destruct (hpos_eqb q k) eqn:He.
    - apply hpos_eqb_eq in He. subst. injection Ha as ->. left. reflexivity.
    - right. apply IH. exact Ha.
  Qed.
  Lemma assoc_in_some (l : list (hpos * bt)) : forall q b, In (q, b) l -> exists b', assoc hpos_eqb q l = Some b'.
  Proof.
    induction l as [|[k c] l IH]; intros q b Hin; [destruct Hin|]. cbn [assoc].
    destruct (hpos_eqb q k) eqn:He; [exists c; reflexivity|].
    destruct Hin as [Hin|Hin]; [injection Hin as -> ->; rewrite (proj2 (hpos_eqb_eq q q) eq_refl) in He; discriminate|].
    exact (IH q b Hin).
  Qed.

  Lemma rslot_empty : rslot (empty_batch D V) = None.
  Proof. reflexivity. Qed.

  Section TileFacts.
    Variable st : hstate D V.
    Hypothesis Htiles : Forall tile_entry_ok (hs_tiles D V st).
    Notation tiles := (hs_tiles D V st).
    Definition idx_of : list (list bool) := map (fun pb : hpos * bt => fst (fst pb)) tiles.

    Lemma tf_only q : snd q <> limit + 4 -> tget D V tiles q = empty_batch D V.
    Proof.
      intros Hne. unfold tget. destruct (assoc hpos_eqb q tiles) as [b|] eqn:Ha; [|reflexivity].
      apply assoc_some_in in Ha. rewrite Forall_forall in Htiles. destruct (Htiles _ Ha) as [A _]. cbn in A. contradiction.
    Qed.
    Lemma tf_len p : In p idx_of -> length p + (limit + 4) = nbits.
    Proof.
      intros Hin. apply in_map_iff in Hin. destruct Hin as (pb & <- & Hin). rewrite Forall_forall in Htiles.
      exact (proj1 (proj2 (Htiles pb Hin))).
    Qed.
    Lemma tf_ne p : In p idx_of -> rslot (tget D V tiles (p, limit + 4)) <> None.
    Proof.
      intros Hin. apply in_map_iff in Hin. destruct Hin as ([[p' h'] b] & <- & Hin). rewrite Forall_forall in Htiles.
      pose proof (Htiles _ Hin) as (A & _ & _). cbn in A. subst h'. cbn [fst].
      destruct (assoc_in_some tiles (p', limit + 4) b Hin) as (b' & Hb'). unfold tget. rewrite Hb'.
      apply assoc_some_in in Hb'. exact (proj2 (proj2 (Htiles _ Hb'))).
    Qed.
    Lemma tf_all p : rslot (tget D V tiles (p, limit + 4)) <> None -> In p idx_of.
    Proof.
      unfold tget. destruct (assoc hpos_eqb (p, limit + 4) tiles) as [b|] eqn:Ha; [|intros Hc; exfalso; apply Hc; reflexivity].
      intros _. apply assoc_some_in in Ha. apply in_map_iff. exists ((p, limit + 4), b). split; [reflexivity|exact Ha].
    Qed.
  End TileFacts.

  Hypothesis limit_pos : 0 < limit.
  Hypothesis limit_lt : limit < nbits.

  Lemma limit4_le : limit + 4 <= nbits.
  Proof.
    destruct (Nat.le_gt_cases (limit + 4) nbits) as [Hl|Hg]; [exact Hl|]. exfalso.
    assert (Hx : nbits = limit + 1 \/ nbits = limit + 2 \/ nbits = limit + 3) by lia.
    pose proof nbits4 as C.
    destruct Hx as [ -> | [ -> | -> ] ]; rewrite <- Nat.add_mod_idemp_l in C by lia; rewrite limit4 in C; discriminate.
  Qed.

  Lemma tiles_after_cache_writes w : forall s, Forall (fun x => match x with WCache _ _ _ _ => True | _ => False end) w ->
    hs_tiles D V (fold_left (apply_wr D V) w s) = hs_tiles D V s /\ hs_store D V (fold_left (apply_wr D V) w s) = hs_store D V s.
  Proof.
    induction w as [|x w IH]; intros s Hw; [split; reflexivity|]. inversion Hw as [|? ? Hx Hw']; subst.
    cbn [fold_left]. destruct (IH (apply_wr D V s x) Hw') as [A B]. rewrite A, B. destruct x; try contradiction. split; reflexivity.
  Qed.

  Definition tiles_empty (st : hstate D V) : bool := match hs_tiles D V st with [] => true | _ => false end.
  Lemma hb_reopen_eq st :
    hb_reopen D E V H limit nbits ds st =
      if tiles_empty st then Some {| hs_cache := []; hs_tiles := []; hs_store := hs_store D V st |}
      else if Nat.eqb nbits (limit + 4) then Some (s0 st)
      else match rebuild D E V H limit nbits ds (s0 st) nbits [] (idx_of st) (load D V limit (s0 st) ([], nbits)) true with
           | Some (_, _, w) => Some (fold_left (apply_wr D V) w (s0 st))
           | None => None
           end.
  Proof. unfold hb_reopen, tiles_empty, s0, idx_of. destruct (hs_tiles D V st); reflexivity. Qed.

  (* HyperTree re-created on the same store *)
  Theorem reopen_refines st M :
    RepState D E V H limit nbits st M -> TInv st ->
    exists st', hb_reopen D E V H limit nbits ds st = Some st' /\ RepState D E V H limit nbits st' M /\ TInv st'.
  Proof.
    intros (HR & Hwa & Hwc) [T1 T2].
    pose proof limit4_le as Hle.
    set (z := s0 st).
    assert (HsT : forall q, sC0 D V z q = tget D V (hs_tiles D V st) q) by reflexivity.
    assert (F1 : forall q, snd q <> limit + 4 -> sC0 D V z q = empty_batch D V) by (intros q Hq; rewrite HsT; apply (tf_only st T2 q Hq)).
    assert (F2 : forall pre, sC0 D V z (pre, limit + 4) = sC0 D V st (pre, limit + 4)) by (intros pre; rewrite HsT; apply T1).
    assert (F3 := tf_len st T2).
    assert (F4 : forall p, In p (idx_of st) -> rslot (sC0 D V z (p, limit + 4)) <> None) by (intros p Hp; rewrite HsT; apply (tf_ne st T2 p Hp)).
    assert (F5 : forall p, rslot (sC0 D V z (p, limit + 4)) <> None -> In p (idx_of st)) by (intros p Hp; rewrite HsT in Hp; apply (tf_all st p Hp)).
    assert (Hzc : forall q, complete 5 (sC0 D V z q)).
    { intros [p hq]. destruct (Nat.eq_dec hq (limit + 4)) as [->|Hne]; [rewrite F2; apply Hwc|rewrite (F1 (p, hq) Hne); apply complete_bempty]. }
    assert (HzT : hs_tiles D V z = hs_tiles D V st) by reflexivity.
    rewrite hb_reopen_eq. fold z. destruct (tiles_empty st) eqn:Hemp.
    - (* nothing was ever inserted *)
      assert (Htl : hs_tiles D V st = []) by (unfold tiles_empty in Hemp; destruct (hs_tiles D V st); [reflexivity|discriminate]).
      assert (HM : M = []).
      { destruct M as [|x M']; [reflexivity|]. exfalso.
        assert (Hw : exists p, rslot (sC0 D V st (p, limit + 4)) <> None).
        { destruct (Nat.eq_dec nbits (limit + 4)) as [He|Hn].
          - exists []. rewrite <- He. apply (RepC_root_ne _ _ nbits [] _ (x :: M') ltac:(lia) ltac:(discriminate) HR).
          - destruct (tile_witness (sC0 D V st) (sA0 D V st) nbits [] _ (x :: M') ltac:(lia) HR ltac:(discriminate)) as (p & _ & _ & P3).
            exists p. exact P3. }
        destruct Hw as (p & Hp). apply Hp. unfold HyperRefine.sC0. rewrite <- T1, Htl. reflexivity. }
      subst M. apply RepC_nil in HR. destruct HR as [_ HR].
      eexists. split; [reflexivity|]. split; [split; [|split]|split].
      + apply RepC_nil. split; [apply all_none_bempty|]. intros q Hq. split; [apply all_none_bempty|]. exact (proj2 (HR q Hq)).
      + exact Hwa.
      + intros q. apply complete_bempty.
      + intros pre. reflexivity.
      + constructor.
    - assert (Hne : idx_of st <> []).
      { unfold tiles_empty in Hemp. unfold idx_of. destruct (hs_tiles D V st); [discriminate|]. discriminate. }
      destruct (Nat.eqb nbits (limit + 4)) eqn:He.
      + (* one cache level: the tile is the root batch *)
        apply Nat.eqb_eq in He. exists z. split; [reflexivity|].
        split; [split; [|split]|split].
        * replace (sC0 D V z ([], nbits)) with (sC0 D V st ([], nbits)) by (rewrite He; symmetry; apply F2).
          apply (RepC_mono nbits (sC0 D V st) (sC0 D V z) (sA0 D V st) [] _ M); [intros q _; apply (sT_none st F1 F2)| |exact HR].
          intros q _ A B C. exfalso. apply (between4 (snd q)); [exact A|lia|exact C].
        * exact Hwa.
        * exact Hzc.
        * intros pre. reflexivity.
        * exact T2.
      + apply Nat.eqb_neq in He. assert (Hlt : limit + 4 < nbits) by lia.
        pose proof (load_s0 st [] nbits limit_lt) as Hld. fold z in Hld. rewrite Hld, (F1 ([], nbits) He).
        assert (Hok : idx_ok (idx_of st) [] (idx_of st)) by (intros p; cbn; tauto).
        destruct (rebuild_correct st limit_pos (idx_of st) F1 F2 F3 F4 F5 nbits Hlt [] (idx_of st) (empty_batch D V) (sC0 D V st ([], nbits)) true M
                    ltac:(cbn; lia) Hlt (fun _ => nbits4) ltac:(discriminate) (complete_bempty D V 5) (all_none_bempty D V 5) HR Hok Hne)
          as (t' & w & E1 & E2 & E3 & E4 & E5).
        fold z in E1, E4, E5. rewrite E1. eexists. split; [reflexivity|].
        assert (Hcw : Forall (fun x => match x with WCache _ _ _ _ => True | _ => False end) w).
        { unfold wr_okR in E3. rewrite Forall_forall in *. intros x Hx. specialize (E3 x Hx). destruct x; tauto. }
        destruct (tiles_after_cache_writes w z Hcw) as [Ht Hs].
        assert (HsA : forall q, sA0 D V (fold_left (apply_wr D V) w z) q = sA0 D V st q) by (intros q; unfold sA0; rewrite Hs; reflexivity).
        split; [split; [|split]|split].
        * rewrite (cache_after D V w z ([], nbits)). rewrite (E5 eq_refl).
          apply (RepC_ext D E V H limit nbits nbits (apC (sC0 D V z) w) _ (sA0 D V st) _ [] t' M); [| |exact E4].
          -- intros q _. symmetry. apply cache_after.
          -- intros q _. symmetry. apply HsA.
        * intros q. rewrite HsA. apply Hwa.
        * intros q. rewrite cache_after. exact (apC_complete D V [] w (wr_okR_okC [] w E3) _ Hzc q).
        * intros pre. rewrite Ht, HzT. change (tget D V (hs_cache D V (fold_left (apply_wr D V) w z)) (pre, limit + 4)) with (sC0 D V (fold_left (apply_wr D V) w z) (pre, limit + 4)).
          rewrite cache_after. rewrite apC_frame; [reflexivity|].
          intros p b Hin Heq. unfold wr_okR in E3. rewrite Forall_forall in E3. specialize (E3 _ Hin). cbn in E3. subst p. cbn in E3. lia.
        * rewrite Ht, HzT. exact T2.
  Qed.

  (* ---------------------------------------------------------------- insertions keep the tiles in step with the cache *)
  Definition T1 (s : hstate D V) : Prop :=
    forall pre, tget D V (hs_tiles D V s) (pre, limit + 4) = tget D V (hs_cache D V s) (pre, limit + 4).
  Definition WSync (w : list (wr D V)) : Prop :=
    (forall s, T1 s -> T1 (fold_left (apply_wr D V) w s)) /\
    Forall (fun x => match x with WTile _ _ p b => tile_entry_ok (p, b) | _ => True end) w.

  Lemma wsync_nil : WSync [].
  Proof. split; [intros s Hs; exact Hs|constructor]. Qed.
  Lemma wsync_app w1 w2 : WSync w1 -> WSync w2 -> WSync (w1 ++ w2).
  Proof.
    intros [A1 A2] [B1 B2]. split; [|apply Forall_app; split; assumption].
    intros s Hs. rewrite fold_left_app. apply B1, A1, Hs.
  Qed.
  Lemma wsync_store p b : WSync [WStore D V p b].
  Proof. split; [intros s Hs pre; exact (Hs pre)|repeat constructor]. Qed.
  Lemma wsync_cache_other p b : snd p <> limit + 4 -> WSync [WCache D V p b].
  Proof.
    intros Hne. split; [|repeat constructor]. intros s Hs pre. cbn [fold_left apply_wr hs_tiles hs_cache].
    rewrite tget_tset. destruct (hpos_eqb (pre, limit + 4) p) eqn:He; [|exact (Hs pre)].
    apply hpos_eqb_eq in He. subst p. cbn in Hne. contradiction.
  Qed.
  Lemma wsync_cache_tile p b : tile_entry_ok (p, b) -> WSync [WCache D V p b; WTile D V p b].
  Proof.
    intros Hok. split; [|constructor; [exact I|constructor; [exact Hok|constructor]]]. intros s Hs pre. cbn [fold_left apply_wr hs_tiles hs_cache].
    rewrite !tget_tset. destruct (hpos_eqb (pre, limit + 4) p); [reflexivity|exact (Hs pre)].
  Qed.

  Section Writes.
    Variable st : hstate D V.
    Notation nodeW := (node D E V H limit nbits ds st).
    Notation childW := (childf D E V H limit nbits ds st).
    Notation innerW := (innerf D E V H limit nbits ds st).
    Definition rec_ok (h' : nat) (rec : bool -> list bool -> list (key * V) -> bt -> bool -> option (res D V)) : Prop :=
      forall c pre' lv ct isr d t' w, h' + length pre' = nbits -> rec c pre' lv ct isr = Some (d, t', w) -> WSync w.

    Lemma childf_wsync rec cached h' pre' lv ct d ct' w : rec_ok h' rec -> h' + length pre' = nbits ->
      childW rec cached h' pre' lv ct = Some (d, ct', w) -> WSync w.
    Proof.
      intros Hrec Hlen. unfold childf. destruct lv as [|[k0 v0] rest].
      - destruct (discard D E V H nbits ds ct h'); cbn [option_map]; [|discriminate]. intros Heq. injection Heq as _ _ <-. apply wsync_nil.
      - assert (Hvia : forall c lv' t0 isr, match rec c pre' lv' t0 isr with
                                            | Some (d0, _, w0) => Some (d0, set_root D V ct (Some (SHash D V d0)), w0)
                                            | None => None end = Some (d, ct', w) -> WSync w).
        { intros c lv' t0 isr. destruct (rec c pre' lv' t0 isr) as [[[d0 t0'] w0]|] eqn:Hr; [|discriminate].
          intros Heq. injection Heq as _ _ <-. exact (Hrec c pre' lv' t0 isr d0 t0' w0 Hlen Hr). }
        destruct cached.
        + destruct (Nat.eqb (h' mod 4) 0); [apply Hvia|]. intros Hr. exact (Hrec _ _ _ _ _ _ _ _ Hlen Hr).
        + destruct h' as [|h''].
          * destruct rest; [|discriminate]. intros Heq. injection Heq as _ _ <-. apply wsync_store.
          * destruct (Nat.eqb (S h'' mod 4) 0).
            -- destruct rest as [|y rest'].
               ++ destruct (rslot ct); [apply Hvia|]. intros Heq. injection Heq as _ _ <-. apply wsync_store.
               ++ apply Hvia.
            -- intros Hr. exact (Hrec _ _ _ _ _ _ _ _ Hlen Hr).
    Qed.

    Lemma innerf_wsync rec cached h' pre isroot lv l0 r0 d t' w : rec_ok h' rec -> S h' + length pre = nbits ->
      innerW rec cached h' pre isroot lv l0 r0 = Some (d, t', w) -> WSync w.
    Proof.
      intros Hrec Hlen. unfold innerf. destruct (split V pre lv) as [ll lr].
      assert (Hlen' : forall b, h' + length (pre ++ [b]) = nbits) by (intros b; rewrite app_length; cbn; lia).
      destruct (childW rec cached h' (pre ++ [false]) ll l0) as [[[dl l1] w1]|] eqn:E1; [|discriminate].
      destruct (childW rec cached h' (pre ++ [true]) lr r0) as [[[dr r1] w2]|] eqn:E2; [|discriminate].
      cbv zeta. set (e := Nat.eqb (S h') (limit + 4)). intros Heq. injection Heq as _ _ <-.
      apply wsync_app; [exact (childf_wsync _ _ _ _ _ _ _ _ _ Hrec (Hlen' true) E2)|].
      apply wsync_app; [exact (childf_wsync _ _ _ _ _ _ _ _ _ Hrec (Hlen' false) E1)|].
      destruct isroot; [|apply wsync_nil]. destruct cached; [|apply wsync_store].
      unfold e. destruct (Nat.eqb (S h') (limit + 4)) eqn:He.
      - apply Nat.eqb_eq in He. apply wsync_cache_tile. unfold tile_entry_ok. cbn [fst snd]. split; [exact He|]. split; [lia|discriminate].
      - apply Nat.eqb_neq in He. apply wsync_cache_other. exact He.
    Qed.

    Lemma node_wsync h : rec_ok h (nodeW h).
    Proof.
      induction h as [|h' IH]; intros c pre lv t isr d t' w Hlen Hn; [destruct t; discriminate|].
      destruct t as [|s l r]; [discriminate|]. destruct c.
      - cbn [node] in Hn. exact (innerf_wsync _ _ _ _ _ _ _ _ _ _ _ IH Hlen Hn).
      - rewrite node_S in Hn. unfold cont in Hn.
        destruct (sel D V lv s l r) as [[[lv0 s0] l0] r0]. cbn [fst snd] in Hn.
        destruct lv0 as [|[k v] [|y lv1]]; try exact (innerf_wsync _ _ _ _ _ _ _ _ _ _ _ IH Hlen Hn).
        destruct s0; [exact (innerf_wsync _ _ _ _ _ _ _ _ _ _ _ IH Hlen Hn)|].
        cbv zeta in Hn. set (e := Nat.eqb (S h' mod 4) 0) in Hn. injection Hn as _ _ <-. destruct e; [apply wsync_store|apply wsync_nil].
    Qed.
  End Writes.

  Lemma tiles_after w : forall s, Forall (fun x => match x with WTile _ _ p b => tile_entry_ok (p, b) | _ => True end) w ->
    Forall tile_entry_ok (hs_tiles D V s) -> Forall tile_entry_ok (hs_tiles D V (fold_left (apply_wr D V) w s)).
  Proof.
    induction w as [|x w IH]; intros s Hw Hs; [exact Hs|]. inversion Hw as [|? ? Hx Hw']; subst. cbn [fold_left]. apply (IH _ Hw').
    destruct x as [p b|p b|p b]; cbn [apply_wr hs_tiles]; try exact Hs.
    clear - Hx Hs. induction (hs_tiles D V s) as [|[q c] l IHl]; cbn [tset]; [constructor; [exact Hx|constructor]|].
    inversion Hs as [|? ? Hq Hl]; subst. destruct (hpos_eqb p q) eqn:He.
    - apply hpos_eqb_eq in He. subst q. constructor; [exact Hx|exact Hl].
    - constructor; [exact Hq|exact (IHl Hl)].
  Qed.

  (* ---------------------------------------------------------------- the tree over any sequence of calls and re-creations *)
  Definition RepresentsT (st : hstate D V) (m : list (key * V)) : Prop :=
    exists M, Permutation M m /\ NoDup (map fst M) /\ keys_ok V nbits [] M /\ RepState D E V H limit nbits st M /\ TInv st.

  Lemma RepresentsT_Represents st m : RepresentsT st m -> Represents D E V H limit nbits st m.
  Proof. intros (M & A & B & C & R & _). exists M. split; [exact A|]. split; [exact B|]. split; [exact C|exact R]. Qed.

  Theorem hinit_representsT : RepresentsT (hinit D V) [].
  Proof.
    exists []. split; [constructor|]. split; [constructor|]. split; [constructor|]. split; [apply init_represents|].
    split; [intros pre; reflexivity|constructor].
  Qed.

  Theorem hb_insert_specT st m kvs :
    RepresentsT st m -> kvs <> [] -> Forall (fun kv => length (fst kv) = nbits) kvs ->
    exists d st', hb_insert D E V H limit nbits ds st kvs = Some (d, st') /\
      d = yroot D E V H ds (ytree_of D E V H limit nbits ds (map_add_bulk V m kvs)) /\
      RepresentsT st' (map_add_bulk V m kvs).
  Proof.
    intros (M & Hp & HnM & HkM & HR & [HT1 HT2]) Hne Hlen.
    set (L := bulk_dedup V [] kvs).
    assert (HnL : NoDup (map fst L)) by apply (dedup_nodup V kvs []).
    assert (HkL : keys_ok V nbits [] L).
    { apply keys_ok_nil_len. apply Forall_forall. intros x Hx. rewrite Forall_forall in Hlen. apply Hlen. exact (dedup_sub V [] kvs x Hx). }
    assert (HLne : L <> []).
    { unfold L. destruct kvs as [|[k v] r]; [contradiction|]. cbn. discriminate. }
    destruct (insert_refines D E V H limit nbits limit4 nbits4 limit_pos limit_lt st M L HR HLne HkL HnL HkM HnM) as (d & w & E1 & E2 & E3).
    unfold hb_insert. fold L. rewrite E1. exists d, (fold_left (apply_wr D V) w st). split; [reflexivity|].
    assert (Hperm : Permutation (mrg V M L) (map_add_bulk V m kvs)) by (exact (mrg_perm_set_all V M m L Hp HnM HnL)).
    split.
    - rewrite E2. rewrite (sh_perm D E V H limit nbits nbits [] (mrg V M L) (map_add_bulk V m kvs) Hperm (nodup_mrg V M L HnM HnL) (keys_ok_mrg V nbits [] M L HkM HkL) ltac:(cbn; lia)).
      apply sh_root. exact (keys_ok_perm V nbits [] _ _ Hperm (keys_ok_mrg V nbits [] M L HkM HkL)).
    - exists (mrg V M L). split; [exact Hperm|]. split; [apply nodup_mrg; assumption|]. split; [apply keys_ok_mrg; assumption|]. split; [exact E3|].
      (* the writes of the walk keep the tiles in step *)
      unfold walk_insert in E1. destruct L as [|x L']; [contradiction|].
      destruct (node D E V H limit nbits ds st nbits (Nat.ltb limit nbits) [] (x :: L') (load D V limit st ([], nbits)) true) as [[[d0 t0] w0]|] eqn:En; [|discriminate].
      injection E1 as _ <-.
      destruct (node_wsync st nbits _ [] _ _ true d0 t0 w0 ltac:(cbn; lia) En) as [S1 S2].
      split; [exact (S1 st HT1)|exact (tiles_after w0 st S2 HT2)].
  Qed.

  Inductive hop := HIns (kvs : list (key * V)) | HReopen.
  Fixpoint hb_runT (st : hstate D V) (ops : list hop) : option (list D * hstate D V) :=
    match ops with
    | [] => Some ([], st)
    | HIns kvs :: r =>
        match hb_insert D E V H limit nbits ds st kvs with
        | None => None
        | Some (d, st') => match hb_runT st' r with Some (dsr, st'') => Some (d :: dsr, st'') | None => None end
        end
    | HReopen :: r =>
        match hb_reopen D E V H limit nbits ds st with
        | None => None
        | Some st' => hb_runT st' r
        end
    end.
  Definition calls_of (ops : list hop) : list (list (key * V)) :=
    flat_map (fun o => match o with HIns kvs => [kvs] | HReopen => [] end) ops.
  Definition op_ok (o : hop) : Prop :=
    match o with HIns kvs => kvs <> [] /\ Forall (fun kv => length (fst kv) = nbits) kvs | HReopen => True end.

  Theorem reopen_specT st m : RepresentsT st m ->
    exists st', hb_reopen D E V H limit nbits ds st = Some st' /\ RepresentsT st' m.
  Proof.
    intros (M & A & B & C & R & T). destruct (reopen_refines st M R T) as (st' & E1 & E2 & E3).
    exists st'. split; [exact E1|]. exists M. split; [exact A|]. split; [exact B|]. split; [exact C|]. split; [exact E2|exact E3].
  Qed.

  (* the digests returned over any sequence of insertions and re-creations of the tree object are those of the
     published construction over the insertions alone: re-creation is invisible *)
  Theorem hb_runT_spec ops : forall st m,
    RepresentsT st m -> Forall op_ok ops ->
    exists st', hb_runT st ops = Some (fst (spec_run D E V H limit nbits m (calls_of ops)), st') /\
                RepresentsT st' (snd (spec_run D E V H limit nbits m (calls_of ops))).
  Proof.
    induction ops as [|o r IH]; intros st m HR Hc.
    - exists st. split; [reflexivity|exact HR].
    - inversion Hc as [|? ? Ho Hc']; subst. destruct o as [kvs|].
      + destruct Ho as [Hne Hl]. destruct (hb_insert_specT st m kvs HR Hne Hl) as (d & st' & E1 & E2 & E3).
        destruct (IH st' (map_add_bulk V m kvs) E3 Hc') as (st'' & F1 & F2).
        cbn [hb_runT calls_of flat_map app]. fold (calls_of r). cbn [spec_run]. rewrite E1, F1.
        destruct (spec_run D E V H limit nbits (map_add_bulk V m kvs) (calls_of r)) as [dsr m''] eqn:Hs.
        cbn [fst snd] in *. exists st''. split; [rewrite E2; reflexivity|exact F2].
      + destruct (reopen_specT st m HR) as (st' & E1 & E2). destruct (IH st' m E2 Hc') as (st'' & F1 & F2).
        cbn [hb_runT calls_of flat_map app]. fold (calls_of r). rewrite E1. exists st''. split; assumption.
  Qed.

  (* from the empty tables: the digests of every call and the answer to every later query, whatever re-creations of
     the tree object happened in between *)
  Theorem hb_runT_from_empty ops key :
    Forall op_ok ops -> length key = nbits ->
    exists st', hb_runT (hinit D V) ops = Some (fst (spec_run D E V H limit nbits [] (calls_of ops)), st') /\
      hb_find D E V H limit nbits ds st' key =
        hyper_find D E V H nbits ds (ytree_of D E V H limit nbits ds (snd (spec_run D E V H limit nbits [] (calls_of ops)))) key.
  Proof.
    intros Hc Hkey. destruct (hb_runT_spec ops (hinit D V) [] hinit_representsT Hc) as (st' & E1 & E2).
    exists st'. split; [exact E1|].
    apply (hb_find_spec D E V H limit nbits limit4 nbits4 limit_pos limit_lt st' _ key (RepresentsT_Represents _ _ E2) Hkey).
  Qed.
End HyperReopen.
