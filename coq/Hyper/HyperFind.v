(* The search of the batch-level hyper tree (Hyper/HyperBatch.v bfind, the mirror of balloon/hyper/search.go) returns
   what the published construction returns: the value stored for the key and the audit path of `hyper_find`. *)
From QV Require Import Base.Util Base.HashSig Hyper.HyperModel Hyper.HyperBatch Hyper.HyperRefine Balloon.BalloonProofs
  Hyper.HyperRefineSpec.
From Coq Require Import Permutation.

Local Open Scope nat_scope.

Section HyperFind.
  Variables D E V : Type.
  Variable H : hin D E V -> D.
  Variable limit nbits : nat.
  Notation ds := (dlist D E V H nbits).
  Notation sh := (sh D E V H limit nbits).
  Notation keys_ok := (keys_ok V nbits).
  Notation bt := (bt D V).
  Notation M0 := (M0 V). Notation M1 := (M1 V).

  (* the search on the specification side, on full keys *)
  Fixpoint sfind (h : nat) (pre : list bool) (M : list (key * V)) (key : key) {struct h} : option V * list (hpos * D) :=
    match M with
    | [] => (None, [])
    | (k, v) :: rest =>
        match h with
        | O => ((if key_eqb k key then Some v else None), [])
        | S h' =>
            let nd :=
              if bit_at pre key then
                let '(x, p) := sfind h' (pre ++ [true]) (M1 pre M) key in
                (x, ((pre ++ [false], h'), sh h' (pre ++ [false]) (M0 pre M)) :: p)
              else
                let '(x, p) := sfind h' (pre ++ [false]) (M0 pre M) key in
                (x, ((pre ++ [true], h'), sh h' (pre ++ [true]) (M1 pre M)) :: p) in
            match rest with
            | [] => if Nat.leb h limit then ((if key_eqb k key then Some v else None), []) else nd
            | _ => nd
            end
        end
    end.

  Lemma sfind_nil h pre key : sfind h pre [] key = (None, []).
  Proof. destruct h; reflexivity. Qed.
  Lemma sfind_single h pre k v key : h <= limit -> sfind h pre [(k, v)] key = ((if key_eqb k key then Some v else None), []).
  Proof.
    intros Hl. destruct h as [|h']; [reflexivity|]. cbn [sfind].
    assert (Hb : Nat.leb (S h') limit = true) by (apply Nat.leb_le; exact Hl). rewrite Hb. reflexivity.
  Qed.
  Lemma sfind_node h' pre M key : (2 <= length M \/ (M <> [] /\ limit < S h')) ->
    sfind (S h') pre M key =
      if bit_at pre key then
        let '(x, p) := sfind h' (pre ++ [true]) (M1 pre M) key in
        (x, ((pre ++ [false], h'), sh h' (pre ++ [false]) (M0 pre M)) :: p)
      else
        let '(x, p) := sfind h' (pre ++ [false]) (M0 pre M) key in
        (x, ((pre ++ [true], h'), sh h' (pre ++ [true]) (M1 pre M)) :: p).
  Proof.
    intros Hc. destruct M as [|[k v] rest]; [cbn in Hc; destruct Hc as [Hc|[Hc _]]; [lia|contradiction]|].
    cbn [sfind]. destruct rest as [|x rest]; [|reflexivity].
    destruct Hc as [Hc|[_ Hc]]; [cbn in Hc; lia|].
    assert (Hb : Nat.leb (S h') limit = false) by (apply Nat.leb_gt; exact Hc). rewrite Hb. reflexivity.
  Qed.

  Hypothesis limit4 : limit mod 4 = 0.
  Hypothesis nbits4 : nbits mod 4 = 0.

  Section OnTables.
    Variable st : hstate D V.
    Notation bfindW := (bfind D E V H limit nbits ds st).
    Notation sA0 := (sA0 D V st).
    Notation sC0 := (sC0 D V st).
    Notation RepA := (RepA D E V H limit nbits).
    Notation SlotA := (SlotA D E V H limit nbits).
    Notation RepC := (RepC D E V H limit nbits).
    Notation SlotC := (SlotC D E V H limit nbits).

    (* one step of bfind on an inner node *)
    Lemma bfind_inner h' pre key d l r :
      bfindW (S h') pre key (BNode D V (Some (SHash D V d)) l r) =
        if bit_at pre key then
          match discard D E V H nbits ds l h' with
          | Some dl =>
              let '(v, p) := match rslot D V r with
                             | None => (None, [])
                             | Some _ => if Nat.eqb (h' mod 4) 0 then bfindW h' (pre ++ [true]) key (load D V limit st (pre ++ [true], h'))
                                         else bfindW h' (pre ++ [true]) key r
                             end in (v, ((pre ++ [false], h'), dl) :: p)
          | None => (None, [])
          end
        else
          match discard D E V H nbits ds r h' with
          | Some dr =>
              let '(v, p) := match rslot D V l with
                             | None => (None, [])
                             | Some _ => if Nat.eqb (h' mod 4) 0 then bfindW h' (pre ++ [false]) key (load D V limit st (pre ++ [false], h'))
                                         else bfindW h' (pre ++ [false]) key l
                             end in (v, ((pre ++ [true], h'), dr) :: p)
          | None => (None, [])
          end.
    Proof. reflexivity. Qed.

    Lemma bfind_none h pre key t : HyperRefine.all_none D V t -> bfindW h pre key t = (None, []).
    Proof. intros Hn. destruct t as [|s l r]; [destruct h; reflexivity|]. destruct Hn as [-> _]. destruct h; reflexivity. Qed.

    Lemma bfind_leaf h pre key d l r k v : rslot D V l = Some (SKey D V k) -> rslot D V r = Some (SVal D V v) ->
      bfindW h pre key (BNode D V (Some (SLeaf D V d)) l r) = ((if key_eqb k key then Some v else None), []).
    Proof. intros Hl Hr. destruct h; cbn [bfind]; rewrite Hl, Hr; reflexivity. Qed.

    (* below the cache *)
    Lemma bfind_A h : forall pre t M key,
      h <= limit -> RepA sA0 h pre t M -> bfindW h pre key t = sfind h pre M key.
    Proof.
      induction h as [|h' IH]; intros pre t M key Hl HR.
      - destruct M as [|[k v] [|y M2]].
        + cbn [HyperRefine.RepA] in HR. rewrite (bfind_none 0 pre key t (proj1 HR)). reflexivity.
        + cbn [HyperRefine.RepA] in HR. destruct HR as [(l & r & -> & Hrl & Hrr & _) _]. rewrite (bfind_leaf 0 pre key _ l r k v Hrl Hrr). reflexivity.
        + destruct HR.
      - destruct M as [|[k v] [|y M2]].
        + apply RepA_nil in HR. rewrite (bfind_none (S h') pre key t (proj1 HR)). reflexivity.
        + apply RepA_single in HR. destruct HR as [(l & r & -> & Hrl & Hrr & _) _].
          rewrite (bfind_leaf (S h') pre key _ l r k v Hrl Hrr), (sfind_single (S h') pre k v key Hl). reflexivity.
        + apply RepA_node in HR; [|cbn; lia]. destruct HR as (l & r & -> & Hsl & Hsr).
          assert (Hc2 : 2 <= length ((k, v) :: y :: M2) \/ ((k, v) :: y :: M2 <> [] /\ limit < S h')) by (left; cbn; lia).
          rewrite bfind_inner, (sfind_node h' pre ((k, v) :: y :: M2) key Hc2).
          assert (Hchild : forall b ct M', SlotA sA0 h' (pre ++ [b]) ct M' ->
                    match rslot D V ct with
                    | None => (None, [])
                    | Some _ => if Nat.eqb (h' mod 4) 0 then bfindW h' (pre ++ [b]) key (load D V limit st (pre ++ [b], h'))
                                else bfindW h' (pre ++ [b]) key ct
                    end = sfind h' (pre ++ [b]) M' key).
          { intros b ct M' Hs. unfold HyperRefine.SlotA in Hs. destruct (Nat.eqb (h' mod 4) 0) eqn:Hb.
            - destruct M' as [|x M''].
              + rewrite (all_none_rslot D V ct (proj1 Hs)), sfind_nil. reflexivity.
              + destruct Hs as [Hr HRc]. rewrite Hr. rewrite (load_store D V limit st (pre ++ [b]) h' ltac:(lia)).
                apply IH; [lia|exact HRc].
            - destruct (rslot D V ct) eqn:Hr.
              + apply IH; [lia|exact Hs].
              + (* an empty slot represents the empty map *)
                destruct M' as [|[k' v'] [|y' M3]].
                * rewrite sfind_nil. reflexivity.
                * apply RepA_single in Hs. destruct Hs as [(l' & r' & -> & _) _]. discriminate.
                * destruct h' as [|h'']; [destruct Hs|]. apply RepA_node in Hs; [|cbn; lia]. destruct Hs as (l' & r' & -> & _). discriminate. }
          destruct (bit_at pre key).
          * rewrite (discard_slot D E V H limit nbits limit4 nbits4 st h' (pre ++ [false]) l _ ltac:(lia) Hsl), (Hchild true r _ Hsr). reflexivity.
          * rewrite (discard_slot D E V H limit nbits limit4 nbits4 st h' (pre ++ [true]) r _ ltac:(lia) Hsr), (Hchild false l _ Hsl). reflexivity.
    Qed.

    Hypothesis limit_pos : 0 < limit.

    (* through the cache levels *)
    Lemma bfind_C h : forall pre t M key,
      limit < h -> RepC sC0 sA0 h pre t M -> bfindW h pre key t = sfind h pre M key.
    Proof.
      induction h as [|h' IH]; intros pre t M key Hl HR; [lia|].
      destruct M as [|x M1'].
      - apply RepC_nil in HR. rewrite (bfind_none (S h') pre key t (proj1 HR)). reflexivity.
      - apply RepC_node in HR; [|discriminate]. destruct HR as (l & r & -> & Hsl & Hsr).
        assert (Hc2 : 2 <= length (x :: M1') \/ (x :: M1' <> [] /\ limit < S h')) by (right; split; [discriminate|exact Hl]).
        rewrite bfind_inner, (sfind_node h' pre (x :: M1') key Hc2).
        assert (Hchild : forall b ct M', SlotC sC0 sA0 h' (pre ++ [b]) ct M' ->
                  match rslot D V ct with
                  | None => (None, [])
                  | Some _ => if Nat.eqb (h' mod 4) 0 then bfindW h' (pre ++ [b]) key (load D V limit st (pre ++ [b], h'))
                              else bfindW h' (pre ++ [b]) key ct
                  end = sfind h' (pre ++ [b]) M' key).
        { intros b ct M' Hs. unfold HyperRefine.SlotC in Hs. destruct (Nat.eqb (h' mod 4) 0) eqn:Hb.
          - destruct M' as [|x' M''].
            + rewrite (all_none_rslot D V ct (proj1 Hs)), sfind_nil. reflexivity.
            + destruct Hs as [Hr HRc]. rewrite Hr. destruct (Nat.ltb limit h') eqn:Hlt.
              * apply Nat.ltb_lt in Hlt. rewrite (load_cache D V limit st (pre ++ [b]) h' Hlt). apply IH; [exact Hlt|exact HRc].
              * apply Nat.ltb_ge in Hlt. rewrite (load_store D V limit st (pre ++ [b]) h' Hlt). apply bfind_A; [exact Hlt|exact HRc].
          - apply Nat.eqb_neq in Hb.
            assert (Hlt : limit < h') by (destruct (Nat.eq_dec h' limit) as [->|]; [contradiction|lia]).
            destruct (rslot D V ct) eqn:Hr.
            + apply IH; [exact Hlt|exact Hs].
            + destruct M' as [|x' M''].
              * rewrite sfind_nil. reflexivity.
              * destruct h' as [|h'']; [lia|]. apply RepC_node in Hs; [|discriminate]. destruct Hs as (l' & r' & -> & _). discriminate. }
        destruct (bit_at pre key).
        + rewrite (discard_slotC D E V H limit nbits limit4 nbits4 st limit_pos h' (pre ++ [false]) l _ ltac:(lia) Hsl), (Hchild true r _ Hsr). reflexivity.
        + rewrite (discard_slotC D E V H limit nbits limit4 nbits4 st limit_pos h' (pre ++ [true]) r _ ltac:(lia) Hsr), (Hchild false l _ Hsl). reflexivity.
    Qed.
  End OnTables.

  (* ---- the specification search does not depend on the listing order *)
  Lemma sfind_perm h : forall pre M M' key, Permutation M M' -> NoDup (map fst M) -> keys_ok pre M -> h + length pre = nbits ->
    sfind h pre M key = sfind h pre M' key.
  Proof.
    induction h as [|h' IH]; intros pre M M' key Hp Hn Hk Hlen.
    - assert (Hl : length M <= 1) by (apply (keys_full_le1 V nbits pre); [lia|exact Hk|exact Hn]).
      destruct M as [|x [|y M2]]; [|apply Permutation_length_1_inv in Hp; subst; reflexivity|cbn in Hl; lia].
      apply Permutation_nil in Hp. subst. reflexivity.
    - destruct M as [|x M1']; [apply Permutation_nil in Hp; subst; reflexivity|].
      assert (Hpl : length pre < nbits) by lia.
      assert (Hstep : forall b, sfind h' (pre ++ [b]) (filter (fun kv => Bool.eqb (bit_at pre (fst kv)) b) (x :: M1')) key =
                                sfind h' (pre ++ [b]) (filter (fun kv => Bool.eqb (bit_at pre (fst kv)) b) M') key).
      { intros b. apply IH; [apply perm_filter; exact Hp|apply nodup_filter_fst; exact Hn| |rewrite app_length; cbn; lia].
        destruct b; [rewrite filter_M1; apply keys_ok_M1; assumption|rewrite filter_M0; apply keys_ok_M0; assumption]. }
      assert (Hsh : forall b, sh h' (pre ++ [b]) (filter (fun kv => Bool.eqb (bit_at pre (fst kv)) b) (x :: M1')) =
                              sh h' (pre ++ [b]) (filter (fun kv => Bool.eqb (bit_at pre (fst kv)) b) M')).
      { intros b. apply (sh_perm D E V H limit nbits); [apply perm_filter; exact Hp|apply nodup_filter_fst; exact Hn| |rewrite app_length; cbn; lia].
        destruct b; [rewrite filter_M1; apply keys_ok_M1; assumption|rewrite filter_M0; apply keys_ok_M0; assumption]. }
      pose proof (Hstep true) as St. pose proof (Hstep false) as Sf. pose proof (Hsh true) as Ht. pose proof (Hsh false) as Hf.
      rewrite !filter_M1 in St, Ht. rewrite !filter_M0 in Sf, Hf.
      destruct (Nat.leb (S h') limit) eqn:Hlim; [destruct M1' as [|y M2]|].
      + apply Permutation_length_1_inv in Hp. subst. reflexivity.
      + assert (H2 : 2 <= length (x :: y :: M2) \/ (x :: y :: M2 <> [] /\ limit < S h')) by (left; cbn; lia).
        assert (H2' : 2 <= length M' \/ (M' <> [] /\ limit < S h')) by (left; rewrite <- (Permutation_length Hp); cbn; lia).
        rewrite (sfind_node h' pre _ key H2), (sfind_node h' pre M' key H2'), St, Sf, Ht, Hf. reflexivity.
      + apply Nat.leb_gt in Hlim.
        assert (Hne' : M' <> []) by (intros ->; apply Permutation_sym, Permutation_nil in Hp; discriminate).
        assert (H2 : 2 <= length (x :: M1') \/ (x :: M1' <> [] /\ limit < S h')) by (right; split; [discriminate|exact Hlim]).
        assert (H2' : 2 <= length M' \/ (M' <> [] /\ limit < S h')) by (right; split; assumption).
        rewrite (sfind_node h' pre _ key H2), (sfind_node h' pre M' key H2'), St, Sf, Ht, Hf. reflexivity.
  Qed.

  (* ---- it is the search of the published construction *)
  Lemma sfind_spec h : forall pre M key, keys_ok pre M -> h + length pre = nbits -> length key = nbits ->
    sfind h pre M key =
      yfind D E V H h (skipn (nbits - h) ds) pre (ybuild D E V H limit h (skipn (nbits - h) ds) pre (ents V pre M)) (skipn (length pre) key) key.
  Proof.
    induction h as [|h' IH]; intros pre M key Hk Hlen Hkey.
    - destruct M as [|[k v] rest]; reflexivity.
    - destruct M as [|[k v] rest]; [reflexivity|].
      assert (Hlong : Forall (fun kv : HyperModel.key * V => length pre < length (fst kv)) ((k, v) :: rest)).
      { unfold HyperRefine.keys_ok in Hk. apply Forall_forall. intros x Hx. rewrite Forall_forall in Hk. destruct (Hk x Hx) as [A _]. cbv beta. unfold HyperModel.key in *. lia. }
      assert (Hpl : length pre < nbits) by lia.
      assert (Hkl : length pre < length key) by (unfold HyperModel.key in *; lia).
      assert (Hnode :
        (if bit_at pre key then
           let '(x, p) := sfind h' (pre ++ [true]) (M1 pre ((k, v) :: rest)) key in
           (x, ((pre ++ [false], h'), sh h' (pre ++ [false]) (M0 pre ((k, v) :: rest))) :: p)
         else
           let '(x, p) := sfind h' (pre ++ [false]) (M0 pre ((k, v) :: rest)) key in
           (x, ((pre ++ [true], h'), sh h' (pre ++ [true]) (M1 pre ((k, v) :: rest))) :: p)) =
        yfind D E V H (S h') (skipn (nbits - S h') ds) pre
          (TNode (H (YNode (thash D V (hd (H YDef0) (tl (skipn (nbits - S h') ds)))
                                  (ybuild D E V H limit h' (tl (skipn (nbits - S h') ds)) (pre ++ [true]) (child V true (ents V pre ((k, v) :: rest)))))
                               (thash D V (hd (H YDef0) (tl (skipn (nbits - S h') ds)))
                                  (ybuild D E V H limit h' (tl (skipn (nbits - S h') ds)) (pre ++ [false]) (child V false (ents V pre ((k, v) :: rest)))))
                               (pre, S h')))
             (ybuild D E V H limit h' (tl (skipn (nbits - S h') ds)) (pre ++ [false]) (child V false (ents V pre ((k, v) :: rest))))
             (ybuild D E V H limit h' (tl (skipn (nbits - S h') ds)) (pre ++ [true]) (child V true (ents V pre ((k, v) :: rest)))))
          (skipn (length pre) key) key).
      { rewrite (skipn_nth_cons false (length pre) key Hkl). change (nth (length pre) key false) with (bit_at pre key).
        cbn [yfind].
        rewrite !(child_ents V pre _ _ Hlong), filter_M0, filter_M1, tl_skipn.
        replace (S (nbits - S h')) with (nbits - h') by lia. rewrite hd_skipn.
        pose proof (IH (pre ++ [true]) (M1 pre ((k, v) :: rest)) key (keys_ok_M1 V nbits pre _ Hpl Hk) ltac:(rewrite app_length; cbn; lia) Hkey) as I1.
        pose proof (IH (pre ++ [false]) (M0 pre ((k, v) :: rest)) key (keys_ok_M0 V nbits pre _ Hpl Hk) ltac:(rewrite app_length; cbn; lia) Hkey) as I0.
        replace (length (pre ++ [true])) with (S (length pre)) in I1 by (rewrite app_length; cbn; lia).
        replace (length (pre ++ [false])) with (S (length pre)) in I0 by (rewrite app_length; cbn; lia).
        rewrite <- I1, <- I0.
        pose proof (sh_spec D E V H limit nbits h' (pre ++ [true]) (M1 pre ((k, v) :: rest)) (keys_ok_M1 V nbits pre _ Hpl Hk) ltac:(rewrite app_length; cbn; lia)) as S1.
        pose proof (sh_spec D E V H limit nbits h' (pre ++ [false]) (M0 pre ((k, v) :: rest)) (keys_ok_M0 V nbits pre _ Hpl Hk) ltac:(rewrite app_length; cbn; lia)) as S0.
        unfold HyperBatch.dflt in S1, S0. rewrite <- S1, <- S0. reflexivity. }
      change (ents V pre ((k, v) :: rest)) with ((skipn (length pre) k, (k, v)) :: ents V pre rest) in *.
      cbn [sfind ybuild]. destruct rest as [|y rest'].
      + cbn [ents map]. destruct (Nat.leb (S h') limit); [reflexivity|]. exact Hnode.
      + cbn [ents map]. exact Hnode.
  Qed.

  Hypothesis limit_pos : 0 < limit.
  Hypothesis limit_lt : limit < nbits.

  (* HyperTree.QueryMembership on tables that represent the map m: the value and the audit path are those of the
     published construction over m *)
  Theorem hb_find_spec st m key :
    Represents D E V H limit nbits st m -> length key = nbits ->
    hb_find D E V H limit nbits ds st key = hyper_find D E V H nbits ds (ytree_of D E V H limit nbits ds m) key.
  Proof.
    intros (M & Hp & HnM & HkM & HR & _) Hkey. unfold hb_find.
    rewrite (load_cache D V limit st [] nbits limit_lt).
    rewrite (bfind_C st limit_pos nbits [] _ M key limit_lt HR).
    rewrite (sfind_perm nbits [] M m key Hp HnM HkM ltac:(cbn; lia)).
    rewrite (sfind_spec nbits [] m key (keys_ok_perm V nbits [] _ _ Hp HkM) ltac:(cbn; lia) Hkey).
    unfold hyper_find, ytree_of, ents. rewrite Nat.sub_diag. reflexivity.
  Qed.

  (* after every sequence of calls from the empty tables *)
  Theorem hb_run_find calls key :
    Forall (fun kvs => kvs <> [] /\ Forall (fun kv => length (fst kv) = nbits) kvs) calls -> length key = nbits ->
    exists st', hb_run D E V H limit nbits (hinit D V) calls = Some (fst (spec_run D E V H limit nbits [] calls), st') /\
      hb_find D E V H limit nbits ds st' key =
        hyper_find D E V H nbits ds (ytree_of D E V H limit nbits ds (snd (spec_run D E V H limit nbits [] calls))) key.
  Proof.
    intros Hc Hkey.
    destruct (hb_run_spec D E V H limit nbits limit4 nbits4 limit_pos limit_lt calls (hinit D V) [] (hinit_represents D E V H limit nbits) Hc) as (st' & E1 & E2).
    exists st'. split; [exact E1|]. apply hb_find_spec; assumption.
  Qed.
End HyperFind.
