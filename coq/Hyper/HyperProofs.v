(* Proofs about the hyper construction: the membership path the prover collects recomputes the root
   (completeness, C01 hyper half), for every key set, height and cache limit. *)
From QV Require Import Base.Util Base.HashSig Hyper.HyperModel.

Lemma key_eqb_refl k : key_eqb k k = true.
Proof. induction k as [|b k IH]; [reflexivity|]. cbn. rewrite IH. destruct b; reflexivity. Qed.

Lemma key_eqb_eq a b : key_eqb a b = true <-> a = b.
Proof.
  revert b. induction a as [|x a IH]; intros [|y b]; cbn; try (split; [discriminate|discriminate]); [split; reflexivity|].
  rewrite andb_true_iff, IH. split.
  - intros [Hxy ->]. apply Bool.eqb_prop in Hxy. subst. reflexivity.
  - intros Heq. inversion Heq. subst. split; [destruct y; reflexivity|reflexivity].
Qed.

Lemma hpos_eqb_eq x y : hpos_eqb x y = true <-> x = y.
Proof.
  destruct x as [a h], y as [b k]. unfold hpos_eqb. cbn [fst snd].
  rewrite andb_true_iff, key_eqb_eq, Nat.eqb_eq. split; [intros [-> ->]; reflexivity|intros Heq; inversion Heq; auto].
Qed.

Section HyperProofs.
  Variables D E V : Type.
  Variable H : hin D E V -> D.
  Variable limit : nat.

  Notation ybuild := (ybuild D E V H limit).
  Notation yfind := (yfind D E V H).
  Notation yverify := (yverify D E V H).
  Notation thash := (thash D V).
  Notation child := (child V).

  Definition WfSub (h : nat) (sub : list (entry V)) : Prop :=
    (forall e, In e sub -> length (fst e) = h) /\
    (forall e1 e2, In e1 sub -> In e2 sub -> fst e1 = fst e2 -> e1 = e2).

  Lemma child_in b (sub : list (entry V)) kb x : In (b :: kb, x) sub -> In (kb, x) (child b sub).
  Proof.
    intros Hin. unfold HyperModel.child. apply in_flat_map. exists (b :: kb, x). split; [exact Hin|].
    cbn. rewrite Bool.eqb_reflx. left. reflexivity.
  Qed.

  Lemma child_inv b (sub : list (entry V)) kb x : In (kb, x) (child b sub) -> In (b :: kb, x) sub.
  Proof.
    unfold HyperModel.child. intros Hin. apply in_flat_map in Hin. destruct Hin as [[k y] [Hin Hm]].
    cbn in Hm. destruct k as [|c k]; [destruct Hm|].
    destruct (Bool.eqb c b) eqn:Hcb; [|destruct Hm]. apply Bool.eqb_prop in Hcb. subst c.
    destruct Hm as [Hm|[]]. injection Hm as -> ->. exact Hin.
  Qed.

  Lemma child_wf b h sub : WfSub (S h) sub -> WfSub h (child b sub).
  Proof.
    intros [Hlen Huniq]. split.
    - intros [kb x] Hin. apply child_inv in Hin. specialize (Hlen _ Hin). cbn in *. lia.
    - intros [k1 x1] [k2 x2] H1 H2 Heq. cbn in Heq. subst k2.
      apply child_inv in H1. apply child_inv in H2.
      specialize (Huniq _ _ H1 H2 eq_refl). injection Huniq as ->. reflexivity.
  Qed.

  (* every entry the prover collects below height h has a smaller height *)
  Lemma yfind_heights h : forall ds pre t kb full v p,
    yfind h ds pre t kb full = (v, p) -> forall q d, In (q, d) p -> (snd q < h)%nat.
  Proof.
    induction h as [|h IH]; intros ds pre t kb full v p Hf q d Hin.
    - destruct t; cbn in Hf; injection Hf as _ <-; destruct Hin.
    - destruct t as [|k0 v0 x|x l r]; cbn [HyperModel.yfind] in Hf; try (injection Hf as _ <-; destruct Hin).
      destruct kb as [|b kb]; [injection Hf as _ <-; destruct Hin|].
      destruct b.
      + destruct (yfind h (tl ds) (pre ++ [true]) r kb full) as [v' p'] eqn:Hr. injection Hf as _ <-.
        destruct Hin as [Hin|Hin]; [injection Hin as <- _; cbn; lia|]. specialize (IH _ _ _ _ _ _ _ Hr q d Hin). lia.
      + destruct (yfind h (tl ds) (pre ++ [false]) l kb full) as [v' p'] eqn:Hl. injection Hf as _ <-.
        destruct Hin as [Hin|Hin]; [injection Hin as <- _; cbn; lia|]. specialize (IH _ _ _ _ _ _ _ Hl q d Hin). lia.
  Qed.

  Lemma thash_nonempty (t : ytree D V) d1 d2 : t <> TEmpty -> thash d1 t = thash d2 t.
  Proof. destruct t; [contradiction|reflexivity|reflexivity]. Qed.

  Lemma ybuild_nonempty h ds pre sub : sub <> [] -> ybuild h ds pre sub <> TEmpty.
  Proof.
    destruct sub as [|[kb0 [k0 v0]] rest]; [contradiction|]. intros _.
    destruct h; cbn [HyperModel.ybuild]; [discriminate|].
    destruct rest; [destruct (Nat.leb _ _)|]; discriminate.
  Qed.

  (* Completeness at a subtree: the key k with remaining bits kb is among the entries with value w.
     pf is any lookup function that returns the collected entries. *)
  Lemma yfind_complete h : forall ds pre sub kb k w (pf : hpos -> option D) d0,
    WfSub h sub -> In (kb, (k, w)) sub ->
    let '(v, p) := yfind h ds pre (ybuild h ds pre sub) kb k in
    v = Some w /\ (length p <= h)%nat /\
    ((forall q d, In (q, d) p -> pf q = Some d) ->
     yverify pf (N.of_nat (h - length p)) w h pre kb = Some (thash d0 (ybuild h ds pre sub))).
  Proof.
    induction h as [|h IH]; intros ds pre sub kb k w pf d0 Hwf Hin.
    - destruct sub as [|[kb0 [k0 v0]] rest]; [destruct Hin|].
      assert (Hsame : (kb0, (k0, v0)) = (kb, (k, w))).
      { destruct Hwf as [Hlen Huniq]. apply Huniq; [left; reflexivity|exact Hin|].
        pose proof (Hlen _ (or_introl eq_refl)) as H1. pose proof (Hlen _ Hin) as H2. cbn in H1, H2.
        destruct kb0; [|discriminate]. destruct kb; [reflexivity|discriminate]. }
      injection Hsame as -> -> ->.
      cbn. rewrite key_eqb_refl. split; [reflexivity|]. split; [lia|]. intros _. reflexivity.
    - destruct sub as [|e0 rest]; [destruct Hin|].
      (* the inner-node case, shared by the two ways of reaching it *)
      assert (Hnode : forall l r x,
                 l = ybuild h (tl ds) (pre ++ [false]) (child false (e0 :: rest)) ->
                 r = ybuild h (tl ds) (pre ++ [true]) (child true (e0 :: rest)) ->
                 x = H (YNode (thash (hd (H YDef0) (tl ds)) r) (thash (hd (H YDef0) (tl ds)) l) (pre, S h)) ->
                 let '(v, p) := yfind (S h) ds pre (TNode x l r) kb k in
                 v = Some w /\ (length p <= S h)%nat /\
                 ((forall q d, In (q, d) p -> pf q = Some d) ->
                  yverify pf (N.of_nat (S h - length p)) w (S h) pre kb = Some x)).
      { intros l r x Hl Hr Hx.
        destruct Hwf as [Hlen Huniq]. pose proof (Hlen _ Hin) as Hk. cbn in Hk.
        destruct kb as [|b kb]; [discriminate|].
        pose proof (child_wf b h _ (conj Hlen Huniq)) as Hcw.
        pose proof (child_in b _ kb (k, w) Hin) as Hcin.
        assert (Hne : child b (e0 :: rest) <> []) by (intros Hc; rewrite Hc in Hcin; destruct Hcin).
        cbn [HyperModel.yfind].
        destruct b.
        - specialize (IH (tl ds) (pre ++ [true]) (child true (e0 :: rest)) kb k w pf (hd (H YDef0) (tl ds)) Hcw Hcin).
          rewrite <- Hr in IH.
          destruct (yfind h (tl ds) (pre ++ [true]) r kb k) as [v' p'] eqn:Hf.
          destruct IH as (Hv & Hlp & Hver). split; [exact Hv|]. split; [cbn; lia|].
          intros Hpf. cbn [length]. replace (S h - S (length p'))%nat with (h - length p')%nat by lia.
          cbn [HyperModel.yverify].
          assert (Hnl : (N.of_nat (S h) <=? N.of_nat (h - length p')) = false) by (apply N.leb_gt; lia).
          rewrite Hnl. rewrite (Hpf (pre ++ [false], h) _ (or_introl eq_refl)).
          rewrite Hver; [|intros q d Hq; apply Hpf; right; exact Hq].
          rewrite Hx. reflexivity.
        - specialize (IH (tl ds) (pre ++ [false]) (child false (e0 :: rest)) kb k w pf (hd (H YDef0) (tl ds)) Hcw Hcin).
          rewrite <- Hl in IH.
          destruct (yfind h (tl ds) (pre ++ [false]) l kb k) as [v' p'] eqn:Hf.
          destruct IH as (Hv & Hlp & Hver). split; [exact Hv|]. split; [cbn; lia|].
          intros Hpf. cbn [length]. replace (S h - S (length p'))%nat with (h - length p')%nat by lia.
          cbn [HyperModel.yverify].
          assert (Hnl : (N.of_nat (S h) <=? N.of_nat (h - length p')) = false) by (apply N.leb_gt; lia).
          rewrite Hnl.
          rewrite Hver; [|intros q d Hq; apply Hpf; right; exact Hq].
          rewrite (Hpf (pre ++ [true], h) _ (or_introl eq_refl)).
          rewrite Hx. reflexivity. }
      destruct e0 as [kb0 [k0 v0]].
      cbn [HyperModel.ybuild].
      destruct rest as [|e1 rest'].
      + destruct (Nat.leb (S h) limit) eqn:Hlim.
        * (* shortcut leaf *)
          destruct Hin as [Hin|[]]. injection Hin as -> -> ->.
          cbn [HyperModel.yfind]. rewrite key_eqb_refl. split; [reflexivity|]. split; [cbn; lia|].
          intros _. cbn [length]. rewrite Nat.sub_0_r. cbn [HyperModel.yverify]. rewrite N.leb_refl. reflexivity.
        * specialize (Hnode _ _ _ eq_refl eq_refl eq_refl).
          destruct (yfind (S h) ds pre _ kb k) as [v p]. exact Hnode.
      + specialize (Hnode _ _ _ eq_refl eq_refl eq_refl).
        destruct (yfind (S h) ds pre _ kb k) as [v p]. exact Hnode.
  Qed.

  (* a value returned by the prover is the value of an entry with exactly the queried key *)
  Lemma yfind_value_in h : forall ds pre sub kb full w p,
    yfind h ds pre (ybuild h ds pre sub) kb full = (Some w, p) -> exists kb', In (kb', (full, w)) sub.
  Proof.
    induction h as [|h IH]; intros ds pre sub kb full w p Hf.
    - destruct sub as [|[kb0 [k0 v0]] rest]; cbn in Hf; [discriminate|].
      destruct (key_eqb k0 full) eqn:Hk; [|discriminate]. apply key_eqb_eq in Hk. subst k0.
      injection Hf as <- _. exists kb0. left. reflexivity.
    - destruct sub as [|[kb0 [k0 v0]] rest]; [cbn in Hf; discriminate|].
      assert (Hnode : forall l r x,
                 l = ybuild h (tl ds) (pre ++ [false]) (child false ((kb0, (k0, v0)) :: rest)) ->
                 r = ybuild h (tl ds) (pre ++ [true]) (child true ((kb0, (k0, v0)) :: rest)) ->
                 yfind (S h) ds pre (TNode x l r) kb full = (Some w, p) ->
                 exists kb', In (kb', (full, w)) ((kb0, (k0, v0)) :: rest)).
      { intros l r x Hl Hr Hy. cbn [HyperModel.yfind] in Hy. destruct kb as [|b kb]; [discriminate|].
        destruct b.
        - destruct (yfind h (tl ds) (pre ++ [true]) r kb full) as [v' p'] eqn:Hr'. injection Hy as -> _.
          rewrite Hr in Hr'. destruct (IH _ _ _ _ _ _ _ Hr') as [kb' Hin]. exists (true :: kb'). apply child_inv. exact Hin.
        - destruct (yfind h (tl ds) (pre ++ [false]) l kb full) as [v' p'] eqn:Hl'. injection Hy as -> _.
          rewrite Hl in Hl'. destruct (IH _ _ _ _ _ _ _ Hl') as [kb' Hin]. exists (false :: kb'). apply child_inv. exact Hin. }
      cbn [HyperModel.ybuild] in Hf. destruct rest as [|e1 rest'].
      + destruct (Nat.leb (S h) limit).
        * cbn [HyperModel.yfind] in Hf. destruct (key_eqb k0 full) eqn:Hk; [|discriminate]. apply key_eqb_eq in Hk. subst k0.
          injection Hf as <- _. exists kb0. left. reflexivity.
        * exact (Hnode _ _ _ eq_refl eq_refl Hf).
      + exact (Hnode _ _ _ eq_refl eq_refl Hf).
  Qed.

  Lemma yfind_nodup h : forall ds pre t kb full v p,
    yfind h ds pre t kb full = (v, p) -> NoDup (map fst p).
  Proof.
    induction h as [|h IH]; intros ds pre t kb full v p Hf.
    - destruct t; cbn in Hf; injection Hf as _ <-; constructor.
    - destruct t as [|k0 v0 x|x l r]; cbn [HyperModel.yfind] in Hf; try (injection Hf as _ <-; constructor).
      destruct kb as [|b kb]; [injection Hf as _ <-; constructor|].
      destruct b.
      + destruct (yfind h (tl ds) (pre ++ [true]) r kb full) as [v' p'] eqn:Hr. injection Hf as _ <-.
        cbn [map fst]. constructor; [|exact (IH _ _ _ _ _ _ _ Hr)].
        intros Hin. apply in_map_iff in Hin. destruct Hin as [[q d] [Hq Hin]]. cbn in Hq. subst q.
        pose proof (yfind_heights h _ _ _ _ _ _ _ Hr _ _ Hin) as Hlt. cbn in Hlt. lia.
      + destruct (yfind h (tl ds) (pre ++ [false]) l kb full) as [v' p'] eqn:Hl. injection Hf as _ <-.
        cbn [map fst]. constructor; [|exact (IH _ _ _ _ _ _ _ Hl)].
        intros Hin. apply in_map_iff in Hin. destruct Hin as [[q d] [Hq Hin]]. cbn in Hq. subst q.
        pose proof (yfind_heights h _ _ _ _ _ _ _ Hl _ _ Hin) as Hlt. cbn in Hlt. lia.
  Qed.

  Lemma assoc_nodup (l : list (hpos * D)) : NoDup (map fst l) ->
    forall q d, In (q, d) l -> assoc (hpos_eqb) q l = Some d.
  Proof.
    induction l as [|[q0 d0] l IH]; intros Hnd q d Hin; [destruct Hin|].
    cbn [map fst] in Hnd. inversion Hnd as [|? ? Hnotin Hnd']; subst. cbn [assoc].
    destruct Hin as [Hin|Hin].
    - injection Hin as -> ->. assert (Hrefl : hpos_eqb q q = true) by (apply hpos_eqb_eq; reflexivity).
      rewrite Hrefl. reflexivity.
    - destruct (hpos_eqb q q0) eqn:Heq.
      + apply hpos_eqb_eq in Heq. subst q0. exfalso. apply Hnotin. apply in_map_iff. exists (q, d). split; [reflexivity|exact Hin].
      + exact (IH Hnd' q d Hin).
  Qed.

  Lemma leaf_height_small n np : (np <= n)%nat -> N.of_nat n < 65536 -> leaf_height n np = N.of_nat (n - np).
  Proof.
    intros Hle Hn. unfold leaf_height.
    assert (Hnp : N.of_nat np mod 65536 = N.of_nat np) by (apply N.mod_small; lia).
    rewrite Hnp. replace (N.of_nat n + 65536 - N.of_nat np) with (N.of_nat (n - np) + 1 * 65536) by lia.
    rewrite N.mod_add by lia. apply N.mod_small. lia.
  Qed.

  (* HyperTree.QueryMembership + QueryProof.Verify: for every key of the map the collected path recomputes
     the root digest, with the stored value *)
  Theorem hyper_complete n ds (m : list (key * V)) k w :
    (limit < n)%nat -> N.of_nat n < 65536 ->
    (forall kv, In kv m -> length (fst kv) = n) ->
    (forall kv1 kv2, In kv1 m -> In kv2 m -> fst kv1 = fst kv2 -> kv1 = kv2) ->
    In (k, w) m ->
    let t := ytree_of D E V H limit n ds m in
    let '(v, p) := hyper_find D E V H n ds t k in
    v = Some w /\ p <> [] /\
    hyper_root_of_proof D E V H n (hpath_get D p) (length p) k w = Some (yroot D E V H ds t).
  Proof.
    intros Hlim Hn Hlen Huniq Hin. cbn zeta. unfold hyper_find, ytree_of, hyper_root_of_proof, yroot.
    set (sub := map (fun kv : key * V => (fst kv, kv)) m).
    assert (Hwf : WfSub n sub).
    { split.
      - intros e He. apply in_map_iff in He. destruct He as [kv [<- Hkv]]. cbn. apply Hlen. exact Hkv.
      - intros e1 e2 H1 H2 Heq. apply in_map_iff in H1, H2. destruct H1 as [kv1 [<- Hk1]]. destruct H2 as [kv2 [<- Hk2]].
        cbn in Heq. rewrite (Huniq kv1 kv2 Hk1 Hk2 Heq). reflexivity. }
    assert (Hin' : In (k, (k, w)) sub) by (apply in_map_iff; exists (k, w); split; [reflexivity|exact Hin]).
    pose proof (yfind_complete n ds [] sub k k w (hpath_get D (snd (yfind n ds [] (ybuild n ds [] sub) k k)))
                  (hd (H YDef0) ds) Hwf Hin') as Hc.
    destruct (yfind n ds [] (ybuild n ds [] sub) k k) as [v p] eqn:Hf. cbn [snd] in Hc.
    destruct Hc as (Hv & Hlp & Hver). split; [exact Hv|]. split.
    - (* the root is never a shortcut leaf because n > limit *)
      intros Hp. subst p. destruct n as [|n']; [lia|].
      destruct sub as [|[kb0 [k0 v0]] rest]; [destruct Hin'|].
      cbn [HyperModel.ybuild] in Hf.
      assert (Hnl : Nat.leb (S n') limit = false) by (apply Nat.leb_gt; lia). rewrite Hnl in Hf.
      assert (Hk : length k = S n') by (apply (Hlen (k, w) Hin)).
      destruct k as [|b k']; [discriminate|].
      destruct rest; cbn [HyperModel.yfind] in Hf; destruct b;
        match type of Hf with context [yfind ?a ?b ?c ?d ?e ?f] => destruct (yfind a b c d e f) end; discriminate.
    - rewrite leaf_height_small by (exact Hlp || exact Hn). apply Hver.
      intros q d Hq. unfold hpath_get. apply assoc_nodup.
      + rewrite map_rev. apply NoDup_rev. exact (yfind_nodup n _ _ _ _ _ _ _ Hf).
      + apply -> in_rev. exact Hq.
  Qed.
End HyperProofs.
