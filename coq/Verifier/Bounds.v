(* C12: the client verifier does a bounded amount of work whatever the answer contains: the recomputation
   it performs is determined by the claimed versions (history) and the key length (hyper), not by the size of
   the audit paths; and it always returns a verdict. *)
From QV Require Import Base.Util Base.HashSig History.HistModel History.HistProofs Hyper.HyperModel Balloon.Balloon.
Close Scope N_scope.
Open Scope nat_scope.

Section Bounds.
  Variable E : Type.

  Fixpoint op_size (o : op E) : nat :=
    match o with
    | OLeaf _ _ | OGet _ _ => 1
    | OInner _ _ l r => S (op_size l + op_size r)
    | OPartial _ _ l => S (op_size l)
    | OPut o | OMutate o | OCollect o => op_size o
    end.

  Lemma verify_go_size idx v (e : E) h : forall i, op_size (verify_go idx v e i h) <= 2 * h + 1.
  Proof.
    induction h as [|h IH]; intros i; cbn [verify_go op_size]; [lia|].
    pose proof (IH i) as H1. pose proof (IH (i + pow2 h)%N) as H2.
    destruct (idx <? _)%N; destruct (v <? _)%N; cbn [op_size]; lia.
  Qed.

  Lemma vstart_go_size v h : forall i, op_size (@vstart_go E v i h) <= 2 * h + 1.
  Proof.
    induction h as [|h IH]; intros i; cbn [vstart_go op_size]; [lia|].
    destruct (v <? _)%N; cbn [op_size]; [specialize (IH i)|specialize (IH (i + pow2 h)%N)]; lia.
  Qed.

  Definition ind (b : bool) : nat := if b then 1 else 0.

  Lemma inr_split x i h : ind (inr x i (S h)) = ind (inr x i h) + ind (inr x (i + pow2 h) h).
  Proof.
    unfold inr. rewrite pow2_S. pose proof (pow2_pos h).
    destruct (i <=? x)%N eqn:H1; destruct (x <? i + 2 * pow2 h)%N eqn:H2; destruct (x <? i + pow2 h)%N eqn:H3;
      destruct (i + pow2 h <=? x)%N eqn:H4; destruct (x <? i + pow2 h + pow2 h)%N eqn:H5; cbn; try reflexivity;
      rewrite ?N.leb_le, ?N.leb_gt, ?N.ltb_lt, ?N.ltb_ge in *; lia.
  Qed.

  (* the end recomputation follows at most the paths to its two targets *)
  Lemma vend_go_size s e h : forall i,
    op_size (@vend_go E s e i h) <= 2 * (ind (inr s i h) + ind (inr e i h)) * h + 1.
  Proof.
    induction h as [|h IH]; intros i; cbn [vend_go].
    - destruct (negb _); cbn [op_size]; lia.
    - destruct (inr s i (S h) || inr e i (S h)) eqn:Hany; cbn [negb op_size]; [|lia].
      pose proof (inr_split s i h) as Hs. pose proof (inr_split e i h) as He.
      assert (Hpos : 1 <= ind (inr s i (S h)) + ind (inr e i (S h))).
      { apply orb_true_iff in Hany. destruct Hany as [->| ->]; cbn; destruct (inr _ _ _); cbn; lia. }
      pose proof (IH i) as Hl. pose proof (IH (i + pow2 h)%N) as Hr.
      destruct (e <? _)%N; cbn [op_size]; nia.
  Qed.

  Theorem membership_work_bounded idx v (e : E) :
    (v < 18446744073709551616)%N -> op_size (pruneToVerify idx v e) <= 129.
  Proof.
    intros Hv. unfold pruneToVerify. pose proof (verify_go_size idx v e (bitlen v) 0%N).
    assert (bitlen v <= 64).
    { destruct (le_lt_dec (bitlen v) 64) as [H1|H1]; [exact H1|exfalso].
      destruct (N.eq_dec v 0) as [->|Hz]; [cbn in H1; lia|].
      pose proof (bitlen_le v ltac:(lia)). pose proof (pow2_mono 65 (bitlen v) H1) as Hm.
      assert (pow2 65 = 36893488147419103232%N) by reflexivity. lia. }
    lia.
  Qed.

  Theorem incremental_work_bounded s e :
    (s < 18446744073709551616)%N -> (e < 18446744073709551616)%N ->
    op_size (@pruneToVerifyIncrementalStart E s) + op_size (@pruneToVerifyIncrementalEnd E s e) <= 129 + 257.
  Proof.
    intros Hs He. unfold pruneToVerifyIncrementalStart, pruneToVerifyIncrementalEnd.
    assert (Hb : forall v, (v < 18446744073709551616)%N -> bitlen v <= 64).
    { intros v Hv. destruct (le_lt_dec (bitlen v) 64) as [H1|H1]; [exact H1|exfalso].
      destruct (N.eq_dec v 0) as [->|Hz]; [cbn in H1; lia|].
      pose proof (bitlen_le v ltac:(lia)). pose proof (pow2_mono 65 (bitlen v) H1) as Hm.
      assert (pow2 65 = 36893488147419103232%N) by reflexivity. lia. }
    pose proof (vstart_go_size s (bitlen s) 0%N). pose proof (vend_go_size s e (bitlen e) 0%N).
    pose proof (Hb s Hs). pose proof (Hb e He).
    assert (ind (inr s 0 (bitlen e)) + ind (inr e 0 (bitlen e)) <= 2) by (destruct (inr s 0 _), (inr e 0 _); cbn; lia).
    nia.
  Qed.
End Bounds.

(* hyper verifier: number of hash evaluations, counted by an instrumented twin of yverify *)
Section HyperCost.
  Variables D V : Type.
  Fixpoint yverify_cost (path : hpos -> option D) (lh : N) (h : nat) (pre : list bool) (kb : key) : nat :=
    if (N.of_nat h <=? lh)%N then 1 else
    match h, kb with
    | S h', b :: kb' =>
        if b then match path (pre ++ [false], h') with None => 0 | Some _ => S (yverify_cost path lh h' (pre ++ [true]) kb') end
        else S (yverify_cost path lh h' (pre ++ [false]) kb')
    | _, _ => 0
    end.
  Lemma yverify_cost_bound path lh h : forall pre kb, yverify_cost path lh h pre kb <= h + 1.
  Proof.
    induction h as [|h IH]; intros pre kb; cbn [yverify_cost]; destruct (_ <=? lh)%N; try lia.
    destruct kb as [|b kb]; [lia|]. destruct b; [destruct (path _)|]; try lia.
    - specialize (IH (pre ++ [true]) kb). lia.
    - specialize (IH (pre ++ [false]) kb). lia.
  Qed.
End HyperCost.

(* the verifier always returns a verdict (by construction: the functions are total and a missing entry is a
   rejection); stated for completeness *)
Section Total.
  Variables D E V : Type.
  Variable H : hin D E V -> D.
  Variable nbits : nat.
  Variable kbits : E -> key.
  Variable vval : N -> V.
  Variable D_eqb : D -> D -> bool.
  Variable E_eqb : E -> E -> bool.
  Theorem digest_verify_total a d h y :
    digest_verify D E V H nbits kbits vval D_eqb E_eqb a d h y = Accept \/
    digest_verify D E V H nbits kbits vval D_eqb E_eqb a d h y = Reject.
  Proof. destruct (digest_verify D E V H nbits kbits vval D_eqb E_eqb a d h y); auto. Qed.
  Theorem incremental_verify_total p s e ds de :
    incremental_verify D E V H D_eqb p s e ds de = Accept \/ incremental_verify D E V H D_eqb p s e ds de = Reject.
  Proof. destruct (incremental_verify D E V H D_eqb p s e ds de); auto. Qed.
End Total.
