(* Balloon-level proofs: invariants of every reachable state (any sequence of Add/AddBulk calls),
   C01 (completeness of membership answers), C02 (soundness of DigestVerify), C04/C05 (canonical
   digests, dense versions). *)
From QV Require Import Base.Util Base.HashSig History.HistModel History.HistSpec History.HistProofs
  Hyper.HyperModel Hyper.HyperProofs Balloon.Balloon.

Lemma nodup_snoc {A} (l : list A) (a : A) : NoDup l -> ~ In a l -> NoDup (l ++ [a]).
Proof.
  intros Hnd Hn. induction l as [|x l IH]; cbn [app]; [constructor; [intros []|constructor]|].
  inversion Hnd as [|? ? Hx Hl]; subst. constructor.
  - intros Hin. apply in_app_or in Hin. destruct Hin as [Hin|[Hin|[]]]; [exact (Hx Hin)|].
    subst a. apply Hn. left. reflexivity.
  - apply IH; [exact Hl|]. intros Hin. apply Hn. right. exact Hin.
Qed.

Lemma nodup_app_inv {A} (l1 l2 : list A) : NoDup (l1 ++ l2) ->
  NoDup l1 /\ NoDup l2 /\ (forall a, In a l1 -> ~ In a l2).
Proof.
  induction l1 as [|x l1 IH]; cbn [app]; intros Hnd.
  - split; [constructor|]. split; [exact Hnd|intros ? []].
  - inversion Hnd as [|? ? Hx Hr]; subst. destruct (IH Hr) as (H1 & H2 & Hd). split.
    + constructor; [|exact H1]. intros Hin. apply Hx. apply in_or_app. left. exact Hin.
    + split; [exact H2|]. intros a [<-|Hin]; [intros Hin2; apply Hx; apply in_or_app; right; exact Hin2|exact (Hd a Hin)].
Qed.

Lemma combine_map_seq {A B C} (f : A -> B) (g : nat -> C) (d : A) (l : list A) : forall a,
  combine (map f l) (map g (seq a (length l))) = map (fun i => (f (nth (i - a) l d), g i)) (seq a (length l)).
Proof.
  induction l as [|x l IH]; intros a; cbn [length seq map combine]; [reflexivity|].
  rewrite Nat.sub_diag. cbn [nth]. f_equal. rewrite IH. apply map_ext_in. intros k Hk. apply in_seq in Hk.
  replace (k - a)%nat with (S (k - S a)) by lia. reflexivity.
Qed.

Lemma seq_add a n : seq a n = map (fun k => a + k)%nat (seq 0 n).
Proof.
  revert a. induction n as [|n IH]; intros a; cbn [seq map]; [reflexivity|].
  rewrite Nat.add_0_r. f_equal. rewrite (IH (S a)), <- seq_shift, map_map. apply map_ext. intros k. lia.
Qed.

Lemma map_fst_combine {A B} (l : list A) (l' : list B) : length l = length l' -> map fst (combine l l') = l.
Proof.
  revert l'. induction l as [|a l IH]; intros [|b l'] Hlen; cbn in *; try reflexivity; try discriminate.
  f_equal. apply IH. lia.
Qed.

Lemma combine3_seq {A B C} (g : nat -> B) (h : nat -> C) (d : A) (l : list A) : forall a,
  combine (combine l (map g (seq a (length l)))) (map h (seq a (length l)))
  = map (fun k => ((nth (k - a) l d, g k), h k)) (seq a (length l)).
Proof.
  induction l as [|x l IH]; intros a; cbn [length seq map combine]; [reflexivity|].
  rewrite Nat.sub_diag. cbn [nth]. f_equal. rewrite IH. apply map_ext_in. intros k Hk. apply in_seq in Hk.
  replace (k - a)%nat with (S (k - S a)) by lia. reflexivity.
Qed.

(* ---------------------------------------------------------------- the key -> value map *)
Section MapLemmas.
  Variable V : Type.
  Notation map_get := (map_get V).
  Notation map_set := (map_set V).

  Lemma map_get_set (m : list (key * V)) k v k' :
    map_get (map_set m k v) k' = if key_eqb k' k then Some v else map_get m k'.
  Proof.
    induction m as [|[k0 v0] m IH]; cbn [HyperModel.map_set HyperModel.map_get].
    - destruct (key_eqb k' k); reflexivity.
    - destruct (key_eqb k k0) eqn:Hk.
      + apply key_eqb_eq in Hk. subst k0. cbn [HyperModel.map_get]. destruct (key_eqb k' k); reflexivity.
      + cbn [HyperModel.map_get]. destruct (key_eqb k' k0) eqn:Hk0.
        * apply key_eqb_eq in Hk0. subst k0. destruct (key_eqb k' k) eqn:Hkk; [|reflexivity].
          apply key_eqb_eq in Hkk. subst k'. rewrite key_eqb_refl in Hk. discriminate.
        * exact IH.
  Qed.

  Lemma existsb_key k (l : list key) : existsb (key_eqb k) l = true <-> In k l.
  Proof.
    rewrite existsb_exists. split.
    - intros [x [Hin Heq]]. apply key_eqb_eq in Heq. subst x. exact Hin.
    - intros Hin. exists k. split; [exact Hin|apply key_eqb_refl].
  Qed.

  Lemma map_set_keys (m : list (key * V)) k v :
    map fst (map_set m k v) = if existsb (key_eqb k) (map fst m) then map fst m else map fst m ++ [k].
  Proof.
    induction m as [|[k0 v0] m IH]; cbn [HyperModel.map_set map fst existsb]; [reflexivity|].
    destruct (key_eqb k k0) eqn:Hk; cbn [orb map fst].
    - reflexivity.
    - rewrite IH. destruct (existsb (key_eqb k) (map fst m)); reflexivity.
  Qed.

  Lemma map_set_nodup (m : list (key * V)) k v : NoDup (map fst m) -> NoDup (map fst (map_set m k v)).
  Proof.
    intros Hnd. rewrite map_set_keys. destruct (existsb (key_eqb k) (map fst m)) eqn:Hex; [exact Hnd|].
    apply nodup_snoc; [exact Hnd|]. intros Hin. apply existsb_key in Hin. congruence.
  Qed.

  Lemma map_set_keys_in (m : list (key * V)) k v k' :
    In k' (map fst (map_set m k v)) <-> k' = k \/ In k' (map fst m).
  Proof.
    rewrite map_set_keys. destruct (existsb (key_eqb k) (map fst m)) eqn:Hex.
    - apply existsb_key in Hex. split; [intros Hin; right; exact Hin|intros [->|Hin]; assumption].
    - rewrite in_app_iff. cbn. split; [intros [Hin|[<-|[]]]; auto|intros [->|Hin]; auto].
  Qed.

  Lemma map_get_in (m : list (key * V)) k w : NoDup (map fst m) -> (In (k, w) m <-> map_get m k = Some w).
  Proof.
    induction m as [|[k0 v0] m IH]; intros Hnd; cbn [HyperModel.map_get]; [split; [intros []|discriminate]|].
    cbn [map fst] in Hnd. inversion Hnd as [|? ? Hk0 Hnd']; subst.
    destruct (key_eqb k k0) eqn:Hk.
    - apply key_eqb_eq in Hk. subst k0. split.
      + intros [Hin|Hin]; [injection Hin as ->; reflexivity|].
        exfalso. apply Hk0. apply in_map_iff. exists (k, w). split; [reflexivity|exact Hin].
      + intros Heq. injection Heq as ->. left. reflexivity.
    - rewrite <- (IH Hnd'). split.
      + intros [Hin|Hin]; [injection Hin as -> _; rewrite key_eqb_refl in Hk; discriminate|exact Hin].
      + intros Hin. right. exact Hin.
  Qed.

  Lemma map_get_none (m : list (key * V)) k : map_get m k = None <-> ~ In k (map fst m).
  Proof.
    induction m as [|[k0 v0] m IH]; cbn [HyperModel.map_get map fst]; [split; [intros _ []|reflexivity]|].
    destruct (key_eqb k k0) eqn:Hk.
    - apply key_eqb_eq in Hk. subst k0. split; [discriminate|intros Hn; exfalso; apply Hn; left; reflexivity].
    - rewrite IH. split.
      + intros Hn [Heq|Hin]; [subst k0; rewrite key_eqb_refl in Hk; discriminate|exact (Hn Hin)].
      + intros Hn Hin. apply Hn. right. exact Hin.
  Qed.

  Lemma nodup_keys_uniq (m : list (key * V)) : NoDup (map fst m) ->
    forall kv1 kv2, In kv1 m -> In kv2 m -> fst kv1 = fst kv2 -> kv1 = kv2.
  Proof.
    intros Hnd [k1 v1] [k2 v2] H1 H2 Heq. cbn in Heq. subst k2.
    apply (map_get_in m k1 v1 Hnd) in H1. apply (map_get_in m k1 v2 Hnd) in H2. congruence.
  Qed.

  (* folding a list of settings: the last setting of a key wins, other keys keep their value *)
  Definition set_all (m : list (key * V)) (l : list (key * V)) : list (key * V) :=
    fold_left (fun acc kv => map_set acc (fst kv) (snd kv)) l m.

  Lemma set_all_cons m k v l : set_all m ((k, v) :: l) = set_all (map_set m k v) l.
  Proof. reflexivity. Qed.

  Lemma set_all_nodup l : forall m, NoDup (map fst m) -> NoDup (map fst (set_all m l)).
  Proof. induction l as [|[k v] l IH]; intros m Hnd; [exact Hnd|]. rewrite set_all_cons. apply IH. apply map_set_nodup. exact Hnd. Qed.

  Lemma set_all_keys l : forall m k, In k (map fst (set_all m l)) <-> In k (map fst l) \/ In k (map fst m).
  Proof.
    induction l as [|[k0 v0] l IH]; intros m k.
    - cbn. split; [intros Hin; right; exact Hin|intros [[]|Hin]; exact Hin].
    - rewrite set_all_cons, IH, map_set_keys_in. cbn [map fst In]. intuition.
  Qed.

  Lemma set_all_get l : forall m k w,
    NoDup (map fst l) ->
    map_get (set_all m l) k = Some w -> In (k, w) l \/ (~ In k (map fst l) /\ map_get m k = Some w).
  Proof.
    induction l as [|[k0 v0] l IH]; intros m k w Hnd Hg.
    - right. split; [intros []|exact Hg].
    - rewrite set_all_cons in Hg. cbn [map fst] in Hnd. inversion Hnd as [|? ? Hk0 Hnd']; subst.
      destruct (IH _ _ _ Hnd' Hg) as [Hin|[Hnin Hg']].
      + left. right. exact Hin.
      + rewrite map_get_set in Hg'. destruct (key_eqb k k0) eqn:Hk.
        * apply key_eqb_eq in Hk. subst k0. injection Hg' as ->. left. left. reflexivity.
        * right. split; [|exact Hg']. intros [Heq|Hin]; [cbn in Heq; subst k0; rewrite key_eqb_refl in Hk; discriminate|exact (Hnin Hin)].
  Qed.

  (* bulk_dedup: first occurrence of every key, in order *)
  Lemma dedup_sub seen (kvs : list (key * V)) kv : In kv (bulk_dedup V seen kvs) -> In kv kvs.
  Proof.
    revert seen. induction kvs as [|[k v] r IH]; intros seen; cbn [bulk_dedup]; [intros []|].
    destruct (existsb (key_eqb k) seen); [intros Hin; right; exact (IH _ Hin)|].
    intros [<-|Hin]; [left; reflexivity|right; exact (IH _ Hin)].
  Qed.

  Lemma dedup_keys seen (kvs : list (key * V)) k :
    In k (map fst kvs) -> In k (map fst (bulk_dedup V seen kvs)) \/ In k seen.
  Proof.
    revert seen. induction kvs as [|[k0 v0] r IH]; intros seen; cbn [bulk_dedup map fst]; [intros []|].
    destruct (existsb (key_eqb k0) seen) eqn:Hex.
    - apply existsb_key in Hex. intros [<-|Hin]; [right; exact Hex|exact (IH seen Hin)].
    - intros [<-|Hin]; [left; left; reflexivity|].
      destruct (IH (k0 :: seen) Hin) as [Hd|[<-|Hs]]; [left; right; exact Hd|left; left; reflexivity|right; exact Hs].
  Qed.

  Lemma dedup_nodup (kvs : list (key * V)) : forall seen,
    NoDup (map fst (bulk_dedup V seen kvs)) /\ (forall k, In k (map fst (bulk_dedup V seen kvs)) -> ~ In k seen).
  Proof.
    induction kvs as [|[k v] r IH]; intros seen; cbn [bulk_dedup]; [split; [constructor|intros ? []]|].
    destruct (existsb (key_eqb k) seen) eqn:Hex; [exact (IH seen)|].
    destruct (IH (k :: seen)) as [Hnd Hns]. cbn [map fst]. split.
    - constructor; [|exact Hnd]. intros Hin. apply (Hns k Hin). left. reflexivity.
    - intros k' [<-|Hin]; [intros Hs; apply existsb_key in Hs; congruence|].
      intros Hs. apply (Hns k' Hin). right. exact Hs.
  Qed.
  Lemma dedup_id (kvs : list (key * V)) : forall seen,
    NoDup (map fst kvs) -> (forall k, In k (map fst kvs) -> ~ In k seen) -> bulk_dedup V seen kvs = kvs.
  Proof.
    induction kvs as [|[k v] r IH]; intros seen Hnd Hs; cbn [bulk_dedup]; [reflexivity|].
    cbn [map fst] in Hnd. inversion Hnd as [|? ? Hk Hr]; subst.
    destruct (existsb (key_eqb k) seen) eqn:Hex.
    - apply existsb_key in Hex. exfalso. apply (Hs k); [left; reflexivity|exact Hex].
    - f_equal. apply IH; [exact Hr|]. intros k' Hin [<-|Hs']; [exact (Hk Hin)|]. apply (Hs k'); [right; exact Hin|exact Hs'].
  Qed.

  Lemma map_set_fresh (m : list (key * V)) k v : ~ In k (map fst m) -> map_set m k v = m ++ [(k, v)].
  Proof.
    induction m as [|[k0 v0] m IH]; intros Hn; cbn [HyperModel.map_set app]; [reflexivity|].
    destruct (key_eqb k k0) eqn:Hk.
    - apply key_eqb_eq in Hk. subst k0. exfalso. apply Hn. left. reflexivity.
    - f_equal. apply IH. intros Hin. apply Hn. right. exact Hin.
  Qed.

  Lemma set_all_fresh l : forall m,
    NoDup (map fst l) -> (forall k, In k (map fst l) -> ~ In k (map fst m)) -> set_all m l = m ++ l.
  Proof.
    induction l as [|[k v] l IH]; intros m Hnd Hf; [rewrite app_nil_r; reflexivity|].
    cbn [map fst] in Hnd. inversion Hnd as [|? ? Hk Hl]; subst.
    rewrite set_all_cons, map_set_fresh by (apply Hf; left; reflexivity).
    rewrite IH; [rewrite <- app_assoc; reflexivity|exact Hl|].
    intros k' Hin. rewrite map_app, in_app_iff. cbn. intros [Hm|[<-|[]]]; [exact (Hf k' (or_intror Hin) Hm)|exact (Hk Hin)].
  Qed.
End MapLemmas.

Section BalloonProofs.
  Variables D E V : Type.
  Variable H : hin D E V -> D.
  Variable nbits limit : nat.
  Variable kbits : E -> key.
  Variable vval : N -> V.
  Variable vnum : V -> N.
  Variable D_eqb : D -> D -> bool.
  Variable E_eqb : E -> E -> bool.
  Variable e0 : E.

  Notation ds := (dlist D E V H nbits).
  Notation state := (state D V).
  Notation add_bulk := (add_bulk D E V H nbits limit ds kbits vval).
  Notation init := (init D V).
  Notation hget := (hget D V).
  Notation root := (root D E V H).
  Notation bver := (b_version D V).
  Notation bmap := (b_hmap D V).

  Hypothesis kbits_len : forall e, length (kbits e) = nbits.

  (* the log as a function *)
  Definition logf (evs : list E) : N -> E := fun i => nth (N.to_nat i) evs e0.

  (* states reachable by any sequence of Add / AddBulk calls, with the events accepted so far *)
  Inductive reach : state -> list E -> Prop :=
  | reach_init : reach init []
  | reach_add st evs new snaps st' :
      reach st evs -> add_bulk st new = Some (snaps, st') -> reach st' (evs ++ new).

  Record Inv (st : state) (evs : list E) : Prop := {
    inv_version : bver st = N.of_nat (length evs);
    inv_store : forall A, (forall i, (i < length evs)%nat -> A (N.of_nat i) = nth i evs e0) ->
                GetOK D E V H A (hget st) (bver st);
    inv_tree : b_tree _ _ st = ytree_of D E V H limit nbits ds (bmap st);
    inv_nodup : NoDup (map fst (bmap st));
    inv_klen : forall k, In k (map fst (bmap st)) -> length k = nbits;
    inv_vals : forall k w, map_get V (bmap st) k = Some w ->
               exists i, (i < length evs)%nat /\ w = vval (N.of_nat i) /\ kbits (nth i evs e0) = k;
    inv_all : forall i, (i < length evs)%nat -> map_get V (bmap st) (kbits (nth i evs e0)) <> None
  }.

  Lemma GetOK_ext (A B : N -> E) (g : cache D) v :
    (forall i, i < v -> A i = B i) -> GetOK D E V H A g v -> GetOK D E V H B g v.
  Proof.
    intros Hag Hg i h Ha Hf. rewrite (Hg i h Ha Hf). f_equal. unfold HistSpec.fz.
    pose proof (pow2_pos h). apply node_ext; [|lia]. intros k Hk1 Hk2 Hk3. apply Hag. lia.
  Qed.

  Lemma versions_from_spec v n : versions_from v n = map (fun k => v + N.of_nat k) (seq 0 n).
  Proof.
    revert v. induction n as [|n IH]; intros v; cbn [versions_from seq map]; [reflexivity|].
    rewrite N.add_0_r. f_equal. rewrite IH, <- seq_shift, map_map. apply map_ext. intros a. lia.
  Qed.

  Lemma inv_init : Inv init [].
  Proof.
    constructor; cbn.
    - reflexivity.
    - intros A _ i h _ Hf. pose proof (pow2_pos h). lia.
    - unfold ytree_of. cbn [map]. destruct nbits; reflexivity.
    - constructor.
    - intros k [].
    - intros k w Hd. discriminate.
    - intros i Hi. lia.
  Qed.

  (* what a call returns and what it leaves behind *)
  Lemma inv_step st evs new snaps st' :
    Inv st evs -> add_bulk st new = Some (snaps, st') ->
    Inv st' (evs ++ new) /\
    snaps = map (fun k => {| s_event := nth k new e0;
                             s_hist := root (logf (evs ++ new)) (N.of_nat (length evs + k));
                             s_hyper := yroot D E V H ds (b_tree _ _ st');
                             s_version := N.of_nat (length evs + k) |}) (seq 0 (length new)).
  Proof.
    intros HI Hadd. unfold Balloon.add_bulk in Hadd.
    set (A := logf (evs ++ new)).
    set (v0 := bver st) in *.
    assert (Hv0 : v0 = N.of_nat (length evs)) by (apply (inv_version _ _ HI)).
    assert (HA : forall i, (i < length evs)%nat -> A (N.of_nat i) = nth i evs e0).
    { intros i Hi. unfold A, logf. rewrite Nat2N.id. apply app_nth1. exact Hi. }
    assert (Hnew : new = map A (map (fun k => v0 + N.of_nat k) (seq 0 (length new)))).
    { rewrite map_map. apply nth_ext with (d := e0) (d' := A 0); [rewrite map_length, seq_length; reflexivity|].
      intros k Hk. rewrite (nth_indep _ (A 0) (A (v0 + N.of_nat (length new)))) by (rewrite map_length, seq_length; exact Hk).
      rewrite (map_nth (fun x => A (v0 + N.of_nat x)) (seq 0 (length new)) (length new) k).
      rewrite seq_nth by exact Hk. unfold A, logf. rewrite Hv0. replace (N.to_nat (N.of_nat (length evs) + N.of_nat (0 + k))) with (length evs + k)%nat by lia.
      rewrite app_nth2 by lia. f_equal. lia. }
    pose proof (inv_store _ _ HI A HA) as Hg0.
    assert (Hg0' : GetOK D E V H A (ins_get (hget st) []) v0) by exact Hg0.
    destruct (bulk_correct D E V H A (hget st) (length new) v0 [] [] Hg0') as (newp & Hrun & Hvals & Hg1).
    unfold tree_add_bulk in Hadd. rewrite <- Hnew in Hrun. rewrite Hrun in Hadd. rewrite !app_nil_r in Hadd.
    injection Hadd as Hsn Hst. rewrite rev_involutive in Hst.
    split.
    - subst st'. constructor; cbn [b_version b_store b_hmap b_tree].
      + rewrite app_length. lia.
      + intros B HB. apply (GetOK_ext A B).
        * intros i Hi. unfold A, logf. rewrite <- (HB (N.to_nat i)) by (rewrite app_length; lia). f_equal. lia.
        * rewrite app_nil_r in Hg1. intros i h Ha Hf. specialize (Hg1 i h Ha Hf).
          unfold ins_get in Hg1. unfold Balloon.hget. cbn [b_store]. rewrite assoc_app. exact Hg1.
      + reflexivity.
      + apply set_all_nodup. exact (inv_nodup _ _ HI).
      + intros k Hk. apply set_all_keys in Hk. destruct Hk as [Hk|Hk]; [|exact (inv_klen _ _ HI k Hk)].
        apply in_map_iff in Hk. destruct Hk as [[k' w] [<- Hin]]. apply dedup_sub in Hin.
        apply in_combine_l in Hin. apply in_map_iff in Hin. destruct Hin as [e [<- _]]. apply kbits_len.
      + intros k w Hg. apply set_all_get in Hg; [|apply dedup_nodup].
        destruct Hg as [Hin|[_ Hold]].
        * apply dedup_sub in Hin. apply (In_nth _ _ (k, w)) in Hin. destruct Hin as (j & Hj & Hnth).
          rewrite combine_length, !map_length, versions_from_spec, map_length, seq_length, Nat.min_id in Hj.
          rewrite combine_nth in Hnth by (rewrite !map_length, versions_from_spec, map_length, seq_length; reflexivity).
          injection Hnth as Hk Hw.
          exists (length evs + j)%nat. split; [rewrite app_length; lia|]. split.
          -- rewrite <- Hw. rewrite (nth_indep _ w (vval 0)) by (rewrite map_length, versions_from_spec, map_length, seq_length; exact Hj).
             rewrite map_nth. f_equal. rewrite versions_from_spec.
             rewrite (nth_indep _ 0 (v0 + N.of_nat (length new))) by (rewrite map_length, seq_length; exact Hj).
             rewrite (map_nth (fun x => v0 + N.of_nat x)). rewrite seq_nth by exact Hj. lia.
          -- rewrite app_nth2 by lia. replace (length evs + j - length evs)%nat with j by lia.
             rewrite <- Hk. rewrite (nth_indep _ k (kbits e0)) by (rewrite map_length; exact Hj). symmetry. apply map_nth.
        * destruct (inv_vals _ _ HI k w Hold) as (i & Hi & Hw & Hk). exists i. split; [rewrite app_length; lia|].
          split; [exact Hw|]. rewrite app_nth1 by exact Hi. exact Hk.
      + intros i Hi. rewrite app_length in Hi. rewrite map_get_none. intros Hn. apply Hn. clear Hn.
        apply set_all_keys.
        destruct (lt_dec i (length evs)) as [Hold|Hnw].
        * right. rewrite app_nth1 by exact Hold. pose proof (inv_all _ _ HI i Hold) as Hne.
          rewrite map_get_none in Hne. destruct (in_dec (list_eq_dec Bool.bool_dec) (kbits (nth i evs e0)) (map fst (bmap st))) as [Hin|Hnin]; [exact Hin|contradiction].
        * left. rewrite app_nth2 by lia.
          assert (Hkin : In (kbits (nth (i - length evs) new e0)) (map fst (combine (map kbits new) (map vval (versions_from v0 (length new)))))).
          { rewrite map_fst_combine by (rewrite !map_length, versions_from_spec, map_length, seq_length; reflexivity).
            apply in_map. apply nth_In. lia. }
          destruct (dedup_keys V [] _ _ Hkin) as [Hd|[]]. exact Hd.
    - rewrite <- Hsn. subst st'. cbn [b_tree]. unfold hyper_digest, hyper_tree. cbn [b_tree].
      rewrite versions_from_spec.
      rewrite (combine3_seq (fun k => root A (v0 + N.of_nat k)) (fun k => v0 + N.of_nat k) e0 new 0).
      rewrite map_map. apply map_ext_in. intros k Hk. apply in_seq in Hk. cbn [fst snd].
      rewrite Nat.sub_0_r. f_equal; [f_equal; lia|lia].
  Qed.

  Theorem reach_inv st evs : reach st evs -> Inv st evs.
  Proof.
    induction 1 as [|st evs new snaps st' Hr IH Hadd]; [exact inv_init|].
    exact (proj1 (inv_step st evs new snaps st' IH Hadd)).
  Qed.

  (* C04 / C05 at the balloon level: in every reachable state, whatever calls led to it, a call
     inserting `new` returns for its k-th event the snapshot (event, canonical history root of version
     |evs|+k over the log evs++new, hyper root of the resulting map, version |evs|+k). *)
  Theorem snapshots_canonical st evs new snaps st' :
    reach st evs -> add_bulk st new = Some (snaps, st') ->
    snaps = map (fun k => {| s_event := nth k new e0;
                             s_hist := root (logf (evs ++ new)) (N.of_nat (length evs + k));
                             s_hyper := yroot D E V H ds (ytree_of D E V H limit nbits ds (bmap st'));
                             s_version := N.of_nat (length evs + k) |}) (seq 0 (length new)) /\
    bmap st' = map_add_bulk V (bmap st) (combine (map kbits new) (map vval (versions_from (bver st) (length new)))) /\
    bver st' = N.of_nat (length (evs ++ new)).
  Proof.
    intros Hr Hadd. pose proof (reach_inv _ _ Hr) as HI.
    destruct (inv_step st evs new snaps st' HI Hadd) as [HI' Hsn].
    rewrite (inv_tree _ _ HI') in Hsn. split; [exact Hsn|]. split; [|exact (inv_version _ _ HI')].
    unfold Balloon.add_bulk in Hadd. destruct (tree_add_bulk D E V H (hget st) new (bver st)) as [[roots muts]|]; [|discriminate].
    injection Hadd as _ <-. reflexivity.
  Qed.

  (* a call never fails in a reachable state (the Go code panics only on the empty bulk, which the model
     does not distinguish: see C11) *)
  Theorem add_total st evs new : reach st evs -> exists snaps st', add_bulk st new = Some (snaps, st').
  Proof.
    intros Hr. pose proof (reach_inv _ _ Hr) as HI. unfold Balloon.add_bulk.
    set (A := logf (evs ++ new)). set (v0 := bver st).
    assert (Hv0 : v0 = N.of_nat (length evs)) by (apply (inv_version _ _ HI)).
    assert (HA : forall i, (i < length evs)%nat -> A (N.of_nat i) = nth i evs e0).
    { intros i Hi. unfold A, logf. rewrite Nat2N.id. apply app_nth1. exact Hi. }
    assert (Hnew : new = map A (map (fun k => v0 + N.of_nat k) (seq 0 (length new)))).
    { rewrite map_map. apply nth_ext with (d := e0) (d' := A 0); [rewrite map_length, seq_length; reflexivity|].
      intros k Hk. rewrite (nth_indep _ (A 0) (A (v0 + N.of_nat (length new)))) by (rewrite map_length, seq_length; exact Hk).
      rewrite (map_nth (fun x => A (v0 + N.of_nat x)) (seq 0 (length new)) (length new) k).
      rewrite seq_nth by exact Hk. unfold A, logf. rewrite Hv0. replace (N.to_nat (N.of_nat (length evs) + N.of_nat (0 + k))) with (length evs + k)%nat by lia.
      rewrite app_nth2 by lia. f_equal. lia. }
    pose proof (inv_store _ _ HI A HA) as Hg0.
    destruct (bulk_correct D E V H A (hget st) (length new) v0 [] [] Hg0) as (newp & Hrun & _ & _).
    unfold tree_add_bulk. rewrite <- Hnew in Hrun. rewrite Hrun. eauto.
  Qed.


  (* C04, grouping independence: for distinct events the hyper map (hence the hyper digest) of a
     reachable state is the same list whatever split into calls produced it *)
  Theorem hmap_of_distinct_events st evs :
    reach st evs -> NoDup (map kbits evs) ->
    bmap st = map (fun i => (kbits (nth i evs e0), vval (N.of_nat i))) (seq 0 (length evs)).
  Proof.
    induction 1 as [|st evs new snaps st' Hr IH Hadd]; intros Hnd; [reflexivity|].
    rewrite map_app in Hnd. destruct (nodup_app_inv _ _ Hnd) as (Hnd1 & Hnd2 & Hdisj).
    specialize (IH Hnd1).
    destruct (snapshots_canonical st evs new snaps st' Hr Hadd) as (_ & Hm & _).
    pose proof (inv_version _ _ (reach_inv _ _ Hr)) as Hver.
    rewrite Hm, IH. unfold map_add_bulk.
    set (kvs := combine (map kbits new) (map vval (versions_from (bver st) (length new)))).
    assert (Hk : map fst kvs = map kbits new).
    { unfold kvs. apply map_fst_combine. rewrite !map_length, versions_from_spec, map_length, seq_length. reflexivity. }
    rewrite dedup_id; [|rewrite Hk; exact Hnd2|intros ? _ []].
    change (fold_left (fun acc kv => map_set V acc (fst kv) (snd kv)) kvs ?m) with (set_all V m kvs).
    rewrite set_all_fresh.
    - rewrite app_length, seq_app, map_app. f_equal.
      + apply map_ext_in. intros i Hi. apply in_seq in Hi. rewrite app_nth1 by lia. reflexivity.
      + unfold kvs. rewrite versions_from_spec, Hver, map_map.
        rewrite (combine_map_seq kbits (fun x => vval (N.of_nat (length evs) + N.of_nat x)) e0 new 0).
        rewrite (seq_add (0 + length evs)), map_map. apply map_ext_in. intros j Hj. apply in_seq in Hj.
        rewrite app_nth2 by lia. f_equal; [f_equal; f_equal; lia|f_equal; lia].
    - rewrite Hk. exact Hnd2.
    - rewrite Hk. intros k Hin. rewrite map_map. cbn [fst]. intros Hin2.
      apply in_map_iff in Hin2. destruct Hin2 as [i [Hki Hi]]. apply in_seq in Hi.
      apply (Hdisj k); [|exact Hin]. rewrite <- Hki. apply in_map. apply nth_In. lia.
  Qed.

  (* the history digest of version v depends on the first v+1 events only *)
  Theorem root_prefix (A B : N -> E) v : (forall k, k <= v -> A k = B k) -> root A v = root B v.
  Proof.
    intros Hag. unfold HistSpec.root. apply node_ext; [|lia]. intros k _ _ Hk. apply Hag. exact Hk.
  Qed.

  (* ------------------------------------------------------------------ C02 *)
  Hypothesis H_inj : forall a b, H a = H b -> a = b.
  Hypothesis D_eqb_eq : forall a b, D_eqb a b = true <-> a = b.

  Notation digest_verify := (digest_verify D E V H nbits kbits vval D_eqb E_eqb).

  (* DigestVerify accepted against the authentic history digest of version v of log A (and ANY hyper
     digest): the answer claims existence at a version not beyond the queried one, that version exists in
     the authentic log and the event inserted there is exactly the digest that was verified.
     Every field of the answer and both audit paths are universally quantified. *)
  Theorem digest_verify_sound (A : N -> E) (a : answer D E V) (d : E) (v : N) (hyper_digest : D) :
    digest_verify a d (root A v) hyper_digest = Accept ->
    a_exists _ _ _ a = true /\ a_actual _ _ _ a <= a_query _ _ _ a /\
    d = A (a_actual _ _ _ a) /\ a_actual _ _ _ a <= v.
  Proof.
    unfold Balloon.digest_verify. intros Hacc.
    destruct (a_exists _ _ _ a) eqn:Hex; cbn [negb orb] in Hacc; [|discriminate].
    destruct (a_query _ _ _ a <? a_actual _ _ _ a) eqn:Hqa; [discriminate|].
    apply N.ltb_ge in Hqa. split; [reflexivity|]. split; [exact Hqa|].
    destruct (hyper_verify D E V H nbits kbits D_eqb E_eqb a d hyper_digest (vval (a_actual _ _ _ a))) eqn:Hhv; try discriminate;
      unfold Balloon.history_verify in Hacc; destruct (a_history _ _ _ a) as [p|]; try discriminate;
      destruct (membership_root D E V H (path_get p) (a_actual _ _ _ a) (a_query _ _ _ a) d) as [r|] eqn:Hm; try discriminate;
      destruct (D_eqb r (root A v)) eqn:Hr; try discriminate.
    apply D_eqb_eq in Hr. subst r.
    exact (membership_sound D E V H H_inj A (path_get p) _ _ v d Hqa Hm).
  Qed.

  (* ------------------------------------------------------------------ C01 *)
  Hypothesis limit_lt : (limit < nbits)%nat.
  Hypothesis nbits_small : N.of_nat nbits < 65536.
  Hypothesis kbits_inj : forall a b, kbits a = kbits b -> a = b.
  Hypothesis vnum_vval : forall v, v < W64 -> vnum (vval v) = v.
  Hypothesis E_eqb_eq : forall a b, E_eqb a b = true <-> a = b.

  Notation query_c := (query_membership_consistency D E V H nbits ds kbits vnum).

  (* In every reachable state, for every digest d the hyper map knows (i.e. every accepted event), with
     reported version vnum w, and every query version q with reported <= q <= current: the server answers,
     claims existence at the reported version, that version really holds d, and the client verifier accepts
     the answer against the history digest of snapshot q and the hyper digest of the current snapshot. *)
  Theorem membership_answer_verifies st evs d w q :
    reach st evs -> N.of_nat (length evs) < W64 ->
    map_get V (bmap st) (kbits d) = Some w -> vnum w <= q -> q < bver st ->
    exists a, query_c st d q = QOk D E V a /\
              a_exists _ _ _ a = true /\ a_actual _ _ _ a = vnum w /\ a_query _ _ _ a = q /\
              a_current _ _ _ a = bver st - 1 /\
              nth (N.to_nat (vnum w)) evs e0 = d /\
              digest_verify a d (root (logf evs) q) (hyper_digest D E V H ds st) = Accept.
  Proof.
    intros Hr Hlen Hget Hwq Hq. pose proof (reach_inv _ _ Hr) as HI.
    pose proof (inv_version _ _ HI) as Hver.
    assert (Hin : In (kbits d, w) (bmap st)) by (apply map_get_in; [exact (inv_nodup _ _ HI)|exact Hget]).
    destruct (inv_vals _ _ HI _ _ Hget) as (i & Hi & Hw & Hki). apply kbits_inj in Hki.
    assert (Hvn : vnum w = N.of_nat i) by (rewrite Hw; apply vnum_vval; lia).
    unfold Balloon.query_membership_consistency.
    assert (Hcur : current_version D V st = bver st - 1).
    { unfold current_version. replace (bver st + W64 - 1) with (bver st - 1 + 1 * W64) by lia.
      rewrite N.mod_add by (unfold W64; lia). apply N.mod_small. lia. }
    rewrite Hcur. assert (Hclip : (bver st - 1 <? q) = false) by (apply N.ltb_ge; lia). rewrite Hclip.
    unfold hyper_tree. rewrite (inv_tree _ _ HI).
    pose proof (hyper_complete D E V H limit nbits ds (bmap st) (kbits d) w limit_lt nbits_small) as Hhc.
    cbn zeta in Hhc.
    specialize (Hhc (fun kv Hkv => inv_klen _ _ HI (fst kv) (in_map fst _ _ Hkv))
                    (nodup_keys_uniq V _ (inv_nodup _ _ HI)) Hin).
    destruct (hyper_find D E V H nbits ds (ytree_of D E V H limit nbits ds (bmap st)) (kbits d)) as [val hp] eqn:Hfind.
    destruct Hhc as (Hval & Hne & Hroot). subst val.
    assert (Hle : (vnum w <=? q) = true) by (apply N.leb_le; exact Hwq). rewrite Hle.
    set (A := logf evs).
    assert (Hstore : StoreOK D E V H A (hget st) (bver st - 1)).
    { intros j h Ha Hf. apply (inv_store _ _ HI A); [|exact Ha|lia].
      intros k Hk. unfold A, logf. rewrite Nat2N.id. reflexivity. }
    destruct (membership_complete D E V H A (hget st) (bver st - 1) Hstore (vnum w) q Hwq ltac:(lia)) as (p & Hp & Hmr).
    rewrite Hp. eexists. split; [reflexivity|]. cbn [a_exists a_actual a_query a_current].
    split; [reflexivity|]. split; [reflexivity|]. split; [reflexivity|]. split; [reflexivity|].
    assert (HAd : A (vnum w) = d) by (unfold A, logf; rewrite Hvn, Nat2N.id; exact Hki).
    split; [rewrite Hvn, Nat2N.id; exact Hki|].
    unfold Balloon.digest_verify. cbn [a_exists a_actual a_query negb orb].
    assert (Hqa : (q <? vnum w) = false) by (apply N.ltb_ge; exact Hwq). rewrite Hqa.
    unfold Balloon.hyper_verify, Balloon.history_verify. cbn [a_hyper_path a_key a_history a_actual a_query].
    destruct hp as [|x hp']; [contradiction|].
    assert (Hvv : vval (vnum w) = w) by (rewrite Hvn; symmetry; exact Hw). rewrite Hvv.
    unfold Balloon.hyper_digest, hyper_tree. rewrite (inv_tree _ _ HI).
    rewrite Hroot.
    assert (Hee : E_eqb d d = true) by (apply E_eqb_eq; reflexivity).
    assert (Hdd : forall r, D_eqb r r = true) by (intros r; apply D_eqb_eq; reflexivity).
    rewrite Hee, Hdd. cbn [andb].
    rewrite <- HAd at 1. rewrite Hmr, Hdd. reflexivity.
  Qed.

  (* ------------------------------------------------------------------ C13 (membership answers)
     For a genuine answer to a query at q <= current, the proof object the server built and its wire form
     (history proof rebuilt at (ActualVersion, QueryVersion), hyper value rebuilt from ActualVersion) give the
     same verdict for every digest and every pair of snapshot digests. *)
  Theorem wire_preserves_verdict st evs d q a :
    reach st evs -> N.of_nat (length evs) < W64 -> q < bver st ->
    query_c st d q = QOk D E V a ->
    forall d' h y, object_verify D E V H nbits kbits D_eqb E_eqb a d' h y = digest_verify a d' h y.
  Proof.
    intros Hr Hlen Hq Hqc d' h y. pose proof (reach_inv _ _ Hr) as HI.
    unfold Balloon.query_membership_consistency in Hqc.
    assert (Hcur : current_version D V st = bver st - 1).
    { pose proof (inv_version _ _ HI). unfold current_version. replace (bver st + W64 - 1) with (bver st - 1 + 1 * W64) by lia.
      rewrite N.mod_add by (unfold W64; lia). apply N.mod_small. lia. }
    rewrite Hcur in Hqc. assert (Hclip : (bver st - 1 <? q) = false) by (apply N.ltb_ge; lia). rewrite Hclip in Hqc.
    destruct (hyper_find D E V H nbits ds (hyper_tree D V st) (kbits d)) as [val hp] eqn:Hfind.
    destruct val as [w|].
    - destruct (vnum w <=? q) eqn:Hle; [|discriminate].
      destruct (prove_membership D E V H (hget st) (vnum w) q) as [p|]; [|discriminate].
      injection Hqc as <-. unfold Balloon.object_verify, Balloon.digest_verify.
      cbn [a_exists a_actual a_query a_hyper_value a_history a_hist_index a_hist_version negb orb].
      destruct (q <? vnum w); [reflexivity|].
      assert (Hw : vval (vnum w) = w).
      { unfold hyper_find, hyper_tree in Hfind. rewrite (inv_tree _ _ HI) in Hfind. unfold ytree_of in Hfind.
        destruct (yfind_value_in D E V H limit _ _ _ _ _ _ _ _ Hfind) as [kb' Hin].
        apply in_map_iff in Hin. destruct Hin as [[k0 w0] [Heq Hin]]. injection Heq as _ -> ->.
        apply (map_get_in V _ _ _ (inv_nodup _ _ HI)) in Hin.
        destruct (inv_vals _ _ HI _ _ Hin) as (i & Hi & -> & _). rewrite vnum_vval by lia. reflexivity. }
      rewrite Hw. unfold Balloon.history_verify. cbn [a_history a_actual a_query]. reflexivity.
    - injection Hqc as <-. reflexivity.
  Qed.

  (* ------------------------------------------------------------------ C05 (balloon level) *)
  Theorem bulk_consecutive st evs new snaps st' :
    reach st evs -> add_bulk st new = Some (snaps, st') ->
    map (fun s => (s_event D E s, s_version D E s)) snaps =
      map (fun k => (nth k new e0, N.of_nat (length evs + k))) (seq 0 (length new)) /\
    bver st' = N.of_nat (length (evs ++ new)).
  Proof.
    intros Hr Hadd. destruct (snapshots_canonical st evs new snaps st' Hr Hadd) as (Hs & _ & Hv).
    split; [|exact Hv]. rewrite Hs, map_map. reflexivity.
  Qed.

  Theorem current_version_reported st evs d w q :
    reach st evs -> N.of_nat (length evs) < W64 ->
    map_get V (bmap st) (kbits d) = Some w -> vnum w <= q -> q < bver st ->
    exists a, query_c st d q = QOk D E V a /\ a_current _ _ _ a = N.of_nat (length evs) - 1.
  Proof.
    intros Hr Hlen Hget Hwq Hq.
    destruct (membership_answer_verifies st evs d w q Hr Hlen Hget Hwq Hq) as (a & Ha & _ & _ & _ & Hc & _).
    exists a. split; [exact Ha|]. rewrite Hc, (inv_version _ _ (reach_inv _ _ Hr)). reflexivity.
  Qed.
End BalloonProofs.
