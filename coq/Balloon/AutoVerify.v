(* client.HTTPClient.MembershipAutoVerify and IncrementalAutoVerify: the control logic around the verifiers - which
   versions the answer must carry and which published snapshots it is checked against.  S is the snapshot store:
   version -> (history digest, hyper digest) of the published snapshot, None when the store has none.
   No proofs here. *)
From QV Require Import Base.Util Base.HashSig History.HistModel Hyper.HyperModel Balloon.Balloon.

Section AutoVerify.
  Variables D E V : Type.
  Notation verdict := (verdict).

  (* the version/snapshot selection, generic in the verifier that is finally called (dv hist hyper) *)
  Definition auto_verify_gen (check_version : bool) (dv : D -> D -> verdict) (S : N -> option (D * D))
             (requested : option N) (q cur act : N) : verdict :=
    if check_version && (match requested with Some v => negb (q =? v) | None => false end) then Reject else
    match S q with
    | None => Reject
    | Some (hist, hyp) =>
        if cur =? act then dv hist hyp
        else match S cur with
             | None => Reject
             | Some (_, hyp2) => dv hist hyp2
             end
    end.

  Variable H : hin D E V -> D.
  Variable nbits : nat.
  Variable kbits : E -> key.
  Variable vval : N -> V.
  Variable D_eqb : D -> D -> bool.
  Variable E_eqb : E -> E -> bool.

  (* MembershipAutoVerify(d, requested) on the answer a; check_version = false is the code before fix 38c5ded *)
  Definition auto_verify (check_version : bool) (S : N -> option (D * D)) (requested : option N) (a : answer D E V) (d : E) : verdict :=
    auto_verify_gen check_version (digest_verify D E V H nbits kbits vval D_eqb E_eqb a d) S requested
                    (a_query _ _ _ a) (a_current _ _ _ a) (a_actual _ _ _ a).

  (* IncrementalAutoVerify(s, e): the snapshots are those of the versions the CALLER named *)
  Definition incr_auto_verify (S : N -> option (D * D)) (s e : N) (p : list (pos * D)) (ps pe : N) : verdict :=
    match S s, S e with
    | Some (hs, _), Some (he, _) => incremental_verify D E V H D_eqb p ps pe hs he
    | _, _ => Reject
    end.
End AutoVerify.
