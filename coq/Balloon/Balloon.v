(* Executable mirror of balloon/balloon.go on top of the history model and the hyper construction:
   versions, Add/AddBulk, QueryDigestMembership(Consistency), QueryConsistency, DigestVerify,
   IncrementalProof.Verify.  No proofs here. *)
From QV Require Import Base.Util Base.HashSig History.HistModel Hyper.HyperModel.

Section Balloon.
  Variables D E V : Type.
  Variable H : hin D E V -> D.
  Variable nbits limit : nat.       (* 256, 232 *)
  Variable ds : list D.             (* the default hashes dlist nbits, computed once *)
  Variable kbits : E -> key.        (* the bits of an event digest: its hyper-tree key *)
  Variable vval : N -> V.           (* version -> stored value (8 bytes big endian, left padded to the key length) *)
  Variable vnum : V -> N.           (* stored value -> version (last 8 bytes) *)
  Variable D_eqb : D -> D -> bool.
  Variable E_eqb : E -> E -> bool.

  Definition W64 : N := 18446744073709551616.

  Record snapshot := { s_event : E; s_hist : D; s_hyper : D; s_version : N }.

  Record state := {
    b_store : list (pos * D);          (* HistoryTable: every mutation so far, newest first *)
    b_version : N;                     (* Balloon.version = number of events *)
    b_hmap : list (key * V);           (* what the hyper tree holds *)
    b_tree : ytree D V;                (* = ytree_of b_hmap, kept so that queries do not rebuild it *)
  }.
  Definition init : state := {| b_store := []; b_version := 0; b_hmap := []; b_tree := TEmpty |}.

  Definition hget (st : state) : cache D := fun p => assoc pos_eqb p (b_store st).
  Definition hyper_tree (st : state) := b_tree st.
  Definition hyper_digest (st : state) : D := yroot D E V H ds (hyper_tree st).

  Fixpoint versions_from (v : N) (n : nat) : list N :=
    match n with O => [] | S k => v :: versions_from (v + 1) k end.

  (* Balloon.AddBulk (Add = bulk of one): None = the Go code panics *)
  Definition add_bulk (st : state) (evs : list E) : option (list snapshot * state) :=
    let v0 := b_version st in
    match tree_add_bulk D E V H (hget st) evs v0 with
    | None => None
    | Some (roots, muts) =>
        let vs := versions_from v0 (length evs) in
        let hm := map_add_bulk V (b_hmap st) (combine (map kbits evs) (map vval vs)) in
        let st' := {| b_store := rev muts ++ b_store st; b_version := v0 + N.of_nat (length evs); b_hmap := hm;
                      b_tree := ytree_of D E V H limit nbits ds hm |} in
        let hd := hyper_digest st' in
        Some (map (fun x => {| s_event := fst (fst x); s_hist := snd (fst x); s_hyper := hd; s_version := snd x |})
                  (combine (combine evs roots) vs), st')
    end.

  Record answer := {
    a_key : E;                                (* KeyDigest *)
    a_exists : bool;
    a_hyper_value : option V;                 (* QueryProof.Value (nil when the key is not found) *)
    a_hyper_path : list (hpos * D);
    a_history : option (list (pos * D));      (* nil HistoryProof when absent *)
    a_hist_index : N; a_hist_version : N;     (* HistoryProof.Index / .Version: what the server built the proof at *)
    a_current : N; a_query : N; a_actual : N
  }.

  Inductive qresult := QOk (a : answer) | QError | QPanic.

  Definition current_version (st : state) : N := (b_version st + W64 - 1) mod W64.

  (* QueryDigestMembershipConsistency *)
  Definition query_membership_consistency (st : state) (d : E) (version : N) : qresult :=
    let cur := current_version st in
    let v := if cur <? version then cur else version in
    let '(val, hp) := hyper_find D E V H nbits ds (hyper_tree st) (kbits d) in
    match val with
    | None => QOk {| a_key := d; a_exists := false; a_hyper_value := None; a_hyper_path := hp; a_history := None;
                     a_hist_index := 0; a_hist_version := 0;
                     a_current := cur; a_query := version; a_actual := v |}
    | Some w =>
        let actual := vnum w in
        if actual <=? v then
          match prove_membership D E V H (hget st) actual v with
          | None => QPanic
          | Some p => QOk {| a_key := d; a_exists := true; a_hyper_value := Some w; a_hyper_path := hp; a_history := Some p;
                             a_hist_index := actual; a_hist_version := v;
                             a_current := cur; a_query := version; a_actual := actual |}
          end
        else QError
    end.

  (* QueryDigestMembership: query version = current version *)
  Definition query_membership (st : state) (d : E) : qresult :=
    match query_membership_consistency st d (current_version st) with
    | QError => QPanic      (* "This cannot happen unless QED was tampered" *)
    | r => r
    end.

  Definition query_consistency (st : state) (s e : N) : option (option (list (pos * D))) :=
    if (b_version st <=? s) || (b_version st <=? e) || (e <? s) then None   (* clean error: invalid range *)
    else Some (prove_consistency D E V H (hget st) s e).

  (* verdicts.  A missing audit-path entry is a rejection (it was a panic before the fix commits 76e96b4, 538027d) *)
  Inductive verdict := Accept | Reject.

  Definition hyper_verify (a : answer) (d : E) (hyper_digest : D) (value : V) : verdict :=
    match a_hyper_path a with
    | [] => Reject
    | _ =>
      match hyper_root_of_proof D E V H nbits (hpath_get D (a_hyper_path a))
              (length (a_hyper_path a)) (kbits d) value with
      | None => Reject
      | Some r => if E_eqb d (a_key a) && D_eqb r hyper_digest then Accept else Reject
      end
    end.

  Definition history_verify (a : answer) (d : E) (hist_digest : D) : verdict :=
    match a_history a with
    | None => Reject
    | Some p =>
        match membership_root D E V H (path_get p) (a_actual a) (a_query a) d with
        | None => Reject
        | Some r => if D_eqb r hist_digest then Accept else Reject
        end
    end.

  (* MembershipProof.DigestVerify after ToBalloonProof (the hyper value is rebuilt from ActualVersion):
     an existence claim with ActualVersion <= QueryVersion must pass BOTH proofs; everything else is
     rejected. *)
  Definition digest_verify (a : answer) (d : E) (snap_hist snap_hyper : D) : verdict :=
    if negb (a_exists a) || (a_query a <? a_actual a) then Reject else
    match hyper_verify a d snap_hyper (vval (a_actual a)), history_verify a d snap_hist with
    | Accept, Accept => Accept
    | _, _ => Reject
    end.

  (* DigestVerify on the proof object as the server built it (before ToMembershipResult / ToBalloonProof):
     the hyper value is the stored one and the history proof carries its own index and version *)
  Definition object_verify (a : answer) (d : E) (snap_hist snap_hyper : D) : verdict :=
    if negb (a_exists a) || (a_query a <? a_actual a) then Reject else
    match a_hyper_value a, a_history a with
    | Some w, Some p =>
        match hyper_verify a d snap_hyper w,
              (match membership_root D E V H (path_get p) (a_hist_index a) (a_hist_version a) d with
               | None => Reject
               | Some r => if D_eqb r snap_hist then Accept else Reject
               end) with
        | Accept, Accept => Accept
        | _, _ => Reject
        end
    | _, _ => Reject
    end.

  Definition incremental_verify (p : list (pos * D)) (s e : N) (ds de : D) : verdict :=
    match incremental_roots D E V H (path_get p) s e with
    | (Some a, Some b) => if D_eqb a ds && D_eqb b de then Accept else Reject
    | _ => Reject
    end.
End Balloon.
