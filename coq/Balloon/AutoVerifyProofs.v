(* The client's AutoVerify entry points are sound with respect to the version(s) the CALLER asked about, given an
   authentic snapshot store; the code before fix 38c5ded was not. *)
From QV Require Import Base.Util Base.HashSig History.HistSpec History.HistModel History.HistProofs Hyper.HyperModel
  Balloon.Balloon Balloon.BalloonProofs Balloon.AutoVerify.

Section AutoVerifyProofs.
  Variables D E V : Type.
  Variable H : hin D E V -> D.
  Variable nbits : nat.
  Variable kbits : E -> key.
  Variable vval : N -> V.
  Variable D_eqb : D -> D -> bool.
  Variable E_eqb : E -> E -> bool.
  Hypothesis H_inj : forall a b, H a = H b -> a = b.
  Hypothesis D_eqb_eq : forall a b, D_eqb a b = true <-> a = b.

  (* the store publishes the snapshots of the log A (whatever hyper digests; versions it does not have: None) *)
  Definition authentic (A : N -> E) (S : N -> option (D * D)) : Prop :=
    forall q h y, S q = Some (h, y) -> h = root D E V H A q.

  Theorem auto_verify_sound (A : N -> E) (S : N -> option (D * D)) (a : answer D E V) (d : E) (v : N) :
    authentic A S ->
    auto_verify D E V H nbits kbits vval D_eqb E_eqb true S (Some v) a d = Accept ->
    a_exists _ _ _ a = true /\ d = A (a_actual _ _ _ a) /\ a_actual _ _ _ a <= v.
  Proof.
    intros HS. unfold auto_verify, auto_verify_gen. cbn [andb].
    destruct (a_query _ _ _ a =? v) eqn:Hq; cbn [negb]; [|discriminate]. apply N.eqb_eq in Hq.
    destruct (S (a_query _ _ _ a)) as [[hist hyp]|] eqn:Hs; [|discriminate].
    pose proof (HS _ _ _ Hs) as Hh. subst hist.
    assert (Hfin : forall y, digest_verify D E V H nbits kbits vval D_eqb E_eqb a d (root D E V H A (a_query _ _ _ a)) y = Accept ->
                   a_exists _ _ _ a = true /\ d = A (a_actual _ _ _ a) /\ a_actual _ _ _ a <= v).
    { intros y Hacc. destruct (digest_verify_sound D E V H nbits kbits vval D_eqb E_eqb H_inj D_eqb_eq A a d _ y Hacc) as (E1 & E2 & E3 & E4).
      split; [exact E1|]. split; [exact E3|]. rewrite <- Hq. exact E4. }
    destruct (a_current _ _ _ a =? a_actual _ _ _ a); [apply Hfin|].
    destruct (S (a_current _ _ _ a)) as [[h2 y2]|]; [apply Hfin|discriminate].
  Qed.

  (* without a requested version (query at the newest version) the claim is relative to the version the answer names *)
  Theorem auto_verify_sound_latest (A : N -> E) (S : N -> option (D * D)) (a : answer D E V) (d : E) chk :
    authentic A S ->
    auto_verify D E V H nbits kbits vval D_eqb E_eqb chk S None a d = Accept ->
    a_exists _ _ _ a = true /\ d = A (a_actual _ _ _ a) /\ a_actual _ _ _ a <= a_query _ _ _ a.
  Proof.
    intros HS. unfold auto_verify, auto_verify_gen. rewrite andb_false_r.
    destruct (S (a_query _ _ _ a)) as [[hist hyp]|] eqn:Hs; [|discriminate].
    pose proof (HS _ _ _ Hs) as Hh. subst hist.
    assert (Hfin : forall y, digest_verify D E V H nbits kbits vval D_eqb E_eqb a d (root D E V H A (a_query _ _ _ a)) y = Accept ->
                   a_exists _ _ _ a = true /\ d = A (a_actual _ _ _ a) /\ a_actual _ _ _ a <= a_query _ _ _ a).
    { intros y Hacc. destruct (digest_verify_sound D E V H nbits kbits vval D_eqb E_eqb H_inj D_eqb_eq A a d _ y Hacc) as (E1 & E2 & E3 & E4).
      split; [exact E1|]. split; [exact E3|exact E4]. }
    destruct (a_current _ _ _ a =? a_actual _ _ _ a); [apply Hfin|].
    destruct (S (a_current _ _ _ a)) as [[h2 y2]|]; [apply Hfin|discriminate].
  Qed.

  (* IncrementalAutoVerify(s, e): an accepted answer is about the pair that was asked for *)
  Theorem incr_auto_verify_sound (A : N -> E) (S : N -> option (D * D)) (s e : N) (p : list (pos * D)) (ps pe : N) :
    authentic A S -> ps <= pe -> 0 < pe ->
    incr_auto_verify D E V H D_eqb S s e p ps pe = Accept -> ps = s /\ pe = e.
  Proof.
    intros HS Hle Hpos. unfold incr_auto_verify.
    destruct (S s) as [[hs ys]|] eqn:Hs; [|discriminate]. destruct (S e) as [[he ye]|] eqn:He; [|discriminate].
    pose proof (HS _ _ _ Hs) as E1. pose proof (HS _ _ _ He) as E2. subst hs he.
    unfold incremental_verify.
    destruct (incremental_roots D E V H (path_get p) ps pe) as [[ra|] [rb|]] eqn:Hr; try discriminate.
    destruct (D_eqb ra (root D E V H A s)) eqn:Ea; cbn [andb]; [|discriminate].
    destruct (D_eqb rb (root D E V H A e)) eqn:Eb; [|discriminate]. intros _.
    apply D_eqb_eq in Ea. apply D_eqb_eq in Eb. subst ra rb.
    destruct (incremental_sound D E V H H_inj A A (path_get p) ps pe s e Hle Hr) as (_ & F & _).
    exact (F Hpos).
  Qed.
End AutoVerifyProofs.
