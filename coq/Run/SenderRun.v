(* In-kernel execution of the batcher model for the correspondence run. *)
From QV Require Import Base.Util Sender.Batcher.

(* (BatchSize, the script of arrivals (version numbers) and ticks, the batches observed on the bus) *)
Definition bcase := (nat * list (bev N) * list (list N))%type.

Fixpoint lln_eqb (a b : list (list N)) : bool :=
  match a, b with
  | [], [] => true
  | x :: a', y :: b' => (Nat.eqb (length x) (length y) && forallb (fun p => fst p =? snd p) (combine x y)) && lln_eqb a' b'
  | _, _ => false
  end.

Definition run_batch_cases (cs : list bcase) : list N :=
  map fst (filter (fun kc => let '(k, (B, evs, obs)) := kc in
                     let '(buf, out) := brun N B [] evs in
                     negb (match buf with [] => lln_eqb out obs | _ => false end))
                  (combine (map N.of_nat (seq 0 (length cs))) cs)).
