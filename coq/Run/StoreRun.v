(* In-kernel execution of the store models (bplus tree model and the per-table specification). *)
From QV Require Import Base.Util Store.Bplus.

Definition bs := list N.
Fixpoint bleb (a b : bs) : bool :=     (* bytes.Compare a b <= 0 *)
  match a, b with
  | [], _ => true
  | _ :: _, [] => false
  | x :: a', y :: b' => (x <? y) || ((x =? y) && bleb a' b')
  end.
Fixpoint bs_eqb (a b : bs) : bool :=
  match a, b with [], [] => true | x :: a', y :: b' => (x =? y) && bs_eqb a' b' | _, _ => false end.

Notation T := (tree bs bs).
Inductive sop :=
| SMutate (muts : list (N * bs * bs))
| SGet (p : N) (k : bs) (obs : option bs)
| SRange (p : N) (a b : bs) (obs : list (bs * bs))
| SLast (p : N) (obs : option (bs * bs))
| SOpen (rid : N) (p : N)                      (* GetAll(table) -> reader rid *)
| SRead (rid : N) (n : nat) (obs : list (bs * bs))
| SReopen.                                     (* close + reopen (durable back-end); the model keeps its contents *)

Definition kv_eqb (x y : bs * bs) : bool := bs_eqb (fst x) (fst y) && bs_eqb (snd x) (snd y).
Fixpoint kvs_eqb (a b : list (bs * bs)) : bool :=
  match a, b with [], [] => true | x :: a', y :: b' => kv_eqb x y && kvs_eqb a' b' | _, _ => false end.
Definition okv_eqb (a b : option (bs * bs)) : bool :=
  match a, b with Some x, Some y => kv_eqb x y | None, None => true | _, _ => false end.
Definition ob_eqb (a b : option bs) : bool :=
  match a, b with Some x, Some y => bs_eqb x y | None, None => true | _, _ => false end.

(* ---- bplus model *)
Record bstate := { b_tree : T; b_readers : list (N * reader bs) }.
Definition run_bplus_op (s : bstate) (o : sop) : bstate * bool :=
  match o with
  | SMutate muts => ({| b_tree := mutate bs bs bleb (b_tree s) muts; b_readers := b_readers s |}, true)
  | SGet p k obs => (s, ob_eqb (get bs bs bleb (b_tree s) p k) obs)
  | SRange p a b obs => (s, kvs_eqb (get_range bs bs bleb (b_tree s) p a b) obs)
  | SLast p obs => (s, okv_eqb (get_last bs bs bleb [] (b_tree s) p) obs)
  | SOpen rid p => ({| b_tree := b_tree s; b_readers := (rid, new_reader bs [] p) :: b_readers s |}, true)
  | SRead rid n obs =>
      match assoc N.eqb rid (b_readers s) with
      | None => (s, false)
      | Some r => let '(out, r') := read bs bs bleb (b_tree s) r n in
                  ({| b_tree := b_tree s; b_readers := (rid, r') :: b_readers s |}, kvs_eqb out obs)
      end
  | SReopen => (s, true)
  end.

(* ---- specification level (what the RocksDB store must do): table views + positions *)
Record sstate := { s_tree : T; s_readers : list (N * (N * nat)) }.    (* reader: table, entries already returned *)
Definition run_spec_op (s : sstate) (o : sop) : sstate * bool :=
  let tb p := table bs bs (s_tree s) p in
  match o with
  | SMutate muts => ({| s_tree := mutate bs bs bleb (s_tree s) muts; s_readers := s_readers s |}, true)
  | SGet p k obs => (s, ob_eqb (spec_get bs bs bleb (tb p) k) obs)
  | SRange p a b obs => (s, kvs_eqb (spec_range bs bs bleb (tb p) a b) obs)
  | SLast p obs => (s, okv_eqb (spec_last bs bs (tb p)) obs)
  | SOpen rid p => ({| s_tree := s_tree s; s_readers := (rid, (p, O)) :: s_readers s |}, true)
  | SRead rid n obs =>
      match assoc N.eqb rid (s_readers s) with
      | None => (s, false)
      | Some (p, k) => let out := firstn n (skipn k (tb p)) in
                       ({| s_tree := s_tree s; s_readers := (rid, (p, (k + length out)%nat)) :: s_readers s |}, kvs_eqb out obs)
      end
  | SReopen => ({| s_tree := s_tree s; s_readers := [] |}, true)
  end.

Fixpoint run_ops {S} (f : S -> sop -> S * bool) (s : S) (k : N) (l : list sop) : list N :=
  match l with
  | [] => []
  | o :: r => let '(s', ok) := f s o in (if ok then [] else [k]) ++ run_ops f s' (k + 1) r
  end.

Definition run_store_cases (spec_level : bool) (cs : list (list sop)) : list (N * list N) :=
  filter (fun r => match snd r with [] => false | _ => true end)
    (map (fun '(k, c) => (k, if spec_level then run_ops run_spec_op {| s_tree := []; s_readers := [] |} 0 c
                              else run_ops run_bplus_op {| b_tree := []; b_readers := [] |} 0 c))
         (combine (map N.of_nat (seq 0 (length cs))) cs)).
