(* In-kernel execution of the agents' decision skeletons and the publisher model for the correspondence run. *)
From QV Require Import Base.Util Agents.Agents.

Definition averdict_eqb (a b : averdict) : bool :=
  match a, b with Quiet, Quiet | Alerted, Alerted | NoVerdict, NoVerdict => true | _, _ => false end.

Fixpoint lnn_eqb (a b : list (N * N)) : bool :=
  match a, b with
  | [], [] => true
  | (x, y) :: a', (x', y') :: b' => (x =? x') && (y =? y') && lnn_eqb a' b'
  | _, _ => false
  end.
Fixpoint llnn_eqb (a b : list (list (N * N))) : bool :=
  match a, b with
  | [], [] => true
  | x :: a', y :: b' => lnn_eqb x y && llnn_eqb a' b'
  | _, _ => false
  end.

(* mismatching case numbers: auditor cases as k, monitor cases as 100000+k, publisher cases as 200000+k *)
Definition run_agent_cases (ac : list ((bool * bool * bool) * averdict)) (mc : list ((bool * bool) * averdict))
                           (pc : list (list (list (N * N)) * list (list (N * N)))) : list N :=
  map fst (filter (fun kc => let '(k, ((a, s, v), o)) := kc in negb (averdict_eqb (auditor_skel a s v) o))
                  (combine (map N.of_nat (seq 0 (length ac))) ac)) ++
  map (fun kc => 100000 + fst kc)
      (filter (fun kc => let '(k, ((a, v), o)) := kc in negb (averdict_eqb (monitor_skel a v) o))
              (combine (map N.of_nat (seq 0 (length mc))) mc)) ++
  map (fun kc => 200000 + fst kc)
      (filter (fun kc => let '(k, (batches, obs)) := kc in negb (llnn_eqb (snd (pub_run N N N.eqb [] batches)) obs))
              (combine (map N.of_nat (seq 0 (length pc))) pc)).
