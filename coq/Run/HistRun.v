(* In-kernel execution of the history model at the SHA-256 instance, for the correspondence runs. *)
From Coq Require Import Uint63 ZArith FMapPositive.
From QV Require Import Base.Util Base.HashSig Base.Sha256 Base.ShaInst History.HistModel.

Definition hstore := PositiveMap.t bytes.
Definition hkey (p : pos) : positive := N.succ_pos (fst p * 128 + N.of_nat (snd p)).
Definition hget (s : hstore) : cache bytes := fun p => PositiveMap.find (hkey p) s.
Definition hput (s : hstore) (kv : pos * bytes) : hstore := PositiveMap.add (hkey (fst kv)) (snd kv) s.

Notation tree_add' := (tree_add bytes bytes bytes Hsha).

(* add events one by one, persisting the mutations after each (Balloon.Add + store.Mutate);
   returns the store and the list of root digests *)
Fixpoint add_all (s : hstore) (v : N) (evs : list bytes) : option (hstore * list bytes) :=
  match evs with
  | [] => Some (s, [])
  | e :: r =>
      match tree_add' (hget s) e v with
      | None => None
      | Some (d, muts) =>
          match add_all (fold_left hput muts s) (v + 1) r with
          | None => None
          | Some (s', ds) => Some (s', d :: ds)
          end
      end
  end.

(* canonical fingerprint of an audit path: entries sorted by (index, height), later duplicates win *)
Definition pos_ltb (a b : pos) : bool :=
  (fst a <? fst b) || ((fst a =? fst b) && Nat.ltb (snd a) (snd b)).
Fixpoint ins_sorted (kv : pos * bytes) (l : list (pos * bytes)) : list (pos * bytes) :=
  match l with
  | [] => [kv]
  | x :: r => if pos_ltb (fst kv) (fst x) then kv :: l
              else if pos_eqb (fst kv) (fst x) then kv :: r
              else x :: ins_sorted kv r
  end.
Definition canon (p : list (pos * bytes)) : list (pos * bytes) := fold_left (fun acc kv => ins_sorted kv acc) p [].
Definition path_bytes (p : list (pos * bytes)) : bytes :=
  flat_map (fun kv => pos10 (fst (fst kv)) (snd (fst kv)) ++ snd kv) (canon p).
Definition opt_fp (p : option (list (pos * bytes))) : bytes :=
  match p with Some l => sha256 (0 :: path_bytes l)%uint63 | None => [255]%uint63 end.

Definition seqN (a n : nat) : list N := map N.of_nat (seq a n).

(* ------------------------------------------------------------------ correspondence cases (history level) *)
Notation prove_membership' := (prove_membership bytes bytes bytes Hsha).
Notation prove_consistency' := (prove_consistency bytes bytes bytes Hsha).
Notation membership_root' := (membership_root bytes bytes bytes Hsha).
Notation incremental_roots' := (incremental_roots bytes bytes bytes Hsha).
Notation path_get' := (@path_get bytes).

(* the length check of fix 10a81c4: an entry that is not a 32-byte digest is treated as missing *)
Definition len32 (d : bytes) : bool := Nat.eqb (length d) 32.
Definition wfp (p : list (pos * bytes)) : list (pos * bytes) := wf_path len32 p.

(* verdict: 0 accept, 1 reject (a missing path entry is a rejection since fix 76e96b4; it was a panic, code 2) *)
Definition verdict_memb (path : list (pos * bytes)) (index version : N) (e root : bytes) : N :=
  match membership_root' (path_get' (wfp path)) index version e with
  | None => 1
  | Some d => if bytes_eqb d root then 0 else 1
  end.
Definition verdict_incr (path : list (pos * bytes)) (s e : N) (ds de : bytes) : N :=
  match incremental_roots' (path_get' (wfp path)) s e with
  | (Some a, Some b) => if bytes_eqb a ds && bytes_eqb b de then 0 else 1
  | _ => 1
  end.
(* the verifier of the pinned commit: entries hashed as given, whatever their length *)
Definition verdict_incr_unchecked (path : list (pos * bytes)) (s e : N) (ds de : bytes) : N :=
  match incremental_roots' (path_get' path) s e with
  | (Some a, Some b) => if bytes_eqb a ds && bytes_eqb b de then 0 else 1
  | _ => 1
  end.

Definition nthN {A} (l : list A) (i : N) (d : A) : A := nth (N.to_nat i) l d.

(* alterations of a proof; entry numbers refer to the canonical (sorted) path *)
Inductive alt : Type :=
| AltNone
| AltEntry (k : N)            (* flip the lowest bit of the first byte of the k-th entry *)
| AltDrop (k : N)             (* remove the k-th entry *)
| AltFirst (v : N)            (* set Index / StartVersion *)
| AltSecond (v : N)           (* set Version / EndVersion *)
| AltDigestA (d : bytes)      (* replace event digest (membership) / start digest (incremental) *)
| AltDigestB (d : bytes)      (* replace root digest (membership) / end digest (incremental) *)
| AltDropDb (k : N) (d : bytes)    (* both at once: remove the k-th entry and replace the root / end digest *)
| AltShift (k : N)            (* move the last byte of the k-th entry to the front of the (k+1)-th *)
| AltPad (k : N).             (* append a zero byte to the k-th entry *)

Definition flip_first (d : bytes) : bytes :=
  match d with [] => [1]%uint63 | x :: r => (x lxor 1)%uint63 :: r end.
Fixpoint alter_nth (k : nat) (l : list (pos * bytes)) : list (pos * bytes) :=
  match l, k with
  | [], _ => []
  | (p, d) :: r, O => (p, flip_first d) :: r
  | x :: r, S k' => x :: alter_nth k' r
  end.
Fixpoint drop_nth {A} (k : nat) (l : list A) : list A :=
  match l, k with
  | [], _ => []
  | _ :: r, O => r
  | x :: r, S k' => x :: drop_nth k' r
  end.

Fixpoint shift_nth (k : nat) (l : list (pos * bytes)) : list (pos * bytes) :=
  match l, k with
  | (p1, a) :: (p2, b) :: r, O =>
      match a with
      | [] => l
      | _ => (p1, removelast a) :: (p2, last a 0%uint63 :: b) :: r
      end
  | x :: r, S k' => x :: shift_nth k' r
  | _, _ => l
  end.
Fixpoint pad_nth (k : nat) (l : list (pos * bytes)) : list (pos * bytes) :=
  match l, k with
  | [], _ => []
  | (p, d) :: r, O => (p, d ++ [0%uint63]) :: r
  | x :: r, S k' => x :: pad_nth k' r
  end.

Definition alt_path (a : alt) (p : list (pos * bytes)) : list (pos * bytes) :=
  match a with
  | AltShift k => shift_nth (N.to_nat k) (canon p)
  | AltPad k => pad_nth (N.to_nat k) (canon p)
  | AltEntry k => alter_nth (N.to_nat k) (canon p)
  | AltDrop k => drop_nth (N.to_nat k) (canon p)
  | AltDropDb k _ => drop_nth (N.to_nat k) (canon p)
  | _ => p
  end.
Definition alt_first (a : alt) (x : N) := match a with AltFirst v => v | _ => x end.
Definition alt_second (a : alt) (x : N) := match a with AltSecond v => v | _ => x end.
Definition alt_da (a : alt) (x : bytes) := match a with AltDigestA d => d | _ => x end.
Definition alt_db (a : alt) (x : bytes) := match a with AltDigestB d => d | AltDropDb _ d => d | _ => x end.

Record hist_case := {
  hc_events : list bytes;
  hc_roots_fp : bytes;                  (* sha256 of the concatenated root digests *)
  hc_incr_fp : list bytes;              (* per start version i: sha256 over j>=i of fp(proof(i,j)) *)
  hc_memb_fp : list bytes;              (* per index i: sha256 over q>=i of fp(proof(i,q)) *)
  hc_incr_alts : list (N * N * alt * N);   (* (i, j, alteration, observed verdict) *)
  hc_memb_alts : list (N * N * alt * N)
}.

Definition row_fp (f : N -> bytes) (js : list N) : bytes := sha256 (flat_map f js).

(* failure codes: (component, index) *)
Definition check_hist_case (c : hist_case) : list (N * N) :=
  let evs := hc_events c in
  let n := length evs in
  match add_all (PositiveMap.empty bytes) 0 evs with
  | None => [(0, 0)]
  | Some (s, roots) =>
      let st := hget s in
      let r1 := if bytes_eqb (sha256 (concat roots)) (hc_roots_fp c) then [] else [(1, 0)] in
      let r2 := flat_map (fun i =>
                   let fp := row_fp (fun j => opt_fp (prove_consistency' st i j)) (seqN (N.to_nat i) (n - N.to_nat i)) in
                   if bytes_eqb fp (nthN (hc_incr_fp c) i []) then [] else [(2, i)]) (seqN 0 (length (hc_incr_fp c))) in
      let r3 := flat_map (fun i =>
                   let fp := row_fp (fun q => opt_fp (prove_membership' st i q)) (seqN (N.to_nat i) (n - N.to_nat i)) in
                   if bytes_eqb fp (nthN (hc_memb_fp c) i []) then [] else [(3, i)]) (seqN 0 (length (hc_memb_fp c))) in
      let r4 := flat_map (fun '(k, (i, j, a, obs)) =>
                   match prove_consistency' st i j with
                   | None => [(4, k)]
                   | Some p =>
                       let v := verdict_incr (alt_path a p) (alt_first a i) (alt_second a j)
                                  (alt_da a (nthN roots i [])) (alt_db a (nthN roots j [])) in
                       if v =? obs then [] else [(4, k)]
                   end) (combine (seqN 0 (length (hc_incr_alts c))) (hc_incr_alts c)) in
      let r5 := flat_map (fun '(k, (i, q, a, obs)) =>
                   match prove_membership' st i q with
                   | None => [(5, k)]
                   | Some p =>
                       let v := verdict_memb (alt_path a p) (alt_first a i) (alt_second a q)
                                  (alt_da a (nthN evs i [])) (alt_db a (nthN roots q [])) in
                       if v =? obs then [] else [(5, k)]
                   end) (combine (seqN 0 (length (hc_memb_alts c))) (hc_memb_alts c)) in
      r1 ++ r2 ++ r3 ++ r4 ++ r5
  end.

Definition run_hist_cases (cs : list hist_case) : list (N * list (N * N)) :=
  filter (fun r => match snd r with [] => false | _ => true end)
         (map (fun '(k, c) => (k, check_hist_case c)) (combine (seqN 0 (length cs)) cs)).
