(* In-kernel execution of the client topology model for the correspondence runs. *)
From Coq Require Import ZArith.
From QV Require Import Base.Util Client.Topology.
Open Scope N_scope.

Inductive top :=
| TUpdate (prim : N) (secs : list N)
| TNext (p : pref) (obs : option N)                 (* observed url, None = ErrNoEndpoint *)
| TPrimary (obs_url : N) (obs_code : N)
| TMarkEp (k : nat) (kind : N)                      (* k-th entry of Endpoints(): 0 dead, 1 alive, 2 healthy *)
| TMarkPrimary (kind : N)
| TDump (obs : list (N * bool * bool)).             (* (url, secondary, dead) of Endpoints() *)

Definition mark (t : topo) (i : nat) (kind : N) : topo := set_dead t i (kind =? 0).

Definition opt_eqb (a b : option N) : bool :=
  match a, b with Some x, Some y => x =? y | None, None => true | _, _ => false end.

Fixpoint dump_eqb (a b : list (N * bool * bool)) : bool :=
  match a, b with
  | [], [] => true
  | (u, s, d) :: a', (u', s', d') :: b' => (u =? u') && Bool.eqb s s' && Bool.eqb d d' && dump_eqb a' b'
  | _, _ => false
  end.

Definition run_top (t : topo) (o : top) : topo * bool :=
  match o with
  | TUpdate p s => (update t p s, true)
  | TNext p obs => let '(r, t') := next_read t p in
                   (t', opt_eqb (option_map (fun i => e_url (obj t i)) r) obs)
  | TPrimary u c => let '(r, code) := primary_of t in
                    (t, (code =? c) && (match r with Some i => e_url (obj t i) =? u | None => u =? 0 end))
  | TMarkEp k kind => (match nth_error (t_eps t) k with Some i => mark t i kind | None => t end, true)
  | TMarkPrimary kind => (match t_primary t with Some i => mark t i kind | None => t end, true)
  | TDump obs => (t, dump_eqb (map (fun i => let e := obj t i in (e_url e, e_secondary e, e_dead e)) (t_eps t)) obs)
  end.

Fixpoint run_tops (t : topo) (k : N) (l : list top) : list N :=
  match l with
  | [] => []
  | o :: r => let '(t', ok) := run_top t o in (if ok then [] else [k]) ++ run_tops t' (k + 1) r
  end.

Definition run_topo_cases (cs : list (bool * list top)) : list (N * list N) :=
  filter (fun r => match snd r with [] => false | _ => true end)
         (map (fun '(k, (rv, c)) => (k, run_tops (new_topology rv) 0 c))
              (combine (map N.of_nat (seq 0 (length cs))) cs)).
