(* Checker for the `clientv` harness command: the version/snapshot selection of client.MembershipAutoVerify.
   One case = one observed call: the requested version, the versions the answer carried (query, current, actual),
   whether the snapshot store has the snapshots of the query / current version, the verdict the real DigestVerify gives
   on exactly those snapshots (computed by the harness), and what MembershipAutoVerify returned. *)
From QV Require Import Base.Util Balloon.Balloon Balloon.AutoVerify.

Definition auto_case := (option N * (N * N * N) * (bool * bool) * bool * bool)%type.

Definition run_auto_case (c : auto_case) : bool :=
  let '(req, (q, cur, act), (hasq, hascur), dv, final) := c in
  let S := fun x : N => if ((x =? q) && hasq) || ((x =? cur) && hascur) then Some (x, x) else None in
  let v := auto_verify_gen N true (fun _ _ => if dv then Accept else Reject) S req q cur act in
  Bool.eqb (match v with Accept => true | Reject => false end) final.

Fixpoint run_auto_from (i : nat) (cs : list auto_case) : list nat :=
  match cs with
  | [] => []
  | c :: r => if run_auto_case c then run_auto_from (S i) r else i :: run_auto_from (S i) r
  end.
Definition run_auto_cases (cs : list auto_case) : list nat := run_auto_from 0 cs.
