From QV Require Import Base.Util Store.RaftLog.

Definition lentry := (N * N * N * list N)%type.      (* index, term, type, payload *)
Inductive lop :=
| LStore (ls : list lentry)
| LGet (i : N) (obs : option lentry)
| LDelete (lo hi : N)
| LBounds (first last : N)
| LSet (k v : list N)
| LKey (k : list N) (obs : option (list N))
| LReopen.

Fixpoint lN_eqb (a b : list N) : bool :=
  match a, b with [], [] => true | x :: a', y :: b' => (x =? y) && lN_eqb a' b' | _, _ => false end.

Record lstate := { l_log : rlog; l_kv : list (list N * list N) }.

(* live entries only (deleted/shadowed ones removed) so that first/last look at what is stored *)
Definition live (m : rlog) : rlog := filter (fun kv => match rl_get m (fst kv) with Some e => true | None => false end) m.

Definition run_lop (s : lstate) (o : lop) : lstate * bool :=
  match o with
  | LStore ls => ({| l_log := fold_left (fun m '(i, t, ty, d) => rl_store m i (t, ty, d)) ls (l_log s); l_kv := l_kv s |}, true)
  | LGet i obs => (s, match rl_get (l_log s) i, obs with
                      | Some (t, ty, d), Some (i', t', ty', d') => (i =? i') && (t =? t') && (ty =? ty') && lN_eqb d d'
                      | None, None => true | _, _ => false end)
  | LDelete lo hi => ({| l_log := rl_delete_range (l_log s) lo hi; l_kv := l_kv s |}, true)
  | LBounds f l => (s, (rl_first (l_log s) =? f) && (rl_last (l_log s) =? l))
  | LSet k v => ({| l_log := l_log s; l_kv := (k, v) :: l_kv s |}, true)
  | LKey k obs => (s, match assoc lN_eqb k (l_kv s), obs with Some v, Some v' => lN_eqb v v' | None, None => true | _, _ => false end)
  | LReopen => (s, true)
  end.

Fixpoint run_lops (s : lstate) (k : N) (l : list lop) : list N :=
  match l with
  | [] => []
  | o :: r => let '(s', ok) := run_lop s o in (if ok then [] else [k]) ++ run_lops s' (k + 1) r
  end.

Definition run_raftlog_cases (cs : list (list lop)) : list (N * list N) :=
  filter (fun r => match snd r with [] => false | _ => true end)
    (map (fun '(k, c) => (k, run_lops {| l_log := []; l_kv := [] |} 0 c)) (combine (map N.of_nat (seq 0 (length cs))) cs)).
