(* In-kernel execution of the batch-level hyper tree model at the SHA-256 instance, for the correspondence run:
   the root hash after every call and the content of the three tables (cache, HyperCacheTable, HyperTable). *)
From Coq Require Import Uint63 ZArith.
From QV Require Import Base.Util Base.HashSig Base.Sha256 Base.ShaInst Hyper.HyperModel Hyper.HyperBatch
  Run.HistRun Run.BalloonRun.

Notation hbst := (hstate bytes bytes).
Definition hb_ins := hb_insert bytes bytes bytes Hsha 232 256 ds256.
Definition hb_reop := hb_reopen bytes bytes bytes Hsha 232 256 ds256.

(* a slot as the Go code serialises it: (slot number, flag byte, node bytes) *)
Definition slot_obs := (nat * N * bytes)%type.
Definition key_bytes (k : key) : bytes := bytes_of_bits (length k) k.
Definition slot_view (i : nat) (s : slot bytes bytes) : slot_obs :=
  match s with
  | SHash _ _ d => (i, 0, d)
  | SLeaf _ _ d => (i, 1, d)
  | SKey _ _ k => (i, 2, key_bytes k)
  | SVal _ _ v => (i, 2, v)
  end.
(* bt_view lists a batch in tree order; the Go serialisation is in slot order *)
Fixpoint sins (x : slot_obs) (l : list slot_obs) : list slot_obs :=
  match l with
  | [] => [x]
  | y :: r => if Nat.leb (fst (fst x)) (fst (fst y)) then x :: l else y :: sins x r
  end.
Definition batch_view (b : bt bytes bytes) (i : nat) : list slot_obs :=
  fold_left (fun acc s => sins (slot_view (fst s) (snd s)) acc) (bt_view bytes bytes b i) [].

(* tables in canonical order: sorted by the serialised position (height ‖ index) *)
Definition table_obs := list (bytes * list slot_obs).
Fixpoint tins (kv : bytes * list slot_obs) (l : table_obs) : table_obs :=
  match l with
  | [] => [kv]
  | x :: r => if bytes_ltb (fst kv) (fst x) then kv :: l
              else if bytes_eqb (fst kv) (fst x) then kv :: r
              else x :: tins kv r
  end.
Definition table_view (t : list (hpos * bt bytes bytes)) : table_obs :=
  fold_left (fun acc pb => tins (hpos_bytes (fst pb), batch_view (snd pb) 0) acc) t [].

Definition slot_obs_eqb (a b : slot_obs) : bool :=
  let '(i, f, d) := a in let '(i', f', d') := b in Nat.eqb i i' && (f =? f') && bytes_eqb d d'.
Fixpoint lso_eqb (a b : list slot_obs) : bool :=
  match a, b with
  | [], [] => true
  | x :: a', y :: b' => slot_obs_eqb x y && lso_eqb a' b'
  | _, _ => false
  end.
Fixpoint table_eqb (a b : table_obs) : bool :=
  match a, b with
  | [], [] => true
  | (p, s) :: a', (q, t) :: b' => bytes_eqb p q && lso_eqb s t && table_eqb a' b'
  | _, _ => false
  end.
(* the cache is probed at given positions only: every probed position must agree *)
Definition cache_agrees (t : list (hpos * bt bytes bytes)) (probes : table_obs) : bool :=
  let tv := table_view t in
  forallb (fun pr => match assoc bytes_eqb (fst pr) tv with
                     | Some s => lso_eqb s (snd pr)
                     | None => match snd pr with [] => true | _ => false end
                     end) probes.

Inductive hbstep :=
| HAdd (kvs : list (bytes * N)) (root : bytes) (cache tiles store : table_obs)   (* digests with their versions *)
| HReopen (cache tiles store : table_obs)
| HFind (k : bytes) (value : bytes) (path : list (bytes * bytes)).   (* QueryMembership: value ([] = none), audit path sorted by position *)

Definition hb_fnd := hb_find bytes bytes bytes Hsha 232 256 ds256.
Fixpoint pins (kv : bytes * bytes) (l : list (bytes * bytes)) : list (bytes * bytes) :=
  match l with
  | [] => [kv]
  | x :: r => if bytes_ltb (fst kv) (fst x) then kv :: l else if bytes_eqb (fst kv) (fst x) then kv :: r else x :: pins kv r
  end.
Definition path_view (p : list (hpos * bytes)) : list (bytes * bytes) :=
  fold_left (fun acc e => pins (hpos_bytes (fst e), snd e) acc) p [].
Fixpoint lbb_eqb (a b : list (bytes * bytes)) : bool :=
  match a, b with
  | [], [] => true
  | (p, d) :: a', (q, e) :: b' => bytes_eqb p q && bytes_eqb d e && lbb_eqb a' b'
  | _, _ => false
  end.

(* mismatch codes per step: 1 root, 2 cache, 3 tiles (HyperCacheTable), 4 store (HyperTable), 5 found value, 6 audit path,
   9 the model fails *)
Fixpoint run_hb (s : hbst) (steps : list hbstep) (k : N) : list (N * N) :=
  match steps with
  | [] => []
  | HAdd kvs root c t st :: r =>
      match hb_ins s (map (fun kv => (bits_of_bytes (fst kv), vval32 (snd kv))) kvs) with
      | None => [(k, 9)]
      | Some (d, s') =>
          (if bytes_eqb d root then [] else [(k, 1)]) ++
          (if cache_agrees (hs_cache _ _ s') c then [] else [(k, 2)]) ++
          (if table_eqb (table_view (hs_tiles _ _ s')) t then [] else [(k, 3)]) ++
          (if table_eqb (table_view (hs_store _ _ s')) st then [] else [(k, 4)]) ++
          run_hb s' r (k + 1)
      end
  | HReopen c t st :: r =>
      match hb_reop s with
      | None => [(k, 9)]
      | Some s' =>
          (if cache_agrees (hs_cache _ _ s') c then [] else [(k, 2)]) ++
          (if table_eqb (table_view (hs_tiles _ _ s')) t then [] else [(k, 3)]) ++
          (if table_eqb (table_view (hs_store _ _ s')) st then [] else [(k, 4)]) ++
          run_hb s' r (k + 1)
      end
  | HFind key value path :: r =>
      let '(v, p) := hb_fnd s (bits_of_bytes key) in
      (if bytes_eqb (match v with Some x => x | None => [] end) value then [] else [(k, 5)]) ++
      (if lbb_eqb (path_view p) path then [] else [(k, 6)]) ++
      run_hb s r (k + 1)
  end.

Definition run_hb_cases (cs : list (list hbstep)) : list (N * list (N * N)) :=
  filter (fun r => match snd r with [] => false | _ => true end)
    (map (fun '(k, c) => (k, run_hb (hinit bytes bytes) c 0)) (combine (map N.of_nat (seq 0 (length cs))) cs)).
