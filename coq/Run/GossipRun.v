(* In-kernel execution of the gossip model for the correspondence runs. *)
From Coq Require Import ZArith.
From QV Require Import Base.Util Gossip.Gossip.

Inductive gop :=
| GUpdate (role name : N)
| GDelete (role name : N)
| GGet (role : N) (obs : option (list N))
| GRoute (self src : N) (obs : list N)
| GSend (ttl : Z) (after : Z)                 (* Agent.Send on a message with this TTL; TTL it is left with *)
| GDeliver (digest : N) (seen : bool)         (* wasProcessed for a batch with this digest *)
| GMembers (role : N) (obs : list N).         (* the peers the agent lists for a role after a membership notification, as a set *)

Fixpoint ln_eqb (a b : list N) : bool :=
  match a, b with [], [] => true | x :: a', y :: b' => (x =? y) && ln_eqb a' b' | _, _ => false end.

Definition set_eqb (a b : list N) : bool :=
  Nat.eqb (length a) (length b) && forallb (fun x => existsb (N.eqb x) b) a && forallb (fun x => existsb (N.eqb x) a) b.

Record gstate := { g_topo : topology; g_cache : list N }.

Definition run_gop (s : gstate) (o : gop) : gstate * bool :=
  match o with
  | GUpdate r n => ({| g_topo := topo_update (g_topo s) r n; g_cache := g_cache s |}, true)
  | GDelete r n => ({| g_topo := topo_delete (g_topo s) r n; g_cache := g_cache s |}, true)
  | GGet r obs => (s, match topo_get (g_topo s) r, obs with
                      | Some l, Some l' => ln_eqb l l' | None, None => true
                      | Some [], None => true | _, _ => false end)
  | GRoute self src obs => (s, valid_route (g_topo s) self src obs)
  | GSend ttl after => (s, match send_ttl ttl with None => (after =? ttl)%Z | Some t => (after =? t)%Z end)
  | GMembers r obs => (s, set_eqb (match topo_get (g_topo s) r with Some l => l | None => [] end) obs)
  | GDeliver d seen => let '(b, c) := was_processed (g_cache s) d in
                       ({| g_topo := g_topo s; g_cache := c |}, Bool.eqb b seen)
  end.

Fixpoint run_gops (s : gstate) (k : N) (l : list gop) : list N :=
  match l with
  | [] => []
  | o :: r => let '(s', ok) := run_gop s o in (if ok then [] else [k]) ++ run_gops s' (k + 1) r
  end.

Definition run_gossip_cases (cs : list (list gop)) : list (N * list N) :=
  filter (fun r => match snd r with [] => false | _ => true end)
    (map (fun '(k, c) => (k, run_gops {| g_topo := []; g_cache := [] |} 0 c)) (combine (map N.of_nat (seq 0 (length cs))) cs)).
