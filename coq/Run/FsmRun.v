(* In-kernel execution of the state-machine model for the correspondence runs: events are abstract ids. *)
From QV Require Import Base.Util Fsm.Fsm.

(* observed outcome of one delivery: (class, first version, count): class 0 applied, 1 already applied, 2 panic *)
Definition obs := (N * N * nat)%type.
Definition code (o : outcome) : obs :=
  match o with Applied v c => (0, v, c) | AlreadyApplied => (1, 0, O) | Panic => (2, 0, O) end.
Definition obs_eqb (a b : obs) : bool :=
  let '(c1, v1, n1) := a in let '(c2, v2, n2) := b in (c1 =? c2) && (v1 =? v2) && Nat.eqb n1 n2.

(* a case: incarnations; each a list of deliveries (index, number of events) with the observed outcome, and the
   (index, version) pair the node reported after the incarnation *)
Definition fcase := list (list (N * nat * obs) * (N * N)).

Fixpoint run_inc (n : node N) (ds : list (N * nat * obs)) (k : N) : node N * list N :=
  match ds with
  | [] => (n, [])
  | (idx, cnt, o) :: r =>
      let '(n1, out) := apply N n idx (map N.of_nat (seq 0 cnt)) in
      let '(n2, bad) := run_inc n1 r (k + 1) in
      (n2, (if obs_eqb (code out) o then [] else [k]) ++ bad)
  end.

Fixpoint run_life (n : node N) (c : fcase) (k : N) : list N :=
  match c with
  | [] => []
  | (ds, (oi, ov)) :: r =>
      let '(n1, bad) := run_inc n ds k in
      bad ++ (if (n_index N n1 =? oi) && (n_version N n1 =? ov) then [] else [k + 1000]) ++ run_life n1 r (k + N.of_nat (length ds))
  end.

Definition run_fsm_cases (cs : list fcase) : list (N * list N) :=
  filter (fun r => match snd r with [] => false | _ => true end)
    (map (fun '(k, c) => (k, run_life (fresh N) c 0)) (combine (map N.of_nat (seq 0 (length cs))) cs)).
