(* In-kernel execution of the balloon model at the SHA-256 instance (256-bit keys, cache limit 232). *)
From Coq Require Import Uint63 ZArith.
From QV Require Import Base.Util Base.HashSig Base.Sha256 Base.ShaInst History.HistModel Hyper.HyperModel
  Balloon.Balloon Run.HistRun.

Definition vval32 (v : N) : bytes := be_bytes 32 (v mod 2^64).
Fixpoint bytes_val (b : bytes) (acc : N) : N :=
  match b with [] => acc | x :: r => bytes_val r (256 * acc + Z.to_N (Uint63.to_Z x)) end.
Definition vnum32 (w : bytes) : N := bytes_val (skipn (length w - 8) w) 0.

Definition ds256 : list bytes := Eval vm_compute in dlist bytes bytes bytes Hsha 256.
Notation Bst := (state bytes bytes).
Notation Bans := (answer bytes bytes bytes).
Notation b_add := (add_bulk bytes bytes bytes Hsha 256 232 ds256 bits_of_bytes vval32).
Notation b_query_c := (query_membership_consistency bytes bytes bytes Hsha 256 ds256 bits_of_bytes vnum32).
Notation b_query := (query_membership bytes bytes bytes Hsha 256 ds256 bits_of_bytes vnum32).
Notation b_cons := (query_consistency bytes bytes bytes Hsha).
Notation b_dverify := (digest_verify bytes bytes bytes Hsha 256 bits_of_bytes vval32 bytes_eqb bytes_eqb).
Notation b_iverify := (incremental_verify bytes bytes bytes Hsha bytes_eqb).

(* canonical fingerprint of a hyper audit path: entries sorted by (height, index bytes) *)
Definition hpos_key (p : hpos) : bytes := hpos_bytes p.   (* height(2) ‖ index(32): lexicographic = (height, index) *)
Fixpoint bytes_ltb (a b : bytes) : bool :=
  match a, b with
  | [], [] => false
  | [], _ => true
  | _, [] => false
  | x :: a', y :: b' => (x <? y)%uint63 || ((x =? y)%uint63 && bytes_ltb a' b')
  end.
Fixpoint hins (kv : bytes * bytes) (l : list (bytes * bytes)) : list (bytes * bytes) :=
  match l with
  | [] => [kv]
  | x :: r => if bytes_ltb (fst kv) (fst x) then kv :: l
              else if bytes_eqb (fst kv) (fst x) then kv :: r
              else x :: hins kv r
  end.
Definition hcanon (p : list (hpos * bytes)) : list (bytes * bytes) :=
  fold_left (fun acc kv => hins (hpos_key (fst kv), snd kv) acc) p [].
Definition hpath_fp (p : list (hpos * bytes)) : bytes :=
  sha256 (1 :: flat_map (fun kv => fst kv ++ snd kv) (hcanon p))%uint63.

Definition vcode (v : verdict) : N := match v with Accept => 0 | Reject => 1 end.

(* alterations of a membership answer (the fields of protocol.MembershipResult) *)
Inductive malt : Type :=
| MExists (b : bool)
| MCurrent (v : N) | MQuery (v : N) | MActual (v : N)
| MKey (d : bytes)
| MHistEntry (k : N) | MHistDrop (k : N) | MHistSet (k : N) (d : bytes)
| MHistAdd (i : N) (h : nat) (d : bytes)      (* an extra entry History["i|h"] = d (overrides an existing one) *)
| MHyperEntry (k : N) | MHyperDrop (k : N) | MHyperSet (k : N) (d : bytes)
| MHistClear | MHyperClear.

(* the hyper path in canonical order, as (hpos * bytes) again: we keep positions, sort by key *)
Fixpoint hins' (kv : hpos * bytes) (l : list (hpos * bytes)) : list (hpos * bytes) :=
  match l with
  | [] => [kv]
  | x :: r => if bytes_ltb (hpos_key (fst kv)) (hpos_key (fst x)) then kv :: l
              else if bytes_eqb (hpos_key (fst kv)) (hpos_key (fst x)) then kv :: r
              else x :: hins' kv r
  end.
Definition hcanon' (p : list (hpos * bytes)) : list (hpos * bytes) := fold_left (fun acc kv => hins' kv acc) p [].
Fixpoint halter_nth (k : nat) (l : list (hpos * bytes)) : list (hpos * bytes) :=
  match l, k with
  | [], _ => []
  | (p, d) :: r, O => (p, flip_first d) :: r
  | x :: r, S k' => x :: halter_nth k' r
  end.
Fixpoint set_nth {A} (k : nat) (d : bytes) (l : list (A * bytes)) : list (A * bytes) :=
  match l, k with
  | [], _ => []
  | (p, _) :: r, O => (p, d) :: r
  | x :: r, S k' => x :: set_nth k' d r
  end.

Definition hist_or_empty (a : Bans) : list (pos * bytes) := match a_history _ _ _ a with Some p => p | None => [] end.

Definition apply_malt (a : Bans) (m : malt) : Bans :=
  let upd ex key hp hist cur q act :=
    {| a_key := key; a_exists := ex; a_hyper_value := a_hyper_value _ _ _ a; a_hyper_path := hp;
       a_history := Some hist; a_hist_index := act; a_hist_version := q;
       a_current := cur; a_query := q; a_actual := act |} in
  let ex := a_exists _ _ _ a in let key := a_key _ _ _ a in let hp := a_hyper_path _ _ _ a in
  let hist := hist_or_empty a in
  let cur := a_current _ _ _ a in let q := a_query _ _ _ a in let act := a_actual _ _ _ a in
  match m with
  | MExists b => upd b key hp hist cur q act
  | MCurrent v => upd ex key hp hist v q act
  | MQuery v => upd ex key hp hist cur v act
  | MActual v => upd ex key hp hist cur q v
  | MKey d => upd ex d hp hist cur q act
  | MHistEntry k => upd ex key hp (alter_nth (N.to_nat k) (canon hist)) cur q act
  | MHistDrop k => upd ex key hp (drop_nth (N.to_nat k) (canon hist)) cur q act
  | MHistSet k d => upd ex key hp (set_nth (N.to_nat k) d (canon hist)) cur q act
  | MHistAdd i h d => upd ex key hp (canon hist ++ [((i, h), d)]) cur q act
  | MHyperEntry k => upd ex key (halter_nth (N.to_nat k) (hcanon' hp)) hist cur q act
  | MHyperDrop k => upd ex key (drop_nth (N.to_nat k) (hcanon' hp)) hist cur q act
  | MHyperSet k d => upd ex key (set_nth (N.to_nat k) d (hcanon' hp)) hist cur q act
  | MHistClear => upd ex key hp [] cur q act
  | MHyperClear => upd ex key [] hist cur q act
  end.

(* the length check of the history verifier (fix 10a81c4): an audit path is a Go map - a later write to a key wins ([canon]) -
   and an entry that is not a 32-byte digest is treated as missing ([wfp]) *)
Definition wf_answer (a : Bans) : Bans :=
  match a_history _ _ _ a with
  | None => a
  | Some p =>
      {| a_key := a_key _ _ _ a; a_exists := a_exists _ _ _ a; a_hyper_value := a_hyper_value _ _ _ a;
         a_hyper_path := a_hyper_path _ _ _ a; a_history := Some (wfp (canon p));
         a_hist_index := a_hist_index _ _ _ a; a_hist_version := a_hist_version _ _ _ a;
         a_current := a_current _ _ _ a; a_query := a_query _ _ _ a; a_actual := a_actual _ _ _ a |}
  end.

(* the wire form always carries a (possibly empty) history path *)
Definition wire (a : Bans) : Bans := apply_malt a (MExists (a_exists _ _ _ a)).

(* ---- scripted cases *)
Record qobs := {
  o_class : N;          (* 0 answer, 1 clean error, 2 panic *)
  o_exists : bool; o_current : N; o_query : N; o_actual : N;
  o_hyper_fp : bytes; o_hist_fp : bytes     (* hist fp = [] when the history proof is nil *)
}.

Inductive step : Type :=
| SAdd (evs : list bytes) (snap_fp : bytes)
    (* Add / AddBulk; snap_fp = sha256 over the returned snapshots of (event ‖ history ‖ hyper ‖ version8) *)
| SQuery (d : bytes) (q : option N) (obs : qobs)
| SVerify (d : bytes) (q : option N) (alts : list malt) (dv : bytes) (hist_ver hyper_ver : N) (obs : N)
    (* genuine answer for (d,q) at the current state, altered, put on the wire, verified for digest dv against
       the history digest of snapshot hist_ver and the hyper digest of snapshot hyper_ver *)
| SCons (s e : N) (obs_class : N) (path_fp : bytes) (verdict : N).
    (* QueryConsistency(s,e): class 0 ok / 1 error / 2 panic; fp of the path; verdict against snapshots s, e *)

Record rstate := { r_b : Bst; r_snaps : list (N * (bytes * bytes)) }.

Definition snap_lookup (r : rstate) (v : N) : bytes * bytes :=
  match assoc N.eqb v (r_snaps r) with Some x => x | None => ([], []) end.

Definition qres_obs (r : qresult bytes bytes bytes) : qobs :=
  match r with
  | QOk _ _ _ a => {| o_class := 0; o_exists := a_exists _ _ _ a; o_current := a_current _ _ _ a;
                 o_query := a_query _ _ _ a; o_actual := a_actual _ _ _ a;
                 o_hyper_fp := hpath_fp (a_hyper_path _ _ _ a);
                 o_hist_fp := match a_history _ _ _ a with Some p => opt_fp (Some p) | None => [] end |}
  | QError _ _ _ => {| o_class := 1; o_exists := false; o_current := 0; o_query := 0; o_actual := 0; o_hyper_fp := []; o_hist_fp := [] |}
  | QPanic _ _ _ => {| o_class := 2; o_exists := false; o_current := 0; o_query := 0; o_actual := 0; o_hyper_fp := []; o_hist_fp := [] |}
  end.

(* bitmask of differing fields *)
Definition obs_diff (a b : qobs) : N :=
  (if o_class a =? o_class b then 0 else 1) +
  (if Bool.eqb (o_exists a) (o_exists b) then 0 else 2) +
  (if o_current a =? o_current b then 0 else 4) +
  (if o_query a =? o_query b then 0 else 8) +
  (if o_actual a =? o_actual b then 0 else 16) +
  (if bytes_eqb (o_hyper_fp a) (o_hyper_fp b) then 0 else 32) +
  (if bytes_eqb (o_hist_fp a) (o_hist_fp b) then 0 else 64).

Definition do_query (r : rstate) (d : bytes) (q : option N) : qresult bytes bytes bytes :=
  match q with Some v => b_query_c (r_b r) d v | None => b_query (r_b r) d end.

Definition snap_bytes (s : snapshot bytes bytes) : bytes :=
  s_event _ _ s ++ s_hist _ _ s ++ s_hyper _ _ s ++ be_bytes 8 (s_version _ _ s mod 2^64).

(* run one step; result: new state and a failure code (0 = agrees) *)
Definition run_step (r : rstate) (s : step) : rstate * N :=
  match s with
  | SAdd evs fp =>
      match b_add (r_b r) evs with
      | None => (r, 900)
      | Some (snaps, b') =>
          let r' := {| r_b := b'; r_snaps := map (fun s => (s_version _ _ s, (s_hist _ _ s, s_hyper _ _ s))) snaps ++ r_snaps r |} in
          (r', if bytes_eqb (sha256 (flat_map snap_bytes snaps)) fp then 0 else 901)
      end
  | SQuery d q obs => (r, let df := obs_diff (qres_obs (do_query r d q)) obs in if df =? 0 then 0 else 1000 + df)
  | SVerify d q alts dv hx yx obs =>
      match do_query r d q with
      | QOk _ _ _ a =>
          let a' := fold_left apply_malt alts (wire a) in
          let v := vcode (b_dverify (wf_answer a') dv (fst (snap_lookup r hx)) (snd (snap_lookup r yx))) in
          (r, if v =? obs then 0 else 2000 + v)
      | _ => (r, 2900)
      end
  | SCons s e cls fp verdict =>
      match b_cons (r_b r) s e with
      | None => (r, if cls =? 1 then 0 else 3001)
      | Some None => (r, if cls =? 2 then 0 else 3002)
      | Some (Some p) =>
          let v := vcode (b_iverify (wfp (canon p)) s e (fst (snap_lookup r s)) (fst (snap_lookup r e))) in
          (r, if negb (cls =? 0) then 3003 else if negb (bytes_eqb (opt_fp (Some p)) fp) then 3004
              else if v =? verdict then 0 else 3005)
      end
  end.

Fixpoint run_steps (r : rstate) (k : N) (ss : list step) : list (N * N) :=
  match ss with
  | [] => []
  | s :: rest =>
      let '(r', code) := run_step r s in
      (if code =? 0 then [] else [(k, code)]) ++ run_steps r' (k + 1) rest
  end.

Definition run_balloon_case (ss : list step) : list (N * N) :=
  run_steps {| r_b := init bytes bytes; r_snaps := [] |} 0 ss.

Definition run_balloon_cases (cs : list (list step)) : list (N * list (N * N)) :=
  filter (fun r => match snd r with [] => false | _ => true end)
         (map (fun '(k, c) => (k, run_balloon_case c)) (combine (seqN 0 (length cs)) cs)).
