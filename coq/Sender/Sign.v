(* server/sender.go doSign + crypto/sign: the signed message is fmt.Sprintf("%v", snapshot) for a
   *protocol.Snapshot{EventDigest, HistoryDigest, HyperDigest []byte; Version uint64}, i.e.
       &{[e0 e1 ...] [h0 h1 ...] [y0 y1 ...] version}
   with every byte and the version in decimal.  The message determines the snapshot (parse_snapshot is a left
   inverse of print_snapshot), so a signature scheme in which a signature verifies for one message only binds
   every field. *)
From Coq Require Import String Ascii DecimalString DecimalN Decimal.
From QV Require Import Base.Util.
Open Scope string_scope.

Record snap := { sn_event : list N; sn_history : list N; sn_hyper : list N; sn_version : N }.

Definition print_dec (n : N) : string := NilEmpty.string_of_uint (N.to_uint n).
Definition parse_dec (s : string) : N :=
  match NilEmpty.uint_of_string s with Some d => N.of_uint d | None => 0 end.

Fixpoint join_sp (l : list string) : string :=
  match l with
  | [] => ""
  | [x] => x
  | x :: r => x ++ " " ++ join_sp r
  end.
Definition print_bytes (l : list N) : string := "[" ++ join_sp (map print_dec l) ++ "]".
Definition print_snapshot (s : snap) : string :=
  "&{" ++ print_bytes (sn_event s) ++ " " ++ print_bytes (sn_history s) ++ " " ++ print_bytes (sn_hyper s) ++ " "
       ++ print_dec (sn_version s) ++ "}".

(* ---- the parser *)
Fixpoint has (c : ascii) (s : string) : bool :=
  match s with EmptyString => false | String x r => Ascii.eqb x c || has c r end.
Fixpoint split_at (c : ascii) (s : string) (acc : string) : option (string * string) :=
  match s with
  | EmptyString => None
  | String x r => if Ascii.eqb x c then Some (acc, r) else split_at c r (acc ++ String x EmptyString)
  end.
Fixpoint split_all (c : ascii) (s : string) (cur : string) : list string :=
  match s with
  | EmptyString => [cur]
  | String x r => if Ascii.eqb x c then cur :: split_all c r "" else split_all c r (cur ++ String x EmptyString)
  end.
Definition parse_inner (s : string) : list N :=
  match s with EmptyString => [] | _ => map parse_dec (split_all " " s "") end.
Definition expect (p : string) (s : string) : option string :=
  if prefix p s then Some (substring (String.length p) (String.length s - String.length p) s) else None.

Definition parse_bytes (s : string) : option (list N * string) :=
  match expect "[" s with
  | Some r => match split_at "]" r "" with Some (inner, rest) => Some (parse_inner inner, rest) | None => None end
  | None => None
  end.

Definition parse_snapshot (s : string) : option snap :=
  match expect "&{" s with None => None | Some r0 =>
  match parse_bytes r0 with None => None | Some (e, r1) =>
  match expect " " r1 with None => None | Some r2 =>
  match parse_bytes r2 with None => None | Some (h, r3) =>
  match expect " " r3 with None => None | Some r4 =>
  match parse_bytes r4 with None => None | Some (y, r5) =>
  match expect " " r5 with None => None | Some r6 =>
  match split_at "}" r6 "" with
  | Some (v, EmptyString) => Some {| sn_event := e; sn_history := h; sn_hyper := y; sn_version := parse_dec v |}
  | _ => None
  end end end end end end end end.

(* ---- proofs *)
Lemma parse_print_dec n : parse_dec (print_dec n) = n.
Proof. unfold parse_dec, print_dec. rewrite NilEmpty.usu. apply DecimalN.Unsigned.of_to. Qed.

Definition is_digit (c : ascii) : bool :=
  match c with
  | "0" | "1" | "2" | "3" | "4" | "5" | "6" | "7" | "8" | "9" => true
  | _ => false
  end%char.
Fixpoint all_digits (s : string) : bool :=
  match s with EmptyString => true | String x r => is_digit x && all_digits r end.

Lemma string_of_uint_digits d : all_digits (NilEmpty.string_of_uint d) = true.
Proof. induction d; cbn; auto. Qed.

Lemma print_dec_nonempty n : print_dec n <> "".
Proof.
  unfold print_dec. destruct n as [|p]; [cbn; discriminate|].
  cbn [N.to_uint]. pose proof (DecimalPos.Unsigned.to_uint_nonnil p) as Hn.
  destruct (Pos.to_uint p); cbn; try discriminate. contradiction.
Qed.

Lemma has_app c a b : has c (a ++ b) = has c a || has c b.
Proof. induction a as [|x a IH]; cbn; [reflexivity|]. rewrite IH, orb_assoc. reflexivity. Qed.

Lemma digits_has c s : is_digit c = false -> all_digits s = true -> has c s = false.
Proof.
  intros Hc. induction s as [|x s IH]; cbn; [reflexivity|]. intros Hd. apply andb_true_iff in Hd. destruct Hd as [Hx Hs].
  rewrite (IH Hs), orb_false_r. destruct (Ascii.eqb_spec x c) as [->|]; [congruence|reflexivity].
Qed.

Lemma split_at_app c a b : forall acc, has c a = false -> split_at c (a ++ String c b) acc = Some (acc ++ a, b).
Proof.
  induction a as [|x a IH]; intros acc Hn; cbn.
  - rewrite Ascii.eqb_refl. f_equal. f_equal. clear. induction acc; cbn; congruence.
  - cbn in Hn. apply orb_false_iff in Hn. destruct Hn as [Hx Ha]. rewrite Hx, (IH _ Ha). f_equal. f_equal.
    clear. induction acc as [|y acc IHa]; cbn; [reflexivity|]. rewrite IHa. reflexivity.
Qed.

Lemma split_all_nosep c a : forall cur, has c a = false -> split_all c a cur = [cur ++ a].
Proof.
  induction a as [|x a IH]; intros cur Hn; cbn.
  - f_equal. clear. induction cur; cbn; congruence.
  - cbn in Hn. apply orb_false_iff in Hn. destruct Hn as [Hx Ha]. rewrite Hx, (IH _ Ha). f_equal.
    clear. induction cur as [|y cur IHc]; cbn; [reflexivity|]. rewrite IHc. reflexivity.
Qed.

Lemma split_all_app c a b : forall cur, has c a = false ->
  split_all c (a ++ String c b) cur = (cur ++ a) :: split_all c b "".
Proof.
  induction a as [|x a IH]; intros cur Hn; cbn.
  - rewrite Ascii.eqb_refl. f_equal. clear. induction cur; cbn; congruence.
  - cbn in Hn. apply orb_false_iff in Hn. destruct Hn as [Hx Ha]. rewrite Hx, (IH _ Ha). f_equal.
    clear. induction cur as [|y cur IHc]; cbn; [reflexivity|]. rewrite IHc. reflexivity.
Qed.

Lemma split_join (l : list string) : l <> [] -> Forall (fun x => has " " x = false) l ->
  split_all " " (join_sp l) "" = l.
Proof.
  induction l as [|x l IH]; intros Hne Hall; [contradiction|]. inversion Hall as [|? ? Hx Hl]; subst.
  destruct l as [|y l].
  - cbn [join_sp]. rewrite (split_all_nosep _ _ _ Hx). reflexivity.
  - change (join_sp (x :: y :: l)) with (x ++ String " " (join_sp (y :: l))).
    rewrite (split_all_app _ _ _ _ Hx). cbn [append]. f_equal. apply IH; [discriminate|exact Hl].
Qed.

Lemma has_join c (l : list string) : Ascii.eqb " " c = false -> Forall (fun x => has c x = false) l -> has c (join_sp l) = false.
Proof.
  intros Hc. induction l as [|x l IH]; intros Hall; [reflexivity|]. inversion Hall as [|? ? Hx Hl]; subst.
  destruct l as [|y l]; [exact Hx|].
  change (join_sp (x :: y :: l)) with (x ++ String " " (join_sp (y :: l))). rewrite has_app. cbn [has].
  rewrite Hx, Hc, (IH Hl). reflexivity.
Qed.

Lemma parse_inner_join (l : list N) : parse_inner (join_sp (map print_dec l)) = l.
Proof.
  destruct l as [|n l]; [reflexivity|]. unfold parse_inner.
  assert (Hne : join_sp (map print_dec (n :: l)) <> "").
  { cbn [map join_sp]. destruct (map print_dec l); [apply print_dec_nonempty|].
    pose proof (print_dec_nonempty n). destruct (print_dec n); [contradiction|discriminate]. }
  destruct (join_sp (map print_dec (n :: l))) eqn:Hj; [contradiction|]. rewrite <- Hj.
  rewrite split_join.
  - rewrite map_map. clear. induction (n :: l) as [|x r IH]; [reflexivity|]. cbn. rewrite parse_print_dec, IH. reflexivity.
  - discriminate.
  - apply Forall_forall. intros x Hx. apply in_map_iff in Hx. destruct Hx as [m [<- _]].
    apply digits_has; [reflexivity|apply string_of_uint_digits].
Qed.

Lemma prefix_app p s : prefix p (p ++ s) = true.
Proof. induction p as [|x p IH]; cbn; [destruct s; reflexivity|]. destruct (ascii_dec x x); [exact IH|contradiction]. Qed.

Lemma substring_all s : substring 0 (String.length s) s = s.
Proof. induction s as [|y s IH]; cbn; [reflexivity|]. rewrite IH. reflexivity. Qed.

Lemma substring_app p s : substring (String.length p) (String.length (p ++ s) - String.length p) (p ++ s) = s.
Proof.
  induction p as [|x p IH]; cbn.
  - rewrite Nat.sub_0_r. apply substring_all.
  - exact IH.
Qed.

Lemma expect_app p s : expect p (p ++ s) = Some s.
Proof. unfold expect. rewrite prefix_app, substring_app. reflexivity. Qed.

Lemma parse_print_bytes l rest : parse_bytes (print_bytes l ++ rest) = Some (l, rest).
Proof.
  unfold parse_bytes, print_bytes.
  change (("[" ++ join_sp (map print_dec l) ++ "]") ++ rest) with ("[" ++ ((join_sp (map print_dec l) ++ "]") ++ rest)).
  rewrite expect_app.
  assert (Heq : (join_sp (map print_dec l) ++ "]") ++ rest = join_sp (map print_dec l) ++ String "]" rest).
  { clear. induction (join_sp (map print_dec l)) as [|x s IH]; cbn; [reflexivity|]. rewrite IH. reflexivity. }
  rewrite Heq, split_at_app.
  - cbn [append]. rewrite parse_inner_join. reflexivity.
  - apply has_join; [reflexivity|]. apply Forall_forall. intros x Hx. apply in_map_iff in Hx. destruct Hx as [m [<- _]].
    apply digits_has; [reflexivity|apply string_of_uint_digits].
Qed.

Lemma append_assoc (a b c : string) : (a ++ b) ++ c = a ++ (b ++ c).
Proof. induction a as [|x a IH]; cbn; [reflexivity|]. rewrite IH. reflexivity. Qed.

Theorem parse_print_snapshot s : parse_snapshot (print_snapshot s) = Some s.
Proof.
  unfold parse_snapshot, print_snapshot. rewrite expect_app.
  rewrite parse_print_bytes, expect_app, parse_print_bytes, expect_app, parse_print_bytes, expect_app.
  change (print_dec (sn_version s) ++ "}") with (print_dec (sn_version s) ++ String "}" "").
  rewrite split_at_app by (apply digits_has; [reflexivity|apply string_of_uint_digits]).
  cbn [append]. rewrite parse_print_dec. destruct s; reflexivity.
Qed.

Theorem print_snapshot_inj a b : print_snapshot a = print_snapshot b -> a = b.
Proof. intros Heq. pose proof (parse_print_snapshot a) as Ha. rewrite Heq, parse_print_snapshot in Ha. congruence. Qed.

(* ---- binding, for any signature scheme in which a signature verifies for one message only and a message has
   one signature (the idealisation of ed25519 as implemented by golang.org/x/crypto/ed25519: deterministic
   signing, strict verification) *)
Section Binding.
  Variable Sig : Type.
  Variable sign : string -> Sig.
  Variable verify : string -> Sig -> bool.
  Hypothesis verify_sign : forall m, verify m (sign m) = true.
  Hypothesis verify_unique : forall m sg, verify m sg = true -> sg = sign m.
  Hypothesis sign_binds : forall m m', sign m = sign m' -> m = m'.

  Definition do_sign (s : snap) : snap * Sig := (s, sign (print_snapshot s)).
  Definition check (ss : snap * Sig) : bool := verify (print_snapshot (fst ss)) (snd ss).

  Theorem signed_verifies s : check (do_sign s) = true.
  Proof. apply verify_sign. Qed.

  (* any pair (snapshot', signature') that verifies and shares the snapshot or the signature with a signed
     snapshot IS that signed snapshot: changing any field, or any part of the signature, stops it verifying *)
  Theorem signature_binds s s' sg' : check (s', sg') = true -> (s' = s \/ sg' = snd (do_sign s)) ->
    (s', sg') = do_sign s.
  Proof.
    unfold check, do_sign. cbn [fst snd]. intros Hv [Hs | Hs]; subst.
    - rewrite (verify_unique _ _ Hv). reflexivity.
    - pose proof (verify_unique _ _ Hv) as Hs. apply sign_binds, print_snapshot_inj in Hs. subst. reflexivity.
  Qed.
End Binding.

(* the model of the printed form for the correspondence run *)
Definition run_print_cases (cs : list (snap * string)) : list N :=
  map fst (filter (fun kc => negb (String.eqb (print_snapshot (fst (snd kc))) (snd (snd kc))))
                  (combine (map N.of_nat (seq 0 (length cs))) cs)).
