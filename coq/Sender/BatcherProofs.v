From QV Require Import Base.Util Sender.Batcher.
From Coq Require Import Permutation.

Section BatcherProofs.
  Variable S : Type.
  Variable B : nat.
  Hypothesis B_pos : (0 < B)%nat.

  Notation bstep := (bstep S B).
  Notation brun := (brun S B).
  Notation gstep := (gstep S B).
  Notation grun := (grun S B).

  Lemma arrivals_cons e r : arrivals S (e :: r) = arrivals S [e] ++ arrivals S r.
  Proof. unfold arrivals. cbn [flat_map]. rewrite app_nil_r. reflexivity. Qed.

  (* ---- one batcher *)
  Lemma bstep_conserve buf e buf' out : bstep buf e = (buf', out) ->
    concat out ++ buf' = buf ++ arrivals S [e].
  Proof.
    destruct e as [s|]; cbn.
    - destruct (Nat.eqb (length buf) B); intros Heq; injection Heq as <- <-; cbn; rewrite ?app_nil_r; reflexivity.
    - destruct buf as [|x buf]; intros Heq; injection Heq as <- <-; cbn; rewrite ?app_nil_r; reflexivity.
  Qed.

  Lemma bstep_bound buf e buf' out : (length buf <= B)%nat -> bstep buf e = (buf', out) ->
    (length buf' <= B)%nat /\ Forall (fun b => 1 <= length b <= B)%nat out.
  Proof.
    intros Hb. destruct e as [s|]; cbn.
    - destruct (Nat.eqb_spec (length buf) B) as [He|Hne]; intros Heq; injection Heq as <- <-.
      + split; [cbn; lia|]. constructor; [lia|constructor].
      + split; [rewrite app_length; cbn; lia|constructor].
    - destruct buf as [|x buf]; intros Heq; injection Heq as <- <-.
      + split; [cbn; lia|constructor].
      + split; [cbn; lia|]. constructor; [cbn in *; lia|constructor].
  Qed.

  Theorem brun_conserve evs : forall buf buf' out, brun buf evs = (buf', out) ->
    concat out ++ buf' = buf ++ arrivals S evs.
  Proof.
    induction evs as [|e r IH]; intros buf buf' out; cbn [Batcher.brun].
    - intros Heq. injection Heq as <- <-. cbn. rewrite app_nil_r. reflexivity.
    - destruct (bstep buf e) as [b1 o1] eqn:H1. destruct (brun b1 r) as [b2 o2] eqn:H2.
      intros Heq. injection Heq as <- <-. rewrite concat_app, <- app_assoc, (IH _ _ _ H2), app_assoc, (bstep_conserve _ _ _ _ H1).
      rewrite (arrivals_cons e r), <- app_assoc. reflexivity.
  Qed.

  Theorem brun_bound evs : forall buf buf' out, (length buf <= B)%nat -> brun buf evs = (buf', out) ->
    (length buf' <= B)%nat /\ Forall (fun b => 1 <= length b <= B)%nat out.
  Proof.
    induction evs as [|e r IH]; intros buf buf' out Hb; cbn [Batcher.brun].
    - intros Heq. injection Heq as <- <-. split; [exact Hb|constructor].
    - destruct (bstep buf e) as [b1 o1] eqn:H1. destruct (brun b1 r) as [b2 o2] eqn:H2.
      intros Heq. injection Heq as <- <-. destruct (bstep_bound _ _ _ _ Hb H1) as [Hb1 Ho1].
      destruct (IH _ _ _ Hb1 H2) as [Hb2 Ho2]. split; [exact Hb2|]. apply Forall_app. split; assumption.
  Qed.

  (* ---- several batchers *)
  Lemma upd_length {A} (l : list A) : forall i x, length (upd l i x) = length l.
  Proof. induction l as [|h t IH]; intros [|j] x; cbn; auto. Qed.

  Lemma concat_upd_perm (st : list (list S)) : forall i b b', nth_error st i = Some b ->
    Permutation (b' ++ concat st) (b ++ concat (upd st i b')).
  Proof.
    induction st as [|h t IH]; intros [|j] b b' Hn; cbn in Hn; try discriminate.
    - injection Hn as ->. cbn. apply Permutation_app_swap_app.
    - cbn. specialize (IH j b b' Hn).
      eapply Permutation_trans; [apply Permutation_app_swap_app|].
      eapply Permutation_trans; [apply Permutation_app_head; exact IH|]. apply Permutation_app_swap_app.
  Qed.

  Definition ids_ok (n : nat) (sched : list (nat * bev S)) : Prop := Forall (fun ie => (fst ie < n)%nat) sched.
  Definition garrivals (sched : list (nat * bev S)) : list S := arrivals S (map snd sched).

  Lemma gstep_conserve st ie st' out : (fst ie < length st)%nat -> gstep st ie = (st', out) ->
    Permutation (concat out ++ concat st') (concat st ++ arrivals S [snd ie]) /\ length st' = length st.
  Proof.
    intros Hi. unfold Batcher.gstep. destruct (nth_error st (fst ie)) as [buf|] eqn:Hn.
    - destruct (bstep buf (snd ie)) as [buf' o] eqn:Hs. intros Heq. injection Heq as <- <-.
      split; [|apply upd_length].
      pose proof (bstep_conserve _ _ _ _ Hs) as Hc.
      pose proof (concat_upd_perm st (fst ie) buf buf' Hn) as Hp.
      (* buf ++ concat o ++ concat (upd ..) ~ concat o ++ buf' ++ concat st = buf ++ arr ++ concat st *)
      apply Permutation_app_inv_l with (l := buf).
      eapply Permutation_trans; [apply Permutation_app_swap_app|].
      eapply Permutation_trans; [apply Permutation_app_head, Permutation_sym; exact Hp|].
      rewrite app_assoc, Hc, <- app_assoc. apply Permutation_app_head, Permutation_app_comm.
    - apply nth_error_None in Hn. lia.
  Qed.

  (* Conservation over every schedule: what was published plus what the batchers still hold is exactly what was
     held at the start plus what arrived - nothing lost, nothing duplicated, whatever the interleaving *)
  Theorem grun_conserve sched : forall st st' out, ids_ok (length st) sched -> grun st sched = (st', out) ->
    Permutation (concat out ++ concat st') (concat st ++ garrivals sched) /\ length st' = length st.
  Proof.
    induction sched as [|x r IH]; intros st st' out Hids; cbn [Batcher.grun].
    - intros Heq. injection Heq as <- <-. cbn. unfold garrivals. cbn. rewrite app_nil_r. split; reflexivity.
    - destruct (gstep st x) as [s1 o1] eqn:H1. destruct (grun s1 r) as [s2 o2] eqn:H2.
      intros Heq. injection Heq as <- <-. inversion Hids as [|? ? Hx Hr]; subst.
      destruct (gstep_conserve _ _ _ _ Hx H1) as [Hp1 Hl1]. rewrite <- Hl1 in Hr.
      destruct (IH _ _ _ Hr H2) as [Hp2 Hl2]. split; [|congruence].
      rewrite concat_app, <- app_assoc, Hp2, app_assoc, Hp1.
      unfold garrivals. cbn [map]. rewrite (arrivals_cons (snd x) (map snd r)), <- app_assoc. reflexivity.
  Qed.

  Definition bufs_ok (st : list (list S)) : Prop := Forall (fun b => length b <= B)%nat st.

  Lemma upd_Forall {A} (P : A -> Prop) (l : list A) : forall i x, Forall P l -> P x -> Forall P (upd l i x).
  Proof.
    induction l as [|h t IH]; intros [|j] x Hl Hx; cbn; auto; inversion Hl; subst; constructor; auto.
  Qed.

  (* every batch that leaves any batcher holds between 1 and BatchSize snapshots *)
  Theorem grun_bound sched : forall st st' out, bufs_ok st -> grun st sched = (st', out) ->
    bufs_ok st' /\ Forall (fun b => 1 <= length b <= B)%nat out.
  Proof.
    induction sched as [|x r IH]; intros st st' out Hb; cbn [Batcher.grun].
    - intros Heq. injection Heq as <- <-. split; [exact Hb|constructor].
    - destruct (gstep st x) as [s1 o1] eqn:H1. destruct (grun s1 r) as [s2 o2] eqn:H2.
      intros Heq. injection Heq as <- <-.
      assert (Hs1 : bufs_ok s1 /\ Forall (fun b => 1 <= length b <= B)%nat o1).
      { unfold Batcher.gstep in H1. destruct (nth_error st (fst x)) as [buf|] eqn:Hn.
        - destruct (bstep buf (snd x)) as [buf' o] eqn:Hs. injection H1 as <- <-.
          assert (Hbuf : (length buf <= B)%nat).
          { unfold bufs_ok in Hb. rewrite Forall_forall in Hb. apply Hb. eapply nth_error_In. exact Hn. }
          destruct (bstep_bound _ _ _ _ Hbuf Hs) as [Hb' Ho]. split; [|exact Ho]. apply upd_Forall; assumption.
        - injection H1 as <- <-. split; [exact Hb|constructor]. }
      destruct Hs1 as [Hb1 Ho1]. destruct (IH _ _ _ Hb1 H2) as [Hb2 Ho2].
      split; [exact Hb2|]. apply Forall_app. split; assumption.
  Qed.

  (* the timers: once every batcher has seen a tick after the last arrival, nothing is left inside the sender *)
  Definition all_tick (n : nat) : list (nat * bev S) := map (fun i => (i, Tick S)) (seq 0 n).

  Lemma grun_all_tick_gen (post : list (list S)) : forall (pre : list (list S)),
    Forall (fun b => b = []) pre ->
    Forall (fun b => b = []) (fst (grun (pre ++ post) (map (fun i => (i, Tick S)) (seq (length pre) (length post))))).
  Proof.
    induction post as [|b post IH]; intros pre Hpre.
    - cbn. rewrite app_nil_r. exact Hpre.
    - cbn [length seq map Batcher.grun]. unfold Batcher.gstep at 1. cbn [fst snd].
      assert (Hn : nth_error (pre ++ b :: post) (length pre) = Some b).
      { rewrite nth_error_app2 by lia. rewrite Nat.sub_diag. reflexivity. }
      rewrite Hn.
      assert (Hupd : forall x, upd (pre ++ b :: post) (length pre) x = (pre ++ [x]) ++ post).
      { intros x. clear. induction pre as [|p pre IHp]; cbn; [reflexivity|]. rewrite IHp. reflexivity. }
      assert (Hstep : exists o, Batcher.bstep S B b (Tick S) = ([], o)) by (destruct b; cbn; eauto).
      destruct Hstep as [o Ho]. rewrite Ho, Hupd.
      specialize (IH (pre ++ [[]])). rewrite app_length in IH. cbn [length] in IH.
      replace (Datatypes.S (length pre)) with (length pre + 1)%nat by lia.
      destruct (grun ((pre ++ [[]]) ++ post) (map (fun i => (i, Tick S)) (seq (length pre + 1) (length post)))) as [s2 o2] eqn:Hg.
      cbn [fst]. apply IH. apply Forall_app. split; [exact Hpre|]. constructor; [reflexivity|constructor].
  Qed.

  Theorem grun_all_tick st : Forall (fun b => b = []) (fst (grun st (all_tick (length st)))).
  Proof. exact (grun_all_tick_gen st [] (Forall_nil _)). Qed.

  (* Exactly once: from empty batchers, for distinct snapshots, after the final ticks every snapshot that arrived
     is in exactly one published batch *)
  Theorem sender_exactly_once n sched st' out :
    ids_ok n sched -> NoDup (garrivals sched) ->
    grun (repeat [] n) (sched ++ all_tick n) = (st', out) ->
    Permutation (concat out) (garrivals sched) /\ NoDup (concat out) /\
    Forall (fun b => 1 <= length b <= B)%nat out.
  Proof.
    intros Hids Hnd Hrun.
    assert (Hsplit : forall a b st, grun st (a ++ b) =
              let '(s1, o1) := grun st a in let '(s2, o2) := grun s1 b in (s2, o1 ++ o2)).
    { clear. induction a as [|x a IH]; intros b st; cbn [app Batcher.grun].
      - destruct (grun st b); reflexivity.
      - destruct (gstep st x) as [s1 o1]. rewrite IH. destruct (grun s1 a) as [s2 o2]. destruct (grun s2 b) as [s3 o3].
        rewrite app_assoc. reflexivity. }
    rewrite Hsplit in Hrun. destruct (grun (repeat [] n) sched) as [s1 o1] eqn:H1.
    destruct (grun s1 (all_tick n)) as [s2 o2] eqn:H2. injection Hrun as <- <-.
    assert (Hlen0 : length (repeat ([] : list S) n) = n) by apply repeat_length.
    destruct (grun_conserve sched _ _ _ ltac:(rewrite Hlen0; exact Hids) H1) as [Hp1 Hl1].
    assert (Hids2 : ids_ok (length s1) (all_tick n)).
    { rewrite Hl1, Hlen0. unfold ids_ok, all_tick. apply Forall_forall. intros x Hx. apply in_map_iff in Hx.
      destruct Hx as [i [<- Hi]]. apply in_seq in Hi. cbn. lia. }
    destruct (grun_conserve (all_tick n) _ _ _ Hids2 H2) as [Hp2 Hl2].
    assert (Hempty : concat s2 = []).
    { pose proof (grun_all_tick s1) as He. rewrite Hl1, Hlen0, H2 in He. cbn [fst] in He.
      clear - He. induction s2 as [|b s IH]; [reflexivity|]. inversion He; subst. cbn. apply IH. assumption. }
    assert (Hta : garrivals (all_tick n) = []).
    { unfold garrivals, all_tick. rewrite map_map. cbn [snd]. clear. induction (seq 0 n); [reflexivity|]. cbn. assumption. }
    assert (Hc0 : concat (repeat ([] : list S) n) = []) by (clear; induction n; [reflexivity|]; cbn; assumption).
    rewrite Hempty, Hta, !app_nil_r in Hp2. rewrite Hc0 in Hp1. cbn [app] in Hp1.
    assert (Hperm : Permutation (concat (o1 ++ o2)) (garrivals sched)).
    { rewrite concat_app, Hp2. exact Hp1. }
    split; [exact Hperm|]. split; [apply (Permutation_NoDup (Permutation_sym Hperm)); exact Hnd|].
    assert (Hb0 : bufs_ok (repeat [] n)) by (unfold bufs_ok; clear; induction n; constructor; [cbn; lia|assumption]).
    destruct (grun_bound sched _ _ _ Hb0 H1) as [Hb1 Ho1].
    destruct (grun_bound (all_tick n) _ _ _ Hb1 H2) as [_ Ho2].
    apply Forall_app. split; assumption.
  Qed.
End BatcherProofs.

(* without the bound on BatchSize the size claim is false: BatchSize 0 never flushes on arrival *)
Example batch_size_zero_refuted : exists evs buf out,
  brun N 0 [] evs = (buf, out) /\ exists b, In b (out ++ [buf]) /\ (length b > 1)%nat.
Proof. exists [Arrive N 1; Arrive N 2; Arrive N 3]. eexists. eexists. split; [reflexivity|]. exists [1; 2; 3]. split; [right; left; reflexivity|cbn; lia]. Qed.
