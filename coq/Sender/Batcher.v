(* server/sender.go: the batchers.  NumSenders goroutines read the same snapshots channel (each snapshot is
   received by exactly one of them - Go channel semantics, trusted); each keeps a batch:
     on a snapshot: if the batch already holds BatchSize signed snapshots, publish it and start a new one;
                    then sign the snapshot and append it
     on a timer tick (no snapshot for Interval): if the batch is not empty, publish it and start a new one.
   A schedule is any interleaving of (batcher id, event). *)
From QV Require Import Base.Util.
From Coq Require Import Permutation.

Section Batcher.
  Variable S : Type.          (* a signed snapshot *)
  Variable B : nat.           (* BatchSize *)

  Inductive bev := Arrive (s : S) | Tick.

  Definition bstep (buf : list S) (e : bev) : list S * list (list S) :=
    match e with
    | Arrive s => if Nat.eqb (length buf) B then ([s], [buf]) else (buf ++ [s], [])
    | Tick => match buf with [] => ([], []) | _ => ([], [buf]) end
    end.

  Fixpoint brun (buf : list S) (evs : list bev) : list S * list (list S) :=
    match evs with
    | [] => (buf, [])
    | e :: r => let '(b1, o1) := bstep buf e in let '(b2, o2) := brun b1 r in (b2, o1 ++ o2)
    end.

  Definition arrivals (evs : list bev) : list S :=
    flat_map (fun e => match e with Arrive s => [s] | Tick => [] end) evs.

  (* ---- several batchers *)
  Fixpoint upd {A} (l : list A) (i : nat) (x : A) : list A :=
    match l, i with
    | [], _ => []
    | _ :: t, O => x :: t
    | h :: t, Datatypes.S j => h :: upd t j x
    end.

  Definition gstep (st : list (list S)) (ie : nat * bev) : list (list S) * list (list S) :=
    match nth_error st (fst ie) with
    | None => (st, [])
    | Some buf => let '(buf', out) := bstep buf (snd ie) in (upd st (fst ie) buf', out)
    end.

  Fixpoint grun (st : list (list S)) (sched : list (nat * bev)) : list (list S) * list (list S) :=
    match sched with
    | [] => (st, [])
    | x :: r => let '(s1, o1) := gstep st x in let '(s2, o2) := grun s1 r in (s2, o1 ++ o2)
    end.
End Batcher.
