(* The proposing side of C17 (consensus/fsm.go RaftNode.AddBulk): after raft has applied its entry, every proposer pushes
   the snapshots it was given, in order, onto the one channel the sender's batchers read.  Several proposers run at the
   same time and resume in ANY order; the channel sees an arbitrary interleaving of their sequences.
   - [interleave_perm]: whatever the interleaving, the channel carries exactly the snapshots issued - each once, none lost
     (a permutation of the concatenation), and each proposer's snapshots in their own order ([interleave_keeps_order]).
   - [hwm_*]: the same with a "published" high-water mark in front of the channel (a version goes out only if the mark has
     not passed it - seeded change C17-10): there is a schedule of two proposers that loses a snapshot. *)
From Coq Require Import List NArith Permutation Lia.
Import ListNotations.

Section Interleave.
  Variable A : Type.

  (* ps: what each proposer still has to push; l: what the channel receives from now on *)
  Inductive interleave : list (list A) -> list A -> Prop :=
  | il_done ps : Forall (fun p => p = []) ps -> interleave ps []
  | il_push ps1 x p ps2 l : interleave (ps1 ++ p :: ps2) l -> interleave (ps1 ++ (x :: p) :: ps2) (x :: l).

  Lemma concat_all_nil (ps : list (list A)) : Forall (fun p => p = []) ps -> concat ps = [].
  Proof. induction 1 as [|p ps Hp _ IH]; [reflexivity|]. subst p. exact IH. Qed.

  Theorem interleave_perm ps l : interleave ps l -> Permutation l (concat ps).
  Proof.
    induction 1 as [ps Hnil|ps1 x p ps2 l _ IH].
    - rewrite concat_all_nil by exact Hnil. constructor.
    - rewrite concat_app in *. cbn [concat] in *. cbn [app].
      apply Permutation_cons_app. exact IH.
  Qed.

  (* nothing lost, nothing twice *)
  Corollary interleave_each_once ps l : interleave ps l -> NoDup (concat ps) ->
    NoDup l /\ forall x, In x l <-> In x (concat ps).
  Proof.
    intros Hi Hnd. pose proof (interleave_perm ps l Hi) as Hp. split.
    - apply (Permutation_NoDup (Permutation_sym Hp) Hnd).
    - intros x. split; [apply Permutation_in; exact Hp|apply Permutation_in; apply Permutation_sym; exact Hp].
  Qed.

  Corollary interleave_length ps l : interleave ps l -> length l = length (concat ps).
  Proof. intros Hi. apply Permutation_length. apply interleave_perm. exact Hi. Qed.
End Interleave.

(* ---- the high-water mark of seeded change C17-10, over versions *)
Fixpoint hwm_filter (mark : N) (l : list N) : list N :=
  match l with
  | [] => []
  | v :: r => if N.leb mark v then v :: hwm_filter (v + 1) r else hwm_filter mark r
  end.

(* two proposers: the first was given versions 0 and 1, the second version 2; the second resumes first *)
Example hwm_loses_a_snapshot :
  interleave N [[0; 1]; [2]]%N [2; 0; 1]%N /\ hwm_filter 0 [2; 0; 1]%N = [2]%N.
Proof.
  split; [|reflexivity].
  apply (il_push N [[0; 1]%N] 2%N [] [] [0; 1]%N). cbn [app].
  apply (il_push N [] 0%N [1%N] [[]] [1%N]). cbn [app].
  apply (il_push N [] 1%N [] [[]] []). cbn [app].
  apply il_done. repeat constructor.
Qed.
