(* Executable mirror of client/topology.go + client/endpoint.go, and of the request loops of
   client/client.go (callPrimary, callAny, discover) over scripted request outcomes.  No proofs here. *)
From Coq Require Import ZArith.
From QV Require Import Base.Util.

(* endpoints are heap objects: the primary object is shared between `primary` and the endpoint list, and
   Update re-uses old objects for secondaries it already knew *)
Record ep := { e_url : N; e_secondary : bool; e_dead : bool }.

Record topo := {
  t_objs : list ep;            (* the heap; object ids are positions *)
  t_eps : list nat;            (* topology.endpoints: object ids, in order *)
  t_primary : option nat;      (* topology.primary *)
  t_cindex : Z;                (* round-robin cursor, -1 after Update *)
  t_revive : bool              (* attemptToRevive *)
}.

Open Scope N_scope.

Definition new_topology (revive : bool) : topo :=
  {| t_objs := []; t_eps := []; t_primary := None; t_cindex := (-1)%Z; t_revive := revive |}.

Definition obj (t : topo) (i : nat) : ep := nth i (t_objs t) {| e_url := 0; e_secondary := false; e_dead := true |}.

Definition set_dead (t : topo) (i : nat) (d : bool) : topo :=
  {| t_objs := map (fun '(k, e) => if Nat.eqb k i then {| e_url := e_url e; e_secondary := e_secondary e; e_dead := d |} else e)
                   (combine (seq 0 (length (t_objs t))) (t_objs t));
     t_eps := t_eps t; t_primary := t_primary t; t_cindex := t_cindex t; t_revive := t_revive t |}.

Definition set_secondary (objs : list ep) (i : nat) : list ep :=
  map (fun '(k, e) => if Nat.eqb k i then {| e_url := e_url e; e_secondary := true; e_dead := e_dead e |} else e)
      (combine (seq 0 (length objs)) objs).

(* url 0 stands for the empty string *)
Fixpoint find_old (t : topo) (url : N) (eps : list nat) : option nat :=
  match eps with
  | [] => None
  | i :: r => if e_url (obj t i) =? url then Some i else find_old t url r
  end.

(* topology.Update(primaryNode, secondaries...) *)
Definition update (t : topo) (prim : N) (secs : list N) : topo :=
  let '(objs1, prim', eps0) :=
    if prim =? 0 then (t_objs t, t_primary t, [])
    else (t_objs t ++ [{| e_url := prim; e_secondary := false; e_dead := false |}],
          Some (length (t_objs t)), [length (t_objs t)]) in
  let '(objs2, eps) :=
    fold_left (fun '(objs, eps) url =>
                 match find_old t url (t_eps t) with
                 | Some i => (set_secondary objs i, eps ++ [i])     (* re-used object, demoted to secondary *)
                 | None => if url =? 0 then (objs, eps)
                           else (objs ++ [{| e_url := url; e_secondary := true; e_dead := false |}], eps ++ [length objs])
                 end) secs (objs1, eps0) in
  {| t_objs := objs2; t_eps := eps; t_primary := prim'; t_cindex := (-1)%Z; t_revive := t_revive t |}.

Inductive pref := PPrimary | PPrimaryPreferred | PSecondary | PSecondaryPreferred | PAny.

(* the scan shared by three branches of NextReadEndpoint: at most len+1 steps from the cursor *)
Fixpoint scan (t : topo) (only_secondary : bool) (fuel : nat) (c : Z) : option nat * Z :=
  match fuel with
  | O => (None, c)
  | S f =>
      let n := Z.of_nat (length (t_eps t)) in
      let c1 := (c + 1)%Z in
      let c2 := if (n <=? c1)%Z then 0%Z else c1 in
      let i := nth (Z.to_nat c2) (t_eps t) O in
      let e := obj t i in
      if (if only_secondary then e_secondary e else true) && negb (e_dead e) then (Some i, c2)
      else scan t only_secondary f c2
  end.

Definition scan_eps (t : topo) (only_secondary : bool) : option nat * Z :=
  match t_eps t with
  | [] => (None, t_cindex t)
  | _ => scan t only_secondary (S (length (t_eps t))) (t_cindex t)
  end.

Definition live_primary (t : topo) : option nat :=
  match t_primary t with
  | Some p => if e_dead (obj t p) then None else Some p
  | None => None
  end.

Definition with_cindex (t : topo) (c : Z) : topo :=
  {| t_objs := t_objs t; t_eps := t_eps t; t_primary := t_primary t; t_cindex := c; t_revive := t_revive t |}.

Definition revive_all (t : topo) : topo :=
  if t_revive t then fold_left (fun acc i => set_dead acc i false) (t_eps t) t else t.

(* NextReadEndpoint: (chosen object or None = ErrNoEndpoint, new topology) *)
Definition next_read (t : topo) (p : pref) : option nat * topo :=
  let fail t' := (None, revive_all t') in
  match p with
  | PPrimary => match live_primary t with Some x => (Some x, t) | None => fail t end
  | PPrimaryPreferred =>
      match live_primary t with
      | Some x => (Some x, t)
      | None => let '(r, c) := scan_eps t true in
                match r with Some i => (Some i, with_cindex t c) | None => fail (with_cindex t c) end
      end
  | PSecondary =>
      let '(r, c) := scan_eps t true in
      match r with Some i => (Some i, with_cindex t c) | None => fail (with_cindex t c) end
  | PSecondaryPreferred =>
      let '(r, c) := scan_eps t true in
      match r with
      | Some i => (Some i, with_cindex t c)
      | None => let t' := with_cindex t c in
                match live_primary t' with Some x => (Some x, t') | None => fail t' end
      end
  | PAny =>
      let '(r, c) := scan_eps t false in
      match r with Some i => (Some i, with_cindex t c) | None => fail (with_cindex t c) end
  end.

(* topology.Primary(): 0 ok, 1 ErrNoPrimary, 2 ErrPrimaryDead *)
Definition primary_of (t : topo) : option nat * N :=
  match t_primary t with
  | None => (None, 1)
  | Some p => if e_dead (obj t p) then (Some p, 2) else (Some p, 0)
  end.

(* ---- request loops.  A request outcome is scripted per attempt. *)
Inductive outcome :=
| OOk                         (* 2xx/3xx... : MarkAsHealthy *)
| OFail                       (* connection error or 5xx after retries: doReq marks the endpoint dead *)
| O4xx                        (* 4xx: doReq returns an error WITHOUT marking the endpoint *)
| OShards (prim : N) (secs : list N).   (* a successful /info/shards answer *)

Definition do_req (t : topo) (i : nat) (o : outcome) : bool * topo :=
  match o with
  | OOk | OShards _ _ => (true, set_dead t i false)
  | OFail => (false, set_dead t i true)
  | O4xx => (false, t)
  end.

(* discover(): None = out of fuel (the loop did not terminate within the script) *)
Fixpoint discover (fuel : nat) (t : topo) (script : list outcome) (trace : list N)
  : option (bool * topo * list outcome * list N) :=
  match fuel with
  | O => None
  | S f =>
      let '(r, t1) := next_read t PAny in
      match r with
      | None => Some (false, t1, script, trace)
      | Some i =>
          let o := hd OFail script in       (* an exhausted script answers like a refused connection *)
          let rest := tl script in
          let '(ok, t2) := do_req t1 i o in
          let trace' := trace ++ [e_url (obj t1 i)] in
          match o with
          | OShards prim secs => Some (true, update t2 prim secs, rest, trace')
          | _ => if ok then Some (false, t2, rest, trace')     (* body does not decode *)
                 else discover f (set_dead t2 i true) rest trace'   (* a failed discovery request marks the endpoint dead *)
          end
      end
  end.

(* callAny: result class 0 ok / 1 error, final topology, urls requested in order *)
Fixpoint call_any (fuel : nat) (t : topo) (p : pref) (discovery : bool) (retried : bool)
         (script : list outcome) (trace : list N) : option (N * topo * list N) :=
  match fuel with
  | O => None
  | S f =>
      let '(r, t1) := next_read t p in
      match r with
      | None =>
          if negb retried && discovery then
            match discover fuel t1 script trace with
            | None => None
            | Some (_, t2, script', trace') => call_any f t2 p discovery true script' trace'
            end
          else Some (1, t1, trace)
      | Some i =>
          let o := hd OFail script in
          let rest := tl script in
          let '(ok, t2) := do_req t1 i o in
          let trace' := trace ++ [e_url (obj t1 i)] in
          if ok then Some (0, t2, trace')
          else call_any f (set_dead t2 i true) p discovery retried rest trace'
      end
  end.

(* callPrimary without health checks: at most one discovery, then one request to the primary *)
Definition call_primary (fuel : nat) (t : topo) (discovery : bool) (script : list outcome)
  : option (N * topo * list N) :=
  let attempt t script trace :=
    match primary_of t with
    | (Some p, 0) =>
        let '(ok, t2) := do_req t p (hd OFail script) in Some ((if ok then 0 else 1), t2, trace ++ [e_url (obj t p)])
    | _ => Some (1, t, trace)
    end in
  match primary_of t with
  | (Some p, 0) => attempt t script []
  | _ =>
      if discovery then
        match discover fuel t script [] with
        | None => None
        | Some (false, t2, _, trace) => Some (1, t2, trace)
        | Some (true, t2, script', trace) => attempt t2 script' trace
        end
      else Some (1, t, [])
  end.
