(* Proofs about the client's endpoint selection (C20): for every topology state and read preference. *)
From Coq Require Import ZArith.
From QV Require Import Base.Util Client.Topology.
Open Scope Z_scope.

Definition nz (t : topo) : Z := Z.of_nat (length (t_eps t)).
Definition elig (t : topo) (only_sec : bool) (i : nat) : bool :=
  (if only_sec then e_secondary (obj t i) else true) && negb (e_dead (obj t i)).
Definition pos_id (t : topo) (c : Z) : nat := nth (Z.to_nat c) (t_eps t) O.

(* the cursor stays inside the endpoint list *)
Definition WFc (t : topo) : Prop := -1 <= t_cindex t /\ (t_cindex t < nz t \/ nz t = 0).

Lemma scan_sound t os fuel : forall c i c',
  0 < nz t -> -1 <= c < nz t ->
  scan t os fuel c = (Some i, c') -> 0 <= c' < nz t /\ i = pos_id t c' /\ elig t os i = true.
Proof.
  induction fuel as [|f IH]; intros c i c' Hn Hc Hs; cbn [scan] in Hs; [discriminate|].
  fold (nz t) in Hs.
  set (c2 := if nz t <=? c + 1 then 0 else c + 1) in *.
  assert (Hc2 : 0 <= c2 < nz t).
  { unfold c2. destruct (nz t <=? c + 1) eqn:Hle; [apply Z.leb_le in Hle|apply Z.leb_gt in Hle]; lia. }
  fold (pos_id t c2) in Hs. fold (elig t os (pos_id t c2)) in Hs.
  destruct (elig t os (pos_id t c2)) eqn:He.
  - injection Hs as <- <-. split; [exact Hc2|]. split; [reflexivity|exact He].
  - apply (IH c2 i c' Hn); [lia|exact Hs].
Qed.

Lemma scan_cursor t os fuel : forall c r c',
  0 < nz t -> -1 <= c < nz t -> scan t os fuel c = (r, c') -> -1 <= c' < nz t.
Proof.
  induction fuel as [|f IH]; intros c r c' Hn Hc Hs; cbn [scan] in Hs; [injection Hs as _ <-; exact Hc|].
  fold (nz t) in Hs.
  set (c2 := if nz t <=? c + 1 then 0 else c + 1) in *.
  assert (Hc2 : 0 <= c2 < nz t).
  { unfold c2. destruct (nz t <=? c + 1) eqn:Hle; [apply Z.leb_le in Hle|apply Z.leb_gt in Hle]; lia. }
  destruct (_ && _).
  - injection Hs as _ <-. lia.
  - apply (IH c2 r c' Hn); [lia|exact Hs].
Qed.

(* steps from cursor c to position j in the cyclic order *)
Definition dist (n c j : Z) : Z := if c <? j then j - c else j + n - c.

Lemma scan_complete t os fuel : forall c j,
  0 < nz t -> -1 <= c < nz t -> 0 <= j < nz t -> elig t os (pos_id t j) = true ->
  dist (nz t) c j <= Z.of_nat fuel ->
  exists i c', scan t os fuel c = (Some i, c').
Proof.
  induction fuel as [|f IH]; intros c j Hn Hc Hj He Hd.
  - exfalso. unfold dist in Hd. change (Z.of_nat 0) with 0 in Hd.
    destruct (c <? j) eqn:Hlt; [apply Z.ltb_lt in Hlt|apply Z.ltb_ge in Hlt]; lia.
  - cbn [scan]. fold (nz t).
    set (c2 := if nz t <=? c + 1 then 0 else c + 1).
    assert (Hc2 : 0 <= c2 < nz t).
    { unfold c2. destruct (nz t <=? c + 1) eqn:Hle; [apply Z.leb_le in Hle|apply Z.leb_gt in Hle]; lia. }
    fold (pos_id t c2). fold (elig t os (pos_id t c2)).
    destruct (elig t os (pos_id t c2)) eqn:He2; [eauto|].
    apply (IH c2 j Hn); [lia|exact Hj|exact He|].
    assert (Hne : c2 <> j) by (intros ->; congruence).
    unfold dist in *. unfold c2 in *.
    destruct (c <? j) eqn:H1; [apply Z.ltb_lt in H1|apply Z.ltb_ge in H1];
      (destruct (nz t <=? c + 1) eqn:Hle; [apply Z.leb_le in Hle; destruct (0 <? j) eqn:H2|apply Z.leb_gt in Hle; destruct (c + 1 <? j) eqn:H2]);
      (apply Z.ltb_lt in H2 || apply Z.ltb_ge in H2); lia.
Qed.

Lemma dist_le n c j : 0 < n -> -1 <= c < n -> 0 <= j < n -> dist n c j <= n + 1.
Proof. intros. unfold dist. destruct (c <? j) eqn:Hl; [apply Z.ltb_lt in Hl|apply Z.ltb_ge in Hl]; lia. Qed.

(* what a read preference allows, in terms of the latest Update: the primary object, the listed endpoints
   whose type is secondary, or any listed endpoint *)
Definition permitted (t : topo) (p : pref) (i : nat) : Prop :=
  match p with
  | PPrimary => t_primary t = Some i
  | PPrimaryPreferred | PSecondaryPreferred =>
      t_primary t = Some i \/ (In i (t_eps t) /\ e_secondary (obj t i) = true)
  | PSecondary => In i (t_eps t) /\ e_secondary (obj t i) = true
  | PAny => In i (t_eps t)
  end.

Lemma scan_eps_cases t os :
  (t_eps t = [] /\ scan_eps t os = (None, t_cindex t)) \/
  (0 < nz t /\ scan_eps t os = scan t os (S (length (t_eps t))) (t_cindex t)).
Proof.
  unfold scan_eps, nz. destruct (t_eps t) as [|x l]; [left; split; reflexivity|right; split; [cbn; lia|reflexivity]].
Qed.

Lemma scan_eps_sound t os i c :
  WFc t -> scan_eps t os = (Some i, c) -> In i (t_eps t) /\ elig t os i = true /\ 0 <= c < nz t.
Proof.
  intros [Hlo Hhi] Hs. destruct (scan_eps_cases t os) as [[_ He]|[Hn He]]; rewrite He in Hs; [discriminate|].
  destruct Hhi as [Hhi|Hz]; [|lia].
  destruct (scan_sound t os _ _ _ _ Hn (conj Hlo Hhi) Hs) as (Hc & Hi & Hel).
  split; [|split; [exact Hel|exact Hc]]. subst i. unfold pos_id. apply nth_In. unfold nz in Hc. lia.
Qed.

Lemma live_primary_some t x : live_primary t = Some x -> t_primary t = Some x /\ e_dead (obj t x) = false.
Proof.
  unfold live_primary. destruct (t_primary t) as [p|]; [|discriminate].
  destruct (e_dead (obj t p)) eqn:Hd; [discriminate|]. intros Heq. injection Heq as <-. split; [reflexivity|exact Hd].
Qed.

Lemma elig_live t os i : elig t os i = true -> e_dead (obj t i) = false /\ (os = true -> e_secondary (obj t i) = true).
Proof.
  unfold elig. rewrite andb_true_iff, negb_true_iff. intros [H1 H2]. split; [exact H2|]. intros ->. exact H1.
Qed.

(* C20 safety: the endpoint chosen for a read is never marked dead and never excluded by the preference *)
Theorem next_read_safe t p i t' :
  WFc t -> next_read t p = (Some i, t') -> e_dead (obj t i) = false /\ permitted t p i.
Proof.
  intros Hwf Hn. unfold next_read in Hn.
  destruct p; cbn [permitted].
  - destruct (live_primary t) as [x|] eqn:Hp; [|discriminate]. injection Hn as <- _.
    apply live_primary_some in Hp. destruct Hp; split; assumption.
  - destruct (live_primary t) as [x|] eqn:Hp.
    + injection Hn as <- _. apply live_primary_some in Hp. destruct Hp; split; [assumption|left; assumption].
    + destruct (scan_eps t true) as [[j|] c] eqn:Hs; [|discriminate]. injection Hn as <- _.
      destruct (scan_eps_sound _ _ _ _ Hwf Hs) as (Hin & He & _). destruct (elig_live _ _ _ He) as [Hd Hsec].
      split; [exact Hd|right; split; [exact Hin|apply Hsec; reflexivity]].
  - destruct (scan_eps t true) as [[j|] c] eqn:Hs; [|discriminate]. injection Hn as <- _.
    destruct (scan_eps_sound _ _ _ _ Hwf Hs) as (Hin & He & _). destruct (elig_live _ _ _ He) as [Hd Hsec].
    split; [exact Hd|split; [exact Hin|apply Hsec; reflexivity]].
  - destruct (scan_eps t true) as [[j|] c] eqn:Hs.
    + injection Hn as <- _.
      destruct (scan_eps_sound _ _ _ _ Hwf Hs) as (Hin & He & _). destruct (elig_live _ _ _ He) as [Hd Hsec].
      split; [exact Hd|right; split; [exact Hin|apply Hsec; reflexivity]].
    + destruct (live_primary (with_cindex t c)) as [x|] eqn:Hp; [|discriminate]. injection Hn as <- _.
      apply live_primary_some in Hp. destruct Hp as [Hp Hd]. split; [exact Hd|left; exact Hp].
  - destruct (scan_eps t false) as [[j|] c] eqn:Hs; [|discriminate]. injection Hn as <- _.
    destruct (scan_eps_sound _ _ _ _ Hwf Hs) as (Hin & He & _). destruct (elig_live _ _ _ He) as [Hd _].
    split; [exact Hd|exact Hin].
Qed.

Lemma scan_eps_complete t os i :
  WFc t -> In i (t_eps t) -> elig t os i = true -> exists j c, scan_eps t os = (Some j, c).
Proof.
  intros [Hlo Hhi] Hin He. destruct (scan_eps_cases t os) as [[Hnil _]|[Hn Heq]]; [rewrite Hnil in Hin; destruct Hin|].
  rewrite Heq. destruct Hhi as [Hhi|Hz]; [|lia].
  destruct (In_nth _ _ O Hin) as (k & Hk & Hnth).
  apply (scan_complete t os _ (t_cindex t) (Z.of_nat k) Hn); [lia|unfold nz; lia| |].
  - unfold pos_id. rewrite Nat2Z.id, Hnth. exact He.
  - pose proof (dist_le (nz t) (t_cindex t) (Z.of_nat k) Hn ltac:(lia) ltac:(unfold nz; lia)). unfold nz in *. lia.
Qed.

(* C20 liveness: whenever a live endpoint permitted by the preference exists, one is returned *)
Theorem next_read_live t p :
  WFc t -> (exists i, permitted t p i /\ e_dead (obj t i) = false) -> exists i t', next_read t p = (Some i, t').
Proof.
  intros Hwf (i & Hperm & Hlive). unfold next_read.
  assert (Hprim : t_primary t = Some i -> live_primary t = Some i).
  { intros Hp. unfold live_primary. rewrite Hp, Hlive. reflexivity. }
  assert (Hsec : In i (t_eps t) -> e_secondary (obj t i) = true -> exists j c, scan_eps t true = (Some j, c)).
  { intros Hin Hs. apply (scan_eps_complete t true i Hwf Hin). unfold elig. rewrite Hs, Hlive. reflexivity. }
  destruct p; cbn [permitted] in Hperm.
  - rewrite (Hprim Hperm). eauto.
  - destruct (live_primary t) as [x|] eqn:Hlp; [eauto|].
    destruct Hperm as [Hp|[Hin Hs]]; [pose proof (Hprim Hp) as Hx; congruence|].
    destruct (Hsec Hin Hs) as (j & c & ->). eauto.
  - destruct Hperm as [Hin Hs]. destruct (Hsec Hin Hs) as (j & c & ->). eauto.
  - destruct (scan_eps t true) as [[j|] c] eqn:Hscan; [eauto|].
    destruct Hperm as [Hp|[Hin Hs]].
    + assert (Hlp : live_primary (with_cindex t c) = Some i) by (unfold live_primary, with_cindex, obj in *; cbn; rewrite Hp; unfold obj in Hlive; rewrite Hlive; reflexivity).
      rewrite Hlp. eauto.
    + destruct (Hsec Hin Hs) as (j & c' & Heq). congruence.
  - destruct (scan_eps_complete t false i Hwf Hperm) as (j & c & ->); [unfold elig; rewrite Hlive; reflexivity|eauto].
Qed.

(* ------------------------------------------------------------------ state invariants and termination *)
Open Scope nat_scope.

Lemma set_dead_eps t i d : t_eps (set_dead t i d) = t_eps t. Proof. reflexivity. Qed.
Lemma set_dead_cindex t i d : t_cindex (set_dead t i d) = t_cindex t. Proof. reflexivity. Qed.

Lemma set_dead_objs_length t i d : length (t_objs (set_dead t i d)) = length (t_objs t).
Proof. cbn. rewrite map_length, combine_length, seq_length. lia. Qed.

Lemma nth_map_indexed {A} (f : nat -> A -> A) (l : list A) (d : A) : forall a j,
  j < length l ->
  nth j (map (fun '(k, e) => f k e) (combine (seq a (length l)) l)) d = f (a + j) (nth j l d).
Proof.
  induction l as [|x l IH]; intros a j Hj; cbn [length] in *; [lia|].
  cbn [seq combine map]. destruct j as [|j]; cbn [nth]; [rewrite Nat.add_0_r; reflexivity|].
  rewrite IH by lia. f_equal. lia.
Qed.

Lemma obj_set_dead t i d j :
  obj (set_dead t i d) j =
    if Nat.eqb j i && Nat.ltb j (length (t_objs t))
    then {| e_url := e_url (obj t j); e_secondary := e_secondary (obj t j); e_dead := d |} else obj t j.
Proof.
  unfold obj, set_dead. cbn [t_objs].
  set (dflt := {| e_url := 0%N; e_secondary := false; e_dead := true |}).
  destruct (Nat.ltb j (length (t_objs t))) eqn:Hlt.
  - apply Nat.ltb_lt in Hlt.
    rewrite (nth_map_indexed (fun k e => if Nat.eqb k i then {| e_url := e_url e; e_secondary := e_secondary e; e_dead := d |} else e) (t_objs t) dflt 0 j Hlt).
    cbn [plus]. rewrite andb_true_r. destruct (Nat.eqb j i); reflexivity.
  - apply Nat.ltb_ge in Hlt. rewrite andb_false_r.
    rewrite !nth_overflow; [reflexivity|lia|rewrite map_length, combine_length, seq_length; lia].
Qed.

Lemma live_in_range t i : e_dead (obj t i) = false -> i < length (t_objs t).
Proof.
  intros Hl. destruct (lt_dec i (length (t_objs t))) as [H|H]; [exact H|].
  unfold obj in Hl. rewrite nth_overflow in Hl by lia. discriminate.
Qed.

Definition lives (t : topo) : nat := length (filter (fun i => negb (e_dead (obj t i))) (t_eps t)).
Definition npos (t : topo) : nat := length (t_eps t).

Lemma lives_le t : lives t <= npos t.
Proof. unfold lives, npos. apply filter_length_le || (induction (t_eps t) as [|x l IH]; cbn; [lia|destruct (negb _); cbn; lia]). Qed.

(* killing a live listed endpoint strictly lowers the number of live positions *)
Lemma lives_kill t i :
  In i (t_eps t) -> e_dead (obj t i) = false -> lives (set_dead t i true) < lives t.
Proof.
  intros Hin Hlive. unfold lives. rewrite set_dead_eps.
  pose proof (live_in_range t i Hlive) as Hr.
  assert (Hmono : forall l, length (filter (fun j => negb (e_dead (obj (set_dead t i true) j))) l)
                            <= length (filter (fun j => negb (e_dead (obj t j))) l)).
  { induction l as [|x l IH]; cbn [filter]; [lia|]. rewrite obj_set_dead.
    destruct (Nat.eqb x i && Nat.ltb x (length (t_objs t))); cbn [e_dead negb]; destruct (negb (e_dead (obj t x))); cbn [length]; lia. }
  induction (t_eps t) as [|x l IH]; [destruct Hin|]. cbn [filter].
  destruct Hin as [->|Hin].
  - rewrite obj_set_dead, Nat.eqb_refl. apply Nat.ltb_lt in Hr. rewrite Hr. cbn [andb e_dead negb].
    rewrite Hlive. cbn [negb length]. specialize (Hmono l). lia.
  - specialize (IH Hin). rewrite obj_set_dead.
    destruct (Nat.eqb x i && Nat.ltb x (length (t_objs t))); cbn [e_dead negb]; destruct (negb (e_dead (obj t x))); cbn [length]; lia.
Qed.

Lemma lives_heal t i : npos (set_dead t i false) = npos t.
Proof. reflexivity. Qed.

Lemma fold_set_dead_eps l : forall t,
  t_eps (fold_left (fun acc i => set_dead acc i false) l t) = t_eps t /\
  t_cindex (fold_left (fun acc i => set_dead acc i false) l t) = t_cindex t.
Proof.
  induction l as [|x l IH]; intros t; cbn [fold_left]; [split; reflexivity|].
  destruct (IH (set_dead t x false)) as [H1 H2]. rewrite H1, H2. split; reflexivity.
Qed.

Lemma revive_all_eps t : t_eps (revive_all t) = t_eps t /\ t_cindex (revive_all t) = t_cindex t.
Proof. unfold revive_all. destruct (t_revive t); [apply fold_set_dead_eps|split; reflexivity]. Qed.

Lemma wfc_same t t' : t_eps t' = t_eps t -> t_cindex t' = t_cindex t -> WFc t -> WFc t'.
Proof. intros He Hc. unfold WFc, nz. rewrite He, Hc. tauto. Qed.

Lemma wfc_new rv : WFc (new_topology rv).
Proof. unfold WFc, nz. cbn. lia. Qed.

Lemma wfc_update t p s : WFc (update t p s).
Proof.
  unfold WFc, nz, update.
  destruct (if (p =? 0)%N then _ else _) as [[o1 pr] e0].
  destruct (fold_left _ s (o1, e0)) as [o2 eps]. cbn. lia.
Qed.

Lemma next_read_wfc t p r t' : WFc t -> next_read t p = (r, t') -> WFc t' /\ t_eps t' = t_eps t.
Proof.
  intros Hwf Hn.
  assert (Hcur : forall os r' c, scan_eps t os = (r', c) -> WFc (with_cindex t c)).
  { intros os r' c Hs. destruct (scan_eps_cases t os) as [[Hnil He]|[Hpos He]]; rewrite He in Hs.
    - injection Hs as _ <-. exact Hwf.
    - destruct Hwf as [Hlo [Hhi|Hz]]; [|lia].
      pose proof (scan_cursor t os _ _ _ _ Hpos (conj Hlo Hhi) Hs) as Hc. unfold WFc, nz in *. cbn. lia. }
  assert (Hrev : forall x, WFc x -> WFc (revive_all x) /\ t_eps (revive_all x) = t_eps x).
  { intros x Hx. destruct (revive_all_eps x) as [H1 H2]. split; [apply (wfc_same x); assumption|exact H1]. }
  unfold next_read in Hn.
  destruct p.
  - destruct (live_primary t); injection Hn as _ <-; [split; [exact Hwf|reflexivity]|apply Hrev; exact Hwf].
  - destruct (live_primary t); [injection Hn as _ <-; split; [exact Hwf|reflexivity]|].
    destruct (scan_eps t true) as [[j|] c] eqn:Hs; injection Hn as _ <-;
      [split; [exact (Hcur _ _ _ Hs)|reflexivity]|apply (Hrev (with_cindex t c)); exact (Hcur _ _ _ Hs)].
  - destruct (scan_eps t true) as [[j|] c] eqn:Hs; injection Hn as _ <-;
      [split; [exact (Hcur _ _ _ Hs)|reflexivity]|apply (Hrev (with_cindex t c)); exact (Hcur _ _ _ Hs)].
  - destruct (scan_eps t true) as [[j|] c] eqn:Hs; [injection Hn as _ <-; split; [exact (Hcur _ _ _ Hs)|reflexivity]|].
    destruct (live_primary (with_cindex t c)); injection Hn as _ <-;
      [split; [exact (Hcur _ _ _ Hs)|reflexivity]|apply (Hrev (with_cindex t c)); exact (Hcur _ _ _ Hs)].
  - destruct (scan_eps t false) as [[j|] c] eqn:Hs; injection Hn as _ <-;
      [split; [exact (Hcur _ _ _ Hs)|reflexivity]|apply (Hrev (with_cindex t c)); exact (Hcur _ _ _ Hs)].
Qed.

Lemma next_read_some t p i t1 :
  next_read t p = (Some i, t1) -> t_objs t1 = t_objs t /\ t_eps t1 = t_eps t.
Proof.
  unfold next_read. intros Hn.
  destruct p;
    repeat match type of Hn with
           | context [live_primary ?x] => destruct (live_primary x)
           | context [scan_eps ?x ?b] => destruct (scan_eps x b) as [[?|] ?]
           end; try discriminate Hn; injection Hn as _ <-; split; reflexivity.
Qed.

Lemma obj_same t t' i : t_objs t' = t_objs t -> obj t' i = obj t i.
Proof. unfold obj. intros ->. reflexivity. Qed.

Lemma lives_same t t' : t_objs t' = t_objs t -> t_eps t' = t_eps t -> lives t' = lives t.
Proof. intros Ho He. unfold lives. rewrite He. f_equal. apply filter_ext. intros a. rewrite (obj_same t t' a Ho). reflexivity. Qed.

Lemma lives_kill_le t i : lives (set_dead t i true) <= lives t.
Proof.
  unfold lives. rewrite set_dead_eps. induction (t_eps t) as [|x l IH]; cbn [filter]; [lia|]. rewrite obj_set_dead.
  destruct (Nat.eqb x i && Nat.ltb x (length (t_objs t))); cbn [e_dead negb]; destruct (negb (e_dead (obj t x))); cbn [length]; lia.
Qed.

(* after a failed request (whatever its kind) the chosen endpoint is dead: one live position less *)
Lemma fail_step t i o :
  In i (t_eps t) -> e_dead (obj t i) = false -> fst (do_req t i o) = false ->
  lives (set_dead (snd (do_req t i o)) i true) < lives t /\
  t_eps (set_dead (snd (do_req t i o)) i true) = t_eps t /\
  t_cindex (set_dead (snd (do_req t i o)) i true) = t_cindex t.
Proof.
  intros Hin Hl Hf. destruct o; cbn in Hf; try discriminate Hf; cbn [do_req snd].
  - split; [|split; reflexivity]. pose proof (lives_kill t i Hin Hl). pose proof (lives_kill_le (set_dead t i true) i). lia.
  - split; [|split; reflexivity]. apply lives_kill; assumption.
Qed.

Lemma do_req_eps t i o : t_eps (snd (do_req t i o)) = t_eps t /\ t_cindex (snd (do_req t i o)) = t_cindex t.
Proof. destruct o; split; reflexivity. Qed.

(* C20 termination, part 1: discover() returns after at most (live endpoints + 1) rounds, whatever the
   nodes answer (before the fix an endpoint answering 4xx was asked again for ever) *)
Theorem discover_terminates fuel : forall t script trace,
  WFc t -> lives t < fuel -> discover fuel t script trace <> None.
Proof.
  induction fuel as [|f IH]; intros t script trace Hwf Hl; [lia|].
  cbn [discover]. destruct (next_read t PAny) as [[i|] t1] eqn:Hn; [|discriminate].
  destruct (next_read_some _ _ _ _ Hn) as [Ho He].
  destruct (next_read_wfc _ _ _ _ Hwf Hn) as [Hwf1 _].
  destruct (next_read_safe _ _ _ _ Hwf Hn) as [Hlive Hperm]. cbn in Hperm.
  destruct (do_req t1 i (hd OFail script)) as [ok t2] eqn:Hd.
  destruct (hd OFail script) eqn:Ho'; cbn in Hd; injection Hd as <- <-; try discriminate.
  - apply IH.
    + apply (wfc_same t1); [reflexivity|reflexivity|exact Hwf1].
    + assert (Hin1 : In i (t_eps t1)) by (rewrite He; exact Hperm).
      assert (Hl1 : e_dead (obj t1 i) = false) by (rewrite (obj_same t t1 i Ho); exact Hlive).
      pose proof (lives_kill t1 i Hin1 Hl1). pose proof (lives_kill_le (set_dead t1 i true) i).
      rewrite (lives_same t t1 Ho He) in *. lia.
  - apply IH.
    + apply (wfc_same t1); [reflexivity|reflexivity|exact Hwf1].
    + assert (Hin1 : In i (t_eps t1)) by (rewrite He; exact Hperm).
      assert (Hl1 : e_dead (obj t1 i) = false) by (rewrite (obj_same t t1 i Ho); exact Hlive).
      pose proof (lives_kill t1 i Hin1 Hl1). rewrite (lives_same t t1 Ho He) in *. lia.
Qed.

Fixpoint shards_max (script : list outcome) : nat :=
  match script with
  | [] => 0
  | OShards _ secs :: r => Nat.max (S (length secs)) (shards_max r)
  | _ :: r => shards_max r
  end.

Lemma shards_max_tl script : shards_max (tl script) <= shards_max script.
Proof. destruct script as [|[| | |p s] r]; cbn [tl shards_max]; lia. Qed.

Lemma update_npos t prim secs : npos (update t prim secs) <= S (length secs).
Proof.
  unfold npos, update.
  destruct (if (prim =? 0)%N then _ else _) as [[o1 pr] e0] eqn:H0.
  assert (He0 : length e0 <= 1) by (destruct (prim =? 0)%N; injection H0 as _ _ <-; cbn; lia).
  clear H0.
  set (step := fun '(objs, eps) url =>
               match find_old t url (t_eps t) with
               | Some i => (set_secondary objs i, eps ++ [i])
               | None => if (url =? 0)%N then (objs, eps)
                         else (objs ++ [{| e_url := url; e_secondary := true; e_dead := false |}], eps ++ [length objs])
               end).
  assert (Hstep : forall oe u, length (snd (step oe u)) <= S (length (snd oe))).
  { intros [o e] u. unfold step. destruct (find_old t u (t_eps t)); [|destruct (u =? 0)%N]; cbn [snd]; rewrite ?app_length; cbn [length]; lia. }
  assert (Hfold : forall l oe, length (snd (fold_left step l oe)) <= length (snd oe) + length l).
  { induction l as [|u l IH]; intros oe; cbn [fold_left length]; [lia|].
    specialize (IH (step oe u)). specialize (Hstep oe u). lia. }
  specialize (Hfold secs (o1, e0)). cbn [snd] in Hfold.
  change (fold_left _ secs (o1, e0)) with (fold_left step secs (o1, e0)).
  destruct (fold_left step secs (o1, e0)) as [o2 eps]. cbn [t_eps snd] in *. lia.
Qed.

(* what discover leaves behind *)
Lemma discover_result fuel : forall t script trace ok t2 script' trace',
  WFc t -> discover fuel t script trace = Some (ok, t2, script', trace') ->
  WFc t2 /\ npos t2 <= Nat.max (npos t) (shards_max script) /\ shards_max script' <= shards_max script.
Proof.
  induction fuel as [|f IH]; intros t script trace ok t2 script' trace' Hwf Hd; [discriminate|].
  cbn [discover] in Hd. destruct (next_read t PAny) as [[i|] t1] eqn:Hn.
  - destruct (next_read_wfc _ _ _ _ Hwf Hn) as [Hwf1 He1].
    destruct (do_req t1 i (hd OFail script)) as [okr tr] eqn:Hdr.
    pose proof (do_req_eps t1 i (hd OFail script)) as [Hre Hrc]. rewrite Hdr in Hre, Hrc. cbn [snd] in Hre, Hrc.
    pose proof (shards_max_tl script) as Htl.
    destruct (hd OFail script) eqn:Ho.
    + cbn in Hdr. injection Hdr as <- <-. injection Hd as _ <- <- _.
      split; [apply (wfc_same t1); [reflexivity|reflexivity|exact Hwf1]|]. unfold npos in *. cbn [t_eps set_dead]. rewrite He1. split; [lia|exact Htl].
    + cbn in Hdr. injection Hdr as <- <-.
      destruct (IH _ _ _ _ _ _ _ (wfc_same t1 (set_dead (set_dead t1 i true) i true) eq_refl eq_refl Hwf1) Hd) as (H1 & H2 & H3).
      split; [exact H1|]. unfold npos in *. cbn [t_eps set_dead] in H2. rewrite He1 in H2. split; lia.
    + cbn in Hdr. injection Hdr as <- <-.
      destruct (IH _ _ _ _ _ _ _ (wfc_same t1 (set_dead t1 i true) eq_refl eq_refl Hwf1) Hd) as (H1 & H2 & H3).
      split; [exact H1|]. unfold npos in *. cbn [t_eps set_dead] in H2. rewrite He1 in H2. split; lia.
    + cbn in Hdr. injection Hdr as <- <-. injection Hd as _ <- <- _.
      split; [apply wfc_update|]. split; [|exact Htl].
      pose proof (update_npos (set_dead t1 i false) prim secs).
      assert (S (length secs) <= shards_max script).
      { destruct script as [|o r]; cbn [hd] in Ho; [discriminate|]. subst o. cbn [shards_max]. lia. }
      lia.
  - destruct (next_read_wfc _ _ _ _ Hwf Hn) as [Hwf1 He1]. injection Hd as _ <- <- _.
    split; [exact Hwf1|]. unfold npos. rewrite He1. split; lia.
Qed.

Definition plive (t : topo) : nat := match live_primary t with Some _ => 1 | None => 0 end.
Definition mu (t : topo) : nat := lives t + plive t.

Lemma next_read_some_primary t p i t1 : next_read t p = (Some i, t1) -> t_primary t1 = t_primary t.
Proof.
  unfold next_read. intros Hn.
  destruct p;
    repeat match type of Hn with
           | context [live_primary ?x] => destruct (live_primary x)
           | context [scan_eps ?x ?b] => destruct (scan_eps x b) as [[?|] ?]
           end; try discriminate Hn; injection Hn as _ <-; reflexivity.
Qed.

Lemma plive_same t t' : t_objs t' = t_objs t -> t_primary t' = t_primary t -> plive t' = plive t.
Proof. intros Ho Hp. unfold plive, live_primary. rewrite Hp. destruct (t_primary t) as [x|]; [rewrite (obj_same t t' x Ho)|]; reflexivity. Qed.

Lemma plive_kill_le t i : plive (set_dead t i true) <= plive t.
Proof.
  unfold plive, live_primary. cbn [t_primary set_dead]. destruct (t_primary t) as [x|]; [|lia].
  rewrite obj_set_dead. destruct (Nat.eqb x i && Nat.ltb x (length (t_objs t))); cbn [e_dead]; destruct (e_dead (obj t x)); lia.
Qed.

Lemma plive_kill t i : t_primary t = Some i -> e_dead (obj t i) = false -> plive (set_dead t i true) < plive t.
Proof.
  intros Hp Hl. unfold plive, live_primary. cbn [t_primary set_dead]. rewrite Hp, Hl.
  rewrite obj_set_dead, Nat.eqb_refl. pose proof (live_in_range t i Hl) as Hr. apply Nat.ltb_lt in Hr. rewrite Hr. cbn. lia.
Qed.

Lemma permitted_cases t p i : permitted t p i -> In i (t_eps t) \/ t_primary t = Some i.
Proof. destruct p; cbn; tauto. Qed.

(* a failed request, whatever its kind, leaves the chosen endpoint dead: the measure drops *)
Lemma mu_fail t i o :
  (In i (t_eps t) \/ t_primary t = Some i) -> e_dead (obj t i) = false -> fst (do_req t i o) = false ->
  mu (set_dead (snd (do_req t i o)) i true) < mu t.
Proof.
  intros Hwhere Hl Hf. unfold mu.
  assert (Hone : lives (set_dead t i true) + plive (set_dead t i true) < lives t + plive t).
  { pose proof (lives_kill_le t i). pose proof (plive_kill_le t i).
    destruct Hwhere as [Hin|Hp]; [pose proof (lives_kill t i Hin Hl)|pose proof (plive_kill t i Hp Hl)]; lia. }
  destruct o; cbn in Hf; try discriminate Hf; cbn [do_req snd].
  - pose proof (lives_kill_le (set_dead t i true) i). pose proof (plive_kill_le (set_dead t i true) i). lia.
  - exact Hone.
Qed.

Lemma mu_le t : mu t <= S (npos t).
Proof. unfold mu, plive. pose proof (lives_le t). destruct (live_primary t); lia. Qed.

(* C20 termination, part 2: a read call (callAny) returns.  Every failed request leaves a live endpoint
   dead and discovery runs at most once.  M bounds the endpoint list now and after any scripted discovery
   answer. *)
Theorem call_any_terminates (M : nat) (p : pref) (discovery : bool) fuel :
  forall t retried script trace,
  WFc t -> npos t <= M -> shards_max script <= M ->
  mu t + (if retried || negb discovery then 0 else S (S M)) < fuel ->
  call_any fuel t p discovery retried script trace <> None.
Proof.
  induction fuel as [|f IH]; intros t retried script trace Hwf Hn HM Hl; [lia|].
  cbn [call_any]. destruct (next_read t p) as [[i|] t1] eqn:Hr.
  - destruct (next_read_some _ _ _ _ Hr) as [Ho He].
    pose proof (next_read_some_primary _ _ _ _ Hr) as Hp.
    destruct (next_read_wfc _ _ _ _ Hwf Hr) as [Hwf1 _].
    destruct (next_read_safe _ _ _ _ Hwf Hr) as [Hlive Hperm].
    destruct (do_req t1 i (hd OFail script)) as [ok t2] eqn:Hd.
    destruct ok; [discriminate|].
    pose proof (do_req_eps t1 i (hd OFail script)) as [Hre Hrc]. rewrite Hd in Hre, Hrc. cbn [snd] in Hre, Hrc.
    apply IH.
    + apply (wfc_same t1); [cbn; rewrite Hre; reflexivity|cbn; rewrite Hrc; reflexivity|exact Hwf1].
    + unfold npos in *. cbn [t_eps set_dead]. rewrite Hre, He. exact Hn.
    + pose proof (shards_max_tl script). lia.
    + assert (Hmu : mu (set_dead t2 i true) < mu t).
      { assert (Hmu1 : mu t1 = mu t) by (unfold mu; rewrite (lives_same t t1 Ho He), (plive_same t t1 Ho Hp); reflexivity).
        rewrite <- Hmu1.
        replace t2 with (snd (do_req t1 i (hd OFail script))) by (rewrite Hd; reflexivity).
        apply mu_fail.
        - destruct (permitted_cases _ _ _ Hperm) as [Hin|Hpr]; [left; rewrite He; exact Hin|right; rewrite Hp; exact Hpr].
        - rewrite (obj_same t t1 i Ho). exact Hlive.
        - rewrite Hd. reflexivity. }
      lia.
  - destruct (next_read_wfc _ _ _ _ Hwf Hr) as [Hwf1 He1].
    destruct (negb retried && discovery) eqn:Hdisc; [|discriminate].
    apply andb_true_iff in Hdisc. destruct Hdisc as [Hnr Hdi]. apply negb_true_iff in Hnr. subst retried discovery.
    cbn [orb negb] in Hl.
    assert (Hnp1 : npos t1 = npos t) by (unfold npos; rewrite He1; reflexivity).
    pose proof (lives_le t1) as Hll.
    destruct (discover (S f) t1 script trace) as [[[[okd t2] script'] trace']|] eqn:Hdv.
    + destruct (discover_result _ _ _ _ _ _ _ _ Hwf1 Hdv) as (Hwf2 & Hn2 & Hs2).
      apply IH; [exact Hwf2|lia|lia|]. cbn [orb]. pose proof (mu_le t2). lia.
    + exfalso. apply (discover_terminates (S f) t1 script trace Hwf1); [lia|exact Hdv].
Qed.

(* writes: with a live believed leader, callPrimary issues exactly one request, to that endpoint *)
Theorem call_primary_target fuel t discovery script p :
  primary_of t = (Some p, 0%N) ->
  exists r t2, call_primary fuel t discovery script = Some (r, t2, [e_url (obj t p)]).
Proof.
  intros Hp. unfold call_primary. rewrite Hp. destruct (do_req t p (hd OFail script)) as [ok t2]. cbn [app]. eauto.
Qed.

(* ... and without one (no primary known, or it is marked dead) and discovery disabled, none at all *)
Theorem call_primary_no_leader fuel t script :
  (forall p, primary_of t <> (Some p, 0%N)) -> call_primary fuel t false script = Some (1%N, t, []).
Proof.
  intros Hn. unfold call_primary. destruct (primary_of t) as [[p|] c] eqn:Hp; [|reflexivity].
  destruct c as [|c]; [exfalso; exact (Hn p eq_refl)|reflexivity].
Qed.
