Base/Sha256.vo Base/Sha256.glob Base/Sha256.v.beautified Base/Sha256.required_vo: Base/Sha256.v 
Base/Sha256.vio: Base/Sha256.v 
Base/Sha256.vos Base/Sha256.vok Base/Sha256.required_vos: Base/Sha256.v 
Base/Util.vo Base/Util.glob Base/Util.v.beautified Base/Util.required_vo: Base/Util.v 
Base/Util.vio: Base/Util.v 
Base/Util.vos Base/Util.vok Base/Util.required_vos: Base/Util.v 
Base/HashSig.vo Base/HashSig.glob Base/HashSig.v.beautified Base/HashSig.required_vo: Base/HashSig.v Base/Util.vo
Base/HashSig.vio: Base/HashSig.v Base/Util.vio
Base/HashSig.vos Base/HashSig.vok Base/HashSig.required_vos: Base/HashSig.v Base/Util.vos
History/HistModel.vo History/HistModel.glob History/HistModel.v.beautified History/HistModel.required_vo: History/HistModel.v Base/Util.vo Base/HashSig.vo
History/HistModel.vio: History/HistModel.v Base/Util.vio Base/HashSig.vio
History/HistModel.vos History/HistModel.vok History/HistModel.required_vos: History/HistModel.v Base/Util.vos Base/HashSig.vos
Base/ShaInst.vo Base/ShaInst.glob Base/ShaInst.v.beautified Base/ShaInst.required_vo: Base/ShaInst.v Base/Util.vo Base/HashSig.vo Base/Sha256.vo
Base/ShaInst.vio: Base/ShaInst.v Base/Util.vio Base/HashSig.vio Base/Sha256.vio
Base/ShaInst.vos Base/ShaInst.vok Base/ShaInst.required_vos: Base/ShaInst.v Base/Util.vos Base/HashSig.vos Base/Sha256.vos
Run/HistRun.vo Run/HistRun.glob Run/HistRun.v.beautified Run/HistRun.required_vo: Run/HistRun.v Base/Util.vo Base/HashSig.vo Base/Sha256.vo Base/ShaInst.vo History/HistModel.vo
Run/HistRun.vio: Run/HistRun.v Base/Util.vio Base/HashSig.vio Base/Sha256.vio Base/ShaInst.vio History/HistModel.vio
Run/HistRun.vos Run/HistRun.vok Run/HistRun.required_vos: Run/HistRun.v Base/Util.vos Base/HashSig.vos Base/Sha256.vos Base/ShaInst.vos History/HistModel.vos
History/HistSpec.vo History/HistSpec.glob History/HistSpec.v.beautified History/HistSpec.required_vo: History/HistSpec.v Base/Util.vo Base/HashSig.vo
History/HistSpec.vio: History/HistSpec.v Base/Util.vio Base/HashSig.vio
History/HistSpec.vos History/HistSpec.vok History/HistSpec.required_vos: History/HistSpec.v Base/Util.vos Base/HashSig.vos
History/HistProofs.vo History/HistProofs.glob History/HistProofs.v.beautified History/HistProofs.required_vo: History/HistProofs.v Base/Util.vo Base/HashSig.vo History/HistModel.vo History/HistSpec.vo
History/HistProofs.vio: History/HistProofs.v Base/Util.vio Base/HashSig.vio History/HistModel.vio History/HistSpec.vio
History/HistProofs.vos History/HistProofs.vok History/HistProofs.required_vos: History/HistProofs.v Base/Util.vos Base/HashSig.vos History/HistModel.vos History/HistSpec.vos
Properties/C03.vo Properties/C03.glob Properties/C03.v.beautified Properties/C03.required_vo: Properties/C03.v Base/Util.vo Base/HashSig.vo History/HistModel.vo History/HistSpec.vo History/HistProofs.vo
Properties/C03.vio: Properties/C03.v Base/Util.vio Base/HashSig.vio History/HistModel.vio History/HistSpec.vio History/HistProofs.vio
Properties/C03.vos Properties/C03.vok Properties/C03.required_vos: Properties/C03.v Base/Util.vos Base/HashSig.vos History/HistModel.vos History/HistSpec.vos History/HistProofs.vos
