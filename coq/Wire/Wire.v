(* The wire form of history audit paths (balloon/history/proof.go Serialize / ParseAuditPath): position keys
   printed as "<index>|<height>" in decimal and parsed back with strconv.Atoi (a signed 64-bit parse whose
   error is ignored and whose result is truncated to uint64 / uint16).  The decimal codec is Coq's
   N.to_uint / string_of_uint with the library's round-trip lemmas. *)
From Coq Require Import String Ascii DecimalString DecimalN Decimal.
From QV Require Import Base.Util History.HistModel.

Definition print_dec (n : N) : string := NilEmpty.string_of_uint (N.to_uint n).

(* strconv.Atoi on a non-negative decimal: None on a syntax error (then the Go code uses 0), clamped to
   MaxInt64 on a range error *)
Definition atoi (s : string) : N :=
  match NilEmpty.uint_of_string s with
  | Some Nil => 0
  | Some d => N.min (N.of_uint d) 9223372036854775807
  | None => 0
  end.

Definition key_string (p : pos) : string := print_dec (fst p mod 2^64) ++ "|" ++ print_dec (N.of_nat (snd p) mod 2^16).

(* split at the separator: Some (a, b) iff exactly one '|' *)
Fixpoint split_bar (s : string) (acc : string) : option (string * string) :=
  match s with
  | EmptyString => None
  | String c r => if Ascii.eqb c "|"%char then Some (acc, r) else split_bar r (acc ++ String c EmptyString)
  end.
Fixpoint has_bar (s : string) : bool :=
  match s with EmptyString => false | String c r => Ascii.eqb c "|"%char || has_bar r end.

Definition parse_key (s : string) : option pos :=
  match split_bar s EmptyString with
  | Some (a, b) => if has_bar b then None       (* more than two tokens: skipped (fix b6e92a6) *)
                   else Some (atoi a mod 2^64, N.to_nat (atoi b mod 2^16))
  | None => None                                 (* no separator: skipped *)
  end.

Definition serialize_path {D} (p : list (pos * D)) : list (string * D) := map (fun kv => (key_string (fst kv), snd kv)) p.
Definition parse_path {D} (w : list (string * D)) : list (pos * D) :=
  flat_map (fun kv => match parse_key (fst kv) with Some k => [(k, snd kv)] | None => [] end) w.
