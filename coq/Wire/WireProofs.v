(* Round trip of the audit-path wire form (C13). *)
From Coq Require Import String Ascii DecimalString DecimalN Decimal.
From QV Require Import Base.Util History.HistModel Wire.Wire.

Lemma atoi_print n : n <= 9223372036854775807 -> atoi (print_dec n) = n.
Proof.
  intros Hn. unfold atoi, print_dec. rewrite NilEmpty.usu.
  pose proof (DecimalN.Unsigned.of_to n) as Hot.
  destruct (N.to_uint n) eqn:Hd; rewrite <- Hot; [reflexivity|..]; apply N.min_l; rewrite Hot; exact Hn.
Qed.

(* digits never contain the separator *)
Lemma string_of_uint_no_bar d : has_bar (NilEmpty.string_of_uint d) = false.
Proof. induction d; cbn; try reflexivity; exact IHd. Qed.

Lemma split_bar_app a b acc : has_bar a = false ->
  split_bar (a ++ String "|"%char b) acc = Some ((acc ++ a)%string, b).
Proof.
  revert acc. induction a as [|c a IH]; intros acc Hnb; cbn.
  - assert (Happ : (acc ++ "")%string = acc) by (induction acc as [|x acc IHa]; cbn; [reflexivity|rewrite IHa; reflexivity]).
    rewrite Happ. reflexivity.
  - cbn in Hnb. apply Bool.orb_false_iff in Hnb. destruct Hnb as [Hc Ha]. rewrite Hc. rewrite IH by exact Ha.
    f_equal. f_equal. induction acc as [|x acc IHa]; cbn; [reflexivity|rewrite IHa; reflexivity].
Qed.

(* every position the history tree can produce for a log shorter than 2^63 survives the wire *)
Theorem parse_key_string i h :
  i <= 9223372036854775807 -> (N.of_nat h < 2^16) -> parse_key (key_string (i, h)) = Some (i, h).
Proof.
  intros Hi Hh. unfold parse_key, key_string. cbn [fst snd].
  assert (Him : i mod 2^64 = i) by (apply N.mod_small; lia).
  assert (Hhm : N.of_nat h mod 2^16 = N.of_nat h) by (apply N.mod_small; exact Hh).
  rewrite Him, Hhm.
  change ((print_dec i ++ "|" ++ print_dec (N.of_nat h))%string) with ((print_dec i ++ String "|"%char (print_dec (N.of_nat h)))%string).
  rewrite split_bar_app by apply string_of_uint_no_bar. cbn [append].
  assert (Hnb : has_bar (print_dec (N.of_nat h)) = false) by apply string_of_uint_no_bar. rewrite Hnb.
  rewrite !atoi_print by lia. rewrite Him, Hhm, Nat2N.id. reflexivity.
Qed.

Theorem parse_serialize_path {D} (p : list (pos * D)) :
  (forall kv, In kv p -> fst (fst kv) <= 9223372036854775807 /\ N.of_nat (snd (fst kv)) < 2^16) ->
  parse_path (serialize_path p) = p.
Proof.
  induction p as [|[[i h] d] p IH]; intros Hall; [reflexivity|].
  cbn [serialize_path map parse_path flat_map fst snd].
  destruct (Hall _ (or_introl eq_refl)) as [Hi Hh]. cbn [fst snd] in Hi, Hh.
  rewrite parse_key_string by assumption. cbn [app]. f_equal.
  apply IH. intros kv Hin. apply Hall. right. exact Hin.
Qed.
