(* The published construction of the history tree (DESIGN 3.3): the hash of the node at
   position (i, h) in the tree over events 0..v.  This is the independent reference the code
   is compared with; 12 lines, no store, no cache, no visitors. *)
From QV Require Import Base.Util Base.HashSig.

Section HistSpec.
  Variables D E V : Type.
  Variable H : hin D E V -> D.
  Variable ev : N -> E.          (* the event log: ev k = digest of the k-th accepted event *)

  Fixpoint node (v i : N) (h : nat) : D :=
    match h with
    | O => H (HLeaf (ev i) i)
    | S h' =>
        if v <? i + pow2 h'
        then H (HPart (node v i h') i h)
        else H (HFull (node v i h') (node v (i + pow2 h') h') i h)
    end.

  Definition root (v : N) : D := node v 0 (bitlen v).

  (* a complete subtree: its hash no longer depends on the version *)
  Definition fz (i : N) (h : nat) : D := node (i + pow2 h - 1) i h.
End HistSpec.
