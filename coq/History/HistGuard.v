(* Why the version guard of DigestVerify (ActualVersion <= QueryVersion) cannot be left to the history verifier
   (seeded change C02-9 "moved" it there as an in-tree check): for an index BEYOND the version - but still inside the tree's
   capacity - pruneToVerify turns right at a partial node, which discards the branch holding the leaf.  The recomputed root
   then does not depend on the digest at all: whatever verifies for one digest verifies for every digest. *)
From Coq Require Import NArith Lia List.
From QV Require Import Base.Util Base.HashSig History.HistModel History.HistSpec History.HistProofs.
Open Scope N_scope.

Section Guard.
  Variables D E V : Type.
  Variable H : hin D E V -> D.
  Notation interp := (interp D E V H).

  Lemma verify_ignores_digest_beyond_version (c : cache D) (h : nat) : forall i idx v (e e' : E),
    i <= v -> v < idx -> i <= idx -> idx < i + pow2 h ->
    interp c (verify_go idx v e i h) = interp c (verify_go idx v e' i h).
  Proof.
    induction h as [|h IH]; intros i idx v e e' Hiv Hvi Hlo Hhi.
    - rewrite pow2_0 in Hhi. lia.
    - rewrite pow2_S in Hhi. pose proof (pow2_pos h) as Hp.
      cbn [HistModel.verify_go].
      destruct (idx <? i + pow2 h) eqn:Hidx.
      + apply N.ltb_lt in Hidx.
        assert (Hc : (v <? i + pow2 h) = true) by (apply N.ltb_lt; lia). rewrite Hc.
        cbn [HistModel.interp]. rewrite (IH i idx v e e' Hiv Hvi Hlo Hidx). reflexivity.
      + apply N.ltb_ge in Hidx.
        destruct (v <? i + pow2 h) eqn:Hc.
        * (* the partial node: the right branch - the only place the digest enters - is discarded *)
          cbn [HistModel.interp]. reflexivity.
        * apply N.ltb_ge in Hc. cbn [HistModel.interp].
          rewrite (IH (i + pow2 h) idx v e e' Hc Hvi Hidx ltac:(lia)). reflexivity.
  Qed.

  (* MembershipProof.Verify for an index beyond the version: one verdict for all digests *)
  Theorem membership_root_ignores_digest_beyond_version (path : cache D) (idx v : N) (e e' : E) :
    v < idx -> idx < pow2 (bitlen v) ->
    membership_root D E V H path idx v e = membership_root D E V H path idx v e'.
  Proof.
    intros Hv Hcap. unfold membership_root, pruneToVerify.
    apply verify_ignores_digest_beyond_version; lia.
  Qed.
End Guard.
