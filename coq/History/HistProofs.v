(* Proofs about the history tree: the model of balloon/history (HistModel) against the published
   construction (HistSpec).  Stated for every height, index, version and audit path. *)
From QV Require Import Base.Util Base.HashSig History.HistModel History.HistSpec.

Lemma pow2_pos h : 0 < pow2 h.
Proof. induction h as [|h IH]; cbn [pow2]; lia. Qed.

Lemma pow2_S h : pow2 (S h) = 2 * pow2 h.
Proof. reflexivity. Qed.

Lemma pow2_0 : pow2 0 = 1.
Proof. reflexivity. Qed.

Lemma pow2_eq h : pow2 h = 2 ^ N.of_nat h.
Proof.
  induction h as [|h IH]; [reflexivity|].
  rewrite pow2_S, IH, Nat2N.inj_succ, N.pow_succ_r'. reflexivity.
Qed.

Lemma size_nat_spec p : (Npos p < pow2 (Pos.size_nat p)) /\ pow2 (Pos.size_nat p) <= 2 * Npos p.
Proof.
  induction p as [p IH|p IH|]; cbn [Pos.size_nat]; rewrite ?pow2_S; cbn [pow2]; lia.
Qed.

Lemma bitlen_gt v : v < pow2 (bitlen v).
Proof. destruct v as [|p]; [cbn; lia|]. apply (size_nat_spec p). Qed.

Lemma bitlen_le v : 0 < v -> pow2 (bitlen v) <= 2 * v.
Proof. destruct v as [|p]; [lia|]. intros _. apply (size_nat_spec p). Qed.

Lemma bitlen_0 v : bitlen v = O -> v = 0.
Proof. destruct v as [|p]; [reflexivity|]. destruct p; cbn; discriminate. Qed.

Arguments pow2 : simpl never.

Section Proofs.
  Variables D E V : Type.
  Variable H : hin D E V -> D.

  Notation node := (node D E V H).
  Notation root := (root D E V H).
  Notation fz := (fz D E V H).
  Notation interp := (interp D E V H).
  Notation collect := (collect D E V H).

  (* ------------------------------------------------------------------ the spec itself *)
  (* node depends only on the events of its range that are <= v *)
  Lemma node_ext (A B : N -> E) v i h :
    (forall k, i <= k -> k < i + pow2 h -> k <= v -> A k = B k) ->
    i <= v -> node A v i h = node B v i h.
  Proof.
    revert i. induction h as [|h IH]; intros i Hag Hi; cbn [HistSpec.node].
    - rewrite (Hag i); [reflexivity|lia| rewrite pow2_0; lia |lia].
    - rewrite pow2_S in Hag. pose proof (pow2_pos h) as Hp.
      destruct (v <? i + pow2 h) eqn:Hc.
      + rewrite (IH i); [reflexivity| |lia]. intros k ? ? ?. apply Hag; lia.
      + apply N.ltb_ge in Hc.
        rewrite (IH i), (IH (i + pow2 h)); [reflexivity| |lia| |lia]; intros k ? ? ?; apply Hag; lia.
  Qed.

  (* a complete subtree is frozen: same hash at every later version *)
  Lemma frozen_stable (A : N -> E) v v' i h :
    i + pow2 h <= v + 1 -> i + pow2 h <= v' + 1 -> node A v i h = node A v' i h.
  Proof.
    revert i. induction h as [|h IH]; intros i H1 H2; cbn [HistSpec.node]; [reflexivity|].
    rewrite pow2_S in H1, H2. pose proof (pow2_pos h) as Hp.
    destruct (v <? i + pow2 h) eqn:Hc; [apply N.ltb_lt in Hc; lia|].
    destruct (v' <? i + pow2 h) eqn:Hc'; [apply N.ltb_lt in Hc'; lia|].
    rewrite (IH i), (IH (i + pow2 h)); [reflexivity|lia|lia|lia|lia].
  Qed.

  Lemma frozen_fz (A : N -> E) v i h : i + pow2 h <= v + 1 -> node A v i h = fz A i h.
  Proof.
    intros Hf. unfold HistSpec.fz. pose proof (pow2_pos h) as Hp.
    apply frozen_stable; [exact Hf|]. lia.
  Qed.

  (* ------------------------------------------------------------------ injectivity consequences *)
  Hypothesis H_inj : forall a b, H a = H b -> a = b.

  (* equal hashes of two subtrees at the same position: same events, and the same version as far as
     the subtree can tell (versions beyond its last leaf are indistinguishable: it is frozen) *)
  Lemma node_inj (A B : N -> E) h : forall i v v',
    i <= v -> i <= v' -> node A v i h = node B v' i h ->
    (forall k, i <= k -> k < i + pow2 h -> k <= v -> A k = B k) /\
    N.min v (i + pow2 h - 1) = N.min v' (i + pow2 h - 1).
  Proof.
    induction h as [|h IH]; intros i v v' Hv Hv' Heq; cbn [HistSpec.node] in Heq.
    - apply H_inj in Heq. inversion Heq as [He]. split.
      + intros k ? Hk _. rewrite pow2_0 in Hk. assert (k = i) by lia. subst. exact He.
      + rewrite pow2_0. lia.
    - rewrite pow2_S. pose proof (pow2_pos h) as Hp.
      destruct (v <? i + pow2 h) eqn:Hc; destruct (v' <? i + pow2 h) eqn:Hc';
        apply H_inj in Heq; try discriminate Heq.
      + injection Heq as Hl.
        apply N.ltb_lt in Hc, Hc'. destruct (IH i v v' Hv Hv' Hl) as [Hag Hsame]. split.
        * intros k ? ? ?. apply Hag; lia.
        * lia.
      + injection Heq as Hl Hr.
        apply N.ltb_ge in Hc, Hc'.
        destruct (IH i v v' Hv Hv' Hl) as [Hag1 _].
        destruct (IH (i + pow2 h) v v' Hc Hc' Hr) as [Hag2 Hsame2]. split.
        * intros k ? ? ?. destruct (N.lt_ge_cases k (i + pow2 h)); [apply Hag1|apply Hag2]; lia.
        * lia.
  Qed.

  Lemma root_height_inj (A B : N -> E) v v' : root A v = root B v' -> bitlen v = bitlen v'.
  Proof.
    unfold HistSpec.root. intros Heq.
    destruct (bitlen v) as [|h] eqn:E1; destruct (bitlen v') as [|h'] eqn:E2; cbn [HistSpec.node] in Heq; try reflexivity.
    - destruct (v' <? _); apply H_inj in Heq; discriminate.
    - destruct (v <? _); apply H_inj in Heq; discriminate.
    - destruct (v <? _); destruct (v' <? _); apply H_inj in Heq; inversion Heq; reflexivity.
  Qed.

  (* equal roots: equal version and equal log prefix *)
  Theorem root_inj (A B : N -> E) v v' :
    root A v = root B v' -> v = v' /\ forall k, k <= v -> A k = B k.
  Proof.
    intros Heq. pose proof (root_height_inj A B v v' Heq) as Hh.
    unfold HistSpec.root in Heq. rewrite <- Hh in Heq.
    destruct (node_inj A B (bitlen v) 0 v v' ltac:(lia) ltac:(lia) Heq) as [Hag Hsame].
    pose proof (bitlen_gt v) as Hg. pose proof (bitlen_gt v') as Hg'. rewrite <- Hh in Hg'.
    split; [lia|]. intros k Hk. apply Hag; lia.
  Qed.

  (* ------------------------------------------------------------------ membership: soundness (C02, history half)
     For EVERY audit path c (arbitrary function), claimed index idx, claimed version v' and digest e:
     if the verifier's recomputation equals the authentic hash of the subtree, then e is the event at idx.
     The premise idx <= v' is essential: without it pruneToVerify discards the branch holding the leaf
     (Example verify_unsound_beyond_version below). *)

  Lemma verify_sound (A : N -> E) h : forall (c : cache D) i idx v' v e,
    i <= idx -> idx < i + pow2 h -> idx <= v' -> i <= v ->
    interp c (verify_go idx v' e i h) = Some (node A v i h) ->
    e = A idx /\ idx <= v.
  Proof.
    induction h as [|h IH]; intros c i idx v' v e Hlo Hhi Hv' Hv Heq.
    - rewrite pow2_0 in Hhi. assert (idx = i) by lia. subst idx.
      cbn in Heq. injection Heq as Heq. apply H_inj in Heq. injection Heq as Heq. split; [exact Heq|exact Hv].
    - rewrite pow2_S in Hhi. pose proof (pow2_pos h) as Hp.
      cbn [HistModel.verify_go HistSpec.node] in Heq.
      destruct (idx <? i + pow2 h) eqn:Hidx.
      + apply N.ltb_lt in Hidx.
        destruct (v' <? i + pow2 h) eqn:Hc'; cbn [HistModel.interp] in Heq;
          destruct (interp c (verify_go idx v' e i h)) as [lh|] eqn:Hl; try discriminate Heq.
        * injection Heq as Heq. destruct (v <? i + pow2 h) eqn:Hc; apply H_inj in Heq; try discriminate Heq.
          injection Heq as Heq. subst lh. exact (IH c i idx v' v e Hlo Hidx Hv' Hv Hl).
        * destruct (c (i + pow2 h, h)) as [rh|]; try discriminate Heq.
          injection Heq as Heq. destruct (v <? i + pow2 h) eqn:Hc; apply H_inj in Heq; try discriminate Heq.
          injection Heq as Heq _. subst lh. exact (IH c i idx v' v e Hlo Hidx Hv' Hv Hl).
      + apply N.ltb_ge in Hidx.
        destruct (v' <? i + pow2 h) eqn:Hc'; [apply N.ltb_lt in Hc'; lia|].
        cbn [HistModel.interp] in Heq.
        destruct (c (i, h)) as [lh|]; try discriminate Heq.
        destruct (interp c (verify_go idx v' e (i + pow2 h) h)) as [rh|] eqn:Hr; try discriminate Heq.
        injection Heq as Heq. destruct (v <? i + pow2 h) eqn:Hc; apply H_inj in Heq; try discriminate Heq.
        injection Heq as _ Heq. subst rh. apply N.ltb_ge in Hc.
        apply (IH c (i + pow2 h) idx v' v e); [lia|lia|lia|lia|exact Hr].
  Qed.

  (* the verifier's root height is fixed by the claimed version; an accepted proof has the authentic height *)
  Lemma interp_root_height (A : N -> E) (c : cache D) o v :
    interp c o = Some (root A v) ->
    (exists i e, o = OLeaf i (Some e)) \/ (exists i h l, o = OPartial i h l) \/ (exists i h l r, o = OInner i h l r) ->
    snd (op_pos o) = bitlen v.
  Proof.
    unfold HistSpec.root. intros Heq Hshape.
    destruct Hshape as [(i & e & ->)|[(i & h & l & ->)|(i & h & l & r & ->)]]; cbn in Heq |- *.
    - injection Heq as Heq. destruct (bitlen v) as [|hv]; [reflexivity|].
      cbn [HistSpec.node] in Heq. destruct (v <? _); apply H_inj in Heq; discriminate.
    - destruct (interp c l); try discriminate. injection Heq as Heq.
      destruct (bitlen v) as [|hv]; cbn [HistSpec.node] in Heq; [apply H_inj in Heq; discriminate|].
      destruct (v <? _); apply H_inj in Heq; try discriminate. injection Heq as _ _ Hh. exact Hh.
    - destruct (interp c l); try discriminate. destruct (interp c r); try discriminate. injection Heq as Heq.
      destruct (bitlen v) as [|hv]; cbn [HistSpec.node] in Heq; [apply H_inj in Heq; discriminate|].
      destruct (v <? _); apply H_inj in Heq; try discriminate. injection Heq as _ _ _ Hh. exact Hh.
  Qed.

  Lemma verify_go_shape idx v' (e : E) i h :
    (exists i0 e0, verify_go idx v' e i h = OLeaf i0 (Some e0)) \/
    (exists i0 h0 l, verify_go idx v' e i h = OPartial i0 h0 l) \/
    (exists i0 h0 l r, verify_go idx v' e i h = OInner i0 h0 l r).
  Proof.
    destruct h as [|h]; cbn [HistModel.verify_go]; [left; eauto|].
    destruct (idx <? _); destruct (v' <? _); eauto 8.
  Qed.

  Lemma verify_go_pos idx v' (e : E) i h : op_pos (verify_go idx v' e i h) = (i, h).
  Proof. destruct h as [|h]; cbn [HistModel.verify_go]; [reflexivity|]. destruct (idx <? _); destruct (v' <? _); reflexivity. Qed.

  (* MembershipProof.Verify accepted against an authentic root => the digest is the event at the claimed
     index, and that index exists in the authentic version. *)
  Theorem membership_sound (A : N -> E) (c : cache D) idx v' v e :
    idx <= v' ->
    membership_root D E V H c idx v' e = Some (root A v) ->
    e = A idx /\ idx <= v.
  Proof.
    unfold membership_root, pruneToVerify. intros Hle Heq.
    pose proof (interp_root_height A c _ v Heq (verify_go_shape _ _ _ _ _)) as Hh.
    rewrite verify_go_pos in Hh. cbn in Hh.
    unfold HistSpec.root in Heq. rewrite <- Hh in Heq.
    pose proof (bitlen_gt v') as Hg.
    apply (verify_sound A (bitlen v') c 0 idx v' v e); [lia|lia|exact Hle|lia|exact Heq].
  Qed.
End Proofs.
