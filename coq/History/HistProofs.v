(* Proofs about the history tree: the model of balloon/history (HistModel) against the published
   construction (HistSpec).  Stated for every height, index, version and audit path. *)
From QV Require Import Base.Util Base.HashSig History.HistModel History.HistSpec.

Lemma pow2_pos h : 0 < pow2 h.
Proof. induction h as [|h IH]; cbn [pow2]; lia. Qed.

Lemma pow2_S h : pow2 (S h) = 2 * pow2 h.
Proof. reflexivity. Qed.

Lemma pow2_0 : pow2 0 = 1.
Proof. reflexivity. Qed.

Lemma pow2_eq h : pow2 h = 2 ^ N.of_nat h.
Proof.
  induction h as [|h IH]; [reflexivity|].
  rewrite pow2_S, IH, Nat2N.inj_succ, N.pow_succ_r'. reflexivity.
Qed.

Lemma size_nat_spec p : (Npos p < pow2 (Pos.size_nat p)) /\ pow2 (Pos.size_nat p) <= 2 * Npos p.
Proof.
  induction p as [p IH|p IH|]; cbn [Pos.size_nat]; rewrite ?pow2_S; cbn [pow2]; lia.
Qed.

Lemma bitlen_gt v : v < pow2 (bitlen v).
Proof. destruct v as [|p]; [cbn; lia|]. apply (size_nat_spec p). Qed.

Lemma bitlen_le v : 0 < v -> pow2 (bitlen v) <= 2 * v.
Proof. destruct v as [|p]; [lia|]. intros _. apply (size_nat_spec p). Qed.

Lemma bitlen_0 v : bitlen v = O -> v = 0.
Proof. destruct v as [|p]; [reflexivity|]. destruct p; cbn; discriminate. Qed.

Arguments pow2 : simpl never.


Lemma pos_eqb_eq (a b : pos) : pos_eqb a b = true <-> a = b.
Proof.
  destruct a as [i h], b as [j k]. unfold pos_eqb. cbn [fst snd].
  rewrite andb_true_iff, N.eqb_eq, Nat.eqb_eq. split; [intros [-> ->]; reflexivity|intros Heq; inversion Heq; auto].
Qed.

Lemma assoc_good {B} (f : pos -> B) k (l : list (pos * B)) :
  (forall k' d, In (k', d) l -> d = f k') -> In k (map fst l) -> assoc pos_eqb k l = Some (f k).
Proof.
  induction l as [|[k' d] l IH]; intros Hall Hin; cbn [assoc]; [destruct Hin|].
  destruct (pos_eqb k k') eqn:Heq.
  - apply pos_eqb_eq in Heq. subst k'. rewrite (Hall k d); [reflexivity|left; reflexivity].
  - apply IH.
    + intros k2 d2 Hin2. apply Hall. right. exact Hin2.
    + destruct Hin as [Hh|Ht]; [|exact Ht]. cbn in Hh. subst k'.
      assert (pos_eqb k k = true) as Hk by (apply pos_eqb_eq; reflexivity). congruence.
Qed.

Lemma assoc_in {B} k (l : list (pos * B)) d : assoc pos_eqb k l = Some d -> In (k, d) l.
Proof.
  induction l as [|[k' d'] l IH]; cbn [assoc]; [discriminate|].
  destruct (pos_eqb k k') eqn:Heq.
  - apply pos_eqb_eq in Heq. subst k'. intros Hs. injection Hs as ->. left; reflexivity.
  - intros Hs. right. apply IH. exact Hs.
Qed.

Lemma assoc_none {B} k (l : list (pos * B)) : ~ In k (map fst l) -> assoc pos_eqb k l = None.
Proof.
  induction l as [|[k' d'] l IH]; cbn [assoc]; [reflexivity|]. intros Hn.
  destruct (pos_eqb k k') eqn:Heq.
  - apply pos_eqb_eq in Heq. subst k'. exfalso. apply Hn. left. reflexivity.
  - apply IH. intros Hin. apply Hn. right. exact Hin.
Qed.

Lemma path_get_good {B} (f : pos -> B) (p : list (pos * B)) k :
  (forall k' d, In (k', d) p -> d = f k') -> In k (map fst p) -> path_get p k = Some (f k).
Proof.
  intros Hall Hin. unfold path_get. apply assoc_good.
  - intros k' d Hd. apply Hall. apply in_rev. exact Hd.
  - rewrite map_rev. apply -> in_rev. exact Hin.
Qed.


Lemma assoc_app {B} k (l1 l2 : list (pos * B)) :
  assoc pos_eqb k (l1 ++ l2) = match assoc pos_eqb k l1 with Some d => Some d | None => assoc pos_eqb k l2 end.
Proof.
  induction l1 as [|[k' d] l1 IH]; cbn [app assoc]; [reflexivity|].
  destruct (pos_eqb k k'); [reflexivity|exact IH].
Qed.

Lemma assoc_none_inv {B} k (l : list (pos * B)) : assoc pos_eqb k l = None -> ~ In k (map fst l).
Proof.
  induction l as [|[k' d] l IH]; cbn [assoc map fst]; [intros _ []|].
  destruct (pos_eqb k k') eqn:Heq; [discriminate|]. intros Hn [Hh|Ht].
  - subst k'. assert (pos_eqb k k = true) by (apply pos_eqb_eq; reflexivity). congruence.
  - exact (IH Hn Ht).
Qed.

(* positions the code visits are aligned: index = k * 2^height *)
Definition aligned (i : N) (h : nat) : Prop := exists k, i = k * pow2 h.
Lemma aligned_left i h : aligned i (S h) -> aligned i h.
Proof. intros [k ->]. exists (2 * k). rewrite pow2_S. lia. Qed.
Lemma aligned_right i h : aligned i (S h) -> aligned (i + pow2 h) h.
Proof. intros [k ->]. exists (2 * k + 1). rewrite pow2_S. lia. Qed.
Lemma aligned_0 h : aligned 0 h.
Proof. exists 0. lia. Qed.


Lemma pow2_divides k h : (k <= h)%nat -> exists q, pow2 h = q * pow2 k.
Proof. intros Hkh. induction Hkh as [|m Hm [q Hq]]; [exists 1; lia|]. exists (2 * q). rewrite pow2_S. lia. Qed.

(* two aligned positions: the lower one ends before the higher one starts *)
Lemma aligned_step j k x h : aligned j k -> aligned x h -> (k <= h)%nat -> j < x -> j + pow2 k <= x.
Proof.
  intros [b ->] [a ->] Hkh Hlt. destruct (pow2_divides k h Hkh) as [q Hq]. rewrite Hq in *.
  pose proof (pow2_pos k) as Hp.
  assert (b < a * q) by nia. assert (b + 1 <= a * q) by lia. nia.
Qed.

Section Proofs.
  Variables D E V : Type.
  Variable H : hin D E V -> D.

  Notation node := (node D E V H).
  Notation root := (root D E V H).
  Notation fz := (fz D E V H).
  Notation interp := (interp D E V H).
  Notation collect := (collect D E V H).

  (* ------------------------------------------------------------------ the spec itself *)
  (* node depends only on the events of its range that are <= v *)
  Lemma node_ext (A B : N -> E) v i h :
    (forall k, i <= k -> k < i + pow2 h -> k <= v -> A k = B k) ->
    i <= v -> node A v i h = node B v i h.
  Proof.
    revert i. induction h as [|h IH]; intros i Hag Hi; cbn [HistSpec.node].
    - rewrite (Hag i); [reflexivity|lia| rewrite pow2_0; lia |lia].
    - rewrite pow2_S in Hag. pose proof (pow2_pos h) as Hp.
      destruct (v <? i + pow2 h) eqn:Hc.
      + rewrite (IH i); [reflexivity| |lia]. intros k ? ? ?. apply Hag; lia.
      + apply N.ltb_ge in Hc.
        rewrite (IH i), (IH (i + pow2 h)); [reflexivity| |lia| |lia]; intros k ? ? ?; apply Hag; lia.
  Qed.

  (* a complete subtree is frozen: same hash at every later version *)
  Lemma frozen_stable (A : N -> E) v v' i h :
    i + pow2 h <= v + 1 -> i + pow2 h <= v' + 1 -> node A v i h = node A v' i h.
  Proof.
    revert i. induction h as [|h IH]; intros i H1 H2; cbn [HistSpec.node]; [reflexivity|].
    rewrite pow2_S in H1, H2. pose proof (pow2_pos h) as Hp.
    destruct (v <? i + pow2 h) eqn:Hc; [apply N.ltb_lt in Hc; lia|].
    destruct (v' <? i + pow2 h) eqn:Hc'; [apply N.ltb_lt in Hc'; lia|].
    rewrite (IH i), (IH (i + pow2 h)); [reflexivity|lia|lia|lia|lia].
  Qed.

  Lemma frozen_fz (A : N -> E) v i h : i + pow2 h <= v + 1 -> node A v i h = fz A i h.
  Proof.
    intros Hf. unfold HistSpec.fz. pose proof (pow2_pos h) as Hp.
    apply frozen_stable; [exact Hf|]. lia.
  Qed.

  (* ------------------------------------------------------------------ injectivity consequences *)
  Hypothesis H_inj : forall a b, H a = H b -> a = b.

  (* equal hashes of two subtrees at the same position: same events, and the same version as far as
     the subtree can tell (versions beyond its last leaf are indistinguishable: it is frozen) *)
  Lemma node_inj (A B : N -> E) h : forall i v v',
    i <= v -> i <= v' -> node A v i h = node B v' i h ->
    (forall k, i <= k -> k < i + pow2 h -> k <= v -> A k = B k) /\
    N.min v (i + pow2 h - 1) = N.min v' (i + pow2 h - 1).
  Proof.
    induction h as [|h IH]; intros i v v' Hv Hv' Heq; cbn [HistSpec.node] in Heq.
    - apply H_inj in Heq. inversion Heq as [He]. split.
      + intros k ? Hk _. rewrite pow2_0 in Hk. assert (k = i) by lia. subst. exact He.
      + rewrite pow2_0. lia.
    - rewrite pow2_S. pose proof (pow2_pos h) as Hp.
      destruct (v <? i + pow2 h) eqn:Hc; destruct (v' <? i + pow2 h) eqn:Hc';
        apply H_inj in Heq; try discriminate Heq.
      + injection Heq as Hl.
        apply N.ltb_lt in Hc, Hc'. destruct (IH i v v' Hv Hv' Hl) as [Hag Hsame]. split.
        * intros k ? ? ?. apply Hag; lia.
        * lia.
      + injection Heq as Hl Hr.
        apply N.ltb_ge in Hc, Hc'.
        destruct (IH i v v' Hv Hv' Hl) as [Hag1 _].
        destruct (IH (i + pow2 h) v v' Hc Hc' Hr) as [Hag2 Hsame2]. split.
        * intros k ? ? ?. destruct (N.lt_ge_cases k (i + pow2 h)); [apply Hag1|apply Hag2]; lia.
        * lia.
  Qed.

  Lemma root_height_inj (A B : N -> E) v v' : root A v = root B v' -> bitlen v = bitlen v'.
  Proof.
    unfold HistSpec.root. intros Heq.
    destruct (bitlen v) as [|h] eqn:E1; destruct (bitlen v') as [|h'] eqn:E2; cbn [HistSpec.node] in Heq; try reflexivity.
    - destruct (v' <? _); apply H_inj in Heq; discriminate.
    - destruct (v <? _); apply H_inj in Heq; discriminate.
    - destruct (v <? _); destruct (v' <? _); apply H_inj in Heq; inversion Heq; reflexivity.
  Qed.

  (* equal roots: equal version and equal log prefix *)
  Theorem root_inj (A B : N -> E) v v' :
    root A v = root B v' -> v = v' /\ forall k, k <= v -> A k = B k.
  Proof.
    intros Heq. pose proof (root_height_inj A B v v' Heq) as Hh.
    unfold HistSpec.root in Heq. rewrite <- Hh in Heq.
    destruct (node_inj A B (bitlen v) 0 v v' ltac:(lia) ltac:(lia) Heq) as [Hag Hsame].
    pose proof (bitlen_gt v) as Hg. pose proof (bitlen_gt v') as Hg'. rewrite <- Hh in Hg'.
    split; [lia|]. intros k Hk. apply Hag; lia.
  Qed.

  (* ------------------------------------------------------------------ membership: soundness (C02, history half)
     For EVERY audit path c (arbitrary function), claimed index idx, claimed version v' and digest e:
     if the verifier's recomputation equals the authentic hash of the subtree, then e is the event at idx.
     The premise idx <= v' is essential: without it pruneToVerify discards the branch holding the leaf
     (Example verify_unsound_beyond_version below). *)

  Lemma verify_sound (A : N -> E) h : forall (c : cache D) i idx v' v e,
    i <= idx -> idx < i + pow2 h -> idx <= v' -> i <= v ->
    interp c (verify_go idx v' e i h) = Some (node A v i h) ->
    e = A idx /\ idx <= v.
  Proof.
    induction h as [|h IH]; intros c i idx v' v e Hlo Hhi Hv' Hv Heq.
    - rewrite pow2_0 in Hhi. assert (idx = i) by lia. subst idx.
      cbn in Heq. injection Heq as Heq. apply H_inj in Heq. injection Heq as Heq. split; [exact Heq|exact Hv].
    - rewrite pow2_S in Hhi. pose proof (pow2_pos h) as Hp.
      cbn [HistModel.verify_go HistSpec.node] in Heq.
      destruct (idx <? i + pow2 h) eqn:Hidx.
      + apply N.ltb_lt in Hidx.
        destruct (v' <? i + pow2 h) eqn:Hc'; cbn [HistModel.interp] in Heq;
          destruct (interp c (verify_go idx v' e i h)) as [lh|] eqn:Hl; try discriminate Heq.
        * injection Heq as Heq. destruct (v <? i + pow2 h) eqn:Hc; apply H_inj in Heq; try discriminate Heq.
          injection Heq as Heq. subst lh. exact (IH c i idx v' v e Hlo Hidx Hv' Hv Hl).
        * destruct (c (i + pow2 h, h)) as [rh|]; try discriminate Heq.
          injection Heq as Heq. destruct (v <? i + pow2 h) eqn:Hc; apply H_inj in Heq; try discriminate Heq.
          injection Heq as Heq _. subst lh. exact (IH c i idx v' v e Hlo Hidx Hv' Hv Hl).
      + apply N.ltb_ge in Hidx.
        destruct (v' <? i + pow2 h) eqn:Hc'; [apply N.ltb_lt in Hc'; lia|].
        cbn [HistModel.interp] in Heq.
        destruct (c (i, h)) as [lh|]; try discriminate Heq.
        destruct (interp c (verify_go idx v' e (i + pow2 h) h)) as [rh|] eqn:Hr; try discriminate Heq.
        injection Heq as Heq. destruct (v <? i + pow2 h) eqn:Hc; apply H_inj in Heq; try discriminate Heq.
        injection Heq as _ Heq. subst rh. apply N.ltb_ge in Hc.
        apply (IH c (i + pow2 h) idx v' v e); [lia|lia|lia|lia|exact Hr].
  Qed.

  (* the verifier's root height is fixed by the claimed version; an accepted proof has the authentic height *)
  Lemma interp_root_height (A : N -> E) (c : cache D) o v :
    interp c o = Some (root A v) ->
    (exists i e, o = OLeaf i (Some e)) \/ (exists i h l, o = OPartial i h l) \/ (exists i h l r, o = OInner i h l r) ->
    snd (op_pos o) = bitlen v.
  Proof.
    unfold HistSpec.root. intros Heq Hshape.
    destruct Hshape as [(i & e & ->)|[(i & h & l & ->)|(i & h & l & r & ->)]]; cbn in Heq |- *.
    - injection Heq as Heq. destruct (bitlen v) as [|hv]; [reflexivity|].
      cbn [HistSpec.node] in Heq. destruct (v <? _); apply H_inj in Heq; discriminate.
    - destruct (interp c l); try discriminate. injection Heq as Heq.
      destruct (bitlen v) as [|hv]; cbn [HistSpec.node] in Heq; [apply H_inj in Heq; discriminate|].
      destruct (v <? _); apply H_inj in Heq; try discriminate. injection Heq as _ _ Hh. exact Hh.
    - destruct (interp c l); try discriminate. destruct (interp c r); try discriminate. injection Heq as Heq.
      destruct (bitlen v) as [|hv]; cbn [HistSpec.node] in Heq; [apply H_inj in Heq; discriminate|].
      destruct (v <? _); apply H_inj in Heq; try discriminate. injection Heq as _ _ _ Hh. exact Hh.
  Qed.

  Lemma verify_go_shape idx v' (e : E) i h :
    (exists i0 e0, verify_go idx v' e i h = OLeaf i0 (Some e0)) \/
    (exists i0 h0 l, verify_go idx v' e i h = OPartial i0 h0 l) \/
    (exists i0 h0 l r, verify_go idx v' e i h = OInner i0 h0 l r).
  Proof.
    destruct h as [|h]; cbn [HistModel.verify_go]; [left; eauto|].
    destruct (idx <? _); destruct (v' <? _); eauto 8.
  Qed.

  Lemma verify_go_pos idx v' (e : E) i h : op_pos (verify_go idx v' e i h) = (i, h).
  Proof. destruct h as [|h]; cbn [HistModel.verify_go]; [reflexivity|]. destruct (idx <? _); destruct (v' <? _); reflexivity. Qed.

  (* MembershipProof.Verify accepted against an authentic root => the digest is the event at the claimed
     index, and that index exists in the authentic version. *)
  Theorem membership_sound (A : N -> E) (c : cache D) idx v' v e :
    idx <= v' ->
    membership_root D E V H c idx v' e = Some (root A v) ->
    e = A idx /\ idx <= v.
  Proof.
    unfold membership_root, pruneToVerify. intros Hle Heq.
    pose proof (interp_root_height A c _ v Heq (verify_go_shape _ _ _ _ _)) as Hh.
    rewrite verify_go_pos in Hh. cbn in Hh.
    unfold HistSpec.root in Heq. rewrite <- Hh in Heq.
    pose proof (bitlen_gt v') as Hg.
    apply (verify_sound A (bitlen v') c 0 idx v' v e); [lia|lia|exact Hle|lia|exact Heq].
  Qed.

  (* ------------------------------------------------------------------ membership: completeness (C01, history half) *)
  Definition StoreOK (A : N -> E) (c : cache D) (vs : N) : Prop :=
    forall i h, aligned i h -> i + pow2 h <= vs + 1 -> c (i, h) = Some (fz A i h).

  Definition nodeP (A : N -> E) (v : N) (p : pos) : D := node A v (fst p) (snd p).

  (* positions pruneToVerify reads from the audit path *)
  Fixpoint vreads (idx v i : N) (h : nat) : list pos :=
    match h with
    | O => []
    | S h' =>
        let ri := i + pow2 h' in
        if idx <? ri then vreads idx v i h' ++ (if v <? ri then [] else [(ri, h')])
        else (i, h') :: vreads idx v ri h'
    end.

  Lemma verify_complete (A : N -> E) h : forall (c : cache D) i idx v,
    i <= idx -> idx < i + pow2 h -> idx <= v ->
    (forall p, In p (vreads idx v i h) -> c p = Some (nodeP A v p)) ->
    interp c (verify_go idx v (A idx) i h) = Some (node A v i h).
  Proof.
    induction h as [|h IH]; intros c i idx v Hlo Hhi Hv Hc.
    - rewrite pow2_0 in Hhi. assert (idx = i) by lia. subst idx. reflexivity.
    - rewrite pow2_S in Hhi. pose proof (pow2_pos h) as Hp.
      cbn [HistModel.verify_go HistSpec.node vreads] in *.
      destruct (idx <? i + pow2 h) eqn:Hidx.
      + apply N.ltb_lt in Hidx.
        assert (Hl : interp c (verify_go idx v (A idx) i h) = Some (node A v i h)).
        { apply IH; [lia|lia|lia|]. intros p Hp'. apply Hc. apply in_or_app. left. exact Hp'. }
        destruct (v <? i + pow2 h) eqn:Hcv; cbn [HistModel.interp]; rewrite Hl; [reflexivity|].
        rewrite (Hc (i + pow2 h, h)); [reflexivity|]. apply in_or_app. right. left. reflexivity.
      + apply N.ltb_ge in Hidx.
        destruct (v <? i + pow2 h) eqn:Hcv; [apply N.ltb_lt in Hcv; lia|].
        cbn [HistModel.interp]. rewrite (Hc (i, h)); [|left; reflexivity].
        rewrite (IH c (i + pow2 h) idx v); [reflexivity|lia|lia|lia|].
        intros p Hp'. apply Hc. right. exact Hp'.
  Qed.

  Lemma inr_true x i h : inr x i h = true <-> i <= x /\ x < i + pow2 h.
  Proof. unfold inr. rewrite andb_true_iff, N.leb_le, N.ltb_lt. reflexivity. Qed.
  Lemma inr_false x i h : inr x i h = false <-> x < i \/ i + pow2 h <= x.
  Proof. unfold inr. rewrite andb_false_iff, N.leb_gt, N.ltb_ge. reflexivity. Qed.

  Section Prover.
    Variable A : N -> E.
    Variable st : cache D.
    Variable vs : N.
    Hypothesis Hst : StoreOK A st vs.

    Lemma store_frozen v i h : aligned i h -> v <= vs -> i + pow2 h <= v + 1 -> st (i, h) = Some (node A v i h).
    Proof. intros Ha Hv Hf. rewrite (frozen_fz A v i h Hf). apply Hst; [exact Ha|lia]. Qed.

    (* the "shortcut" traversal recomputes the hash of a subtree that does not contain the index *)
    Lemma findc_short_value idx v h : forall i,
      aligned i h -> v <= vs -> i <= v -> inr idx i h = false ->
      interp st (@findc_short E idx v i h) = Some (node A v i h).
    Proof.
      induction h as [|h IH]; intros i Ha Hv Hi Hidx.
      - cbn [findc_short]. rewrite Hidx. cbn [orb].
        destruct (inr v i 0) eqn:Hvi; cbn [negb].
        + apply inr_true in Hvi. rewrite pow2_0 in Hvi.
          destruct (i =? idx) eqn:Hii.
          { apply N.eqb_eq in Hii. apply inr_false in Hidx. rewrite pow2_0 in Hidx. lia. }
          cbn [HistModel.interp]. apply store_frozen; [exact Ha|exact Hv|rewrite pow2_0; lia].
        + cbn [HistModel.interp]. apply inr_false in Hvi. rewrite pow2_0 in Hvi.
          apply store_frozen; [exact Ha|exact Hv|rewrite pow2_0; lia].
      - pose proof (pow2_pos h) as Hp.
        cbn [findc_short]. rewrite Hidx. cbn [orb].
        destruct (inr v i (S h)) eqn:Hvi; cbn [negb].
        + apply inr_true in Hvi. rewrite pow2_S in Hvi. apply inr_false in Hidx. rewrite pow2_S in Hidx.
          assert (Hl : interp st (@findc_short E idx v i h) = Some (node A v i h)).
          { apply IH; [apply aligned_left; exact Ha|exact Hv|lia|apply inr_false; lia]. }
          cbn [HistSpec.node].
          destruct (v <? i + pow2 h) eqn:Hcv; cbn [HistModel.interp]; rewrite Hl; [reflexivity|].
          apply N.ltb_ge in Hcv.
          rewrite (IH (i + pow2 h)); [reflexivity|apply aligned_right; exact Ha|exact Hv|lia|apply inr_false; lia].
        + cbn [HistModel.interp]. apply inr_false in Hvi.
          apply store_frozen; [exact Ha|exact Hv|lia].
    Qed.

    (* what pruneToFindConsistent collects: all values are spec values, every position the verifier
       reads is collected, and the traversal never panics *)
    Lemma findc_collect idx v h : forall i,
      aligned i h -> v <= vs -> idx <= v -> idx <> v -> inr idx i h = true ->
      interp st (@findc_go E idx v i h) <> None /\
      (forall p d, In (p, d) (collect st (@findc_go E idx v i h)) -> d = nodeP A v p) /\
      (forall p, In p (vreads idx v i h) -> In p (map fst (collect st (@findc_go E idx v i h)))).
    Proof.
      induction h as [|h IH]; intros i Ha Hv Hle Hne Hidx.
      - cbn [findc_go]. rewrite Hidx. cbn [orb negb].
        apply inr_true in Hidx. rewrite pow2_0 in Hidx. assert (i = idx) by lia. subst i.
        rewrite N.eqb_refl. cbn. repeat split; [discriminate|intros ? ? []|intros ? []].
      - pose proof (pow2_pos h) as Hp.
        cbn [findc_go]. rewrite Hidx. cbn [orb negb andb].
        apply inr_true in Hidx. rewrite pow2_S in Hidx.
        cbn [vreads].
        (* the sibling subtree (not containing idx) collected as a whole *)
        assert (Hsib : forall j, aligned j h -> j <= v -> inr idx j h = false ->
                  interp st (@findc_go E idx v j h) = Some (node A v j h) /\
                  collect st (@findc_go E idx v j h) = [((j, h), node A v j h)]).
        { intros j Haj Hj Hnot.
          assert (Hval : interp st (@findc_short E idx v j h) = Some (node A v j h))
            by (apply findc_short_value; assumption).
          destruct h as [|h'].
          - cbn [findc_go]. rewrite Hnot. cbn [orb].
            assert (Hg : st (j, O) = Some (node A v j 0)).
            { apply store_frozen; [exact Haj|exact Hv|rewrite pow2_0; lia]. }
            destruct (inr v j 0); cbn [negb].
            + destruct (j =? idx) eqn:Hji.
              { apply N.eqb_eq in Hji. apply inr_false in Hnot. rewrite pow2_0 in Hnot. lia. }
              cbn. rewrite Hg. split; reflexivity.
            + cbn. rewrite Hg. split; reflexivity.
          - cbn [findc_go]. rewrite Hnot. cbn [orb].
            destruct (inr v j (S h')) eqn:Hvj; cbn [negb andb].
            + assert (Hnv : (idx =? v) = false) by (apply N.eqb_neq; exact Hne).
              rewrite Hnv. cbn [negb HistModel.interp HistModel.collect op_pos].
              rewrite Hval. split; [reflexivity|].
              assert (Hcs : forall k hh, collect st (@findc_short E idx v k hh) = []).
              { intros k hh. revert k. induction hh as [|hh IHh]; intros k; cbn [findc_short].
                - destruct (negb _); [reflexivity|]. destruct (k =? idx); reflexivity.
                - destruct (negb _); [reflexivity|]. destruct (v <? _); cbn [HistModel.collect]; rewrite ?IHh; reflexivity. }
              rewrite Hcs. cbn [app].
              assert (Hpos : forall k hh, op_pos (@findc_short E idx v k hh) = (k, hh)).
              { intros k hh. destruct hh; cbn [findc_short]; destruct (negb _); try reflexivity.
                - destruct (k =? idx); reflexivity.
                - destruct (v <? _); reflexivity. }
              rewrite Hpos. reflexivity.
            + cbn [HistModel.interp HistModel.collect op_pos app].
              apply inr_false in Hvj.
              assert (Hg : st (j, S h') = Some (node A v j (S h'))).
              { apply store_frozen; [exact Haj|exact Hv|lia]. }
              rewrite Hg. split; reflexivity. }
        destruct (idx <? i + pow2 h) eqn:Hi1.
        + apply N.ltb_lt in Hi1.
          destruct (IH i (aligned_left _ _ Ha) Hv Hle Hne ltac:(apply inr_true; lia)) as (Hn & Hvals & Hreads).
          destruct (v <? i + pow2 h) eqn:Hcv.
          * cbn [HistModel.interp HistModel.collect]. rewrite app_nil_r.
            repeat split.
            -- destruct (interp st (findc_go idx v i h)); [discriminate|contradiction].
            -- exact Hvals.
            -- exact Hreads.
          * apply N.ltb_ge in Hcv.
            destruct (Hsib (i + pow2 h) (aligned_right _ _ Ha) Hcv ltac:(apply inr_false; lia)) as (Hsv & Hsc).
            cbn [HistModel.interp HistModel.collect]. rewrite Hsv, Hsc.
            repeat split.
            -- destruct (interp st (findc_go idx v i h)); [discriminate|contradiction].
            -- intros p d Hin. apply in_app_or in Hin. destruct Hin as [Hin|[Hin|[]]]; [apply Hvals; exact Hin|].
               injection Hin as <- <-. reflexivity.
            -- intros p Hin. rewrite map_app. apply in_app_or in Hin. apply in_or_app.
               destruct Hin as [Hin|Hin]; [left; apply Hreads; exact Hin|right; exact Hin].
        + apply N.ltb_ge in Hi1.
          destruct (v <? i + pow2 h) eqn:Hcv; [apply N.ltb_lt in Hcv; lia|].
          destruct (IH (i + pow2 h) (aligned_right _ _ Ha) Hv Hle Hne ltac:(apply inr_true; lia)) as (Hn & Hvals & Hreads).
          destruct (Hsib i (aligned_left _ _ Ha) ltac:(lia) ltac:(apply inr_false; lia)) as (Hsv & Hsc).
          cbn [HistModel.interp HistModel.collect]. rewrite Hsv, Hsc.
          repeat split.
          -- destruct (interp st (findc_go idx v (i + pow2 h) h)); [discriminate|contradiction].
          -- intros p d Hin. cbn [app] in Hin. destruct Hin as [Hin|Hin]; [|apply Hvals; exact Hin].
             injection Hin as <- <-. reflexivity.
          -- intros p Hin. cbn [app map fst]. destruct Hin as [Hin|Hin]; [left; exact Hin|right; apply Hreads; exact Hin].
    Qed.

    (* pruneToFind (index = version): collects the left siblings of the path *)
    Lemma find_collect v h : forall i,
      aligned i h -> v <= vs -> inr v i h = true ->
      interp st (@find_go E v i h) <> None /\
      (forall p d, In (p, d) (collect st (@find_go E v i h)) -> d = nodeP A v p) /\
      (forall p, In p (vreads v v i h) -> In p (map fst (collect st (@find_go E v i h)))).
    Proof.
      induction h as [|h IH]; intros i Ha Hv Hin.
      - cbn. repeat split; [discriminate|intros ? ? []|intros ? []].
      - pose proof (pow2_pos h) as Hp. apply inr_true in Hin. rewrite pow2_S in Hin.
        cbn [find_go vreads].
        destruct (v <? i + pow2 h) eqn:Hcv.
        + apply N.ltb_lt in Hcv.
          destruct (IH i (aligned_left _ _ Ha) Hv ltac:(apply inr_true; lia)) as (Hn & Hvals & Hreads).
          cbn [HistModel.interp HistModel.collect]. rewrite app_nil_r. repeat split.
          * destruct (interp st (find_go v i h)); [discriminate|contradiction].
          * exact Hvals.
          * exact Hreads.
        + apply N.ltb_ge in Hcv.
          destruct (IH (i + pow2 h) (aligned_right _ _ Ha) Hv ltac:(apply inr_true; lia)) as (Hn & Hvals & Hreads).
          assert (Hg : st (i, h) = Some (node A v i h)).
          { apply store_frozen; [apply aligned_left; exact Ha|exact Hv|lia]. }
          cbn [HistModel.interp HistModel.collect op_pos]. rewrite Hg. cbn [app]. repeat split.
          * destruct (interp st (find_go v (i + pow2 h) h)); [discriminate|contradiction].
          * intros p d Hi'. destruct Hi' as [Hi'|Hi']; [injection Hi' as <- <-; reflexivity|apply Hvals; exact Hi'].
          * intros p Hi'. cbn [map fst]. destruct Hi' as [Hi'|Hi']; [left; exact Hi'|right; apply Hreads; exact Hi'].
    Qed.

    (* HistoryTree.ProveMembership followed by MembershipProof.Verify recomputes the authentic root *)
    Theorem membership_complete idx v :
      idx <= v -> v <= vs ->
      exists path, prove_membership D E V H st idx v = Some path /\
                   membership_root D E V H (path_get path) idx v (A idx) = Some (root A v).
    Proof.
      intros Hle Hv. unfold prove_membership, membership_root, pruneToVerify, HistSpec.root.
      pose proof (bitlen_gt v) as Hg.
      destruct (idx =? v) eqn:Heq.
      - apply N.eqb_eq in Heq. subst idx. unfold pruneToFind.
        destruct (find_collect v (bitlen v) 0 (aligned_0 _) Hv ltac:(apply inr_true; lia)) as (Hn & Hvals & Hreads).
        destruct (interp st (find_go v 0 (bitlen v))) as [d|]; [|contradiction].
        eexists. split; [reflexivity|].
        apply verify_complete; [lia|lia|lia|].
        intros p Hp. apply (path_get_good (nodeP A v)); [exact Hvals|apply Hreads; exact Hp].
      - apply N.eqb_neq in Heq. unfold pruneToFindConsistent.
        destruct (findc_collect idx v (bitlen v) 0 (aligned_0 _) Hv Hle Heq ltac:(apply inr_true; lia)) as (Hn & Hvals & Hreads).
        destruct (interp st (findc_go idx v 0 (bitlen v))) as [d|]; [|contradiction].
        eexists. split; [reflexivity|].
        apply verify_complete; [lia|lia|lia|].
        intros p Hp. apply (path_get_good (nodeP A v)); [exact Hvals|apply Hreads; exact Hp].
    Qed.
  End Prover.

  (* ------------------------------------------------------------------ incremental proofs (C03) *)
  (* positions pruneToVerifyIncrementalStart / ...End read from the audit path *)
  Fixpoint sreads (s i : N) (h : nat) : list pos :=
    match h with
    | O => [(i, O)]
    | S h' => let ri := i + pow2 h' in
              if s <? ri then sreads s i h' else (i, h') :: sreads s ri h'
    end.

  Fixpoint ereads (s e i : N) (h : nat) : list pos :=
    if negb (inr s i h || inr e i h) then [(i, h)] else
    match h with
    | O => [(i, O)]
    | S h' => let ri := i + pow2 h' in
              ereads s e i h' ++ (if e <? ri then [] else ereads s e ri h')
    end.

  Lemma vstart_complete (A : N -> E) (c : cache D) s h : forall i,
    inr s i h = true ->
    (forall p, In p (sreads s i h) -> c p = Some (nodeP A s p)) ->
    interp c (@vstart_go E s i h) = Some (node A s i h).
  Proof.
    induction h as [|h IH]; intros i Hin Hc.
    - cbn. apply (Hc (i, O)). left. reflexivity.
    - pose proof (pow2_pos h) as Hp. apply inr_true in Hin. rewrite pow2_S in Hin.
      cbn [vstart_go sreads HistSpec.node] in *.
      destruct (s <? i + pow2 h) eqn:Hs.
      + apply N.ltb_lt in Hs. cbn [HistModel.interp].
        rewrite (IH i); [reflexivity|apply inr_true; lia|exact Hc].
      + apply N.ltb_ge in Hs. cbn [HistModel.interp].
        rewrite (Hc (i, h)); [|left; reflexivity].
        rewrite (IH (i + pow2 h)); [reflexivity|apply inr_true; lia|].
        intros p Hp'. apply Hc. right. exact Hp'.
  Qed.

  Lemma vend_complete (A : N -> E) (c : cache D) s e h : forall i,
    (forall p, In p (ereads s e i h) -> c p = Some (nodeP A e p)) ->
    interp c (@vend_go E s e i h) = Some (node A e i h).
  Proof.
    induction h as [|h IH]; intros i Hc.
    - cbn [vend_go ereads] in *. destruct (negb _); cbn; apply (Hc (i, O)); left; reflexivity.
    - cbn [vend_go ereads] in *. destruct (negb _).
      + cbn. apply (Hc (i, S h)). left. reflexivity.
      + cbn [HistSpec.node].
        assert (Hl : interp c (@vend_go E s e i h) = Some (node A e i h)).
        { apply IH. intros p Hp. apply Hc. apply in_or_app. left. exact Hp. }
        destruct (e <? i + pow2 h) eqn:He; cbn [HistModel.interp]; rewrite Hl; [reflexivity|].
        rewrite (IH (i + pow2 h)); [reflexivity|].
        intros p Hp. apply Hc. apply in_or_app. right. exact Hp.
  Qed.

  Lemma sreads_frozen s h : forall i p, inr s i h = true -> In p (sreads s i h) -> fst p + pow2 (snd p) <= s + 1.
  Proof.
    induction h as [|h IH]; intros i p Hin Hp.
    - cbn in Hp. destruct Hp as [<-|[]]. apply inr_true in Hin. rewrite pow2_0 in *. cbn [fst snd]. rewrite pow2_0. lia.
    - pose proof (pow2_pos h) as Hpp. apply inr_true in Hin. rewrite pow2_S in Hin. cbn [sreads] in Hp.
      destruct (s <? i + pow2 h) eqn:Hs.
      + apply N.ltb_lt in Hs. apply (IH i); [apply inr_true; lia|exact Hp].
      + apply N.ltb_ge in Hs. destruct Hp as [<-|Hp]; [cbn [fst snd]; lia|].
        apply (IH (i + pow2 h)); [apply inr_true; lia|exact Hp].
  Qed.

  Section IncrProver.
    Variable A : N -> E.
    Variable st : cache D.
    Variable vs : N.
    Hypothesis Hst : StoreOK A st vs.

    Lemma checkc_collect s e h : forall i,
      aligned i h -> e <= vs -> s <= e -> i <= e ->
      interp st (@checkc_go E s e i h) <> None /\
      (forall p d, In (p, d) (collect st (@checkc_go E s e i h)) -> d = nodeP A e p) /\
      (forall p, In p (ereads s e i h) -> In p (map fst (collect st (@checkc_go E s e i h)))).
    Proof.
      induction h as [|h IH]; intros i Ha He Hse Hi.
      - cbn [checkc_go ereads].
        assert (Hg : st (i, O) = Some (node A e i 0)).
        { apply (store_frozen A st vs Hst); [exact Ha|exact He|rewrite pow2_0; lia]. }
        destruct (negb _); cbn; rewrite Hg; (repeat split; [discriminate| |]).
        all: try (intros p d [Hin|[]]; injection Hin as <- <-; reflexivity).
        all: intros p [<-|[]]; left; reflexivity.
      - pose proof (pow2_pos h) as Hp.
        cbn [checkc_go ereads].
        destruct (inr s i (S h) || inr e i (S h)) eqn:Hin; cbn [negb].
        + destruct (IH i (aligned_left _ _ Ha) He Hse Hi) as (Hn & Hvals & Hreads).
          destruct (e <? i + pow2 h) eqn:Hce.
          * cbn [HistModel.interp HistModel.collect]. rewrite app_nil_r. repeat split.
            -- destruct (interp st (checkc_go s e i h)); [discriminate|contradiction].
            -- exact Hvals.
            -- exact Hreads.
          * apply N.ltb_ge in Hce.
            destruct (IH (i + pow2 h) (aligned_right _ _ Ha) He Hse Hce) as (Hn2 & Hvals2 & Hreads2).
            cbn [HistModel.interp HistModel.collect]. repeat split.
            -- destruct (interp st (checkc_go s e i h)); [|contradiction].
               destruct (interp st (checkc_go s e (i + pow2 h) h)); [discriminate|contradiction].
            -- intros p d Hi'. apply in_app_or in Hi'. destruct Hi' as [Hi'|Hi']; [apply Hvals|apply Hvals2]; exact Hi'.
            -- intros p Hi'. rewrite map_app. apply in_app_or in Hi'. apply in_or_app.
               destruct Hi' as [Hi'|Hi']; [left; apply Hreads|right; apply Hreads2]; exact Hi'.
        + apply orb_false_iff in Hin. destruct Hin as [_ Hine]. apply inr_false in Hine.
          assert (Hg : st (i, S h) = Some (node A e i (S h))).
          { apply (store_frozen A st vs Hst); [exact Ha|exact He|lia]. }
          cbn. rewrite Hg. repeat split; [discriminate| |].
          * intros p d [Hi'|[]]. injection Hi' as <- <-. reflexivity.
          * intros p [<-|[]]. left. reflexivity.
    Qed.

    Lemma sreads_in_ereads s e h : forall i p,
      s <= e -> inr s i h = true -> In p (sreads s i h) -> In p (ereads s e i h).
    Proof.
      induction h as [|h IH]; intros i p Hse Hin Hp.
      - cbn [ereads]. rewrite Hin. cbn [orb negb]. exact Hp.
      - pose proof (pow2_pos h) as Hpp. cbn [ereads]. rewrite Hin. cbn [orb negb].
        apply inr_true in Hin. rewrite pow2_S in Hin. cbn [sreads] in Hp.
        destruct (s <? i + pow2 h) eqn:Hs.
        + apply N.ltb_lt in Hs. apply in_or_app. left. apply IH; [exact Hse|apply inr_true; lia|exact Hp].
        + apply N.ltb_ge in Hs.
          destruct (e <? i + pow2 h) eqn:He; [apply N.ltb_lt in He; lia|].
          apply in_or_app. destruct Hp as [<-|Hp].
          * left. destruct h as [|h']; cbn [ereads].
            -- assert (Hn : inr s i 0 || inr e i 0 = false).
               { apply orb_false_iff. split; apply inr_false; rewrite pow2_0 in *; lia. }
               rewrite Hn. left. reflexivity.
            -- assert (Hn : inr s i (S h') || inr e i (S h') = false).
               { apply orb_false_iff. apply N.ltb_ge in He. split; apply inr_false; lia. }
               rewrite Hn. left. reflexivity.
          * right. apply IH; [exact Hse|apply inr_true; lia|exact Hp].
    Qed.

    (* the start tree (root height bitlen s) sits at the left spine of the end tree *)
    Lemma ereads_spine s e hs : forall h p,
      s <= e -> s < pow2 hs -> (hs <= h)%nat -> In p (ereads s e 0 hs) -> In p (ereads s e 0 h).
    Proof.
      induction h as [|h IH]; intros p Hse Hs Hle Hp.
      - assert (hs = O) by lia. subst hs. exact Hp.
      - destruct (Nat.eq_dec hs (S h)) as [->|Hne]; [exact Hp|].
        assert (Hle' : (hs <= h)%nat) by lia.
        assert (Hmono : pow2 hs <= pow2 h).
        { clear -Hle'. induction Hle' as [|m Hm IHm]; [lia|]. rewrite pow2_S. pose proof (pow2_pos m). lia. }
        cbn [ereads].
        assert (Hin : inr s 0 (S h) = true) by (apply inr_true; rewrite pow2_S; lia).
        rewrite Hin. cbn [orb negb]. apply in_or_app. left. apply IH; assumption.
    Qed.

    (* Balloon.QueryConsistency + IncrementalProof.Verify: both roots are recomputed *)
    Theorem incremental_complete s e :
      s <= e -> e <= vs ->
      exists path, prove_consistency D E V H st s e = Some path /\
                   incremental_roots D E V H (path_get path) s e = (Some (root A s), Some (root A e)).
    Proof.
      intros Hse He. unfold prove_consistency, incremental_roots, pruneToCheckConsistency,
        pruneToVerifyIncrementalStart, pruneToVerifyIncrementalEnd, HistSpec.root.
      destruct (checkc_collect s e (bitlen e) 0 (aligned_0 _) He Hse ltac:(lia)) as (Hn & Hvals & Hreads).
      destruct (interp st (checkc_go s e 0 (bitlen e))) as [d|]; [|contradiction].
      eexists. split; [reflexivity|].
      pose proof (bitlen_gt s) as Hgs. pose proof (bitlen_gt e) as Hge.
      assert (Hbl : (bitlen s <= bitlen e)%nat).
      { destruct (le_lt_dec (bitlen s) (bitlen e)) as [Hl|Hl]; [exact Hl|exfalso].
        destruct (N.eq_dec s 0) as [->|Hs0]; [cbn in Hl; lia|].
        pose proof (bitlen_le s ltac:(lia)) as Hls.
        assert (Hm : 2 * pow2 (bitlen e) <= pow2 (bitlen s)).
        { clear -Hl. induction Hl as [|m Hm IHm]; [rewrite pow2_S; lia|]. rewrite pow2_S. lia. }
        lia. }
      f_equal.
      - apply vstart_complete; [apply inr_true; lia|].
        intros p Hp.
        rewrite (path_get_good (nodeP A e)); [| exact Hvals |].
        + unfold nodeP. f_equal. pose proof (sreads_frozen s (bitlen s) 0 p ltac:(apply inr_true; lia) Hp).
          apply frozen_stable; lia.
        + apply Hreads. apply (ereads_spine s e (bitlen s)); [exact Hse|exact Hgs|exact Hbl|].
          apply sreads_in_ereads; [exact Hse|apply inr_true; lia|exact Hp].
      - apply vend_complete. intros p Hp.
        apply (path_get_good (nodeP A e)); [exact Hvals|apply Hreads; exact Hp].
    Qed.
  End IncrProver.

  (* ------------------------------------------------------------------ incremental proofs: soundness (C03) *)
  (* what an accepted proof pins down about the audit path along the path to leaf s *)
  Fixpoint Lefts (c : cache D) (A : N -> E) (s i : N) (h : nat) : Prop :=
    match h with
    | O => c (i, O) = Some (H (HLeaf (A i) i))
    | S h' => let ri := i + pow2 h' in
              if s <? ri then Lefts c A s i h'
              else c (i, h') = Some (fz A i h') /\ Lefts c A s ri h'
    end.

  Lemma lefts_agree (c : cache D) (A B : N -> E) s h : forall i,
    inr s i h = true -> Lefts c A s i h -> Lefts c B s i h ->
    forall k, i <= k -> k <= s -> A k = B k.
  Proof.
    induction h as [|h IH]; intros i Hin HA HB k Hk1 Hk2.
    - apply inr_true in Hin. rewrite pow2_0 in Hin. assert (k = i) by lia. subst k.
      cbn in HA, HB. rewrite HA in HB. injection HB as HB. apply H_inj in HB. injection HB as HB. exact HB.
    - pose proof (pow2_pos h) as Hp. apply inr_true in Hin. rewrite pow2_S in Hin.
      cbn [Lefts] in HA, HB. destruct (s <? i + pow2 h) eqn:Hs.
      + apply N.ltb_lt in Hs. apply (IH i); [apply inr_true; lia|exact HA|exact HB|lia|lia].
      + apply N.ltb_ge in Hs. destruct HA as [HA1 HA2]. destruct HB as [HB1 HB2].
        destruct (N.lt_ge_cases k (i + pow2 h)) as [Hlt|Hge].
        * rewrite HA1 in HB1. injection HB1 as HB1. unfold HistSpec.fz in HB1.
          apply node_inj in HB1; [|lia|lia]. destruct HB1 as [Hag _]. apply Hag; lia.
        * apply (IH (i + pow2 h)); [apply inr_true; lia|exact HA2|exact HB2|lia|lia].
  Qed.

  Lemma vstart_sound (A : N -> E) (c : cache D) s h : forall i v,
    inr s i h = true -> i <= v ->
    interp c (@vstart_go E s i h) = Some (node A v i h) ->
    N.min v (i + pow2 h - 1) = s /\ Lefts c A s i h.
  Proof.
    induction h as [|h IH]; intros i v Hin Hv Heq.
    - apply inr_true in Hin. rewrite pow2_0 in *. cbn in Heq |- *. split; [lia|].
      assert (s = i) by lia. subst s. exact Heq.
    - pose proof (pow2_pos h) as Hp. apply inr_true in Hin. rewrite pow2_S in *.
      cbn [vstart_go HistSpec.node Lefts] in *.
      destruct (s <? i + pow2 h) eqn:Hs.
      + apply N.ltb_lt in Hs. cbn [HistModel.interp] in Heq.
        destruct (interp c (vstart_go s i h)) as [lh|] eqn:Hl; try discriminate Heq.
        injection Heq as Heq. destruct (v <? i + pow2 h) eqn:Hc; apply H_inj in Heq; try discriminate Heq.
        injection Heq as Heq. subst lh. apply N.ltb_lt in Hc.
        destruct (IH i v ltac:(apply inr_true; lia) Hv Hl) as [Hm HL]. split; [lia|exact HL].
      + apply N.ltb_ge in Hs. cbn [HistModel.interp] in Heq.
        destruct (c (i, h)) as [lh|] eqn:Hg; try discriminate Heq.
        destruct (interp c (vstart_go s (i + pow2 h) h)) as [rh|] eqn:Hr; try discriminate Heq.
        injection Heq as Heq. destruct (v <? i + pow2 h) eqn:Hc; apply H_inj in Heq; try discriminate Heq.
        injection Heq as Hlh Hrh. subst lh rh. apply N.ltb_ge in Hc.
        destruct (IH (i + pow2 h) v ltac:(apply inr_true; lia) Hc Hr) as [Hm HL].
        split; [lia|]. split; [|exact HL]. f_equal. apply frozen_fz. lia.
  Qed.

  (* the end recomputation pins the claimed end version ... *)
  Lemma vend_version (B : N -> E) (c : cache D) s e h : forall i v,
    inr e i h = true -> i <= v ->
    interp c (@vend_go E s e i h) = Some (node B v i h) ->
    N.min v (i + pow2 h - 1) = e.
  Proof.
    induction h as [|h IH]; intros i v Hin Hv Heq.
    - apply inr_true in Hin. rewrite pow2_0 in *. lia.
    - pose proof (pow2_pos h) as Hp. cbn [vend_go] in Heq. rewrite Hin, orb_true_r in Heq. cbn [negb] in Heq.
      apply inr_true in Hin. rewrite pow2_S in *. cbn [HistSpec.node] in Heq.
      destruct (e <? i + pow2 h) eqn:He; cbn [HistModel.interp] in Heq;
        destruct (interp c (vend_go s e i h)) as [lh|] eqn:Hl; try discriminate Heq.
      + apply N.ltb_lt in He. injection Heq as Heq.
        destruct (v <? i + pow2 h) eqn:Hc; apply H_inj in Heq; try discriminate Heq.
        injection Heq as Heq. subst lh. apply N.ltb_lt in Hc.
        pose proof (IH i v ltac:(apply inr_true; lia) Hv Hl). lia.
      + apply N.ltb_ge in He.
        destruct (interp c (vend_go s e (i + pow2 h) h)) as [rh|] eqn:Hr; try discriminate Heq.
        injection Heq as Heq.
        destruct (v <? i + pow2 h) eqn:Hc; apply H_inj in Heq; try discriminate Heq.
        injection Heq as _ Hrh. subst rh. apply N.ltb_ge in Hc.
        pose proof (IH (i + pow2 h) v ltac:(apply inr_true; lia) Hc Hr). lia.
  Qed.

  (* ... and the path entries along the way to leaf s *)
  Lemma vend_lefts (B : N -> E) (c : cache D) s e h : forall i v,
    s <= e -> inr s i h = true -> i <= v ->
    interp c (@vend_go E s e i h) = Some (node B v i h) ->
    Lefts c B s i h.
  Proof.
    induction h as [|h IH]; intros i v Hse Hin Hv Heq.
    - cbn [vend_go] in Heq. rewrite Hin in Heq. cbn in Heq |- *.
      apply inr_true in Hin. rewrite pow2_0 in Hin. exact Heq.
    - pose proof (pow2_pos h) as Hp. cbn [vend_go] in Heq. rewrite Hin in Heq. cbn [orb negb] in Heq.
      apply inr_true in Hin. rewrite pow2_S in *. cbn [HistSpec.node Lefts] in *.
      destruct (e <? i + pow2 h) eqn:He; cbn [HistModel.interp] in Heq;
        destruct (interp c (vend_go s e i h)) as [lh|] eqn:Hl; try discriminate Heq.
      + apply N.ltb_lt in He. injection Heq as Heq.
        destruct (v <? i + pow2 h) eqn:Hc; apply H_inj in Heq; try discriminate Heq.
        injection Heq as Heq. subst lh.
        assert (Hs : (s <? i + pow2 h) = true) by (apply N.ltb_lt; lia). rewrite Hs.
        apply (IH i v); [exact Hse|apply inr_true; lia|exact Hv|exact Hl].
      + apply N.ltb_ge in He.
        destruct (interp c (vend_go s e (i + pow2 h) h)) as [rh|] eqn:Hr; try discriminate Heq.
        injection Heq as Heq.
        destruct (v <? i + pow2 h) eqn:Hc; apply H_inj in Heq; try discriminate Heq.
        injection Heq as Hlh Hrh. subst lh rh. apply N.ltb_ge in Hc.
        destruct (s <? i + pow2 h) eqn:Hs.
        * apply N.ltb_lt in Hs. apply (IH i v); [exact Hse|apply inr_true; lia|exact Hv|exact Hl].
        * apply N.ltb_ge in Hs. split.
          -- (* the left child holds neither s nor e: it is read from the path *)
             assert (Hn : inr s i h || inr e i h = false).
             { apply orb_false_iff. split; apply inr_false; lia. }
             destruct h as [|h']; cbn [vend_go] in Hl; rewrite Hn in Hl; cbn [negb HistModel.interp] in Hl;
               rewrite Hl; f_equal; apply frozen_fz; lia.
          -- apply (IH (i + pow2 h) v); [exact Hse|apply inr_true; lia|exact Hc|exact Hr].
  Qed.

  Lemma root_is_leaf (A : N -> E) v e i : root A v = H (HLeaf e i) -> v = 0.
  Proof.
    unfold HistSpec.root. destruct (bitlen v) as [|h] eqn:Hb; [intros _; apply bitlen_0; exact Hb|].
    cbn [HistSpec.node]. destruct (v <? _); intros Heq; apply H_inj in Heq; discriminate.
  Qed.

  Lemma vstart_go_shape s i h : (0 < h)%nat ->
    (exists i0 h0 l, @vstart_go E s i h = OPartial i0 h0 l) \/ (exists i0 h0 l r, @vstart_go E s i h = OInner i0 h0 l r).
  Proof. destruct h as [|h]; [lia|]. intros _. cbn [vstart_go]. destruct (s <? _); eauto 8. Qed.
  Lemma vstart_go_pos s i h : op_pos (@vstart_go E s i h) = (i, h).
  Proof. destruct h as [|h]; cbn [vstart_go]; [reflexivity|]. destruct (s <? _); reflexivity. Qed.
  Lemma vend_go_shape s e i h : (0 < h)%nat -> inr e i h = true ->
    (exists i0 h0 l, @vend_go E s e i h = OPartial i0 h0 l) \/ (exists i0 h0 l r, @vend_go E s e i h = OInner i0 h0 l r).
  Proof. destruct h as [|h]; [lia|]. intros _ Hin. cbn [vend_go]. rewrite Hin, orb_true_r. cbn [negb]. destruct (e <? _); eauto 8. Qed.
  Lemma vend_go_pos s e i h : op_pos (@vend_go E s e i h) = (i, h).
  Proof. destruct h as [|h]; cbn [vend_go]; destruct (negb _); try reflexivity. destruct (e <? _); reflexivity. Qed.

  (* IncrementalProof.Verify accepted against the authentic digest of log A at version i' and of log B at
     version j': the two logs agree on every event up to the claimed start version, and (except for the
     degenerate proof with end version 0, which reads both digests from the same path entry) the claimed
     versions are the authentic ones. *)
  Theorem incremental_sound (A B : N -> E) (c : cache D) s e i' j' :
    s <= e ->
    incremental_roots D E V H c s e = (Some (root A i'), Some (root B j')) ->
    (forall k, k <= s -> A k = B k) /\
    (0 < e -> s = i' /\ e = j') /\
    (e = 0 -> i' = j' /\ forall k, k <= i' -> A k = B k).
  Proof.
    unfold incremental_roots, pruneToVerifyIncrementalStart, pruneToVerifyIncrementalEnd.
    intros Hse Heq. injection Heq as Hs He.
    pose proof (bitlen_gt s) as Hgs. pose proof (bitlen_gt e) as Hge.
    destruct (N.eq_dec e 0) as [He0|He0].
    { (* degenerate: both recomputations just read path entry (0,0) *)
      subst e. assert (s = 0) by lia. subst s. change (bitlen 0) with O in Hs, He.
      cbn [vstart_go HistModel.interp] in Hs. cbn [vend_go] in He.
      assert (He' : root A i' = root B j').
      { destruct (negb _) in He; cbn [HistModel.interp] in He; rewrite Hs in He; injection He as He; exact He. }
      destruct (root_inj A B i' j' He') as [Hij Hag]. split; [|split].
      - intros k Hk. apply Hag. lia.
      - lia.
      - intros _. split; [exact Hij|exact Hag]. }
    assert (Hbe : (0 < bitlen e)%nat).
    { destruct (bitlen e) eqn:Hb; [apply bitlen_0 in Hb; lia|lia]. }
    (* end tree: authentic height, claimed end version, path entries along s *)
    assert (HhE : bitlen e = bitlen j').
    { pose proof (interp_root_height B c _ j' He) as Hh. rewrite vend_go_pos in Hh. cbn in Hh. apply Hh.
      destruct (vend_go_shape s e 0 (bitlen e) Hbe ltac:(apply inr_true; lia)) as [X|X]; [right; left|right; right]; exact X. }
    unfold HistSpec.root in He. rewrite <- HhE in He.
    pose proof (vend_version B c s e (bitlen e) 0 j' ltac:(apply inr_true; lia) ltac:(lia) He) as Hve.
    pose proof (vend_lefts B c s e (bitlen e) 0 j' Hse ltac:(apply inr_true; lia) ltac:(lia) He) as HLB.
    pose proof (bitlen_gt j') as Hgj. rewrite <- HhE in Hgj.
    assert (Hej : e = j') by lia.
    (* restrict the end-tree facts to the start tree's height *)
    assert (Hbl : (bitlen s <= bitlen e)%nat).
    { destruct (le_lt_dec (bitlen s) (bitlen e)) as [Hl|Hl]; [exact Hl|exfalso].
      destruct (N.eq_dec s 0) as [->|Hs0]; [cbn in Hl; lia|].
      pose proof (bitlen_le s ltac:(lia)) as Hls.
      assert (Hm : 2 * pow2 (bitlen e) <= pow2 (bitlen s)).
      { clear -Hl. induction Hl as [|m Hm IHm]; [rewrite pow2_S; lia|]. rewrite pow2_S. lia. }
      lia. }
    assert (HLBs : Lefts c B s 0 (bitlen s)).
    { clear -HLB Hbl Hgs. revert Hbl HLB. generalize (bitlen e) as he.
      induction he as [|he IH]; intros Hbl HLB.
      - assert (Hz : bitlen s = O) by lia. rewrite Hz. exact HLB.
      - destruct (Nat.eq_dec (bitlen s) (S he)) as [Heq|Hne]; [rewrite Heq; exact HLB|].
        apply IH; [lia|]. cbn [Lefts] in HLB.
        assert (Hmono : pow2 (bitlen s) <= pow2 he).
        { assert (Hle' : (bitlen s <= he)%nat) by lia. clear -Hle'.
          induction Hle' as [|m Hm IHm]; [lia|]. rewrite pow2_S. pose proof (pow2_pos m). lia. }
        assert (Hs : (s <? 0 + pow2 he) = true) by (apply N.ltb_lt; lia). rewrite Hs in HLB. exact HLB. }
    destruct (bitlen s) as [|hs] eqn:Hbs.
    - (* s = 0: the start digest is read from path entry (0,0), which the end tree pins to leaf 0 of B *)
      apply bitlen_0 in Hbs. subst s. cbn in Hs, HLBs. rewrite Hs in HLBs. injection HLBs as HLBs.
      pose proof (root_is_leaf A i' _ _ HLBs) as Hi0. subst i'.
      unfold HistSpec.root in HLBs. cbn in HLBs. apply H_inj in HLBs. injection HLBs as HLBs.
      repeat split; try lia.
      intros k Hk. assert (k = 0) by lia. subst k. exact HLBs.
    - assert (HhS : S hs = bitlen i').
      { pose proof (interp_root_height A c _ i' Hs) as Hh. rewrite vstart_go_pos in Hh. cbn in Hh. apply Hh.
        destruct (vstart_go_shape s 0 (S hs) ltac:(lia)) as [X|X]; [right; left|right; right]; exact X. }
      unfold HistSpec.root in Hs. rewrite <- HhS in Hs.
      destruct (vstart_sound A c s (S hs) 0 i' ltac:(apply inr_true; lia) ltac:(lia) Hs) as [Hvs HLA].
      pose proof (bitlen_gt i') as Hgi. rewrite <- HhS in Hgi.
      assert (Hsi : s = i') by lia.
      repeat split; try lia.
      intros k Hk. apply (lefts_agree c A B s (S hs) 0); [apply inr_true; lia|exact HLA|exact HLBs|lia|exact Hk].
  Qed.

  (* every entry the end recomputation reads is pinned by the authentic end digest *)
  Lemma vend_unique (A : N -> E) (c : cache D) s e h : forall i,
    i <= e ->
    interp c (@vend_go E s e i h) = Some (node A e i h) ->
    forall p, In p (ereads s e i h) -> c p = Some (nodeP A e p).
  Proof.
    induction h as [|h IH]; intros i Hi Heq p Hp.
    - cbn [vend_go ereads] in *. destruct (negb _); cbn in Heq; destruct Hp as [<-|[]]; exact Heq.
    - pose proof (pow2_pos h) as Hpp. cbn [vend_go ereads] in *. destruct (negb _).
      + destruct Hp as [<-|[]]. exact Heq.
      + cbn [HistSpec.node] in Heq.
        destruct (e <? i + pow2 h) eqn:He; cbn [HistModel.interp] in Heq;
          destruct (interp c (vend_go s e i h)) as [lh|] eqn:Hl; try discriminate Heq.
        * injection Heq as Heq. apply H_inj in Heq. injection Heq as Heq. subst lh.
          rewrite app_nil_r in Hp. apply (IH i); [exact Hi|exact Hl|exact Hp].
        * destruct (interp c (vend_go s e (i + pow2 h) h)) as [rh|] eqn:Hr; try discriminate Heq.
          injection Heq as Heq. apply H_inj in Heq. injection Heq as Hlh Hrh. subst lh rh.
          apply N.ltb_ge in He. apply in_app_or in Hp. destruct Hp as [Hp|Hp].
          -- apply (IH i); [exact Hi|exact Hl|exact Hp].
          -- apply (IH (i + pow2 h)); [exact He|exact Hr|exact Hp].
  Qed.

  Lemma checkc_keys_read (st : cache D) s e h : forall i p d,
    In (p, d) (collect st (@checkc_go E s e i h)) -> In p (ereads s e i h).
  Proof.
    induction h as [|h IH]; intros i p d Hin.
    - cbn [checkc_go ereads] in *. destruct (negb _); cbn in Hin; destruct (st (i, O)); cbn in Hin;
        try contradiction; destruct Hin as [Hin|[]]; injection Hin as <- _; left; reflexivity.
    - cbn [checkc_go ereads] in *. destruct (negb _).
      + cbn in Hin. destruct (st (i, S h)); cbn in Hin; try contradiction.
        destruct Hin as [Hin|[]]. injection Hin as <- _. left. reflexivity.
      + destruct (e <? i + pow2 h); cbn [HistModel.collect] in Hin.
        * rewrite app_nil_r. apply (IH i p d). exact Hin.
        * apply in_app_or in Hin. apply in_or_app. destruct Hin as [Hin|Hin]; [left; apply (IH i p d)|right; apply (IH (i + pow2 h) p d)]; exact Hin.
  Qed.

  (* Altering any entry of a genuine incremental proof makes verification fail: whatever else the altered
     path c' contains, if it disagrees with the genuine path on one of its entries the recomputed end root
     is not the authentic one. *)
  Theorem incremental_reject_altered_entry (A : N -> E) (st : cache D) vs s e path :
    StoreOK A st vs -> s <= e -> e <= vs ->
    prove_consistency D E V H st s e = Some path ->
    forall k d (c' : cache D), In (k, d) path -> c' k <> Some d ->
    incremental_roots D E V H c' s e <> (Some (root A s), Some (root A e)).
  Proof.
    intros Hst Hse He Hpath k d c' Hin Hne Hacc.
    unfold prove_consistency, pruneToCheckConsistency in Hpath.
    destruct (checkc_collect A st vs Hst s e (bitlen e) 0 (aligned_0 _) He Hse ltac:(lia)) as (_ & Hvals & _).
    destruct (interp st (checkc_go s e 0 (bitlen e))); [|discriminate]. injection Hpath as <-.
    unfold incremental_roots, pruneToVerifyIncrementalEnd in Hacc. injection Hacc as _ Hend.
    apply Hne. rewrite (Hvals k d Hin).
    apply (vend_unique A c' s e (bitlen e) 0 ltac:(lia) Hend).
    apply (checkc_keys_read st s e (bitlen e) 0 k d Hin).
  Qed.

  (* ------------------------------------------------------------------ insertion (C04 history half, C05) *)
  (* g is what the insert visitor reads: LRU write cache over the store *)
  Definition GetOK (A : N -> E) (g : cache D) (v : N) : Prop :=
    forall i h, aligned i h -> i + pow2 h <= v -> g (i, h) = Some (fz A i h).

  Notation interp_ins := (interp_ins D E V H).

  Definition NewOK (A : N -> E) (v : N) (l : list (pos * D)) : Prop :=
    forall p d, In (p, d) l -> d = fz A (fst p) (snd p) /\ aligned (fst p) (snd p) /\ fst p + pow2 (snd p) = v + 1.

  (* One insertion: the traversal of the subtree (i,h) containing v returns the spec hash, puts/mutates
     exactly the nodes that become complete at v, each with its frozen hash. *)
  Lemma insert_correct (A : N -> E) (base : cache D) v h : forall i puts muts,
    aligned i h -> inr v i h = true ->
    GetOK A (ins_get base puts) v ->
    exists newp,
      interp_ins base (@insert_go E v (A v) i h) (puts, muts) = Some (node A v i h, (newp ++ puts, newp ++ muts)) /\
      NewOK A v newp /\
      (forall j k, aligned j k -> j + pow2 k = v + 1 -> i <= j -> (k <= h)%nat -> In (j, k) (map fst newp)).
  Proof.
    induction h as [|h IH]; intros i puts muts Ha Hin Hg.
    - apply inr_true in Hin. rewrite pow2_0 in Hin. assert (i = v) by lia. subst i.
      cbn [insert_go HistModel.interp_ins op_pos hleaf HistSpec.node].
      exists [((v, O), H (HLeaf (A v) v))]. split; [reflexivity|]. split.
      + intros p d [Hp|[]]. injection Hp as <- <-. cbn [fst snd]. unfold HistSpec.fz. rewrite pow2_0.
        replace (v + 1 - 1) with v by lia. cbn [HistSpec.node]. split; [reflexivity|split; [exact Ha|lia]].
      + intros j k _ Hjk Hj Hk. assert (k = O) by lia. subst k. rewrite pow2_0 in Hjk. assert (j = v) by lia. subst j.
        left. reflexivity.
    - pose proof (pow2_pos h) as Hp. apply inr_true in Hin. rewrite pow2_S in Hin.
      cbn [insert_go HistSpec.node].
      destruct (v <? i + pow2 h) eqn:Hc.
      + apply N.ltb_lt in Hc.
        destruct (IH i puts muts (aligned_left _ _ Ha) ltac:(apply inr_true; lia) Hg) as (newp & Hrun & Hnew & Hcov).
        cbn [HistModel.interp_ins]. rewrite Hrun. exists newp. split; [reflexivity|]. split; [exact Hnew|].
        intros j k Haj Hjk Hj Hk. destruct (Nat.eq_dec k (S h)) as [->|Hne]; [|apply Hcov; [exact Haj|exact Hjk|exact Hj|lia]].
        exfalso. destruct Ha as [a ->]. destruct Haj as [b ->]. rewrite pow2_S in *. nia.
      + apply N.ltb_ge in Hc.
        assert (Hgl : ins_get base puts (i, h) = Some (fz A i h)).
        { apply Hg; [apply aligned_left; exact Ha|lia]. }
        destruct (IH (i + pow2 h) puts muts (aligned_right _ _ Ha) ltac:(apply inr_true; lia) Hg) as (newp & Hrun & Hnew & Hcov).
        assert (Hlv : fz A i h = node A v i h) by (symmetry; apply frozen_fz; lia).
        destruct (i + pow2 (S h) - 1 <=? v) eqn:Hfr.
        * apply N.leb_le in Hfr. rewrite pow2_S in Hfr.
          cbn [HistModel.interp_ins op_pos]. unfold ins_get in Hgl. cbn [fst]. unfold ins_get. rewrite Hgl.
          rewrite Hrun. rewrite Hlv.
          exists (((i, S h), H (HFull (node A v i h) (node A v (i + pow2 h) h) i (S h))) :: newp).
          split; [reflexivity|]. split.
          -- intros p d [Hpd|Hpd]; [|apply Hnew; exact Hpd]. injection Hpd as <- <-. cbn [fst snd].
             rewrite pow2_S. split; [|split; [exact Ha|lia]].
             unfold HistSpec.fz. cbn [HistSpec.node]. rewrite pow2_S.
             replace (i + 2 * pow2 h - 1 <? i + pow2 h) with false by (symmetry; apply N.ltb_ge; lia).
             f_equal. f_equal; apply frozen_stable; lia.
          -- intros j k Haj Hjk Hj Hk. destruct (Nat.eq_dec k (S h)) as [->|Hne].
             ++ left. cbn [fst]. f_equal. destruct Ha as [a ->]. destruct Haj as [b ->]. rewrite pow2_S in *. nia.
             ++ right. apply Hcov; [exact Haj|exact Hjk| |lia].
                (* a node of height <= h completing at v lies in the right half *)
                destruct (N.lt_ge_cases j (i + pow2 h)) as [Hlt|Hge]; [exfalso|exact Hge].
                pose proof (aligned_step j k (i + pow2 h) h Haj (aligned_right _ _ Ha) ltac:(lia) Hlt). lia.
        * apply N.leb_gt in Hfr. rewrite pow2_S in Hfr.
          cbn [HistModel.interp_ins op_pos]. unfold ins_get in Hgl. cbn [fst]. unfold ins_get. rewrite Hgl.
          rewrite Hrun. rewrite Hlv.
          exists newp. split; [reflexivity|]. split; [exact Hnew|].
          intros j k Haj Hjk Hj Hk. destruct (Nat.eq_dec k (S h)) as [->|Hne].
          -- exfalso. destruct Ha as [a ->]. destruct Haj as [b ->]. rewrite pow2_S in *. nia.
          -- apply Hcov; [exact Haj|exact Hjk| |lia].
             destruct (N.lt_ge_cases j (i + pow2 h)) as [Hlt|Hge]; [exfalso|exact Hge].
             pose proof (aligned_step j k (i + pow2 h) h Haj (aligned_right _ _ Ha) ltac:(lia) Hlt). lia.
  Qed.

  Lemma pow2_mono k h : (k <= h)%nat -> pow2 k <= pow2 h.
  Proof. intros Hkh. induction Hkh as [|m Hm IHm]; [lia|]. rewrite pow2_S. pose proof (pow2_pos m). lia. Qed.

  Lemma pow2_le_inv k h : pow2 k <= pow2 h -> (k <= h)%nat.
  Proof.
    intros Hle. destruct (le_lt_dec k h) as [Hl|Hl]; [exact Hl|exfalso].
    pose proof (pow2_mono (S h) k Hl) as Hm. rewrite pow2_S in Hm. pose proof (pow2_pos h). lia.
  Qed.

  Lemma getok_extend (A : N -> E) (base : cache D) puts newp v :
    GetOK A (ins_get base puts) v -> NewOK A v newp ->
    (forall j k, aligned j k -> j + pow2 k = v + 1 -> In (j, k) (map fst newp)) ->
    GetOK A (ins_get base (newp ++ puts)) (v + 1).
  Proof.
    intros Hg Hnew Hcov j k Haj Hjk. unfold ins_get. rewrite assoc_app.
    destruct (assoc pos_eqb (j, k) newp) as [d|] eqn:Has.
    - apply assoc_in in Has. destruct (Hnew _ _ Has) as [-> _]. reflexivity.
    - apply assoc_none_inv in Has.
      assert (Hlt : j + pow2 k <= v).
      { destruct (N.eq_dec (j + pow2 k) (v + 1)) as [Heq|Hne]; [|lia]. exfalso. apply Has. apply Hcov; assumption. }
      exact (Hg j k Haj Hlt).
  Qed.

  (* HistoryTree.Add for version v on a store/write cache holding every node completed before v:
     returns the canonical root, and the write cache + mutations now hold every node completed up to v *)
  Theorem insert_root (A : N -> E) (base : cache D) v puts muts :
    GetOK A (ins_get base puts) v ->
    exists newp,
      interp_ins base (pruneToInsert v (A v)) (puts, muts) = Some (root A v, (newp ++ puts, newp ++ muts)) /\
      NewOK A v newp /\ GetOK A (ins_get base (newp ++ puts)) (v + 1).
  Proof.
    intros Hg. unfold pruneToInsert, HistSpec.root. pose proof (bitlen_gt v) as Hgt.
    destruct (insert_correct A base v (bitlen v) 0 puts muts (aligned_0 _) ltac:(apply inr_true; lia) Hg)
      as (newp & Hrun & Hnew & Hcov).
    exists newp. split; [exact Hrun|]. split; [exact Hnew|].
    apply getok_extend; [exact Hg|exact Hnew|].
    intros j k Haj Hjk. apply Hcov; [exact Haj|exact Hjk|lia|].
    apply pow2_le_inv. lia.
  Qed.

  (* HistoryTree.AddBulk / any sequence of Adds: the k-th digest is root (v+k), whatever the grouping *)
  Theorem bulk_correct (A : N -> E) (base : cache D) n : forall v puts muts,
    GetOK A (ins_get base puts) v ->
    exists newp,
      bulk_go D E V H base (map A (map (fun k => v + N.of_nat k) (seq 0 n))) v (puts, muts)
        = Some (map (fun k => root A (v + N.of_nat k)) (seq 0 n), (newp ++ puts, newp ++ muts)) /\
      (forall p d, In (p, d) newp -> d = fz A (fst p) (snd p)) /\
      GetOK A (ins_get base (newp ++ puts)) (v + N.of_nat n).
  Proof.
    induction n as [|n IH]; intros v puts muts Hg.
    - exists []. cbn. split; [reflexivity|]. split; [intros ? ? []|]. rewrite N.add_0_r. exact Hg.
    - cbn [seq map bulk_go]. rewrite N.add_0_r.
      destruct (insert_root A base v puts muts Hg) as (np1 & Hrun1 & Hnew1 & Hg1).
      rewrite Hrun1.
      destruct (IH (v + 1) (np1 ++ puts) (np1 ++ muts) Hg1) as (np2 & Hrun2 & Hnew2 & Hg2).
      rewrite <- seq_shift, !map_map.
      assert (Hm1 : map (fun x => A (v + N.of_nat (S x))) (seq 0 n) = map A (map (fun k => v + 1 + N.of_nat k) (seq 0 n))).
      { rewrite map_map. apply map_ext. intros a. f_equal. lia. }
      assert (Hm2 : map (fun x => root A (v + N.of_nat (S x))) (seq 0 n) = map (fun k => root A (v + 1 + N.of_nat k)) (seq 0 n)).
      { apply map_ext. intros a. f_equal. lia. }
      rewrite Hm1, Hrun2, Hm2.
      exists (np2 ++ np1). rewrite <- !app_assoc. split; [reflexivity|]. split.
      + intros p d Hin. apply in_app_or in Hin. destruct Hin as [Hin|Hin]; [apply Hnew2; exact Hin|apply (Hnew1 p d Hin)].
      + replace (v + N.of_nat (S n)) with (v + 1 + N.of_nat n) by lia. exact Hg2.
  Qed.
End Proofs.
