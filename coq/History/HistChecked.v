(* The length check of the history verifier (fix 10a81c4 in /repo): an audit-path entry that is not a digest of the
   hasher's length is treated as missing.  Model: [HistModel.checked okD] wraps the verifier's lookup.  Here:
   - the check done at lookup time equals dropping the offending entries from the decoded path once ([wf_path]),
     for paths without duplicate keys (an audit path is a Go map);
   - every entry the checked verifier reads satisfies okD;
   - the verification theorems, which quantify over EVERY audit path, hold in particular for checked ones. *)
From Coq Require Import List NArith Lia.
From QV Require Import Base.Util Base.HashSig Base.Layout History.HistModel.
Import ListNotations.

Section Checked.
  Variable D : Type.
  Variable okD : D -> bool.

  Lemma pos_eqb_eq (a b : pos) : pos_eqb a b = true -> a = b.
  Proof.
    destruct a as [i h], b as [j g]. unfold pos_eqb. cbn [fst snd]. intros Hb.
    apply andb_prop in Hb. destruct Hb as [H1 H2].
    apply N.eqb_eq in H1. apply PeanoNat.Nat.eqb_eq in H2. subst. reflexivity.
  Qed.

  Lemma assoc_notin (k : pos) (l : list (pos * D)) : ~ In k (map fst l) -> assoc pos_eqb k l = None.
  Proof.
    induction l as [|[k' v] r IH]; intros Hn; cbn [assoc]; [reflexivity|].
    destruct (pos_eqb k k') eqn:Hk.
    - exfalso. apply Hn. left. symmetry. apply pos_eqb_eq. exact Hk.
    - apply IH. intros Hin. apply Hn. right. exact Hin.
  Qed.

  Lemma filter_keys_incl (l : list (pos * D)) k :
    In k (map fst (filter (fun kv => okD (snd kv)) l)) -> In k (map fst l).
  Proof.
    induction l as [|[k' v] r IH]; cbn [filter map]; [tauto|].
    cbn [snd]. destruct (okD v); cbn [map fst In].
    - intros [Hx|Hx]; auto.
    - intros Hx. right. apply IH. exact Hx.
  Qed.

  Lemma checked_assoc (l : list (pos * D)) : NoDup (map fst l) ->
    forall k, match assoc pos_eqb k l with Some d => if okD d then Some d else None | None => None end
              = assoc pos_eqb k (filter (fun kv => okD (snd kv)) l).
  Proof.
    induction l as [|[k' v] r IH]; intros Hnd k; cbn [assoc filter]; [reflexivity|].
    cbn [map fst] in Hnd. inversion Hnd as [|x xs Hnotin Hnd']; subst.
    cbn [snd]. destruct (pos_eqb k k') eqn:Hk.
    - destruct (okD v) eqn:Hv.
      + cbn [assoc]. rewrite Hk. reflexivity.
      + symmetry. apply assoc_notin. apply pos_eqb_eq in Hk. subst k'.
        intros Hin. apply Hnotin. apply filter_keys_incl in Hin. exact Hin.
    - destruct (okD v); [cbn [assoc]; rewrite Hk|]; apply IH; exact Hnd'.
  Qed.

  Lemma filter_rev' {A} (f : A -> bool) (l : list A) : filter f (rev l) = rev (filter f l).
  Proof.
    induction l as [|x r IH]; [reflexivity|]. cbn [rev filter]. rewrite filter_app, IH. cbn [filter].
    destruct (f x); [reflexivity|]. cbn [rev]. rewrite app_nil_r. reflexivity.
  Qed.

  (* the check at lookup time = the offending entries dropped once from the decoded path *)
  Theorem checked_is_wf_path (p : list (pos * D)) : NoDup (map fst p) ->
    forall k, checked okD (path_get p) k = path_get (wf_path okD p) k.
  Proof.
    intros Hnd k. unfold checked, path_get, wf_path. rewrite <- filter_rev'.
    apply checked_assoc. rewrite map_rev. apply NoDup_rev. exact Hnd.
  Qed.

  (* whatever the checked verifier reads is a digest of the right length *)
  Theorem checked_ok (c : cache D) k d : checked okD c k = Some d -> okD d = true /\ c k = Some d.
  Proof.
    unfold checked. destruct (c k) as [d'|]; [|discriminate]. destruct (okD d') eqn:Hok; [|discriminate].
    intros Heq. injection Heq as <-. split; [exact Hok|reflexivity].
  Qed.

  (* an entry of the wrong length is no entry: the verifier cannot tell it from a withheld one *)
  Theorem checked_bad_is_missing (c : cache D) k d : c k = Some d -> okD d = false -> checked okD c k = None.
  Proof. unfold checked. intros -> ->. reflexivity. Qed.
End Checked.

(* Why the check is needed: an inner node whose two children both come from the audit path is hashed as
   left ‖ right ‖ position, so bytes moved from one entry to the other leave the hash input unchanged. *)
Lemma enc_shift (B : Type) (byte : N -> B) (a b : list B) (x : B) i h :
  encG B byte (HFull (a ++ [x]) b i h) = encG B byte (HFull a (x :: b) i h).
Proof. cbn [encG]. rewrite <- app_assoc. reflexivity. Qed.

(* hence ANY hash function of the bytes gives the two inputs one digest *)
Lemma hash_shift (B : Type) (byte : N -> B) (Hb : list B -> list B) (a b : list B) (x : B) i h :
  Hb (encG B byte (HFull (a ++ [x]) b i h)) = Hb (encG B byte (HFull a (x :: b) i h)).
Proof. rewrite enc_shift. reflexivity. Qed.


(* ------------------------------------------------------------------------------------------------------------------
   What the length check buys: every hash input the checked verifier forms has children that satisfy okD, provided
   the hash function's own outputs do (for SHA-256: 32 bytes, Base/Sha256Len.v).  [inputs c o] lists the hash inputs
   formed while [interp c o] runs; [interp_inputs] shows it is the same computation. *)
Section Inputs.
  Variables D E V : Type.
  Variable H : hin D E V -> D.
  Variable okD : D -> bool.
  Notation interp := (interp D E V H).

  Fixpoint interp_tr (c : cache D) (o : op E) : option (D * list (hin D E V)) :=
    match o with
    | OLeaf i v => let x := match v with Some e => HLeaf e i | None => HBare i O end in Some (H x, [x])
    | OInner i h l r =>
        match interp_tr c l with
        | None => None
        | Some (lh, tl) =>
            match interp_tr c r with
            | None => None
            | Some (rh, tr) => Some (H (HFull lh rh i h), tl ++ tr ++ [HFull lh rh i h])
            end
        end
    | OPartial i h l =>
        match interp_tr c l with
        | None => None
        | Some (lh, tl) => Some (H (HPart lh i h), tl ++ [HPart lh i h])
        end
    | OGet i h => match c (i, h) with Some d => Some (d, []) | None => None end
    | OPut o | OMutate o | OCollect o => interp_tr c o
    end.

  (* the traced interpreter computes what the interpreter computes *)
  Lemma interp_tr_fst (c : cache D) (o : op E) : option_map fst (interp_tr c o) = interp c o.
  Proof.
    induction o as [i v|i h l IHl r IHr|i h l IHl|i h|o IH|o IH|o IH]; cbn [interp_tr HistModel.interp].
    - destruct v; reflexivity.
    - rewrite <- IHl, <- IHr. destruct (interp_tr c l) as [[lh tl]|]; cbn [option_map fst]; [|reflexivity].
      destruct (interp_tr c r) as [[rh tr]|]; reflexivity.
    - rewrite <- IHl. destruct (interp_tr c l) as [[lh tl]|]; reflexivity.
    - destruct (c (i, h)); reflexivity.
    - exact IH.
    - exact IH.
    - exact IH.
  Qed.

  Definition wf_children (x : hin D E V) : bool :=
    match x with
    | HPart l _ _ => okD l
    | HFull l r _ _ => okD l && okD r
    | _ => true
    end.

  Hypothesis H_ok : forall x, okD (H x) = true.

  Theorem checked_inputs_wf (c : cache D) (o : op E) r tr :
    interp_tr (checked okD c) o = Some (r, tr) ->
    okD r = true /\ Forall (fun x => wf_children x = true) tr.
  Proof.
    revert r tr.
    induction o as [i v|i h l IHl rr IHr|i h l IHl|i h|o IH|o IH|o IH]; intros r tr Heq; cbn [interp_tr] in Heq.
    - injection Heq as <- <-. split; [apply H_ok|]. constructor; [destruct v; reflexivity|constructor].
    - destruct (interp_tr (checked okD c) l) as [[lh tl]|]; [|discriminate].
      destruct (interp_tr (checked okD c) rr) as [[rh tr']|]; [|discriminate].
      injection Heq as <- <-.
      destruct (IHl lh tl eq_refl) as [Hl Htl]. destruct (IHr rh tr' eq_refl) as [Hr Htr].
      split; [apply H_ok|].
      apply Forall_app. split; [exact Htl|]. apply Forall_app. split; [exact Htr|].
      constructor; [cbn [wf_children]; rewrite Hl, Hr; reflexivity|constructor].
    - destruct (interp_tr (checked okD c) l) as [[lh tl]|]; [|discriminate].
      injection Heq as <- <-. destruct (IHl lh tl eq_refl) as [Hl Htl].
      split; [apply H_ok|]. apply Forall_app. split; [exact Htl|].
      constructor; [cbn [wf_children]; exact Hl|constructor].
    - destruct (checked okD c (i, h)) as [d|] eqn:Hc; [|discriminate]. injection Heq as <- <-.
      split; [exact (proj1 (checked_ok D okD c (i, h) d Hc))|constructor].
    - exact (IH r tr Heq).
    - exact (IH r tr Heq).
    - exact (IH r tr Heq).
  Qed.
End Inputs.
