(* Byte level: what the missing length check of the pinned history verifier meant (defect repaired by fix 10a81c4).
   An inner node whose two children BOTH come from the audit path (the sibling leaves next to an odd start version of
   an incremental proof) is hashed as  left ‖ right ‖ position : moving bytes from one entry to the other leaves the
   hashed bytes - hence both recomputed roots - unchanged.
   - [enc_shift]: the two hash inputs have the same bytes, for every byte type and every hash function;
   - [unchecked_lengths_accept_altered]: on a concrete two-event log, at the SHA-256 instance the correspondence runs
     execute, the verifier of the pinned commit (entries hashed as given) ACCEPTS the genuine proof for (1,1) with its
     two entries altered to 31 and 33 bytes; the verifier with the length check rejects it.  This is the failing input
     that was replayed on the Go code (DESIGN 7.1).
   The statement it refutes for the pinned verifier is C03_reject_altered_entry at byte level: the premise H_inj of that
   theorem is exactly what fails here (two different inputs, one byte string - not a collision of SHA-256). *)
From Coq Require Import Uint63 ZArith List FMapPositive.
From QV Require Import Base.Util Base.HashSig Base.Layout Base.Sha256 Base.ShaInst History.HistModel History.HistChecked Run.HistRun.
Import ListNotations.

Definition evs2 : list bytes := [sha256 [1%uint63]; sha256 [2%uint63]].
Definition lens (p : list (pos * bytes)) : list nat := map (fun kv => length (snd kv)) p.

Fixpoint nats_eqb (a b : list nat) : bool :=
  match a, b with
  | [], [] => true
  | x :: a', y :: b' => Nat.eqb x y && nats_eqb a' b'
  | _, _ => false
  end.

(* the whole scenario as one closed boolean, evaluated by the kernel *)
Definition shift_scenario : bool :=
  match add_all (PositiveMap.empty bytes) 0 evs2 with
  | Some (s, [r0; r1]) =>
      match prove_consistency bytes bytes bytes Hsha (hget s) 1 1 with
      | Some path =>
          let path' := alt_path (AltShift 0) path in
          nats_eqb (lens (canon path)) [32; 32]%nat &&       (* the genuine proof: two 32-byte entries ... *)
          nats_eqb (lens path') [31; 33]%nat &&               (* ... altered to 31 and 33 bytes *)
          (verdict_incr path 1 1 r1 r1 =? 0)%N &&             (* the genuine proof is accepted by both verifiers *)
          (verdict_incr_unchecked path 1 1 r1 r1 =? 0)%N &&
          (verdict_incr_unchecked path' 1 1 r1 r1 =? 0)%N &&  (* the altered proof is ACCEPTED by the pinned verifier *)
          (verdict_incr path' 1 1 r1 r1 =? 1)%N               (* and rejected once entry lengths are checked *)
      | None => false
      end
  | _ => false
  end.

Theorem unchecked_lengths_accept_altered : shift_scenario = true.
Proof. vm_compute. reflexivity. Qed.

(* With the length check, at the SHA-256 instance the correspondence runs execute: every digest the verifier returns and
   every child of every inner or partial node it hashes has exactly 32 bytes - for EVERY audit path the server sends and
   every pruned tree.  (Structural: Base/Sha256Len.sha256_length; nothing is evaluated.) *)
From QV Require Import Base.Sha256Len.

Lemma Hsha_len32 (x : hin bytes bytes bytes) : len32 (Hsha x) = true.
Proof. unfold len32, Hsha. rewrite sha256_length. reflexivity. Qed.

Theorem checked_sha_inputs_wf (c : cache bytes) (o : op bytes) r tr :
  interp_tr bytes bytes bytes Hsha (checked len32 c) o = Some (r, tr) ->
  len32 r = true /\ Forall (fun x => wf_children bytes bytes bytes len32 x = true) tr.
Proof. exact (checked_inputs_wf bytes bytes bytes Hsha len32 Hsha_len32 c o r tr). Qed.
