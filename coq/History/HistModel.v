(* Executable mirror of balloon/history: position arithmetic, the seven pruning functions
   (insert.go, search.go, consistency.go, verify.go), the three visitors (compute_visitor.go,
   audit_visitor.go, insert_visitor.go) and the proof objects' Verify (proof.go).
   No proofs here. *)
From QV Require Import Base.Util Base.HashSig.

Section HistModel.
  Variables D E V : Type.
  Variable H : hin D E V -> D.

  Definition pos := (N * nat)%type.
  Definition pos_eqb (a b : pos) : bool := (fst a =? fst b) && Nat.eqb (snd a) (snd b).

  Inductive op : Type :=
  | OLeaf (i : N) (v : option E)
  | OInner (i : N) (h : nat) (l r : op)
  | OPartial (i : N) (h : nat) (l : op)
  | OGet (i : N) (h : nat)
  | OPut (o : op)
  | OMutate (o : op)
  | OCollect (o : op).

  Fixpoint op_pos (o : op) : pos :=
    match o with
    | OLeaf i _ => (i, O)
    | OInner i h _ _ | OPartial i h _ | OGet i h => (i, h)
    | OPut o | OMutate o | OCollect o => op_pos o
    end.

  (* ---- insert.go ---- *)
  Fixpoint insert_go (version : N) (e : E) (i : N) (h : nat) : op :=
    match h with
    | O => OMutate (OPut (OLeaf i (Some e)))
    | S h' =>
        let ri := i + pow2 h' in
        if version <? ri then OPartial i h (insert_go version e i h')
        else
          let l := OGet i h' in
          let r := insert_go version e ri h' in
          if i + pow2 h - 1 <=? version then OMutate (OPut (OInner i h l r)) else OInner i h l r
    end.
  Definition pruneToInsert (version : N) (e : E) : op := insert_go version e 0 (bitlen version).

  (* ---- search.go ---- *)
  Fixpoint find_go (version : N) (i : N) (h : nat) : op :=
    match h with
    | O => OLeaf i None
    | S h' =>
        let ri := i + pow2 h' in
        if version <? ri
        then OPartial i h (find_go version i h')      (* right = collect(get) is built but dropped: partial *)
        else OInner i h (OCollect (OGet i h')) (find_go version ri h')
    end.
  Definition pruneToFind (version : N) : op := find_go version 0 (bitlen version).

  (* ---- consistency.go ----
     The Go code threads a sorted `targets` list, a subset of {index, version} (resp. {start, end}),
     split at every node; `len(targets) == 0` is "neither target lies in this subtree" etc.  The
     model states those tests as range tests. *)
  Definition inr (x i : N) (h : nat) : bool := (i <=? x) && (x <? i + pow2 h).

  (* traverse with shortcut = true (only entered with index outside the subtree) *)
  Fixpoint findc_short (index version : N) (i : N) (h : nat) : op :=
    if negb (inr index i h || inr version i h) then OGet i h else
    match h with
    | O => if i =? index then OLeaf i None else OGet i h
    | S h' =>
        let ri := i + pow2 h' in
        let left := findc_short index version i h' in
        if version <? ri then OPartial i h left
        else OInner i h left (findc_short index version ri h')
    end.

  Fixpoint findc_go (index version : N) (i : N) (h : nat) : op :=
    if negb (inr index i h || inr version i h) then OCollect (OGet i h) else
    match h with
    | O => if i =? index then OLeaf i None else OCollect (OGet i h)
    | S h' =>
        if negb (inr index i h) && negb (index =? version)
        then OCollect (findc_short index version i h)
        else
          let ri := i + pow2 h' in
          let left := findc_go index version i h' in
          if version <? ri then OPartial i h left
          else OInner i h left (findc_go index version ri h')
    end.
  Definition pruneToFindConsistent (index version : N) : op :=
    findc_go index version 0 (bitlen version).

  Fixpoint checkc_go (start end_ : N) (i : N) (h : nat) : op :=
    if negb (inr start i h || inr end_ i h) then OCollect (OGet i h) else
    match h with
    | O => OCollect (OGet i h)
    | S h' =>
        let ri := i + pow2 h' in
        let left := checkc_go start end_ i h' in
        if end_ <? ri then OPartial i h left
        else OInner i h left (checkc_go start end_ ri h')
    end.
  Definition pruneToCheckConsistency (start end_ : N) : op :=
    checkc_go start end_ 0 (bitlen end_).

  (* ---- verify.go ---- *)
  Fixpoint verify_go (index version : N) (e : E) (i : N) (h : nat) : op :=
    match h with
    | O => OLeaf i (Some e)
    | S h' =>
        let ri := i + pow2 h' in
        let '(l, r) := if index <? ri then (verify_go index version e i h', OGet ri h')
                       else (OGet i h', verify_go index version e ri h') in
        if version <? ri then OPartial i h l else OInner i h l r
    end.
  Definition pruneToVerify (index version : N) (e : E) : op := verify_go index version e 0 (bitlen version).

  Fixpoint vstart_go (version : N) (i : N) (h : nat) : op :=
    match h with
    | O => OGet i O
    | S h' =>
        let ri := i + pow2 h' in
        let '(l, r) := if version <? ri then (vstart_go version i h', OGet ri h')
                       else (OGet i h', vstart_go version ri h') in
        if version <? ri then OPartial i h l else OInner i h l r
    end.
  Definition pruneToVerifyIncrementalStart (version : N) : op := vstart_go version 0 (bitlen version).

  Fixpoint vend_go (start end_ : N) (i : N) (h : nat) : op :=
    if negb (inr start i h || inr end_ i h) then OGet i h else
    match h with
    | O => OGet i h
    | S h' =>
        let ri := i + pow2 h' in
        let left := vend_go start end_ i h' in
        if end_ <? ri then OPartial i h left
        else OInner i h left (vend_go start end_ ri h')
    end.
  Definition pruneToVerifyIncrementalEnd (start end_ : N) : op :=
    vend_go start end_ 0 (bitlen end_).

  (* ---- visitors ---- *)
  Definition cache := pos -> option D.

  Definition hleaf (i : N) (v : option E) : D :=
    match v with Some e => H (HLeaf e i) | None => H (HBare i O) end.

  (* computeHashVisitor / the hashing part of every visitor; None = the Go code panics
     ("There should be a cached element at position ...") *)
  Fixpoint interp (c : cache) (o : op) : option D :=
    match o with
    | OLeaf i v => Some (hleaf i v)
    | OInner i h l r =>
        match interp c l with
        | None => None
        | Some lh => match interp c r with None => None | Some rh => Some (H (HFull lh rh i h)) end
        end
    | OPartial i h l =>
        match interp c l with None => None | Some lh => Some (H (HPart lh i h)) end
    | OGet i h => c (i, h)
    | OPut o | OMutate o | OCollect o => interp c o
    end.

  (* auditPathVisitor: the collected entries, in visiting order *)
  Fixpoint collect (c : cache) (o : op) : list (pos * D) :=
    match o with
    | OLeaf _ _ | OGet _ _ => []
    | OInner _ _ l r => collect c l ++ collect c r
    | OPartial _ _ l => collect c l
    | OPut o | OMutate o => collect c o
    | OCollect o =>
        collect c o ++ match interp c o with Some d => [(op_pos o, d)] | None => [] end
    end.

  (* an audit path is a Go map: a later write to the same key wins *)
  Definition path_get (p : list (pos * D)) : cache := fun k => assoc pos_eqb k (rev p).

  (* Since fix 10a81c4 the verifier treats an audit-path entry that is not a digest of the hasher's length as
     missing.  [checked okD] is that lookup (computeHashVisitor.VisitGetCacheOp); [wf_path okD] is the same thing done
     once on the decoded path (History/HistChecked.v: the two agree on paths without duplicate keys - Go maps). *)
  Definition checked (okD : D -> bool) (c : cache) : cache :=
    fun k => match c k with Some d => if okD d then Some d else None | None => None end.
  Definition wf_path (okD : D -> bool) (p : list (pos * D)) : list (pos * D) :=
    filter (fun kv => okD (snd kv)) p.

  (* insertVisitor: threads the write cache (puts) and accumulates the mutations;
     state = (puts so far, mutations so far), most recent first *)
  Definition ins_state := (list (pos * D) * list (pos * D))%type.
  Definition ins_get (base : cache) (puts : list (pos * D)) : cache :=
    fun k => match assoc pos_eqb k puts with Some d => Some d | None => base k end.

  Fixpoint interp_ins (base : cache) (o : op) (st : ins_state) : option (D * ins_state) :=
    match o with
    | OLeaf i v => Some (hleaf i v, st)
    | OInner i h l r =>
        match interp_ins base l st with
        | None => None
        | Some (lh, st1) =>
            match interp_ins base r st1 with
            | None => None
            | Some (rh, st2) => Some (H (HFull lh rh i h), st2)
            end
        end
    | OPartial i h l =>
        match interp_ins base l st with
        | None => None
        | Some (lh, st1) => Some (H (HPart lh i h), st1)
        end
    | OGet i h => match ins_get base (fst st) (i, h) with Some d => Some (d, st) | None => None end
    | OPut o' =>
        match interp_ins base o' st with
        | None => None
        | Some (d, (puts, muts)) => Some (d, ((op_pos o', d) :: puts, muts))
        end
    | OMutate o' =>
        match interp_ins base o' st with
        | None => None
        | Some (d, (puts, muts)) => Some (d, (puts, (op_pos o', d) :: muts))
        end
    | OCollect o' => interp_ins base o' st
    end.

  (* ---- tree.go / proof.go ---- *)
  (* HistoryTree.Add : root hash and the mutations (in emission order) *)
  Definition tree_add (base : cache) (e : E) (version : N) : option (D * list (pos * D)) :=
    match interp_ins base (pruneToInsert version e) ([], []) with
    | Some (d, (_, muts)) => Some (d, rev muts)
    | None => None
    end.

  (* HistoryTree.AddBulk: one insert visitor (write cache + mutation list) for the whole bulk *)
  Fixpoint bulk_go (base : cache) (evs : list E) (version : N) (st : ins_state) : option (list D * ins_state) :=
    match evs with
    | [] => Some ([], st)
    | e :: r =>
        match interp_ins base (pruneToInsert version e) st with
        | None => None
        | Some (d, st1) =>
            match bulk_go base r (version + 1) st1 with
            | None => None
            | Some (ds, st2) => Some (d :: ds, st2)
            end
        end
    end.
  Definition tree_add_bulk (base : cache) (evs : list E) (version : N) : option (list D * list (pos * D)) :=
    match bulk_go base evs version ([], []) with
    | Some (ds, (_, muts)) => Some (ds, rev muts)
    | None => None
    end.

  (* store.Mutate(mutations) as seen by later reads *)
  Definition store_apply (st : cache) (muts : list (pos * D)) : cache := ins_get st (rev muts).

  Definition prove_membership (store : cache) (index version : N) : option (list (pos * D)) :=
    let o := if index =? version then pruneToFind index else pruneToFindConsistent index version in
    match interp store o with Some _ => Some (collect store o) | None => None end.

  Definition prove_consistency (store : cache) (start end_ : N) : option (list (pos * D)) :=
    let o := pruneToCheckConsistency start end_ in
    match interp store o with Some _ => Some (collect store o) | None => None end.

  (* MembershipProof.Verify: recomputed root, None = panic *)
  Definition membership_root (path : cache) (index version : N) (e : E) : option D :=
    interp path (pruneToVerify index version e).

  Definition incremental_roots (path : cache) (start end_ : N) : option D * option D :=
    (interp path (pruneToVerifyIncrementalStart start),
     interp path (pruneToVerifyIncrementalEnd start end_)).
End HistModel.

Arguments OLeaf {E}. Arguments OInner {E}. Arguments OPartial {E}. Arguments OGet {E}.
Arguments OPut {E}. Arguments OMutate {E}. Arguments OCollect {E}. Arguments op_pos {E}.
Arguments insert_go {E}. Arguments pruneToInsert {E}. Arguments find_go {E}. Arguments pruneToFind {E}.
Arguments findc_short {E}. Arguments findc_go {E}. Arguments pruneToFindConsistent {E}.
Arguments checkc_go {E}. Arguments pruneToCheckConsistency {E}.
Arguments verify_go {E}. Arguments pruneToVerify {E}. Arguments vstart_go {E}. Arguments pruneToVerifyIncrementalStart {E}.
Arguments vend_go {E}. Arguments pruneToVerifyIncrementalEnd {E}.
Arguments path_get {D}.
Arguments checked {D}.
Arguments wf_path {D}.
Arguments ins_get {D}.
