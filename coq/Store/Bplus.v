(* storage/bplus: one ordered tree shared by all tables, keys prefixed by the table's byte.
   Executable mirror of BPlusTreeStore (Mutate, Get, GetRange, GetLast, GetAll reader) over a sorted
   association list standing for google/btree, and the per-table sorted-map specification it must
   refine (which is also the specification of the RocksDB store: one column family per table).
   Keys are abstract with a total order; bytes.Compare on prefix‖key is the lexicographic order on
   (prefix, key).  No proofs here. *)
From QV Require Import Base.Util.

Section Bplus.
  Variable K : Type.                      (* keys: byte strings *)
  Variable Val : Type.
  Variable kleb : K -> K -> bool.         (* bytes.Compare a b <= 0 *)
  Variable kmin : K.                      (* the empty key *)

  Definition keqb (a b : K) : bool := kleb a b && kleb b a.
  Definition pkey := (N * K)%type.        (* table prefix, key *)
  Definition pleb (a b : pkey) : bool := (fst a <? fst b) || ((fst a =? fst b) && kleb (snd a) (snd b)).
  Definition peqb (a b : pkey) : bool := (fst a =? fst b) && keqb (snd a) (snd b).
  Definition pltb (a b : pkey) : bool := pleb a b && negb (peqb a b).

  Definition tree := list (pkey * Val).   (* sorted strictly increasing by key *)

  (* btree.ReplaceOrInsert *)
  Fixpoint tinsert (t : tree) (k : pkey) (v : Val) : tree :=
    match t with
    | [] => [(k, v)]
    | (k', v') :: r => if peqb k k' then (k, v) :: r
                       else if pleb k k' then (k, v) :: t
                       else (k', v') :: tinsert r k v
    end.

  (* ---- BPlusTreeStore *)
  Definition mutate (t : tree) (muts : list (N * K * Val)) : tree :=
    fold_left (fun acc m => tinsert acc (fst (fst m), snd (fst m)) (snd m)) muts t.

  Fixpoint tget (t : tree) (k : pkey) : option Val :=
    match t with
    | [] => None
    | (k', v) :: r => if peqb k k' then Some v else tget r k
    end.
  Definition get (t : tree) (p : N) (k : K) : option Val := tget t (p, k).

  (* AscendGreaterOrEqual(pivot): the items >= pivot, ascending *)
  Fixpoint ascend_ge (t : tree) (pivot : pkey) : tree :=
    match t with
    | [] => []
    | (k, v) :: r => if pleb pivot k then t else ascend_ge r pivot
    end.

  (* GetRange: from prefix‖start while key <= prefix‖end *)
  Fixpoint take_le (t : tree) (hi : pkey) : tree :=
    match t with
    | [] => []
    | (k, v) :: r => if pleb k hi then (k, v) :: take_le r hi else []
    end.
  Definition get_range (t : tree) (p : N) (a b : K) : list (K * Val) :=
    map (fun kv => (snd (fst kv), snd kv)) (take_le (ascend_ge t (p, a)) (p, b)).

  (* DescendLessOrEqual(pivot): items <= pivot, descending *)
  Definition descend_le (t : tree) (pivot : pkey) : tree := rev (take_le t pivot).

  (* GetLast: descend from [prefix+1]; skip the (only possible) item with a greater prefix *)
  Fixpoint last_scan (items : tree) (p : N) : option (K * Val) :=
    match items with
    | [] => None
    | (k, v) :: r => if p <? fst k then last_scan r p
                     else if fst k =? p then Some (snd k, v) else None
    end.
  Definition get_last (t : tree) (p : N) : option (K * Val) := last_scan (descend_le t (p + 1, kmin)) p.

  (* GetAll reader *)
  Record reader := { r_prefix : N; r_last : pkey; r_started : bool }.
  Definition new_reader (p : N) : reader := {| r_prefix := p; r_last := (p, kmin); r_started := false |}.

  Fixpoint read_scan (items : tree) (r : reader) (n : nat) (acc : list (K * Val)) : list (K * Val) * reader :=
    match items with
    | [] => (rev acc, r)
    | (k, v) :: rest =>
        match n with
        | O => (rev acc, r)
        | S n' =>
            if negb (fst k =? r_prefix r) then (rev acc, r)
            else if r_started r && peqb k (r_last r) then read_scan rest r n acc
            else read_scan rest {| r_prefix := r_prefix r; r_last := k; r_started := true |} n' ((snd k, v) :: acc)
        end
    end.
  Definition read (t : tree) (r : reader) (n : nat) : list (K * Val) * reader :=
    read_scan (ascend_ge t (r_last r)) r n [].

  (* ---- the specification: one sorted map per table, as a view of the tree *)
  Definition table (t : tree) (p : N) : list (K * Val) :=
    map (fun kv => (snd (fst kv), snd kv)) (filter (fun kv => fst (fst kv) =? p) t).

  Fixpoint spec_get (m : list (K * Val)) (k : K) : option Val :=
    match m with [] => None | (k', v) :: r => if keqb k k' then Some v else spec_get r k end.
  Fixpoint spec_put (m : list (K * Val)) (k : K) (v : Val) : list (K * Val) :=
    match m with
    | [] => [(k, v)]
    | (k', v') :: r => if keqb k k' then (k, v) :: r else if kleb k k' then (k, v) :: m else (k', v') :: spec_put r k v
    end.
  Definition spec_range (m : list (K * Val)) (a b : K) : list (K * Val) :=
    filter (fun kv => kleb a (fst kv) && kleb (fst kv) b) m.
  Definition spec_last (m : list (K * Val)) : option (K * Val) :=
    match rev m with [] => None | x :: _ => Some x end.
End Bplus.
