(* The GetAll reader of the bplus store (storage/bplus: KVPairReader over AscendGreaterOrEqual) refines the per-table
   sorted map: on an unchanged tree each Read(n) returns the next n entries of the table, and reading until nothing
   comes back yields the whole table, every entry exactly once, in key order, for any chunk size. *)
From QV Require Import Base.Util Store.Bplus Store.BplusProofs.

Section Reader.
  Variable K : Type.
  Variable Val : Type.
  Variable kleb : K -> K -> bool.
  Variable kmin : K.
  Hypothesis kleb_refl : forall a, kleb a a = true.
  Hypothesis kleb_trans : forall a b c, kleb a b = true -> kleb b c = true -> kleb a c = true.
  Hypothesis kleb_total : forall a b, kleb a b = true \/ kleb b a = true.
  Hypothesis kleb_antisym : forall a b, kleb a b = true -> kleb b a = true -> a = b.
  Hypothesis kmin_le : forall a, kleb kmin a = true.

  Notation pkey := (pkey K).
  Notation pleb := (pleb K kleb).
  Notation peqb := (peqb K kleb).
  Notation tree := (tree K Val).
  Notation sorted := (sorted K Val kleb).
  Notation reader := (reader K).
  Notation read_scan := (read_scan K Val kleb).
  Notation proj := (fun kv : pkey * Val => (snd (fst kv), snd kv)).

  (* the entries of the reader's table that it has not returned yet *)
  Definition pending (t : tree) (r : reader) : list (K * Val) :=
    map proj (filter (fun kv => (fst (fst kv) =? r_prefix K r) &&
                                (negb (r_started K r) || (pleb (r_last K r) (fst kv) && negb (peqb (fst kv) (r_last K r))))) t).

  Definition adv (r : reader) (k : pkey) : reader := {| r_prefix := r_prefix K r; r_last := k; r_started := true |}.

  (* the scan once nothing can be skipped any more: it takes the next n entries of the table *)
  Fixpoint scan_end (items : tree) (r : reader) (n : nat) : reader :=
    match items, n with
    | (k, _) :: rest, S n' => if fst k =? r_prefix K r then scan_end rest (adv r k) n' else r
    | _, _ => r
    end.
  Fixpoint tw (p : N) (items : tree) : tree :=
    match items with
    | (k, v) :: rest => if fst k =? p then (k, v) :: tw p rest else []
    | [] => []
    end.

  Lemma read_scan_plain items : forall r n acc, sorted items ->
    (forall kv, In kv items -> r_started K r && peqb (fst kv) (r_last K r) = false) ->
    read_scan items r n acc = (rev acc ++ firstn n (map proj (tw (r_prefix K r) items)), scan_end items r n).
  Proof.
    induction items as [|[k v] rest IH]; intros r n acc Hs Hns.
    - cbn. destruct n; rewrite app_nil_r; reflexivity.
    - destruct n as [|n']; [cbn; rewrite app_nil_r; reflexivity|].
      cbn [Bplus.read_scan scan_end tw fst]. destruct (fst k =? r_prefix K r) eqn:Hp; cbn [negb].
      + pose proof (Hns (k, v) (or_introl eq_refl)) as Hk. cbn [fst] in Hk. rewrite Hk. destruct Hs as [Hlb Hs].
        fold (adv r k). rewrite (IH (adv r k) n' ((snd k, v) :: acc) Hs).
        * cbn [rev map firstn adv r_prefix]. rewrite <- app_assoc. reflexivity.
        * intros kv Hin. cbn [adv r_started r_last andb]. destruct (peqb (fst kv) k) eqn:He; [|reflexivity].
          apply (peqb_eq K kleb kleb_refl kleb_antisym) in He. destruct (Hlb kv Hin) as [_ Hne]. congruence.
      + cbn [map firstn]. rewrite app_nil_r. reflexivity.
  Qed.

  Notation gt k := (fun kv : pkey * Val => pleb k (fst kv) && negb (peqb (fst kv) k)).

  Lemma peqb_true a b : peqb a b = true <-> a = b.
  Proof. apply (peqb_eq K kleb kleb_refl kleb_antisym). Qed.
  Lemma peqb_refl' a : peqb a a = true.
  Proof. apply peqb_true. reflexivity. Qed.

  Lemma gt_all k L : (forall kv, In kv L -> pleb k (fst kv) = true /\ k <> fst kv) -> filter (gt k) L = L.
  Proof.
    intros Hlb. apply filter_all. intros kv Hin. destruct (Hlb kv Hin) as [A B]. rewrite A. cbn [andb].
    destruct (peqb (fst kv) k) eqn:He; [|reflexivity]. apply peqb_true in He. congruence.
  Qed.

  Lemma filter_gt_skipn L : sorted L -> forall m k v, nth_error L m = Some (k, v) -> filter (gt k) L = skipn (S m) L.
  Proof.
    induction L as [|[k0 v0] rest IH]; intros Hs m k v Hn; [destruct m; discriminate|]. destruct Hs as [Hlb Hs].
    destruct m as [|m'].
    - injection Hn as -> ->. cbn [filter fst skipn]. rewrite peqb_refl', andb_false_r. apply gt_all. exact Hlb.
    - cbn [nth_error] in Hn. cbn [filter fst]. pose proof (nth_error_In _ _ Hn) as Hin. destruct (Hlb _ Hin) as [A B]. cbn [fst] in A, B.
      assert (Hx : pleb k k0 = false).
      { destruct (pleb k k0) eqn:Hc; [|reflexivity]. exfalso. apply B. exact (pleb_antisym K kleb kleb_antisym _ _ A Hc). }
      rewrite Hx. cbn [andb]. rewrite (IH Hs m' k v Hn). reflexivity.
  Qed.

  Lemma ne_nil {A} m : nth_error (@nil A) m = None.
  Proof. destruct m; reflexivity. Qed.

  (* where the reader stands after the plain scan *)
  Lemma scan_end_spec items : forall r n, scan_end items r n =
    match n with
    | O => r
    | S n' => match nth_error (tw (r_prefix K r) items) (Nat.min n' (length (tw (r_prefix K r) items) - 1)) with
              | Some (k, _) => adv r k
              | None => r
              end
    end.
  Proof.
    induction items as [|[k v] rest IH]; intros r n; [destruct n as [|n0]; [reflexivity|]; cbn [scan_end tw]; rewrite ne_nil; reflexivity|].
    destruct n as [|n']; [reflexivity|]. cbn [scan_end tw fst]. destruct (fst k =? r_prefix K r) eqn:Hp; [|rewrite ne_nil; reflexivity].
    rewrite IH. cbn [adv r_prefix].
    destruct n' as [|n'']; [reflexivity|].
    destruct (tw (r_prefix K r) rest) as [|x L] eqn:Ht.
    - rewrite ne_nil. cbn [length]. replace (Nat.min (S n'') (1 - 1)) with 0%nat by lia. reflexivity.
    - replace (Nat.min (S n'') (length ((k, v) :: x :: L) - 1)) with (S (Nat.min n'' (length (x :: L) - 1))) by (cbn [length]; lia).
      cbn [nth_error]. destruct (nth_error (x :: L) (Nat.min n'' (length (x :: L) - 1))) as [[k' v']|] eqn:Hn; [reflexivity|].
      exfalso. apply nth_error_None in Hn. cbn [length] in Hn. lia.
  Qed.

  Lemma tw_filter p items : sorted items -> (forall kv, In kv items -> p <= fst (fst kv)) ->
    tw p items = filter (fun kv => fst (fst kv) =? p) items.
  Proof.
    induction items as [|[k v] rest IH]; intros Hs Hge; [reflexivity|]. destruct Hs as [Hlb Hs]. cbn [tw filter fst].
    destruct (fst k =? p) eqn:Hp.
    - f_equal. apply IH; [exact Hs|]. intros kv Hin. apply Hge. right. exact Hin.
    - symmetry. apply filter_none. intros kv Hin. cbv beta. apply N.eqb_neq. apply N.eqb_neq in Hp.
      pose proof (Hge (k, v) (or_introl eq_refl)) as H1. cbn [fst] in H1.
      destruct (Hlb kv Hin) as [A _]. apply (pleb_spec K kleb) in A. cbn [fst] in A. unfold Bplus.pkey in *. lia.
  Qed.

  (* the items the iterator yields from the reader's last key on: that key itself (if it is still stored), then the
     entries after it *)
  Lemma ascend_split t last : sorted t ->
    filter (fun kv => pleb last (fst kv)) t = filter (gt last) t \/
    exists v, filter (fun kv => pleb last (fst kv)) t = (last, v) :: filter (gt last) t.
  Proof.
    induction t as [|[k v] r IH]; intros Hs; [left; reflexivity|]. destruct Hs as [Hlb Hs]. cbn [filter fst].
    destruct (pleb last k) eqn:Hk.
    - assert (Hr : forall kv, In kv r -> pleb last (fst kv) = true) by (intros kv Hin; exact (pleb_trans K kleb kleb_trans _ _ _ Hk (proj1 (Hlb kv Hin)))).
      assert (Hr2 : forall kv, In kv r -> last <> fst kv).
      { intros kv Hin He. destruct (Hlb kv Hin) as [A B]. apply B. rewrite <- He in A. rewrite <- He. exact (pleb_antisym K kleb kleb_antisym _ _ A Hk). }
      assert (Hall : filter (fun kv => pleb last (fst kv)) r = r) by (apply filter_all; exact Hr).
      assert (Hgt : filter (gt last) r = r) by (apply gt_all; intros kv Hin; split; [exact (Hr kv Hin)|exact (Hr2 kv Hin)]).
      rewrite Hall, Hgt. destruct (peqb k last) eqn:He; cbn [andb negb].
      + apply peqb_true in He. subst k. right. exists v. reflexivity.
      + left. reflexivity.
    - cbn [andb]. exact (IH Hs).
  Qed.

  Definition reader_ok (r : reader) : Prop :=
    fst (r_last K r) = r_prefix K r /\ (r_started K r = false -> snd (r_last K r) = kmin).

  (* one Read(n) on an unchanged tree: the next n entries of the table, each exactly once, in key order, and the
     reader moves past them *)
  Theorem read_refines t r n : sorted t -> reader_ok r ->
    fst (read K Val kleb t r n) = firstn n (pending t r) /\
    pending t (snd (read K Val kleb t r n)) = skipn n (pending t r) /\
    reader_ok (snd (read K Val kleb t r n)).
  Proof.
    intros Hs [Hp Hm]. unfold Bplus.read. rewrite (ascend_ge_filter K Val kleb kleb_trans t _ Hs).
    set (p := r_prefix K r) in *.
    (* the list G the scan effectively walks, and its relation to the pending entries *)
    assert (HG : exists G, sorted G /\ (forall kv, In kv G -> r_started K r && peqb (fst kv) (r_last K r) = false) /\
                  pending t r = map proj (tw p G) /\
                  (forall x, In x (tw p G) -> In x t /\ (r_started K r = true -> gt (r_last K r) x = true)) /\
                  read_scan (filter (fun kv => pleb (r_last K r) (fst kv)) t) r n [] = read_scan G r n [] /\
                  tw p G = filter (fun kv => (fst (fst kv) =? p) && (negb (r_started K r) || gt (r_last K r) kv)) t).
    { destruct (r_started K r) eqn:Hst.
      - exists (filter (gt (r_last K r)) t).
        assert (HsG : sorted (filter (gt (r_last K r)) t)) by (apply sorted_filter; exact Hs).
        assert (Hge : forall kv, In kv (filter (gt (r_last K r)) t) -> p <= fst (fst kv)).
        { intros kv Hin. apply filter_In in Hin. destruct Hin as [_ Hc]. apply andb_true_iff in Hc. destruct Hc as [A _].
          apply (pleb_spec K kleb) in A. rewrite Hp in A. lia. }
        assert (Htw : tw p (filter (gt (r_last K r)) t) = filter (fun kv => (fst (fst kv) =? p) && (negb true || gt (r_last K r) kv)) t).
        { rewrite (tw_filter p _ HsG Hge), filter_filter. apply filter_ext. intros kv. cbn [negb orb]. apply andb_comm. }
        split; [exact HsG|]. split.
        { intros kv Hin. apply filter_In in Hin. destruct Hin as [_ Hc]. apply andb_true_iff in Hc. destruct Hc as [_ B].
          cbn [andb]. apply negb_true_iff in B. exact B. }
        split; [unfold pending; rewrite Hst, Htw; reflexivity|]. split.
        { intros x Hin. rewrite Htw in Hin. apply filter_In in Hin. destruct Hin as [A B]. split; [exact A|]. intros _.
          apply andb_true_iff in B. exact (proj2 B). }
        split; [|exact Htw].
        destruct (ascend_split t (r_last K r) Hs) as [->|[v ->]]; [reflexivity|].
        destruct n as [|n']; [destruct (filter (gt (r_last K r)) t) as [|[k0 v0] G0]; reflexivity|]. cbn [Bplus.read_scan fst]. rewrite Hp. unfold p. rewrite N.eqb_refl. cbn [negb].
        rewrite Hst, peqb_refl'. reflexivity.
      - exists (filter (fun kv => pleb (r_last K r) (fst kv)) t).
        assert (HsG : sorted (filter (fun kv => pleb (r_last K r) (fst kv)) t)) by (apply sorted_filter; exact Hs).
        assert (Hge : forall kv, In kv (filter (fun kv => pleb (r_last K r) (fst kv)) t) -> p <= fst (fst kv)).
        { intros kv Hin. apply filter_In in Hin. destruct Hin as [_ A]. apply (pleb_spec K kleb) in A. rewrite Hp in A. lia. }
        assert (Htw : tw p (filter (fun kv => pleb (r_last K r) (fst kv)) t) = filter (fun kv => (fst (fst kv) =? p) && (negb false || gt (r_last K r) kv)) t).
        { rewrite (tw_filter p _ HsG Hge), filter_filter. apply filter_ext. intros kv. cbn [negb orb]. rewrite andb_true_r.
          destruct (fst (fst kv) =? p) eqn:He; [|apply andb_false_r]. rewrite andb_true_r. apply N.eqb_eq in He.
          apply (pleb_spec K kleb). right. split; [rewrite Hp; symmetry; exact He|]. rewrite (Hm eq_refl). apply kmin_le. }
        split; [exact HsG|]. split; [intros kv _; reflexivity|].
        split; [unfold pending; rewrite Hst, Htw; reflexivity|]. split.
        { intros x Hin. rewrite Htw in Hin. apply filter_In in Hin. split; [exact (proj1 Hin)|discriminate]. }
        split; [reflexivity|exact Htw]. }
    destruct HG as (G & HsG & Hns & Hpend & Hin_t & Hscan & Htw).
    rewrite Hscan, (read_scan_plain G r n [] HsG Hns). cbn [fst snd rev app]. fold p. rewrite <- Hpend.
    split; [reflexivity|].
    rewrite scan_end_spec. fold p. destruct n as [|n']; [split; [reflexivity|split; assumption]|].
    set (L := tw p G) in *.
    destruct (nth_error L (Nat.min n' (length L - 1))) as [[k v]|] eqn:Hn.
    - (* the reader advanced to the key of the last entry it returned *)
      assert (HsL : sorted L) by (rewrite Htw; apply sorted_filter; exact Hs).
      pose proof (nth_error_In _ _ Hn) as HinL. destruct (Hin_t _ HinL) as [Hkt Hkgt].
      assert (Hkp : fst k = p).
      { rewrite Htw in HinL. apply filter_In in HinL. destruct HinL as [_ B]. apply andb_true_iff in B. apply N.eqb_eq. exact (proj1 B). }
      split; [|split; [exact Hkp|discriminate]].
      assert (Hf : filter (fun kv => (fst (fst kv) =? p) && gt k kv) t = filter (gt k) L).
      { rewrite Htw, filter_filter. apply filter_ext. intros kv. unfold Bplus.pkey in *.
        destruct (fst (fst kv) =? p); cbn [andb]; [|reflexivity].
        destruct (pleb k (fst kv) && negb (peqb (fst kv) k)) eqn:Hg; [|rewrite andb_false_r; reflexivity]. rewrite andb_true_r.
        destruct (r_started K r) eqn:Hst; cbn [negb orb]; [|reflexivity].
        (* transitivity: after k, hence after the old last key *)
        specialize (Hkgt eq_refl). cbn [fst] in Hkgt. apply andb_true_iff in Hkgt. destruct Hkgt as [A B].
        apply andb_true_iff in Hg. destruct Hg as [A' B'].
        rewrite (pleb_trans K kleb kleb_trans _ _ _ A A'). cbn [andb]. symmetry. apply negb_true_iff. destruct (peqb (fst kv) (r_last K r)) eqn:He; [|reflexivity].
        apply peqb_true in He. rewrite He in A'. pose proof (pleb_antisym K kleb kleb_antisym _ _ A A') as Heq.
        apply negb_true_iff in B. rewrite <- Heq, peqb_refl' in B. discriminate. }
      assert (Hgoal : map proj (filter (fun kv => (fst (fst kv) =? p) && gt k kv) t) = skipn (S n') (pending t r)).
      { rewrite Hf, (filter_gt_skipn L HsL _ k v Hn), Hpend. rewrite skipn_map.
        destruct (Nat.le_gt_cases (S n') (length L)) as [Hle|Hgt].
        + replace (Nat.min n' (length L - 1))%nat with n' by lia. reflexivity.
        + replace (Nat.min n' (length L - 1))%nat with (length L - 1)%nat by lia.
          assert (Hlen : length L <> 0%nat) by (intros Hz; apply length_zero_iff_nil in Hz; rewrite Hz, ne_nil in Hn; discriminate).
          rewrite !skipn_all2; [reflexivity| |]; rewrite ?map_length; lia. }
      exact Hgoal.
    - (* nothing was pending *)
      assert (HL : L = []).
      { destruct L as [|x L']; [reflexivity|]. exfalso. apply nth_error_None in Hn. cbn [length] in Hn. lia. }
      split; [|split; assumption]. rewrite Hpend, HL. reflexivity.
  Qed.

  (* the way every caller uses the reader: Read(n) until it returns nothing *)
  Fixpoint drain (t : tree) (r : reader) (n fuel : nat) : list (K * Val) :=
    match fuel with
    | O => []
    | S f => match fst (read K Val kleb t r n) with
             | [] => []
             | out => out ++ drain t (snd (read K Val kleb t r n)) n f
             end
    end.

  Lemma pending_new t p : pending t (new_reader K kmin p) = table K Val t p.
  Proof.
    unfold pending, Bplus.table, new_reader. cbn [r_prefix r_started negb orb]. f_equal. apply filter_ext. intros kv. apply andb_true_r.
  Qed.

  Lemma drain_pending t n : sorted t -> (0 < n)%nat -> forall fuel r, reader_ok r -> (length (pending t r) < fuel)%nat ->
    drain t r n fuel = pending t r.
  Proof.
    intros Hs Hn. induction fuel as [|f IH]; intros r Hok Hlen; [lia|].
    destruct (read_refines t r n Hs Hok) as (E1 & E2 & E3). cbn [drain]. rewrite E1.
    destruct (pending t r) as [|x P] eqn:HP.
    - destruct n; reflexivity.
    - destruct n as [|n']; [lia|]. cbn [firstn]. rewrite (IH _ E3).
      + rewrite E2. cbn [skipn]. change (x :: firstn n' P ++ skipn n' P = x :: P). rewrite firstn_skipn. reflexivity.
      + rewrite E2. cbn [skipn length] in *. pose proof (skipn_length n' P). lia.
  Qed.

  (* GetAll + Read until exhausted = the table, every entry exactly once, in key order, for any chunk size *)
  Theorem get_all_refines t p n fuel : sorted t -> (0 < n)%nat -> (length (table K Val t p) < fuel)%nat ->
    drain t (new_reader K kmin p) n fuel = table K Val t p.
  Proof.
    intros Hs Hn Hf. rewrite <- pending_new. apply drain_pending; [exact Hs|exact Hn| |rewrite pending_new; exact Hf].
    split; [reflexivity|intros _; reflexivity].
  Qed.
End Reader.
