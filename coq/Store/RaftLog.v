(* consensus/raft_log.go: the replicated-log store (raft.LogStore + raft.StableStore) over one RocksDB column
   family keyed by the big-endian index, so byte order = numeric order.  Model: association list, last write
   first.  No proofs here. *)
From QV Require Import Base.Util.

Definition entry := (N * N * list N)%type.                 (* term, type, payload *)
Definition rlog := list (N * entry).
Definition U64 : N := 18446744073709551616.

Definition rl_store (m : rlog) (i : N) (e : entry) : rlog := (i, e) :: m.
Definition rl_get (m : rlog) (i : N) : option entry := assoc N.eqb i m.

(* DeleteRange(min, max): the inclusive range; nothing for min > max *)
Definition rl_delete_range (m : rlog) (lo hi : N) : rlog :=
  if hi <? lo then m else filter (fun kv => negb ((lo <=? fst kv) && (fst kv <=? hi))) m.

Definition rl_first (m : rlog) : N := match m with [] => 0 | (i, _) :: r => fold_left N.min (map fst r) i end.
Definition rl_last (m : rlog) : N := match m with [] => 0 | (i, _) :: r => fold_left N.max (map fst r) i end.
