(* The bplus store refines the per-table sorted-map specification (C14): for every tree reachable by
   mutations (i.e. every sorted tree), every table, key and bounds. *)
From QV Require Import Base.Util Store.Bplus.

Section BplusProofs.
  Variable K : Type.
  Variable Val : Type.
  Variable kleb : K -> K -> bool.
  Variable kmin : K.
  Hypothesis kleb_refl : forall a, kleb a a = true.
  Hypothesis kleb_trans : forall a b c, kleb a b = true -> kleb b c = true -> kleb a c = true.
  Hypothesis kleb_total : forall a b, kleb a b = true \/ kleb b a = true.
  Hypothesis kleb_antisym : forall a b, kleb a b = true -> kleb b a = true -> a = b.
  Hypothesis kmin_le : forall a, kleb kmin a = true.

  Notation pkey := (pkey K).
  Notation pleb := (pleb K kleb).
  Notation peqb := (peqb K kleb).
  Notation keqb := (keqb K kleb).
  Notation tree := (tree K Val).
  Notation tinsert := (tinsert K Val kleb).
  Notation tget := (tget K Val kleb).
  Notation table := (table K Val).

  Lemma keqb_eq a b : keqb a b = true <-> a = b.
  Proof.
    unfold Bplus.keqb. rewrite andb_true_iff. split; [intros [H1 H2]; apply kleb_antisym; assumption|].
    intros ->. split; apply kleb_refl.
  Qed.

  Lemma peqb_eq a b : peqb a b = true <-> a = b.
  Proof.
    destruct a as [p k], b as [q j]. unfold Bplus.peqb. cbn [fst snd]. rewrite andb_true_iff, N.eqb_eq, keqb_eq.
    split; [intros [-> ->]; reflexivity|intros Heq; inversion Heq; auto].
  Qed.

  Lemma pleb_refl a : pleb a a = true.
  Proof. destruct a as [p k]. unfold Bplus.pleb. cbn. rewrite N.eqb_refl, kleb_refl, orb_true_r. reflexivity. Qed.

  Lemma pleb_spec a b : pleb a b = true <-> (fst a < fst b \/ (fst a = fst b /\ kleb (snd a) (snd b) = true)).
  Proof. unfold Bplus.pleb. rewrite orb_true_iff, andb_true_iff, N.ltb_lt, N.eqb_eq. reflexivity. Qed.

  Lemma pleb_trans a b c : pleb a b = true -> pleb b c = true -> pleb a c = true.
  Proof.
    rewrite !pleb_spec. intros [H1|[H1 H1']] [H2|[H2 H2']]; try (left; lia).
    right. split; [lia|]. exact (kleb_trans _ _ _ H1' H2').
  Qed.

  Lemma pleb_total a b : pleb a b = true \/ pleb b a = true.
  Proof.
    rewrite !pleb_spec. destruct (N.lt_trichotomy (fst a) (fst b)) as [H|[H|H]]; [left; left; exact H| |right; left; exact H].
    destruct (kleb_total (snd a) (snd b)); [left|right]; right; split; auto.
  Qed.

  Lemma pleb_antisym a b : pleb a b = true -> pleb b a = true -> a = b.
  Proof.
    rewrite !pleb_spec. destruct a as [p k], b as [q j]. cbn [fst snd].
    intros [H1|[H1 H1']] [H2|[H2 H2']]; try lia. subst q. f_equal. apply kleb_antisym; assumption.
  Qed.

  (* strictly sorted trees: what google/btree maintains *)
  Fixpoint sorted (t : tree) : Prop :=
    match t with
    | [] => True
    | (k, _) :: r => (forall kv, In kv r -> pleb k (fst kv) = true /\ k <> fst kv) /\ sorted r
    end.

  Lemma tinsert_in t k v kv : In kv (tinsert t k v) -> kv = (k, v) \/ In kv t.
  Proof.
    induction t as [|[k' v'] r IH]; cbn [Bplus.tinsert].
    - intros [<-|[]]. left. reflexivity.
    - destruct (peqb k k'); [intros [<-|Hin]; [left; reflexivity|right; right; exact Hin]|].
      destruct (pleb k k'); [intros [<-|Hin]; [left; reflexivity|right; exact Hin]|].
      intros [<-|Hin]; [right; left; reflexivity|]. destruct (IH Hin) as [->|Hi]; [left; reflexivity|right; right; exact Hi].
  Qed.

  Lemma tinsert_sorted t k v : sorted t -> sorted (tinsert t k v).
  Proof.
    induction t as [|[k' v'] r IH]; cbn [Bplus.tinsert sorted]; [intros _; split; [intros ? []|exact I]|].
    intros [Hlb Hs]. destruct (peqb k k') eqn:He.
    - apply peqb_eq in He. subst k'. cbn [sorted]. split; assumption.
    - destruct (pleb k k') eqn:Hle.
      + cbn [sorted]. split; [|split; assumption].
        intros kv [<-|Hin]; cbn [fst].
        * split; [exact Hle|]. intros ->. rewrite (proj2 (peqb_eq k' k') eq_refl) in He. discriminate.
        * destruct (Hlb kv Hin) as [H1 H2]. split; [exact (pleb_trans _ _ _ Hle H1)|].
          intros ->. apply H2. apply pleb_antisym; assumption.
      + cbn [sorted]. split; [|exact (IH Hs)].
        intros kv Hin. destruct (tinsert_in _ _ _ _ Hin) as [->|Hi]; [|exact (Hlb kv Hi)].
        cbn [fst]. destruct (pleb_total k k') as [Hc|Hc]; [congruence|]. split; [exact Hc|].
        intros ->. rewrite pleb_refl in Hle. discriminate.
  Qed.

  Lemma mutate_sorted muts : forall t, sorted t -> sorted (mutate K Val kleb t muts).
  Proof. induction muts as [|m r IH]; intros t Hs; cbn; [exact Hs|]. apply IH. apply tinsert_sorted. exact Hs. Qed.

  (* ---- Get *)
  Theorem get_refines t p k : get K Val kleb t p k = spec_get K Val kleb (table t p) k.
  Proof.
    unfold Bplus.get, Bplus.table. induction t as [|[[q j] v] r IH]; cbn [Bplus.tget filter map]; [reflexivity|].
    cbn [fst snd]. unfold Bplus.peqb at 1. cbn [fst snd].
    destruct (q =? p) eqn:Hq.
    - apply N.eqb_eq in Hq. subst q. rewrite N.eqb_refl. cbn [andb map Bplus.spec_get fst snd].
      destruct (keqb k j); [reflexivity|exact IH].
    - rewrite N.eqb_sym, Hq. cbn [andb]. exact IH.
  Qed.

  (* ---- Mutate: a write touches its own table only, as spec_put *)
  Lemma table_nil_above t p q k0 :
    sorted t -> (forall kv, In kv t -> pleb (q, k0) (fst kv) = true) -> p < q -> table t p = [].
  Proof.
    intros _ Hlb Hpq. unfold Bplus.table. induction t as [|[[q' j] v] r IH]; [reflexivity|].
    cbn [filter fst snd]. pose proof (Hlb _ (or_introl eq_refl)) as H1. apply pleb_spec in H1. cbn [fst snd] in H1.
    assert (Hne : (q' =? p) = false) by (apply N.eqb_neq; lia). rewrite Hne.
    apply IH. intros kv Hin. apply Hlb. right. exact Hin.
  Qed.

  Lemma table_cons q' j v r q : table ((q', j, v) :: r) q = if q' =? q then (j, v) :: table r q else table r q.
  Proof. unfold Bplus.table. cbn [filter fst snd]. destruct (q' =? q); reflexivity. Qed.

  Theorem tinsert_refines t p k v q :
    sorted t ->
    table (tinsert t (p, k) v) q = if q =? p then spec_put K Val kleb (table t p) k v else table t q.
  Proof.
    induction t as [|[[p' k'] v'] r IH]; intros Hs.
    - cbn [Bplus.tinsert]. rewrite table_cons. unfold Bplus.table. cbn [filter map]. rewrite (N.eqb_sym p q).
      destruct (q =? p); reflexivity.
    - destruct Hs as [Hlb Hs]. specialize (IH Hs). cbn [Bplus.tinsert].
      unfold Bplus.peqb at 1, Bplus.pleb at 1. cbn [fst snd].
      destruct (p =? p') eqn:Hpp.
      + apply N.eqb_eq in Hpp. subst p'. rewrite N.ltb_irrefl. cbn [andb orb].
        destruct (keqb k k') eqn:Hk; [|destruct (kleb k k') eqn:Hle].
        * (* replace *)
          rewrite !table_cons. rewrite (N.eqb_sym p q). destruct (q =? p) eqn:Hq.
          -- apply N.eqb_eq in Hq. subst q. rewrite N.eqb_refl. cbn [Bplus.spec_put]. rewrite Hk. reflexivity.
          -- reflexivity.
        * (* insert before the head, same table *)
          rewrite !table_cons. rewrite (N.eqb_sym p q). destruct (q =? p) eqn:Hq.
          -- apply N.eqb_eq in Hq. subst q. rewrite N.eqb_refl. cbn [Bplus.spec_put]. rewrite Hk, Hle. reflexivity.
          -- reflexivity.
        * (* go deeper *)
          rewrite !table_cons. rewrite (N.eqb_sym p q). destruct (q =? p) eqn:Hq.
          -- apply N.eqb_eq in Hq. subst q. rewrite N.eqb_refl in *. cbn [Bplus.spec_put]. rewrite Hk, Hle. f_equal. exact IH.
          -- exact IH.
      + cbn [andb]. rewrite orb_false_r.
        destruct (p <? p') eqn:Hlt.
        * (* insert before a head of a later table: table p was empty *)
          apply N.ltb_lt in Hlt.
          assert (Hnil : table ((p', k', v') :: r) p = []).
          { apply (table_nil_above _ p p' k'); [split; assumption| |exact Hlt].
            intros kv [<-|Hin]; [apply pleb_refl|exact (proj1 (Hlb kv Hin))]. }
          rewrite table_cons. rewrite (N.eqb_sym p q). destruct (q =? p) eqn:Hq.
          -- apply N.eqb_eq in Hq. subst q. etransitivity; [|apply f_equal3; [symmetry; exact Hnil|reflexivity|reflexivity]]. cbn [Bplus.spec_put]. f_equal. exact Hnil.
          -- reflexivity.
        * rewrite !table_cons. rewrite (N.eqb_sym p' q). rewrite (N.eqb_sym p' p), Hpp.
          destruct (q =? p) eqn:Hq.
          -- apply N.eqb_eq in Hq. subst q. rewrite Hpp. exact IH.
          -- destruct (q =? p'); rewrite IH; reflexivity.
  Qed.

  (* a whole batch: every table receives exactly its own writes, in order (atomicity is by construction:
     the tree after Mutate is a function of the tree before and the batch) *)
  Fixpoint puts_of (muts : list (N * K * Val)) (p : N) (m : list (K * Val)) : list (K * Val) :=
    match muts with
    | [] => m
    | (q, k, v) :: r => puts_of r p (if q =? p then spec_put K Val kleb m k v else m)
    end.

  Theorem mutate_refines muts : forall t p, sorted t ->
    table (mutate K Val kleb t muts) p = puts_of muts p (table t p).
  Proof.
    induction muts as [|[[q k] v] r IH]; intros t p Hs; cbn [Bplus.mutate fold_left puts_of]; [reflexivity|].
    cbn [fst snd]. change (fold_left _ r ?x) with (mutate K Val kleb x r).
    rewrite IH by (apply tinsert_sorted; exact Hs). rewrite tinsert_refines by exact Hs.
    rewrite (N.eqb_sym q p). destruct (p =? q) eqn:Hpq; [apply N.eqb_eq in Hpq; subst q|]; reflexivity.
  Qed.
  (* ---- scans over a sorted tree are filters *)
  Lemma sorted_filter (f : pkey * Val -> bool) t : sorted t -> sorted (filter f t).
  Proof.
    induction t as [|[k v] r IH]; [intros _; exact I|]. intros [Hlb Hs]. cbn [filter].
    destruct (f (k, v)); [|exact (IH Hs)]. cbn [sorted]. split; [|exact (IH Hs)].
    intros kv Hin. apply filter_In in Hin. exact (Hlb kv (proj1 Hin)).
  Qed.

  Lemma filter_all {A} (f : A -> bool) (l : list A) : (forall x, In x l -> f x = true) -> filter f l = l.
  Proof.
    induction l as [|x l IH]; intros Hall; [reflexivity|]. cbn [filter]. rewrite (Hall x (or_introl eq_refl)).
    f_equal. apply IH. intros y Hy. apply Hall. right. exact Hy.
  Qed.

  Lemma filter_none {A} (f : A -> bool) (l : list A) : (forall x, In x l -> f x = false) -> filter f l = [].
  Proof.
    induction l as [|x l IH]; intros Hall; [reflexivity|]. cbn [filter]. rewrite (Hall x (or_introl eq_refl)).
    apply IH. intros y Hy. apply Hall. right. exact Hy.
  Qed.

  Lemma ascend_ge_filter t x : sorted t ->
    ascend_ge K Val kleb t x = filter (fun kv => pleb x (fst kv)) t.
  Proof.
    induction t as [|[k v] r IH]; [reflexivity|]. intros [Hlb Hs]. cbn [Bplus.ascend_ge filter fst].
    destruct (pleb x k) eqn:Hx; [|exact (IH Hs)].
    f_equal. symmetry. apply filter_all. intros kv Hin. exact (pleb_trans _ _ _ Hx (proj1 (Hlb kv Hin))).
  Qed.

  Lemma take_le_filter t hi : sorted t ->
    take_le K Val kleb t hi = filter (fun kv => pleb (fst kv) hi) t.
  Proof.
    induction t as [|[k v] r IH]; [reflexivity|]. intros [Hlb Hs]. cbn [Bplus.take_le filter fst].
    destruct (pleb k hi) eqn:Hk; [f_equal; exact (IH Hs)|].
    symmetry. apply filter_none. intros kv Hin. destruct (pleb (fst kv) hi) eqn:Hc; [|reflexivity].
    rewrite (pleb_trans _ _ _ (proj1 (Hlb kv Hin)) Hc) in Hk. discriminate.
  Qed.

  Lemma filter_filter {A} (f g : A -> bool) (l : list A) : filter f (filter g l) = filter (fun x => g x && f x) l.
  Proof. induction l as [|x l IH]; [reflexivity|]. cbn [filter]. destruct (g x); cbn [filter andb]; [destruct (f x)|]; rewrite IH; reflexivity. Qed.

  Lemma filter_map {A B} (f : A -> B) (g : B -> bool) (l : list A) : filter g (map f l) = map f (filter (fun x => g (f x)) l).
  Proof. induction l as [|x l IH]; [reflexivity|]. cbn [map filter]. destruct (g (f x)); cbn [map]; rewrite IH; reflexivity. Qed.

  (* ---- GetRange *)
  Theorem get_range_refines t p a b : sorted t ->
    get_range K Val kleb t p a b = spec_range K Val kleb (table t p) a b.
  Proof.
    intros Hs. unfold Bplus.get_range, Bplus.spec_range, Bplus.table.
    rewrite ascend_ge_filter by exact Hs. rewrite take_le_filter by (apply sorted_filter; exact Hs).
    rewrite filter_filter, filter_map, filter_filter. f_equal. apply filter_ext. intros [[q k] v]. cbn [fst snd].
    unfold Bplus.pleb. cbn [fst snd].
    destruct (N.compare_spec p q) as [->|Hlt|Hgt].
    - rewrite N.ltb_irrefl, N.eqb_refl. cbn [orb andb]. reflexivity.
    - assert (H1 : (p <? q) = true) by (apply N.ltb_lt; exact Hlt).
      assert (H2 : (q <? p) = false) by (apply N.ltb_ge; lia).
      assert (H3 : (q =? p) = false) by (apply N.eqb_neq; lia).
      rewrite H1, H2, H3. cbn [orb andb]. reflexivity.
    - assert (H1 : (p <? q) = false) by (apply N.ltb_ge; lia).
      assert (H3 : (q =? p) = false) by (apply N.eqb_neq; lia).
      assert (H4 : (p =? q) = false) by (apply N.eqb_neq; lia).
      rewrite H1, H3, H4. cbn [orb andb]. reflexivity.
  Qed.

  (* ---- GetLast *)
  Lemma spec_last_app (m : list (K * Val)) x : spec_last K Val (m ++ [x]) = Some x.
  Proof. unfold Bplus.spec_last. rewrite rev_app_distr. reflexivity. Qed.

  Lemma table_app t1 t2 p : table (t1 ++ t2) p = table t1 p ++ table t2 p.
  Proof. unfold Bplus.table. rewrite filter_app, map_app. reflexivity. Qed.

  Lemma last_scan_refines L p : sorted L ->
    last_scan K Val (rev L) p = spec_last K Val (table L p).
  Proof.
    induction L as [|x L IH] using rev_ind; [reflexivity|]. intros Hs.
    rewrite rev_app_distr. cbn [rev app Bplus.last_scan]. destruct x as [[q k] v]. cbn [fst snd].
    assert (HsL : sorted L).
    { clear -Hs. induction L as [|[k0 v0] L IH]; [exact I|]. destruct Hs as [Hlb Hs]. split; [|exact (IH Hs)].
      intros kv Hin. apply Hlb. apply in_or_app. left. exact Hin. }
    assert (Hmax : forall kv, In kv L -> pleb (fst kv) (q, k) = true).
    { clear -Hs. induction L as [|[k0 v0] L IH]; [intros ? []|]. destruct Hs as [Hlb Hs].
      intros kv [<-|Hin]; [|exact (IH Hs kv Hin)]. cbn [fst]. apply (proj1 (Hlb (q, k, v) ltac:(apply in_or_app; right; left; reflexivity))). }
    rewrite table_app, table_cons. unfold Bplus.table at 2. cbn [filter map].
    destruct (p <? q) eqn:Hpq.
    - apply N.ltb_lt in Hpq. assert (Hne : (q =? p) = false) by (apply N.eqb_neq; lia). rewrite Hne, app_nil_r. exact (IH HsL).
    - apply N.ltb_ge in Hpq. destruct (q =? p) eqn:Hqp.
      + rewrite spec_last_app. reflexivity.
      + apply N.eqb_neq in Hqp. rewrite app_nil_r.
        (* everything in L has a prefix <= q < p *)
        assert (Hnil : table L p = []).
        { unfold Bplus.table. rewrite filter_none; [reflexivity|]. intros kv Hin. apply N.eqb_neq.
          pose proof (Hmax kv Hin) as Hle. apply pleb_spec in Hle. cbn [fst snd] in Hle. destruct kv as [[q0 k0] v0]. cbn [fst snd] in *. destruct Hle as [H|[H _]]; lia. }
        rewrite Hnil. reflexivity.
  Qed.

  Theorem get_last_refines t p : sorted t ->
    get_last K Val kleb kmin t p = spec_last K Val (table t p).
  Proof.
    intros Hs. unfold Bplus.get_last, Bplus.descend_le. rewrite take_le_filter by exact Hs.
    rewrite last_scan_refines by (apply sorted_filter; exact Hs).
    f_equal. unfold Bplus.table. rewrite filter_filter. f_equal. apply filter_ext. intros [[q k] v]. cbn [fst snd].
    destruct (q =? p) eqn:Hq; [|apply andb_false_r].
    apply N.eqb_eq in Hq. subst q. rewrite andb_true_r. apply pleb_spec. left. cbn. lia.
  Qed.
End BplusProofs.
