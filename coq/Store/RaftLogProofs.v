(* C15: the replicated-log store returns exactly what consensus stored. *)
From QV Require Import Base.Util Store.RaftLog.

Theorem get_store m i e j : rl_get (rl_store m i e) j = if j =? i then Some e else rl_get m j.
Proof. reflexivity. Qed.

Lemma assoc_filter (f : N -> bool) (m : rlog) j :
  assoc N.eqb j (filter (fun kv => f (fst kv)) m) = if f j then assoc N.eqb j m else None.
Proof.
  induction m as [|[k e] m IH]; cbn [filter assoc]; [destruct (f j); reflexivity|].
  cbn [fst]. destruct (f k) eqn:Hk; cbn [assoc].
  - destruct (j =? k) eqn:Hjk; [apply N.eqb_eq in Hjk; subst k; rewrite Hk; reflexivity|exact IH].
  - destruct (j =? k) eqn:Hjk; [apply N.eqb_eq in Hjk; subst k; rewrite Hk in *; rewrite IH; reflexivity|exact IH].
Qed.

(* DeleteRange removes exactly the inclusive range, for every pair of bounds (including max = 2^64-1) *)
Theorem get_delete_range m lo hi j :
  rl_get (rl_delete_range m lo hi) j = if (lo <=? j) && (j <=? hi) then None else rl_get m j.
Proof.
  unfold rl_delete_range, rl_get. destruct (hi <? lo) eqn:Hlt.
  - apply N.ltb_lt in Hlt. destruct (lo <=? j) eqn:H1; destruct (j <=? hi) eqn:H2; cbn; try reflexivity.
    apply N.leb_le in H1, H2. lia.
  - rewrite (assoc_filter (fun k => negb ((lo <=? k) && (k <=? hi)))). destruct ((lo <=? j) && (j <=? hi)); reflexivity.
Qed.

Lemma fold_min_le l : forall a, fold_left N.min l a <= a /\ (forall x, In x l -> fold_left N.min l a <= x) /\
                                 (fold_left N.min l a = a \/ In (fold_left N.min l a) l).
Proof.
  induction l as [|y l IH]; intros a; cbn [fold_left]; [split; [lia|split; [intros ? []|left; reflexivity]]|].
  destruct (IH (N.min a y)) as (H1 & H2 & H3). split; [lia|]. split.
  - intros x [<-|Hx]; [lia|exact (H2 x Hx)].
  - destruct H3 as [H3|H3]; [|right; right; exact H3]. destruct (N.min_spec a y) as [[_ Hm]|[_ Hm]]; rewrite Hm in H3; [left|right; left]; congruence.
Qed.

Lemma fold_max_ge l : forall a, a <= fold_left N.max l a /\ (forall x, In x l -> x <= fold_left N.max l a) /\
                                 (fold_left N.max l a = a \/ In (fold_left N.max l a) l).
Proof.
  induction l as [|y l IH]; intros a; cbn [fold_left]; [split; [lia|split; [intros ? []|left; reflexivity]]|].
  destruct (IH (N.max a y)) as (H1 & H2 & H3). split; [lia|]. split.
  - intros x [<-|Hx]; [lia|exact (H2 x Hx)].
  - destruct H3 as [H3|H3]; [|right; right; exact H3]. destruct (N.max_spec a y) as [[_ Hm]|[_ Hm]]; rewrite Hm in H3; [right; left|left]; congruence.
Qed.

Lemma assoc_some_in (m : rlog) j : rl_get m j <> None <-> In j (map fst m).
Proof.
  unfold rl_get. induction m as [|[k e] m IH]; cbn [assoc map fst]; [split; [intros H; contradiction|intros []]|].
  destruct (j =? k) eqn:Hjk.
  - apply N.eqb_eq in Hjk. subst k. split; [intros _; left; reflexivity|intros _; discriminate].
  - rewrite IH. split; [intros H; right; exact H|intros [Heq|H]; [subst k; rewrite N.eqb_refl in Hjk; discriminate|exact H]].
Qed.

(* FirstIndex / LastIndex: 0 when empty, otherwise the smallest / largest stored index *)
Theorem first_index_spec m :
  (m = [] -> rl_first m = 0) /\
  (m <> [] -> rl_get m (rl_first m) <> None /\ forall j, rl_get m j <> None -> rl_first m <= j).
Proof.
  split; [intros ->; reflexivity|]. destruct m as [|[i e] r]; [contradiction|]. intros _. cbn [rl_first].
  destruct (fold_min_le (map fst r) i) as (H1 & H2 & H3). split.
  - apply assoc_some_in. cbn [map fst]. destruct H3 as [->|H3]; [left; reflexivity|right; exact H3].
  - intros j Hj. apply assoc_some_in in Hj. cbn [map fst] in Hj. destruct Hj as [<-|Hj]; [exact H1|exact (H2 j Hj)].
Qed.

Theorem last_index_spec m :
  (m = [] -> rl_last m = 0) /\
  (m <> [] -> rl_get m (rl_last m) <> None /\ forall j, rl_get m j <> None -> j <= rl_last m).
Proof.
  split; [intros ->; reflexivity|]. destruct m as [|[i e] r]; [contradiction|]. intros _. cbn [rl_last].
  destruct (fold_max_ge (map fst r) i) as (H1 & H2 & H3). split.
  - apply assoc_some_in. cbn [map fst]. destruct H3 as [->|H3]; [left; reflexivity|right; exact H3].
  - intros j Hj. apply assoc_some_in in Hj. cbn [map fst] in Hj. destruct Hj as [<-|Hj]; [exact H1|exact (H2 j Hj)].
Qed.
