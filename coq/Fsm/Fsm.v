(* consensus/fsm.go: the replicated state machine around the balloon.  A node's durable state is what one
   atomic store write per applied entry leaves behind: the tree tables (abstracted here as the list of event
   digests they were built from - the balloon proofs show the tables, digests and proofs are functions of that
   list) and fsmState{Index, BalloonVersion}.  Everything volatile (balloon version counter, caches) is
   re-derived from the durable state at start-up, so a node IS its durable state between two applies.
   No proofs here. *)
From QV Require Import Base.Util.

Section Fsm.
  Variable E : Type.

  Definition W64 : N := 18446744073709551616.

  Record node := { n_events : list E; n_index : N; n_version : N }.   (* n_version = fsmState.BalloonVersion *)
  Definition fresh : node := {| n_events := []; n_index := 0; n_version := 0 |}.

  Inductive outcome :=
  | Applied (first_version : N) (count : nat)      (* snapshots for versions first .. first+count-1 *)
  | AlreadyApplied                                 (* "state already applied!" *)
  | Panic.                                         (* the process dies (and dies again on replay) *)

  (* RaftNode.Apply for an add command with raft index idx *)
  Definition apply (n : node) (idx : N) (cmd : list E) : node * outcome :=
    let ver := N.of_nat (length (n_events n)) in                           (* balloon.Version() *)
    let newver := (ver + N.of_nat (length cmd) + W64 - 1) mod W64 in        (* uint64 arithmetic *)
    if (idx <=? n_index n) && negb (n_index n =? 0) then (n, AlreadyApplied)
    else if (0 <? newver) && (newver <=? n_version n) then (n, Panic)       (* "balloonVersion panic!" *)
    else match cmd with
         | [] => (n, Panic)                                                 (* hyper AddBulk indexes[0] *)
         | _ => ({| n_events := n_events n ++ cmd; n_index := idx; n_version := newver |}, Applied ver (length cmd))
         end.

  (* the committed log: (raft index, command) *)
  Definition rlog := list (N * list E).

  (* one incarnation of the process: raft delivers a contiguous slice of the committed log, in order *)
  Fixpoint deliver (n : node) (entries : list (N * list E)) : node * list outcome :=
    match entries with
    | [] => (n, [])
    | (idx, cmd) :: r => let '(n1, o) := apply n idx cmd in
                         let '(n2, os) := deliver n1 r in (n2, o :: os)
    end.

  (* a life: incarnations, each delivering some entries; between them the process stops or is killed at any
     moment (the durable state is whatever the last completed store write left) *)
  Fixpoint life (n : node) (incs : list (list (N * list E))) : node * list (list outcome) :=
    match incs with
    | [] => (n, [])
    | es :: r => let '(n1, os) := deliver n es in
                 let '(n2, oss) := life n1 r in (n2, os :: oss)
    end.

  (* ---- state transfer (consensus/snapshot.go, storage/rocks FetchSnapshot/LoadSnapshot)
     one write-ahead-log batch per applied entry: metadata (previous, new version) and the entry itself *)
  Record batch := { b_prev : N; b_new : N; b_idx : N; b_first : nat; b_cmd : list E }.
  (* b_first: the version of the batch's first event - the keys of its mutations carry it *)

  (* the leader-side filter validateF(lastApplied) folded over the streamed batches:
     None = "Gap found between versions" *)
  Fixpoint fetch (last : N) (bs : list batch) : option (list batch) :=
    match bs with
    | [] => Some []
    | b :: r =>
        if last <? b_prev b then None
        else if b_new b <? last then fetch last r
        else if (b_new b =? last) && negb (last =? 0) then fetch last r
        else match fetch (b_new b) r with Some t => Some (b :: t) | None => None end
    end.

  (* LoadSnapshot + Restore on the follower: the batches are written as they are; a batch overwrites the keys
     it carries, so re-loading a batch the follower already holds changes nothing *)
  Definition load (n : node) (bs : list batch) : node :=
    fold_left (fun acc b => {| n_events := firstn (b_first b) (n_events acc) ++ b_cmd b; n_index := b_idx b; n_version := b_new b |}) bs n.
End Fsm.
