(* consensus/backup.go + storage/rocks backup engine: a backup is a copy of the durable state tagged with the
   version it was taken at (balloon version - 1, in uint64 arithmetic); identifiers grow and are never reused.
   Model, executable checker and proofs (C16). *)
From QV Require Import Base.Util.

Definition W64b : N := 18446744073709551616.

Record bstate := {
  bs_events : N;                       (* number of events in the log (the log itself is Fsm.node) *)
  bs_backups : list (N * N * N);       (* (id, recorded version, events held) in creation order *)
  bs_next : N                          (* next backup id *)
}.
Definition binit : bstate := {| bs_events := 0; bs_backups := []; bs_next := 1 |}.

Definition b_add (s : bstate) (k : N) : bstate :=
  {| bs_events := bs_events s + k; bs_backups := bs_backups s; bs_next := bs_next s |}.
Definition b_backup (s : bstate) : bstate :=
  {| bs_events := bs_events s;
     bs_backups := bs_backups s ++ [(bs_next s, (bs_events s + W64b - 1) mod W64b, bs_events s)];
     bs_next := bs_next s + 1 |}.
Definition b_delete (s : bstate) (id : N) : bstate :=
  {| bs_events := bs_events s; bs_backups := filter (fun b => negb (fst (fst b) =? id)) (bs_backups s); bs_next := bs_next s |}.
Definition b_list (s : bstate) : list (N * N) := map fst (bs_backups s).
(* restoring backup id yields a log with exactly that many events *)
Definition b_restore (s : bstate) (id : N) : option N :=
  match filter (fun b => fst (fst b) =? id) (bs_backups s) with (_, _, n) :: _ => Some n | [] => None end.

(* ---- proofs *)
Lemma b_list_backup s : b_list (b_backup s) = b_list s ++ [(bs_next s, (bs_events s + W64b - 1) mod W64b)].
Proof. unfold b_list, b_backup. cbn. rewrite map_app. reflexivity. Qed.

(* a backup taken at version v (v+1 events, v < 2^64) records v and restores to exactly v+1 events *)
Theorem backup_records_version s : 0 < bs_events s -> bs_events s <= W64b ->
  In (bs_next s, bs_events s - 1) (b_list (b_backup s)).
Proof.
  intros Hp Hle. rewrite b_list_backup. apply in_or_app. right. left. f_equal.
  replace (bs_events s + W64b - 1) with (bs_events s - 1 + 1 * W64b) by lia.
  rewrite N.mod_add by (unfold W64b; lia). apply N.mod_small. lia.
Qed.

Definition ids_below (s : bstate) : Prop := forall b, In b (bs_backups s) -> fst (fst b) < bs_next s.

Lemma ids_below_backup s : ids_below s -> ids_below (b_backup s).
Proof.
  intros H b Hin. cbn in Hin. apply in_app_or in Hin. cbn [bs_next b_backup].
  destruct Hin as [Hin|Hin]; [specialize (H b Hin); lia|]. destruct Hin as [Heq|[]]. subst b. cbn. lia.
Qed.

Theorem restore_of_new_backup s : ids_below s ->
  b_restore (b_backup s) (bs_next s) = Some (bs_events s).
Proof.
  intros Hid. unfold b_restore, b_backup. cbn [bs_backups]. rewrite filter_app.
  assert (Hgen : forall (l : list (N * N * N)), (forall b, In b l -> fst (fst b) < bs_next s) ->
                 filter (fun b : N * N * N => fst (fst b) =? bs_next s) l = []).
  { induction l as [|b l IH]; intros Hl; [reflexivity|]. cbn [filter].
    assert (Hb : fst (fst b) < bs_next s) by (apply Hl; left; reflexivity).
    assert (Hne : (fst (fst b) =? bs_next s) = false) by (apply N.eqb_neq; lia). rewrite Hne.
    apply IH. intros b' Hb'. apply Hl. right. exact Hb'. }
  assert (Hnone := Hgen (bs_backups s) Hid).
  rewrite Hnone. cbn. rewrite N.eqb_refl. reflexivity.
Qed.

(* later insertions, later backups and deletions of OTHER backups do not change what a backup restores to *)
Theorem restore_stable_add s id k : b_restore (b_add s k) id = b_restore s id.
Proof. reflexivity. Qed.
Theorem restore_stable_delete s id other : id <> other -> b_restore (b_delete s other) id = b_restore s id.
Proof.
  intros Hne. unfold b_restore, b_delete. cbn [bs_backups].
  induction (bs_backups s) as [|[[i v] n] l IH]; [reflexivity|]. cbn [filter fst].
  destruct (i =? other) eqn:Hio; cbn [negb filter fst].
  - apply N.eqb_eq in Hio. subst i. assert (Hx : (other =? id) = false) by (apply N.eqb_neq; congruence). rewrite Hx. exact IH.
  - destruct (i =? id); [reflexivity|exact IH].
Qed.

(* deleting removes exactly the named backup from the listing *)
Theorem delete_removes_only_named s id b :
  In b (b_list (b_delete s id)) <-> In b (b_list s) /\ fst b <> id.
Proof.
  unfold b_list, b_delete. cbn [bs_backups]. rewrite !in_map_iff. split.
  - intros [x [<- Hin]]. apply filter_In in Hin. destruct Hin as [Hin Hf]. apply negb_true_iff, N.eqb_neq in Hf.
    split; [exists x; split; [reflexivity|exact Hin]|exact Hf].
  - intros [[x [<- Hin]] Hne]. exists x. split; [reflexivity|]. apply filter_In. split; [exact Hin|].
    apply negb_true_iff, N.eqb_neq. exact Hne.
Qed.

(* ---- executable checker for the correspondence runs *)
Inductive bop := BAdd (k : nat) | BBackup | BDelete (id : N) | BList (obs : list (N * N)).
Fixpoint nn_eqb (a b : list (N * N)) : bool :=
  match a, b with
  | [], [] => true
  | (x, y) :: a', (x', y') :: b' => (x =? x') && (y =? y') && nn_eqb a' b'
  | _, _ => false
  end.
Definition run_bop (s : bstate) (o : bop) : bstate * bool :=
  match o with
  | BAdd k => (b_add s (N.of_nat k), true)
  | BBackup => (b_backup s, true)
  | BDelete id => (b_delete s id, true)
  | BList obs => (s, nn_eqb (b_list s) obs)
  end.
Fixpoint run_bops (s : bstate) (k : N) (l : list bop) : list N :=
  match l with
  | [] => []
  | o :: r => let '(s', ok) := run_bop s o in (if ok then [] else [k]) ++ run_bops s' (k + 1) r
  end.
Definition run_backup_cases (cs : list (list bop)) : list (N * list N) :=
  filter (fun r => match snd r with [] => false | _ => true end)
    (map (fun '(k, c) => (k, run_bops binit 0 c)) (combine (map N.of_nat (seq 0 (length cs))) cs)).
