(* consensus/backup.go + storage/rocks backup engine: a backup is a copy of the durable state tagged with the
   version it was taken at (balloon version - 1, in uint64 arithmetic); identifiers grow and are never reused.
   Model, executable checker and proofs (C16). *)
From QV Require Import Base.Util.

Definition W64b : N := 18446744073709551616.

Record bstate := {
  bs_events : N;                       (* number of events in the log (the log itself is Fsm.node) *)
  bs_backups : list (N * N * N);       (* (id, recorded version, events held) in creation order *)
  bs_next : N                          (* next backup id *)
}.
Definition binit : bstate := {| bs_events := 0; bs_backups := []; bs_next := 1 |}.

Definition b_add (s : bstate) (k : N) : bstate :=
  {| bs_events := bs_events s + k; bs_backups := bs_backups s; bs_next := bs_next s |}.
Definition b_backup (s : bstate) : bstate :=
  {| bs_events := bs_events s;
     bs_backups := bs_backups s ++ [(bs_next s, (bs_events s + W64b - 1) mod W64b, bs_events s)];
     bs_next := bs_next s + 1 |}.
Definition b_delete (s : bstate) (id : N) : bstate :=
  {| bs_events := bs_events s; bs_backups := filter (fun b => negb (fst (fst b) =? id)) (bs_backups s); bs_next := bs_next s |}.
Definition b_list (s : bstate) : list (N * N) := map fst (bs_backups s).
(* restoring backup id yields a log with exactly that many events *)
Definition b_restore (s : bstate) (id : N) : option N :=
  match filter (fun b => fst (fst b) =? id) (bs_backups s) with (_, _, n) :: _ => Some n | [] => None end.

(* ---- proofs *)
Lemma b_list_backup s : b_list (b_backup s) = b_list s ++ [(bs_next s, (bs_events s + W64b - 1) mod W64b)].
Proof. unfold b_list, b_backup. cbn. rewrite map_app. reflexivity. Qed.

(* a backup taken at version v (v+1 events, v < 2^64) records v and restores to exactly v+1 events *)
Theorem backup_records_version s : 0 < bs_events s -> bs_events s <= W64b ->
  In (bs_next s, bs_events s - 1) (b_list (b_backup s)).
Proof.
  intros Hp Hle. rewrite b_list_backup. apply in_or_app. right. left. f_equal.
  replace (bs_events s + W64b - 1) with (bs_events s - 1 + 1 * W64b) by lia.
  rewrite N.mod_add by (unfold W64b; lia). apply N.mod_small. lia.
Qed.

Definition ids_below (s : bstate) : Prop := forall b, In b (bs_backups s) -> fst (fst b) < bs_next s.

Lemma ids_below_backup s : ids_below s -> ids_below (b_backup s).
Proof.
  intros H b Hin. cbn in Hin. apply in_app_or in Hin. cbn [bs_next b_backup].
  destruct Hin as [Hin|Hin]; [specialize (H b Hin); lia|]. destruct Hin as [Heq|[]]. subst b. cbn. lia.
Qed.

Theorem restore_of_new_backup s : ids_below s ->
  b_restore (b_backup s) (bs_next s) = Some (bs_events s).
Proof.
  intros Hid. unfold b_restore, b_backup. cbn [bs_backups]. rewrite filter_app.
  assert (Hgen : forall (l : list (N * N * N)), (forall b, In b l -> fst (fst b) < bs_next s) ->
                 filter (fun b : N * N * N => fst (fst b) =? bs_next s) l = []).
  { induction l as [|b l IH]; intros Hl; [reflexivity|]. cbn [filter].
    assert (Hb : fst (fst b) < bs_next s) by (apply Hl; left; reflexivity).
    assert (Hne : (fst (fst b) =? bs_next s) = false) by (apply N.eqb_neq; lia). rewrite Hne.
    apply IH. intros b' Hb'. apply Hl. right. exact Hb'. }
  assert (Hnone := Hgen (bs_backups s) Hid).
  rewrite Hnone. cbn. rewrite N.eqb_refl. reflexivity.
Qed.

(* later insertions, later backups and deletions of OTHER backups do not change what a backup restores to *)
Theorem restore_stable_add s id k : b_restore (b_add s k) id = b_restore s id.
Proof. reflexivity. Qed.
Theorem restore_stable_delete s id other : id <> other -> b_restore (b_delete s other) id = b_restore s id.
Proof.
  intros Hne. unfold b_restore, b_delete. cbn [bs_backups].
  induction (bs_backups s) as [|[[i v] n] l IH]; [reflexivity|]. cbn [filter fst].
  destruct (i =? other) eqn:Hio; cbn [negb filter fst].
  - apply N.eqb_eq in Hio. subst i. assert (Hx : (other =? id) = false) by (apply N.eqb_neq; congruence). rewrite Hx. exact IH.
  - destruct (i =? id); [reflexivity|exact IH].
Qed.

(* deleting removes exactly the named backup from the listing *)
Theorem delete_removes_only_named s id b :
  In b (b_list (b_delete s id)) <-> In b (b_list s) /\ fst b <> id.
Proof.
  unfold b_list, b_delete. cbn [bs_backups]. rewrite !in_map_iff. split.
  - intros [x [<- Hin]]. apply filter_In in Hin. destruct Hin as [Hin Hf]. apply negb_true_iff, N.eqb_neq in Hf.
    split; [exists x; split; [reflexivity|exact Hin]|exact Hf].
  - intros [[x [<- Hin]] Hne]. exists x. split; [reflexivity|]. apply filter_In. split; [exact Hin|].
    apply negb_true_iff, N.eqb_neq. exact Hne.
Qed.

(* ---- executable checker for the correspondence runs *)
Inductive bop := BAdd (k : nat) | BBackup | BDelete (id : N) | BList (obs : list (N * N)) | BRestore (id : N) (events : N).
Fixpoint nn_eqb (a b : list (N * N)) : bool :=
  match a, b with
  | [], [] => true
  | (x, y) :: a', (x', y') :: b' => (x =? x') && (y =? y') && nn_eqb a' b'
  | _, _ => false
  end.
Definition run_bop (s : bstate) (o : bop) : bstate * bool :=
  match o with
  | BAdd k => (b_add s (N.of_nat k), true)
  | BBackup => (b_backup s, true)
  | BDelete id => (b_delete s id, true)
  | BList obs => (s, nn_eqb (b_list s) obs)
  | BRestore id n => (s, match b_restore s id with Some m => m =? n | None => false end)
  end.

(* ---- the same machine with the events themselves: what a backup restores to is the log as it was when the
   backup was taken, a prefix of every later log; the counting model above is its image under `abs` *)
Section BackupEvents.
  Variable E : Type.
  Record estate := { es_events : list E; es_backups : list (N * list E); es_next : N }.
  Definition einit : estate := {| es_events := []; es_backups := []; es_next := 1 |}.
  Inductive eop := EAdd (c : list E) | EBackup | EDelete (id : N).
  Definition e_step (s : estate) (o : eop) : estate :=
    match o with
    | EAdd c => {| es_events := es_events s ++ c; es_backups := es_backups s; es_next := es_next s |}
    | EBackup => {| es_events := es_events s; es_backups := es_backups s ++ [(es_next s, es_events s)]; es_next := es_next s + 1 |}
    | EDelete id => {| es_events := es_events s; es_backups := filter (fun b => negb (fst b =? id)) (es_backups s); es_next := es_next s |}
    end.
  Definition e_restore (s : estate) (id : N) : option (list E) :=
    match filter (fun b => fst b =? id) (es_backups s) with (_, evs) :: _ => Some evs | [] => None end.

  Definition abs (s : estate) : bstate :=
    {| bs_events := N.of_nat (length (es_events s));
       bs_backups := map (fun b => (fst b, (N.of_nat (length (snd b)) + W64b - 1) mod W64b, N.of_nat (length (snd b)))) (es_backups s);
       bs_next := es_next s |}.
  Definition abs_op (o : eop) : bop :=
    match o with EAdd c => BAdd (length c) | EBackup => BBackup | EDelete id => BDelete id end.

  Lemma abs_step s o : abs (e_step s o) = fst (run_bop (abs s) (abs_op o)).
  Proof.
    destruct o as [c| |id]; cbn [e_step abs_op run_bop fst]; unfold abs, b_add, b_backup, b_delete; cbn [es_events es_backups es_next bs_events bs_backups bs_next].
    - rewrite app_length, Nat2N.inj_add. reflexivity.
    - rewrite map_app. reflexivity.
    - f_equal. induction (es_backups s) as [|[i evs] l IH]; [reflexivity|]. cbn [filter map fst snd].
      destruct (i =? id); cbn [negb map fst snd]; rewrite IH; reflexivity.
  Qed.

  Lemma abs_restore s id : b_restore (abs s) id = option_map (fun evs => N.of_nat (length evs)) (e_restore s id).
  Proof.
    unfold b_restore, e_restore, abs. cbn [bs_backups].
    induction (es_backups s) as [|[i evs] l IH]; [reflexivity|]. cbn [filter map fst snd].
    destruct (i =? id); [reflexivity|exact IH].
  Qed.

  (* invariant of every reachable state: identifiers are below the next one, and every backup holds a prefix of
     the current log *)
  Definition einv (s : estate) : Prop :=
    forall b, In b (es_backups s) -> fst b < es_next s /\ exists rest, es_events s = snd b ++ rest.

  Lemma einv_init : einv einit.
  Proof. intros b []. Qed.

  Lemma einv_step s o : einv s -> einv (e_step s o).
  Proof.
    intros Hi b Hin. destruct o as [c| |id]; cbn [e_step es_backups es_next es_events] in *.
    - destruct (Hi b Hin) as [Hlt [rest Hr]]. split; [exact Hlt|]. exists (rest ++ c). rewrite Hr, app_assoc. reflexivity.
    - apply in_app_or in Hin. destruct Hin as [Hin|[<-|[]]].
      + destruct (Hi b Hin) as [Hlt Hr]. split; [lia|exact Hr].
      + cbn. split; [lia|]. exists []. rewrite app_nil_r. reflexivity.
    - apply filter_In in Hin. exact (Hi b (proj1 Hin)).
  Qed.

  Theorem einv_reach ops : forall s, einv s -> einv (fold_left e_step ops s).
  Proof. induction ops as [|o ops IH]; intros s Hi; [exact Hi|]. cbn. apply IH, einv_step, Hi. Qed.

  Lemma e_restore_fresh s : einv s -> e_restore (e_step s EBackup) (es_next s) = Some (es_events s).
  Proof.
    intros Hi. unfold e_restore. cbn [e_step es_backups]. rewrite filter_app.
    assert (Hnone : filter (fun b : N * list E => fst b =? es_next s) (es_backups s) = []).
    { assert (Hall : forall b, In b (es_backups s) -> fst b < es_next s) by (intros b Hb; exact (proj1 (Hi b Hb))).
      induction (es_backups s) as [|b l IH]; [reflexivity|]. cbn [filter].
      assert (Hb : fst b < es_next s) by (apply Hall; left; reflexivity).
      assert (Hne : (fst b =? es_next s) = false) by (apply N.eqb_neq; lia). rewrite Hne.
      apply IH. intros b' Hb'. apply Hall. right. exact Hb'. }
    rewrite Hnone. cbn. rewrite N.eqb_refl. reflexivity.
  Qed.

  Definition not_delete (id : N) (o : eop) : Prop := match o with EDelete i => i <> id | _ => True end.

  Lemma e_restore_step s o id evs : not_delete id o -> e_restore s id = Some evs -> e_restore (e_step s o) id = Some evs.
  Proof.
    intros Hnd Hr. destruct o as [c| |other]; cbn [e_step]; unfold e_restore in *; cbn [es_backups] in *.
    - exact Hr.
    - rewrite filter_app. destruct (filter (fun b : N * list E => fst b =? id) (es_backups s)) as [|[i e] l]; [discriminate|exact Hr].
    - cbn in Hnd. revert Hr. induction (es_backups s) as [|[i e] l IH]; [discriminate|]. cbn [filter fst].
      destruct (i =? id) eqn:Hi.
      + apply N.eqb_eq in Hi. subst i. assert (Hx : (id =? other) = false) by (apply N.eqb_neq; congruence).
        rewrite Hx. cbn [negb filter fst]. rewrite N.eqb_refl. intros Hr. exact Hr.
      + intros Hr. destruct (i =? other); cbn [negb filter fst]; [|rewrite Hi]; exact (IH Hr).
  Qed.

  (* A backup taken in any reachable state s restores, after ANY later sequence of insertions, backups and
     deletions of other backups, to exactly the log as it was in s - which is a prefix of the later log:
     nothing added afterwards, nothing missing. *)
  Theorem backup_restores_log_as_of_backup ops : forall s, einv s ->
    Forall (not_delete (es_next s)) ops ->
    e_restore (fold_left e_step ops (e_step s EBackup)) (es_next s) = Some (es_events s) /\
    exists rest, es_events (fold_left e_step ops (e_step s EBackup)) = es_events s ++ rest.
  Proof.
    intros s Hi Hnd. set (id := es_next s) in *. set (evs := es_events s).
    assert (Hgen : forall ops s', Forall (not_delete id) ops -> e_restore s' id = Some evs ->
                   e_restore (fold_left e_step ops s') id = Some evs).
    { clear. induction ops as [|o ops IH]; intros s' Hf Hr; [exact Hr|]. cbn. inversion Hf as [|? ? Ho Hf']; subst.
      apply IH; [exact Hf'|]. apply e_restore_step; assumption. }
    assert (Hr : e_restore (fold_left e_step ops (e_step s EBackup)) id = Some evs).
    { apply Hgen; [exact Hnd|]. apply e_restore_fresh, Hi. }
    split; [exact Hr|].
    pose proof (einv_reach ops (e_step s EBackup) (einv_step s EBackup Hi)) as Hinv.
    unfold e_restore in Hr.
    destruct (filter (fun b : N * list E => fst b =? id) (es_backups (fold_left e_step ops (e_step s EBackup)))) as [|[i e] l] eqn:Hf; [discriminate|].
    injection Hr as ->. assert (Hin : In (i, evs) (es_backups (fold_left e_step ops (e_step s EBackup)))).
    { assert (Hin' : In (i, evs) ((i, evs) :: l)) by (left; reflexivity). rewrite <- Hf in Hin'. apply filter_In in Hin'. exact (proj1 Hin'). }
    exact (proj2 (Hinv _ Hin)).
  Qed.
End BackupEvents.

Fixpoint run_bops (s : bstate) (k : N) (l : list bop) : list N :=
  match l with
  | [] => []
  | o :: r => let '(s', ok) := run_bop s o in (if ok then [] else [k]) ++ run_bops s' (k + 1) r
  end.
Definition run_backup_cases (cs : list (list bop)) : list (N * list N) :=
  filter (fun r => match snd r with [] => false | _ => true end)
    (map (fun '(k, c) => (k, run_bops binit 0 c)) (combine (map N.of_nat (seq 0 (length cs))) cs)).
