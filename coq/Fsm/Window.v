(* consensus/raftnode.go: the apply path and the query path of one node.
   applyAdd = { balloon.Add/AddBulk (advances the in-memory version and caches and returns the mutations) ;
                store.Mutate (persists them together with the fsm state) }.
   Queries read the in-memory version/caches AND the stored tables.
   RaftNode.applyMu (a sync.RWMutex) is held for writing around the whole applyAdd and for reading around every
   query.  A schedule is the order in which the steps of the apply goroutine and of query goroutines complete;
   a step that its lock does not permit is not enabled (the run is None).
   locked = false is the same code without the lock discipline (the pinned commit). *)
From QV Require Import Base.Util.

Section Window.
  Variable E : Type.

  Record wst := { w_store : list E; w_mem : list E; w_pending : bool; w_writer : bool; w_readers : nat }.
  Definition winit (evs : list E) : wst :=
    {| w_store := evs; w_mem := evs; w_pending := false; w_writer := false; w_readers := 0 |}.

  Inductive wstep := WLock | WCompute (c : list E) | WPersist | WUnlock | RLock | RRead | RUnlock.

  (* what a query sees: (number of events the store holds, number of events the in-memory structures cover) *)
  Definition wobs := (nat * nat)%type.

  Definition wstep1 (locked : bool) (s : wst) (x : wstep) : option (wst * list wobs) :=
    match x with
    | WLock => if negb (w_writer s) && Nat.eqb (w_readers s) 0
               then Some ({| w_store := w_store s; w_mem := w_mem s; w_pending := w_pending s; w_writer := true; w_readers := w_readers s |}, [])
               else None
    | WCompute c => if (negb locked || w_writer s) && negb (w_pending s)
               then Some ({| w_store := w_store s; w_mem := w_mem s ++ c; w_pending := true; w_writer := w_writer s; w_readers := w_readers s |}, [])
               else None
    | WPersist => if w_pending s
               then Some ({| w_store := w_mem s; w_mem := w_mem s; w_pending := false; w_writer := w_writer s; w_readers := w_readers s |}, [])
               else None
    | WUnlock => if w_writer s && negb (w_pending s)
               then Some ({| w_store := w_store s; w_mem := w_mem s; w_pending := false; w_writer := false; w_readers := w_readers s |}, [])
               else None
    | RLock => if negb (w_writer s)
               then Some ({| w_store := w_store s; w_mem := w_mem s; w_pending := w_pending s; w_writer := false; w_readers := S (w_readers s) |}, [])
               else None
    | RRead => if negb locked || negb (Nat.eqb (w_readers s) 0)
               then Some (s, [(length (w_store s), length (w_mem s))])
               else None
    | RUnlock => match w_readers s with
                 | O => None
                 | S k => Some ({| w_store := w_store s; w_mem := w_mem s; w_pending := w_pending s; w_writer := w_writer s; w_readers := k |}, [])
                 end
    end.

  Fixpoint wrun (locked : bool) (s : wst) (sched : list wstep) : option (wst * list wobs) :=
    match sched with
    | [] => Some (s, [])
    | x :: r => match wstep1 locked s x with
                | None => None
                | Some (s1, o1) => match wrun locked s1 r with
                                   | None => None
                                   | Some (s2, o2) => Some (s2, o1 ++ o2)
                                   end
                end
    end.

  (* the invariant the lock discipline maintains *)
  Definition winv (s : wst) : Prop :=
    (w_pending s = true -> w_writer s = true) /\
    (w_readers s <> O -> w_writer s = false) /\
    (w_pending s = false -> w_mem s = w_store s).

  Lemma winv_init evs : winv (winit evs).
  Proof. repeat split; cbn; intros; try discriminate; congruence. Qed.

  Lemma wstep1_inv s x s' o : winv s -> wstep1 true s x = Some (s', o) ->
    winv s' /\ Forall (fun ob => fst ob = snd ob) o.
  Proof.
    intros (H1 & H2 & H3) Hs. destruct x; cbn in Hs.
    - destruct (w_writer s) eqn:Hw; cbn in Hs; [discriminate|]. destruct (Nat.eqb_spec (w_readers s) 0) as [Hr|Hr]; [|discriminate].
      injection Hs as <- <-. split; [|constructor]. repeat split; cbn; intros; auto; congruence.
    - destruct (w_writer s) eqn:Hw; cbn in Hs; [|discriminate]. destruct (w_pending s) eqn:Hp; cbn in Hs; [discriminate|].
      injection Hs as <- <-. split; [|constructor]. repeat split; cbn; intros; auto; try discriminate.
    - destruct (w_pending s) eqn:Hp; [|discriminate]. injection Hs as <- <-. split; [|constructor].
      repeat split; cbn; intros; auto; discriminate.
    - destruct (w_writer s) eqn:Hw; cbn in Hs; [|discriminate]. destruct (w_pending s) eqn:Hp; cbn in Hs; [discriminate|].
      injection Hs as <- <-. split; [|constructor]. repeat split; cbn; intros; auto; discriminate.
    - destruct (w_writer s) eqn:Hw; cbn in Hs; [discriminate|]. injection Hs as <- <-. split; [|constructor].
      repeat split; cbn; intros; auto; try discriminate.
    - destruct (Nat.eqb_spec (w_readers s) 0) as [Hr|Hr]; cbn in Hs; [discriminate|]. injection Hs as <- <-.
      split; [repeat split; assumption|]. constructor; [|constructor]. cbn.
      specialize (H2 Hr). destruct (w_pending s) eqn:Hp; [specialize (H1 eq_refl); congruence|]. rewrite (H3 eq_refl). reflexivity.
    - destruct (w_readers s) as [|k] eqn:Hr; [discriminate|]. injection Hs as <- <-. split; [|constructor].
      repeat split; cbn; intros; auto; try (apply H2; discriminate).
  Qed.

  (* every query in every schedule the lock permits sees the in-memory structures and the store at the same
     version: never a mix of before and after an insertion *)
  Theorem window_consistent sched : forall s s' obs, winv s -> wrun true s sched = Some (s', obs) ->
    winv s' /\ Forall (fun ob => fst ob = snd ob) obs.
  Proof.
    induction sched as [|x r IH]; intros s s' obs Hi Hr; cbn in Hr.
    - injection Hr as <- <-. split; [exact Hi|constructor].
    - destruct (wstep1 true s x) as [[s1 o1]|] eqn:H1; [|discriminate].
      destruct (wrun true s1 r) as [[s2 o2]|] eqn:H2; [|discriminate]. injection Hr as <- <-.
      destruct (wstep1_inv s x s1 o1 Hi H1) as [Hi1 Ho1]. destruct (IH s1 s2 o2 Hi1 H2) as [Hi2 Ho2].
      split; [exact Hi2|]. apply Forall_app. split; assumption.
  Qed.

  (* without the lock discipline a query between "computed" and "persisted" sees a mixed state *)
  Theorem window_unlocked_refuted (e : E) :
    exists sched s' obs, wrun false (winit []) sched = Some (s', obs) /\ Exists (fun ob => fst ob <> snd ob) obs.
  Proof.
    exists [WCompute [e]; RRead; WPersist]. eexists. eexists. split; [reflexivity|].
    constructor. cbn. discriminate.
  Qed.

  (* and the lock discipline does not permit that schedule at all: the query waits *)
  Theorem window_query_waits evs c : wrun true (winit evs) [WLock; WCompute c; RLock] = None.
  Proof. reflexivity. Qed.
End Window.

(* ---- in-kernel execution for the correspondence run: a case is an observed schedule with the observations
   the queries made (store size, in-memory size); the model must permit the schedule and predict them *)
Definition wobs_eqb (a b : list (nat * nat)) : bool :=
  Nat.eqb (length a) (length b) && forallb (fun p => Nat.eqb (fst (fst p)) (fst (snd p)) && Nat.eqb (snd (fst p)) (snd (snd p))) (combine a b).

Definition wcase := (nat * list (wstep N) * list (nat * nat))%type.
Definition run_window_cases (cs : list wcase) : list N :=
  map fst (filter (fun kc => let '(k, (old, sched, obs)) := kc in
                     match wrun N true (winit N (map N.of_nat (seq 0 old))) sched with
                     | Some (_, o) => negb (wobs_eqb o obs)
                     | None => true
                     end)
                  (combine (map N.of_nat (seq 0 (length cs))) cs)).
