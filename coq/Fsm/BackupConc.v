(* consensus/backup.go CreateBackup against the apply path of the same node (consensus/fsm.go applyAdd), as a step
   machine over schedules (the style of Fsm/Window.v):
     applyAdd     = applyMu.Lock ; balloon.AddBulk (in-memory version advances) ; store.Mutate ; applyMu.Unlock
     CreateBackup = applyMu.RLock ; v := balloon.Version() ; db.Backup("v-1") (copies the store) ; applyMu.RUnlock
     a query      = applyMu.RLock ; ... ; applyMu.RUnlock                 (any number of them)
   A schedule is the order in which these steps complete; a step its lock does not permit is not enabled (run = None).
   Three lock disciplines of CreateBackup:
     LockAll   the read lock is held from before the version is read until the copy is finished (the code at HEAD);
     LockRead  the read lock is released after the version is read, before the copy (a "hold it briefly" rewrite);
     NoLock    CreateBackup ignores applyMu (the pinned commit).
   Observable: for every backup, (the log as the in-memory structures had it when the version was read - what the
   metadata "version = length - 1" names, the log the copied store holds - what a restore yields). *)
From QV Require Import Base.Util.

Section BackupConc.
  Variable E : Type.

  Inductive disc := LockAll | LockRead | NoLock.

  Record cst := {
    c_store : list E; c_mem : list E; c_pending : bool;
    c_writer : bool; c_readers : nat;          (* applyMu: the writer, the queries holding it shared *)
    c_block : bool;                            (* CreateBackup holds it shared *)
    c_bver : option (list E)                   (* CreateBackup has read the version (the log it names) and not copied yet *)
  }.
  Definition cinit (evs : list E) : cst :=
    {| c_store := evs; c_mem := evs; c_pending := false; c_writer := false; c_readers := 0; c_block := false; c_bver := None |}.

  Inductive cstep :=
  | AWLock | ACompute (c : list E) | APersist | AWUnlock     (* the apply goroutine *)
  | QLock | QUnlock                                           (* queries *)
  | BLock | BRead | BCopy | BUnlock.                          (* CreateBackup (n.Lock serialises backups: one at a time) *)

  Definition upd (s : cst) store mem pending writer readers block bver : cst :=
    {| c_store := store; c_mem := mem; c_pending := pending; c_writer := writer; c_readers := readers; c_block := block; c_bver := bver |}.

  Definition cstep1 (d : disc) (s : cst) (x : cstep) : option (cst * list (list E * list E)) :=
    match x with
    | AWLock => if negb (c_writer s) && Nat.eqb (c_readers s) 0 && negb (c_block s)
                then Some (upd s (c_store s) (c_mem s) (c_pending s) true (c_readers s) (c_block s) (c_bver s), []) else None
    | ACompute c => if c_writer s && negb (c_pending s)
                then Some (upd s (c_store s) (c_mem s ++ c) true (c_writer s) (c_readers s) (c_block s) (c_bver s), []) else None
    | APersist => if c_pending s
                then Some (upd s (c_mem s) (c_mem s) false (c_writer s) (c_readers s) (c_block s) (c_bver s), []) else None
    | AWUnlock => if c_writer s && negb (c_pending s)
                then Some (upd s (c_store s) (c_mem s) false false (c_readers s) (c_block s) (c_bver s), []) else None
    | QLock => if negb (c_writer s)
                then Some (upd s (c_store s) (c_mem s) (c_pending s) false (S (c_readers s)) (c_block s) (c_bver s), []) else None
    | QUnlock => match c_readers s with
                 | O => None
                 | S k => Some (upd s (c_store s) (c_mem s) (c_pending s) (c_writer s) k (c_block s) (c_bver s), [])
                 end
    | BLock => match d with
               | NoLock => None
               | _ => if negb (c_writer s) && negb (c_block s) && match c_bver s with None => true | Some _ => false end
                      then Some (upd s (c_store s) (c_mem s) (c_pending s) false (c_readers s) true None, []) else None
               end
    | BRead => match c_bver s with
               | Some _ => None
               | None => if match d with NoLock => true | _ => c_block s end
                         then Some (upd s (c_store s) (c_mem s) (c_pending s) (c_writer s) (c_readers s) (c_block s) (Some (c_mem s)), [])
                         else None
               end
    | BCopy => match c_bver s with
               | None => None
               | Some m => if match d with LockAll => c_block s | LockRead => negb (c_block s) | NoLock => true end
                           then Some (upd s (c_store s) (c_mem s) (c_pending s) (c_writer s) (c_readers s) (c_block s) None, [(m, c_store s)])
                           else None
               end
    | BUnlock => if c_block s && match d with LockAll => (match c_bver s with None => true | Some _ => false end) | _ => true end
                 then Some (upd s (c_store s) (c_mem s) (c_pending s) (c_writer s) (c_readers s) false (c_bver s), []) else None
    end.

  Fixpoint crun (d : disc) (s : cst) (sched : list cstep) : option (cst * list (list E * list E)) :=
    match sched with
    | [] => Some (s, [])
    | x :: r => match cstep1 d s x with
                | None => None
                | Some (s1, o1) => match crun d s1 r with
                                   | None => None
                                   | Some (s2, o2) => Some (s2, o1 ++ o2)
                                   end
                end
    end.

  (* the invariant the full lock discipline maintains *)
  Definition cinv (s : cst) : Prop :=
    (c_pending s = true -> c_writer s = true) /\
    (c_writer s = true -> c_readers s = O /\ c_block s = false) /\
    (c_pending s = false -> c_mem s = c_store s) /\
    (forall m, c_bver s = Some m -> c_block s = true /\ m = c_mem s).

  Lemma cinv_init evs : cinv (cinit evs).
  Proof. unfold cinv, cinit; cbn. repeat split; intros; try discriminate; reflexivity. Qed.

  Ltac simp_hyps :=
    repeat match goal with
           | H : ?a = ?a -> _ |- _ => specialize (H eq_refl)
           | H : true = false -> _ |- _ => clear H
           | H : false = true -> _ |- _ => clear H
           | H : _ /\ _ |- _ => destruct H
           | H : True |- _ => clear H
           end.
  Ltac fin := first [ discriminate | reflexivity | congruence | (split; [first [discriminate|reflexivity|congruence] | first [discriminate|reflexivity|congruence]]) ].

  Lemma cstep1_inv s x s' o : cinv s -> cstep1 LockAll s x = Some (s', o) ->
    cinv s' /\ Forall (fun b => fst b = snd b) o.
  Proof.
    intros Hi Hs. destruct s as [st me pe wr rd bl bv]. unfold cinv in *.
    cbn [c_store c_mem c_pending c_writer c_readers c_block c_bver] in *.
    destruct Hi as (H1 & H2 & H3 & H4).
    assert (H4' : match bv with Some m => bl = true /\ m = me | None => True end)
      by (destruct bv; [apply H4; reflexivity|exact I]).
    clear H4.
    destruct x; cbn in Hs.
    all: destruct wr, pe, bl; cbn in Hs; try discriminate Hs.
    all: destruct rd; cbn in Hs; try discriminate Hs.
    all: destruct bv; try discriminate Hs; injection Hs as <- <-.
    all: cbn [c_store c_mem c_pending c_writer c_readers c_block c_bver upd].
    all: simp_hyps; try discriminate; subst.
    all: split; [ split; [|split; [|split]] | ].
    all: intros.
    all: try (timeout 5 fin).
    all: first [ apply Forall_nil | apply Forall_cons; [reflexivity|apply Forall_nil] ].
  Qed.

  (* every backup of every schedule the lock permits - any number of insertions, queries and backups in any
     interleaving - holds exactly the log its recorded version names *)
  Theorem backup_consistent sched : forall s s' outs, cinv s -> crun LockAll s sched = Some (s', outs) ->
    cinv s' /\ Forall (fun b => fst b = snd b) outs.
  Proof.
    induction sched as [|x r IH]; intros s s' outs Hi Hr; cbn in Hr.
    - injection Hr as <- <-. split; [exact Hi|constructor].
    - destruct (cstep1 LockAll s x) as [[s1 o1]|] eqn:H1; [|discriminate].
      destruct (crun LockAll s1 r) as [[s2 o2]|] eqn:H2; [|discriminate]. injection Hr as <- <-.
      destruct (cstep1_inv s x s1 o1 Hi H1) as [Hi1 Ho1]. destruct (IH s1 s2 o2 Hi1 H2) as [Hi2 Ho2].
      split; [exact Hi2|]. apply Forall_app. split; assumption.
  Qed.

  (* released after the version is read: an insertion completes between the read and the copy, the backup holds MORE
     than its recorded version names *)
  Theorem backup_lock_released_early_refuted (e : E) :
    exists sched s' outs, crun LockRead (cinit []) sched = Some (s', outs) /\
      Exists (fun b => length (snd b) = S (length (fst b))) outs.
  Proof.
    exists [BLock; BRead; BUnlock; AWLock; ACompute [e]; APersist; AWUnlock; BCopy]. eexists. eexists.
    split; [vm_compute; reflexivity|]. apply Exists_cons_hd. reflexivity.
  Qed.

  (* no lock at all (the pinned commit): the version is read between "computed" and "persisted", the backup holds LESS
     than its recorded version names *)
  Theorem backup_unlocked_refuted (e : E) :
    exists sched s' outs, crun NoLock (cinit []) sched = Some (s', outs) /\
      Exists (fun b => length (fst b) = S (length (snd b))) outs.
  Proof.
    exists [AWLock; ACompute [e]; BRead; BCopy; APersist; AWUnlock]. eexists. eexists.
    split; [vm_compute; reflexivity|]. apply Exists_cons_hd. reflexivity.
  Qed.

  (* the full discipline does not permit either schedule: the insertion waits for the backup, the backup for the insertion *)
  Theorem backup_insertion_waits c : crun LockAll (cinit []) [BLock; BRead; AWLock] = None /\
                                     crun LockAll (cinit []) [AWLock; ACompute c; BLock] = None.
  Proof. split; vm_compute; reflexivity. Qed.

  (* non-vacuity: a schedule with two insertions, a query and two backups that the discipline permits *)
  Example backup_schedule_permitted (e1 e2 : E) :
    exists s' , crun LockAll (cinit []) [AWLock; ACompute [e1]; APersist; AWUnlock; QLock; BLock; BRead; BCopy; QUnlock; BUnlock;
                                         AWLock; ACompute [e2]; APersist; AWUnlock; BLock; BRead; BCopy; BUnlock]
                = Some (s', [([e1], [e1]); ([e1; e2], [e1; e2])]).
  Proof. eexists. vm_compute. reflexivity. Qed.
End BackupConc.
