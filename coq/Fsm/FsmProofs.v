(* C05-C09 at the state-machine level: for every committed log, every way raft may (re)deliver it across
   restarts and crashes, every replica. *)
From QV Require Import Base.Util Fsm.Fsm.

Section FsmProofs.
  Variable E : Type.
  Notation node := (node E).
  Notation apply := (apply E).
  Notation deliver := (deliver E).
  Notation rlog := (rlog E).

  (* a well-formed committed log: raft indexes start above lo and increase, no empty command (C11 keeps them out) *)
  Fixpoint wf_log (lo : N) (l : rlog) : Prop :=
    match l with
    | [] => True
    | (idx, cmd) :: r => lo < idx /\ cmd <> [] /\ wf_log idx r
    end.

  Definition events_of (l : rlog) : list E := concat (map snd l).
  Definition last_index (l : rlog) : N := match rev l with [] => 0 | (i, _) :: _ => i end.

  (* the durable state of a node that has applied exactly the entries `done` *)
  Definition state_of (done : rlog) : node :=
    {| n_events := events_of done; n_index := last_index done;
       n_version := match done with [] => 0 | _ => N.of_nat (length (events_of done)) - 1 end |}.

  Lemma events_of_app a b : events_of (a ++ b) = events_of a ++ events_of b.
  Proof. unfold events_of. rewrite map_app, concat_app. reflexivity. Qed.

  Lemma last_index_snoc p i c : last_index (p ++ [(i, c)]) = i.
  Proof. unfold last_index. rewrite rev_app_distr. reflexivity. Qed.

  Lemma wf_log_indexes lo l : wf_log lo l -> forall i c, In (i, c) l -> lo < i.
  Proof.
    revert lo. induction l as [|[j d] l IH]; intros lo H i c Hin; [destruct Hin|].
    destruct H as (H1 & _ & H3). destruct Hin as [Heq|Hin]; [injection Heq as <- _; exact H1|].
    pose proof (IH j H3 i c Hin). lia.
  Qed.

  Lemma wf_log_weaken lo lo' l : lo' <= lo -> wf_log lo l -> wf_log lo' l.
  Proof. destruct l as [|[i c] r]; [intros; exact I|]. cbn. intros Hle (H1 & H2 & H3). repeat split; [lia|exact H2|exact H3]. Qed.

  Lemma last_index_cons x (l : rlog) : last_index (x :: l) = match l with [] => fst x | _ => last_index l end.
  Proof.
    unfold last_index. cbn [rev]. destruct l as [|y l']; [destruct x; reflexivity|].
    destruct (rev (y :: l')) as [|[j d] r] eqn:Hr; [|reflexivity].
    apply (f_equal (@length _)) in Hr. rewrite rev_length in Hr. discriminate.
  Qed.

  (* every index in `done` is at most last_index done (and above lo); a later entry's index is beyond it *)
  Lemma wf_log_split done : forall lo i c todo,
    wf_log lo (done ++ (i, c) :: todo) ->
    last_index done < i /\ (forall j d, In (j, d) done -> j <= last_index done /\ lo < j) /\ c <> [] /\ wf_log i todo.
  Proof.
    induction done as [|[k e] done IH]; intros lo i c todo H.
    - cbn in H. destruct H as (H1 & H2 & H3). split; [unfold last_index; cbn; lia|]. split; [intros ? ? []|]. split; assumption.
    - cbn [app wf_log] in H. destruct H as (Hk & He & Hr). destruct (IH k i c todo Hr) as (H1 & H2 & H3 & H4).
      rewrite last_index_cons. cbn [fst].
      assert (Hi : k < i).
      { destruct done as [|[j0 d0] done']; [cbn in Hr; destruct Hr; lia|].
        destruct (H2 j0 d0 (or_introl eq_refl)). lia. }
      destruct done as [|[j0 d0] done'].
      + split; [exact Hi|]. split; [|split; assumption].
        intros j d [Heq|[]]. injection Heq as <- _. split; lia.
      + split; [exact H1|]. split; [|split; assumption].
        intros j d [Heq|Hin].
        * injection Heq as <- _. destruct (H2 j0 d0 (or_introl eq_refl)). split; lia.
        * destruct (H2 j d Hin). split; lia.
  Qed.

  (* a fresh entry is applied: its events get the next versions, the state moves on *)
  Lemma apply_fresh done i c todo :
    wf_log 0 (done ++ (i, c) :: todo) -> N.of_nat (length (events_of (done ++ [(i, c)]))) < W64 ->
    apply (state_of done) i c = (state_of (done ++ [(i, c)]), Applied (N.of_nat (length (events_of done))) (length c)).
  Proof.
    intros Hwf Hlen. destruct (wf_log_split done 0 i c todo Hwf) as (Hlt & Hall & Hc & _).
    unfold Fsm.apply. cbn [n_index n_events n_version state_of].
    assert (H1 : (i <=? last_index done) = false) by (apply N.leb_gt; exact Hlt). rewrite H1. cbn [andb].
    rewrite events_of_app in Hlen. unfold events_of at 2 in Hlen. cbn [map concat snd] in Hlen. rewrite app_nil_r, app_length in Hlen.
    assert (Hcl : (0 < length c)%nat) by (destruct c; [contradiction|cbn; lia]).
    set (ver := N.of_nat (length (events_of done))) in *.
    assert (Hnv : (ver + N.of_nat (length c) + W64 - 1) mod W64 = ver + N.of_nat (length c) - 1).
    { replace (ver + N.of_nat (length c) + W64 - 1) with (ver + N.of_nat (length c) - 1 + 1 * W64) by lia.
      rewrite N.mod_add by (unfold W64; lia). apply N.mod_small. lia. }
    rewrite Hnv.
    assert (Hguard : (0 <? ver + N.of_nat (length c) - 1) && (ver + N.of_nat (length c) - 1 <=? match done with [] => 0 | _ => ver - 1 end) = false).
    { destruct done as [|x d'].
      - unfold ver, events_of. cbn. destruct (0 <? _) eqn:Hp; [|reflexivity]. apply N.ltb_lt in Hp. cbn. apply N.leb_gt. lia.
      - apply andb_false_iff. right. apply N.leb_gt.
        assert (0 < ver).
        { (* a non-empty prefix of a well-formed log holds at least one event *)
          unfold ver. destruct x as [j d]. rewrite <- app_comm_cons in Hwf. cbn [wf_log] in Hwf. destruct Hwf as (_ & Hd & _).
          unfold events_of. cbn [map concat snd]. rewrite app_length. destruct d; [contradiction|cbn; lia]. }
        lia. }
    rewrite Hguard. destruct c as [|e c']; [contradiction|].
    f_equal. unfold state_of. rewrite events_of_app, last_index_snoc.
    assert (Hsingle : events_of [(i, e :: c')] = e :: c') by (unfold events_of; cbn; rewrite app_nil_r; reflexivity).
    rewrite Hsingle. f_equal.
    assert (Hnn : match done ++ [(i, e :: c')] with [] => 0 | _ :: _ => N.of_nat (length (events_of done ++ e :: c')) - 1 end
                  = N.of_nat (length (events_of done ++ e :: c')) - 1) by (destruct done; reflexivity).
    rewrite Hnn, app_length. fold ver. lia.
  Qed.

  Lemma index_le_last done : forall lo j d, wf_log lo done -> In (j, d) done -> j <= last_index done.
  Proof.
    induction done as [|[k e] done IH]; intros lo j d Hwf Hin; [destruct Hin|].
    cbn [wf_log] in Hwf. destruct Hwf as (Hk & _ & Hr). rewrite last_index_cons. cbn [fst].
    destruct done as [|[j0 d0] done'].
    - destruct Hin as [Heq|[]]. injection Heq as <- _. lia.
    - destruct Hin as [Heq|Hin]; [|exact (IH k j d Hr Hin)].
      injection Heq as <- _. pose proof (IH k j0 d0 Hr (or_introl eq_refl)).
      pose proof (wf_log_indexes k _ Hr j0 d0 (or_introl eq_refl)). lia.
  Qed.

  (* an entry applied before is skipped, whatever it contains, and changes nothing *)
  Lemma apply_old done j d :
    wf_log 0 done -> In (j, d) done -> apply (state_of done) j d = (state_of done, AlreadyApplied).
  Proof.
    intros Hwf Hin. unfold Fsm.apply. cbn [n_index state_of].
    pose proof (index_le_last done 0 j d Hwf Hin) as H1.
    pose proof (wf_log_indexes 0 done Hwf j d Hin) as H2.
    assert (Ha : (j <=? last_index done) = true) by (apply N.leb_le; exact H1).
    assert (Hb : (last_index done =? 0) = false) by (apply N.eqb_neq; lia).
    rewrite Ha, Hb. reflexivity.
  Qed.

  (* ---- deliveries *)
  Fixpoint applied_outs (v : N) (es : rlog) : list outcome :=
    match es with
    | [] => []
    | (_, c) :: r => Applied v (length c) :: applied_outs (v + N.of_nat (length c)) r
    end.

  Lemma deliver_old done es :
    wf_log 0 done -> (forall x, In x es -> In x done) ->
    deliver (state_of done) es = (state_of done, map (fun _ => AlreadyApplied) es).
  Proof.
    intros Hwf. induction es as [|[j d] es IH]; intros Hall; [reflexivity|].
    cbn [Fsm.deliver map]. rewrite apply_old by (try exact Hwf; apply Hall; left; reflexivity).
    rewrite IH by (intros x Hx; apply Hall; right; exact Hx). reflexivity.
  Qed.

  Lemma wf_log_prefix lo a b : wf_log lo (a ++ b) -> wf_log lo a.
  Proof.
    revert lo. induction a as [|[i c] a IH]; intros lo H; [exact I|]. cbn [app wf_log] in *.
    destruct H as (H1 & H2 & H3). repeat split; [exact H1|exact H2|exact (IH i H3)].
  Qed.

  Lemma deliver_fresh es : forall done rest,
    wf_log 0 (done ++ es ++ rest) -> N.of_nat (length (events_of (done ++ es))) < W64 ->
    deliver (state_of done) es = (state_of (done ++ es), applied_outs (N.of_nat (length (events_of done))) es).
  Proof.
    induction es as [|[i c] es IH]; intros done rest Hwf Hlen; [rewrite app_nil_r; reflexivity|].
    cbn [Fsm.deliver applied_outs]. cbn [app] in Hwf.
    assert (Hlen1 : N.of_nat (length (events_of (done ++ [(i, c)]))) < W64).
    { rewrite !events_of_app, !app_length in *. unfold events_of in *. cbn [map concat snd] in *. rewrite !app_length in *. cbn [length] in *. lia. }
    rewrite (apply_fresh done i c (es ++ rest) Hwf Hlen1).
    replace (done ++ (i, c) :: es ++ rest) with ((done ++ [(i, c)]) ++ es ++ rest) in Hwf by (rewrite <- app_assoc; reflexivity).
    replace (done ++ (i, c) :: es) with ((done ++ [(i, c)]) ++ es) in * by (rewrite <- app_assoc; reflexivity).
    rewrite (IH (done ++ [(i, c)]) rest Hwf Hlen).
    f_equal. f_equal. f_equal. rewrite events_of_app, app_length. unfold events_of at 2. cbn [map concat snd]. rewrite app_nil_r. lia.
  Qed.

  (* one incarnation: raft re-delivers some entries applied before (old) and then the next ones (fresh) *)
  Theorem incarnation_correct done old fresh rest :
    wf_log 0 (done ++ fresh ++ rest) -> N.of_nat (length (events_of (done ++ fresh))) < W64 ->
    (forall x, In x old -> In x done) ->
    deliver (state_of done) (old ++ fresh) =
      (state_of (done ++ fresh), map (fun _ => AlreadyApplied) old ++ applied_outs (N.of_nat (length (events_of done))) fresh).
  Proof.
    intros Hwf Hlen Hold.
    assert (Hsplit : forall n a b, deliver n (a ++ b) =
              let '(n1, o1) := deliver n a in let '(n2, o2) := deliver n1 b in (n2, o1 ++ o2)).
    { intros n a. revert n. induction a as [|[i c] a IHa]; intros n b; cbn [app Fsm.deliver].
      - destruct (deliver n b); reflexivity.
      - destruct (apply n i c) as [n1 o]. rewrite IHa. destruct (deliver n1 a) as [n2 o2]. destruct (deliver n2 b). reflexivity. }
    rewrite Hsplit. rewrite deliver_old by (try exact Hold; exact (wf_log_prefix 0 done _ Hwf)).
    rewrite (deliver_fresh fresh done rest Hwf Hlen). reflexivity.
  Qed.

  (* C05 / C07 / C08: a whole life.  However often the process stops, crashes and restarts, and wherever raft
     resumes delivery (at or before the first entry not yet applied), the durable state after the incarnations
     is the state after applying each committed entry exactly once, in order; no delivery panics; every fresh
     entry gets the dense version range that follows the previous one. *)
  Fixpoint life_spec (done : rlog) (incs : list (rlog * rlog)) : rlog * list (list outcome) :=
    match incs with
    | [] => (done, [])
    | (old, fresh) :: r =>
        let '(d, oss) := life_spec (done ++ fresh) r in
        (d, (map (fun _ => AlreadyApplied) old ++ applied_outs (N.of_nat (length (events_of done))) fresh) :: oss)
    end.

  Fixpoint olds_ok (done : rlog) (incs : list (rlog * rlog)) : Prop :=
    match incs with
    | [] => True
    | (old, fresh) :: r => (forall x, In x old -> In x done) /\ olds_ok (done ++ fresh) r
    end.

  Theorem life_correct incs : forall done rest,
    wf_log 0 (done ++ concat (map snd incs) ++ rest) ->
    N.of_nat (length (events_of (done ++ concat (map snd incs)))) < W64 ->
    olds_ok done incs ->
    life E (state_of done) (map (fun of => fst of ++ snd of) incs) =
      (state_of (fst (life_spec done incs)), snd (life_spec done incs)) /\
    fst (life_spec done incs) = done ++ concat (map snd incs).
  Proof.
    induction incs as [|[old fresh] incs IH]; intros done rest Hwf Hlen Hok.
    - cbn. rewrite app_nil_r. split; reflexivity.
    - cbn [map concat snd fst Fsm.life life_spec olds_ok] in *. destruct Hok as [Hold Hok].
      rewrite <- app_assoc in Hwf.
      assert (Hlen1 : N.of_nat (length (events_of (done ++ fresh))) < W64).
      { rewrite app_assoc, (events_of_app (done ++ fresh)), app_length in Hlen. lia. }
      rewrite (incarnation_correct done old fresh (concat (map snd incs) ++ rest) Hwf Hlen1 Hold).
      rewrite app_assoc in Hwf, Hlen.
      destruct (IH (done ++ fresh) rest Hwf Hlen Hok) as [Hl Hd].
      rewrite Hl. destruct (life_spec (done ++ fresh) incs) as [d oss]. cbn [fst snd] in *.
      split; [reflexivity|]. rewrite Hd, <- app_assoc. reflexivity.
  Qed.

  (* C06: replicas that have applied the same committed prefix are in the same durable state - there is
     nothing else in state_of than the prefix *)
  Theorem replicas_agree done incs1 incs2 rest1 rest2 :
    wf_log 0 (done ++ concat (map snd incs1) ++ rest1) -> wf_log 0 (done ++ concat (map snd incs2) ++ rest2) ->
    N.of_nat (length (events_of (done ++ concat (map snd incs1)))) < W64 ->
    olds_ok done incs1 -> olds_ok done incs2 ->
    concat (map snd incs1) = concat (map snd incs2) ->
    fst (life E (state_of done) (map (fun of => fst of ++ snd of) incs1)) =
    fst (life E (state_of done) (map (fun of => fst of ++ snd of) incs2)).
  Proof.
    intros Hw1 Hw2 Hl Ho1 Ho2 Heq.
    destruct (life_correct incs1 done rest1 Hw1 Hl Ho1) as [H1 H1'].
    assert (Hl2 : N.of_nat (length (events_of (done ++ concat (map snd incs2)))) < W64) by (rewrite <- Heq; exact Hl).
    destruct (life_correct incs2 done rest2 Hw2 Hl2 Ho2) as [H2 H2'].
    rewrite H1, H2. cbn [fst]. rewrite H1', H2', Heq. reflexivity.
  Qed.


  (* ---- C05: the versions issued over a whole life *)
  Fixpoint nseq (v : N) (n : nat) : list N := match n with O => [] | S k => v :: nseq (v + 1) k end.
  Definition issued (os : list outcome) : list N :=
    concat (map (fun o => match o with Applied v c => nseq v c | _ => [] end) os).

  Lemma nseq_app a : forall v b, nseq v (a + b) = nseq v a ++ nseq (v + N.of_nat a) b.
  Proof.
    induction a as [|a IH]; intros v b; cbn [nseq Nat.add app].
    - rewrite N.add_0_r. reflexivity.
    - rewrite IH. do 3 f_equal. lia.
  Qed.

  Lemma issued_app a b : issued (a ++ b) = issued a ++ issued b.
  Proof. unfold issued. rewrite map_app, concat_app. reflexivity. Qed.

  Lemma issued_old (old : rlog) : issued (map (fun _ => AlreadyApplied) old) = [].
  Proof. induction old as [|x old IH]; [reflexivity|]. unfold issued in *. cbn. exact IH. Qed.

  Lemma issued_applied_outs es : forall v, issued (applied_outs v es) = nseq v (length (events_of es)).
  Proof.
    induction es as [|[i c] es IH]; intros v; [reflexivity|].
    cbn [applied_outs]. change (issued (Applied v (length c) :: applied_outs (v + N.of_nat (length c)) es))
      with (nseq v (length c) ++ issued (applied_outs (v + N.of_nat (length c)) es)).
    rewrite IH. unfold events_of. cbn [map concat snd]. rewrite app_length, nseq_app. reflexivity.
  Qed.

  Lemma issued_life_spec incs : forall done,
    issued (concat (snd (life_spec done incs))) =
      nseq (N.of_nat (length (events_of done))) (length (events_of (concat (map snd incs)))).
  Proof.
    induction incs as [|[old fresh] incs IH]; intros done; [reflexivity|].
    cbn [life_spec map concat snd]. specialize (IH (done ++ fresh)).
    destruct (life_spec (done ++ fresh) incs) as [d oss]. cbn [snd concat] in *.
    rewrite !issued_app, issued_old, issued_applied_outs, IH. cbn [app].
    rewrite (events_of_app fresh), !app_length, nseq_app, events_of_app, app_length. do 2 f_equal. lia.
  Qed.

  (* over any life (any number of stops, kills, replays of already applied entries), the versions handed out
     are exactly |done|, |done|+1, ... one per accepted event, in order, none skipped, none twice; the final
     state holds exactly the accepted events *)
  Theorem versions_dense incs done rest :
    wf_log 0 (done ++ concat (map snd incs) ++ rest) ->
    N.of_nat (length (events_of (done ++ concat (map snd incs)))) < W64 ->
    olds_ok done incs ->
    issued (concat (snd (life E (state_of done) (map (fun of => fst of ++ snd of) incs)))) =
      nseq (N.of_nat (length (events_of done))) (length (events_of (concat (map snd incs)))) /\
    n_events E (fst (life E (state_of done) (map (fun of => fst of ++ snd of) incs))) =
      events_of done ++ events_of (concat (map snd incs)).
  Proof.
    intros Hwf Hlen Hok. destruct (life_correct incs done rest Hwf Hlen Hok) as [Hl Hd].
    rewrite Hl. cbn [fst snd]. split; [apply issued_life_spec|]. rewrite Hd. cbn [state_of n_events]. apply events_of_app.
  Qed.

  (* ---- C08: a clean stop and reopen anywhere is invisible *)
  Theorem restart_invisible a b done rest :
    wf_log 0 (done ++ (a ++ b) ++ rest) -> N.of_nat (length (events_of (done ++ a ++ b))) < W64 ->
    fst (life E (state_of done) [a ++ b]) = fst (life E (state_of done) [a; b]) /\
    concat (snd (life E (state_of done) [a ++ b])) = concat (snd (life E (state_of done) [a; b])).
  Proof.
    intros Hwf Hlen.
    assert (Hw1 : wf_log 0 (done ++ concat (map snd [([] : rlog, a ++ b)]) ++ rest)) by (cbn; rewrite app_nil_r; exact Hwf).
    assert (Hw2 : wf_log 0 (done ++ concat (map snd [([] : rlog, a); ([], b)]) ++ rest)) by (cbn; rewrite app_nil_r; exact Hwf).
    assert (Hl1 : N.of_nat (length (events_of (done ++ concat (map snd [([] : rlog, a ++ b)])))) < W64) by (cbn; rewrite app_nil_r; exact Hlen).
    assert (Hl2 : N.of_nat (length (events_of (done ++ concat (map snd [([] : rlog, a); ([], b)])))) < W64) by (cbn; rewrite app_nil_r; exact Hlen).
    assert (Ho1 : olds_ok done [([] : rlog, a ++ b)]) by (cbn; split; [intros x []|exact I]).
    assert (Ho2 : olds_ok done [([] : rlog, a); ([], b)]) by (cbn; repeat split; intros x []).
    destruct (life_correct _ done rest Hw1 Hl1 Ho1) as [H1 H1'].
    destruct (life_correct _ done rest Hw2 Hl2 Ho2) as [H2 H2'].
    cbn [map fst snd app] in H1, H2. rewrite H1, H2. cbn [fst snd]. split.
    - rewrite H1', H2'. cbn. rewrite !app_nil_r. reflexivity.
    - cbn [life_spec snd fst concat map app]. rewrite !app_nil_r.
      rewrite events_of_app, app_length, Nat2N.inj_add.
      generalize (N.of_nat (length (events_of done))) as v. clear. induction a as [|[i c] a IH]; intros v; cbn [applied_outs app events_of map concat length]; [rewrite N.add_0_r; reflexivity|].
      f_equal. change (concat (map snd ((i, c) :: a))) with (c ++ events_of a). rewrite app_length, Nat2N.inj_add, N.add_assoc. apply IH.
  Qed.

  (* ---- state transfer (C09) *)
  (* the write-ahead log the leader holds for the entries es applied on top of done *)
  Fixpoint wal (done es : rlog) : list (batch E) :=
    match es with
    | [] => []
    | (i, c) :: r =>
        {| b_prev := n_version E (state_of done); b_new := n_version E (state_of (done ++ [(i, c)]));
           b_idx := i; b_first := length (events_of done); b_cmd := c |} :: wal (done ++ [(i, c)]) r
    end.

  Lemma version_of_nonempty done : done <> [] -> wf_log 0 done ->
    n_version E (state_of done) = N.of_nat (length (events_of done)) - 1 /\ (0 < length (events_of done))%nat.
  Proof.
    intros Hne Hwf. destruct done as [|[i c] d]; [contradiction|]. split; [reflexivity|].
    cbn [wf_log] in Hwf. destruct Hwf as (_ & Hc & _). unfold events_of. cbn [map concat snd]. rewrite app_length.
    destruct c; [contradiction|cbn; lia].
  Qed.

  Lemma events_single i (c : list E) : events_of [(i, c)] = c.
  Proof. unfold events_of. cbn. apply app_nil_r. Qed.

  (* the follower is exactly at `done`; the leader streams the batches of the entries after it: all are taken,
     and loading them yields the state of a replica that applied every entry itself *)
  Theorem transfer_complete fresh : forall done rest,
    wf_log 0 (done ++ fresh ++ rest) -> N.of_nat (length (events_of (done ++ fresh))) < W64 ->
    fetch E (n_version E (state_of done)) (wal done fresh) = Some (wal done fresh) /\
    load E (state_of done) (wal done fresh) = state_of (done ++ fresh).
  Proof.
    induction fresh as [|[i c] fresh IH]; intros done rest Hwf Hlen; [rewrite app_nil_r; split; reflexivity|].
    cbn [wal Fsm.fetch Fsm.load fold_left b_prev b_new b_idx b_first b_cmd].
    assert (Hwf1 : wf_log 0 ((done ++ [(i, c)]) ++ fresh ++ rest)) by (rewrite <- app_assoc; exact Hwf).
    assert (Hlen1 : N.of_nat (length (events_of ((done ++ [(i, c)]) ++ fresh))) < W64) by (rewrite <- app_assoc; exact Hlen).
    destruct (IH (done ++ [(i, c)]) rest Hwf1 Hlen1) as [IHf IHl].
    assert (Hc : c <> []) by (destruct (wf_log_split done 0 i c (fresh ++ rest) Hwf) as (_ & _ & Hc & _); exact Hc).
    assert (Hwd : wf_log 0 (done ++ [(i, c)])) by (apply (wf_log_prefix 0 _ (fresh ++ rest)); rewrite <- app_assoc; exact Hwf).
    destruct (version_of_nonempty (done ++ [(i, c)]) ltac:(destruct done; discriminate) Hwd) as [Hvn Hpos].
    rewrite events_of_app, events_single, app_length in Hvn, Hpos.
    assert (Hcl : (0 < length c)%nat) by (destruct c; [contradiction|cbn; lia]).
    set (vd := n_version E (state_of done)) in *.
    assert (Hvd : vd <= N.of_nat (length (events_of done)) - 1 /\ (done = [] -> vd = 0)).
    { unfold vd. destruct done as [|x d]; [cbn; split; [lia|reflexivity]|]. cbn [state_of n_version]. split; [lia|discriminate]. }
    (* the filter takes the batch *)
    assert (H1 : (vd <? vd) = false) by apply N.ltb_irrefl. rewrite H1.
    rewrite Hvn.
    assert (H2 : (N.of_nat (length (events_of done) + length c) - 1 <? vd) = false) by (apply N.ltb_ge; lia).
    rewrite H2.
    assert (H3 : (N.of_nat (length (events_of done) + length c) - 1 =? vd) && negb (vd =? 0) = false).
    { destruct (vd =? 0) eqn:Hz; [apply andb_false_r|]. apply N.eqb_neq in Hz. cbn [negb]. rewrite andb_true_r.
      apply N.eqb_neq. destruct done as [|x d]; [destruct Hvd as [_ Hd]; specialize (Hd eq_refl); lia|].
      destruct (version_of_nonempty (x :: d) ltac:(discriminate) (wf_log_prefix 0 _ _ (wf_log_prefix 0 _ _ Hwf1))) as [Hv Hp].
      fold vd in Hv. lia. }
    rewrite H3. rewrite <- Hvn. rewrite IHf. split; [reflexivity|].
    (* loading it *)
    assert (Hstep : {| n_events := firstn (length (events_of done)) (n_events E (state_of done)) ++ c; n_index := i;
                       n_version := n_version E (state_of (done ++ [(i, c)])) |} = state_of (done ++ [(i, c)])).
    { set (S := state_of (done ++ [(i, c)])).
      assert (He : n_events E S = firstn (length (events_of done)) (n_events E (state_of done)) ++ c).
      { unfold S. cbn [state_of n_events]. rewrite events_of_app, events_single, firstn_all. reflexivity. }
      assert (Hi : n_index E S = i) by (unfold S; cbn [state_of n_index]; apply last_index_snoc).
      rewrite <- He, <- Hi. destruct S; reflexivity. }
    unfold Fsm.load in IHl. rewrite Hstep, IHl, <- app_assoc. reflexivity.
  Qed.

  (* a gap: the leader's log no longer holds the batch that follows the follower's state; the first batch it
     can stream starts beyond the follower's version and the transfer is refused - provided the follower's
     "last applied version" is not the ambiguous 0 with exactly one event missing *)
  Theorem transfer_gap_refused done missing i c rest :
    wf_log 0 (done ++ missing ++ (i, c) :: rest) -> missing <> [] ->
    (done <> [] \/ (2 <= length (events_of missing))%nat) ->
    fetch E (n_version E (state_of done)) (wal (done ++ missing) ((i, c) :: rest)) = None.
  Proof.
    intros Hwf Hmiss Hamb. cbn [wal Fsm.fetch b_prev].
    assert (Hwdm : wf_log 0 (done ++ missing)) by (apply (wf_log_prefix 0 _ ((i, c) :: rest)); rewrite <- app_assoc; exact Hwf).
    destruct (version_of_nonempty (done ++ missing) ltac:(destruct done; [exact Hmiss|discriminate]) Hwdm) as [Hv Hp].
    rewrite Hv, events_of_app, app_length.
    assert (Hm1 : (1 <= length (events_of missing))%nat).
    { destruct missing as [|[j d] m]; [contradiction|].
      destruct (wf_log_split done 0 j d m Hwdm) as (_ & _ & Hd & _). unfold events_of. cbn [map concat snd]. rewrite app_length.
      destruct d; [contradiction|cbn; lia]. }
    assert (Hlt : (n_version E (state_of done) <? N.of_nat (length (events_of done) + length (events_of missing)) - 1) = true).
    { apply N.ltb_lt. destruct done as [|x d].
      - cbn [state_of n_version events_of map concat length]. destruct Hamb as [Hd|H2]; [contradiction|]. cbn. lia.
      - destruct (version_of_nonempty (x :: d) ltac:(discriminate) (wf_log_prefix 0 _ _ Hwdm)) as [Hvd Hpd]. rewrite Hvd. lia. }
    rewrite Hlt. reflexivity.
  Qed.

  (* the premise `done <> [] \/ 2 <= |missing events|` of transfer_gap_refused cannot be dropped: a node with
     an empty log reports "last applied version 0", which is also what a node holding exactly event 0 reports;
     a stream starting at version 1 is therefore served to it and event 0 is lost.  (Confirmed on the real
     code: known finding C09:gap-served:new-node-one-event-missing.) *)
  Theorem transfer_gap_new_node_one_event_refuted (e : E) :
    exists missing i c rest,
      wf_log 0 ([] ++ missing ++ (i, c) :: rest) /\ missing <> [] /\
      fetch E (n_version E (state_of [])) (wal ([] ++ missing) ((i, c) :: rest)) <> None.
  Proof.
    exists [(1, [e])], 2, [e], []. split; [cbn; repeat split; try lia; discriminate|]. split; [discriminate|].
    cbn. discriminate.
  Qed.
End FsmProofs.
