(* api/apihttp + consensus/raftnode.go Add/AddBulk: which client requests become replicated commands, and
   that every such command can be applied by every replica, now and on replay.
   A request that decodes to an insertion proposes one command holding the digests of its events; an empty
   bulk is refused before it is proposed (RaftNode.AddBulk, fix e61683f); everything else (queries, malformed
   bodies, wrong methods, unknown paths, management requests) proposes nothing. *)
From QV Require Import Base.Util Fsm.Fsm Fsm.FsmProofs.

Section Api.
  Variable E : Type.

  Inductive request := RAdd (e : E) | RBulk (es : list E) | ROther.

  Definition propose (r : request) : option (list E) :=
    match r with
    | RAdd e => Some [e]
    | RBulk [] => None
    | RBulk es => Some es
    | ROther => None
    end.

  (* the pinned code proposed whatever the bulk held *)
  Definition propose_pinned (r : request) : option (list E) :=
    match r with RAdd e => Some [e] | RBulk es => Some es | ROther => None end.

  Lemma propose_nonempty r c : propose r = Some c -> c <> [].
  Proof. destruct r as [e|[|x es]|]; cbn; intros Hp; try discriminate; injection Hp as <-; discriminate. Qed.

  (* every command a request can cause to be replicated is applied by every replica that has applied the log
     before it (whatever requests produced that log), it extends the state by exactly its events, and when
     the log is replayed after a restart it is recognised as already applied: no outcome is ever Panic *)
  Theorem proposals_applicable r c done i :
    propose r = Some c ->
    wf_log E 0 done -> last_index E done < i -> N.of_nat (length (events_of E (done ++ [(i, c)]))) < W64 ->
    apply E (state_of E done) i c =
      (state_of E (done ++ [(i, c)]), Applied (N.of_nat (length (events_of E done))) (length c)) /\
    apply E (state_of E (done ++ [(i, c)])) i c = (state_of E (done ++ [(i, c)]), AlreadyApplied).
  Proof.
    intros Hp Hwf Hi Hlen. pose proof (propose_nonempty r c Hp) as Hc.
    assert (Hgen : forall dn lo, wf_log E lo dn -> lo < i -> last_index E dn < i -> wf_log E lo (dn ++ [(i, c)])).
    { induction dn as [|[j d] dn IH]; intros lo Hw Hlo Hl.
      - cbn. repeat split; [exact Hlo|exact Hc].
      - cbn [app wf_log] in *. destruct Hw as (H1 & H2 & H3). repeat split; [exact H1|exact H2|].
        rewrite last_index_cons in Hl. destruct dn as [|y dn'].
        + cbn in *. repeat split; [exact Hl|exact Hc].
        + apply IH; [exact H3| |exact Hl]. destruct y as [k d'].
          assert (k <= last_index E ((k, d') :: dn')).
          { apply (index_le_last E ((k, d') :: dn') j k d'); [exact H3|left; reflexivity]. }
          cbn in H3. lia. }
    assert (Hwf' : wf_log E 0 (done ++ [(i, c)])).
    { apply Hgen; [exact Hwf| |exact Hi]. destruct done; [exact Hi|]. unfold last_index in Hi. lia. }
    split.
    - exact (apply_fresh E done i c [] Hwf' Hlen).
    - apply (apply_old E (done ++ [(i, c)]) i c Hwf'). apply in_or_app. right. left. reflexivity.
  Qed.

  (* the command of an empty bulk kills every replica that applies it, on every state *)
  Theorem empty_command_refuted : exists r c, propose_pinned r = Some c /\
    forall n i, (i <=? n_index E n) && negb (n_index E n =? 0) = false -> snd (apply E n i c) = Panic.
  Proof.
    exists (RBulk []), []. split; [reflexivity|]. intros n i Hf. unfold apply. rewrite Hf.
    destruct ((0 <? _) && (_ <=? n_version E n)); reflexivity.
  Qed.
End Api.

(* ---- correspondence run: per request, the class the harness generated and the number of events the node's
   version advanced by while answering it *)
Definition api_delta (r : request N) : nat := match propose N r with Some c => length c | None => O end.
Definition run_api_cases (cs : list (request N * nat)) : list N :=
  map fst (filter (fun kc => negb (Nat.eqb (api_delta (fst (snd kc))) (snd (snd kc))))
                  (combine (map N.of_nat (seq 0 (length cs))) cs)).
