(* Byte-level unambiguity of the hash input formats (DESIGN 3.2, item (b)).
   [Layout.encG] is the byte layout of what the Go code feeds to SHA-256 (its Uint63 instance [ShaInst.enc] is tied
   to the code by every correspondence run that compares a root hash).  Here: on well-formed inputs (32-byte digests,
   fixed-length values, positions of a fixed key length, heights below 2^16, indexes below 2^64, partial nodes above
   the leaves) two inputs with the same bytes are the same input.  Hence a failure of the injectivity premise [H_inj]
   of the soundness theorems, at H = hash ∘ enc and on well-formed inputs, IS a collision of the hash function
   (explicitly exhibited).  Generic in the byte type: the only fact used about bytes is that the 256 byte values are
   distinct ([byte_inj]); Base/EncInt.v proves it for the Uint63 bytes the executable instance uses. *)
From Coq Require Import ZArith Lia List.
From QV Require Import Base.Util Base.HashSig Base.Layout.
Import ListNotations.
Open Scope N_scope.

Lemma app_inj_len {A} (a a' b b' : list A) :
  length a = length a' -> a ++ b = a' ++ b' -> a = a' /\ b = b'.
Proof.
  revert a'. induction a as [|x a IH]; intros [|x' a'] Hl Heq; simpl in *; try discriminate.
  - split; [reflexivity|exact Heq].
  - injection Heq as Hx Hr. injection Hl as Hl. destruct (IH a' Hl Hr) as [-> ->]. subst. split; reflexivity.
Qed.

Section Bytes.
  Variable B : Type.
  Variable byte : N -> B.
  Hypothesis byte_inj : forall x y, x < 256 -> y < 256 -> byte x = byte y -> x = y.
  Notation bytes := (list B).
  Notation be_bytes := (be_bytesG B byte).
  Notation pos10 := (pos10G B byte).
  Notation bytes_of_bits := (bytes_of_bitsG B byte).
  Notation hpos_bytes := (hpos_bytesG B byte).
  Notation enc := (encG B byte).
  Notation byte_of_N_inj := byte_inj.

Lemma be_bytes_length n x : length (be_bytes n x) = n.
Proof. revert x. induction n as [|k IH]; intros x; simpl; [reflexivity|]. rewrite app_length, IH. simpl. lia. Qed.

Lemma be_bytes_inj n : forall x y, x < 256 ^ N.of_nat n -> y < 256 ^ N.of_nat n -> be_bytes n x = be_bytes n y -> x = y.
Proof.
  induction n as [|k IH]; intros x y Hx Hy Heq.
  - simpl in Hx, Hy. lia.
  - cbn [be_bytesG] in Heq.
    rewrite Nat2N.inj_succ, N.pow_succ_r' in Hx, Hy.
    apply app_inj_len in Heq; [|rewrite !be_bytes_length; reflexivity].
    destruct Heq as [Hq Hr]. injection Hr as Hr.
    apply byte_of_N_inj in Hr; [| apply N.mod_lt; lia | apply N.mod_lt; lia].
    apply IH in Hq; [| apply N.div_lt_upper_bound; lia | apply N.div_lt_upper_bound; lia].
    rewrite (N.div_mod x 256), (N.div_mod y 256) by lia. rewrite Hq, Hr. reflexivity.
Qed.

Lemma pos10_length i h : length (pos10 i h) = 10%nat.
Proof. unfold pos10G. rewrite app_length, !be_bytes_length. reflexivity. Qed.

Lemma pos10_inj i h i' h' :
  i < 2^64 -> i' < 2^64 -> N.of_nat h < 2^16 -> N.of_nat h' < 2^16 ->
  pos10 i h = pos10 i' h' -> i = i' /\ h = h'.
Proof.
  unfold pos10G. intros Hi Hi' Hh Hh' Heq.
  apply app_inj_len in Heq; [|rewrite !be_bytes_length; reflexivity]. destruct Heq as [H1 H2].
  rewrite !N.mod_small in H1, H2 by assumption.
  apply be_bytes_inj in H1; [| exact Hi | exact Hi'].
  apply be_bytes_inj in H2; [| exact Hh | exact Hh'].
  split; [exact H1 | lia].
Qed.

(* bits → bytes *)
Lemma bits_val_inj : forall bs bs' a a', length bs = length bs' -> bits_val bs a = bits_val bs' a' -> a = a' /\ bs = bs'.
Proof.
  induction bs as [|b r IH]; intros [|b' r'] a a' Hl Heq; cbn [bits_val length] in *; try discriminate.
  - split; [exact Heq|reflexivity].
  - injection Hl as Hl. destruct (IH r' _ _ Hl Heq) as [Ha ->].
    destruct b, b'; cbv iota in Ha; try (split; [lia|reflexivity]); exfalso; lia.
Qed.

Lemma bits_val_bound : forall bs a, bits_val bs a < (a + 1) * pow2 (length bs).
Proof.
  induction bs as [|b r IH]; intros a; cbn [bits_val length pow2].
  - lia.
  - specialize (IH (2 * a + (if b then 1 else 0))).
    assert (0 < pow2 (length r)) by (clear; induction (length r); cbn [pow2]; lia).
    destruct b; nia.
Qed.

Lemma pow2_8 : pow2 8 = 256. Proof. reflexivity. Qed.

Lemma firstn_skipn_len {A} n (l l' : list A) : length l = length l' -> firstn n l = firstn n l' -> skipn n l = skipn n l' -> l = l'.
Proof. intros _ Hf Hs. rewrite <- (firstn_skipn n l), <- (firstn_skipn n l'), Hf, Hs. reflexivity. Qed.

Lemma bob_cons f b r : bytes_of_bits (S f) (b :: r) = byte (bits_val (firstn 8 (b :: r)) 0) :: bytes_of_bits f (skipn 8 (b :: r)).
Proof. reflexivity. Qed.

Lemma bytes_of_bits_inj : forall fuel bs bs', length bs = length bs' ->
  (length bs <= 8 * fuel)%nat -> (exists k, length bs = (8 * k)%nat) ->
  bytes_of_bits fuel bs = bytes_of_bits fuel bs' -> bs = bs'.
Proof.
  induction fuel as [|f IH]; intros bs bs' Hl Hf [k Hk] Heq.
  - destruct bs; [destruct bs'; [reflexivity|discriminate]| simpl in Hf; lia].
  - destruct bs as [|b r]; [destruct bs'; [reflexivity|discriminate]|].
    destruct bs' as [|b' r']; [discriminate|].
    rewrite !bob_cons in Heq.
    set (l := b :: r) in *. set (l' := b' :: r') in *.
    set (x := bits_val (firstn 8 l) 0) in *. set (x' := bits_val (firstn 8 l') 0) in *.
    injection Heq as Hb Hr. subst x x'.
    assert (Hk8 : (8 <= length l)%nat) by (destruct k; [subst l; simpl in Hk; lia | lia]).
    assert (Hlf : length (firstn 8 l) = 8%nat) by (rewrite firstn_length; lia).
    assert (Hlf' : length (firstn 8 l') = 8%nat) by (rewrite firstn_length; lia).
    apply byte_of_N_inj in Hb.
    + apply bits_val_inj in Hb; [|lia]. destruct Hb as [_ Hfirst].
      apply (firstn_skipn_len 8); [exact Hl | exact Hfirst |].
      apply IH; [rewrite !skipn_length; lia | rewrite skipn_length; lia | exists (k - 1)%nat; rewrite skipn_length; lia | exact Hr].
    + pose proof (bits_val_bound (firstn 8 l) 0) as Hbd. rewrite Hlf, pow2_8 in Hbd. lia.
    + pose proof (bits_val_bound (firstn 8 l') 0) as Hbd. rewrite Hlf', pow2_8 in Hbd. lia.
Qed.

Lemma bytes_of_bits_length : forall fuel bs k, length bs = (8 * k)%nat -> (k <= fuel)%nat -> length (bytes_of_bits fuel bs) = k.
Proof.
  induction fuel as [|f IH]; intros bs k Hk Hf.
  - assert (k = 0%nat) by lia. subst. reflexivity.
  - destruct bs as [|b r].
    + simpl in Hk. assert (k = 0%nat) by lia. subst. reflexivity.
    + cbn [bytes_of_bitsG]. cbn [length]. destruct k as [|k]; [simpl in Hk; lia|].
      f_equal. apply IH; [rewrite skipn_length; lia | lia].
Qed.

Section Formats.
  Variable X : Type.                 (* hash values *)
  Variable hashf : bytes -> X.       (* SHA-256 in the executable instance *)
  Variable kb : nat.     (* key length in bytes (32 in production) *)
  Variable vlen : nat.   (* byte length of a hyper value (8: the version) *)

  Definition wfpos (p : hpos) : Prop := (length (fst p) + snd p = 8 * kb)%nat /\ N.of_nat (snd p) < 2^16.

  Lemma hpos_bytes_length p : wfpos p -> length (hpos_bytes p) = (2 + kb)%nat.
  Proof.
    destruct p as [bits h]. intros [Hl Hh]. simpl in Hl, Hh. unfold hpos_bytesG.
    rewrite app_length, be_bytes_length. f_equal.
    apply bytes_of_bits_length; [rewrite app_length, repeat_length; exact Hl | rewrite app_length, repeat_length; lia].
  Qed.

  Lemma hpos_bytes_inj p p' : wfpos p -> wfpos p' -> hpos_bytes p = hpos_bytes p' -> p = p'.
  Proof.
    destruct p as [bits h], p' as [bits' h']. intros [Hl Hh] [Hl' Hh'] Heq. simpl in Hl, Hh, Hl', Hh'.
    unfold hpos_bytesG in Heq.
    apply app_inj_len in Heq; [|rewrite !be_bytes_length; reflexivity]. destruct Heq as [H1 H2].
    rewrite !N.mod_small in H1 by assumption.
    apply be_bytes_inj in H1; [| exact Hh | exact Hh']. assert (h = h') by lia. subst h'.
    assert (Hlen : length (bits ++ repeat false h) = length (bits' ++ repeat false h))
      by (rewrite !app_length, !repeat_length; lia).
    rewrite <- Hlen in H2.
    apply bytes_of_bits_inj in H2; [| exact Hlen | lia | exists kb; rewrite app_length, repeat_length; exact Hl].
    apply app_inv_tail in H2. subst. reflexivity.
  Qed.

  Definition hwf (x : hin bytes bytes bytes) : Prop :=
    match x with
    | HBare i h => i < 2^64 /\ N.of_nat h < 2^16
    | HLeaf e i => length e = 32%nat /\ i < 2^64
    | HPart l i h => length l = 32%nat /\ i < 2^64 /\ (0 < h)%nat /\ N.of_nat h < 2^16
    | HFull l r i h => length l = 32%nat /\ length r = 32%nat /\ i < 2^64 /\ N.of_nat h < 2^16
    | YDef0 => True
    | YDef a b => length a = 32%nat /\ length b = 32%nat
    | YLeaf v p => length v = vlen /\ wfpos p
    | YNode a b p => length a = 32%nat /\ length b = 32%nat /\ wfpos p
    end.

  Definition is_hist (x : hin bytes bytes bytes) : bool :=
    match x with HBare _ _ | HLeaf _ _ | HPart _ _ _ | HFull _ _ _ _ => true | _ => false end.

  Lemma enc_length x : hwf x ->
    length (enc x) = match x with
                     | HBare _ _ => 10 | HLeaf _ _ => 42 | HPart _ _ _ => 42 | HFull _ _ _ _ => 74
                     | YDef0 => 2 | YDef _ _ => 64 | YLeaf _ _ => vlen + 2 + kb | YNode _ _ _ => 66 + kb
                     end%nat.
  Proof.
    destruct x; simpl; intros Hw; rewrite ?app_length, ?pos10_length.
    - reflexivity.
    - destruct Hw as [-> _]. reflexivity.
    - destruct Hw as [-> _]. reflexivity.
    - destruct Hw as (-> & -> & _). reflexivity.
    - reflexivity.
    - destruct Hw as [-> ->]. reflexivity.
    - destruct Hw as [-> Hp]. rewrite (hpos_bytes_length _ Hp). lia.
    - destruct Hw as (-> & -> & Hp). rewrite (hpos_bytes_length _ Hp). lia.
  Qed.

  Ltac len_contra Hx Hy Heq :=
    exfalso; apply (f_equal (@length _)) in Heq; rewrite (enc_length _ Hx), (enc_length _ Hy) in Heq; lia.

  (* the history tree's formats *)
  Theorem enc_inj_history x y : is_hist x = true -> is_hist y = true -> hwf x -> hwf y -> enc x = enc y -> x = y.
  Proof.
    intros Hfx Hfy Hx Hy Heq.
    destruct x as [i h|e i|l i h|l r i h| |a b|v p|a b p]; try discriminate Hfx;
    destruct y as [i' h'|e' i'|l' i' h'|l' r' i' h'| |a' b'|v' p'|a' b' p']; try discriminate Hfy;
    try (len_contra Hx Hy Heq); simpl in Hx, Hy, Heq.
    - destruct Hx as [Hi Hh], Hy as [Hi' Hh']. destruct (pos10_inj _ _ _ _ Hi Hi' Hh Hh' Heq) as [-> ->]. reflexivity.
    - destruct Hx as [He Hi], Hy as [He' Hi'].
      apply app_inj_len in Heq; [|lia]. destruct Heq as [-> Hp].
      apply pos10_inj in Hp; [| assumption | assumption | simpl; lia | simpl; lia]. destruct Hp as [-> _]. reflexivity.
    - destruct Hx as [He Hi], Hy as (Hl' & Hi' & Hpos & Hh').
      apply app_inj_len in Heq; [|lia]. destruct Heq as [_ Hp].
      apply pos10_inj in Hp; [| assumption | assumption | simpl; lia | assumption]. lia.
    - destruct Hy as [He Hi], Hx as (Hl' & Hi' & Hpos & Hh').
      apply app_inj_len in Heq; [|lia]. destruct Heq as [_ Hp].
      apply pos10_inj in Hp; [| assumption | assumption | assumption | simpl; lia]. lia.
    - destruct Hx as (Hl & Hi & _ & Hh), Hy as (Hl' & Hi' & _ & Hh').
      apply app_inj_len in Heq; [|lia]. destruct Heq as [-> Hp].
      apply pos10_inj in Hp; try assumption. destruct Hp as [-> ->]. reflexivity.
    - destruct Hx as (Hl & Hr & Hi & Hh), Hy as (Hl' & Hr' & Hi' & Hh').
      apply app_inj_len in Heq; [|lia]. destruct Heq as [-> Heq].
      apply app_inj_len in Heq; [|lia]. destruct Heq as [-> Hp].
      apply pos10_inj in Hp; try assumption. destruct Hp as [-> ->]. reflexivity.
  Qed.

  (* the hyper tree's formats; the two side conditions say that a leaf input is as long as neither a default-hash
     input (2 or 64 bytes) nor an interior-node input: 8 + 2 + 32 = 42 in production *)
  Hypothesis kb_pos : (0 < kb)%nat.
  Hypothesis leaf_len_1 : (vlen + kb <> 62)%nat.
  Hypothesis leaf_len_2 : (vlen <> 64)%nat.

  Theorem enc_inj_hyper x y : is_hist x = false -> is_hist y = false -> hwf x -> hwf y -> enc x = enc y -> x = y.
  Proof.
    intros Hfx Hfy Hx Hy Heq.
    destruct x as [i h|e i|l i h|l r i h| |a b|v p|a b p]; try discriminate Hfx;
    destruct y as [i' h'|e' i'|l' i' h'|l' r' i' h'| |a' b'|v' p'|a' b' p']; try discriminate Hfy;
    try (len_contra Hx Hy Heq); simpl in Hx, Hy, Heq.
    - reflexivity.
    - destruct Hx as [Ha Hb], Hy as [Ha' Hb'].
      apply app_inj_len in Heq; [|lia]. destruct Heq as [-> ->]. reflexivity.
    - destruct Hx as [Hv Hp], Hy as [Hv' Hp'].
      apply app_inj_len in Heq; [|lia]. destruct Heq as [-> Hq].
      apply hpos_bytes_inj in Hq; try assumption. subst. reflexivity.
    - destruct Hx as (Ha & Hb & Hp), Hy as (Ha' & Hb' & Hp').
      apply app_inj_len in Heq; [|lia]. destruct Heq as [-> Heq].
      apply app_inj_len in Heq; [|lia]. destruct Heq as [-> Hq].
      apply hpos_bytes_inj in Hq; try assumption. subst. reflexivity.
  Qed.

  (* the two trees' formats never share a length (production: 10, 42, 74 against 2, 64, 66, 98) *)
  Hypothesis cross_leaf : (vlen + kb <> 8 /\ vlen + kb <> 40 /\ vlen + kb <> 72)%nat.
  Hypothesis cross_node : (kb <> 8)%nat.

  Theorem enc_inj x y : hwf x -> hwf y -> enc x = enc y -> x = y.
  Proof.
    intros Hx Hy Heq.
    destruct (is_hist x) eqn:Hfx, (is_hist y) eqn:Hfy.
    - apply enc_inj_history; assumption.
    - destruct x; try discriminate Hfx; destruct y; try discriminate Hfy; len_contra Hx Hy Heq.
    - destruct x; try discriminate Hfx; destruct y; try discriminate Hfy; len_contra Hx Hy Heq.
    - apply enc_inj_hyper; assumption.
  Qed.

  (* What the premise H_inj of the soundness theorems means at byte level: two different well-formed inputs of
     one tree with the same digest exhibit two different byte strings with the same SHA-256 value. *)
  Theorem H_collision_is_hash_collision x y :
    hwf x -> hwf y -> x <> y -> hashf (enc x) = hashf (enc y) ->
    exists m m' : bytes, m <> m' /\ hashf m = hashf m'.
  Proof.
    intros Hx Hy Hne Heq. exists (enc x), (enc y). split; [|exact Heq].
    intros Henc. apply Hne. apply enc_inj; assumption.
  Qed.
End Formats.


  (* Production sizes: 256-bit keys (32 bytes) and values padded to the digest length (balloon.go:
     util.Uint64AsPaddedBytes(version, len(eventDigest)) = 32 bytes): lengths 10, 42, 42, 74 | 2, 64, 66, 98. *)
  Definition hwf_prod := hwf 32 32.

  Theorem enc_inj_production x y : hwf_prod x -> hwf_prod y -> enc x = enc y -> x = y.
  Proof. apply enc_inj; lia. Qed.

  Theorem H_inj_or_hash_collision (X : Type) (hashf : bytes -> X) x y :
    hwf_prod x -> hwf_prod y -> x <> y -> hashf (enc x) = hashf (enc y) ->
    exists m m' : bytes, m <> m' /\ hashf m = hashf m'.
  Proof. apply H_collision_is_hash_collision; lia. Qed.

  (* what the side condition guards against: WITHOUT the 32-byte length of digests the formats are ambiguous - a
     64-byte "left child" of a partial node is read as the two children of a full node (the Go verifiers do not check
     the length of audit-path entries; trusted base of C02/C03/C19) *)
  Lemma unchecked_length_is_ambiguous (l r : bytes) (i : N) (h : nat) :
    enc (HPart (l ++ r) i h) = enc (HFull l r i h).
  Proof. unfold encG. rewrite <- app_assoc. reflexivity. Qed.
End Bytes.

(* Non-vacuity: with bytes as numbers the premise holds and well-formed inputs of every kind exist: an interior hyper
   node at height 3 under the 253-bit prefix of a key, a hyper leaf, a history leaf and a partial node. *)
Example byte_inj_N : forall x y : N, x < 256 -> y < 256 -> id x = id y -> x = y.
Proof. intros x y _ _ Heq. exact Heq. Qed.
Example wf_inputs_exist :
  hwf_prod N (YNode (repeat 1 32) (repeat 2 32) (repeat true 253, 3%nat)) /\
  hwf_prod N (YLeaf (repeat 0 32) (repeat true 200, 56%nat)) /\
  hwf_prod N (HLeaf (repeat 3 32) 7) /\ hwf_prod N (HPart (repeat 3 32) 6 1) /\
  encG N id (HLeaf (repeat 3 32) 7) <> encG N id (HPart (repeat 3 32) 6 1).
Proof.
  unfold hwf_prod, hwf, wfpos; cbn [fst snd]; rewrite !repeat_length.
  repeat split; try reflexivity; try lia. vm_compute. discriminate.
Qed.
