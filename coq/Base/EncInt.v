(* The premise of Base/Enc.v for the bytes the executable instance uses (Uint63): the 256 byte values are distinct.
   This file alone depends on the standard library's axioms about primitive 63-bit integers (Uint63.of_Z_spec and
   what it rests on); no property theorem depends on it - it shows that [ShaInst.enc], the function the
   correspondence runs execute, is the instance of [encG] the theorems of Enc.v speak about. *)
From Coq Require Import Uint63 ZArith Lia List.
From QV Require Import Base.Util Base.HashSig Base.Sha256 Base.ShaInst Base.Enc.
Open Scope N_scope.

Lemma byte_of_N_inj x y : x < 256 -> y < 256 -> byte_of_N x = byte_of_N y -> x = y.
Proof.
  unfold byte_of_N. intros Hx Hy Heq.
  apply (f_equal Uint63.to_Z) in Heq. rewrite !Uint63.of_Z_spec in Heq.
  assert (Hw : (256 < wB)%Z) by (unfold wB; simpl; lia).
  rewrite !Z.mod_small in Heq by lia. lia.
Qed.


Lemma enc_is_instance x : enc x = encG int byte_of_N x.
Proof. reflexivity. Qed.

Theorem Hsha_inj_or_sha256_collision x y :
  hwf_prod int x -> hwf_prod int y -> x <> y -> Hsha x = Hsha y ->
  exists m m' : bytes, m <> m' /\ sha256 m = sha256 m'.
Proof. exact (H_inj_or_hash_collision int byte_of_N byte_of_N_inj bytes sha256 x y). Qed.
