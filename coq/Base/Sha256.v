(* SHA-256 over Coq's primitive 63-bit integers, for in-kernel (vm_compute) byte-exact
   execution of the models.  Execution only: no theorem depends on this file; its agreement
   with Go's crypto/sha256 is checked on every correspondence run. *)
From Coq Require Import List Uint63 ZArith.
Import ListNotations.
Local Open Scope uint63_scope.

Definition mask32 : int := 0xffffffff.
Definition add32 (a b : int) : int := (a + b) land mask32.
Definition rotr (x : int) (n : int) : int := ((x >> n) lor (x << (32 - n))) land mask32.
Definition not32 (x : int) : int := x lxor mask32.

Definition K : list int :=
 [0x428a2f98;0x71374491;0xb5c0fbcf;0xe9b5dba5;0x3956c25b;0x59f111f1;0x923f82a4;0xab1c5ed5;
  0xd807aa98;0x12835b01;0x243185be;0x550c7dc3;0x72be5d74;0x80deb1fe;0x9bdc06a7;0xc19bf174;
  0xe49b69c1;0xefbe4786;0x0fc19dc6;0x240ca1cc;0x2de92c6f;0x4a7484aa;0x5cb0a9dc;0x76f988da;
  0x983e5152;0xa831c66d;0xb00327c8;0xbf597fc7;0xc6e00bf3;0xd5a79147;0x06ca6351;0x14292967;
  0x27b70a85;0x2e1b2138;0x4d2c6dfc;0x53380d13;0x650a7354;0x766a0abb;0x81c2c92e;0x92722c85;
  0xa2bfe8a1;0xa81a664b;0xc24b8b70;0xc76c51a3;0xd192e819;0xd6990624;0xf40e3585;0x106aa070;
  0x19a4c116;0x1e376c08;0x2748774c;0x34b0bcb5;0x391c0cb3;0x4ed8aa4a;0x5b9cca4f;0x682e6ff3;
  0x748f82ee;0x78a5636f;0x84c87814;0x8cc70208;0x90befffa;0xa4506ceb;0xbef9a3f7;0xc67178f2].

Definition H0 : list int :=
 [0x6a09e667;0xbb67ae85;0x3c6ef372;0xa54ff53a;0x510e527f;0x9b05688c;0x1f83d9ab;0x5be0cd19].

(* message schedule: w holds the last 16 words, most recent first *)
Definition next_w (w : list int) : int :=
  match w with
  | w1 :: w2 :: _ :: _ :: _ :: _ :: w7 :: _ :: _ :: _ :: _ :: _ :: _ :: _ :: w15 :: w16 :: _ =>
      let s0 := (rotr w15 7) lxor (rotr w15 18) lxor (w15 >> 3) in
      let s1 := (rotr w2 17) lxor (rotr w2 19) lxor (w2 >> 10) in
      add32 (add32 w16 s0) (add32 w7 s1)
  | _ => 0
  end.

Definition round (st : list int) (k w : int) : list int :=
  match st with
  | [a;b;c;d;e;f;g;h] =>
      let S1 := (rotr e 6) lxor (rotr e 11) lxor (rotr e 25) in
      let ch := (e land f) lxor ((not32 e) land g) in
      let t1 := add32 (add32 (add32 h S1) (add32 ch k)) w in
      let S0 := (rotr a 2) lxor (rotr a 13) lxor (rotr a 22) in
      let maj := (a land b) lxor (a land c) lxor (b land c) in
      let t2 := add32 S0 maj in
      [add32 t1 t2; a; b; c; add32 d t1; e; f; g]
  | _ => st
  end.

(* rounds 0..15 consume the block words; rounds 16..63 extend the schedule *)
Fixpoint rounds16 (st : list int) (ks ws : list int) (hist : list int) : list int * list int * list int :=
  match ks, ws with
  | k :: ks', w :: ws' => rounds16 (round st k w) ks' ws' (w :: hist)
  | _, _ => (st, ks, hist)
  end.

Fixpoint rounds48 (st : list int) (ks : list int) (hist : list int) : list int :=
  match ks with
  | k :: ks' => let w := next_w hist in rounds48 (round st k w) ks' (w :: firstn 15 hist)
  | [] => st
  end.

Definition compress (hs : list int) (block : list int) : list int :=
  let '(st, ks, hist) := rounds16 hs K block [] in
  let st' := rounds48 st ks hist in
  map (fun p => add32 (fst p) (snd p)) (combine hs st').

Fixpoint words_of_bytes (bs : list int) : list int :=
  match bs with
  | a :: b :: c :: d :: r => ((a << 24) lor (b << 16) lor (c << 8) lor d) :: words_of_bytes r
  | _ => []
  end.

Fixpoint chunks16 (fuel : nat) (ws : list int) : list (list int) :=
  match fuel with
  | O => []
  | S f => match ws with [] => [] | _ => firstn 16 ws :: chunks16 f (skipn 16 ws) end
  end.

Definition bytes_of_word (w : int) : list int :=
  [(w >> 24) land 0xff; (w >> 16) land 0xff; (w >> 8) land 0xff; w land 0xff].

Definition pad (bs : list int) : list int :=
  let n := length bs in
  let zeros := Nat.modulo (64 - Nat.modulo (n + 9) 64) 64 in
  let bitlen := Uint63.of_Z (Z.of_nat n * 8) in
  bs ++ [0x80] ++ repeat 0 zeros ++ [0;0;0; (bitlen >> 32) land 0xff] ++ bytes_of_word (bitlen land mask32).

Definition sha256 (bs : list int) : list int :=
  let ws := words_of_bytes (pad bs) in
  let hs := fold_left compress (chunks16 (S (length ws)) ws) H0 in
  flat_map bytes_of_word hs.

Definition hexdigit (x : int) : int := if x <? 10 then x + 48 else x + 87.
(* sanity: sha256 "" and sha256 "abc" *)
Example sha_empty : map Uint63.to_Z (firstn 4 (sha256 [])) = [0xe3; 0xb0; 0xc4; 0x42]%Z.
Proof. vm_compute. reflexivity. Qed.
Example sha_abc : map Uint63.to_Z (firstn 4 (sha256 [97;98;99])) = [0xba; 0x78; 0x16; 0xbf]%Z.
Proof. vm_compute. reflexivity. Qed.
