(* Decidable equality on the free term algebra (used only by the non-vacuity examples). *)
From QV Require Import Base.Util Base.HashSig.

Section TermEq.
  Variables E V : Type.
  Variable E_eqb : E -> E -> bool.
  Variable V_eqb : V -> V -> bool.
  Hypothesis E_eqb_eq : forall a b, E_eqb a b = true <-> a = b.
  Hypothesis V_eqb_eq : forall a b, V_eqb a b = true <-> a = b.

  Fixpoint bits_eqb (a b : list bool) : bool :=
    match a, b with
    | [], [] => true
    | x :: a', y :: b' => Bool.eqb x y && bits_eqb a' b'
    | _, _ => false
    end.
  Lemma bits_eqb_eq a b : bits_eqb a b = true <-> a = b.
  Proof.
    revert b. induction a as [|x a IH]; intros [|y b]; cbn; try (split; discriminate); [split; reflexivity|].
    rewrite andb_true_iff, IH. split.
    - intros [Hxy ->]. apply Bool.eqb_prop in Hxy. subst. reflexivity.
    - intros Heq. inversion Heq. subst. split; [destruct y; reflexivity|reflexivity].
  Qed.
  Definition hp_eqb (p q : hpos) : bool := bits_eqb (fst p) (fst q) && Nat.eqb (snd p) (snd q).
  Lemma hp_eqb_eq p q : hp_eqb p q = true <-> p = q.
  Proof.
    destruct p as [a h], q as [b k]. unfold hp_eqb. cbn [fst snd].
    rewrite andb_true_iff, bits_eqb_eq, Nat.eqb_eq. split; [intros [-> ->]; reflexivity|intros Heq; inversion Heq; auto].
  Qed.

  Fixpoint term_eqb (a b : term E V) : bool :=
    match a, b with
    | T x, T y =>
        match x, y with
        | HBare i h, HBare j k => (i =? j) && Nat.eqb h k
        | HLeaf e i, HLeaf f j => E_eqb e f && (i =? j)
        | HPart l i h, HPart m j k => term_eqb l m && (i =? j) && Nat.eqb h k
        | HFull l r i h, HFull m s j k => term_eqb l m && term_eqb r s && (i =? j) && Nat.eqb h k
        | YDef0, YDef0 => true
        | YDef a1 b1, YDef a2 b2 => term_eqb a1 a2 && term_eqb b1 b2
        | YLeaf v p, YLeaf w q => V_eqb v w && hp_eqb p q
        | YNode a1 b1 p, YNode a2 b2 q => term_eqb a1 a2 && term_eqb b1 b2 && hp_eqb p q
        | _, _ => false
        end
    end.

  Lemma term_eqb_refl : forall a, term_eqb a a = true.
  Proof.
    fix IH 1. intros [x].
    assert (He : forall e, E_eqb e e = true) by (intros e; apply E_eqb_eq; reflexivity).
    assert (Hv : forall v, V_eqb v v = true) by (intros v; apply V_eqb_eq; reflexivity).
    assert (Hp : forall p, hp_eqb p p = true) by (intros p; apply hp_eqb_eq; reflexivity).
    destruct x; cbn [term_eqb];
      rewrite ?IH, ?He, ?Hv, ?Hp, ?N.eqb_refl, ?Nat.eqb_refl; reflexivity.
  Qed.

  Lemma term_eqb_true : forall a b, term_eqb a b = true -> a = b.
  Proof.
    fix IH 1. intros [x] [y]. destruct x, y; cbn [term_eqb]; intros Heq; try discriminate Heq;
      repeat (apply andb_true_iff in Heq; destruct Heq as [Heq ?]);
      repeat match goal with
             | Hx : (_ =? _) = true |- _ => apply N.eqb_eq in Hx
             | Hx : Nat.eqb _ _ = true |- _ => apply Nat.eqb_eq in Hx
             | Hx : E_eqb _ _ = true |- _ => apply E_eqb_eq in Hx
             | Hx : V_eqb _ _ = true |- _ => apply V_eqb_eq in Hx
             | Hx : hp_eqb _ _ = true |- _ => apply hp_eqb_eq in Hx
             | Hx : term_eqb _ _ = true |- _ => apply IH in Hx
             end; subst; reflexivity.
  Qed.

  Lemma term_eqb_eq a b : term_eqb a b = true <-> a = b.
  Proof. split; [apply term_eqb_true|intros ->; apply term_eqb_refl]. Qed.
End TermEq.
