(* Byte-level instance of the hash signature: what the Go code feeds to SHA-256.
   hashing.Salted(salt, data...) = sha256(data... ‖ salt);  hashing.Do(data...) = sha256(concat data). *)
From Coq Require Import Uint63 ZArith.
From QV Require Import Base.Util Base.HashSig Base.Sha256.

Definition bytes := list int.

Definition byte_of_N (x : N) : int := Uint63.of_Z (Z.of_N x).

(* n bytes, big endian *)
Fixpoint be_bytes (n : nat) (x : N) : bytes :=
  match n with
  | O => []
  | S k => be_bytes k (x / 256) ++ [byte_of_N (x mod 256)]
  end.

Definition pos10 (i : N) (h : nat) : bytes := be_bytes 8 (i mod 2^64) ++ be_bytes 2 (N.of_nat h mod 2^16).

Fixpoint bits_val (bs : list bool) (acc : N) : N :=
  match bs with [] => acc | b :: r => bits_val r (2 * acc + if b then 1 else 0) end.
Fixpoint bytes_of_bits (fuel : nat) (bs : list bool) : bytes :=
  match fuel with
  | O => []
  | S f => match bs with
           | [] => []
           | _ => byte_of_N (bits_val (firstn 8 bs) 0) :: bytes_of_bits f (skipn 8 bs)
           end
  end.
Definition hpos_bytes (p : hpos) : bytes :=
  let '(bits, h) := p in
  let all := bits ++ repeat false h in
  be_bytes 2 (N.of_nat h mod 2^16) ++ bytes_of_bits (length all) all.

Definition enc (x : hin bytes bytes bytes) : bytes :=
  match x with
  | HBare i h => pos10 i h
  | HLeaf e i => e ++ pos10 i O
  | HPart l i h => l ++ pos10 i h
  | HFull l r i h => l ++ r ++ pos10 i h
  | YDef0 => [0; 0]%uint63
  | YDef a b => a ++ b
  | YLeaf v p => v ++ hpos_bytes p
  | YNode a b p => a ++ b ++ hpos_bytes p
  end.

Definition Hsha (x : hin bytes bytes bytes) : bytes := sha256 (enc x).

Fixpoint bytes_eqb (a b : bytes) : bool :=
  match a, b with
  | [], [] => true
  | x :: a', y :: b' => (x =? y)%uint63 && bytes_eqb a' b'
  | _, _ => false
  end.

Definition bits_of_byte (x : int) : list bool :=
  map (fun k => negb ((x >> k) land 1 =? 0)%uint63) [7;6;5;4;3;2;1;0]%uint63.
Definition bits_of_bytes (b : bytes) : list bool := flat_map bits_of_byte b.
