(* Byte-level instance of the hash signature: what the Go code feeds to SHA-256.
   hashing.Salted(salt, data...) = sha256(data... ‖ salt);  hashing.Do(data...) = sha256(concat data). *)
From Coq Require Import Uint63 ZArith.
From QV Require Import Base.Util Base.HashSig Base.Sha256.

Definition bytes := list int.

Definition byte_of_N (x : N) : int := Uint63.of_Z (Z.of_N x).

Fixpoint bits_val (bs : list bool) (acc : N) : N :=
  match bs with [] => acc | b :: r => bits_val r (2 * acc + if b then 1 else 0) end.

(* The byte layouts, generic in the type of a byte (so that Base/Enc.v can prove their unambiguity without the
   primitive-integer axioms); the executable instance below uses Uint63 bytes. *)
Section Layout.
  Variable B : Type.
  Variable byte : N -> B.

  (* n bytes, big endian *)
  Fixpoint be_bytesG (n : nat) (x : N) : list B :=
    match n with
    | O => []
    | S k => be_bytesG k (x / 256) ++ [byte (x mod 256)]
    end.

  Definition pos10G (i : N) (h : nat) : list B := be_bytesG 8 (i mod 2^64) ++ be_bytesG 2 (N.of_nat h mod 2^16).

  Fixpoint bytes_of_bitsG (fuel : nat) (bs : list bool) : list B :=
    match fuel with
    | O => []
    | S f => match bs with
             | [] => []
             | _ => byte (bits_val (firstn 8 bs) 0) :: bytes_of_bitsG f (skipn 8 bs)
             end
    end.
  Definition hpos_bytesG (p : hpos) : list B :=
    let '(bits, h) := p in
    let all := bits ++ repeat false h in
    be_bytesG 2 (N.of_nat h mod 2^16) ++ bytes_of_bitsG (length all) all.

  Definition encG (x : hin (list B) (list B) (list B)) : list B :=
    match x with
    | HBare i h => pos10G i h
    | HLeaf e i => e ++ pos10G i O
    | HPart l i h => l ++ pos10G i h
    | HFull l r i h => l ++ r ++ pos10G i h
    | YDef0 => [byte 0; byte 0]
    | YDef a b => a ++ b
    | YLeaf v p => v ++ hpos_bytesG p
    | YNode a b p => a ++ b ++ hpos_bytesG p
    end.
End Layout.

Definition be_bytes : nat -> N -> bytes := be_bytesG int byte_of_N.
Definition pos10 : N -> nat -> bytes := pos10G int byte_of_N.
Definition bytes_of_bits : nat -> list bool -> bytes := bytes_of_bitsG int byte_of_N.
Definition hpos_bytes : hpos -> bytes := hpos_bytesG int byte_of_N.
Definition enc : hin bytes bytes bytes -> bytes := encG int byte_of_N.

Definition Hsha (x : hin bytes bytes bytes) : bytes := sha256 (enc x).

Fixpoint bytes_eqb (a b : bytes) : bool :=
  match a, b with
  | [], [] => true
  | x :: a', y :: b' => (x =? y)%uint63 && bytes_eqb a' b'
  | _, _ => false
  end.

Definition bits_of_byte (x : int) : list bool :=
  map (fun k => negb ((x >> k) land 1 =? 0)%uint63) [7;6;5;4;3;2;1;0]%uint63.
Definition bits_of_bytes (b : bytes) : list bool := flat_map bits_of_byte b.
