(* Byte-level instance of the hash signature: what the Go code feeds to SHA-256.
   hashing.Salted(salt, data...) = sha256(data... ‖ salt);  hashing.Do(data...) = sha256(concat data). *)
From Coq Require Import Uint63 ZArith.
From QV Require Import Base.Util Base.HashSig Base.Sha256.
From QV Require Export Base.Layout.

Definition bytes := list int.

Definition byte_of_N (x : N) : int := Uint63.of_Z (Z.of_N x).

Definition be_bytes : nat -> N -> bytes := be_bytesG int byte_of_N.
Definition pos10 : N -> nat -> bytes := pos10G int byte_of_N.
Definition bytes_of_bits : nat -> list bool -> bytes := bytes_of_bitsG int byte_of_N.
Definition hpos_bytes : hpos -> bytes := hpos_bytesG int byte_of_N.
Definition enc : hin bytes bytes bytes -> bytes := encG int byte_of_N.

Definition Hsha (x : hin bytes bytes bytes) : bytes := sha256 (enc x).

Fixpoint bytes_eqb (a b : bytes) : bool :=
  match a, b with
  | [], [] => true
  | x :: a', y :: b' => (x =? y)%uint63 && bytes_eqb a' b'
  | _, _ => false
  end.

Definition bits_of_byte (x : int) : list bool :=
  map (fun k => negb ((x >> k) land 1 =? 0)%uint63) [7;6;5;4;3;2;1;0]%uint63.
Definition bits_of_bytes (b : bytes) : list bool := flat_map bits_of_byte b.
