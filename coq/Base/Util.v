(* Small arithmetic helpers shared by the models. *)
From Coq Require Export List NArith Arith Lia Bool.
Export ListNotations.
Open Scope N_scope.

Fixpoint pow2 (h : nat) : N := match h with O => 1 | S k => 2 * pow2 k end.

(* bits.Len64 *)
Definition bitlen (v : N) : nat := N.size_nat v.

Fixpoint assoc {A B} (eqb : A -> A -> bool) (k : A) (l : list (A * B)) : option B :=
  match l with
  | [] => None
  | (k', v) :: r => if eqb k k' then Some v else assoc eqb k r
  end.
