(* The hash idealisation (DESIGN 3.2).  Every place where the QED code calls the hasher is one of the
   input formats below; the models are parametric in the digest type D and in H : hin -> D.
   The byte-level meaning of each format (what the Go code feeds to SHA-256) is [Sha.enc] in
   Base/ShaInst.v and is what the correspondence runs execute. *)
From QV Require Import Base.Util.

Section HashSig.
  Variable D : Type.   (* node digests *)
  Variable E : Type.   (* caller supplied event digests (raw bytes) *)
  Variable V : Type.   (* hyper-tree values (padded versions) *)

  (* hyper positions: (index bits, height); the Go index is the key prefix padded with zero bits *)
  Definition hpos := (list bool * nat)%type.

  Inductive hin : Type :=
  | HBare (i : N) (h : nat)                 (* Salted(pos)            = H(pos10)          (prover's dummy leaf) *)
  | HLeaf (e : E) (i : N)                   (* Salted(pos, e)         = H(e ‖ pos10(i,0)) *)
  | HPart (l : D) (i : N) (h : nat)         (* Salted(pos, l)         = H(l ‖ pos10(i,h)) *)
  | HFull (l r : D) (i : N) (h : nat)       (* Salted(pos, l, r)      = H(l ‖ r ‖ pos10) *)
  | YDef0                                   (* Do(0x00, 0x00) *)
  | YDef (a b : D)                          (* Do(d, d) *)
  | YLeaf (v : V) (p : hpos)                (* Salted(pos, value)     = H(value ‖ pos) *)
  | YNode (a b : D) (p : hpos).             (* Salted(pos, a, b); a is the first operand popped (= right child) *)
End HashSig.

Arguments HBare {D E V}. Arguments HLeaf {D E V}. Arguments HPart {D E V}. Arguments HFull {D E V}.
Arguments YDef0 {D E V}. Arguments YDef {D E V}. Arguments YLeaf {D E V}. Arguments YNode {D E V}.

(* The free term algebra: a digest type on which the identity-like H is injective; used to show that
   the injectivity premise of the soundness theorems is satisfiable. *)
Inductive term (E V : Type) : Type := T (x : hin (term E V) E V).
Arguments T {E V}.
Definition Hterm {E V} (x : hin (term E V) E V) : term E V := T x.
Lemma Hterm_inj {E V} (a b : hin (term E V) E V) : Hterm a = Hterm b -> a = b.
Proof. unfold Hterm. intros Heq. inversion Heq. reflexivity. Qed.
