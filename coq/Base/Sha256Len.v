(* Every SHA-256 digest the executable instance computes has 32 bytes, for every input - proved structurally (the
   compression function keeps the 8-word state), not by evaluation.  Used by the well-formedness statement about the
   length-checked verifier (History/HistChecked.v, checked_inputs_wf). *)
From Coq Require Import Uint63 List Lia.
From QV Require Import Base.Sha256.
Import ListNotations.

Lemma round_length st k w : length (round st k w) = length st.
Proof.
  unfold round.
  destruct st as [|a [|b [|c [|d [|e [|f [|g [|h [|x r]]]]]]]]]; reflexivity.
Qed.

Lemma rounds16_length : forall ks ws st hist st' ks' hist',
  rounds16 st ks ws hist = (st', ks', hist') -> length st' = length st.
Proof.
  induction ks as [|k ks IH]; intros ws st hist st' ks' hist' Heq; cbn [rounds16] in Heq.
  - injection Heq as <- _ _. reflexivity.
  - destruct ws as [|w ws].
    + injection Heq as <- _ _. reflexivity.
    + apply IH in Heq. rewrite Heq. apply round_length.
Qed.

Lemma rounds48_length : forall ks st hist, length (rounds48 st ks hist) = length st.
Proof.
  induction ks as [|k ks IH]; intros st hist; cbn [rounds48]; [reflexivity|].
  rewrite IH. apply round_length.
Qed.

Lemma compress_length hs block : length (compress hs block) = length hs.
Proof.
  unfold compress.
  destruct (rounds16 hs K block []) as [[st ks] hist] eqn:H16.
  apply rounds16_length in H16.
  rewrite map_length, combine_length, rounds48_length, H16. lia.
Qed.

Lemma fold_compress_length : forall blocks hs, length (fold_left compress blocks hs) = length hs.
Proof.
  induction blocks as [|b r IH]; intros hs; cbn [fold_left]; [reflexivity|].
  rewrite IH. apply compress_length.
Qed.

Lemma flat_map_words_length : forall ws, length (flat_map bytes_of_word ws) = (4 * length ws)%nat.
Proof.
  induction ws as [|w r IH]; [reflexivity|].
  cbn [flat_map]. rewrite app_length, IH. cbn [bytes_of_word length]. lia.
Qed.

Theorem sha256_length : forall bs, length (sha256 bs) = 32%nat.
Proof.
  intros bs. unfold sha256. rewrite flat_map_words_length, fold_compress_length. reflexivity.
Qed.
