(* The byte layouts of what the Go code feeds to the hasher, generic in the type of a byte:
   hashing.Salted(salt, data...) = hash(data... ‖ salt);  hashing.Do(data...) = hash(concat data).
   Base/ShaInst.v instantiates them with Uint63 bytes for execution; Base/Enc.v proves them unambiguous. *)
From QV Require Import Base.Util Base.HashSig.

Fixpoint bits_val (bs : list bool) (acc : N) : N :=
  match bs with [] => acc | b :: r => bits_val r (2 * acc + if b then 1 else 0) end.

(* The byte layouts, generic in the type of a byte (so that Base/Enc.v can prove their unambiguity without the
   primitive-integer axioms); the executable instance below uses Uint63 bytes. *)
Section Layout.
  Variable B : Type.
  Variable byte : N -> B.

  (* n bytes, big endian *)
  Fixpoint be_bytesG (n : nat) (x : N) : list B :=
    match n with
    | O => []
    | S k => be_bytesG k (x / 256) ++ [byte (x mod 256)]
    end.

  Definition pos10G (i : N) (h : nat) : list B := be_bytesG 8 (i mod 2^64) ++ be_bytesG 2 (N.of_nat h mod 2^16).

  Fixpoint bytes_of_bitsG (fuel : nat) (bs : list bool) : list B :=
    match fuel with
    | O => []
    | S f => match bs with
             | [] => []
             | _ => byte (bits_val (firstn 8 bs) 0) :: bytes_of_bitsG f (skipn 8 bs)
             end
    end.
  Definition hpos_bytesG (p : hpos) : list B :=
    let '(bits, h) := p in
    let all := bits ++ repeat false h in
    be_bytesG 2 (N.of_nat h mod 2^16) ++ bytes_of_bitsG (length all) all.

  Definition encG (x : hin (list B) (list B) (list B)) : list B :=
    match x with
    | HBare i h => pos10G i h
    | HLeaf e i => e ++ pos10G i O
    | HPart l i h => l ++ pos10G i h
    | HFull l r i h => l ++ r ++ pos10G i h
    | YDef0 => [byte 0; byte 0]
    | YDef a b => a ++ b
    | YLeaf v p => v ++ hpos_bytesG p
    | YNode a b p => a ++ b ++ hpos_bytesG p
    end.
End Layout.

