// Package storeops: random operation sequences against a storage.Store, with a map oracle, shared by
// the bplus (core) and RocksDB (node) harness commands of C14.
package storeops

import (
	"bytes"
	"fmt"
	"os"
	"sort"
	"strings"

	"github.com/bbva/qed/storage"
	"qedverif/cq"
)

var Tables = []storage.Table{storage.HyperTable, storage.HyperCacheTable, storage.HistoryTable, storage.FSMStateTable, storage.DefaultTable}

func coqBs(b []byte) string {
	if len(b) == 0 {
		return "[]"
	}
	var sb strings.Builder
	sb.WriteString("[")
	for i, x := range b {
		if i > 0 {
			sb.WriteString(";")
		}
		fmt.Fprintf(&sb, "%d", x)
	}
	sb.WriteString("]")
	return sb.String()
}

func coqKV(k, v []byte) string { return "(" + coqBs(k) + "," + coqBs(v) + ")" }

func genKey(rng *cq.Rng, pool [][]byte) []byte {
	if len(pool) > 0 && rng.Intn(3) == 0 {
		return pool[rng.Intn(len(pool))]
	}
	switch rng.Intn(12) {
	case 0:
		return []byte{}
	case 1:
		return []byte{0}
	case 2:
		return bytes.Repeat([]byte{0xff}, 1+rng.Intn(12))
	case 3:
		return bytes.Repeat([]byte{0}, 1+rng.Intn(4))
	case 5, 6:
		// keys shaped like the ones the trees store: hyper position = height(2) ‖ index(32), history position = index(8) ‖ height(2)
		if rng.Intn(2) == 0 {
			k := make([]byte, 34)
			k[1] = byte(rng.Intn(4)) * 4
			k[2], k[3] = byte(rng.Intn(3)), byte(rng.Intn(256))
			return k
		}
		k := make([]byte, 10)
		k[7] = byte(rng.Intn(40))
		k[9] = byte(rng.Intn(3))
		return k
	case 4:
		if len(pool) > 0 { // extension of an existing key
			return append(append([]byte{}, pool[rng.Intn(len(pool))]...), byte(rng.Intn(3)))
		}
	}
	n := 1 + rng.Intn(3)
	k := make([]byte, n)
	for i := range k {
		k[i] = []byte{0, 1, 2, 0x7f, 0xfe, 0xff}[rng.Intn(6)]
	}
	return k
}

type oracle map[storage.Table]map[string][]byte

func (o oracle) sorted(t storage.Table) []string {
	var ks []string
	for k := range o[t] {
		ks = append(ks, k)
	}
	sort.Strings(ks)
	return ks
}

// Opener (re)opens the store; reopen is nil for the in-memory back-end.
type Opener func() storage.Store

// Run drives the store and writes cases.v; backend is "bplus" or "rocks".
func Run(out *cq.Out, seed uint64, tier, backend string, open Opener, reopen func(storage.Store) storage.Store) {
	rng := cq.NewRng(seed)
	ncases, nops := 25, 60
	if tier == "thorough" {
		ncases, nops = 120, 120
	}
	var cases []string
	for ci := 0; ci < ncases; ci++ {
		st := open()
		or := oracle{}
		for _, t := range Tables {
			or[t] = map[string][]byte{}
		}
		var pool [][]byte
		var ops []string
		type rd struct {
			r     storage.KVPairReader
			table storage.Table
			pos   int
			snap  []string // oracle keys at open time (a scan sees a consistent table unless it is mutated meanwhile)
			valid bool
		}
		readers := map[int]*rd{}
		nextRid := 0
		var hist []string
		fail := func(sig, what string) {
			out.Violate("C14:"+backend+":"+sig, what, map[string]interface{}{"case": ci, "seed": seed, "backend": backend, "ops": hist})
		}
		for k := 0; k < nops; k++ {
			t := Tables[rng.Intn(len(Tables))]
			switch r := rng.Intn(20); {
			case r < 6 || k < 3: // Mutate
				nb := 1 + rng.Intn(5)
				if rng.Intn(4) == 0 { // a large batch; the same key written several times in it (the last write must win)
					nb = 13 + rng.Intn(40)
					out.Count("large_batches", 1)
				}
				var muts []*storage.Mutation
				var ml []string
				for j := 0; j < nb; j++ {
					tt := Tables[rng.Intn(len(Tables))]
					key := genKey(rng, pool)
					if len(muts) > 0 && rng.Intn(3) == 0 {
						prev := muts[rng.Intn(len(muts))]
						tt, key = prev.Table, prev.Key
						out.Count("duplicate_key_in_batch", 1)
					}
					val := rng.Bytes(1 + rng.Intn(2))
					if rng.Intn(8) == 0 {
						val = []byte{} // a key written with an empty value is a written key
						out.Count("empty_values", 1)
					}
					pool = append(pool, key)
					muts = append(muts, storage.NewMutation(tt, key, val))
					or[tt][string(key)] = val
					ml = append(ml, fmt.Sprintf("(%d%%N,%s,%s)", tt.Prefix(), coqBs(key), coqBs(val)))
				}
				if err := st.Mutate(muts, []byte("m")); err != nil {
					fail("mutate-error", err.Error())
				}
				for _, x := range readers { // a scan concurrent with writes is not specified: stop using it
					x.valid = false
				}
				ops = append(ops, "SMutate "+cq.List(ml))
				hist = append(hist, fmt.Sprintf("Mutate(%d)", nb))
			case r < 10: // Get
				key := genKey(rng, pool)
				kv, err := st.Get(t, key)
				obs := "None"
				want, ok := or[t][string(key)]
				if err == nil {
					obs = "(Some " + coqBs(kv.Value) + ")"
					if !ok || !bytes.Equal(kv.Value, want) {
						fail("get", fmt.Sprintf("Get(%v,%x) returned %x, the map holds %x (present=%v)", t, key, kv.Value, want, ok))
					}
				} else if ok {
					fail("get", fmt.Sprintf("Get(%v,%x) failed (%v) although the key was written", t, key, err))
				}
				ops = append(ops, fmt.Sprintf("SGet %d%%N %s %s", t.Prefix(), coqBs(key), obs))
				out.Case(fmt.Sprintf("get:%d:%d", ci, k), ok)
			case r < 13: // GetRange
				a, b := genKey(rng, pool), genKey(rng, pool)
				res, err := st.GetRange(t, a, b)
				if err != nil {
					fail("range-error", err.Error())
				}
				var rl []string
				for _, kv := range res {
					rl = append(rl, coqKV(kv.Key, kv.Value))
				}
				var want []string
				for _, ks := range or.sorted(t) {
					if bytes.Compare([]byte(ks), a) >= 0 && bytes.Compare([]byte(ks), b) <= 0 {
						want = append(want, ks)
					}
				}
				okr := len(want) == len(res)
				for i := 0; okr && i < len(res); i++ {
					okr = string(res[i].Key) == want[i] && bytes.Equal(res[i].Value, or[t][want[i]])
				}
				if !okr {
					fail("range", fmt.Sprintf("GetRange(%v,%x,%x) returned %d pairs, the map has %d keys in range (or contents differ)", t, a, b, len(res), len(want)))
				}
				ops = append(ops, fmt.Sprintf("SRange %d%%N %s %s %s", t.Prefix(), coqBs(a), coqBs(b), cq.List(rl)))
				out.Case(fmt.Sprintf("range:%d:%d", ci, k), len(want) > 0)
			case r < 15: // GetLast
				kv, err := st.GetLast(t)
				ks := or.sorted(t)
				obs := "None"
				if err == nil {
					obs = "(Some " + coqKV(kv.Key, kv.Value) + ")"
					if len(ks) == 0 || string(kv.Key) != ks[len(ks)-1] || !bytes.Equal(kv.Value, or[t][ks[len(ks)-1]]) {
						fail("last", fmt.Sprintf("GetLast(%v) returned key %x; the table's greatest key is %x (size %d)", t, kv.Key, lastOf(ks), len(ks)))
					}
				} else if len(ks) > 0 {
					fail("last", fmt.Sprintf("GetLast(%v) found nothing in a table of %d keys", t, len(ks)))
				}
				ops = append(ops, fmt.Sprintf("SLast %d%%N %s", t.Prefix(), obs))
				out.Case(fmt.Sprintf("last:%d:%d", ci, k), len(ks) > 0)
			case r < 16: // open reader
				readers[nextRid] = &rd{r: st.GetAll(t), table: t, snap: or.sorted(t), valid: true}
				ops = append(ops, fmt.Sprintf("SOpen %d%%N %d%%N", nextRid, t.Prefix()))
				hist = append(hist, fmt.Sprintf("GetAll(%v)", t))
				nextRid++
			case r < 19: // read from a reader
				var ids []int
				for id, x := range readers {
					if x.valid {
						ids = append(ids, id)
					}
				}
				if len(ids) == 0 {
					continue
				}
				sort.Ints(ids)
				id := ids[rng.Intn(len(ids))]
				x := readers[id]
				n := []int{1, 1, 2, 3, 5, 100}[rng.Intn(6)]
				buf := make([]*storage.KVPair, n)
				got, err := x.r.Read(buf)
				if err != nil {
					fail("read-error", err.Error())
				}
				var rl []string
				okr := true
				for i := 0; i < got; i++ {
					rl = append(rl, coqKV(buf[i].Key, buf[i].Value))
					if x.pos+i >= len(x.snap) || string(buf[i].Key) != x.snap[x.pos+i] || !bytes.Equal(buf[i].Value, or[x.table][x.snap[x.pos+i]]) {
						okr = false
					}
				}
				wantN := len(x.snap) - x.pos
				if wantN > n {
					wantN = n
				}
				if !okr || got != wantN {
					fail("scan", fmt.Sprintf("GetAll(%v) reader returned %d entries at position %d with buffer %d; the table has %d entries (expected %d, or contents differ / entries of another table)", x.table, got, x.pos, n, len(x.snap), wantN))
				}
				x.pos += got
				ops = append(ops, fmt.Sprintf("SRead %d%%N %d %s", id, n, cq.List(rl)))
				hist = append(hist, fmt.Sprintf("Read(r%d,%d)=%d", id, n, got))
				out.Case(fmt.Sprintf("read:%d:%d", ci, k), got > 0)
			default:
				if reopen != nil {
					for _, x := range readers {
						x.r.Close()
					}
					readers = map[int]*rd{}
					st = reopen(st)
					ops = append(ops, "SReopen")
					hist = append(hist, "Reopen")
					out.Count("reopens", 1)
				}
			}
		}
		for _, x := range readers {
			x.r.Close()
		}
		st.Close()
		out.Sample(map[string]interface{}{"case": ci, "backend": backend, "ops": hist})
		cases = append(cases, cq.List(ops))
	}
	f, _ := os.Create(out.Dir + "/cases_" + backend + ".v")
	fmt.Fprintf(f, "From Coq Require Import List NArith.\nFrom QV Require Import Store.Bplus Run.StoreRun.\nImport ListNotations.\nOpen Scope N_scope.\n")
	fmt.Fprintf(f, "Definition cases : list (list sop) := %s.\n", cq.List(cases))
	fmt.Fprintf(f, "Definition R := Eval vm_compute in run_store_cases %s cases.\nPrint R.\n", cq.Bool(backend == "rocks"))
	f.Close()
}

func lastOf(ks []string) []byte {
	if len(ks) == 0 {
		return nil
	}
	return []byte(ks[len(ks)-1])
}
