package main

import "qedverif/cq"

func dispatch14(cmd string, out *cq.Out, seed uint64, tier, arg string) bool {
	switch cmd {
	case "backuplive":
		backupLiveCmd(out, seed, tier)
		return true
	}
	return dispatch15(cmd, out, seed, tier, arg)
}
