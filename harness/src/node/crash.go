package main

import (
	"bufio"
	"bytes"
	"encoding/hex"
	"encoding/json"
	"fmt"
	"os"
	"os/exec"
	"strings"
	"syscall"
	"time"

	"github.com/bbva/qed/balloon"
	"github.com/bbva/qed/consensus"
	"github.com/bbva/qed/crypto/hashing"
	"github.com/bbva/qed/protocol"
	"github.com/bbva/qed/storage"
	"qedverif/cq"
)

// ---- C07: crash points.  A child process applies entries through a store that kills the process (SIGKILL)
// immediately before or after the k-th store write; the parent reopens the directory and compares.

type killStore struct {
	storage.ManagedStore
	n      int
	killAt int
	after  bool
	failAt int // the failAt-th write fails with an I/O error instead (once)
}

func (k *killStore) Mutate(m []*storage.Mutation, meta []byte) error {
	k.n++
	if k.failAt > 0 && k.n == k.failAt {
		return fmt.Errorf("injected I/O error: no space left on device")
	}
	if k.n == k.killAt && !k.after {
		syscall.Kill(os.Getpid(), syscall.SIGKILL)
		time.Sleep(time.Hour)
	}
	err := k.ManagedStore.Mutate(m, meta)
	if k.n == k.killAt && k.after {
		syscall.Kill(os.Getpid(), syscall.SIGKILL)
		time.Sleep(time.Hour)
	}
	return err
}

type childPlan struct {
	Dir       string
	Tag       string
	Entries   int
	Seed      uint64
	From      int
	To        int
	KillAt    int
	After     bool
	Raft      bool
	Port      int
	Recover   bool
	Close     bool // close the node cleanly after the workload and exit 0
	FailAt    int  // the FailAt-th store write returns an error
	Snap      bool // take a raft snapshot right before the clean stop (nothing is applied after it)
	BusyClose int  // > 0: propose a bulk of that many events, and call Close(true) while the state machine is applying it; the node runs with RaftApplyTimeout = 50 ms
	SnapAfter int  // > 0: take a raft snapshot after that many entries of this run and go on inserting (the store is then ahead of the newest snapshot when the process stops or is killed)
}

type ackLine struct {
	Entry   int
	Version uint64
	Event   string
	History string
	Hyper   string
	Already bool
}

func writeAck(f *os.File, entry int, snaps []*balloon.Snapshot, already bool) {
	if already {
		b, _ := json.Marshal(ackLine{Entry: entry, Already: true})
		f.Write(append(b, '\n'))
	}
	for _, s := range snaps {
		b, _ := json.Marshal(ackLine{Entry: entry, Version: s.Version, Event: hex.EncodeToString(s.EventDigest), History: hex.EncodeToString(s.HistoryDigest), Hyper: hex.EncodeToString(s.HyperDigest)})
		f.Write(append(b, '\n'))
	}
	f.Sync()
}

// crashChild is the body of the child process.
func crashChild(arg string) {
	var p childPlan
	if err := json.Unmarshal([]byte(arg), &p); err != nil {
		panic(err)
	}
	acks, _ := os.OpenFile(p.Dir+"/acks.jsonl", os.O_APPEND|os.O_CREATE|os.O_WRONLY, 0644)
	if p.Raft {
		raftChild(p, acks)
		return
	}
	rng := cq.NewRng(p.Seed)
	lg := genLog(rng, p.Tag, p.Entries)
	ch := make(chan *protocol.Snapshot, 1024)
	drain(ch)
	st := &killStore{ManagedStore: openRocks(p.Dir + "/db"), killAt: p.KillAt, after: p.After, failAt: p.FailAt}
	n, err := consensus.VNewFSM(st, ch)
	if err != nil {
		panic(err)
	}
	for j := p.From; j < p.To; j++ {
		if p.FailAt > 0 {
			// raft hands every committed entry to the state machine once; an error goes back to the client
			snaps, err := n.VApplyErr(lg[j].index, lg[j].evs)
			if err == nil {
				writeAck(acks, j, snaps, false)
			} else {
				fmt.Println("APPLYERR", j, err)
			}
			continue
		}
		snaps, already := n.VApplyT(lg[j].index, lg[j].term, lg[j].evs)
		writeAck(acks, j, snaps, already)
	}
	if p.FailAt > 0 {
		fmt.Println("FINALVERSION", n.VBalloonVersion())
	}
	n.VCloseFSM()
}

// raftChild: a single-node raft cluster adding events until killed (or, in recover mode, reporting its state)
func raftChild(p childPlan, acks *os.File) {
	no := nodeOpts{id: 0, name: "crash", dir: p.Dir, raftPort: p.Port, bootstrap: true, snapThr: 8192, trailing: 10240}
	if p.BusyClose > 0 {
		no.applyTimeout = 50 * time.Millisecond
	}
	n, _, err := startNode(no)
	if err != nil {
		fmt.Println("STARTERR", err)
		os.Exit(3)
	}
	if !waitLeader(n) {
		fmt.Println("NOLEADER")
		os.Exit(3)
	}
	if p.Recover {
		// wait until raft has replayed its log into the state machine
		n.VRaft().Barrier(10 * time.Second).Error()
		idx, ver := n.VState()
		fmt.Printf("RECOVERED %d %d %d\n", idx, ver, n.VBalloonVersion())
	}
	base := n.VBalloonVersion()
	for i := 0; i < p.Entries; i++ {
		var evs [][]byte
		k := 1 + int((p.Seed+uint64(i))%3)
		for j := 0; j < k; j++ {
			evs = append(evs, []byte(fmt.Sprintf("%s-%d-%d-%d", p.Tag, base, i, j)))
		}
		snaps, err := n.AddBulk(evs)
		if err != nil {
			fmt.Println("ADDERR", err)
			os.Exit(4)
		}
		writeAck(acks, i, snaps, false)
		if p.SnapAfter > 0 && i+1 == p.SnapAfter {
			if err := n.VForceSnapshot(); err != nil {
				fmt.Println("SNAPSHOT-NOTE", err)
			} else {
				fmt.Println("SNAPSHOT-TAKEN-MIDWAY")
			}
		}
		if !p.Recover {
			time.Sleep(3 * time.Millisecond)
		}
	}
	if p.BusyClose > 0 {
		// a large bulk is proposed; as soon as the state machine has started on it (the version counter moves) the node is closed
		before := n.VBalloonVersion()
		var evs [][]byte
		for j := 0; j < p.BusyClose; j++ {
			evs = append(evs, []byte(fmt.Sprintf("%s-busy-%d", p.Tag, j)))
		}
		done := make(chan struct{})
		go func() {
			defer close(done)
			snaps, err := n.AddBulk(evs)
			fmt.Println("BUSYBULK", len(snaps), err)
		}()
		for w := 0; w < 2000 && n.VBalloonVersion() == before; w++ {
			time.Sleep(time.Millisecond)
		}
		time.Sleep(20 * time.Millisecond)
		fmt.Println("CLOSING-WHILE-APPLYING", n.VBalloonVersion() != before)
		if err := n.Close(true); err != nil {
			fmt.Println("CLOSEERR", err)
			os.Exit(5)
		}
		fmt.Println("CLOSED")
		select {
		case <-done:
		case <-time.After(5 * time.Second):
		}
		return
	}
	if p.Recover || p.Close {
		fmt.Println("DONE", n.VBalloonVersion())
		if p.Snap {
			if err := n.VForceSnapshot(); err != nil {
				fmt.Println("SNAPSHOT-NOTE", err) // e.g. nothing new to snapshot
			} else {
				fmt.Println("SNAPSHOT-TAKEN")
			}
		}
		if err := n.Close(true); err != nil {
			fmt.Println("CLOSEERR", err)
			os.Exit(5)
		}
		fmt.Println("CLOSED")
	}
}

func runChild(out *cq.Out, p childPlan, killAfter time.Duration) (string, error) {
	b, _ := json.Marshal(p)
	cmd := exec.Command(os.Args[0], "crashchild", "--arg", string(b), "--out", out.Dir)
	var buf bytes.Buffer
	cmd.Stdout = &buf
	cmd.Stderr = &buf
	if err := cmd.Start(); err != nil {
		return "", err
	}
	done := make(chan error, 1)
	go func() { done <- cmd.Wait() }()
	if killAfter > 0 {
		select {
		case err := <-done:
			return buf.String(), err
		case <-time.After(killAfter):
			cmd.Process.Signal(syscall.SIGKILL)
			<-done
			return buf.String(), fmt.Errorf("killed")
		}
	}
	select {
	case err := <-done:
		return buf.String(), err
	case <-time.After(120 * time.Second):
		cmd.Process.Signal(syscall.SIGKILL)
		<-done
		return buf.String(), fmt.Errorf("timeout")
	}
}

func readAcks(path string) []ackLine {
	f, err := os.Open(path)
	if err != nil {
		return nil
	}
	defer f.Close()
	var out []ackLine
	sc := bufio.NewScanner(f)
	for sc.Scan() {
		var a ackLine
		if json.Unmarshal(sc.Bytes(), &a) == nil {
			out = append(out, a)
		}
	}
	return out
}

func crashCmd(out *cq.Out, seed uint64, tier string) {
	rng := cq.NewRng(seed)
	small := 5
	if tier == "thorough" {
		small = 16
	}
	for _, cfg := range []struct {
		tag string
		m   int
	}{{"crash", small}, {"bigcrash", 6}} {
		tag, m := cfg.tag, cfg.m
		big := strings.HasPrefix(tag, "big")
		lg := genLog(cq.NewRng(seed), tag, m)
		// reference: a node that never crashes
		refDir, _ := os.MkdirTemp(out.Dir, "ref")
		ref := openFSM(refDir + "/db0")
		var refSnaps [][]*balloon.Snapshot
		for j, e := range lg {
			seqBefore := ref.VStore().LastWALSequenceNumber()
			s, _ := ref.VApplyT(e.index, e.term, e.evs)
			// "immediately before or after the storage write": the apply must reach the engine as ONE write (one
			// write-ahead-log record); several records mean there are instants in between at which a crash leaves
			// part of an insertion on disk
			records := 0
			ref.VStore().FetchSnapshot(nopWriteCloser{}, seqBefore, ref.VStore().LastWALSequenceNumber(), func(meta []byte) (bool, error) {
				records++
				return false, nil
			})
			if records != 1 {
				out.Violate("C07:model-assumption:apply-is-one-store-write", fmt.Sprintf("applying entry %d (%d events) reached the storage engine as %d separate writes; the model of C07 (Fsm/Fsm.v: one atomic store write per applied entry) no longer describes the code: unless recovery repairs it, a crash between the writes leaves neither the state before nor the state after the insertion", j, len(e.evs), records),
					map[string]interface{}{"seed": seed, "entries": m, "large_log": big, "entry": j, "events": len(e.evs)})
			}
			refSnaps = append(refSnaps, s)
		}
		refFP := tablesFP(ref.VStore())
		ref.VCloseFSM()
		points := 0
		for k := 1; k <= m; k++ {
			for _, after := range []bool{false, true} {
				if tier != "thorough" && rng.Intn(3) == 0 && k > 1 && k < m {
					continue
				}
				if big && k < m-1 {
					continue // the large log is there for the restart with more than 1000 cache tiles: late crash points only
				}
				points++
				dir, _ := os.MkdirTemp(out.Dir, "cp")
				desc := map[string]interface{}{"seed": seed, "entries": m, "large_log": big, "crash_at_write": k, "after_write": after}
				_, err := runChild(out, childPlan{Dir: dir, Tag: tag, Entries: m, Seed: seed, From: 0, To: m, KillAt: k, After: after}, 0)
				if err == nil {
					out.Violate("C07:infrastructure-child-survived", "the child was not killed at the crash point", desc)
					continue
				}
				acks := readAcks(dir + "/acks.jsonl")
				ackedEntries := 0
				for _, a := range acks {
					if a.Entry+1 > ackedEntries {
						ackedEntries = a.Entry + 1
					}
				}
				// restart on the same directory
				var n *consensus.RaftNode
				panicked, msg := cq.Catch(func() { n = openFSM(dir + "/db") })
				if panicked {
					out.Violate("C07:restart-panic", "restart after the crash panicked: "+msg, desc)
					continue
				}
				wantApplied := k - 1
				if after {
					wantApplied = k
				}
				var wantEvents uint64
				for j := 0; j < wantApplied; j++ {
					wantEvents += uint64(len(lg[j].evs))
				}
				if v := n.VBalloonVersion(); v != wantEvents {
					out.Violate("C07:not-a-prefix", fmt.Sprintf("after a crash %s write %d the restarted node holds %d events; a prefix of the committed log has %d", map[bool]string{false: "before", true: "after"}[after], k, v, wantEvents), desc)
				}
				if ackedEntries > wantApplied {
					out.Violate("C07:acknowledged-but-lost", fmt.Sprintf("%d entries were acknowledged before the crash, only %d are in the recovered state", ackedEntries, wantApplied), desc)
				}
				// raft replays from an index at or before the first unapplied entry
				from := rng.Intn(wantApplied + 1)
				ok := true
				for j := from; j < m && ok; j++ {
					var snaps []*balloon.Snapshot
					var already bool
					p, pm := cq.Catch(func() { snaps, already = n.VApplyT(lg[j].index, lg[j].term, lg[j].evs) })
					if p {
						out.Violate("C07:replay-panic", "replay after the crash panicked: "+pm, desc)
						ok = false
						break
					}
					if already != (j < wantApplied) {
						out.Violate("C07:replay-not-exactly-once", fmt.Sprintf("on replay entry %d was %s; %d entries were durable", j, map[bool]string{true: "skipped", false: "applied"}[already], wantApplied), desc)
						ok = false
					}
					if !already {
						for x, s := range snaps {
							r := refSnaps[j][x]
							if s.Version != r.Version || !bytes.Equal(s.HistoryDigest, r.HistoryDigest) || !bytes.Equal(s.HyperDigest, r.HyperDigest) {
								out.Violate("C07:diverges-from-never-crashed", fmt.Sprintf("after recovery, the snapshot of entry %d event %d differs from the never-crashed node's (version %d vs %d)", j, x, s.Version, r.Version), desc)
								ok = false
							}
						}
					}
				}
				if ok {
					if fp := tablesFP(n.VStore()); fp != refFP {
						out.Violate("C07:tables-differ-from-never-crashed", "after recovery and replay the stored tables differ from the never-crashed node's", desc)
					}
					// every snapshot acknowledged before the crash is still verifiable
					last := refSnaps[m-1][len(refSnaps[m-1])-1]
					for _, a := range acks {
						if a.Already {
							continue
						}
						ev, _ := hex.DecodeString(a.Event)
						p, err := n.VBalloon().QueryDigestMembershipConsistency(hashing.Digest(ev), last.Version)
						if err != nil || !p.DigestVerify(ev, &balloon.Snapshot{HistoryDigest: last.HistoryDigest, HyperDigest: last.HyperDigest}) || p.ActualVersion != a.Version {
							out.Violate("C07:acknowledged-snapshot-unverifiable", fmt.Sprintf("version %d was acknowledged before the crash; after recovery its membership proof does not verify (err=%v)", a.Version, err), desc)
							break
						}
					}
				}
				out.Case(fmt.Sprintf("cp:%s:%d:%v", tag, k, after), true)
				n.VCloseFSM()
				os.RemoveAll(dir)
			}
		}
		out.Count("crash_points", points)
		out.Sample(map[string]interface{}{"entries": m, "crash_points": points, "kind": "before/after each store write, then restart + replay from a random earlier entry"})
	}
	failWriteScenario(out, seed, rng)
	// ---- real raft, SIGKILL at a random wall-clock instant, restart and log replay
	kills := 2
	if tier == "thorough" {
		kills = 8
	}
	for t := 0; t < kills; t++ {
		dir, _ := os.MkdirTemp(out.Dir, "rk")
		port := freePorts(1)[0]
		desc := map[string]interface{}{"seed": seed, "kind": "raft-sigkill", "trial": t, "raft_snapshot_midway": t%2 == 1}
		killAfter := time.Duration(1500+rng.Intn(1500)) * time.Millisecond
		o1, _ := runChild(out, childPlan{Dir: dir, Tag: fmt.Sprintf("rk%d", t), Entries: 100000, Seed: seed + uint64(t), Raft: true, Port: port, SnapAfter: (t % 2) * (3 + rng.Intn(5))}, killAfter)
		acks := readAcks(dir + "/acks.jsonl")
		if strings.Contains(o1, "STARTERR") || strings.Contains(o1, "NOLEADER") || len(acks) == 0 {
			out.Count("raft_kill_skipped_infrastructure", 1)
			continue
		}
		var acked uint64
		for i, a := range acks {
			if a.Version != uint64(i) {
				out.Violate("C05:version-not-dense", fmt.Sprintf("acknowledged snapshots are not dense: %d-th acknowledgement carries version %d", i, a.Version), desc)
				break
			}
			acked = a.Version + 1
		}
		o2, err := runChild(out, childPlan{Dir: dir, Tag: fmt.Sprintf("rk%d-b", t), Entries: 5, Seed: seed + uint64(t), Raft: true, Port: port, Recover: true}, 0)
		var idx, ver, bver uint64
		rec := false
		for _, line := range strings.Split(o2, "\n") {
			if _, e := fmt.Sscanf(line, "RECOVERED %d %d %d", &idx, &ver, &bver); e == nil {
				rec = true
			}
		}
		out.Case(fmt.Sprintf("rk:%d", t), acked > 3)
		out.Count("raft_kill_acked_events", int(acked))
		if !rec && (strings.Contains(o2, "address already in use") || strings.Contains(o2, "bind:")) {
			out.Count("raft_kill_skipped_infrastructure", 1) // another process took the port while the node was down
			continue
		}
		if !rec || err != nil {
			out.Violate("C07:restart-failed", fmt.Sprintf("the node killed with SIGKILL after %d acknowledged events did not come back: %.300s", acked, o2), desc)
			continue
		}
		// every acknowledged event is durable; at most one unacknowledged bulk (<=3 events) may have been applied too
		if bver < acked || bver > acked+3 {
			out.Violate("C07:not-a-prefix", fmt.Sprintf("%d events were acknowledged before SIGKILL; after restart and replay the node holds %d", acked, bver), desc)
		}
		all := readAcks(dir + "/acks.jsonl")
		for i := len(acks); i < len(all); i++ {
			if all[i].Version != bver+uint64(i-len(acks)) {
				out.Violate("C05:version-not-dense", fmt.Sprintf("after recovery at version %d the next acknowledged insertion received version %d", bver, all[i].Version), desc)
				break
			}
		}
		os.RemoveAll(dir)
	}
}

type nopWriteCloser struct{}

func (nopWriteCloser) Write(p []byte) (int, error) { return len(p), nil }
func (nopWriteCloser) Close() error                { return nil }

// failViolate: one finding, reported under every property it breaks (each check keeps its own prefix): the versions
// are no longer dense (C05), the replica no longer equals the others (C06), a committed entry is not applied exactly
// once after recovery (C07), queries are answered from a state that mixes two versions (C10).
func failViolate(out *cq.Out, what string, desc interface{}) {
	out.Violate("C05:version-not-dense:after-failed-store-write", what, desc)
	out.Violate("C06:replica-diverges:after-failed-store-write", what, desc)
	out.Violate("C07:entry-not-applied-once:after-failed-store-write", what, desc)
	out.Violate("C10:mixed-state:after-failed-store-write", what, desc)
}

// failWriteScenario: a store write that fails (I/O error) on a running node.
func failWriteScenario(out *cq.Out, seed uint64, rng *cq.Rng) {
	// ---- a store write that fails (I/O error) on a running node: whether the node dies and recovers or goes on, the
	// versions acknowledged over its whole life must be dense and the version counter must equal the accepted events
	{
		m := 6
		tag := "failwrite"
		lg := genLog(cq.NewRng(seed), tag, m)
		k := 2 + rng.Intn(m-2)
		dir, _ := os.MkdirTemp(out.Dir, "fw")
		desc := map[string]interface{}{"seed": seed, "entries": m, "failing_store_write": k, "kind": "store write returns an I/O error"}
		out.Note(desc)
		o1, _ := runChild(out, childPlan{Dir: dir, Tag: tag, Entries: m, Seed: seed, From: 0, To: m, FailAt: k}, 0)
		acks := readAcks(dir + "/acks.jsonl")
		accepted := uint64(0)
		dense := true
		for _, a := range acks {
			if a.Version != accepted {
				dense = false
				failViolate(out, fmt.Sprintf("store write %d failed with an I/O error; afterwards the node acknowledged version %d for its accepted event number %d (a version was skipped or repeated)", k, a.Version, accepted), desc)
				break
			}
			accepted++
		}
		if dense {
			// the node either died at the failed write (then it restarts and replays) or went on: in both cases the
			// version counter it reports must be the number of events it holds
			var n *consensus.RaftNode
			if p, msg := cq.Catch(func() { n = openFSM(dir + "/db") }); p {
				out.Violate("C07:restart-panic", "restart after a failed store write panicked: "+msg, desc)
			} else {
				if v := n.VBalloonVersion(); v != accepted {
					failViolate(out, fmt.Sprintf("after a failed store write the node holds %d acknowledged events and reports version counter %d", accepted, v), desc)
				}
				// replay of the whole log: everything not yet applied is applied once, with the versions of the committed log
				want := uint64(0)
				for j := 0; j < m; j++ {
					snaps, already := n.VApplyT(lg[j].index, lg[j].term, lg[j].evs)
					if !already && len(snaps) > 0 && snaps[0].Version != want {
						failViolate(out, fmt.Sprintf("on replay after a failed store write entry %d received version %d, the committed log gives it %d", j, snaps[0].Version, want), desc)
						break
					}
					want += uint64(len(lg[j].evs))
				}
				n.VCloseFSM()
			}
		}
		_ = o1
		out.Case("failwrite", true)
		os.RemoveAll(dir)
	}
}

func failwriteCmd(out *cq.Out, seed uint64, tier string) {
	rng := cq.NewRng(seed)
	n := 1
	if tier == "thorough" {
		n = 4
	}
	for i := 0; i < n; i++ {
		failWriteScenario(out, seed+uint64(i), rng)
	}
}
