package main

import "qedverif/cq"

func dispatch15(cmd string, out *cq.Out, seed uint64, tier, arg string) bool {
	switch cmd {
	case "transferlive":
		transferLive(out, cq.NewRng(seed), seed, tier)
		return true
	}
	return dispatch16(cmd, out, seed, tier, arg)
}
