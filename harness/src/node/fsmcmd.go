package main

import (
	"bytes"
	"fmt"
	"os"
	"strings"

	"github.com/bbva/qed/balloon"
	"github.com/bbva/qed/crypto/hashing"
	"qedverif/cq"
)

// ---- C05 / C07 / C08 at the state-machine level: the real FSM (balloon + rocks) driven entry by entry

type logEntry struct {
	index uint64
	evs   []hashing.Digest
	term  uint64 // raft term of the entry: non-decreasing along the log, a new one after an election
}

func genLog(rng *cq.Rng, tag string, m int) []logEntry {
	var l []logEntry
	idx := uint64(1 + rng.Intn(3))
	ev := uint64(0)
	term := uint64(1)
	for i := 0; i < m; i++ {
		k := 1
		if rng.Intn(3) == 0 {
			k = 1 + rng.Intn(5)
		}
		if strings.HasPrefix(tag, "big") {
			// large bulks: more than 1000 events (and hyper cache tiles) after a handful of entries
			k = 240 + rng.Intn(120) // 4k+1 mutations: above 1000 for most of them
		}
		var evs []hashing.Digest
		for j := 0; j < k; j++ {
			evs = append(evs, digestOf(tag, ev))
			ev++
		}
		if rng.Intn(3) == 0 {
			term += uint64(1 + rng.Intn(2)) // an election happened before this entry (restart, leadership change)
		}
		l = append(l, logEntry{idx, evs, term})
		idx += uint64(1 + rng.Intn(3)) // raft interleaves configuration/noop entries
	}
	return l
}

func fsmCmd(out *cq.Out, seed uint64, tier string) {
	rng := cq.NewRng(seed)
	ncases := 20
	if tier == "thorough" {
		ncases = 60
	}
	var cases []string
	for ci := 0; ci < ncases; ci++ {
		dir, _ := os.MkdirTemp(out.Dir, "fsm")
		m := 2 + rng.Intn(10)
		lg := genLog(rng, fmt.Sprintf("c%d", ci), m)
		applied := 0 // entries applied so far (ground truth)
		nextVersion := uint64(0)
		var incs []string
		var hist []string
		dead := false
		var refSnaps []*balloon.Snapshot
		for inc := 0; inc < 2+rng.Intn(4) && !dead; inc++ {
			n := openFSM(dir)
			if v := n.VBalloonVersion(); v != nextVersion {
				out.Violate("C08:version-after-reopen", fmt.Sprintf("after reopening the store the balloon reports version %d, %d events were applied", v, nextVersion),
					map[string]interface{}{"case": ci, "seed": seed, "history": hist})
			}
			a := rng.Intn(applied + 1)
			if rng.Intn(2) == 0 {
				a = 0 // raft replays from the start of its log when no raft snapshot exists
			}
			b := a + rng.Intn(m-a+1)
			if inc == 0 && rng.Intn(2) == 0 {
				b = 1 // stop right after the very first entry
			}
			var ds []string
			for j := a; j < b; j++ {
				e := lg[j]
				var snaps []*balloon.Snapshot
				var already bool
				panicked, msg := cq.Catch(func() { snaps, already = n.VApplyT(e.index, e.term, e.evs) })
				switch {
				case panicked:
					ds = append(ds, fmt.Sprintf("(%s,%d%%nat,(2%%N,0%%N,0%%nat))", cq.N(e.index), len(e.evs)))
					out.Violate("C05:apply-panic", fmt.Sprintf("Apply panicked on a committed entry (index %d, %d events): %.150s", e.index, len(e.evs), msg),
						map[string]interface{}{"case": ci, "seed": seed, "history": hist})
					dead = true
				case already:
					ds = append(ds, fmt.Sprintf("(%s,%d%%nat,(1%%N,0%%N,0%%nat))", cq.N(e.index), len(e.evs)))
					if j >= applied {
						out.Violate("C05:entry-skipped", fmt.Sprintf("entry %d (index %d) was never applied but Apply answered 'already applied'", j, e.index),
							map[string]interface{}{"case": ci, "seed": seed, "history": hist})
					}
				default:
					ds = append(ds, fmt.Sprintf("(%s,%d%%nat,(0%%N,%s,%d%%nat))", cq.N(e.index), len(e.evs), cq.N(snaps[0].Version), len(snaps)))
					if j < applied {
						out.Violate("C05:entry-applied-twice", fmt.Sprintf("entry %d (index %d) was applied again on redelivery: versions %d.. issued twice", j, e.index, snaps[0].Version),
							map[string]interface{}{"case": ci, "seed": seed, "history": hist})
					}
					for k, s := range snaps {
						if s.Version != nextVersion+uint64(k) || !bytes.Equal(s.EventDigest, e.evs[k]) {
							out.Violate("C05:version-not-dense", fmt.Sprintf("event %d of entry %d received version %d / another event's digest; expected version %d", k, j, s.Version, nextVersion+uint64(k)),
								map[string]interface{}{"case": ci, "seed": seed, "history": hist})
						}
					}
					if j >= applied {
						applied = j + 1
						nextVersion += uint64(len(snaps))
						refSnaps = append(refSnaps, snaps...)
					}
				}
				out.Case(fmt.Sprintf("deliver:%d:%d:%d", ci, inc, j), j < applied-1 || len(e.evs) > 1)
				if dead {
					break
				}
			}
			hist = append(hist, fmt.Sprintf("incarnation %d: deliver entries [%d,%d)", inc, a, b))
			idx, ver := n.VState()
			incs = append(incs, fmt.Sprintf("(%s, (%s,%s))", cq.List(ds), cq.N(idx), cq.N(ver)))
			if !dead {
				// a proof for an acknowledged event verifies against the snapshots issued for it (now and after reopen)
				if len(refSnaps) > 0 {
					k := rng.Intn(len(refSnaps))
					cur := uint64(len(refSnaps) - 1)
					p, err := n.VBalloon().QueryDigestMembershipConsistency(refSnaps[k].EventDigest, cur)
					if err != nil || !p.DigestVerify(refSnaps[k].EventDigest, &balloon.Snapshot{HistoryDigest: refSnaps[cur].HistoryDigest, HyperDigest: lastHyper(refSnaps)}) {
						out.Violate("C07:acknowledged-snapshot-unverifiable", fmt.Sprintf("event %d acknowledged earlier is not provable against the issued snapshots after %d incarnations (err=%v)", k, inc+1, err),
							map[string]interface{}{"case": ci, "seed": seed, "history": hist})
					}
				}
				n.VCloseFSM()
			}
		}
		out.Sample(map[string]interface{}{"case": ci, "entries": m, "life": strings.Join(hist, "; ")})
		cases = append(cases, cq.List(incs))
	}
	f, _ := os.Create(out.Dir + "/cases.v")
	fmt.Fprintf(f, "From Coq Require Import List NArith.\nFrom QV Require Import Fsm.Fsm Run.FsmRun.\nImport ListNotations.\nOpen Scope N_scope.\n")
	fmt.Fprintf(f, "Definition cases : list fcase := %s.\n", cq.List(cases))
	fmt.Fprintf(f, "Definition R := Eval vm_compute in run_fsm_cases cases.\nPrint R.\n")
	f.Close()
}

func lastHyper(s []*balloon.Snapshot) hashing.Digest { return s[len(s)-1].HyperDigest }
