package main

import (
	"fmt"
	"os"
	"sort"
	"strings"
	"sync"
	"time"

	"github.com/bbva/qed/crypto/hashing"
	"github.com/bbva/qed/crypto/sign"
	"github.com/bbva/qed/gossip"
	"github.com/bbva/qed/protocol"
	"github.com/bbva/qed/server"
	"qedverif/cq"
)

// ---- C17: every issued snapshot leaves the sender exactly once, in a batch of at most BatchSize, with a
// signature that binds its content.

type batchCollector struct{ ch <-chan *gossip.Message }

func (c *batchCollector) Subscribe(id int, ch <-chan *gossip.Message) { c.ch = ch }

var senderAgentSeq = 0

func newQuietAgent() (*gossip.Agent, *batchCollector, error) { return newQuietAgentQ(1 << 16) }

func newQuietAgentQ(queue int) (*gossip.Agent, *batchCollector, error) {
	conf := gossip.DefaultConfig()
	senderAgentSeq++
	conf.NodeName = fmt.Sprintf("c17-%d-%d", os.Getpid(), senderAgentSeq)
	conf.Role = "qed"
	conf.BindAddr = fmt.Sprintf("127.0.0.1:%d", freePorts(1)[0]) // never bound: the agent is not started
	a, err := gossip.NewAgentFromConfig(conf)
	if err != nil {
		return nil, nil, err
	}
	col := &batchCollector{}
	a.Out.Subscribe(gossip.BatchMessageType, col, queue)
	return a, col, nil
}

func mkSnap(rng *cq.Rng, v uint64) *protocol.Snapshot {
	return &protocol.Snapshot{EventDigest: hashing.Digest(rng.Bytes(32)), HistoryDigest: hashing.Digest(rng.Bytes(32)), HyperDigest: hashing.Digest(rng.Bytes(32)), Version: v}
}

func coqBytes(b []byte) string {
	xs := make([]string, len(b))
	for i, x := range b {
		xs[i] = fmt.Sprint(x)
	}
	return cq.List(xs)
}

// collect batches until `want` snapshots have been seen or nothing arrives for `quiet`.
func collectBatches(col *batchCollector, want int, quiet time.Duration) (batches []*protocol.BatchSnapshots, undecodable int) {
	got := 0
	for {
		select {
		case m := <-col.ch:
			var b protocol.BatchSnapshots
			if err := b.Decode(m.Payload); err != nil {
				undecodable++
				continue
			}
			batches = append(batches, &b)
			got += len(b.Snapshots)
			if want > 0 && got >= want {
				// anything extra must show up shortly
				quiet = 400 * time.Millisecond
				want = 0
			}
		case <-time.After(quiet):
			return
		}
	}
}

func senderCmd(out *cq.Out, seed uint64, tier string) {
	rng := cq.NewRng(seed)
	signer := sign.NewEd25519Signer()

	// ---- (1) the signed message: fmt.Sprintf("%v", snapshot) against the Coq printer
	var pcases []string
	nprint := 60
	if tier == "thorough" {
		nprint = 400
	}
	for i := 0; i < nprint; i++ {
		lens := []int{32, 32, 32}
		if i%3 == 1 {
			lens = []int{rng.Intn(5), rng.Intn(40), rng.Intn(3)}
		}
		s := &protocol.Snapshot{EventDigest: rng.Bytes(lens[0]), HistoryDigest: rng.Bytes(lens[1]), HyperDigest: rng.Bytes(lens[2]), Version: rng.U64() >> uint(rng.Intn(64))}
		if i%7 == 3 {
			s.Version = ^uint64(0)
		}
		if i%11 == 5 {
			s.HyperDigest = nil
		}
		msg := fmt.Sprintf("%v", s)
		if strings.ContainsAny(msg, "\"\\") {
			panic("unexpected character in printed snapshot")
		}
		pcases = append(pcases, fmt.Sprintf("({| sn_event := %s; sn_history := %s; sn_hyper := %s; sn_version := %d |}, \"%s\"%%string)",
			coqBytes(s.EventDigest), coqBytes(s.HistoryDigest), coqBytes(s.HyperDigest), s.Version, msg))
		out.Case(fmt.Sprintf("print:%d", i), len(s.EventDigest) > 0)
	}

	// ---- (2) signature binding on the real ed25519 signer: every single-bit change of every field and of the signature
	nsig := 3
	if tier == "thorough" {
		nsig = 12
	}
	for i := 0; i < nsig; i++ {
		s := mkSnap(rng, rng.U64()>>uint(rng.Intn(64)))
		sg, _ := signer.Sign([]byte(fmt.Sprintf("%v", s)))
		desc := map[string]interface{}{"seed": seed, "snapshot": fmt.Sprintf("%v", s)}
		if ok, _ := signer.Verify([]byte(fmt.Sprintf("%v", s)), sg); !ok {
			out.Violate("C17:signature-does-not-verify", "a freshly signed snapshot does not verify under the signer's public key", desc)
		}
		flips := 0
		try := func(what string, t *protocol.Snapshot, g []byte) {
			flips++
			if ok, _ := signer.Verify([]byte(fmt.Sprintf("%v", t)), g); ok {
				desc["modification"] = what
				out.Violate("C17:signature-survives-modification", "the signature still verifies after "+what, desc)
			}
		}
		for f := 0; f < 3; f++ {
			for bit := 0; bit < 256; bit++ {
				t := &protocol.Snapshot{EventDigest: append([]byte{}, s.EventDigest...), HistoryDigest: append([]byte{}, s.HistoryDigest...), HyperDigest: append([]byte{}, s.HyperDigest...), Version: s.Version}
				fld := [][]byte{t.EventDigest, t.HistoryDigest, t.HyperDigest}[f]
				fld[bit/8] ^= 1 << uint(bit%8)
				try(fmt.Sprintf("flipping bit %d of field %d", bit, f), t, sg)
			}
		}
		for bit := 0; bit < 64; bit++ {
			t := *s
			t.Version ^= 1 << uint(bit)
			try(fmt.Sprintf("flipping bit %d of the version", bit), &t, sg)
		}
		for bit := 0; bit < len(sg)*8; bit++ {
			g := append([]byte{}, sg...)
			g[bit/8] ^= 1 << uint(bit%8)
			try(fmt.Sprintf("flipping bit %d of the signature", bit), s, g)
		}
		// field boundaries: moving a byte from one digest to the next must change the message
		t := &protocol.Snapshot{EventDigest: s.EventDigest[:31], HistoryDigest: append([]byte{s.EventDigest[31]}, s.HistoryDigest...), HyperDigest: s.HyperDigest, Version: s.Version}
		try("moving the last byte of the event digest to the front of the history digest", t, sg)
		try("truncating the signature", s, sg[:len(sg)-1])
		out.Count("signature_modifications", flips)
		out.Case(fmt.Sprintf("sig:%d", i), true)
	}

	// ---- (3) one batcher, scripted bursts and pauses: the published batches against the Coq batcher
	var bcases []string
	nscripts := 4
	if tier == "thorough" {
		nscripts = 16
	}
	interval := 100 * time.Millisecond
	for sc := 0; sc < nscripts; sc++ {
		B := 1 + rng.Intn(6)
		var bursts []int
		for i := 0; i < 2+rng.Intn(3); i++ {
			k := rng.Intn(3 * B)
			if i == 0 {
				k = B*2 + rng.Intn(B+1) // at least one full batch through the "full" path
			}
			bursts = append(bursts, k)
		}
		desc := map[string]interface{}{"seed": seed, "script": sc, "batch_size": B, "bursts": bursts, "batchers": 1}
		out.Note(desc)
		var evs []string
		var observed [][]uint64
		for attempt := 0; attempt < 3; attempt++ {
			agent, col, err := newQuietAgent()
			if err != nil {
				out.Count("sender_skipped_infrastructure", 1)
				break
			}
			sd := server.NewSender(agent, signer, B, 1, 1)
			sd.Interval = interval
			ch := make(chan *protocol.Snapshot, 4096)
			sd.Start(ch)
			evs = nil
			observed = nil
			var want [][]uint64 // the same rule, for the retry decision only
			var buf []uint64
			v := uint64(0)
			for _, k := range bursts {
				for j := 0; j < k; j++ {
					ch <- mkSnap(rng, v)
					evs = append(evs, fmt.Sprintf("Arrive N %d", v))
					if len(buf) == B {
						want = append(want, buf)
						buf = nil
					}
					buf = append(buf, v)
					v++
				}
				time.Sleep(4 * interval)
				evs = append(evs, "Tick N")
				if len(buf) > 0 {
					want = append(want, buf)
					buf = nil
				}
			}
			bs, _ := collectBatches(col, 0, 3*interval)
			sd.Stop()
			for _, b := range bs {
				var vs []uint64
				for _, ss := range b.Snapshots {
					if ss == nil || ss.Snapshot == nil {
						vs = append(vs, ^uint64(0))
						continue
					}
					vs = append(vs, ss.Snapshot.Version)
				}
				observed = append(observed, vs)
			}
			// the bus hands every message to its own goroutine: the order in which batches reach a subscriber is not the
			// order in which they were published; batches are compared as a set (ordered by their first version)
			sort.Slice(observed, func(i, j int) bool {
				if len(observed[i]) == 0 || len(observed[j]) == 0 {
					return len(observed[i]) < len(observed[j])
				}
				return observed[i][0] < observed[j][0]
			})
			if fmt.Sprint(observed) == fmt.Sprint(want) {
				break
			}
			out.Count("sender_script_retries", 1)
			if os.Getenv("VERIF_DEBUG") != "" {
				fmt.Fprintf(os.Stderr, "script %d attempt %d B=%d bursts=%v\n observed %v\n want     %v\n", sc, attempt, B, bursts, observed, want)
			}
		}
		var obs []string
		for _, b := range observed {
			xs := make([]string, len(b))
			for i, x := range b {
				xs[i] = fmt.Sprint(x)
			}
			obs = append(obs, cq.List(xs))
		}
		bcases = append(bcases, fmt.Sprintf("(%d%%nat, %s, %s)", B, cq.List(evs), cq.List(obs)))
		out.Case(fmt.Sprintf("script:%d", sc), true)
		out.Sample(map[string]interface{}{"script": sc, "batch_size": B, "bursts": bursts, "batches": fmt.Sprint(observed)})
	}

	// ---- (4) several batchers, random arrival timing: conservation, size bound, signatures (direct oracle)
	nruns := 3
	if tier == "thorough" {
		nruns = 12
	}
	for r := 0; r < nruns; r++ {
		B := 2 + rng.Intn(9)
		nb := 2 + rng.Intn(3)
		total := 150 + rng.Intn(250)
		desc := map[string]interface{}{"seed": seed, "run": r, "batch_size": B, "batchers": nb, "snapshots": total}
		out.Note(desc)
		agent, col, err := newQuietAgent()
		if err != nil {
			out.Count("sender_skipped_infrastructure", 1)
			continue
		}
		sd := server.NewSender(agent, signer, B, 1, nb)
		sd.Interval = 30 * time.Millisecond
		ch := make(chan *protocol.Snapshot, 64)
		sd.Start(ch)
		sent := map[uint64]*protocol.Snapshot{}
		go func() {
			for v := uint64(0); v < uint64(total); v++ {
				s := mkSnap(rng, v)
				sent[v] = s
				ch <- s
				switch rng.Intn(12) {
				case 0:
					time.Sleep(time.Duration(20+rng.Intn(40)) * time.Millisecond) // around the flush interval
				case 1, 2:
					time.Sleep(time.Duration(rng.Intn(3)) * time.Millisecond)
				}
			}
		}()
		bs, undec := collectBatches(col, total, 3*time.Second)
		sd.Stop()
		checkBatches(out, "C17", bs, undec, B, total, sent, signer, desc)
		out.Count("sender_runs", 1)
	}

	// ---- (5) end to end: snapshots issued by insertions on a real node reach the gossip bus exactly once
	e2e := 2
	if tier == "thorough" {
		e2e = 6
	}
	for r := 0; r < e2e; r++ {
		dir, _ := os.MkdirTemp(out.Dir, "snd")
		chcap := []int{1, 4, 64}[r%3]
		ch := make(chan *protocol.Snapshot, chcap)
		n, _, err := startNode(nodeOpts{id: 0, name: "s", dir: dir, raftPort: freePorts(1)[0], bootstrap: true, snapThr: 8192, trailing: 10240, snapCh: ch})
		if err != nil || !waitLeader(n) {
			out.Count("sender_skipped_infrastructure", 1)
			continue
		}
		agent, col, err := newQuietAgent()
		if err != nil {
			out.Count("sender_skipped_infrastructure", 1)
			n.Close(true)
			continue
		}
		B := 5 + rng.Intn(20)
		sd := server.NewSender(agent, signer, B, 1, 3)
		sd.Interval = 50 * time.Millisecond
		sd.Start(ch)
		desc := map[string]interface{}{"seed": seed, "end_to_end": r, "channel_capacity": chcap, "batch_size": B}
		out.Note(desc)
		sent := map[uint64]*protocol.Snapshot{}
		total := 0
		for step := 0; step < 12; step++ {
			k := 1 + rng.Intn(60)
			var evs [][]byte
			for j := 0; j < k; j++ {
				evs = append(evs, []byte(fmt.Sprintf("snd%d-%d", r, total+j)))
			}
			snaps, err := n.AddBulk(evs)
			if err != nil {
				break
			}
			for _, s := range snaps {
				p := protocol.Snapshot(*s)
				sent[s.Version] = &p
			}
			total += k
		}
		// several clients insert at the same time: the proposers resume in any order after raft has applied their entries,
		// yet every snapshot issued must be handed to the sender exactly once
		{
			var mu sync.Mutex
			var wg sync.WaitGroup
			for g := 0; g < 16; g++ {
				wg.Add(1)
				go func(g int) {
					defer wg.Done()
					for b := 0; b < 80; b++ {
						k := 1
						if b%5 == 4 {
							k = 3
						}
						var evs [][]byte
						for j := 0; j < k; j++ {
							evs = append(evs, []byte(fmt.Sprintf("sndc%d-%d-%d-%d", r, g, b, j)))
						}
						snaps, err := n.AddBulk(evs)
						if err != nil {
							return
						}
						mu.Lock()
						for _, s := range snaps {
							p := protocol.Snapshot(*s)
							sent[s.Version] = &p
						}
						total += len(snaps)
						mu.Unlock()
					}
				}(g)
			}
			wg.Wait()
			desc["concurrent_proposers"] = 16
		}
		bs, undec := collectBatches(col, total, 3*time.Second)
		sd.Stop()
		checkBatches(out, "C17", bs, undec, B, total, sent, signer, desc)
		out.Count("sender_end_to_end_runs", 1)
		n.Close(true)
		os.RemoveAll(dir)
	}

	// ---- (6) a burst against a consumer that is slower than the sender (the agent's forwarding loop has a queue of 255
	// and sends over the network): every snapshot still leaves exactly once, however long the consumer takes
	{
		B, total := 10, 5000
		desc := map[string]interface{}{"seed": seed, "scenario": "burst-slow-consumer", "batch_size": B, "snapshots": total, "consumer_queue": 255, "consumer_ms_per_batch": 2}
		out.Note(desc)
		if agent, col, err := newQuietAgentQ(255); err == nil {
			sd := server.NewSender(agent, signer, B, 1, 3)
			sd.Interval = 50 * time.Millisecond
			ch := make(chan *protocol.Snapshot, 1<<16)
			sent := map[uint64]*protocol.Snapshot{}
			for v := uint64(0); v < uint64(total); v++ {
				s := mkSnap(rng, v)
				sent[v] = s
				ch <- s
			}
			sd.Start(ch)
			var bs []*protocol.BatchSnapshots
			undec, got := 0, 0
			deadline := time.Now().Add(25 * time.Second)
			idle := 0
			for got < total && time.Now().Before(deadline) && idle < 1500 {
				select {
				case m := <-col.ch:
					idle = 0
					var b protocol.BatchSnapshots
					if err := b.Decode(m.Payload); err != nil {
						undec++
					} else {
						bs = append(bs, &b)
						got += len(b.Snapshots)
					}
					time.Sleep(2 * time.Millisecond)
				default:
					idle++
					time.Sleep(2 * time.Millisecond)
				}
			}
			more, u2 := collectBatches(col, 0, 500*time.Millisecond)
			bs = append(bs, more...)
			sd.Stop()
			checkBatches(out, "C17", bs, undec+u2, B, total, sent, signer, desc)
			out.Count("sender_burst_runs", 1)
		}
	}

	f, _ := os.Create(out.Dir + "/cases.v")
	fmt.Fprintf(f, "From Coq Require Import List NArith String.\nFrom QV Require Import Sender.Batcher Sender.Sign Run.SenderRun.\nImport ListNotations.\nOpen Scope N_scope.\n")
	fmt.Fprintf(f, "Definition pcases : list (snap * string) := %s.\n", cq.List(pcases))
	fmt.Fprintf(f, "Definition bcases : list bcase := %s.\n", cq.List(bcases))
	fmt.Fprintf(f, "Definition R := Eval vm_compute in (List.app (run_print_cases pcases) (map (fun k => k + 100000) (run_batch_cases bcases))).\nPrint R.\n")
	f.Close()
}

// checkBatches: every snapshot exactly once, in batches of 1..B, each signature verifying for exactly the
// snapshot that was issued.
func checkBatches(out *cq.Out, prop string, bs []*protocol.BatchSnapshots, undecodable, B, total int, sent map[uint64]*protocol.Snapshot, signer sign.Signer, desc map[string]interface{}) {
	if undecodable > 0 {
		out.Violate(prop+":undecodable-batch", fmt.Sprintf("%d published batches do not decode", undecodable), desc)
	}
	seen := map[uint64]int{}
	for bi, b := range bs {
		if len(b.Snapshots) == 0 || len(b.Snapshots) > B {
			out.Violate(prop+":batch-size", fmt.Sprintf("a batch of %d snapshots left the sender; the configured size is %d", len(b.Snapshots), B), desc)
		}
		for _, ss := range b.Snapshots {
			out.Case(fmt.Sprintf("emitted:%v:%d", desc["run"], len(seen)), bi > 0)
			if ss == nil || ss.Snapshot == nil {
				out.Violate(prop+":empty-slot-in-batch", "a published batch holds an entry without a snapshot", desc)
				continue
			}
			seen[ss.Snapshot.Version]++
			want, ok := sent[ss.Snapshot.Version]
			if !ok || fmt.Sprintf("%v", want) != fmt.Sprintf("%v", ss.Snapshot) {
				out.Violate(prop+":snapshot-altered", fmt.Sprintf("the snapshot published for version %d is not the one that was issued", ss.Snapshot.Version), desc)
			}
			if okv, _ := signer.Verify([]byte(fmt.Sprintf("%v", ss.Snapshot)), ss.Signature); !okv {
				out.Violate(prop+":signature-does-not-verify", fmt.Sprintf("the signature published with version %d does not verify under the server's public key", ss.Snapshot.Version), desc)
			}
		}
	}
	lost, dup := 0, 0
	for v := uint64(0); v < uint64(total); v++ {
		switch c := seen[v]; {
		case c == 0:
			lost++
		case c > 1:
			dup++
		}
	}
	if lost > 0 {
		out.Violate(prop+":snapshot-lost", fmt.Sprintf("%d of %d issued snapshots never left the sender while it was running", lost, total), desc)
	}
	if dup > 0 {
		out.Violate(prop+":snapshot-duplicated", fmt.Sprintf("%d of %d issued snapshots left the sender more than once", dup, total), desc)
	}
}
