package main

import "qedverif/cq"

func dispatch3(cmd string, out *cq.Out, seed uint64, tier, arg string) bool {
	switch cmd {
	case "crash":
		crashCmd(out, seed, tier)
	case "crashchild":
		crashChild(arg)
	default:
		return dispatch4(cmd, out, seed, tier, arg)
	}
	return true
}
