package main

import (
	"fmt"
	"net"
	"net/http/httptest"
	"os"
	"time"

	"github.com/bbva/qed/api/apihttp"
	"github.com/bbva/qed/client"
	"github.com/bbva/qed/crypto/hashing"
	"qedverif/cq"
)

// ---- C20 end to end: a real 3-node cluster behind the real API muxes, a real client built the way the commands
// build it (client.NewHTTPClientFromConfig).  The client is told that a follower is the primary (what it believes
// after a leader change): its writes must not be acknowledged by a non-leader, and it must converge on the leader.
func redirectCmd(out *cq.Out, seed uint64, tier string) {
	rng := cq.NewRng(seed)
	rounds := 1
	if tier == "thorough" {
		rounds = 3
	}
	for r := 0; r < rounds; r++ {
		dir, _ := os.MkdirTemp(out.Dir, "rd")
		c, err := newCluster(dir, 3, 8192, 10240)
		if err != nil {
			out.Count("redirect_skipped_infrastructure", 1)
			continue
		}
		c.add([][]byte{[]byte("warm-up")})
		if !c.quiesce() {
			out.Count("redirect_skipped_infrastructure", 1)
			c.stopAll()
			continue
		}
		l := c.leader()
		// the API muxes listen where the nodes advertise their HTTP address (raft port + 2), so that discovery and
		// redirects lead somewhere
		var apis []*httptest.Server
		bindFailed := false
		for i, n := range c.nodes {
			ln, err := net.Listen("tcp", fmt.Sprintf("127.0.0.1:%d", c.ports[i]+2))
			if err != nil {
				bindFailed = true
				break
			}
			srv := httptest.NewUnstartedServer(apihttp.NewApiHttp(n))
			srv.Listener.Close()
			srv.Listener = ln
			srv.Start()
			apis = append(apis, srv)
		}
		if bindFailed {
			out.Count("redirect_skipped_infrastructure", 1)
			for _, a := range apis {
				a.Close()
			}
			c.stopAll()
			continue
		}
		f := (l + 1 + rng.Intn(2)) % 3
		for _, discovery := range []bool{false, true} {
			conf := client.DefaultConfig()
			conf.Endpoints = []string{apis[f].URL}
			conf.EnableTopologyDiscovery = discovery
			conf.EnableHealthChecks = false
			conf.AttemptToReviveEndpoints = true
			conf.MaxRetries = 1
			conf.Timeout = 5 * time.Second
			conf.HasherFunction = hashing.NewSha256Hasher
			desc := map[string]interface{}{"seed": seed, "round": r, "leader": l, "client_believes_primary": f, "discovery": discovery}
			out.Note(desc)
			cl, err := client.NewHTTPClientFromConfig(conf)
			if err != nil {
				out.Count("redirect_client_not_built", 1)
				continue
			}
			before := c.nodes[l].VBalloonVersion()
			var lastErr error
			okWrites := 0
			for k := 0; k < 4; k++ {
				ev := fmt.Sprintf("rd-%d-%v-%d", r, discovery, k)
				snap, err := cl.Add(ev)
				lastErr = err
				if err != nil {
					continue
				}
				okWrites++
				// an acknowledged write carries the digest of its event and is in the log
				want := hashing.NewSha256Hasher().Do([]byte(ev))
				if snap == nil || string(snap.EventDigest) != string(want) {
					out.Violate("C20:write-acknowledged-by-non-leader", fmt.Sprintf("a write sent to a follower returned without error, and the snapshot it returned is not the event's (%v): the follower's redirect answer was taken for the result", snap), desc)
					break
				}
			}
			time.Sleep(200 * time.Millisecond)
			after := c.nodes[l].VBalloonVersion()
			if int(after-before) != okWrites {
				out.Violate("C20:write-acknowledged-by-non-leader", fmt.Sprintf("%d writes were acknowledged to the client, the log grew by %d events", okWrites, after-before), desc)
			}
			if lastErr != nil {
				out.Violate("C20:no-convergence-on-leader", fmt.Sprintf("all nodes healthy, the client believes follower %d is the primary; after 4 writes it still fails: %v", f, lastErr), desc)
			}
			out.Case(fmt.Sprintf("redirect:%d:%v", r, discovery), true)
			cl.Close()
		}
		for _, a := range apis {
			a.Close()
		}
		c.stopAll()
		os.RemoveAll(dir)
	}
}
