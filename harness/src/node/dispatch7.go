package main

import "qedverif/cq"

func dispatch7(cmd string, out *cq.Out, seed uint64, tier, arg string) bool {
	switch cmd {
	case "window":
		windowCmd(out, seed, tier)
	default:
		return dispatch8(cmd, out, seed, tier, arg)
	}
	return true
}
