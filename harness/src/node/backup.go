package main

import (
	"bytes"
	"fmt"
	"github.com/bbva/qed/api/mgmthttp"
	"net/http"
	"net/http/httptest"
	"os"
	"sort"
	"strings"
	"time"

	"github.com/bbva/qed/balloon"
	qcmd "github.com/bbva/qed/cmd"
	"github.com/bbva/qed/consensus"
	"github.com/bbva/qed/crypto/hashing"
	"github.com/bbva/qed/protocol"
	"github.com/bbva/qed/storage/rocks"
	"qedverif/cq"
)

// ---- C16: backups restore to exactly the log as of the backup's version

func backupCmd(out *cq.Out, seed uint64, tier string) {
	rng := cq.NewRng(seed)
	trials := 3
	if tier == "thorough" {
		trials = 12
	}
	var cases []string
	for t := 0; t < trials; t++ {
		dir, _ := os.MkdirTemp(out.Dir, "bk")
		port := freePorts(1)[0]
		n, _, err := startNode(nodeOpts{id: 0, name: "bk", dir: dir, raftPort: port, bootstrap: true, snapThr: 8192, trailing: 10240})
		if err != nil || !waitLeader(n) {
			out.Count("backup_skipped_infrastructure", 1)
			continue
		}
		var hist, ops []string
		desc := map[string]interface{}{"seed": seed, "trial": t, "history": &hist}
		var snaps []*balloon.Snapshot
		var events [][]byte
		type bk struct {
			id      int64
			version int64 // version recorded (-1: empty log)
		}
		var live []bk
		nextID := int64(1)
		ev := 0
		steps := 6 + rng.Intn(8)
		for st := 0; st < steps; st++ {
			out.Note(desc)
			switch r := rng.Intn(10); {
			case r < 4 || (st == 0 && t%2 == 1):
				k := 1 + rng.Intn(4)
				if st == 0 && t == 1 {
					// a log beyond a thousand events: a node started on the restored store rebuilds its hyper cache from more
					// recovery tiles than one read of the store's scan buffer holds
					k = 1150 + rng.Intn(200)
				}
				var evs [][]byte
				for j := 0; j < k; j++ {
					evs = append(evs, []byte(fmt.Sprintf("b%d-%d", t, ev)))
					ev++
				}
				s, err := n.AddBulk(evs)
				if err != nil {
					out.Violate("C16:add-failed", err.Error(), desc)
					continue
				}
				snaps = append(snaps, s...)
				events = append(events, evs...)
				ops = append(ops, fmt.Sprintf("BAdd %d", k))
				hist = append(hist, fmt.Sprintf("add %d", k))
			case r < 7:
				if err := n.CreateBackup(); err != nil {
					out.Violate("C16:backup-failed", err.Error(), desc)
					continue
				}
				live = append(live, bk{nextID, int64(len(events)) - 1})
				ops = append(ops, "BBackup")
				hist = append(hist, fmt.Sprintf("backup -> id %d at version %d", nextID, len(events)-1))
				nextID++
			case r < 8 && len(live) > 0:
				i := rng.Intn(len(live))
				if err := n.DeleteBackup(uint32(live[i].id)); err != nil {
					out.Violate("C16:delete-failed", err.Error(), desc)
					continue
				}
				ops = append(ops, fmt.Sprintf("BDelete %d%%N", live[i].id))
				hist = append(hist, fmt.Sprintf("delete backup %d", live[i].id))
				live = append(live[:i], live[i+1:]...)
			default:
				infos := n.ListBackups()
				var got []string
				for _, bi := range infos {
					got = append(got, fmt.Sprintf("%d@%s", bi.ID, bi.Metadata))
				}
				var want []string
				var wl []string
				for _, b := range live {
					md := fmt.Sprintf("%d", uint64(b.version))
					want = append(want, fmt.Sprintf("%d@%s", b.id, md))
				}
				sort.Strings(got)
				sort.Strings(want)
				if strings.Join(got, ",") != strings.Join(want, ",") {
					out.Violate("C16:listing", fmt.Sprintf("the backup listing shows [%s], the existing backups are [%s] (id@recorded version)", strings.Join(got, ","), strings.Join(want, ",")), desc)
				}
				for _, bi := range infos {
					wl = append(wl, fmt.Sprintf("(%d%%N,%s%%N)", bi.ID, bi.Metadata))
				}
				ops = append(ops, "BList "+cq.List(wl))
				out.Case(fmt.Sprintf("list:%d:%d", t, st), len(live) > 0)
			}
		}
		if t == 0 {
			// many backups alive at once (a node that is backed up daily): none of them may disappear unnamed
			for len(live) < 12 {
				evs := [][]byte{[]byte(fmt.Sprintf("b%d-%d", t, ev))}
				ev++
				s, err := n.AddBulk(evs)
				if err != nil {
					out.Violate("C16:add-failed", err.Error(), desc)
					break
				}
				snaps = append(snaps, s...)
				events = append(events, evs...)
				ops = append(ops, "BAdd 1")
				if err := n.CreateBackup(); err != nil {
					out.Violate("C16:backup-failed", err.Error(), desc)
					break
				}
				live = append(live, bk{nextID, int64(len(events)) - 1})
				ops = append(ops, "BBackup")
				hist = append(hist, fmt.Sprintf("add 1; backup -> id %d at version %d", nextID, len(events)-1))
				nextID++
			}
			// a management request that names no existing backup (an identifier beyond 32 bits) removes nothing
			mg := httptest.NewServer(mgmthttp.NewMgmtHttp(n))
			for _, b := range live[:2] {
				for _, big := range []uint64{1<<32 + uint64(b.id), 3<<32 + uint64(b.id), 1<<40 + uint64(b.id)} {
					if req, err := http.NewRequest("DELETE", fmt.Sprintf("%s/backup?backupID=%d", mg.URL, big), nil); err == nil {
						if resp, err := (&http.Client{Timeout: 10 * time.Second}).Do(req); err == nil {
							resp.Body.Close()
						}
					}
					hist = append(hist, fmt.Sprintf("DELETE /backup?backupID=%d (no such backup)", big))
				}
			}
			mg.Close()
			have := map[int64]bool{}
			for _, bi := range n.ListBackups() {
				have[bi.ID] = true
			}
			for _, b := range live {
				if !have[b.id] {
					out.Violate("C16:backup-vanished-unnamed", fmt.Sprintf("backup %d (version %d) is no longer listed although no request named it: %d backups were taken, then DELETE /backup was sent for identifiers beyond 2^32 only", b.id, b.version, len(live)), desc)
					break
				}
			}
		}
		// make sure the identifiers have a hole below an existing backup (the documented flow: delete the oldest, restore a later one)
		if len(live) >= 2 && live[0].id == 1 {
			if err := n.DeleteBackup(uint32(live[0].id)); err != nil {
				out.Violate("C16:delete-failed", err.Error(), desc)
			} else {
				ops = append(ops, fmt.Sprintf("BDelete %d%%N", live[0].id))
				hist = append(hist, fmt.Sprintf("delete backup %d", live[0].id))
				live = live[1:]
			}
		}
		// ... and the rotation the other way round: with that hole, the NEWEST backup carries an identifier larger than the
		// number of backups that exist; it is listed, so naming it must delete it (and only it)
		if len(live) >= 3 && live[len(live)-1].id > int64(len(live)) {
			last := live[len(live)-1]
			if err := n.DeleteBackup(uint32(last.id)); err != nil {
				out.Violate("C16:delete-failed", fmt.Sprintf("backup %d is listed (%d backups exist) but deleting it fails: %v", last.id, len(live), err), desc)
			} else {
				ops = append(ops, fmt.Sprintf("BDelete %d%%N", last.id))
				hist = append(hist, fmt.Sprintf("delete backup %d", last.id))
				live = live[:len(live)-1]
				have := map[uint32]bool{}
				for _, bi := range n.ListBackups() {
					have[uint32(bi.ID)] = true
				}
				if have[uint32(last.id)] || len(have) != len(live) {
					out.Violate("C16:delete-removed-wrong-set", fmt.Sprintf("after deleting backup %d the node lists %d backups (it listed %d before)", last.id, len(have), len(live)+1), desc)
				}
			}
			out.Case("delete-newest-after-hole", true)
		}
		// ---- restore every existing backup into a fresh directory and examine the node that opens on it
		st := n.VStore()
		for _, b := range live {
			rdir, _ := os.MkdirTemp(out.Dir, "restored")
			out.Note(desc)
			hist = append(hist, fmt.Sprintf("restore backup %d (version %d)", b.id, b.version))
			if err := st.RestoreFromBackup(uint32(b.id), rdir, rdir); err != nil {
				out.Violate("C16:restore-failed", err.Error(), desc)
				continue
			}
			rs, err := rocks.NewRocksDBStore(rdir, 0)
			if err != nil {
				out.Violate("C16:restored-store-does-not-open", err.Error(), desc)
				continue
			}
			ch := make(chan *protocol.Snapshot, 64)
			drain(ch)
			rn, err := consensus.VNewFSM(rs, ch)
			if err != nil {
				out.Violate("C16:restored-node-does-not-open", err.Error(), desc)
				continue
			}
			have := int64(rn.VBalloonVersion())
			ops = append(ops, fmt.Sprintf("BRestore %d%%N %d%%N", b.id, have))
			if have != b.version+1 {
				out.Violate("C16:wrong-version-after-restore", fmt.Sprintf("a backup recorded at version %d restores to a log of %d events", b.version, have), desc)
			}
			ok := true
			for v := int64(0); v <= b.version && ok; v++ {
				d := hashing.NewSha256Hasher().Do(events[v])
				p, err := rn.VBalloon().QueryDigestMembershipConsistency(d, uint64(b.version))
				if err != nil || !p.Exists || !p.DigestVerify(d, &balloon.Snapshot{HistoryDigest: snaps[b.version].HistoryDigest, HyperDigest: snaps[b.version].HyperDigest}) {
					out.Violate("C16:restored-proof-does-not-verify", fmt.Sprintf("event %d is not provable on the node restored from the backup of version %d against the snapshots originally issued", v, b.version), desc)
					ok = false
				}
				out.Case(fmt.Sprintf("restored:%d:%d:%d", t, b.id, v), true)
			}
			if b.version >= 1 {
				ip, err := rn.VBalloon().QueryConsistency(0, uint64(b.version))
				if err != nil || !ip.Verify(snaps[0], snaps[b.version]) {
					out.Violate("C16:restored-consistency-does-not-verify", fmt.Sprintf("consistency (0,%d) does not verify on the restored node", b.version), desc)
				}
			}
			for v := b.version + 1; v < int64(len(events)); v++ {
				d := hashing.NewSha256Hasher().Do(events[v])
				if p, err := rn.VBalloon().QueryDigestMembership(d); err == nil && p.Exists {
					out.Violate("C16:restored-knows-later-event", fmt.Sprintf("the node restored from version %d knows event %d added after the backup", b.version, v), desc)
					break
				}
			}
			// the next event gets version v+1 and the original digests (same event as the original run, if any)
			idx, _ := rn.VState()
			if b.version+1 < int64(len(events)) {
				d := hashing.NewSha256Hasher().Do(events[b.version+1])
				ns, already := rn.VApply(idx+1, []hashing.Digest{d})
				if already || len(ns) != 1 || ns[0].Version != uint64(b.version+1) || !bytes.Equal(ns[0].HistoryDigest, snaps[b.version+1].HistoryDigest) {
					out.Violate("C16:next-version-after-restore", fmt.Sprintf("on the node restored from version %d the next insertion was not given version %d with the original digest (already=%v)", b.version, b.version+1, already), desc)
				}
			}
			rn.VCloseFSM()
			os.RemoveAll(rdir)
		}
		out.Count("backup_trials", 1)
		out.Count("backups_restored", len(live))
		out.Sample(map[string]interface{}{"trial": t, "history": hist})
		cases = append(cases, cq.List(ops))
		n.Close(true)
		// the `qed restore` command on the backup directory of the stopped node: by id, for every existing backup
		for _, b := range live {
			rdir, _ := os.MkdirTemp(out.Dir, "clirestored")
			out.Note(desc)
			hist = append(hist, fmt.Sprintf("qed restore --backup-id %d", b.id))
			var rerr error
			if p, msg := cq.Catch(func() { rerr = qcmd.VRunRestore(dir+"/db/backups", uint32(b.id), rdir) }); p || rerr != nil {
				out.Violate("C16:restore-failed:cli", fmt.Sprintf("`qed restore --backup-id %d` failed although the backup exists: %v %s", b.id, rerr, msg), desc)
				os.RemoveAll(rdir)
				continue
			}
			if rs, err := rocks.NewRocksDBStore(rdir, 0); err == nil {
				ch := make(chan *protocol.Snapshot, 64)
				drain(ch)
				if rn, err := consensus.VNewFSM(rs, ch); err == nil {
					if have := int64(rn.VBalloonVersion()); have != b.version+1 {
						out.Violate("C16:wrong-version-after-restore:cli", fmt.Sprintf("`qed restore --backup-id %d` (recorded version %d) produced a log of %d events", b.id, b.version, have), desc)
					}
					rn.VCloseFSM()
				}
			}
			out.Case(fmt.Sprintf("clirestore:%d:%d", t, b.id), true)
			os.RemoveAll(rdir)
		}
		os.RemoveAll(dir)
	}
	f, _ := os.Create(out.Dir + "/cases.v")
	fmt.Fprintf(f, "From Coq Require Import List NArith.\nFrom QV Require Import Fsm.Backup.\nImport ListNotations.\nOpen Scope N_scope.\n")
	fmt.Fprintf(f, "Definition cases : list (list bop) := %s.\n", cq.List(cases))
	fmt.Fprintf(f, "Definition R := Eval vm_compute in run_backup_cases cases.\nPrint R.\n")
	f.Close()
}
