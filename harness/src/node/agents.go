package main

import (
	"bytes"
	"context"
	"encoding/json"
	"fmt"
	"github.com/coocood/freecache"
	"io"
	"net/http"
	"net/http/httptest"
	"os"
	"sort"
	"strconv"
	"sync"
	"time"

	"github.com/bbva/qed/api/apihttp"
	"github.com/bbva/qed/balloon"
	"github.com/bbva/qed/client"
	qcmd "github.com/bbva/qed/cmd"
	"github.com/bbva/qed/crypto/hashing"
	"github.com/bbva/qed/crypto/sign"
	"github.com/bbva/qed/gossip"
	"github.com/bbva/qed/log"
	"github.com/bbva/qed/protocol"
	"qedverif/cq"
)

// ---- C19: the auditor, monitor and publisher task factories, driven against a real log behind a tampering
// proxy, a snapshot-store endpoint and a notifier endpoint.

// recNotifier records alerts synchronously (attribution) and forwards them to the real SimpleNotifier.
type recNotifier struct {
	mu     sync.Mutex
	alerts []string
	next   gossip.Notifier
}

func (r *recNotifier) Alert(msg string) error {
	r.mu.Lock()
	r.alerts = append(r.alerts, msg)
	r.mu.Unlock()
	if r.next != nil {
		return r.next.Alert(msg)
	}
	return nil
}
func (r *recNotifier) Start() {}
func (r *recNotifier) Stop()  {}
func (r *recNotifier) take() []string {
	r.mu.Lock()
	defer r.mu.Unlock()
	a := r.alerts
	r.alerts = nil
	return a
}

type storeSrv struct {
	mu      sync.Mutex
	snaps   map[uint64]*protocol.SignedSnapshot
	batches [][]*protocol.SignedSnapshot
	srv     *httptest.Server
	lateAck time.Duration // the next batch is recorded at once but acknowledged this much later (then reset)
}

func newStoreSrv() *storeSrv {
	s := &storeSrv{snaps: map[uint64]*protocol.SignedSnapshot{}}
	mux := http.NewServeMux()
	mux.HandleFunc("/batch", func(w http.ResponseWriter, r *http.Request) {
		b, _ := io.ReadAll(r.Body)
		var batch protocol.BatchSnapshots
		if err := batch.Decode(b); err != nil {
			http.Error(w, "bad batch", 400)
			return
		}
		s.mu.Lock()
		s.batches = append(s.batches, batch.Snapshots)
		for _, ss := range batch.Snapshots {
			if ss != nil && ss.Snapshot != nil {
				s.snaps[ss.Snapshot.Version] = ss
			}
		}
		late := s.lateAck
		s.lateAck = 0
		s.mu.Unlock()
		if late > 0 {
			time.Sleep(late)
		}
		w.WriteHeader(200)
	})
	mux.HandleFunc("/snapshot", func(w http.ResponseWriter, r *http.Request) {
		v, _ := strconv.ParseUint(r.URL.Query().Get("v"), 10, 64)
		s.mu.Lock()
		ss := s.snaps[v]
		s.mu.Unlock()
		if ss == nil {
			http.Error(w, "not found", 404)
			return
		}
		b, _ := ss.Encode()
		w.Write(b)
	})
	mux.HandleFunc("/count", func(w http.ResponseWriter, r *http.Request) {
		s.mu.Lock()
		fmt.Fprint(w, len(s.snaps))
		s.mu.Unlock()
	})
	s.srv = httptest.NewServer(mux)
	return s
}

type agentRig struct {
	api      *httptest.Server
	proxy    *httptest.Server
	tamperMu sync.Mutex
	tamper   func(path string, status int, body []byte) (int, []byte)
	store    *storeSrv
	alertSrv *httptest.Server
	received int
	recvMu   sync.Mutex
	rec      *recNotifier
	simple   *gossip.SimpleNotifier
	agent    *gossip.Agent
	qed      *client.HTTPClient
}

func newClient(url string) (*client.HTTPClient, error) {
	return client.NewHTTPClient(client.SetHttpClient(&http.Client{Timeout: 5 * time.Second}), client.SetURLs(url), client.SetSnapshotStoreURL(url),
		client.SetReadPreference(client.Any), client.SetTopologyDiscovery(false), client.SetHealthChecks(false), client.SetMaxRetries(1),
		client.SetAttemptToReviveEndpoints(true), client.SetHasherFunction(hashing.NewSha256Hasher))
}

var rigSeq = 0

func newAgentRig(api http.Handler) (*agentRig, error) {
	r := &agentRig{}
	r.api = httptest.NewServer(api)
	r.proxy = httptest.NewServer(http.HandlerFunc(func(w http.ResponseWriter, q *http.Request) {
		body, _ := io.ReadAll(q.Body)
		req, _ := http.NewRequest(q.Method, r.api.URL+q.URL.RequestURI(), bytes.NewReader(body))
		for k, v := range q.Header {
			req.Header[k] = v
		}
		resp, err := http.DefaultClient.Do(req)
		if err != nil {
			http.Error(w, err.Error(), 502)
			return
		}
		defer resp.Body.Close()
		rb, _ := io.ReadAll(resp.Body)
		st := resp.StatusCode
		r.tamperMu.Lock()
		t := r.tamper
		r.tamperMu.Unlock()
		if t != nil {
			st, rb = t(q.URL.Path, st, rb)
		}
		for k, v := range resp.Header {
			if k != "Content-Length" {
				w.Header()[k] = v
			}
		}
		w.WriteHeader(st)
		w.Write(rb)
	}))
	r.store = newStoreSrv()
	r.alertSrv = httptest.NewServer(http.HandlerFunc(func(w http.ResponseWriter, q *http.Request) {
		io.ReadAll(q.Body)
		r.recvMu.Lock()
		r.received++
		r.recvMu.Unlock()
	}))
	r.simple = gossip.NewSimpleNotifier([]string{r.alertSrv.URL}, 1000, 500*time.Millisecond, 500*time.Millisecond, log.L())
	r.simple.Start()
	r.rec = &recNotifier{next: r.simple}
	var err error
	r.qed, err = newClient(r.proxy.URL)
	if err != nil {
		return nil, err
	}
	conf := gossip.DefaultConfig()
	rigSeq++
	conf.NodeName = fmt.Sprintf("c19-%d-%d", os.Getpid(), rigSeq)
	conf.Role = "auditor"
	conf.BindAddr = fmt.Sprintf("127.0.0.1:%d", freePorts(1)[0]) // never bound: the agent is not started
	st := gossip.NewRestSnapshotStore([]string{r.store.srv.URL}, 500*time.Millisecond, 2*time.Second)
	tm := gossip.NewSimpleTasksManager(time.Hour, 10)
	r.agent, err = gossip.NewDefaultAgent(conf, r.qed, st, tm, r.rec, log.L())
	return r, err
}

func (r *agentRig) setTamper(t func(path string, status int, body []byte) (int, []byte)) {
	r.tamperMu.Lock()
	r.tamper = t
	r.tamperMu.Unlock()
}

func (r *agentRig) close() {
	r.simple.Stop()
	r.proxy.Close()
	r.api.Close()
	r.store.srv.Close()
	r.alertSrv.Close()
}

func runTask(f gossip.TaskFactory, a *gossip.Agent, b *protocol.BatchSnapshots) (err error, panicked bool, msg string) {
	ctx := context.WithValue(context.WithValue(context.Background(), "agent", a), "batch", b)
	panicked, msg = cq.Catch(func() { err = f.New(ctx)() })
	return
}

func flip(d hashing.Digest, bit int) hashing.Digest {
	c := append(hashing.Digest{}, d...)
	if len(c) > 0 {
		c[(bit/8)%len(c)] ^= 1 << uint(bit%8)
	}
	return c
}

func cloneSigned(s *protocol.SignedSnapshot) *protocol.SignedSnapshot {
	c := *s.Snapshot
	return &protocol.SignedSnapshot{Snapshot: &c, Signature: append([]byte{}, s.Signature...)}
}

// sortedKeys: deterministic choice of a map entry to tamper with
func sortedKeys(m map[string]hashing.Digest) []string {
	var ks []string
	for k := range m {
		ks = append(ks, k)
	}
	sort.Strings(ks)
	return ks
}

type tamperCase struct {
	name    string
	class   string // used: the alteration touches something the agent's check depends on; unused: it does not
	gossip  func(first, last *protocol.SignedSnapshot)
	store   func(st *storeSrv, cur uint64) (undo func())
	answer  func(path string, status int, body []byte) (int, []byte)
	noStore bool
}

func agentsCmd(out *cq.Out, seed uint64, tier string) {
	rng := cq.NewRng(seed)
	signer := sign.NewEd25519Signer()
	logs := 2
	perLog := 120
	if tier == "thorough" {
		logs, perLog = 5, 400
	}
	var acases, mcases []string
	verd := map[string]string{"quiet": "Quiet", "alert": "Alerted", "none": "NoVerdict"}
	for lg := 0; lg < logs; lg++ {
		dir, _ := os.MkdirTemp(out.Dir, "ag")
		n, _, err := startNode(nodeOpts{id: 0, name: "a", dir: dir, raftPort: freePorts(1)[0], bootstrap: true, snapThr: 8192, trailing: 10240})
		if err != nil || !waitLeader(n) {
			out.Count("agents_skipped_infrastructure", 1)
			continue
		}
		rig, err := newAgentRig(apihttp.NewApiHttp(n))
		if err != nil {
			out.Count("agents_skipped_infrastructure", 1)
			n.Close(true)
			continue
		}
		// an honest log of distinct events; every snapshot signed and published
		total := 30 + rng.Intn(30)
		var signed []*protocol.SignedSnapshot
		for len(signed) < total {
			k := 1 + rng.Intn(5)
			var evs [][]byte
			for j := 0; j < k; j++ {
				evs = append(evs, []byte(fmt.Sprintf("ag%d-%d", lg, len(signed)+j)))
			}
			snaps, err := n.AddBulk(evs)
			if err != nil {
				break
			}
			for _, s := range snaps {
				p := protocol.Snapshot(*s)
				sg, _ := signer.Sign([]byte(fmt.Sprintf("%v", &p)))
				signed = append(signed, &protocol.SignedSnapshot{Snapshot: &p, Signature: sg})
			}
		}
		total = len(signed)
		for _, s := range signed {
			rig.store.snaps[s.Snapshot.Version] = cloneSigned(s)
		}
		cur := uint64(total - 1)
		aud, mon := qcmd.VMembershipFactory(), qcmd.VIncrementalFactory()
		totalAlerts := 0

		// the independent re-computation of what each agent checks (through the same proxy, so that a tampered
		// answer is tampered for both)
		post := func(path string, q interface{}) (int, []byte) {
			b, _ := json.Marshal(q)
			resp, err := http.Post(rig.proxy.URL+path, "application/json", bytes.NewReader(b))
			if err != nil {
				return 0, nil
			}
			defer resp.Body.Close()
			rb, _ := io.ReadAll(resp.Body)
			return resp.StatusCode, rb
		}
		auditorOracle := func(g *protocol.Snapshot) (answered, storedFound, verified bool) {
			st, rb := post("/proofs/digest-membership", &protocol.MembershipDigest{KeyDigest: g.EventDigest, Version: &g.Version})
			var mr *protocol.MembershipResult
			if st != 200 || json.Unmarshal(rb, &mr) != nil || mr == nil {
				return false, false, false
			}
			rig.store.mu.Lock()
			ss := rig.store.snaps[mr.CurrentVersion]
			rig.store.mu.Unlock()
			if ss == nil {
				return true, false, false
			}
			ok := false
			cq.Catch(func() {
				ok = protocol.ToBalloonProof(mr, hashing.NewSha256Hasher).DigestVerify(g.EventDigest, &balloon.Snapshot{HistoryDigest: g.HistoryDigest, HyperDigest: ss.Snapshot.HyperDigest, Version: g.Version, EventDigest: g.EventDigest})
			})
			return true, true, ok
		}
		monitorOracle := func(f, l *protocol.Snapshot) (answered, verified bool) {
			st, rb := post("/proofs/incremental", &protocol.IncrementalRequest{Start: f.Version, End: l.Version})
			var ir *protocol.IncrementalResponse
			if st != 200 || json.Unmarshal(rb, &ir) != nil || ir == nil {
				return false, false
			}
			ok := false
			fs, ls := balloon.Snapshot(*f), balloon.Snapshot(*l)
			cq.Catch(func() { ok = protocol.ToIncrementalProof(ir, hashing.NewSha256Hasher).Verify(&fs, &ls) })
			return true, ok
		}

		tampers := []tamperCase{
			{name: "honest", class: "honest"},
			{name: "gossip: first snapshot event digest bit", class: "aud", gossip: func(f, l *protocol.SignedSnapshot) {
				f.Snapshot.EventDigest = flip(f.Snapshot.EventDigest, rng.Intn(256))
			}},
			{name: "gossip: first snapshot history digest bit", class: "aud+mon", gossip: func(f, l *protocol.SignedSnapshot) {
				f.Snapshot.HistoryDigest = flip(f.Snapshot.HistoryDigest, rng.Intn(256))
			}},
			{name: "gossip: last snapshot history digest bit", class: "mon", gossip: func(f, l *protocol.SignedSnapshot) {
				l.Snapshot.HistoryDigest = flip(l.Snapshot.HistoryDigest, rng.Intn(256))
			}},
			{name: "gossip: first snapshot hyper digest bit", class: "unused", gossip: func(f, l *protocol.SignedSnapshot) {
				f.Snapshot.HyperDigest = flip(f.Snapshot.HyperDigest, rng.Intn(256))
			}},
			{name: "gossip: first snapshot version + 1", class: "aud+mon", gossip: func(f, l *protocol.SignedSnapshot) { f.Snapshot.Version++ }},
			{name: "gossip: last snapshot version - 1", class: "mon", gossip: func(f, l *protocol.SignedSnapshot) { l.Snapshot.Version-- }},
			{name: "store: hyper digest of the current version bit", class: "aud", store: func(st *storeSrv, cur uint64) func() {
				old := st.snaps[cur]
				c := cloneSigned(old)
				c.Snapshot.HyperDigest = flip(c.Snapshot.HyperDigest, rng.Intn(256))
				st.snaps[cur] = c
				return func() { st.snaps[cur] = old }
			}},
			{name: "store: history digest of the current version bit", class: "unused", store: func(st *storeSrv, cur uint64) func() {
				old := st.snaps[cur]
				c := cloneSigned(old)
				c.Snapshot.HistoryDigest = flip(c.Snapshot.HistoryDigest, rng.Intn(256))
				st.snaps[cur] = c
				return func() { st.snaps[cur] = old }
			}},
			{name: "store: snapshot of the current version missing", class: "nostore", store: func(st *storeSrv, cur uint64) func() {
				old := st.snaps[cur]
				delete(st.snaps, cur)
				return func() { st.snaps[cur] = old }
			}},
			{name: "log: a history audit path digest bit", class: "aud", answer: func(path string, status int, body []byte) (int, []byte) {
				var mr protocol.MembershipResult
				if path != "/proofs/digest-membership" || json.Unmarshal(body, &mr) != nil || len(mr.History) == 0 {
					return status, body
				}
				ks := sortedKeys(mr.History)
				k := ks[len(ks)/2]
				mr.History[k] = flip(mr.History[k], 9)
				b, _ := json.Marshal(&mr)
				return status, b
			}},
			{name: "log: a hyper audit path digest bit", class: "aud", answer: func(path string, status int, body []byte) (int, []byte) {
				var mr protocol.MembershipResult
				if path != "/proofs/digest-membership" || json.Unmarshal(body, &mr) != nil || len(mr.Hyper) == 0 {
					return status, body
				}
				ks := sortedKeys(mr.Hyper)
				k := ks[len(ks)/3]
				mr.Hyper[k] = flip(mr.Hyper[k], 77)
				b, _ := json.Marshal(&mr)
				return status, b
			}},
			{name: "log: actual version + 1", class: "aud", answer: func(path string, status int, body []byte) (int, []byte) {
				var mr protocol.MembershipResult
				if path != "/proofs/digest-membership" || json.Unmarshal(body, &mr) != nil {
					return status, body
				}
				mr.ActualVersion++
				b, _ := json.Marshal(&mr)
				return status, b
			}},
			{name: "log: claims the event does not exist", class: "aud", answer: func(path string, status int, body []byte) (int, []byte) {
				var mr protocol.MembershipResult
				if path != "/proofs/digest-membership" || json.Unmarshal(body, &mr) != nil {
					return status, body
				}
				mr.Exists = false
				b, _ := json.Marshal(&mr)
				return status, b
			}},
			{name: "log: an incremental audit path digest bit", class: "mon", answer: func(path string, status int, body []byte) (int, []byte) {
				var ir protocol.IncrementalResponse
				if path != "/proofs/incremental" || json.Unmarshal(body, &ir) != nil || len(ir.AuditPath) == 0 {
					return status, body
				}
				ks := sortedKeys(ir.AuditPath)
				k := ks[len(ks)/2]
				ir.AuditPath[k] = flip(ir.AuditPath[k], 3)
				b, _ := json.Marshal(&ir)
				return status, b
			}},
			{name: "log: rejects the membership query with a 412 (the event was overwritten and appended later)", class: "audreject", answer: func(path string, status int, body []byte) (int, []byte) {
				if path != "/proofs/digest-membership" {
					return status, body
				}
				return 412, []byte("actual version is greater than the query version")
			}},
			{name: "log: incremental request fails", class: "monerr", answer: func(path string, status int, body []byte) (int, []byte) {
				if path != "/proofs/incremental" {
					return status, body
				}
				return 500, []byte("internal error")
			}},
		}

		for c := 0; c < perLog; c++ {
			tc := tampers[0]
			if c%3 != 0 {
				tc = tampers[1+rng.Intn(len(tampers)-1)]
			}
			// a batch: increasing versions, as a batcher emits them
			size := 1 + rng.Intn(6)
			start := rng.Intn(total - 1)
			switch c % 8 {
			case 1:
				start = 0 // the first batch of the log
			case 5:
				start = total - 1 // the batch's first snapshot is the log's newest version
			}
			var batch []*protocol.SignedSnapshot
			for v := start; v < total && len(batch) < size; v += 1 + rng.Intn(3) {
				batch = append(batch, cloneSigned(signed[v]))
			}
			first, last := batch[0], batch[len(batch)-1]
			if tc.gossip != nil {
				if len(batch) == 1 && (tc.name == "gossip: last snapshot version - 1" || tc.name == "gossip: first snapshot version + 1") {
					tc = tampers[0] // first and last are the same snapshot: an altered version makes start > end; keep it honest
				} else {
					tc.gossip(first, last)
				}
			}
			if len(batch) == 1 && tc.name == "gossip: last snapshot history digest bit" {
				tc.class = "aud+mon" // the last snapshot IS the first one
			}
			var undo func()
			if tc.store != nil {
				rig.store.mu.Lock()
				undo = tc.store(rig.store, cur)
				rig.store.mu.Unlock()
			}
			rig.setTamper(tc.answer)
			desc := map[string]interface{}{"seed": seed, "log": lg, "case": c, "alteration": tc.name, "batch_versions": versionsOf(batch), "events_in_log": total}
			out.Note(desc)
			b := &protocol.BatchSnapshots{Snapshots: batch}

			// ---- auditor
			rig.rec.take()
			aAns, aSt, aVer := auditorOracle(first.Snapshot)
			err, p, msg := runTask(aud, rig.agent, b)
			alerts := rig.rec.take()
			totalAlerts += len(alerts)
			obs := "quiet"
			switch {
			case p:
				out.Violate("C19:agent-task-panic", "the auditor task failed internally: "+msg, desc)
				obs = "panic"
			case len(alerts) > 0:
				obs = "alert"
			case err != nil:
				obs = "none"
			}
			if obs != "panic" {
				want := "quiet"
				switch {
				case !aAns || !aSt:
					want = "none"
				case !aVer:
					want = "alert"
				}
				if aAns && obs != want {
					out.Violate("C19:auditor-alert-mismatch", fmt.Sprintf("auditor: the membership proof for the batch's first snapshot %s against the published snapshots (stored snapshot found=%v), the auditor's outcome is %q (expected %q) [%s]", map[bool]string{true: "verifies", false: "does not verify"}[aVer], aSt, obs, want, tc.name), desc)
				}
				if aAns {
					acases = append(acases, fmt.Sprintf("((%v, %v, %v), %s)", aAns, aSt, aVer, verd[obs]))
				}
				// ground truth by construction of the alteration
				if tc.class == "honest" || tc.class == "unused" || tc.class == "mon" || tc.class == "monerr" {
					if obs == "alert" {
						out.Violate("C19:auditor-false-alert", fmt.Sprintf("the auditor raised an alert on data it should accept [%s]: %.200s", tc.name, alerts[0]), desc)
					}
				} else if (tc.class == "aud" || tc.class == "aud+mon") && !(tc.answer != nil && (first.Snapshot.Version == 0 || first.Snapshot.Version >= cur)) {
					// (a proof for version 0, or for the newest version, carries entries the verifier never reads: altering
					// one of those in the log's answer changes nothing that is checked - only the re-verification decides there)
					if obs == "quiet" {
						out.Violate("C19:auditor-missed-alteration", fmt.Sprintf("the auditor raised no alert although what it checks was altered [%s]", tc.name), desc)
					}
				} else if tc.class == "audreject" && obs != "alert" {
					out.Violate("C19:auditor-missed-alteration:query-rejected", fmt.Sprintf("the log refuses to prove the membership of a gossiped snapshot (HTTP 412) and the auditor raised no alert (outcome %q) [%s]", obs, tc.name), desc)
				}
			}
			out.Case(fmt.Sprintf("aud:%d:%d", lg, c), tc.class != "honest")
			out.Count("auditor_"+obs, 1)

			// ---- monitor
			mAns, mVer := monitorOracle(first.Snapshot, last.Snapshot)
			rig.rec.take()
			err, p, msg = runTask(mon, rig.agent, b)
			alerts = rig.rec.take()
			totalAlerts += len(alerts)
			obs = "quiet"
			switch {
			case p:
				out.Violate("C19:agent-task-panic", "the monitor task failed internally: "+msg, desc)
				obs = "panic"
			case len(alerts) > 0:
				obs = "alert"
			}
			if obs != "panic" {
				want := "quiet"
				if !mAns || !mVer {
					want = "alert"
				}
				if obs != want {
					out.Violate("C19:monitor-alert-mismatch", fmt.Sprintf("monitor: the incremental proof between the batch's first and last snapshot answered=%v verifies=%v, the monitor's outcome is %q (expected %q) [%s]", mAns, mVer, obs, want, tc.name), desc)
				}
				mcases = append(mcases, fmt.Sprintf("((%v, %v), %s)", mAns, mVer, verd[obs]))
				if tc.class == "honest" || tc.class == "unused" || tc.class == "aud" || tc.class == "nostore" || tc.class == "audreject" {
					if obs == "alert" {
						out.Violate("C19:monitor-false-alert", fmt.Sprintf("the monitor raised an alert on data it should accept [%s]: %.200s", tc.name, alerts[0]), desc)
					}
				} else if obs == "quiet" && len(batch) > 1 {
					out.Violate("C19:monitor-missed-alteration", fmt.Sprintf("the monitor raised no alert although what it checks was altered [%s]", tc.name), desc)
				}
			}
			out.Case(fmt.Sprintf("mon:%d:%d", lg, c), tc.class != "honest")
			out.Count("monitor_"+obs, 1)
			_ = err
			if undo != nil {
				rig.store.mu.Lock()
				undo()
				rig.store.mu.Unlock()
			}
			rig.setTamper(nil)
		}

		// ---- publisher: redelivery patterns
		pub := qcmd.VPublisherFactory()
		rig.store.mu.Lock()
		rig.store.batches = nil
		rig.store.mu.Unlock()
		delivered := map[string]bool{}
		nb := 25
		if tier == "thorough" {
			nb = 120
		}
		desc := map[string]interface{}{"seed": seed, "log": lg, "publisher_batches": nb}
		out.Note(desc)
		var pcase []string
		for i := 0; i < nb; i++ {
			size := 1 + rng.Intn(8)
			var batch []*protocol.SignedSnapshot
			var ids []string
			for j := 0; j < size; j++ {
				v := rng.Intn(total)
				if rng.Intn(4) == 0 && len(batch) > 0 {
					v = int(batch[rng.Intn(len(batch))].Snapshot.Version) // the same snapshot twice in one batch
				}
				batch = append(batch, cloneSigned(signed[v]))
				delivered[string(signed[v].Signature)] = true
				ids = append(ids, fmt.Sprintf("(%d, %d)", v, v))
			}
			pcase = append(pcase, cq.List(ids))
			if _, p, msg := runTask(pub, rig.agent, &protocol.BatchSnapshots{Snapshots: batch}); p {
				out.Violate("C19:agent-task-panic", "the publisher task failed internally: "+msg, desc)
			}
			out.Case(fmt.Sprintf("pub:%d:%d", lg, i), i > 0)
		}
		rig.store.mu.Lock()
		got := rig.store.batches
		rig.store.mu.Unlock()
		seen := map[string]int{}
		var obsB []string
		for _, b := range got {
			if len(b) == 0 {
				out.Violate("C19:publisher-empty-batch", "the publisher sent an empty batch to the snapshot store", desc)
			}
			var ids []string
			for _, ss := range b {
				seen[string(ss.Signature)]++
				ids = append(ids, fmt.Sprintf("(%d, %d)", ss.Snapshot.Version, ss.Snapshot.Version))
			}
			obsB = append(obsB, cq.List(ids))
		}
		twice, missing := 0, 0
		for sg, c := range seen {
			if c > 1 {
				twice++
			}
			if !delivered[sg] {
				out.Violate("C19:publisher-forwards-unknown", "the publisher forwarded a signed snapshot it was never given", desc)
			}
		}
		for sg := range delivered {
			if seen[sg] == 0 {
				missing++
			}
		}
		if twice > 0 {
			out.Violate("C19:publisher-forwards-twice", fmt.Sprintf("%d signed snapshots reached the snapshot store more than once", twice), desc)
		}
		if missing > 0 {
			out.Violate("C19:publisher-drops-unseen", fmt.Sprintf("%d signed snapshots the publisher had not seen before never reached the snapshot store", missing), desc)
		}
		pubcases = append(pubcases, fmt.Sprintf("(%s, %s)", cq.List(pcase), cq.List(obsB)))
		// ---- publisher: the snapshot store records a batch but acknowledges it late (after the client's deadline): the
		// publisher's call fails, yet nothing may reach the store a second time
		{
			var fresh []*protocol.SignedSnapshot
			for v := 0; v < total && len(fresh) < 4; v++ {
				if !delivered[string(signed[v].Signature)] {
					fresh = append(fresh, cloneSigned(signed[v]))
				}
			}
			for len(fresh) < 3 {
				c := cloneSigned(signed[len(fresh)])
				c.Signature = append(append([]byte{}, c.Signature...), byte(lg), byte(len(fresh)), 0x5a)
				fresh = append(fresh, c)
			}
			rig.store.mu.Lock()
			rig.store.batches = nil
			rig.store.lateAck = 2400 * time.Millisecond
			rig.store.mu.Unlock()
			if _, p, msg := runTask(pub, rig.agent, &protocol.BatchSnapshots{Snapshots: fresh}); p {
				out.Violate("C19:agent-task-panic", "the publisher task failed internally: "+msg, desc)
			}
			time.Sleep(700 * time.Millisecond)
			rig.store.mu.Lock()
			cnt := map[string]int{}
			for _, b := range rig.store.batches {
				for _, ss := range b {
					cnt[string(ss.Signature)]++
				}
			}
			rig.store.lateAck = 0
			rig.store.mu.Unlock()
			twice := 0
			for _, c := range cnt {
				if c > 1 {
					twice++
				}
			}
			out.Count("publisher_late_ack_runs", 1)
			if twice > 0 {
				out.Violate("C19:publisher-forwards-twice:late-acknowledgement", fmt.Sprintf("the snapshot store recorded a batch of %d new signed snapshots and acknowledged it 2.4 s later (after the client's read deadline): %d of them reached the store more than once", len(fresh), twice), map[string]interface{}{"seed": seed, "log": lg, "scenario": "store acknowledges late"})
			}
		}
		out.Count("publisher_batches_delivered", nb)
		out.Count("publisher_batches_forwarded", len(got))

		// ---- publisher: two DIFFERENT batches that share snapshots, processed at the same time (the task manager runs
		// every task in its own goroutine)
		if lg == 0 {
			trials := 40
			if tier == "thorough" {
				trials = 300
			}
			dups := 0
			for t := 0; t < trials; t++ {
				rig.store.mu.Lock()
				rig.store.batches = nil
				rig.store.mu.Unlock()
				mk := func(extra int) *protocol.BatchSnapshots {
					var b []*protocol.SignedSnapshot
					for j := 0; j < 1500; j++ { // many shared snapshots: many chances for the two tasks to interleave
						sg := make([]byte, 64)
						copy(sg, fmt.Sprintf("shared-%d-%d-%d", lg, t, j))
						b = append(b, &protocol.SignedSnapshot{Snapshot: signed[j%total].Snapshot, Signature: sg})
					}
					sg := make([]byte, 64)
					copy(sg, fmt.Sprintf("own-%d-%d-%d", lg, t, extra))
					b = append(b, &protocol.SignedSnapshot{Snapshot: signed[extra%total].Snapshot, Signature: sg})
					return &protocol.BatchSnapshots{Snapshots: b}
				}
				b1, b2 := mk(1), mk(2)
				var wg sync.WaitGroup
				startBoth := make(chan struct{})
				for _, b := range []*protocol.BatchSnapshots{b1, b2} {
					wg.Add(1)
					go func(b *protocol.BatchSnapshots) { defer wg.Done(); <-startBoth; runTask(pub, rig.agent, b) }(b)
				}
				close(startBoth)
				wg.Wait()
				cnt := map[string]int{}
				rig.store.mu.Lock()
				for _, b := range rig.store.batches {
					for _, ss := range b {
						cnt[string(ss.Signature)]++
					}
				}
				rig.store.mu.Unlock()
				for _, c := range cnt {
					if c > 1 {
						dups++
						break
					}
				}
				out.Case(fmt.Sprintf("pubconc:%d:%d", lg, t), true)
			}
			if dups > 0 {
				out.Violate("C19:publisher-forwards-twice:concurrent-overlapping-batches", fmt.Sprintf("in %d of %d trials two different batches sharing 1500 signed snapshots, processed at the same time, both forwarded a shared snapshot", dups, trials), map[string]interface{}{"seed": seed, "trials": trials})
			}
			out.Count("publisher_concurrent_trials", trials)

			// ---- publisher: a snapshot redelivered after many others (the signature cache is a bounded freecache)
			rig.store.mu.Lock()
			rig.store.batches = nil
			rig.store.mu.Unlock()
			sgA := make([]byte, 64)
			copy(sgA, "redelivered-after-many")
			bA := &protocol.BatchSnapshots{Snapshots: []*protocol.SignedSnapshot{{Snapshot: signed[0].Snapshot, Signature: sgA}}}
			runTask(pub, rig.agent, bA)
			others := 40000
			if tier == "thorough" {
				others = 200000
			}
			for i := 0; i < others; i += 500 {
				var b []*protocol.SignedSnapshot
				for j := 0; j < 500; j++ {
					sg := make([]byte, 64)
					copy(sg, fmt.Sprintf("filler-%d", i+j))
					b = append(b, &protocol.SignedSnapshot{Snapshot: signed[(i+j)%total].Snapshot, Signature: sg})
				}
				runTask(pub, rig.agent, &protocol.BatchSnapshots{Snapshots: b})
			}
			runTask(pub, rig.agent, bA)
			cntA := 0
			rig.store.mu.Lock()
			for _, b := range rig.store.batches {
				for _, ss := range b {
					if string(ss.Signature) == string(sgA) {
						cntA++
					}
				}
			}
			rig.store.mu.Unlock()
			if cntA != 1 {
				out.Violate("C19:publisher-forwards-twice:after-cache-eviction", fmt.Sprintf("a signed snapshot delivered, then redelivered after %d other signed snapshots, reached the snapshot store %d times", others, cntA), map[string]interface{}{"seed": seed, "others": others})
			}
			out.Case("pubevict", true)
		}

		if lg == 0 {
			// ---- the agent's duplicate filter sits in front of the tasks: a batch whose contents were altered (signatures
			// untouched - agents do not check them) is a different batch and must reach the auditor and the monitor even
			// when the honest one was seen before, in either order
			cache := freecache.NewCache(gossip.DefaultConfig().CacheSize)
			honest := &protocol.BatchSnapshots{Snapshots: []*protocol.SignedSnapshot{cloneSigned(signed[0]), cloneSigned(signed[total-1])}}
			for ai, alter := range []func(b *protocol.BatchSnapshots){
				func(b *protocol.BatchSnapshots) {
					b.Snapshots[0].Snapshot.HistoryDigest = flip(b.Snapshots[0].Snapshot.HistoryDigest, 3)
				},
				func(b *protocol.BatchSnapshots) {
					b.Snapshots[0].Snapshot.EventDigest = flip(b.Snapshots[0].Snapshot.EventDigest, 9)
				},
				func(b *protocol.BatchSnapshots) {
					b.Snapshots[1].Snapshot.HistoryDigest = flip(b.Snapshots[1].Snapshot.HistoryDigest, 200)
				},
				func(b *protocol.BatchSnapshots) { b.Snapshots[1].Snapshot.Version++ },
			} {
				altered := &protocol.BatchSnapshots{Snapshots: []*protocol.SignedSnapshot{cloneSigned(signed[0]), cloneSigned(signed[total-1])}}
				alter(altered)
				first := gossip.VWasProcessed(cache, honest)
				dropped := gossip.VWasProcessed(cache, altered)
				if ai == 0 && first {
					out.Violate("C19:honest-batch-dropped", "the agent's duplicate filter treats a batch delivered for the first time as already processed", map[string]interface{}{"seed": seed})
				}
				if dropped {
					out.Violate("C19:altered-batch-dropped-as-already-processed", fmt.Sprintf("after the honest batch, a batch with the same signatures but altered contents (alteration %d) is dropped by the agent's duplicate filter before any task sees it: no check runs, no alert is raised", ai),
						map[string]interface{}{"seed": seed, "alteration": ai})
				}
				out.Case(fmt.Sprintf("dedupe:%d", ai), true)
			}
			// ---- the agent's own pipeline, as `qed agent auditor` wires it: message bus -> batch processor (duplicate
			// filter) -> task manager (10 tasks per tick) -> auditor task -> notifier.  Honest batches raise nothing, every
			// distinct altered batch raises an alert, a repeated one does not raise a second
			{
				conf2 := gossip.DefaultConfig()
				rigSeq++
				conf2.NodeName = fmt.Sprintf("c19p-%d-%d", os.Getpid(), rigSeq)
				conf2.Role = "auditor"
				conf2.BindAddr = fmt.Sprintf("127.0.0.1:%d", freePorts(1)[0])
				st2 := gossip.NewRestSnapshotStore([]string{rig.store.srv.URL}, 500*time.Millisecond, 2*time.Second)
				tm2 := gossip.NewSimpleTasksManager(40*time.Millisecond, 10)
				rec2 := &recNotifier{}
				if ag2, err := gossip.NewDefaultAgent(conf2, rig.qed, st2, tm2, rec2, log.L()); err == nil {
					bp := gossip.NewBatchProcessor(ag2, []gossip.TaskFactory{aud}, log.L())
					ag2.In.Subscribe(gossip.BatchMessageType, bp, 255)
					tm2.Start()
					rig.setTamper(nil)
					send := func(b *protocol.BatchSnapshots) {
						payload, _ := b.Encode()
						ag2.In.Publish(&gossip.Message{Kind: gossip.BatchMessageType, From: gossip.NewPeer("srv", "127.0.0.1", 9, "server"), TTL: 1, Payload: payload})
					}
					settle := func(want int) int {
						got := 0
						for w := 0; w < 60; w++ {
							time.Sleep(100 * time.Millisecond)
							rec2.mu.Lock()
							got = len(rec2.alerts)
							rec2.mu.Unlock()
							if got >= want && w >= 5 {
								break
							}
						}
						return got
					}
					mkAltered := func(i int) *protocol.BatchSnapshots {
						v := i % total
						b := &protocol.BatchSnapshots{Snapshots: []*protocol.SignedSnapshot{cloneSigned(signed[v])}}
						b.Snapshots[0].Snapshot.HistoryDigest = flip(b.Snapshots[0].Snapshot.HistoryDigest, 1+i%250)
						return b
					}
					for i := 0; i < 6; i++ {
						send(&protocol.BatchSnapshots{Snapshots: []*protocol.SignedSnapshot{cloneSigned(signed[i%total]), cloneSigned(signed[(i+1)%total])}})
					}
					if got := settle(0); got != 0 {
						out.Violate("C19:auditor-false-alert:pipeline", fmt.Sprintf("six honest batches sent through the agent's bus raised %d alerts", got), map[string]interface{}{"seed": seed})
					}
					const nAlt = 35
					for i := 0; i < nAlt; i++ {
						send(mkAltered(i))
					}
					for i := 0; i < 5; i++ {
						send(mkAltered(i)) // repeated
					}
					got := settle(nAlt)
					rec2.mu.Lock()
					distinct := map[string]bool{}
					for _, a := range rec2.alerts {
						distinct[a] = true
					}
					rec2.mu.Unlock()
					if len(distinct) != nAlt {
						out.Violate("C19:pipeline-alert-count:distinct", fmt.Sprintf("%d distinct altered batches were sent through the agent's bus in a burst; alerts were raised for %d of them (%d alerts in all): some batch's check never ran", nAlt, len(distinct), got), map[string]interface{}{"seed": seed, "altered": nAlt, "alerts": got, "distinct": len(distinct)})
					}
					if got != nAlt {
						out.Violate("C19:pipeline-alert-count", fmt.Sprintf("%d distinct altered batches (and 5 repetitions) were sent through the agent's bus in a burst (task manager: 10 tasks per 40 ms tick); %d alerts were raised, expected %d", nAlt, got, nAlt), map[string]interface{}{"seed": seed, "altered": nAlt, "alerts": got})
					}
					out.Case("agent-pipeline", true)
					out.Count("pipeline_batches", 6+nAlt+5)
					bp.Stop()
					tm2.Stop()
				}
			}
			// ---- the task manager runs up to ten tasks of one tick at the same time on ONE agent (one client, one store
			// client): honest batches verified concurrently raise no alert and fail nowhere
			{
				rig.setTamper(nil)
				rig.rec.take()
				var cwg sync.WaitGroup
				var cmu sync.Mutex
				cpanics := 0
				cfirst := ""
				for g := 0; g < 10; g++ {
					cwg.Add(1)
					go func(g int) {
						defer cwg.Done()
						for i := 0; i < 30; i++ {
							a, b := (g*7+i)%total, (g*7+i+1+i%3)%total
							if a > b {
								a, b = b, a
							}
							hb := &protocol.BatchSnapshots{Snapshots: []*protocol.SignedSnapshot{cloneSigned(signed[a]), cloneSigned(signed[b])}}
							f := aud
							if i%2 == 1 {
								f = mon
							}
							if _, p, msg := runTask(f, rig.agent, hb); p {
								cmu.Lock()
								cpanics++
								if cfirst == "" {
									cfirst = msg
								}
								cmu.Unlock()
							}
						}
					}(g)
				}
				cwg.Wait()
				calerts := rig.rec.take()
				totalAlerts += len(calerts)
				if cpanics > 0 || len(calerts) > 0 {
					first := cfirst
					if first == "" && len(calerts) > 0 {
						first = calerts[0]
					}
					out.Violate("C19:false-alert-under-concurrent-tasks", fmt.Sprintf("300 auditor and monitor tasks on honest batches of an honest log, ten at a time on one agent: %d alerts were raised and %d tasks failed internally (first: %.200s)", len(calerts), cpanics, first), map[string]interface{}{"seed": seed, "log": lg})
				}
				out.Case("concurrent-honest-tasks", true)
			}
			// ---- a burst of alerts (many consecutive batches fail, as when the server is compromised) against an alert
			// endpoint with some latency and the default queue of 10: every alert must arrive
			var bmu sync.Mutex
			got := 0
			slow := httptest.NewServer(http.HandlerFunc(func(w http.ResponseWriter, q *http.Request) {
				io.ReadAll(q.Body)
				time.Sleep(40 * time.Millisecond)
				bmu.Lock()
				got++
				bmu.Unlock()
			}))
			nf := gossip.NewSimpleNotifier([]string{slow.URL}, 10, 500*time.Millisecond, 500*time.Millisecond, log.L())
			nf.Start()
			const burst = 40
			var bwg sync.WaitGroup
			for i := 0; i < burst; i++ {
				bwg.Add(1)
				go func(i int) { defer bwg.Done(); _ = nf.Alert(fmt.Sprintf("verification failed for batch %d", i)) }(i)
			}
			withTimeout(20*time.Second, bwg.Wait)
			for w := 0; w < 100; w++ {
				bmu.Lock()
				g := got
				bmu.Unlock()
				if g >= burst {
					break
				}
				time.Sleep(100 * time.Millisecond)
			}
			bmu.Lock()
			g := got
			bmu.Unlock()
			if g != burst {
				out.Violate("C19:alert-not-delivered:burst", fmt.Sprintf("%d alerts were raised in a burst (queue of 10, alert endpoint answering in 40 ms); %d reached the endpoint within 10 s", burst, g), map[string]interface{}{"seed": seed})
			}
			out.Case("alert-burst", true)
			nf.Stop()
			slow.Close()
		}

		// every recorded alert reaches the notifier endpoint
		time.Sleep(300 * time.Millisecond)
		rig.recvMu.Lock()
		recv := rig.received
		rig.recvMu.Unlock()
		if recv != totalAlerts {
			out.Violate("C19:alert-not-delivered", fmt.Sprintf("%d alerts were raised by the agents, the notifier endpoint received %d", totalAlerts, recv), map[string]interface{}{"seed": seed, "log": lg})
		}
		out.Sample(map[string]interface{}{"log": lg, "events": total, "cases": perLog})
		rig.close()
		n.Close(true)
		os.RemoveAll(dir)
	}
	f, _ := os.Create(out.Dir + "/cases.v")
	fmt.Fprintf(f, "From Coq Require Import List NArith.\nFrom QV Require Import Agents.Agents Run.AgentsRun.\nImport ListNotations.\nOpen Scope N_scope.\n")
	fmt.Fprintf(f, "Definition acases : list ((bool * bool * bool) * averdict) := %s.\n", cq.List(acases))
	fmt.Fprintf(f, "Definition mcases : list ((bool * bool) * averdict) := %s.\n", cq.List(mcases))
	fmt.Fprintf(f, "Definition pcases : list (list (list (N * N)) * list (list (N * N))) := %s.\n", cq.List(pubcases))
	fmt.Fprintf(f, "Definition R := Eval vm_compute in run_agent_cases acases mcases pcases.\nPrint R.\n")
	f.Close()
}

var pubcases []string

func versionsOf(b []*protocol.SignedSnapshot) []uint64 {
	var vs []uint64
	for _, s := range b {
		vs = append(vs, s.Snapshot.Version)
	}
	return vs
}
