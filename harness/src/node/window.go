package main

import (
	"fmt"
	"os"
	"sync"
	"time"

	"github.com/bbva/qed/balloon"
	"github.com/bbva/qed/consensus"
	"github.com/bbva/qed/crypto/hashing"
	"github.com/bbva/qed/protocol"
	"github.com/bbva/qed/storage"
	"qedverif/cq"
)

// ---- C10: queries while an insertion is between "computed" and "persisted".
// The store handed to the node parks Mutate until released; meanwhile other goroutines query.

type parkStore struct {
	storage.ManagedStore
	mu      sync.Mutex
	armed   bool
	parked  chan struct{} // closed when Mutate is parked
	release chan struct{}
}

func (p *parkStore) arm() {
	p.mu.Lock()
	p.armed = true
	p.parked = make(chan struct{})
	p.release = make(chan struct{})
	p.mu.Unlock()
}

func (p *parkStore) Mutate(m []*storage.Mutation, meta []byte) error {
	p.mu.Lock()
	armed := p.armed
	p.armed = false
	parked, release := p.parked, p.release
	p.mu.Unlock()
	if armed {
		close(parked)
		<-release
	}
	return p.ManagedStore.Mutate(m, meta)
}

type qres struct {
	kind   string
	class  string // verified | clean-error | panic | wrong | blocked
	detail string
}

func windowCmd(out *cq.Out, seed uint64, tier string) {
	rng := cq.NewRng(seed)
	trials := 6
	if tier == "thorough" {
		trials = 30
	}
	var wcases []string
	for t := 0; t < trials; t++ {
		dir, _ := os.MkdirTemp(out.Dir, "win")
		ps := &parkStore{ManagedStore: openRocks(dir + "/db")}
		ch := make(chan *protocol.Snapshot, 1024)
		drain(ch)
		n, err := consensus.VNewFSM(ps, ch)
		if err != nil {
			panic(err)
		}
		lg := genLog(rng, fmt.Sprintf("w%d", t), 2+rng.Intn(6))
		var snaps []*balloon.Snapshot
		var events []hashing.Digest
		for j := 0; j < len(lg)-1; j++ {
			s, _ := n.VApply(lg[j].index, lg[j].evs)
			snaps = append(snaps, s...)
			events = append(events, lg[j].evs...)
		}
		last := lg[len(lg)-1]
		desc := map[string]interface{}{"seed": seed, "trial": t, "events_before": len(events), "inserting": len(last.evs)}
		out.Note(desc)
		ps.arm()
		var newSnaps []*balloon.Snapshot
		applyDone := make(chan struct{})
		go func() {
			newSnaps, _ = n.VApply(last.index, last.evs)
			close(applyDone)
		}()
		select {
		case <-ps.parked:
		case <-time.After(10 * time.Second):
			out.Violate("C10:infrastructure-not-parked", "the apply never reached the store write", desc)
			continue
		}
		// ---- the window is open: run every kind of query from other goroutines
		old := len(events)
		type job struct {
			kind string
			run  func() (ok bool, cleanErr bool, detail string, check func(all []*balloon.Snapshot) (bool, string), cur int64)
		}
		var jobs []job
		if old > 0 {
			k := rng.Intn(old)
			q := uint64(k + rng.Intn(old-k))
			jobs = append(jobs, job{"membership(old event, old version)", func() (bool, bool, string, func([]*balloon.Snapshot) (bool, string), int64) {
				p, err := n.QueryDigestMembershipConsistency(events[k], q)
				if err != nil {
					return false, true, err.Error(), nil, -1
				}
				return true, false, "", func(all []*balloon.Snapshot) (bool, string) {
					if int(p.CurrentVersion) >= len(all) || !p.Exists {
						return false, fmt.Sprintf("exists=%v current=%d", p.Exists, p.CurrentVersion)
					}
					return p.DigestVerify(events[k], &balloon.Snapshot{HistoryDigest: all[q].HistoryDigest, HyperDigest: all[p.CurrentVersion].HyperDigest}), fmt.Sprintf("current=%d actual=%d", p.CurrentVersion, p.ActualVersion)
				}, int64(p.CurrentVersion)
			}})
			jobs = append(jobs, job{"membership(old event, current version)", func() (bool, bool, string, func([]*balloon.Snapshot) (bool, string), int64) {
				p, err := n.QueryDigestMembership(events[k])
				if err != nil {
					return false, true, err.Error(), nil, -1
				}
				return true, false, "", func(all []*balloon.Snapshot) (bool, string) {
					if int(p.CurrentVersion) >= len(all) || !p.Exists {
						return false, fmt.Sprintf("exists=%v current=%d", p.Exists, p.CurrentVersion)
					}
					return p.DigestVerify(events[k], &balloon.Snapshot{HistoryDigest: all[p.QueryVersion].HistoryDigest, HyperDigest: all[p.CurrentVersion].HyperDigest}), fmt.Sprintf("current=%d", p.CurrentVersion)
				}, int64(p.CurrentVersion)
			}})
			s0 := uint64(rng.Intn(old))
			e0 := uint64(old - 1 + len(last.evs))
			jobs = append(jobs, job{fmt.Sprintf("consistency(%d, new version %d)", s0, e0), func() (bool, bool, string, func([]*balloon.Snapshot) (bool, string), int64) {
				p, err := n.QueryConsistency(s0, e0)
				if err != nil {
					return false, true, err.Error(), nil, -1
				}
				return true, false, "", func(all []*balloon.Snapshot) (bool, string) {
					return p.Verify(all[s0], all[e0]), ""
				}, -1
			}})
		}
		jobs = append(jobs, job{"membership(event being inserted)", func() (bool, bool, string, func([]*balloon.Snapshot) (bool, string), int64) {
			p, err := n.QueryDigestMembership(last.evs[0])
			if err != nil {
				return false, true, err.Error(), nil, -1
			}
			return true, false, "", func(all []*balloon.Snapshot) (bool, string) {
				// either the pre-state (absent, current = old-1) or the post-state (present and verifying)
				if !p.Exists {
					pre := uint64(old) - 1
					return p.CurrentVersion == pre, fmt.Sprintf("answered 'does not exist' with current version %d (pre-insertion current is %d)", p.CurrentVersion, pre)
				}
				if int(p.CurrentVersion) >= len(all) {
					return false, "current beyond issued"
				}
				return p.DigestVerify(last.evs[0], &balloon.Snapshot{HistoryDigest: all[p.QueryVersion].HistoryDigest, HyperDigest: all[p.CurrentVersion].HyperDigest}), "exists"
			}, int64(p.CurrentVersion)
		}})
		results := make([]qres, len(jobs))
		checks := make([]func([]*balloon.Snapshot) (bool, string), len(jobs))
		var wg sync.WaitGroup
		finished := make([]chan struct{}, len(jobs))
		curs := make([]int64, len(jobs))
		for i, j := range jobs {
			i, j := i, j
			finished[i] = make(chan struct{})
			wg.Add(1)
			go func() {
				defer wg.Done()
				defer close(finished[i])
				var ok, clean bool
				var detail string
				p, msg := cq.Catch(func() { ok, clean, detail, checks[i], curs[i] = j.run() })
				switch {
				case p:
					results[i] = qres{j.kind, "panic", msg}
				case clean:
					results[i] = qres{j.kind, "clean-error", detail}
				case ok:
					results[i] = qres{j.kind, "answered", ""}
				}
			}()
		}
		// queries that take the node's apply lock block until the write completes: give the others time to finish
		time.Sleep(300 * time.Millisecond)
		early := make([]bool, len(jobs))
		for i := range jobs {
			select {
			case <-finished[i]:
				early[i] = true
			default:
			}
		}
		close(ps.release)
		<-applyDone
		wg.Wait()
		all := append(append([]*balloon.Snapshot{}, snaps...), newSnaps...)
		for i, r := range results {
			out.Case(fmt.Sprintf("win:%d:%d", t, i), true)
			out.Count("window_queries", 1)
			switch r.class {
			case "panic":
				out.Violate("C10:query-panic-in-window", fmt.Sprintf("%s issued between computing and persisting an insertion failed internally: %.200s", r.kind, r.detail), desc)
			case "answered":
				if okv, why := checks[i](all); !okv {
					out.Violate("C10:inconsistent-answer-in-window", fmt.Sprintf("%s issued between computing and persisting an insertion returned an answer that neither verifies against the issued snapshots nor is the pre-insertion answer (%s)", r.kind, why), desc)
				}
			}
			out.Count("window_"+r.class, 1)
		}
		// the observed schedule for the lock-discipline model (Fsm/Window.v): queries that returned while the write was
		// parked read in the window; the others after the unlock.  An answered membership query observed
		// (store size at the time it returned, in-memory size = current version + 1)
		ins := make([]string, len(last.evs))
		for i := range ins {
			ins[i] = fmt.Sprintf("%d%%N", 1000+i)
		}
		sched := []string{"WLock N", "WCompute N " + cq.List(ins)}
		var obs []string
		emit := func(i int, storeLen int) {
			sched = append(sched, "RLock N")
			if results[i].class == "answered" && curs[i] >= 0 {
				sched = append(sched, "RRead N")
				obs = append(obs, fmt.Sprintf("(%d,%d)%%nat", storeLen, curs[i]+1))
			}
			sched = append(sched, "RUnlock N")
		}
		for i := range jobs {
			if early[i] {
				emit(i, old)
				out.Count("window_returned_before_persist", 1)
			}
		}
		sched = append(sched, "WPersist N", "WUnlock N")
		for i := range jobs {
			if !early[i] {
				emit(i, old+len(last.evs))
				out.Count("window_waited_for_persist", 1)
			}
		}
		wcases = append(wcases, fmt.Sprintf("(%d%%nat, %s, %s)", old, cq.List(sched), cq.List(obs)))
		n.VCloseFSM()
		os.RemoveAll(dir)
	}
	f, _ := os.Create(out.Dir + "/cases.v")
	fmt.Fprintf(f, "From Coq Require Import List NArith.\nFrom QV Require Import Fsm.Window.\nImport ListNotations.\nOpen Scope N_scope.\n")
	fmt.Fprintf(f, "Definition cases : list wcase := %s.\n", cq.List(wcases))
	fmt.Fprintf(f, "Definition R := Eval vm_compute in run_window_cases cases.\nPrint R.\n")
	f.Close()
	out.Sample(map[string]interface{}{"trials": trials, "kind": "Mutate parked; membership(old,old), membership(old,current), consistency(old,new), membership(inserting) issued concurrently"})
}
