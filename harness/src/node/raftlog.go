package main

import (
	"bytes"
	"fmt"
	"os"
	"sort"
	"time"

	"github.com/bbva/qed/consensus"
	"github.com/hashicorp/raft"
	"qedverif/cq"
	"sync"
	"sync/atomic"
)

// ---- C15: the replicated-log store against a map model (via the verif hook)

func logCoq(l *raft.Log) string {
	// every field of the entry: the payload the model stores is Data ‖ 256 ‖ Extensions (256 is not a byte)
	p := append([]int{}, bytesToInts(l.Data)...)
	p = append(p, 256)
	p = append(p, bytesToInts(l.Extensions)...)
	return fmt.Sprintf("(%s,%s,%d%%N,%s)", cq.N(l.Index), cq.N(l.Term), l.Type, coqInts(p))
}

func bytesToInts(b []byte) []int {
	var x []int
	for _, y := range b {
		x = append(x, int(y))
	}
	return x
}

func coqInts(b []int) string {
	s := "["
	for i, x := range b {
		if i > 0 {
			s += ";"
		}
		s += fmt.Sprintf("%d", x)
	}
	return s + "]"
}

func coqB(b []byte) string {
	s := "["
	for i, x := range b {
		if i > 0 {
			s += ";"
		}
		s += fmt.Sprintf("%d", x)
	}
	return s + "]"
}

func raftlogCmd(out *cq.Out, seed uint64, tier string) {
	rng := cq.NewRng(seed)
	ncases, nops := 12, 60
	if tier == "thorough" {
		ncases, nops = 60, 150
	}
	pickIdx := func() uint64 {
		switch rng.Intn(12) {
		case 0:
			return 0
		case 1:
			return ^uint64(0)
		case 2:
			return ^uint64(0) - 1
		case 3:
			return 1 << 63
		case 4:
			return uint64(1<<32) + uint64(rng.Intn(4))
		}
		return uint64(1 + rng.Intn(40))
	}
	raftlogScripted(out, seed)
	var cases []string
	for ci := 0; ci < ncases; ci++ {
		dir, _ := os.MkdirTemp(out.Dir, "raftlog")
		st, err := consensus.VOpenRaftLog(dir)
		if err != nil {
			panic(err)
		}
		model := map[uint64]*raft.Log{}
		kv := map[string][]byte{}
		var ops, hist []string
		fail := func(sig, what string) {
			out.Violate("C15:"+sig, what, map[string]interface{}{"case": ci, "seed": seed, "ops": hist})
		}
		mkLog := func(i uint64) *raft.Log {
			return &raft.Log{Index: i, Term: uint64(rng.Intn(5)), Type: raft.LogType(rng.Intn(4)), Data: rng.Bytes(rng.Intn(4)), Extensions: rng.Bytes(rng.Intn(3))}
		}
		bounds := func() (uint64, uint64) {
			if len(model) == 0 {
				return 0, 0
			}
			var ks []uint64
			for k := range model {
				ks = append(ks, k)
			}
			sort.Slice(ks, func(i, j int) bool { return ks[i] < ks[j] })
			return ks[0], ks[len(ks)-1]
		}
		for k := 0; k < nops; k++ {
			switch r := rng.Intn(20); {
			case r < 4:
				l := mkLog(pickIdx())
				if err := st.StoreLog(l); err != nil {
					fail("store-error", err.Error())
				}
				model[l.Index] = l
				ops = append(ops, "LStore "+cq.List([]string{logCoq(l)}))
				hist = append(hist, fmt.Sprintf("StoreLog(%d)", l.Index))
			case r < 7:
				var ls []*raft.Log
				var ll []string
				base := pickIdx()
				for j := 0; j < 1+rng.Intn(5); j++ {
					l := mkLog(base + uint64(j))
					ls = append(ls, l)
					ll = append(ll, logCoq(l))
				}
				if err := st.StoreLogs(ls); err != nil {
					fail("store-error", err.Error())
				}
				for _, l := range ls {
					model[l.Index] = l
				}
				ops = append(ops, "LStore "+cq.List(ll))
				hist = append(hist, fmt.Sprintf("StoreLogs(%d..+%d)", base, len(ls)))
			case r < 11:
				i := pickIdx()
				var got raft.Log
				err := st.GetLog(i, &got)
				want, ok := model[i]
				obs := "None"
				if err == nil {
					obs = "(Some " + logCoq(&got) + ")"
					if !ok || got.Index != want.Index || got.Term != want.Term || got.Type != want.Type || !bytes.Equal(got.Data, want.Data) || !bytes.Equal(got.Extensions, want.Extensions) {
						fail("get", fmt.Sprintf("GetLog(%d) returned %+v, stored %+v (present=%v)", i, got, want, ok))
					}
				} else if ok {
					fail("get", fmt.Sprintf("GetLog(%d) failed (%v) although an entry was stored there", i, err))
				} else if !consensus.VIsLogNotFound(err) {
					fail("get-error-kind", fmt.Sprintf("GetLog(%d) on a missing index returned %v instead of raft.ErrLogNotFound", i, err))
				}
				ops = append(ops, fmt.Sprintf("LGet %s %s", cq.N(i), obs))
				out.Case(fmt.Sprintf("get:%d:%d", ci, k), ok)
			case r < 14:
				a, b := pickIdx(), pickIdx()
				if rng.Intn(3) != 0 && a > b {
					a, b = b, a
				}
				err := st.DeleteRange(a, b)
				if err != nil && a <= b {
					fail("delete-range-error", fmt.Sprintf("DeleteRange(%d,%d) failed: %v", a, b, err))
				}
				if a <= b {
					for i := range model {
						if i >= a && i <= b {
							delete(model, i)
						}
					}
				}
				ops = append(ops, fmt.Sprintf("LDelete %s %s", cq.N(a), cq.N(b)))
				hist = append(hist, fmt.Sprintf("DeleteRange(%d,%d)", a, b))
				out.Case(fmt.Sprintf("del:%d:%d", ci, k), a <= b)
			case r < 16:
				f, _ := st.FirstIndex()
				l, _ := st.LastIndex()
				wf, wl := bounds()
				if f != wf || l != wl {
					fail("first-last", fmt.Sprintf("FirstIndex/LastIndex = %d/%d, the stored indexes span %d/%d (%d entries)", f, l, wf, wl, len(model)))
				}
				ops = append(ops, fmt.Sprintf("LBounds %s %s", cq.N(f), cq.N(l)))
				out.Case(fmt.Sprintf("bounds:%d:%d", ci, k), len(model) > 0)
			case r < 18:
				key := []byte{byte('a' + rng.Intn(3))}
				if rng.Intn(2) == 0 {
					x := rng.U64()
					st.SetUint64(key, x)
					b := []byte{byte(x >> 56), byte(x >> 48), byte(x >> 40), byte(x >> 32), byte(x >> 24), byte(x >> 16), byte(x >> 8), byte(x)}
					kv[string(key)] = b
					ops = append(ops, fmt.Sprintf("LSet %s %s", coqB(key), coqB(b)))
				} else {
					v := rng.Bytes(8 + rng.Intn(3))
					if rng.Intn(4) == 0 {
						v = []byte{} // a setting with an empty value is still a setting
					}
					st.Set(key, v)
					kv[string(key)] = v
					ops = append(ops, fmt.Sprintf("LSet %s %s", coqB(key), coqB(v)))
				}
			case r < 19:
				key := []byte{byte('a' + rng.Intn(4))}
				v, err := st.Get(key)
				want, ok := kv[string(key)]
				obs := "None"
				if err == nil {
					obs = "(Some " + coqB(v) + ")"
					if !ok || !bytes.Equal(v, want) {
						fail("kv-get", fmt.Sprintf("Get(%q) = %x, last set %x", key, v, want))
					}
					var x uint64
					var err2 error
					if len(want) >= 8 {
						x, err2 = st.GetUint64(key)
					}
					if len(want) < 8 {
						// not a number: only the bytes are specified
					} else if err2 != nil || x != uint64(want[0])<<56|uint64(want[1])<<48|uint64(want[2])<<40|uint64(want[3])<<32|uint64(want[4])<<24|uint64(want[5])<<16|uint64(want[6])<<8|uint64(want[7]) {
						fail("kv-get-uint64", fmt.Sprintf("GetUint64(%q) = %d (%v), stored bytes %x", key, x, err2, want))
					}
				} else if ok {
					fail("kv-get", fmt.Sprintf("Get(%q) failed: %v", key, err))
				}
				ops = append(ops, fmt.Sprintf("LKey %s %s", coqB(key), obs))
			default:
				st.Close()
				st, err = consensus.VOpenRaftLog(dir)
				if err != nil {
					panic(err)
				}
				ops = append(ops, "LReopen")
				hist = append(hist, "Reopen")
			}
		}
		st.Close()
		out.Sample(map[string]interface{}{"case": ci, "ops": hist})
		cases = append(cases, cq.List(ops))
	}
	f, _ := os.Create(out.Dir + "/cases.v")
	fmt.Fprintf(f, "From Coq Require Import List NArith.\nFrom QV Require Import Store.RaftLog Run.RaftLogRun.\nImport ListNotations.\nOpen Scope N_scope.\n")
	fmt.Fprintf(f, "Definition cases : list (list lop) := %s.\n", cq.List(cases))
	fmt.Fprintf(f, "Definition R := Eval vm_compute in run_raftlog_cases cases.\nPrint R.\n")
	f.Close()
	_ = time.Second
}

// raftlogScripted: two fixed operation sequences the random generator rarely produces.
func raftlogScripted(out *cq.Out, seed uint64) {
	// (1) one StoreLogs call of raft's maximum 64 entries carrying large commands (several MiB in one write)
	{
		dir, _ := os.MkdirTemp(out.Dir, "raftlogbig")
		st, err := consensus.VOpenRaftLog(dir)
		if err != nil {
			panic(err)
		}
		var ls []*raft.Log
		for i := uint64(1); i <= 3; i++ {
			ls = append(ls, &raft.Log{Index: i, Term: 1, Type: raft.LogCommand, Data: []byte{byte(i)}})
		}
		st.StoreLogs(ls)
		ls = nil
		for i := uint64(4); i <= 67; i++ {
			d := make([]byte, 128*1024)
			for x := range d {
				d[x] = byte(uint64(x) * i)
			}
			ls = append(ls, &raft.Log{Index: i, Term: 2, Type: raft.LogCommand, Data: d})
		}
		err = st.StoreLogs(ls)
		check := func(when string) {
			last, _ := st.LastIndex()
			missing := 0
			for _, l := range ls {
				var got raft.Log
				if e := st.GetLog(l.Index, &got); e != nil || !bytes.Equal(got.Data, l.Data) || got.Term != l.Term {
					missing++
				}
			}
			if err != nil || last != 67 || missing > 0 {
				out.Violate("C15:large-append-lost", fmt.Sprintf("StoreLogs of 64 entries of 128 KiB returned %v; %s LastIndex = %d (want 67) and %d of the 64 entries cannot be read back", err, when, last, missing),
					map[string]interface{}{"seed": seed, "scenario": "large-append"})
			}
		}
		check("right afterwards")
		st.Close()
		st, _ = consensus.VOpenRaftLog(dir)
		check("after a reopen")
		st.Close()
		os.RemoveAll(dir)
		out.Case("scripted:large-append", true)
	}
	// (2) an index stored, flushed by a reopen, stored again (a new leader overwrites a conflicting suffix), then
	// truncated with DeleteRange ending exactly there, and reopened: it must stay deleted
	{
		dir, _ := os.MkdirTemp(out.Dir, "raftlogres")
		st, err := consensus.VOpenRaftLog(dir)
		if err != nil {
			panic(err)
		}
		for i := uint64(1); i <= 5; i++ {
			st.StoreLog(&raft.Log{Index: i, Term: 1, Type: raft.LogCommand, Data: []byte(fmt.Sprintf("A%d", i))})
		}
		st.Close()
		st, _ = consensus.VOpenRaftLog(dir)
		st.StoreLog(&raft.Log{Index: 4, Term: 2, Type: raft.LogCommand, Data: []byte("B4")})
		st.StoreLog(&raft.Log{Index: 5, Term: 2, Type: raft.LogCommand, Data: []byte("B5")})
		st.DeleteRange(4, 5)
		for round := 0; round < 3; round++ {
			last, _ := st.LastIndex()
			var g4, g5 raft.Log
			e4, e5 := st.GetLog(4, &g4), st.GetLog(5, &g5)
			if last != 3 || e4 == nil || e5 == nil {
				out.Violate("C15:deleted-entry-resurrects", fmt.Sprintf("entries 4 and 5 were stored, flushed, stored again and removed with DeleteRange(4,5); after %d reopen(s) LastIndex = %d (want 3), GetLog(4) err=%v, GetLog(5) err=%v data=%q", round, last, e4, e5, g5.Data),
					map[string]interface{}{"seed": seed, "scenario": "store-flush-store-delete-reopen", "reopens": round})
				break
			}
			st.Close()
			st, _ = consensus.VOpenRaftLog(dir)
		}
		st.Close()
		os.RemoveAll(dir)
		out.Case("scripted:resurrect", true)
	}
	// (3) raft calls the store from several goroutines at once (the leader's loop appends while each follower's replication
	// goroutine and the snapshot goroutine read): six readers while 6 000 entries are appended in batches of 1-4; every read
	// of a stored index returns that index's entry, and afterwards - and after a reopen - every index holds its own entry
	{
		dir, _ := os.MkdirTemp(out.Dir, "raftlogconc")
		st, err := consensus.VOpenRaftLog(dir)
		if err != nil {
			panic(err)
		}
		const total = 6000
		payload := func(i uint64) []byte {
			return []byte(fmt.Sprintf("entry-%d-%d", i, i*2654435761))
		}
		var stored uint64 // highest index whose StoreLogs call has returned
		var wrongReads, failedReads, reads int64
		firstBad := ""
		var fmu sync.Mutex
		var wg sync.WaitGroup
		stop := make(chan struct{})
		for g := 0; g < 6; g++ {
			wg.Add(1)
			go func(g int) {
				defer wg.Done()
				x := uint64(g*7919 + 1)
				for {
					select {
					case <-stop:
						return
					default:
					}
					hi := atomic.LoadUint64(&stored)
					if hi == 0 {
						continue
					}
					x = x*6364136223846793005 + 1442695040888963407
					idx := 1 + (x>>33)%hi
					var l raft.Log
					err := st.GetLog(idx, &l)
					atomic.AddInt64(&reads, 1)
					if err != nil {
						atomic.AddInt64(&failedReads, 1)
						fmu.Lock()
						if firstBad == "" {
							firstBad = fmt.Sprintf("GetLog(%d) = %v although StoreLogs of it had returned", idx, err)
						}
						fmu.Unlock()
					} else if l.Index != idx || !bytes.Equal(l.Data, payload(idx)) {
						atomic.AddInt64(&wrongReads, 1)
						fmu.Lock()
						if firstBad == "" {
							firstBad = fmt.Sprintf("GetLog(%d) returned the entry of index %d (%q)", idx, l.Index, l.Data)
						}
						fmu.Unlock()
					}
				}
			}(g)
		}
		storeErr := ""
		for i := uint64(1); i <= total; {
			n := 1 + (i*2654435761>>7)%4
			var ls []*raft.Log
			for k := uint64(0); k < n && i+k <= total; k++ {
				ls = append(ls, &raft.Log{Index: i + k, Term: 1 + (i+k)/1000, Type: raft.LogCommand, Data: payload(i + k)})
			}
			var err error
			if len(ls) == 1 {
				err = st.StoreLog(ls[0])
			} else {
				err = st.StoreLogs(ls)
			}
			if err != nil && storeErr == "" {
				storeErr = err.Error()
			}
			i += uint64(len(ls))
			atomic.StoreUint64(&stored, i-1)
		}
		close(stop)
		wg.Wait()
		check := func(when string) (missing, foreign int, first string) {
			for i := uint64(1); i <= total; i++ {
				var l raft.Log
				if err := st.GetLog(i, &l); err != nil {
					missing++
					if first == "" {
						first = fmt.Sprintf("%s: index %d: %v", when, i, err)
					}
				} else if l.Index != i || !bytes.Equal(l.Data, payload(i)) || l.Term != 1+i/1000 {
					foreign++
					if first == "" {
						first = fmt.Sprintf("%s: index %d holds the entry of index %d", when, i, l.Index)
					}
				}
			}
			return
		}
		m1, f1, w1 := check("after the concurrent phase")
		fi, _ := st.FirstIndex()
		la, _ := st.LastIndex()
		st.Close()
		st, _ = consensus.VOpenRaftLog(dir)
		m2, f2, w2 := check("after a reopen")
		st.Close()
		os.RemoveAll(dir)
		out.Case("scripted:concurrent-readers-and-appender", true)
		out.Count("raftlog_concurrent_reads", int(reads))
		if wrongReads > 0 || failedReads > 0 || m1+f1+m2+f2 > 0 || fi != 1 || la != total || storeErr != "" {
			if firstBad == "" {
				firstBad = w1 + w2
			}
			out.Violate("C15:concurrent-use", fmt.Sprintf("six readers while %d entries were appended in batches of 1-4: %d of %d reads returned another index's entry, %d reads of a stored index failed; afterwards %d indexes have no entry and %d hold another index's entry (%d / %d after a reopen); FirstIndex=%d LastIndex=%d store error %q (first: %.200s)",
				total, wrongReads, reads, failedReads, m1, f1, m2, f2, fi, la, storeErr, firstBad), map[string]interface{}{"seed": seed, "scenario": "concurrent-readers-and-appender", "entries": total, "readers": 6})
		}
	}
}
