package main

import "qedverif/cq"

func dispatch13(cmd string, out *cq.Out, seed uint64, tier, arg string) bool {
	switch cmd {
	case "redirect":
		redirectCmd(out, seed, tier)
		return true
	}
	return dispatch14(cmd, out, seed, tier, arg)
}
