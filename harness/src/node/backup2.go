package main

import (
	"fmt"
	"os"
	"strconv"
	"sync"
	"time"

	"github.com/bbva/qed/balloon"
	"github.com/bbva/qed/consensus"
	"github.com/bbva/qed/crypto/hashing"
	"github.com/bbva/qed/protocol"
	"github.com/bbva/qed/storage"
	"github.com/bbva/qed/storage/rocks"
	"qedverif/cq"
	"sync/atomic"
)

// ---- C16, two further scenarios.
// (a) backups taken while insertions are in flight: whatever version a backup records, it must restore to exactly
//
//	that many events (recorded v  =>  v+1 events).
//
// (b) a restored directory is given to a real node with a fresh raft log (the documented restore flow): the next
//
//	event must be accepted and receive version v+1.
//
// lateBackupStore: the store's Backup call first waits (up to 150 ms) for one more write to be persisted, then copies. A
// backup that still holds the node's apply lock across the copy sees no write in that time; one that has let go of it
// copies a store that has moved on from the version it recorded. (The window between "version read" and "files copied" is
// otherwise well under a millisecond.)
type lateBackupStore struct {
	storage.ManagedStore
	writes int64
}

func (l *lateBackupStore) Mutate(m []*storage.Mutation, meta []byte) error {
	err := l.ManagedStore.Mutate(m, meta)
	atomic.AddInt64(&l.writes, 1)
	return err
}

func (l *lateBackupStore) Backup(metadata string) error {
	w0 := atomic.LoadInt64(&l.writes)
	for t := 0; t < 150 && atomic.LoadInt64(&l.writes) == w0; t++ {
		time.Sleep(time.Millisecond)
	}
	return l.ManagedStore.Backup(metadata)
}

func backupLiveCmd(out *cq.Out, seed uint64, tier string) {
	rng := cq.NewRng(seed)
	rounds := 1
	if tier == "thorough" {
		rounds = 4
	}
	for r := 0; r < rounds; r++ {
		dir, _ := os.MkdirTemp(out.Dir, "bkl")
		port := freePorts(1)[0]
		n, _, err := startNode(nodeOpts{id: 0, name: "bkl", dir: dir, raftPort: port, bootstrap: true, snapThr: 8192, trailing: 10240, store: &lateBackupStore{ManagedStore: openRocks(dir + "/db")}})
		if err != nil || !waitLeader(n) {
			out.Count("backup_skipped_infrastructure", 1)
			continue
		}
		desc := map[string]interface{}{"seed": seed, "round": r}
		out.Note(desc)
		var mu sync.Mutex
		snaps := map[uint64]*balloon.Snapshot{} // by version: four clients insert at the same time
		events := map[uint64][]byte{}
		stop := make(chan struct{})
		var wg sync.WaitGroup
		for g := 0; g < 4; g++ {
			wg.Add(1)
			go func(g int) {
				defer wg.Done()
				for i := 0; ; i++ {
					select {
					case <-stop:
						return
					default:
					}
					k := 1 + (i+g)%7
					var evs [][]byte
					for j := 0; j < k; j++ {
						evs = append(evs, []byte(fmt.Sprintf("live%d-%d-%d-%d", r, g, i, j)))
					}
					s, err := n.AddBulk(evs)
					if err != nil {
						return
					}
					mu.Lock()
					for j, sn := range s {
						snaps[sn.Version] = sn
						events[sn.Version] = evs[j]
					}
					mu.Unlock()
				}
			}(g)
		}
		nb := 12
		for b := 0; b < nb; b++ {
			time.Sleep(time.Duration(1+rng.Intn(8)) * time.Millisecond)
			if err := n.CreateBackup(); err != nil {
				out.Violate("C16:backup-failed", "CreateBackup while insertions are in flight: "+err.Error(), desc)
			}
		}
		close(stop)
		wg.Wait()
		st := n.VStore()
		bad := 0
		first := ""
		for _, bi := range n.ListBackups() {
			rec, perr := strconv.ParseUint(bi.Metadata, 10, 64)
			rdir, _ := os.MkdirTemp(out.Dir, "restoredl")
			if err := st.RestoreFromBackup(uint32(bi.ID), rdir, rdir); err != nil {
				out.Violate("C16:restore-failed", err.Error(), desc)
				continue
			}
			rs, err := rocks.NewRocksDBStore(rdir, 0)
			if err != nil {
				out.Violate("C16:restored-store-does-not-open", err.Error(), desc)
				continue
			}
			ch := make(chan *protocol.Snapshot, 64)
			drain(ch)
			rn, err := consensus.VNewFSM(rs, ch)
			if err != nil {
				out.Violate("C16:restored-node-does-not-open", err.Error(), desc)
				continue
			}
			have := rn.VBalloonVersion()
			if perr != nil || have != rec+1 {
				bad++
				if first == "" {
					first = fmt.Sprintf("backup %d records version %s and restores to a log of %d events", bi.ID, bi.Metadata, have)
				}
			} else if have > 0 {
				// the newest event of the restored log proves membership against the snapshot originally issued for it
				mu.Lock()
				d := hashing.NewSha256Hasher().Do(events[rec])
				sn := snaps[rec]
				mu.Unlock()
				ok := false
				cq.Catch(func() {
					p, err := rn.VBalloon().QueryDigestMembershipConsistency(d, rec)
					ok = err == nil && p.Exists && p.DigestVerify(d, &balloon.Snapshot{HistoryDigest: sn.HistoryDigest, HyperDigest: sn.HyperDigest})
				})
				if !ok {
					out.Violate("C16:restored-proof-does-not-verify", fmt.Sprintf("the newest event (version %d) of the log restored from backup %d is not provable against the snapshot originally issued for it", rec, bi.ID), desc)
				}
			}
			out.Case(fmt.Sprintf("livebackup:%d:%d", r, bi.ID), true)
			rn.VCloseFSM()
			os.RemoveAll(rdir)
		}
		if bad > 0 {
			out.Violate("C16:wrong-version-after-restore:taken-during-insertions", fmt.Sprintf("%d of %d backups taken while insertions were in flight restore to a log that is not the recorded version + 1 events long; first: %s", bad, nb, first), desc)
		}
		out.Count("live_backups", nb)

		// (b) the restored directory under a real node with a fresh raft log
		infos := n.ListBackups()
		if len(infos) > 0 {
			bi := infos[len(infos)-1]
			rec, _ := strconv.ParseUint(bi.Metadata, 10, 64)
			ndir, _ := os.MkdirTemp(out.Dir, "restorednode")
			if err := st.RestoreFromBackup(uint32(bi.ID), ndir+"/db", ndir+"/db"); err == nil {
				n2, _, err := startNode(nodeOpts{id: 0, name: "bkr", dir: ndir, raftPort: freePorts(1)[0], bootstrap: true, snapThr: 8192, trailing: 10240})
				if err != nil || !waitLeader(n2) {
					out.Count("backup_skipped_infrastructure", 1)
				} else {
					have := n2.VBalloonVersion()
					s, err := n2.AddBulk([][]byte{[]byte(fmt.Sprintf("after-restore-%d", r))})
					switch {
					case err != nil:
						out.Violate("C16:next-version-after-restore:node-refuses-insertion", fmt.Sprintf("a node started on the directory restored from the backup of version %d (it reports %d events) refuses the next insertion: %v", rec, have, err), desc)
					case len(s) != 1 || s[0].Version != have:
						out.Violate("C16:next-version-after-restore", fmt.Sprintf("on a node started on the restored directory (%d events) the next insertion received version %d", have, s[0].Version), desc)
					}
					out.Case(fmt.Sprintf("restorednode:%d", r), true)
					n2.Close(true)
				}
			}
			os.RemoveAll(ndir)
		}
		n.Close(true)
		os.RemoveAll(dir)
	}
}
