package main

import (
	"bytes"
	"fmt"
	"io"
	"os"
	"strings"
	"sync"
	"time"

	"github.com/bbva/qed/balloon"
	"github.com/bbva/qed/consensus"
	"github.com/bbva/qed/crypto/hashing"
	"github.com/bbva/qed/storage"
	"github.com/hashicorp/raft"
	"qedverif/cq"
)

// ---- real 3-node raft clusters: C05 (dense versions), C06 (replicas agree), C09 (state transfer)

type cluster struct {
	dir     string
	ports   []int
	nodes   []*consensus.RaftNode
	snapThr uint64
	trail   uint64
	acked   []*balloon.Snapshot // by version, as returned by the leader
	events  [][]byte
	indet   bool                                                    // a proposal ended with an error that does not tell whether it was committed
	wrap    map[int]func(storage.ManagedStore) storage.ManagedStore // optional store wrapper per node (fault injection)
}

// failLoadStore: the first LoadSnapshot fails after consuming part of the stream (a connection that drops
// mid-transfer); nothing of it is applied.
type failLoadStore struct {
	storage.ManagedStore
	mu     sync.Mutex
	failed int
	loads  int
}

func (f *failLoadStore) LoadSnapshot(r io.ReadCloser) error {
	f.mu.Lock()
	f.loads++
	first := f.failed == 0
	if first {
		f.failed++
	}
	f.mu.Unlock()
	if first {
		buf := make([]byte, 64)
		r.Read(buf)
		return fmt.Errorf("injected: transfer stream broken")
	}
	return f.ManagedStore.LoadSnapshot(r)
}

func (c *cluster) start(i int, bootstrap bool) error {
	var seeds []string
	if !bootstrap {
		for j, n := range c.nodes {
			if n != nil && j != i {
				seeds = append(seeds, fmt.Sprintf("127.0.0.1:%d", c.ports[j]))
			}
		}
	}
	o := nodeOpts{id: i, name: "n", dir: fmt.Sprintf("%s/node%d", c.dir, i), raftPort: c.ports[i], bootstrap: bootstrap, seeds: seeds, snapThr: c.snapThr, trailing: c.trail}
	if w := c.wrap[i]; w != nil {
		o.store = w(openRocks(o.dir + "/db"))
	}
	n, _, err := startNode(o)
	if err != nil {
		return err
	}
	c.nodes[i] = n
	return nil
}

func newCluster(dir string, n int, snapThr, trail uint64) (*cluster, error) {
	c := &cluster{dir: dir, nodes: make([]*consensus.RaftNode, n), snapThr: snapThr, trail: trail}
	ps := freePorts(n)
	for _, p := range ps {
		c.ports = append(c.ports, p)
	}
	// ports +1/+2 are used for mgmt/http addresses (never bound here)
	// a failed attempt (port taken, no leader in time on a loaded machine) must not leave nodes - and their store locks - behind
	if err := c.start(0, true); err != nil {
		return nil, err
	}
	if !waitLeader(c.nodes[0]) {
		cq.Catch(c.stopAll)
		return nil, fmt.Errorf("no leader")
	}
	for i := 1; i < n; i++ {
		if err := c.start(i, false); err != nil {
			cq.Catch(c.stopAll)
			return nil, err
		}
	}
	return c, nil
}

func (c *cluster) leader() int {
	for t := 0; t < 200; t++ {
		for i, n := range c.nodes {
			if n != nil && n.IsLeader() {
				return i
			}
		}
		time.Sleep(50 * time.Millisecond)
	}
	return -1
}

func (c *cluster) stop(i int) {
	if c.nodes[i] != nil {
		c.nodes[i].Close(true)
		c.nodes[i] = nil
	}
}

func (c *cluster) stopAll() {
	for i := range c.nodes {
		c.stop(i)
	}
}

// add proposes a bulk through the leader and records the acknowledged snapshots.
func (c *cluster) add(evs [][]byte) ([]*balloon.Snapshot, error) {
	var last error
	for t := 0; t < 40; t++ {
		l := c.leader()
		if l < 0 {
			return nil, fmt.Errorf("no leader")
		}
		snaps, err := c.nodes[l].AddBulk(evs)
		if err == nil {
			for i, s := range snaps {
				c.acked = append(c.acked, s)
				c.events = append(c.events, evs[i])
			}
			return snaps, nil
		}
		last = err
		if err != raft.ErrNotLeader {
			// leadership lost / timeout: the entry may or may not be committed later; the harness can no longer tell which
			// version the next event gets, so the scenario stops adding here (only the acknowledged prefix is checked)
			c.indet = true
			return nil, err
		}
		time.Sleep(100 * time.Millisecond)
	}
	return nil, last
}

// quiesce waits until every live node has applied what the leader has applied.
// persisted: the node's durable state has caught up with its in-memory version counter (the counter advances when an
// insertion is computed, the fsm state when it has been written: between the two the node is not quiescent)
func persisted(n *consensus.RaftNode) bool {
	bv := n.VBalloonVersion()
	_, ver := n.VState()
	return bv == 0 || ver+1 == bv
}

func (c *cluster) quiesce() bool {
	want := uint64(len(c.acked))
	stable := 0
	// up to 90 s: a state transfer whose first stream broke is retried by raft after a back-off, and the machine may be loaded
	for t := 0; t < 1800; t++ {
		ok := true
		for _, n := range c.nodes {
			if n != nil && !persisted(n) {
				ok = false
			}
		}
		if c.indet {
			// all live nodes at the same version >= the acknowledged one, unchanged for a second
			var vs []uint64
			for _, n := range c.nodes {
				if n != nil {
					vs = append(vs, n.VBalloonVersion())
				}
			}
			for _, x := range vs {
				if x != vs[0] || x < want {
					ok = false
				}
			}
			if ok {
				stable++
			} else {
				stable = 0
			}
			ok = stable >= 20
		} else {
			for _, n := range c.nodes {
				if n != nil && n.VBalloonVersion() != want {
					ok = false
				}
			}
		}
		if ok {
			time.Sleep(50 * time.Millisecond)
			return true
		}
		time.Sleep(50 * time.Millisecond)
	}
	return false
}

func (c *cluster) versions() string {
	var vs []string
	for i, n := range c.nodes {
		if n != nil {
			idx, ver := n.VState()
			vs = append(vs, fmt.Sprintf("%d:(index %d, fsm version %d, balloon %d, leader=%v)", i, idx, ver, n.VBalloonVersion(), n.IsLeader()))
		}
	}
	return fmt.Sprintf("acknowledged %d events; nodes %v", len(c.acked), vs)
}

// checkReplicas: same state, same tables, proofs of every replica verify against the leader's snapshots.
func (c *cluster) checkReplicas(out *cq.Out, rng *cq.Rng, prefix string, desc map[string]interface{}) {
	if len(c.acked) == 0 {
		return
	}
	// a replica that was brought up by state transfer and then differs from the others breaks the transfer property (C09)
	// and the agreement of replicas (C06) alike: the finding is filed under both
	ids := []string{prefix}
	if prefix == "C09" {
		ids = append(ids, "C06")
	}
	violate := func(sig, what string) {
		for _, id := range ids {
			out.Violate(id+sig, what, desc)
		}
	}
	var fps []string
	var states []string
	for i, n := range c.nodes {
		if n == nil {
			continue
		}
		idx, ver := n.VState()
		states = append(states, fmt.Sprintf("%d:(%d,%d,%d)", i, idx, ver, n.VBalloonVersion()))
		fps = append(fps, tablesFP(n.VStore()))
	}
	for i := 1; i < len(fps); i++ {
		if fps[i] != fps[0] {
			violate(":replica-tables-differ", fmt.Sprintf("at a quiescent point the stored tables of the replicas differ (states %v)", states))
			break
		}
	}
	if c.indet {
		// the log may hold entries the harness has no snapshot for: the hyper digest of the current version is unknown
		out.Count("replica_checks_tables_only", 1)
		return
	}
	cur := uint64(len(c.acked) - 1)
	for i, n := range c.nodes {
		if n == nil {
			continue
		}
		for t := 0; t < 4; t++ {
			k := uint64(rng.Intn(len(c.acked)))
			q := k + uint64(rng.Intn(int(cur-k)+1))
			d := hashing.NewSha256Hasher().Do(c.events[k])
			var p *balloon.MembershipProof
			var err error
			panicked, msg := cq.Catch(func() { p, err = n.QueryDigestMembershipConsistency(d, q) })
			if panicked || err != nil || !p.Exists || !p.DigestVerify(d, &balloon.Snapshot{HistoryDigest: c.acked[q].HistoryDigest, HyperDigest: c.acked[cur].HyperDigest}) {
				ex := false
				if p != nil {
					ex = p.Exists
				}
				violate(":replica-proof-does-not-verify", fmt.Sprintf("the membership proof served by node %d for event %d at version %d does not verify against the leader's snapshots (panic=%v %s err=%v exists=%v; states %v)", i, k, q, panicked, msg, err, ex, states))
				break
			}
			s := uint64(rng.Intn(int(q) + 1))
			var ip *balloon.IncrementalProof
			okc := false
			pc, pmsg := cq.Catch(func() {
				ip, err = n.QueryConsistency(s, q)
				okc = err == nil && ip.Verify(c.acked[s], c.acked[q])
			})
			if pc {
				err = fmt.Errorf("panic: %s", pmsg)
			}
			if !okc {
				violate(":replica-consistency-proof-does-not-verify", fmt.Sprintf("the incremental proof (%d,%d) served by node %d does not verify against the leader's snapshots (err=%v)", s, q, i, err))
				break
			}
			out.Case(fmt.Sprintf("%s:proof:%d:%d:%d", prefix, i, k, q), k < q)
		}
		// a replica serves many clients at once: eight of them ask this replica for proofs of older events at later versions at
		// the same time; every proof must verify against the leader's snapshots (once per replica and quiescent point)
		if len(c.acked) >= 8 {
			var wg sync.WaitGroup
			var bmu sync.Mutex
			bad, asked := 0, 0
			first := ""
			for g := 0; g < 8; g++ {
				wg.Add(1)
				go func(g int) {
					defer wg.Done()
					for t := 0; t < 60; t++ {
						k := uint64((g*31 + t*7) % (len(c.acked) - 1))
						q := k + 1 + uint64((g+t)%int(cur-k))
						d := hashing.NewSha256Hasher().Do(c.events[k])
						ok := false
						what := ""
						pn, msg := cq.Catch(func() {
							p, err := n.QueryDigestMembershipConsistency(d, q)
							if err != nil || p == nil {
								what = fmt.Sprintf("error %v", err)
								return
							}
							ok = p.Exists && p.DigestVerify(d, &balloon.Snapshot{HistoryDigest: c.acked[q].HistoryDigest, HyperDigest: c.acked[cur].HyperDigest})
						})
						if pn {
							what = "panic: " + msg
						}
						bmu.Lock()
						asked++
						if !ok {
							bad++
							if first == "" {
								first = fmt.Sprintf("event %d at version %d: %.150s", k, q, what)
							}
						}
						bmu.Unlock()
					}
				}(g)
			}
			wg.Wait()
			out.Count("replica_concurrent_queries", asked)
			if bad > 0 {
				violate(":replica-proof-does-not-verify:concurrent-clients", fmt.Sprintf("eight clients asked node %d for membership proofs at the same time: %d of %d proofs do not verify against the leader's snapshots (first: %s); one at a time they verify", i, bad, asked, first))
			}
		}
		// the current version reported equals accepted - 1
		d := hashing.NewSha256Hasher().Do(c.events[0])
		pq, qmsg := cq.Catch(func() {
			if p, err := n.QueryDigestMembership(d); err == nil && p.CurrentVersion != cur && !c.indet {
				violate(":current-version", fmt.Sprintf("node %d reports current version %d, %d events were accepted", i, p.CurrentVersion, len(c.acked)))
			}
		})
		if pq {
			violate(":query-panic", fmt.Sprintf("a membership query on node %d panicked: %.200s (states %v)", i, qmsg, states))
		}
	}
}

func (c *cluster) checkDense(out *cq.Out, snaps []*balloon.Snapshot, evs [][]byte, before int, desc map[string]interface{}) {
	for i, s := range snaps {
		if s.Version != uint64(before+i) || !bytes.Equal(s.EventDigest, hashing.NewSha256Hasher().Do(evs[i])) {
			out.Violate("C05:version-not-dense", fmt.Sprintf("acknowledged insertion %d received version %d (digest ok=%v)", before+i, s.Version, bytes.Equal(s.EventDigest, hashing.NewSha256Hasher().Do(evs[i]))), desc)
		}
	}
}

func clusterCmd(out *cq.Out, seed uint64, tier string) {
	rng := cq.NewRng(seed)
	scenarios := 6
	steps := 20
	if tier == "thorough" {
		scenarios, steps = 30, 40
	}
	for sc := 0; sc < scenarios; sc++ {
		dir, _ := os.MkdirTemp(out.Dir, "cl")
		var c *cluster
		var err error
		for attempt := 0; attempt < 3 && c == nil; attempt++ {
			c, err = newCluster(dir, 3, 8192, 10240)
			if err != nil {
				c = nil
				os.RemoveAll(dir)
				os.MkdirAll(dir, 0755)
			}
		}
		if c == nil {
			out.Count("cluster_skipped_infrastructure", 1)
			continue
		}
		var hist []string
		desc := map[string]interface{}{"seed": seed, "scenario": sc, "history": &hist}
		ev := 0
		mk := func(k int) [][]byte {
			var evs [][]byte
			for j := 0; j < k; j++ {
				evs = append(evs, []byte(fmt.Sprintf("s%d-e%d", sc, ev)))
				ev++
			}
			return evs
		}
		down := -1
		if sc%3 == 0 {
			// a large log first (more than 1000 events: the hyper cache table of a restarting follower spans several
			// reader pages), then a follower restart and a check
			for i := 0; i < 5 && !c.indet; i++ {
				evs := mk(220 + rng.Intn(40))
				before := len(c.acked)
				if snaps, err := c.add(evs); err == nil {
					c.checkDense(out, snaps[:3], evs[:3], before, desc)
				}
			}
			hist = append(hist, fmt.Sprintf("large log: %d events", len(c.acked)))
			if !c.indet {
				l := c.leader()
				f := (l + 1) % 3
				c.stop(f)
				c.add(mk(2))
				if err := c.start(f, false); err == nil {
					hist = append(hist, fmt.Sprintf("stop follower %d, add 2, restart it", f))
					if c.quiesce() {
						c.checkReplicas(out, rng, "C06", desc)
						hist = append(hist, "check")
					} else {
						out.Violate("C06:no-quiescence", "after a follower restart on a large log the replicas did not converge within 90 s: "+c.versions(), desc)
					}
				}
			}
		}
		if sc%3 == 1 {
			// the boundary: a follower restarts when the log holds exactly one event (version 0 is also the zero value)
			before := len(c.acked)
			evs := mk(1)
			if snaps, err := c.add(evs); err == nil {
				c.checkDense(out, snaps, evs, before, desc)
				c.quiesce()
				l := c.leader()
				f := (l + 1) % 3
				c.stop(f)
				if err := c.start(f, false); err == nil {
					hist = append(hist, fmt.Sprintf("add 1, restart follower %d", f))
					if c.quiesce() {
						c.checkReplicas(out, rng, "C06", desc)
						hist = append(hist, "check")
					} else {
						out.Violate("C06:no-quiescence", "after a follower restart on a one-event log the replicas did not converge within 90 s: "+c.versions(), desc)
					}
				}
			}
		}
		for st := 0; st < steps && !c.indet; st++ {
			out.Note(desc)
			switch r := rng.Intn(10); {
			case r < 5:
				k := 1
				if rng.Intn(2) == 0 {
					k = 1 + rng.Intn(5)
				}
				evs := mk(k)
				before := len(c.acked)
				snaps, err := c.add(evs)
				if err != nil {
					hist = append(hist, "add failed: "+err.Error())
					ev -= k
					if c.indet {
						out.Count("cluster_indeterminate_add", 1)
						st = steps
					}
					continue
				}
				c.checkDense(out, snaps, evs, before, desc)
				hist = append(hist, fmt.Sprintf("add %d", k))
			case r < 6 && down < 0:
				l := c.leader()
				f := (l + 1 + rng.Intn(2)) % 3
				c.stop(f)
				down = f
				hist = append(hist, fmt.Sprintf("stop follower %d", f))
			case r < 8 && down >= 0:
				if err := c.start(down, false); err != nil {
					hist = append(hist, "restart failed: "+err.Error())
					continue
				}
				hist = append(hist, fmt.Sprintf("restart follower %d", down))
				down = -1
			case r < 9 && down < 0:
				l := c.leader()
				if l >= 0 {
					if err := c.nodes[l].VLeaveLeadership(); err == nil {
						hist = append(hist, fmt.Sprintf("leadership transfer from %d", l))
						// let the hand-over settle (the old leader steps down, another one is elected)
						for w := 0; w < 100; w++ {
							settled := !c.nodes[l].IsLeader()
							other := false
							for j, m := range c.nodes {
								if j != l && m != nil && m.IsLeader() {
									other = true
								}
							}
							if settled && other {
								break
							}
							time.Sleep(50 * time.Millisecond)
						}
					}
				}
			default:
				if c.quiesce() {
					c.checkReplicas(out, rng, "C06", desc)
					hist = append(hist, "check")
				} else {
					out.Violate("C06:no-quiescence", "the live replicas did not converge to the leader's version within 90 s: "+c.versions(), desc)
				}
			}
		}
		if down >= 0 {
			c.start(down, false)
			hist = append(hist, fmt.Sprintf("restart follower %d", down))
		}
		if c.quiesce() {
			c.checkReplicas(out, rng, "C06", desc)
		} else {
			out.Violate("C06:no-quiescence", "the replicas did not converge to the leader's version within 90 s at the end of the scenario: "+c.versions(), desc)
		}
		out.Count("cluster_scenarios", 1)
		out.Count("cluster_events", len(c.acked))
		out.Sample(map[string]interface{}{"scenario": sc, "history": hist, "events": len(c.acked)})
		c.stopAll()
		os.RemoveAll(dir)
	}
	concurrentProposers(out, seed, tier)
}

// concurrentProposers: many clients insert at the same time through RaftNode.Add/AddBulk of one leader (what the
// API handlers do, one goroutine per request).  Every acknowledged snapshot must carry the digest of its own event,
// the versions handed out must be 0..total-1 with none repeated or skipped, and the log must afterwards report
// each event at exactly the version that was acknowledged.
func concurrentProposers(out *cq.Out, seed uint64, tier string) {
	dir, _ := os.MkdirTemp(out.Dir, "prop")
	defer os.RemoveAll(dir)
	ports := freePorts(1)
	n, _, err := startNode(nodeOpts{id: 0, name: "prop", dir: dir, raftPort: ports[0], bootstrap: true, snapThr: 8192, trailing: 10240})
	if err != nil || !waitLeader(n) {
		out.Count("proposers_skipped_infrastructure", 1)
		if n != nil {
			n.Close(true)
		}
		return
	}
	G, B, K, size := 12, 6, 12, 64*1024
	if tier == "thorough" {
		G, B = 12, 12
	}
	type ack struct {
		evs   [][]byte
		snaps []*balloon.Snapshot
		err   error
	}
	acks := make([][]ack, G)
	// rounds: in each one all clients call at the same instant (their pre-raft work overlaps for certain)
	for b := 0; b < B; b++ {
		var wg sync.WaitGroup
		start := make(chan struct{})
		var mu sync.Mutex
		for g := 0; g < G; g++ {
			wg.Add(1)
			go func(g int) {
				defer wg.Done()
				var evs [][]byte
				k := K
				if (b+g)%4 == 3 {
					k = 1
				}
				esize := size
				if g == 0 && b%2 == 1 {
					k, esize = 1300, 40 // a large bulk of small events, while the other clients insert
				}
				for j := 0; j < k; j++ {
					e := make([]byte, esize+g*37+j%13+b) // different lengths, not multiples of the hash block
					copy(e, []byte(fmt.Sprintf("proposer %d bulk %d event %d seed %d", g, b, j, seed)))
					if k == 1300 {
						copy(e, []byte(fmt.Sprintf("big %d %d %d %d", g, b, j, seed)))
					}
					for x := 64; x < len(e); x += 61 {
						e[x] = byte(x*(g+1) + b + j)
					}
					evs = append(evs, e)
				}
				<-start
				var snaps []*balloon.Snapshot
				var err error
				if p, msg := cq.Catch(func() {
					if k == 1 {
						var s1 *balloon.Snapshot
						s1, err = n.Add(evs[0])
						snaps = []*balloon.Snapshot{s1}
					} else {
						snaps, err = n.AddBulk(evs)
					}
				}); p {
					err = fmt.Errorf("panic: %s", msg)
				}
				mu.Lock()
				if err != nil && strings.HasPrefix(err.Error(), "panic: ") {
					out.Violate("C05:insertion-panics-under-concurrent-clients", fmt.Sprintf("RaftNode.Add/AddBulk panicked while %d clients insert at the same time: %.200s", G, err), map[string]interface{}{"seed": seed, "scenario": "concurrent-proposers", "goroutines": G})
				}
				acks[g] = append(acks[g], ack{evs, snaps, err})
				mu.Unlock()
			}(g)
		}
		close(start)
		wg.Wait()
	}
	desc := map[string]interface{}{"seed": seed, "scenario": "concurrent-proposers", "goroutines": G, "calls_each": B, "bulk": K, "event_bytes": size}
	seen := map[uint64]string{}
	total := 0
	for g := range acks {
		for b, a := range acks[g] {
			if a.err != nil {
				out.Count("proposers_call_errors", 1)
				continue
			}
			// one call = one replicated entry: its events receive consecutive versions in the order they were given
			for i, s := range a.snaps {
				if s != nil && a.snaps[0] != nil && s.Version != a.snaps[0].Version+uint64(i) {
					out.Violate("C05:bulk-versions-not-consecutive", fmt.Sprintf("a bulk of %d events inserted while other clients insert was acknowledged with versions %d.. for its first event and %d for its event number %d (expected %d)", len(a.snaps), a.snaps[0].Version, s.Version, i, a.snaps[0].Version+uint64(i)), desc)
					break
				}
			}
			for i, s := range a.snaps {
				total++
				id := fmt.Sprintf("proposer %d call %d event %d", g, b, i)
				want := hashing.NewSha256Hasher().Do(a.evs[i])
				if s == nil || !bytes.Equal(s.EventDigest, want) {
					out.Violate("C05:acknowledged-with-wrong-digest", fmt.Sprintf("%s (one of %d concurrent clients) was acknowledged with a snapshot whose EventDigest is not the digest of the event sent", id, G), desc)
					continue
				}
				if prev, dup := seen[s.Version]; dup {
					out.Violate("C05:version-issued-twice", fmt.Sprintf("version %d was acknowledged for %s and for %s", s.Version, prev, id), desc)
				}
				seen[s.Version] = id
				p, err := n.QueryDigestMembership(want)
				if err != nil || !p.Exists || p.ActualVersion != s.Version {
					out.Violate("C05:acknowledged-version-not-in-log", fmt.Sprintf("%s was acknowledged with version %d; the log now answers exists=%v version=%v (err=%v)", id, s.Version, p != nil && p.Exists, func() interface{} {
						if p == nil {
							return nil
						}
						return p.ActualVersion
					}(), err), desc)
				}
			}
		}
	}
	for v := uint64(0); v < uint64(total); v++ {
		if _, ok := seen[v]; !ok && len(seen) == total {
			out.Violate("C05:version-not-dense:concurrent", fmt.Sprintf("%d insertions were acknowledged by one leader but version %d was given to none of them", total, v), desc)
			break
		}
	}
	out.Count("proposers_events", total)
	out.Case("proposers", true)
	out.Sample(map[string]interface{}{"scenario": "concurrent-proposers", "events": total, "goroutines": G})
	n.Close(true)
}
