package main

import "qedverif/cq"

func dispatch8(cmd string, out *cq.Out, seed uint64, tier, arg string) bool {
	switch cmd {
	case "http":
		httpCmd(out, seed, tier)
	default:
		return dispatch9(cmd, out, seed, tier, arg)
	}
	return true
}
