package main

import (
	"bytes"
	"fmt"

	"github.com/bbva/qed/consensus"
	"github.com/bbva/qed/crypto/hashing"
	"qedverif/cq"
)

// ---- C13 (binary encodings): replicated commands (type byte + msgpack body) and the persisted FSM state survive
// encode/decode unchanged, for bulks from one to thousands of digests and digests made of the bytes msgpack treats
// specially.
func cmdwireCmd(out *cq.Out, seed uint64, tier string) {
	rng := cq.NewRng(seed)
	sizes := []int{1, 2, 3, 15, 16, 17, 31, 32, 33, 255, 256, 257, 1000, 4096}
	if tier == "thorough" {
		sizes = append(sizes, 65535, 65536, 65537, 100000)
	}
	special := []byte{0x00, 0x7f, 0x80, 0x90, 0xa0, 0xbf, 0xc0, 0xc4, 0xc5, 0xc6, 0xd9, 0xda, 0xdb, 0xdc, 0xdd, 0xde, 0xdf, 0xe0, 0xff}
	for _, n := range sizes {
		for variant := 0; variant < 3; variant++ {
			var ds []hashing.Digest
			for i := 0; i < n; i++ {
				var d []byte
				switch variant {
				case 0:
					d = rng.Bytes(32)
				case 1:
					d = bytes.Repeat([]byte{special[(i+n)%len(special)]}, 32)
				default:
					d = rng.Bytes(32)
					d[0], d[31] = special[i%len(special)], special[(i*7)%len(special)]
				}
				ds = append(ds, d)
			}
			got, err := consensus.VCommandRoundTrip(ds)
			ok := err == nil && len(got) == len(ds)
			for i := 0; ok && i < len(ds); i++ {
				ok = bytes.Equal(got[i], ds[i])
			}
			out.Case(fmt.Sprintf("cmd:%d:%d", n, variant), n > 1)
			out.Count("commands", 1)
			if !ok {
				out.Violate("C13:replicated-command-roundtrip", fmt.Sprintf("an add command carrying %d digests (variant %d) does not decode to what was encoded (err=%v, decoded %d digests)", n, variant, err, len(got)),
					map[string]interface{}{"seed": seed, "digests": n, "variant": variant})
			}
		}
	}
	vals := []uint64{0, 1, 127, 128, 255, 256, 65535, 65536, 1<<32 - 1, 1 << 32, 1<<63 - 1, 1 << 63, ^uint64(0)}
	for _, a := range vals {
		for _, b := range vals {
			i, v, err := consensus.VStateRoundTrip(a, b)
			out.Case(fmt.Sprintf("state:%d:%d", a, b), true)
			if err != nil || i != a || v != b {
				out.Violate("C13:fsm-state-roundtrip", fmt.Sprintf("the persisted FSM state (index %d, version %d) decodes as (index %d, version %d, err=%v)", a, b, i, v, err),
					map[string]interface{}{"seed": seed, "index": a, "version": b})
			}
		}
	}
	out.Sample(map[string]interface{}{"command_sizes": sizes, "state_values": len(vals) * len(vals)})
}
