package main

import (
	"bytes"
	"fmt"
	"os"

	"github.com/bbva/qed/balloon"
	"github.com/bbva/qed/consensus"
	"github.com/bbva/qed/crypto/hashing"
	"qedverif/cq"
)

// ---- C13 (binary encodings): replicated commands (type byte + msgpack body) and the persisted FSM state survive
// encode/decode unchanged, for bulks from one to thousands of digests and digests made of the bytes msgpack treats
// specially.
func cmdwireCmd(out *cq.Out, seed uint64, tier string) {
	rng := cq.NewRng(seed)
	sizes := []int{1, 2, 3, 15, 16, 17, 31, 32, 33, 255, 256, 257, 1000, 4096}
	if tier == "thorough" {
		sizes = append(sizes, 65535, 65536, 65537, 100000)
	}
	special := []byte{0x00, 0x7f, 0x80, 0x90, 0xa0, 0xbf, 0xc0, 0xc4, 0xc5, 0xc6, 0xd9, 0xda, 0xdb, 0xdc, 0xdd, 0xde, 0xdf, 0xe0, 0xff}
	for _, n := range sizes {
		for variant := 0; variant < 3; variant++ {
			var ds []hashing.Digest
			for i := 0; i < n; i++ {
				var d []byte
				switch variant {
				case 0:
					d = rng.Bytes(32)
				case 1:
					d = bytes.Repeat([]byte{special[(i+n)%len(special)]}, 32)
				default:
					d = rng.Bytes(32)
					d[0], d[31] = special[i%len(special)], special[(i*7)%len(special)]
				}
				ds = append(ds, d)
			}
			got, err := consensus.VCommandRoundTrip(ds)
			ok := err == nil && len(got) == len(ds)
			for i := 0; ok && i < len(ds); i++ {
				ok = bytes.Equal(got[i], ds[i])
			}
			out.Case(fmt.Sprintf("cmd:%d:%d", n, variant), n > 1)
			out.Count("commands", 1)
			if !ok {
				out.Violate("C13:replicated-command-roundtrip", fmt.Sprintf("an add command carrying %d digests (variant %d) does not decode to what was encoded (err=%v, decoded %d digests)", n, variant, err, len(got)),
					map[string]interface{}{"seed": seed, "digests": n, "variant": variant})
			}
		}
	}
	// the decoding side as the state machine uses it: commands of different sizes through ONE node, in sequence - each
	// entry is applied with exactly the digests it carries, and the snapshots handed out for earlier entries keep theirs
	{
		dir, _ := os.MkdirTemp(out.Dir, "cmdseq")
		n := openFSM(dir)
		sizesSeq := []int{4, 1, 3, 1, 1, 6, 2, 1}
		idx := uint64(1)
		ev := uint64(0)
		type issued struct {
			snap   *balloon.Snapshot
			digest hashing.Digest
		}
		var all []issued
		for step, k := range sizesSeq {
			var ds []hashing.Digest
			for j := 0; j < k; j++ {
				ds = append(ds, digestOf("cmdseq", ev))
				ev++
			}
			snaps, already := n.VApply(idx, ds)
			idx++
			if already || len(snaps) != k {
				out.Violate("C13:replicated-command-decoded-differently", fmt.Sprintf("entry %d of a sequence carried %d digests (after entries of sizes %v) and was applied as %d events (already=%v)", step, k, sizesSeq[:step], len(snaps), already),
					map[string]interface{}{"seed": seed, "sizes": sizesSeq, "step": step})
				break
			}
			for j, sn := range snaps {
				all = append(all, issued{sn, append(hashing.Digest{}, ds[j]...)})
			}
			for i, is := range all {
				if !bytes.Equal(is.snap.EventDigest, is.digest) || is.snap.Version != uint64(i) {
					out.Violate("C13:issued-snapshot-changed-by-later-command", fmt.Sprintf("after entry %d the snapshot issued earlier for event %d carries another event digest (or version %d)", step, i, is.snap.Version),
						map[string]interface{}{"seed": seed, "sizes": sizesSeq, "step": step, "event": i})
					break
				}
			}
			out.Case(fmt.Sprintf("cmdseq:%d", step), k > 1)
		}
		if v := n.VBalloonVersion(); v != ev && len(all) == int(ev) {
			out.Violate("C13:replicated-command-decoded-differently", fmt.Sprintf("%d digests were replicated in %d commands; the log holds %d events", ev, len(sizesSeq), v), map[string]interface{}{"seed": seed, "sizes": sizesSeq})
		}
		n.VCloseFSM()
		os.RemoveAll(dir)
	}
	vals := []uint64{0, 1, 127, 128, 255, 256, 65535, 65536, 1<<32 - 1, 1 << 32, 1<<63 - 1, 1 << 63, ^uint64(0)}
	for _, a := range vals {
		for _, b := range vals {
			i, v, err := consensus.VStateRoundTrip(a, b)
			out.Case(fmt.Sprintf("state:%d:%d", a, b), true)
			if err != nil || i != a || v != b {
				out.Violate("C13:fsm-state-roundtrip", fmt.Sprintf("the persisted FSM state (index %d, version %d) decodes as (index %d, version %d, err=%v)", a, b, i, v, err),
					map[string]interface{}{"seed": seed, "index": a, "version": b})
			}
		}
	}
	out.Sample(map[string]interface{}{"command_sizes": sizes, "state_values": len(vals) * len(vals)})
}
