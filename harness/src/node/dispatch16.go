package main

import "qedverif/cq"

func dispatch16(cmd string, out *cq.Out, seed uint64, tier, arg string) bool { return false }
