package main

import "qedverif/cq"

func dispatch16(cmd string, out *cq.Out, seed uint64, tier, arg string) bool {
	switch cmd {
	case "cmdwire":
		cmdwireCmd(out, seed, tier)
	case "server":
		serverCmd(out, seed, tier)
	case "failwrite":
		failwriteCmd(out, seed, tier)
	default:
		return false
	}
	return true
}
