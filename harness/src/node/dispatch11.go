package main

import "qedverif/cq"

func dispatch11(cmd string, out *cq.Out, seed uint64, tier, arg string) bool {
	switch cmd {
	case "stress":
		stressCmd(out, seed, tier)
		return true
	}
	return dispatch12(cmd, out, seed, tier, arg)
}
