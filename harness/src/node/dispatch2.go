package main

import "qedverif/cq"

func dispatch2(cmd string, out *cq.Out, seed uint64, tier, arg string) bool {
	switch cmd {
	case "fsm":
		fsmCmd(out, seed, tier)
	default:
		return dispatch3(cmd, out, seed, tier, arg)
	}
	return true
}
