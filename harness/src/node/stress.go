package main

import (
	"encoding/binary"
	"fmt"
	"os"
	"sync"
	"sync/atomic"
	"time"

	"github.com/bbva/qed/balloon"
	"github.com/bbva/qed/consensus"
	"github.com/bbva/qed/crypto/hashing"
	"github.com/bbva/qed/protocol"
	"qedverif/cq"
)

// ---- C10: many query goroutines (which run concurrently with EACH OTHER under the read lock) while an apply
// goroutine inserts; an answer is verified after it was returned, i.e. possibly after later insertions were
// applied - it must still verify against the snapshots issued for the versions it names, and a proof kept across
// later insertions must not change.
func stressCmd(out *cq.Out, seed uint64, tier string) {
	rng := cq.NewRng(seed)
	rounds, readers, queries, inserts := 3, 6, 400, 150
	if tier == "thorough" {
		rounds, readers, queries, inserts = 8, 8, 1500, 500
	}
	for r := 0; r < rounds; r++ {
		dir, _ := os.MkdirTemp(out.Dir, "stress")
		ch := make(chan *protocol.Snapshot, 1024)
		drain(ch)
		n, err := consensus.VNewFSM(openRocks(dir+"/db"), ch)
		if err != nil {
			panic(err)
		}
		base := 24 + rng.Intn(24)
		var snaps []*balloon.Snapshot
		var events []hashing.Digest
		idx := uint64(1)
		for len(events) < base {
			k := 1 + rng.Intn(4)
			var evs []hashing.Digest
			for j := 0; j < k; j++ {
				evs = append(evs, digestOf(fmt.Sprintf("st%d", r), uint64(len(events)+j)))
			}
			s, _ := n.VApply(idx, evs)
			idx++
			snaps = append(snaps, s...)
			events = append(events, evs...)
		}
		old := len(events)
		desc := map[string]interface{}{"seed": seed, "round": r, "events_before": old, "readers": readers, "queries_per_reader": queries, "insertions": inserts}
		out.Note(desc)

		// (a) a proof kept across later insertions
		k0 := rng.Intn(old)
		q0 := uint64(k0 + rng.Intn(old-k0))
		held, err := n.QueryDigestMembershipConsistency(events[k0], q0)
		heldCur := uint64(0)
		heldOK := false
		if err == nil && held.Exists {
			heldCur = held.CurrentVersion
			heldOK = held.DigestVerify(events[k0], &balloon.Snapshot{HistoryDigest: snaps[q0].HistoryDigest, HyperDigest: snaps[heldCur].HyperDigest})
		}
		if !heldOK {
			out.Violate("C10:inconsistent-answer-under-load", fmt.Sprintf("the membership answer for event %d at version %d does not verify on an idle node", k0, q0), desc)
		}

		raw := func(k int) []byte {
			var b [8]byte
			binary.BigEndian.PutUint64(b[:], uint64(k))
			return append([]byte(fmt.Sprintf("st%d", r)), b[:]...)
		}
		var bad, panics, answered int64
		var firstBad atomic.Value
		var wg sync.WaitGroup
		seeds := make([]uint64, readers)
		for i := range seeds {
			seeds[i] = rng.U64()
		}
		stop := make(chan struct{})
		for g := 0; g < readers; g++ {
			wg.Add(1)
			go func(g int) {
				defer wg.Done()
				lr := cq.NewRng(seeds[g])
				for i := 0; i < queries; i++ {
					select {
					case <-stop:
						return
					default:
					}
					k := lr.Intn(old)
					q := uint64(k + lr.Intn(old-k))
					// every other query is about versions issued during the run (the readers keep reaching nodes
					// nobody has read before, as the clients of a live log do)
					issued := old
					if i%2 == 1 {
						snapsMu.Lock()
						issued = len(snaps)
						snapsMu.Unlock()
						lo := issued - 8
						if lo < 0 {
							lo = 0
						}
						k = lo + lr.Intn(issued-lo)
						q = uint64(k + lr.Intn(issued-k))
					}
					evk := digestOf(fmt.Sprintf("st%d", r), uint64(k))
					var why string
					p, msg := cq.Catch(func() {
						if lr.Intn(3) == 0 {
							s0 := uint64(lr.Intn(int(q) + 1))
							if lr.Intn(3) == 0 {
								// up to the version right after the last snapshot issued - the one being inserted right now, if any:
								// a clean refusal, or (if the insertion got there first) a proof that verifies
								snapsMu.Lock()
								next := uint64(len(snaps))
								snapsMu.Unlock()
								ip, err := n.QueryConsistency(s0, next)
								if err == nil {
									ss, se := snapshotAt(&snapsMu, &snaps, s0), snapshotAt(&snapsMu, &snaps, next)
									if ss == nil || se == nil || !ip.Verify(ss, se) {
										why = fmt.Sprintf("the incremental proof (%d,%d) up to the version being inserted does not verify against the snapshots issued for those versions", s0, next)
									}
								}
								return
							}
							ip, err := n.QueryConsistency(s0, q)
							ss, se := snapshotAt(&snapsMu, &snaps, s0), snapshotAt(&snapsMu, &snaps, q)
							if err != nil {
								why = "consistency query failed: " + err.Error()
							} else if ss == nil || se == nil || !ip.Verify(ss, se) {
								why = fmt.Sprintf("the incremental proof (%d,%d) does not verify against the snapshots issued for those versions", s0, q)
							}
							return
						}
						var mp *balloon.MembershipProof
						var err error
						switch lr.Intn(4) {
						case 0:
							mp, err = n.QueryDigestMembershipConsistency(evk, q)
						case 1:
							mp, err = n.QueryMembershipConsistency(raw(k), q)
						case 2:
							mp, err = n.QueryDigestMembership(evk)
						default:
							mp, err = n.QueryMembership(raw(k))
						}
						if err != nil {
							why = "membership query failed: " + err.Error()
							return
						}
						// the versions named by the answer may have been issued during the run: wait for their snapshots
						cur := mp.CurrentVersion
						sn := snapshotAt(&snapsMu, &snaps, cur)
						hq := snapshotAt(&snapsMu, &snaps, mp.QueryVersion)
						if sn == nil || hq == nil {
							why = fmt.Sprintf("the answer names versions (query %d, current %d) that were never issued", mp.QueryVersion, cur)
						} else if !mp.Exists || !mp.DigestVerify(evk, &balloon.Snapshot{HistoryDigest: hq.HistoryDigest, HyperDigest: sn.HyperDigest}) {
							why = fmt.Sprintf("the membership answer for event %d at version %d (current %d) does not verify against the snapshots issued for those versions", k, mp.QueryVersion, cur)
						}
					})
					atomic.AddInt64(&answered, 1)
					if p {
						atomic.AddInt64(&panics, 1)
						firstBad.CompareAndSwap(nil, "a query failed internally: "+msg)
					} else if why != "" {
						atomic.AddInt64(&bad, 1)
						firstBad.CompareAndSwap(nil, why)
					}
				}
			}(g)
		}
		// the apply goroutine
		applied := make(chan struct{})
		go func() {
			defer close(applied)
			for i := 0; i < inserts; i++ {
				k := 1 + rng.Intn(3)
				var evs []hashing.Digest
				for j := 0; j < k; j++ {
					evs = append(evs, digestOf(fmt.Sprintf("st%d", r), uint64(len(events)+j)))
				}
				s, _ := n.VApply(idx, evs)
				idx++
				events = append(events, evs...)
				snapsMu.Lock()
				snaps = append(snaps, s...)
				snapsMu.Unlock()
			}
		}()
		if !withTimeout(120*time.Second, func() { <-applied; wg.Wait() }) {
			out.Violate("C10:queries-and-insertions-stall", fmt.Sprintf("concurrent queries and insertions stopped making progress: after 120 s %d of %d queries were answered and the insertions had not finished (a query neither returned a proof nor an error)", atomic.LoadInt64(&answered), readers*queries), desc)
			return // the node cannot be closed any more
		}
		close(stop)
		if panics > 0 {
			out.Violate("C10:query-panic-under-load", fmt.Sprintf("%d of %d concurrent queries failed internally; first: %v", panics, answered, firstBad.Load()), desc)
		} else if bad > 0 {
			out.Violate("C10:inconsistent-answer-under-load", fmt.Sprintf("%d of %d answers returned while insertions were applied do not verify; first: %v", bad, answered, firstBad.Load()), desc)
		}
		// (a) again: the SAME proof object against the SAME snapshots, after the insertions
		if heldOK && !held.DigestVerify(events[k0], &balloon.Snapshot{HistoryDigest: snaps[q0].HistoryDigest, HyperDigest: snaps[heldCur].HyperDigest}) {
			out.Violate("C10:answer-changed-after-later-insertions", fmt.Sprintf("the membership answer for event %d at version %d verified when it was returned and no longer verifies against the same snapshots after %d later insertions", k0, q0, inserts), desc)
		}
		out.Count("stress_queries", int(answered))
		for i := 0; i < int(answered); i += 16 {
			out.Case(fmt.Sprintf("stress:%d:%d", r, i), true)
		}
		out.Sample(map[string]interface{}{"round": r, "events_before": old, "queries": answered, "insertions": inserts})
		n.VCloseFSM()
		os.RemoveAll(dir)
	}
}

var snapsMu sync.Mutex

func snapshotAt(mu *sync.Mutex, snaps *[]*balloon.Snapshot, v uint64) *balloon.Snapshot {
	for t := 0; t < 2000; t++ {
		mu.Lock()
		if v < uint64(len(*snaps)) {
			s := (*snaps)[v]
			mu.Unlock()
			return s
		}
		mu.Unlock()
		sleepMs(1)
	}
	return nil
}

func sleepMs(ms int) { time.Sleep(time.Duration(ms) * time.Millisecond) }
