package main

import "qedverif/cq"

func dispatch4(cmd string, out *cq.Out, seed uint64, tier, arg string) bool {
	switch cmd {
	case "cluster":
		clusterCmd(out, seed, tier)
	default:
		return dispatch5(cmd, out, seed, tier, arg)
	}
	return true
}
