package main

import (
	"os"

	"github.com/bbva/qed/storage"
	"github.com/bbva/qed/storage/rocks"
	"qedverif/cq"
	"qedverif/storeops"
)

func rocksStoreCmd(out *cq.Out, seed uint64, tier string) {
	n := 0
	var dir string
	open := func() storage.Store {
		n++
		dir, _ = os.MkdirTemp(out.Dir, "rocks")
		s, err := rocks.NewRocksDBStore(dir, 0)
		if err != nil {
			panic(err)
		}
		return s
	}
	reopen := func(s storage.Store) storage.Store {
		s.Close()
		s2, err := rocks.NewRocksDBStore(dir, 0)
		if err != nil {
			panic(err)
		}
		return s2
	}
	storeops.Run(out, seed, tier, "rocks", open, reopen)
}

// dispatch is extended by the other node commands.
func dispatch(cmd string, out *cq.Out, seed uint64, tier, arg string) bool {
	switch cmd {
	case "raftlog":
		raftlogCmd(out, seed, tier)
	default:
		return dispatch2(cmd, out, seed, tier, arg)
	}
	return true
}
