package main

import (
	"fmt"
	"os"
	"sync"

	"encoding/binary"
	"github.com/bbva/qed/storage"
	"github.com/bbva/qed/storage/rocks"
	"qedverif/cq"
	"qedverif/storeops"
	"sync/atomic"
)

func rocksStoreCmd(out *cq.Out, seed uint64, tier string) {
	n := 0
	var dir string
	open := func() storage.Store {
		n++
		dir, _ = os.MkdirTemp(out.Dir, "rocks")
		s, err := rocks.NewRocksDBStore(dir, 0)
		if err != nil {
			panic(err)
		}
		return s
	}
	reopen := func(s storage.Store) storage.Store {
		s.Close()
		s2, err := rocks.NewRocksDBStore(dir, 0)
		if err != nil {
			panic(err)
		}
		return s2
	}
	storeops.Run(out, seed, tier, "rocks", open, reopen)
	largeBatchAtomic(out, seed, tier)
}

// largeBatchAtomic: one Mutate call with thousands of mutations over several tables (a bulk insertion of a few
// thousand events produces such a batch) is one atomic write: it reaches the engine as one write-ahead-log record, and a
// reader that sees its first key also sees its last.
func largeBatchAtomic(out *cq.Out, seed uint64, tier string) {
	dir, _ := os.MkdirTemp(out.Dir, "rocksbig")
	st, err := rocks.NewRocksDBStore(dir, 0)
	if err != nil {
		panic(err)
	}
	defer os.RemoveAll(dir)
	sizes := []int{1500, 5000, 10003}
	if tier == "thorough" {
		sizes = append(sizes, 4095, 4096, 4097, 40000)
	}
	tables := []storage.Table{storage.HistoryTable, storage.HyperTable, storage.HyperCacheTable}
	for round, n := range sizes {
		var muts []*storage.Mutation
		for i := 0; i < n; i++ {
			k := []byte(fmt.Sprintf("r%02d-%07d", round, i))
			muts = append(muts, storage.NewMutation(tables[i%len(tables)], k, []byte{byte(round), byte(i)}))
		}
		muts = append(muts, storage.NewMutation(storage.FSMStateTable, storage.FSMStateTableKey, []byte{byte(round)}))
		first, last := muts[0], muts[len(muts)-1]
		stop := make(chan struct{})
		torn := make(chan string, 1)
		var wg sync.WaitGroup
		wg.Add(1)
		go func() {
			defer wg.Done()
			for {
				select {
				case <-stop:
					return
				default:
				}
				f, ferr := st.Get(first.Table, first.Key)
				l, lerr := st.Get(last.Table, last.Key)
				if ferr == nil && f != nil && (lerr != nil || l == nil || len(l.Value) == 0 || l.Value[0] != byte(round)) {
					select {
					case torn <- fmt.Sprintf("a reader saw the first key of a %d-mutation batch but not yet its last (the FSM state entry)", n+1):
					default:
					}
					return
				}
			}
		}()
		seqBefore := st.LastWALSequenceNumber()
		if err := st.Mutate(muts, []byte("meta")); err != nil {
			panic(err)
		}
		close(stop)
		wg.Wait()
		records := 0
		st.FetchSnapshot(nopWriteCloser{}, seqBefore, st.LastWALSequenceNumber(), func(meta []byte) (bool, error) {
			records++
			return false, nil
		})
		desc := map[string]interface{}{"seed": seed, "mutations": n + 1, "round": round}
		out.Case(fmt.Sprintf("largebatch:%d", n), true)
		out.Count("large_batches", 1)
		if records != 1 {
			out.Violate("C14:batch-not-atomic:several-engine-writes", fmt.Sprintf("one Mutate call with %d mutations reached the storage engine as %d separate writes: a reader or a crash in between sees part of the batch", n+1, records), desc)
		}
		select {
		case msg := <-torn:
			out.Violate("C14:batch-not-atomic:torn-read", msg, desc)
		default:
		}
	}
	// many small batches shaped like one applied entry (tree mutations, then the FSM state under its one fixed key, rewritten
	// every time): a reader that sees the state of batch j also sees the tree entries of batch j - and of every earlier batch
	{
		const batches = 3000
		stop := make(chan struct{})
		torn := make(chan string, 1)
		var wg sync.WaitGroup
		var checks int64
		for g := 0; g < 3; g++ {
			wg.Add(1)
			go func() {
				defer wg.Done()
				for {
					select {
					case <-stop:
						return
					default:
					}
					f, err := st.Get(storage.FSMStateTable, []byte("small-state"))
					if err != nil || f == nil || len(f.Value) != 8 {
						continue
					}
					j := binary.BigEndian.Uint64(f.Value)
					h, herr := st.Get(storage.HistoryTable, []byte(fmt.Sprintf("small-%07d", j)))
					atomic.AddInt64(&checks, 1)
					if herr != nil || h == nil {
						select {
						case torn <- fmt.Sprintf("a reader saw the state entry of batch %d (a key rewritten by every batch) but not the history entry written by the same batch", j):
						default:
						}
						return
					}
				}
			}()
		}
		for j := uint64(0); j < batches; j++ {
			v := make([]byte, 8)
			binary.BigEndian.PutUint64(v, j)
			muts := []*storage.Mutation{
				storage.NewMutation(storage.HistoryTable, []byte(fmt.Sprintf("small-%07d", j)), v),
				storage.NewMutation(storage.HyperTable, []byte(fmt.Sprintf("small-%07d", j)), v),
				storage.NewMutation(storage.FSMStateTable, []byte("small-state"), v),
			}
			if err := st.Mutate(muts, []byte("meta")); err != nil {
				panic(err)
			}
		}
		close(stop)
		wg.Wait()
		out.Case("smallbatches", true)
		out.Count("small_batch_reader_checks", int(atomic.LoadInt64(&checks)))
		select {
		case msg := <-torn:
			out.Violate("C14:batch-not-atomic:torn-read:rewritten-key", msg, map[string]interface{}{"seed": seed, "batches": batches, "scenario": "small batches rewriting one state key, three readers"})
		default:
		}
	}
	st.Close()
}

// dispatch is extended by the other node commands.
func dispatch(cmd string, out *cq.Out, seed uint64, tier, arg string) bool {
	switch cmd {
	case "raftlog":
		raftlogCmd(out, seed, tier)
	default:
		return dispatch2(cmd, out, seed, tier, arg)
	}
	return true
}
