package main

import (
	"crypto/sha256"
	"encoding/binary"
	"fmt"
	"net"
	"os"
	"strings"
	"time"

	"qedverif/cq"

	"github.com/bbva/qed/consensus"
	"github.com/bbva/qed/crypto/hashing"
	"github.com/bbva/qed/protocol"
	"github.com/bbva/qed/storage"
	"github.com/bbva/qed/storage/rocks"
)

func digestOf(tag string, i uint64) hashing.Digest {
	var b [8]byte
	binary.BigEndian.PutUint64(b[:], i)
	h := sha256.Sum256(append([]byte(tag), b[:]...))
	return h[:]
}

func openRocks(dir string) storage.ManagedStore {
	os.MkdirAll(dir, 0755)
	s, err := rocks.NewRocksDBStore(dir, 0)
	if err != nil {
		panic(err)
	}
	return s
}

func drain(ch chan *protocol.Snapshot) {
	go func() {
		for range ch {
		}
	}()
}

func openFSM(dir string) *consensus.RaftNode {
	ch := make(chan *protocol.Snapshot, 1024)
	drain(ch)
	n, err := consensus.VNewFSM(openRocks(dir), ch)
	if err != nil {
		panic(err)
	}
	return n
}

// freePorts returns n distinct free TCP ports on the loopback interface.
func freePorts(n int) []int {
	var ls []net.Listener
	var ps []int
	for len(ps) < n {
		l, err := net.Listen("tcp", "127.0.0.1:0")
		if err != nil {
			continue
		}
		ls = append(ls, l)
		ps = append(ps, l.Addr().(*net.TCPAddr).Port)
	}
	for _, l := range ls {
		l.Close()
	}
	return ps
}

// dumpTables returns every table of a store as sorted (key,value) lists, for replica comparison.
func dumpTables(st storage.Store) map[string][][2][]byte {
	out := map[string][][2][]byte{}
	for _, t := range []storage.Table{storage.HyperTable, storage.HyperCacheTable, storage.HistoryTable, storage.FSMStateTable} {
		r := st.GetAll(t)
		buf := make([]*storage.KVPair, 256)
		for {
			n, _ := r.Read(buf)
			if n == 0 {
				break
			}
			for i := 0; i < n; i++ {
				out[t.String()] = append(out[t.String()], [2][]byte{buf[i].Key, buf[i].Value})
			}
		}
		r.Close()
	}
	return out
}

func tablesFP(st storage.Store) string {
	h := sha256.New()
	d := dumpTables(st)
	for _, t := range []string{"hyper", "hypercache", "history", "fsm"} {
		fmt.Fprintf(h, "%s:%d;", t, len(d[t]))
		for _, kv := range d[t] {
			h.Write(kv[0])
			h.Write([]byte{0xff})
			h.Write(kv[1])
		}
	}
	return fmt.Sprintf("%x", h.Sum(nil)[:12])
}

type nodeOpts struct {
	id           int
	name         string
	dir          string
	raftPort     int
	bootstrap    bool
	seeds        []string
	snapThr      uint64
	trailing     uint64
	store        storage.ManagedStore    // optional pre-built (wrapped) store
	snapCh       chan *protocol.Snapshot // optional: the snapshots channel (not drained by the harness)
	applyTimeout time.Duration           // optional: RaftApplyTimeout
}

// startNode starts a real RaftNode (raft + rocks) in this process.
func startNode(o nodeOpts) (*consensus.RaftNode, chan *protocol.Snapshot, error) {
	opts := consensus.DefaultClusteringOptions()
	opts.NodeID = fmt.Sprintf("%s_%d", o.name, o.id)
	opts.Addr = fmt.Sprintf("127.0.0.1:%d", o.raftPort)
	opts.MgmtAddr = fmt.Sprintf("127.0.0.1:%d", o.raftPort+1)
	opts.HttpAddr = fmt.Sprintf("127.0.0.1:%d", o.raftPort+2)
	opts.Bootstrap = o.bootstrap
	opts.Seeds = o.seeds
	opts.SnapshotThreshold = o.snapThr
	opts.TrailingLogs = o.trailing
	opts.RaftHeartbeatTimeout = 300 * time.Millisecond
	opts.RaftElectionTimeout = 300 * time.Millisecond
	opts.RaftLeaseTimeout = 300 * time.Millisecond
	opts.RaftCommitTimeout = 20 * time.Millisecond
	opts.RaftLogPath = o.dir + "/raft"
	if o.applyTimeout > 0 {
		opts.RaftApplyTimeout = o.applyTimeout
	}
	os.MkdirAll(opts.RaftLogPath, 0755)
	st := o.store
	if st == nil {
		st = openRocks(o.dir + "/db")
	}
	ch := o.snapCh
	if ch == nil {
		ch = make(chan *protocol.Snapshot, 65536)
		drain(ch)
	}
	n, err := consensus.NewRaftNode(opts, st, ch, nil)
	if err != nil {
		// e.g. the raft port was taken by another process in the meantime: do not keep the store (and its LOCK file) open
		cq.Catch(func() { st.Close() })
		return nil, nil, err
	}
	return n, ch, nil
}

// portTaken: the error of a node start that failed because another process took the TCP port in the meantime - an
// accident of the machine, not a behaviour of QED (the scenario is skipped and counted, never reported)
func portTaken(err error) bool {
	return err != nil && (strings.Contains(err.Error(), "address already in use") || strings.Contains(err.Error(), "bind:"))
}

func waitLeader(n *consensus.RaftNode) bool {
	for i := 0; i < 200; i++ {
		if n.IsLeader() {
			return true
		}
		time.Sleep(50 * time.Millisecond)
	}
	return false
}
