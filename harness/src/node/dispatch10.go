package main

import "qedverif/cq"

func dispatch10(cmd string, out *cq.Out, seed uint64, tier, arg string) bool {
	switch cmd {
	case "sender":
		senderCmd(out, seed, tier)
		return true
	}
	return dispatch11(cmd, out, seed, tier, arg)
}
