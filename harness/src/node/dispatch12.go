package main

import "qedverif/cq"

func dispatch12(cmd string, out *cq.Out, seed uint64, tier, arg string) bool {
	switch cmd {
	case "agents":
		agentsCmd(out, seed, tier)
		return true
	}
	return dispatch13(cmd, out, seed, tier, arg)
}
