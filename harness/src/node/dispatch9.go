package main

import "qedverif/cq"

func dispatch9(cmd string, out *cq.Out, seed uint64, tier, arg string) bool {
	switch cmd {
	case "backup":
		backupCmd(out, seed, tier)
	default:
		return dispatch10(cmd, out, seed, tier, arg)
	}
	return true
}
